(** The assignment accumulated along a run, read through the names, is the denotational
    [derived_asst]: every value of a named node is the value [derived_asst] gives to that name. *)
From Coq Require Import List Arith Bool PeanoNat Lia Permutation.
Import ListNotations.
Require Import Fggs.Model.Replace Fggs.Proofs.Replace_base Fggs.Proofs.Replace_wf Fggs.Proofs.Replace_explicit
  Fggs.Proofs.Replace_spec Fggs.Proofs.Replace_model_spec Fggs.Proofs.Replace_inv Fggs.Proofs.Replace_step
  Fggs.Proofs.Replace_nodup Fggs.Proofs.Replace_confl Fggs.Proofs.Replace_derive Fggs.Proofs.Replace_asst.

Record InvD (t0 : dtree) (s : rstate) : Prop := {
  D_val : forall v x y, In (v, x) (rs_nnames s) -> aget node_eqb (rs_asst s) v = Some y ->
                        In (x, y) (derived_asst t0);
  D_pend : forall tk, In tk (rs_pending s) -> incl (dsub_asst (tk_path tk) (tk_tree tk)) (derived_asst t0);
  D_glue : forall tk, In tk (rs_pending s) -> forall g v x y,
      In (g, v) (combine (e_att (tk_edge tk)) (g_ext (r_rhs (t_rule (tk_tree tk))))) ->
      In (g, x) (rs_nnames s) -> aget node_eqb (t_asst (tk_tree tk)) v = Some y ->
      In (x, y) (derived_asst t0) }.

Lemma start_glue : forall (a : asst_t) ns ext j g v x y, NoDup ns ->
  In (g, v) (combine ns ext) -> In (g, x) (start_names j ns) -> aget node_eqb a v = Some y ->
  In (x, y) (start_asst j a ext).
Proof.
  intros a. induction ns as [|n ns IH]; intros ext j g v x y ND Hc Hn Ha; simpl in *; try tauto.
  destruct ext as [|v0 ext]; simpl in *; try tauto. inversion ND; subst.
  assert (K : forall z k, In (g, z) (start_names k ns) -> In g ns).
  { intros z k Hz. rewrite <- (start_names_keys ns k). apply in_map_iff. exists (g, z); auto. }
  destruct Hc as [Hc|Hc].
  - inversion Hc; subst. destruct Hn as [Hn|Hn].
    + inversion Hn; subst. rewrite Ha. simpl; auto.
    + exfalso. apply H1. eapply K; eauto.
  - assert (Hg : In g ns) by (eapply in_combine_l; eauto).
    destruct Hn as [Hn|Hn].
    + inversion Hn; subst. contradiction.
    + apply in_app_iff; right. eapply IH; eauto.
Qed.

Section DStep.
  Variable L : list elabel.
  Hypothesis HF : functional L.
  Variables (s : rstate) (p0 : path) (pre post : list task) (tk : task) (r : rule) (a : asst_t) (cs : list (edge * dtree)).
  Hypothesis HI : Inv L s.
  Hypothesis HS : split_task p0 (rs_pending s) = Some (pre, tk, post).
  Hypothesis HT : tk_tree tk = DT r a cs.
  Hypothesis HA : InvA s.
  Variable as' : asst_t.
  Hypothesis Has : assign_nodes (r_nm (rs_next s) (tk_edge tk) (r_rhs r)) a (g_nodes (r_rhs r)) (rs_asst s) = (as', None).
  Variable t0 : dtree.
  Hypothesis HD : InvD t0 s.

  Local Notation G := (rs_graph s).
  Local Notation nx := (rs_next s).
  Local Notation e := (tk_edge tk).
  Local Notation R := (r_rhs r).
  Local Notation p := (tk_path tk).
  Local Notation nm := (r_nm (rs_next s) (tk_edge tk) (r_rhs r)).
  Local Notation em := (r_em (rs_next s) (tk_edge tk) (r_rhs r)).
  Local Notation nn := (rs_nnames s).
  Local Notation nn' := (rs_nnames s ++ new_nnames (tk_path tk) (r_rhs r) (r_nm (rs_next s) (tk_edge tk) (r_rhs r))).
  Local Notation GD := (step_guard L HF s p0 pre post tk r a cs HI HS HT).
  Local Notation FACTS := (asst_step_facts L HF s p0 pre post tk r a cs HI HS HT HA as' Has).
  Local Notation TKIN := (tk_in s p0 pre post tk HS).

  Lemma nn'_old : forall g x, In (g, x) nn' -> In g (g_nodes G) -> In (g, x) nn.
  Proof.
    intros g x Hin Hg. apply in_app_iff in Hin. destruct Hin as [Hin|Hin]; auto.
    exfalso. assert (Hk : In g (map fst (new_nnames p R nm))) by (apply in_map_iff; exists (g, x); auto).
    rewrite (new_nnames_keys L HF s p0 pre post tk r a cs HI HS HT) in Hk.
    apply (copies_not_old L s r HI g Hk Hg).
  Qed.

  Lemma own_asst_in : forall u y, In u (g_nodes R) -> ~ In u (g_ext R) -> aget node_eqb a u = Some y ->
    In (NInst p (n_id u), y) (derived_asst t0).
  Proof.
    intros u y Hu Hx Ha. apply (D_pend t0 s HD tk TKIN). rewrite HT. cbn [dsub_asst].
    apply in_app_iff; left. apply in_flat_map. exists u. split.
    - apply filter_In. split; auto. apply negb_true_iff. unfold is_ext. apply (memb_false node_eqb node_eqb_eq); auto.
    - rewrite Ha. simpl; auto.
  Qed.

  Lemma dval_next : forall v' x y, In (v', x) nn' -> aget node_eqb as' v' = Some y -> In (x, y) (derived_asst t0).
  Proof.
    intros v' x y Hin Hy. destruct FACTS as [F1 [F2 F3]].
    destruct (existsb (fun u => node_eqb (gn nm u) v') (g_nodes R)) eqn:EX.
    - apply existsb_exists in EX. destruct EX as [u [Hu Eu]]. apply node_eqb_eq in Eu. subst v'.
      rewrite (F1 u Hu) in Hy.
      destruct (gn_cases L HF s p0 pre post tk r a cs HI HS HT u Hu) as [[X [C O]]|[X [C O]]].
      + apply (D_glue t0 s HD tk TKIN (gn nm u) u x y).
        * rewrite HT. cbn [t_rule]. apply combine_swap; auto.
        * apply nn'_old; auto.
        * rewrite HT. cbn [t_asst]. auto.
      + assert (Hnew : In (gn nm u, x) (new_nnames p R nm)).
        { apply in_app_iff in Hin. destruct Hin as [Hin|Hin]; auto. exfalso. apply O.
          rewrite <- (I_nn L s HI). apply in_map_iff. exists (gn nm u, x); auto. }
        rewrite (new_nnames_eq L HF s p0 pre post tk r a cs HI HS HT) in Hnew.
        apply in_map_iff in Hnew. destruct Hnew as [[u' c'] [E Hc']]. cbn [fst snd] in E. inversion E; subst.
        assert (u' = u).
        { eapply (combine_inj_l n_id); [|exact Hc'|exact C|reflexivity]. apply copies_ids_nodup. }
        subst u'. apply own_asst_in; auto.
    - assert (NI : forall u, In u (g_nodes R) -> gn nm u <> v').
      { intros u Hu Eu. assert (existsb (fun u => node_eqb (gn nm u) v') (g_nodes R) = true).
        { apply existsb_exists. exists u. split; auto. apply node_eqb_eq; auto. } congruence. }
      rewrite (F2 v' NI) in Hy. apply (D_val t0 s HD v' x y); auto.
      apply in_app_iff in Hin. destruct Hin as [Hin|Hin]; auto. exfalso.
      assert (Hk : In v' (map fst (new_nnames p R nm))) by (apply in_map_iff; exists (v', x); auto).
      rewrite (new_nnames_keys L HF s p0 pre post tk r a cs HI HS HT) in Hk.
      destruct (new_node_image L HF s p0 pre post tk r a cs HI HS HT v' Hk) as [u [Hu Eu]].
      apply (NI u Hu Eu).
  Qed.

  Lemma dstep : InvD t0 (s_next s pre post tk r cs as').
  Proof.
    pose proof (tk_wf L s p0 pre post tk r a cs HI HS HT) as W.
    destruct (wf_dtreeb_unfold _ _ _ _ W) as [_ [_ [_ [_ [_ HC]]]]].
    constructor; unfold s_next; cbn [rs_nnames rs_asst rs_pending].
    - apply dval_next.
    - intros t' Hin. rewrite app_assoc in Hin. apply in_app_iff in Hin. rewrite in_app_iff in Hin.
      destruct Hin as [[Hin|Hin]|Hin].
      + apply (D_pend t0 s HD). apply (other_task_in s p0 pre post tk HS). apply in_app_iff; auto.
      + apply in_map_iff in Hin. destruct Hin as [[k c] [<- Hkc]]. cbn [tk_path tk_tree fst snd].
        intros z Hz. apply (D_pend t0 s HD tk TKIN). rewrite HT. cbn [dsub_asst].
        apply in_app_iff; right. apply in_flat_map. exists (k, c). split; auto.
      + apply (D_pend t0 s HD). apply (other_task_in s p0 pre post tk HS). apply in_app_iff; auto.
    - intros t' Hin g v x y Hgv Hgx Hy. rewrite app_assoc in Hin. apply in_app_iff in Hin. rewrite in_app_iff in Hin.
      assert (OLD : In t' (pre ++ post) -> In (x, y) (derived_asst t0)).
      { intros Ho. pose proof (other_task_in s p0 pre post tk HS t' Ho) as Hp.
        apply (D_glue t0 s HD t' Hp g v x y); auto. apply nn'_old; auto.
        apply (wf_att G (I_wf L s HI) (tk_edge t')). apply (I_pend L s HI t' Hp). eapply in_combine_l; eauto. }
      destruct Hin as [[Hin|Hin]|Hin]; [apply OLD; apply in_app_iff; auto| |apply OLD; apply in_app_iff; auto].
      apply in_map_iff in Hin. destruct Hin as [[k c] [<- Hkc]]. cbn [tk_edge tk_tree fst snd] in *.
      destruct (HC k c Hkc) as [Hk [_ [HGl _]]].
      destruct (ecopy_spec s tk r k Hk) as [_ [j [Hj _]]]. rewrite Hj in Hgv. cbn [e_att] in Hgv.
      apply combine_map_l_In in Hgv. destruct Hgv as [u [-> Huv]].
      destruct (proj1 (glue_okb_spec _ _ _ _) HGl u v Huv) as [x0 [A1 A2]].
      assert (x0 = y) by congruence. subst x0.
      apply (dval_next (gn nm u) x y); auto.
      destruct FACTS as [F1 _]. rewrite F1; auto.
      apply (wf_att R (rg_wfr _ _ _ _ _ GD) k Hk). eapply in_combine_l; eauto.
  Qed.
End DStep.

Lemma init_invD : forall t nx, InvD t (init_state t nx).
Proof.
  intros. rewrite (init_explicit t nx). constructor; cbn [rs_nnames rs_asst rs_pending].
  - intros v x y _ H. simpl in H. discriminate.
  - intros tk [<-|[]]. cbn [tk_path tk_tree]. unfold derived_asst. intros z Hz. apply in_app_iff; auto.
  - intros tk [<-|[]] g v x y Hgv Hgx Hy. cbn [tk_edge tk_tree start_edge e_att] in *.
    unfold derived_asst. apply in_app_iff; left.
    eapply (start_glue (t_asst t)); eauto.
    unfold start_nodes. apply (NoDup_map_NoDup n_id). apply fresh_nodes_ids_nodup.
Qed.

Lemma run_invAD : forall L, functional L -> forall t0 l s s',
  Inv L s -> InvA s -> InvD t0 s -> run l s = Ok s' -> InvA s' /\ InvD t0 s'.
Proof.
  intros L HF t0. induction l as [|p l IH]; intros s s' HI HA HD E.
  - simpl in E. inversion E; subst; auto.
  - simpl in E. destruct (split_task p (rs_pending s)) as [[[pre tk] post]|] eqn:HS.
    + destruct (tk_tree tk) as [r a cs] eqn:HT.
      destruct (step_explicit L HF s p pre post tk r a cs HI HS HT) as [as' [Has Hst]].
      rewrite Hst in E.
      eapply IH; [| | |exact E].
      * apply (s_next_inv L HF s p pre post tk r a cs HI HS HT).
      * apply (asst_step_inv L HF s p pre post tk r a cs HI HS HT HA as' Has).
      * apply (dstep L HF s p pre post tk r a cs HI HS HT HA as' Has t0 HD).
    + rewrite step_not_pending in E by auto. discriminate.
Qed.

(** for EVERY complete order (in particular derive()'s), the accumulated assignment read through
    the names is the denotational one *)
Theorem run_asst_derived : forall L t nx l s,
  wf_dtreeb L t = true -> functionalb L = true ->
  run l (init_state t nx) = Ok s ->
  forall v x y, In (v, x) (rs_nnames s) -> aget node_eqb (rs_asst s) v = Some y -> In (x, y) (derived_asst t).
Proof.
  intros L t nx l s HW HFb R. apply functionalb_iff in HFb.
  destruct (run_invAD L HFb t l (init_state t nx) s (init_inv L t nx HW) (init_invA t nx) (init_invD t nx) R) as [_ HD].
  apply (D_val t s HD).
Qed.

Theorem derive_asst_main : forall L t nx,
  wf_dtreeb L t = true -> functionalb L = true ->
  exists s nn en,
    derive_model t nx = (s, None) /\ iso_via (ds_graph s) nn en (derived_graph t) /\
    forall v x y, In (v, x) nn -> aget node_eqb (ds_asst s) v = Some y -> In (x, y) (derived_asst t).
Proof.
  intros L t nx HW HFb.
  destruct (derive_is_preorder_run L t nx HW HFb) as [rs [R [P [I V]]]].
  exists (proj rs), (rs_nnames rs), (rs_enames rs). split; auto.
  split. { apply (proj2 (confluence_main L t nx HW HFb (preorder [] t)) rs R P). }
  cbn [proj ds_asst]. eapply run_asst_derived; eauto.
Qed.
