(** [dim_to_dense(dim)]: the result denotes the same dense tensor, is well formed, and its dimension
    [dim] is [unitAxis] or a physical axis that occurs in no other dimension (what [log_softmax],
    [norm], iteration rely on).  The early return, and the general path: [freshen] of the other
    dimensions from the empty rename dict, [new_full], the strided [copy_] through the low-level
    [project] (the fold of writes [write_all]).  Guard for the general path: a size-1 dimension is
    [unitAxis] (the [squeeze_(-1)] branch is only reachable with F24's one-element sum types). *)
From Coq Require Import List Arith Lia PeanoNat Bool PArith.
Import ListNotations.
Require Import Fggs.Model.Axis Fggs.Model.PTensor Fggs.Model.PTensorOps.
Require Import Fggs.Proofs.Axis_sem Fggs.Proofs.Axis_unify Fggs.Proofs.Axis_antiunify Fggs.Proofs.Axis_antiunify_inv.
Require Import Fggs.Proofs.PTensor_sem Fggs.Proofs.PTensor_dense Fggs.Proofs.PTensor_views Fggs.Proofs.PTensor_gen.
Require Import Fggs.Proofs.PTensor_binary Fggs.Proofs.PTensor_struct Fggs.Proofs.PTEqual_freshen Fggs.Proofs.Axis_freshen_gen Fggs.Proofs.PTensor_any Fggs.Proofs.PTensor_bcast.
Local Open Scope nat_scope.

(** * the fold of strided writes *)
Lemma write_all_spec {V : Type} (vars : list pn) off val (offv : list pn -> nat) (valv : list pn -> V) :
  forall st0, (forall pi, In pi (all_envs vars) -> off (env_of pi) = Ok (offv pi) /\ val (env_of pi) = Ok (Some (valv pi))) ->
  exists st, write_all vars off val st0 = Ok st /\
    forall o, ((forall pi, In pi (all_envs vars) -> offv pi <> o) -> st o = st0 o) /\
              (forall v, (exists pi, In pi (all_envs vars) /\ offv pi = o) ->
                         (forall pi, In pi (all_envs vars) -> offv pi = o -> valv pi = v) -> st o = v).
Proof.
  unfold write_all. induction (all_envs vars) as [|pi envs IH]; intros st0 Hoff.
  - exists st0. split; [reflexivity|]. intros o. split; [reflexivity|]. intros v [pi [[] _]].
  - simpl. destruct (Hoff pi (or_introl eq_refl)) as [E1 E2]. rewrite E1. cbn [bind]. rewrite E2. cbn [bind].
    destruct (IH (write V st0 (offv pi) (valv pi)) (fun p Hp => Hoff p (or_intror Hp))) as (st & E & S).
    exists st. split; [exact E|]. intros o. destruct (S o) as [S1 S2]. split.
    + intros N. rewrite S1 by (intros p Hp; apply N; right; exact Hp).
      unfold write. destruct (Nat.eqb_spec o (offv pi)) as [->|]; [exfalso; apply (N pi); [left|]; reflexivity|reflexivity].
    + intros v [p [Hp Ep]] Hv.
      destruct (existsb (fun q => Nat.eqb (offv q) o) envs) eqn:Ex.
      * apply existsb_exists in Ex. destruct Ex as (q & Hq & Eq). apply Nat.eqb_eq in Eq.
        apply S2; [exists q; auto|]. intros r Hr Er. apply Hv; [right; exact Hr|exact Er].
      * assert (N : forall q, In q envs -> offv q <> o).
        { intros q Hq Eq. assert (existsb (fun q => Nat.eqb (offv q) o) envs = true); [|congruence].
          apply existsb_exists. exists q. split; [exact Hq|apply Nat.eqb_eq; exact Eq]. }
        rewrite S1 by exact N. destruct Hp as [<-|Hp]; [|exfalso; exact (N p Hp Ep)].
        unfold write. rewrite Ep, Nat.eqb_refl. apply Hv; [left; reflexivity|exact Ep].
Qed.

Lemma at_axes_nil fuel rho es : (forall e, In e es -> asize e <= fuel) -> at_axes fuel [] rho es = Ok (evals rho es).
Proof.
  unfold at_axes, evals. induction es as [|e es IH]; intros H; [reflexivity|]. simpl.
  destruct (stride_total_ge fuel e (H e (or_introl eq_refl))) as (o & s & E). unfold at_axis at 1. rewrite E. cbn [bind fst snd].
  rewrite IH by (intros x Hx; apply H; right; exact Hx). cbn [bind].
  rewrite (stride_affine rho [] (models_nil rho) _ _ _ _ E). reflexivity.
Qed.

Lemma Forall2_map_lt {A} (f g : A -> nat) l : (forall x, In x l -> f x < g x) -> Forall2 lt (map f l) (map g l).
Proof.
  induction l as [|x l IH]; intros H; [constructor|]. simpl. constructor; [apply H; left; reflexivity|].
  apply IH. intros y Hy. apply H. right. exact Hy.
Qed.

Lemma map_eq_In {A B} (f g : A -> B) l x : map f l = map g l -> In x l -> f x = g x.
Proof.
  induction l as [|y l IH]; intros E H; [contradiction|]. simpl in E. injection E as E0 E.
  destruct H as [->|H]; [exact E0|exact (IH E H)].
Qed.

Lemma Forall2_hd {A B} (R : A -> B -> Prop) x l y l' : Forall2 R (x :: l) (y :: l') -> R x y.
Proof. intros H. inversion H. assumption. Qed.

Lemma insert_nth_app {A} (x : A) (a b : list A) : insert_nth (length a) x (a ++ b) = a ++ x :: b.
Proof. induction a as [|y a IH]; [destruct b; reflexivity|]. simpl. f_equal. exact IH. Qed.

Lemma assoc_of_In'' {A} k (s : list (positive * A)) a : NoDup (map fst s) -> In (k, a) s -> assoc k s = Some a.
Proof.
  induction s as [|[k' a'] s IH]; intros ND H; [contradiction|]. simpl in *. inversion ND as [|? ? Hk ND']; subst.
  destruct H as [H|H].
  - inversion H; subst. rewrite Pos.eqb_refl. reflexivity.
  - destruct (Pos.eqb_spec k' k) as [->|_]; [exfalso; apply Hk; apply in_map_iff; exists (k, a); auto|auto].
Qed.

(** the inverse of the renaming on the new names, extended by one value for the new dense axis *)
Definition back_env (R : rename) (kn : positive) (v : nat) (rho : env) : env :=
  fun k' => match find (fun x => Pos.eqb (fst (snd x)) k') R with
            | Some x => rho (fst x)
            | None => if Pos.eqb k' kn then v else 0
            end.

Lemma back_env_val R kn v rho k k' n : NoDup (rvals R) -> In (k, (k', n)) R -> back_env R kn v rho k' = rho k.
Proof.
  intros ND H. unfold back_env. destruct (find _ R) as [[k1 [k1' n1]]|] eqn:F.
  - apply find_some in F. destruct F as [F1 F2]. simpl in F2. apply Pos.eqb_eq in F2. subst k1'. cbn [fst].
    f_equal. clear - ND H F1. induction R as [|[a [a' m]] R IH]; [contradiction|]. simpl in ND. inversion ND as [|? ? Hn ND']; subst.
    destruct H as [H|H], F1 as [F1|F1].
    + congruence.
    + inversion H; subst. exfalso. apply Hn. unfold rvals. apply in_map_iff. exists (k1, (k', n1)). auto.
    + inversion F1; subst. exfalso. apply Hn. unfold rvals. apply in_map_iff. exists (k, (k', n)). auto.
    + auto.
  - exfalso. apply (find_none _ _ F) in H. simpl in H. rewrite Pos.eqb_refl in H. discriminate.
Qed.

Lemma back_env_new R kn v rho : ~ In kn (rvals R) -> back_env R kn v rho kn = v.
Proof.
  intros H. unfold back_env. destruct (find _ R) as [[k1 [k1' n1]]|] eqn:F.
  - apply find_some in F. destruct F as [F1 F2]. simpl in F2. apply Pos.eqb_eq in F2. subst. exfalso. apply H.
    unfold rvals. apply in_map_iff. exists (k1, (kn, n1)). auto.
  - rewrite Pos.eqb_refl. reflexivity.
Qed.

Section D2D.
Variable V : Type.
Notation ptensor := (ptensor V).

Definition dense_dim (r : ptensor) (dim : nat) : Prop :=
  exists pre e post, vaxes r = pre ++ e :: post /\ length pre = dim /\
    (e = unitAxis \/ exists k n, e = Phys k n /\ ~ In k (flat_map fv (pre ++ post))).

Theorem dim_to_dense_refines dim next (t r : ptensor) nx ed :
  wf V t -> vars_below V next t -> nth_error (vaxes t) dim = Some ed ->
  (is_unit ed = true \/ numel ed <> 1) ->
  pt_dim_to_dense V dim next t = Ok (r, nx) ->
  wf V r /\ shape V r = shape V t /\ default r = default t /\ dense_dim r dim /\
  forall idx, in_bounds (shape V t) idx -> denote V r idx = denote V t idx.
Proof.
  intros W Bt Hn Unit H. unfold pt_dim_to_dense in H. rewrite Hn in H.
  destruct (nth_error_split _ _ Hn) as (pre & post & Evx & Lpre). subst dim.
  rewrite Evx in H at 1. rewrite remove_nth_app in H.
  set (others := pre ++ post) in *.
  destruct (freshen_list others {| fs_rename := []; fs_next := next |}) as [vs st] eqn:EF.
  set (Rn := fs_rename st) in *.
  (* sizes of the physical axes *)
  set (sz := fun k => match assoc k (paxes t) with Some n => n | None => 0 end).
  assert (FVt : forall kn, In kn (paxes t) <-> In kn (flat_map fvn others) \/ In kn (fvn ed)).
  { intros [k n]. rewrite <- (wf_fv V t W), Evx. unfold others. rewrite !flat_map_app. simpl. rewrite !in_app_iff. tauto. }
  assert (Hsz : forall k n, In (k, n) (paxes t) -> n = sz k).
  { intros k n Hk. unfold sz. rewrite (assoc_of_In'' k (paxes t) n (wf_nodup V t W) Hk). reflexivity. }
  assert (Hszo : forall k n, In (k, n) (flat_map fvn others) -> n = sz k) by (intros k n Hk; apply Hsz; apply FVt; left; exact Hk).
  destruct (freshen_list_spec next sz others _ _ _ Hszo EF (ren_inv_init next sz)) as (I & Nx & (ext & Xe & Ke) & Ce & Re).
  cbn [fs_rename fs_next app] in Xe, Nx. fold Rn in Xe, Ce. subst ext.
  assert (Evs : vs = map (rename_axis (ren_of Rn)) others) by (apply (Re Rn []); [rewrite app_nil_r; reflexivity|exact (ri_keys _ _ _ I)]).
  set (g := ren_of Rn) in *.
  assert (Gk : forall k k' n, In (k, (k', n)) Rn -> g k = k' /\ n = sz k /\ In k (flat_map fv others) /\ (next <= k')%positive /\ (k' < fs_next st)%positive).
  { intros k k' n Hin. destruct (ri_rng _ _ _ I k k' n Hin) as (A1 & A2 & A3). split; [|repeat split; try assumption].
    - unfold g, ren_of. rewrite (assoc_of_In'' k Rn (k', n) (ri_keys _ _ _ I) Hin). reflexivity.
    - apply Ke. unfold rkeys. apply in_map_iff. exists (k, (k', n)). auto. }
  assert (Gex : forall k, In k (flat_map fv others) -> exists k' n, In (k, (k', n)) Rn).
  { intros k Hk. specialize (Ce k Hk). unfold rkeys in Ce. apply in_map_iff in Ce. destruct Ce as ([k0 [k' n]] & E & Hin). simpl in E. subst. eauto. }
  (* the early return *)
  destruct (is_unit ed || match ed with Phys k _ => negb (pmem k (map fst Rn)) | _ => false end) eqn:Early.
  { inversion H; subst r nx. split; [exact W|]. split; [reflexivity|]. split; [reflexivity|]. split; [|reflexivity].
    exists pre, ed, post. split; [exact Evx|]. split; [reflexivity|].
    apply orb_true_iff in Early. destruct Early as [U|U]; [left; apply is_unit_eq; exact U|right].
    destruct ed as [k n| |]; try discriminate. exists k, n. split; [reflexivity|]. apply negb_true_iff in U. apply pmem_false in U.
    intros Hin. apply U. exact (Ce k Hin). }
  apply orb_false_iff in Early. destruct Early as [NotU _].
  assert (N1 : numel ed <> 1) by (destruct Unit as [U|U]; [congruence|exact U]).
  set (fvs := rename_keys Rn) in *. set (fv0 := rename_vals Rn) in *.
  set (n := numel ed) in *. set (shp := map snd fv0 ++ [n]) in *.
  destruct (negb _) eqn:Chk in H; [discriminate|]. clear Chk.
  (* the writes *)
  set (es := paxes_axes' fvs ++ [ed]).
  set (offv := fun pi : list pn => flat_offset shp (evals (env_of pi) es)).
  destruct (write_all_spec (paxes t)
              (fun rho => offs <- at_axes (S (asize ed)) [] rho es ;; Ok (flat_offset shp offs))
              (fun rho => Ok (Some (pget V t rho))) offv (fun pi => pget V t (env_of pi)) (fun _ => default t)) as (st' & Ew & Sw).
  { intros pi _. split; [|reflexivity]. rewrite at_axes_nil; [reflexivity|].
    intros e He. unfold es in He. apply in_app_or in He. destruct He as [He|[<-|[]]]; [|lia].
    unfold paxes_axes' in He. apply in_map_iff in He. destruct He as (kn & <- & _). simpl. lia. }
  fold es in H. rewrite Ew in H. cbn [bind] in H.
  destruct (Nat.eqb_spec n 1) as [E1|_]; [contradiction|].
  inversion H; subst r nx. clear H.
  set (kn := fs_next st) in *.
  assert (Evs' : vs = map (rename_axis g) pre ++ map (rename_axis g) post) by (rewrite Evs; unfold others; apply map_app).
  assert (Ins : insert_nth (length pre) (Phys kn n) vs = map (rename_axis g) pre ++ Phys kn n :: map (rename_axis g) post).
  { rewrite Evs'. rewrite <- (map_length (rename_axis g) pre). apply insert_nth_app. }
  rewrite Ins. set (pre' := map (rename_axis g) pre) in *. set (post' := map (rename_axis g) post) in *.
  set (R := mkPT _ _ _ _).
  assert (KnNew : ~ In kn (rvals Rn)).
  { intros Hin. unfold rvals in Hin. apply in_map_iff in Hin. destruct Hin as ([k [k' m]] & E & Hin). simpl in E. subst k'.
    destruct (Gk _ _ _ Hin) as (_ & _ & _ & _ & Hlt). unfold kn in Hlt. lia. }
  (* free axes of the renamed others = the new names *)
  assert (FVo : forall kp, In kp (flat_map fvn (pre' ++ post')) <-> In kp fv0).
  { intros [k' m]. unfold pre', post'. rewrite <- map_app. fold others.
    rewrite flat_map_concat_map, map_map, <- flat_map_concat_map.
    assert (E : flat_map (fun e => fvn (rename_axis g e)) others = map (rename_pn g) (flat_map fvn others)).
    { generalize others as l0. intros l0. induction l0 as [|e l IHl]; [reflexivity|]. simpl. rewrite map_app, fvn_rename, IHl. reflexivity. }
    rewrite E, in_map_iff. unfold fv0, rename_vals. rewrite in_map_iff. split.
    - intros ([k m0] & Ek & Hk). unfold rename_pn in Ek. simpl in Ek. inversion Ek; subst.
      destruct (Gex k) as (k1 & n1 & Hin); [apply In_fv_fvn; eauto|]. destruct (Gk _ _ _ Hin) as (G1 & G2 & _).
      exists (k, (k1, n1)). split; [|exact Hin]. simpl. rewrite G1, G2, <- (Hszo k m Hk). reflexivity.
    - intros ([k [k1 n1]] & Ek & Hin). simpl in Ek. inversion Ek; subst. destruct (Gk _ _ _ Hin) as (G1 & G2 & G3 & _).
      apply In_fv_fvn in G3. destruct G3 as (m0 & Hm0). exists (k, m0). split; [|exact Hm0].
      unfold rename_pn. simpl. rewrite G1, G2, (Hszo k m0 Hm0). reflexivity. }
  assert (WR : wf V R).
  { constructor; cbn [paxes vaxes R].
    - rewrite map_app. simpl. apply NoDup_snoc.
      + unfold fv0, rename_vals. rewrite map_map. exact (ri_vals _ _ _ I).
      + unfold fv0, rename_vals. rewrite map_map. exact KnNew.
    - intros k m. rewrite flat_map_app. simpl. rewrite !in_app_iff. simpl.
      rewrite <- (FVo (k, m)), flat_map_app, in_app_iff. tauto. }
  assert (ShR : shape V R = shape V t).
  { unfold shape. cbn [vaxes R]. rewrite Evx, !map_app. simpl. unfold pre', post'. rewrite !map_map.
    f_equal; [apply map_ext; intros; apply numel_rename|]. f_equal. apply map_ext. intros. apply numel_rename. }
  split; [exact WR|]. split; [exact ShR|]. split; [reflexivity|]. split.
  { exists pre', (Phys kn n), post'. split; [reflexivity|]. split; [unfold pre'; apply map_length|]. right. exists kn, n. split; [reflexivity|].
    intros Hin. apply In_fv_fvn in Hin. destruct Hin as (m & Hm). apply FVo in Hm. apply KnNew.
    unfold fv0, rename_vals in Hm. apply in_map_iff in Hm. destruct Hm as (x & Ex & Hx). unfold rvals. apply in_map_iff. exists x. split; [rewrite Ex; reflexivity|exact Hx]. }
  intros idx Bd.
  assert (Lidx : length idx = length (vaxes t)).
  { rewrite (Forall2_len _ _ _ Bd). unfold shape. apply map_length. }
  set (ipre := firstn (length pre) idx). set (rest := skipn (length pre) idx).
  assert (Hrest : exists i ipost, rest = i :: ipost).
  { unfold rest. destruct (skipn (length pre) idx) as [|i ipost] eqn:E; [|eauto]. exfalso.
    assert (length (skipn (length pre) idx) = length idx - length pre) by apply skipn_length. rewrite E, Lidx, Evx, app_length in H. simpl in H. lia. }
  destruct Hrest as (i & ipost & Erest).
  assert (Eidx : idx = ipre ++ i :: ipost) by (rewrite <- Erest; symmetry; apply firstn_skipn).
  assert (Lipre : length ipre = length pre) by (unfold ipre; rewrite firstn_length, Lidx, Evx, app_length; lia).
  assert (Hi : i < n).
  { unfold in_bounds in Bd. rewrite Eidx in Bd. unfold shape in Bd. rewrite Evx, map_app in Bd. apply Forall2_app_inv_l in Bd.
    destruct Bd as (l1 & l2 & F1 & F2 & El). simpl in El.
    apply app_inj_len in El; [|rewrite map_length, <- (Forall2_len _ _ _ F1); symmetry; exact Lipre].
    destruct El as [_ El]. rewrite <- El in F2. exact (Forall2_hd _ _ _ _ _ F2). }
  (* backing of t and of R at idx *)
  assert (BackT : forall rho, (Forall (inrange rho) (vaxes t) /\ evals rho (vaxes t) = idx) <->
                  (Forall (inrange rho) others /\ evals rho others = ipre ++ ipost /\ inrange rho ed /\ eval rho ed = i)).
  { intros rho. rewrite Eidx. exact (split_backing V t pre post ed Evx rho ipre ipost i Lipre). }
  assert (BackR : forall rho2, (Forall (inrange rho2) (vaxes R) /\ evals rho2 (vaxes R) = idx) <->
                  (Forall (inrange (fun k => rho2 (g k))) others /\ evals (fun k => rho2 (g k)) others = ipre ++ ipost /\ rho2 kn = i)).
  { intros rho2. cbn [vaxes R]. rewrite Eidx, Forall_app, Forall_cons_iff, !evals_app'. unfold evals at 2. cbn [map]. fold (evals rho2 post').
    assert (Rn1 : forall l, Forall (inrange rho2) (map (rename_axis g) l) <-> Forall (inrange (fun k => rho2 (g k))) l).
    { intros l. rewrite !Forall_forall. split.
      - intros Hh e He. apply inrange_rename. apply Hh. apply in_map. exact He.
      - intros Hh e' He'. apply in_map_iff in He'. destruct He' as (e & <- & He). apply inrange_rename. apply Hh. exact He. }
    assert (Ev1 : forall l, evals rho2 (map (rename_axis g) l) = evals (fun k => rho2 (g k)) l).
    { intros l. unfold evals. rewrite map_map. apply map_ext. intros e. apply eval_rename. }
    unfold pre', post', others. rewrite !Rn1, !Ev1, Forall_app, evals_app'. simpl. split.
    - intros [(R1 & R2 & R3) E]. apply app_inj_len in E; [|unfold evals; rewrite map_length; symmetry; exact Lipre]. destruct E as [E1 E2].
      injection E2 as Ei Ep. split; [split; assumption|]. split; [rewrite E1, Ep; reflexivity|exact Ei].
    - intros ([R1 R3] & E & Ei). apply app_inj_len in E; [|unfold evals; rewrite map_length; symmetry; exact Lipre]. destruct E as [E1 E2].
      split; [split; [exact R1|split; [simpl; lia|exact R3]]|]. rewrite E1, E2, Ei. reflexivity. }
  (* the coordinates of the buffer: the renamed axes, then the dense one *)
  assert (Coords : forall rho2, pcoords (fv0 ++ [(kn, n)]) rho2 = map (fun x => rho2 (fst (snd x))) Rn ++ [rho2 kn]).
  { intros rho2. unfold pcoords. rewrite map_app. simpl. f_equal. unfold fv0, rename_vals. rewrite map_map. reflexivity. }
  assert (EvEs : forall rho, evals rho es = map (fun x => rho (fst x)) Rn ++ [eval rho ed]).
  { intros rho. unfold es. rewrite evals_app'. unfold evals. simpl. f_equal. unfold paxes_axes', fvs, rename_keys. rewrite !map_map. reflexivity. }
  assert (InB : forall rho, Forall (inrange rho) (vaxes t) -> in_bounds shp (evals rho es)).
  { intros rho Rr. rewrite EvEs. unfold shp, in_bounds. apply Forall2_app.
    - unfold fv0, rename_vals. rewrite map_map. apply Forall2_map_lt.
      intros [k [k' m]] Hx. cbn [fst snd]. destruct (Gk _ _ _ Hx) as (_ & Em & Hk & _).
      apply In_fv_fvn in Hk. destruct Hk as (m0 & Hm0). assert (HP : In (k, m0) (paxes t)) by (apply FVt; left; exact Hm0).
      rewrite Em, <- (Hsz k m0 HP). apply (proj1 (inrange_list_fvn rho (vaxes t)) Rr). apply (wf_fv V t W). exact HP.
    - constructor; [|constructor]. apply eval_bound. rewrite Forall_forall in Rr. apply Rr. rewrite Evx. apply in_or_app. right. left. reflexivity. }
  (* restriction of an environment to the physical axes of t *)
  set (restr := fun rho : env => map (fun kp : pn => (fst kp, rho (fst kp))) (paxes t)).
  assert (RestrIn : forall rho, Forall (inrange rho) (vaxes t) -> In (restr rho) (all_envs (paxes t))).
  { intros rho Rr. apply all_envs_complete. intros k m Hk. apply (wf_fv V t W) in Hk. exact (proj1 (inrange_list_fvn rho (vaxes t)) Rr k m Hk). }
  assert (RestrEq : forall rho k, In k (flat_map fv (vaxes t)) -> env_of (restr rho) k = rho k).
  { intros rho k Hk. unfold env_of, restr. rewrite assoc_restrict; [reflexivity|]. apply In_fv_fvn in Hk. destruct Hk as (m & Hk).
    apply (wf_fv V t W) in Hk. apply in_map_iff. exists (k, m). auto. }
  assert (FvEs : forall k, In k (flat_map fv es) -> In k (flat_map fv (vaxes t))).
  { intros k Hk. unfold es in Hk. rewrite flat_map_app in Hk. apply in_app_or in Hk. destruct Hk as [Hk|Hk].
    - unfold paxes_axes', fvs, rename_keys in Hk. rewrite flat_map_concat_map, !map_map in Hk. apply in_concat in Hk.
      destruct Hk as (l & Hl & Hk). apply in_map_iff in Hl. destruct Hl as ([k0 [k1 m]] & <- & Hx). simpl in Hk. destruct Hk as [<-|[]].
      destruct (Gk _ _ _ Hx) as (_ & _ & Ho & _). rewrite Evx, flat_map_app. simpl. unfold others in Ho. rewrite flat_map_app in Ho.
      rewrite !in_app_iff in *. tauto.
    - simpl in Hk. rewrite app_nil_r in Hk. rewrite Evx, flat_map_app. simpl. rewrite !in_app_iff. tauto. }
  (* two in-range environments writing to the same cell agree on every physical axis of t *)
  assert (SameCell : forall r1 r2, Forall (inrange r1) (vaxes t) -> Forall (inrange r2) (vaxes t) ->
              evals r1 es = evals r2 es -> forall k, In k (map fst (paxes t)) -> r1 k = r2 k).
  { intros r1 r2 R1 R2 E k Hk. rewrite !EvEs in E. apply app_inj_len in E; [|rewrite !map_length; reflexivity]. destruct E as [Ea Eb].
    injection Eb as Eb. apply in_map_iff in Hk. destruct Hk as ([k0 m] & Ek & Hk). simpl in Ek. subst k0. apply FVt in Hk. destruct Hk as [Hk|Hk].
    - destruct (Gex k) as (k' & m' & Hin); [apply In_fv_fvn; eauto|].
      exact (map_eq_In _ _ Rn (k, (k', m')) Ea Hin).
    - assert (Re1 : inrange r1 ed) by (rewrite Forall_forall in R1; apply R1; rewrite Evx; apply in_or_app; right; left; reflexivity).
      assert (Re2 : inrange r2 ed) by (rewrite Forall_forall in R2; apply R2; rewrite Evx; apply in_or_app; right; left; reflexivity).
      apply (eval_inj r1 r2 ed Re1 Re2 Eb). apply fv_of_fvn. eauto. }
  assert (Lr : length idx = length (vaxes R)).
  { cbn [vaxes R]. rewrite Lidx, Evx, !app_length. simpl. unfold pre', post'. rewrite !map_length. reflexivity. }
  (* from a backing of t to a backing of R with the same element *)
  assert (Fwd : forall rho, Forall (inrange rho) (vaxes t) -> evals rho (vaxes t) = idx ->
            let rho2 := back_env Rn kn (eval rho ed) rho in
            Forall (inrange rho2) (vaxes R) /\ evals rho2 (vaxes R) = idx /\ pget V R rho2 = pget V t rho).
  { intros rho Rr Er rho2. destruct (proj1 (BackT rho) (conj Rr Er)) as (Ro & Eo & _ & Ei).
    assert (Comp : forall k, In k (flat_map fv others) -> rho2 (g k) = rho k).
    { intros k Hk. destruct (Gex k Hk) as (k' & m & Hin). destruct (Gk _ _ _ Hin) as (G1 & _). rewrite G1.
      unfold rho2. apply (back_env_val Rn kn _ rho k k' m (ri_vals _ _ _ I) Hin). }
    assert (B2 : Forall (inrange rho2) (vaxes R) /\ evals rho2 (vaxes R) = idx).
    { apply BackR. split; [|split].
      - apply (Forall_inrange_ext' rho); [intros k Hk; symmetry; apply Comp; exact Hk|exact Ro].
      - rewrite <- Eo. apply evals_ext. exact Comp.
      - unfold rho2. rewrite back_env_new by exact KnNew. exact Ei. }
    split; [exact (proj1 B2)|]. split; [exact (proj2 B2)|].
    unfold pget. cbn [physical paxes R]. rewrite Coords.
    assert (Ecell : map (fun x => rho2 (fst (snd x))) Rn ++ [rho2 kn] = evals rho es).
    { rewrite EvEs. f_equal.
      - apply map_ext_in. intros [k [k' m]] Hx. cbn [fst snd]. unfold rho2. apply (back_env_val Rn kn _ rho k k' m (ri_vals _ _ _ I) Hx).
      - unfold rho2. rewrite back_env_new by exact KnNew. reflexivity. }
    rewrite Ecell.
    assert (Eo' : evals (env_of (restr rho)) es = evals rho es) by (apply evals_ext; intros k Hk; apply RestrEq; apply FvEs; exact Hk).
    destruct (Sw (flat_offset shp (evals rho es))) as [_ S2]. rewrite (S2 (pget V t rho)).
    + reflexivity.
    + exists (restr rho). split; [apply RestrIn; exact Rr|]. unfold offv. rewrite Eo'. reflexivity.
    + intros pi Hpi Eoff. unfold offv in Eoff. apply flat_offset_inj in Eoff;
        [|apply InB; apply wf_inrange; assumption|apply InB; exact Rr].
      unfold pget. f_equal. apply pcoords_ext. intros k Hk.
      apply (SameCell (env_of pi) rho (wf_inrange V t pi W Hpi) Rr Eoff k Hk). }
  destruct (denote_cases V R idx (wf_covers V R WR) Lr) as [(rho2 & R2 & E2 & D)|[N D]].
  - rewrite D. destruct (proj1 (BackR rho2) (conj R2 E2)) as (Ro2 & Eo2 & Ek2).
    unfold pget. cbn [physical paxes R]. rewrite Coords.
    set (o := flat_offset shp (map (fun x => rho2 (fst (snd x))) Rn ++ [rho2 kn])).
    destruct (existsb (fun pi => Nat.eqb (offv pi) o) (all_envs (paxes t))) eqn:Ex.
    + apply existsb_exists in Ex. destruct Ex as (pi & Hpi & Eo). apply Nat.eqb_eq in Eo.
      pose proof (wf_inrange V t pi W Hpi) as Rpi.
      (* the writer backs t at idx *)
      assert (Cell : evals (env_of pi) es = map (fun x => rho2 (fst (snd x))) Rn ++ [rho2 kn]).
      { unfold offv, o in Eo. apply flat_offset_inj in Eo; [exact Eo|apply InB; exact Rpi|].
        unfold shp, in_bounds. apply Forall2_app.
        - unfold fv0, rename_vals. rewrite map_map. apply Forall2_map_lt.
          intros [k [k' m]] Hx. cbn [fst snd]. destruct (Gk _ _ _ Hx) as (G1 & Em & Hk & _).
          apply In_fv_fvn in Hk. destruct Hk as (m0 & Hm0). rewrite <- G1, Em, <- (Hszo k m0 Hm0).
          exact (proj1 (inrange_list_fvn (fun k0 => rho2 (g k0)) others) Ro2 k m0 Hm0).
        - constructor; [|constructor]. rewrite Ek2. exact Hi. }
      rewrite EvEs in Cell. apply app_inj_len in Cell; [|rewrite !map_length; reflexivity]. destruct Cell as [Ca Cb]. injection Cb as Cb.
      assert (Agree : forall k, In k (flat_map fv others) -> env_of pi k = rho2 (g k)).
      { intros k Hk. destruct (Gex k Hk) as (k' & m & Hin). destruct (Gk _ _ _ Hin) as (G1 & _). rewrite G1.
        exact (map_eq_In _ _ Rn (k, (k', m)) Ca Hin). }
      assert (Bt' : Forall (inrange (env_of pi)) (vaxes t) /\ evals (env_of pi) (vaxes t) = idx).
      { apply BackT. split; [|split; [|split]].
        - rewrite Forall_forall in Rpi |- *. intros e He. apply Rpi. rewrite Evx. unfold others in He. apply in_app_or in He.
          apply in_or_app. destruct He; [left|right; right]; assumption.
        - rewrite <- Eo2. apply evals_ext. exact Agree.
        - rewrite Forall_forall in Rpi. apply Rpi. rewrite Evx. apply in_or_app. right. left. reflexivity.
        - rewrite Cb. exact Ek2. }
      destruct Bt' as [Rt Et]. rewrite <- Et. rewrite (denote_backed V t (env_of pi) (wf_covers V t W) Rt).
      destruct (Sw o) as [_ S2]. apply S2; [exists pi; auto|].
      intros pi2 Hpi2 Eo2'. unfold pget. f_equal. apply pcoords_ext. intros k Hk.
      apply (SameCell (env_of pi2) (env_of pi) (wf_inrange V t pi2 W Hpi2) Rpi); [|exact Hk].
      unfold offv in Eo2', Eo. rewrite <- Eo in Eo2'. apply flat_offset_inj in Eo2'; [exact Eo2'|apply InB; apply wf_inrange; assumption|apply InB; exact Rpi].
    + (* nobody wrote to this cell: the default, and t is unbacked at idx *)
      destruct (Sw o) as [S1 _]. rewrite S1.
      * symmetry. destruct (denote_cases V t idx (wf_covers V t W) Lidx) as [(rho & Rr & Er & _)|[_ Dt]]; [|exact Dt].
        exfalso. destruct (proj1 (BackT rho) (conj Rr Er)) as (Ro & Eo & _ & Ei).
        assert (Agree : forall k, In k (flat_map fv others) -> rho k = rho2 (g k)).
        { apply (pattern_injective others rho (fun k => rho2 (g k)) Ro Ro2). unfold evals in Eo, Eo2. rewrite Eo, Eo2. reflexivity. }
        assert (existsb (fun pi => Nat.eqb (offv pi) o) (all_envs (paxes t)) = true); [|congruence].
        apply existsb_exists. exists (restr rho). split; [apply RestrIn; exact Rr|]. apply Nat.eqb_eq. unfold offv, o. f_equal.
        rewrite (evals_ext (env_of (restr rho)) rho es) by (intros k Hk; apply RestrEq; apply FvEs; exact Hk).
        rewrite EvEs. f_equal.
        -- apply map_ext_in. intros [k [k' m]] Hx. cbn [fst snd]. destruct (Gk _ _ _ Hx) as (G1 & _ & Hk & _). rewrite <- G1. apply Agree. exact Hk.
        -- rewrite Ei, Ek2. reflexivity.
      * intros pi Hpi Eo. assert (existsb (fun pi => Nat.eqb (offv pi) o) (all_envs (paxes t)) = true); [|congruence].
        apply existsb_exists. exists pi. split; [exact Hpi|apply Nat.eqb_eq; exact Eo].
  - rewrite D. cbn [default R]. symmetry.
    destruct (denote_cases V t idx (wf_covers V t W) Lidx) as [(rho & Rr & Er & _)|[_ Dt]]; [|exact Dt].
    exfalso. destruct (Fwd rho Rr Er) as (R2 & E2 & _). exact (N _ R2 E2).
Qed.

End D2D.

(** the hypotheses are satisfiable on the general path: the diagonal of a 2 x 2 matrix (one physical
    axis at both positions); dimension 0 becomes a new dense axis, the other one is renamed *)
Example dim_to_dense_ex :
  let t := mkPT (fun c => match c with [0] => 7 | _ => 8 end) [(1%positive, 2)] [Phys 1 2; Phys 1 2] 0 in
  wf nat t /\ vars_below nat 2 t /\
  exists r nx, pt_dim_to_dense nat 0 2 t = Ok (r, nx) /\ vaxes r = [Phys 3 2; Phys 2 2] /\ paxes r = [(2%positive, 2); (3%positive, 2)] /\
    denote nat r [0; 0] = 7 /\ denote nat r [1; 1] = 8 /\ denote nat r [0; 1] = 0 /\ denote nat r [1; 0] = 0.
Proof.
  split; [constructor; cbn [paxes vaxes]; [repeat constructor; simpl; intuition discriminate|intros k n; simpl; intuition]|].
  split; [intros e He k Hk; simpl in He; destruct He as [<-|[<-|[]]]; simpl in Hk; destruct Hk as [<-|[]]; reflexivity|].
  do 2 eexists. split; [vm_compute; reflexivity|]. repeat split; reflexivity.
Qed.
