(** C02 (tier B): the Newton sandwich assembled.
    (1) one component, [solve] = the block solver [solve_ms] ([multi_solve_model]): no premise
        about the linear solves is left, only the semiring laws and [newton_laws];
    (2) the whole grammar as one component ([comp] = all nonterminals): the statement with the
        global Kleene iterates [Zk] and with the certified enclosures of Model/Kleene.v;
    (3) the instances for Bool, Real and Viterbi, without any law premise. *)
From Coq Require Import QArith Qcanon List Arith Bool PeanoNat Lia Ring Ring_theory.
Import ListNotations.
Require Import Fggs.Model.Semiring Fggs.Model.SCC Fggs.Model.SumProduct Fggs.Model.SumProductCheck
               Fggs.Model.EReal Fggs.Model.Trop Fggs.Model.Kleene Fggs.Model.Dual Fggs.Model.Newton.
Require Import Fggs.Proofs.SCC_ntgraph Fggs.Proofs.BigSum Fggs.Proofs.SP_trees Fggs.Proofs.SP_nonrec
               Fggs.Proofs.SP_mono Fggs.Proofs.Dual_leibniz Fggs.Proofs.SemiringLaws Fggs.Proofs.Kleene_proofs
               Fggs.Proofs.Newton_taylor Fggs.Proofs.Newton_sandwich Fggs.Proofs.Newton_solve Fggs.Proofs.Newton_laws.
Local Open Scope nat_scope.

(** * (1) one component, with the block solver *)
Section Component.
Context {R : Type} (o : sr_ops R).
Hypothesis Hr : sr_ring o.
Hypothesis Ho : sr_ordered o.
Hypothesis Hs : sr_star o.
Context (sub maxr rsd : R -> R -> R).
Hypothesis HL : newton_laws o sub maxr rsd.
Variable G : grammar.
Hypothesis Hwf : wf_grammar G = true.
Variables (w inp : env (R:=R)) (comp : list nat).
Hypothesis Hnd : NoDup comp.
Hypothesis Hcomp_nt : forall m, In m comp -> is_term G m = false.

Local Notation F := (ncomp_step o G w inp comp).
Local Notation nu := (newton_iter o sub maxr G w inp comp (solve_ms o G comp)).
Local Notation kappa := (comp_kleene o G w inp comp).

(** C02_newton_sandwich *)
Theorem newton_sandwich k :
  (forall n xi, le o (kappa k n xi) (nu k n xi))
  /\ (forall u, le_on o G comp (F u) u -> le_on o G comp (nu k) u)
  /\ (forall n xi, le o (nu k n xi) (nu (S k) n xi))
  /\ le_on o G comp (nu k) (F (nu k))
  /\ (forall n xi, le o (F (nu k) n xi) (nu (S k) n xi)).
Proof.
  pose proof (solve_ms_spec o Hr Ho Hs G comp Hnd) as Hsolve.
  split; [|split; [|split; [|split]]].
  - apply (newton_above_kleene o Hr Ho sub maxr rsd HL G Hwf).
  - intros u Hu. now apply (newton_below_prefix o Hr Ho sub maxr rsd HL G Hwf w inp comp Hnd Hcomp_nt _ Hsolve).
  - apply (newton_iter_mono o Ho sub maxr rsd HL).
  - now apply (newton_iter_inv o Hr Ho sub maxr rsd HL G Hwf w inp comp Hnd Hcomp_nt _ Hsolve).
  - apply (newton_F_between o Ho sub maxr rsd HL).
Qed.

(** exact stop test *)
Lemma close_exact_sound (eqb : R -> R -> bool) :
  (forall x y, eqb x y = true -> x = y) ->
  forall a b, close_exact G comp eqb a b = true -> eq_on G comp a b.
Proof.
  intros He a b H n xi Hn Hxi. unfold close_exact in H. rewrite forallb_forall in H.
  specialize (H n Hn). rewrite forallb_forall in H. apply He. now apply H.
Qed.

(** C02_newton_quiet_is_lfp *)
Theorem newton_quiet_is_lfp (eqb : R -> R -> bool) kmax :
  (forall x y, eqb x y = true -> x = y) ->
  snd (newton_run o sub maxr G w inp comp (solve_ms o G comp) (close_exact G comp eqb) kmax) = false ->
  let res := fst (newton_run o sub maxr G w inp comp (solve_ms o G comp) (close_exact G comp eqb) kmax) in
  eq_on G comp (F res) res /\ (forall u, le_on o G comp (F u) u -> le_on o G comp res u).
Proof.
  intros He Hq.
  destruct (newton_run_quiet_is_lfp o Hr Ho sub maxr rsd HL G Hwf w inp comp Hnd Hcomp_nt _
              (solve_ms_spec o Hr Ho Hs G comp Hnd) (close_exact G comp eqb) kmax
              (close_exact_sound eqb He) Hq) as (H1 & H2 & _).
  split; assumption.
Qed.

(** whatever the stop test: the result is an iterate, hence never above a pre-fixed point *)
Theorem newton_run_below_prefix (close : env (R:=R) -> env (R:=R) -> bool) kmax u :
  le_on o G comp (F u) u ->
  le_on o G comp (fst (newton_run o sub maxr G w inp comp (solve_ms o G comp) close kmax)) u.
Proof.
  intros Hu. destruct (newton_run_is_iterate o sub maxr G w inp comp (solve_ms o G comp) close kmax) as (i & _ & E).
  rewrite E. apply (proj1 (proj2 (newton_sandwich i))). exact Hu.
Qed.
End Component.

(** * (2) the whole grammar as one component *)
Lemma nonterminals_NoDup G : NoDup (nonterminals G).
Proof. unfold nonterminals. apply NoDup_filter, seq_NoDup. Qed.

Lemma is_term_false_lt G l : is_term G l = false -> l < length (g_labels G).
Proof.
  intros H. destruct (lt_dec l (length (g_labels G))) as [Hl|Hl]; [exact Hl|].
  unfold is_term in H. rewrite nth_overflow in H by lia. discriminate.
Qed.

Lemma nonterminals_nt G m : In m (nonterminals G) -> is_term G m = false.
Proof. intros H. apply in_nonterminals in H. tauto. Qed.

Section Whole.
Context {R : Type} (o : sr_ops R).
Hypothesis Hr : sr_ring o.
Hypothesis Ho : sr_ordered o.
Hypothesis Hs : sr_star o.
Context (sub maxr rsd : R -> R -> R).
Hypothesis HL : newton_laws o sub maxr rsd.
Variable G : grammar.
Hypothesis Hwf : wf_grammar G = true.
Variable w : env (R:=R).

Local Notation NT := (nonterminals G).
(** the Newton sequence of the whole system of equations *)
Definition newton_whole (k : nat) : env (R:=R) :=
  newton_iter o sub maxr G w (zero_env o) NT (solve_ms o G NT) k.
Definition newton_whole_run (close : env (R:=R) -> env (R:=R) -> bool) (kmax : nat) : env (R:=R) * bool :=
  newton_run o sub maxr G w (zero_env o) NT (solve_ms o G NT) close kmax.

Lemma whole_step (inp x : env (R:=R)) X xi :
  ncomp_step o G w inp NT x X xi = step o G w x X xi.
Proof.
  unfold ncomp_step, step. destruct (is_term G X); [reflexivity|].
  apply BigSum.sumS_ext. intros r _. apply (rule_val_ext o). intros ed a _ _.
  destruct (is_term G (fst ed)) eqn:Et; [reflexivity|].
  unfold comp_env. replace (mem NT (fst ed)) with true; [reflexivity|].
  symmetry. apply mem_In. apply in_nonterminals. split; [now apply is_term_false_lt | exact Et].
Qed.

Lemma whole_kleene inp k : forall X xi, comp_kleene o G w inp NT k X xi = Zk o G w k X xi.
Proof.
  induction k as [|k IH]; intros X xi; [reflexivity|].
  cbn [comp_kleene Zk]. rewrite whole_step. apply (step_ext o); [reflexivity | exact IH].
Qed.

Lemma whole_prefix (u : env (R:=R)) :
  env_le_on o G (step o G w u) u -> le_on o G NT (ncomp_step o G w (zero_env o) NT u) u.
Proof. intros H n xi Hn Hxi. rewrite whole_step. now apply H. Qed.

(** C02_newton_sandwich_whole: Kleene <= Newton <= every pre-fixed point, monotone *)
Theorem newton_whole_sandwich k :
  (forall X xi, le o (Zk o G w k X xi) (newton_whole k X xi))
  /\ (forall u, env_le_on o G (step o G w u) u -> env_le_on o G (newton_whole k) u)
  /\ (forall X xi, le o (newton_whole k X xi) (newton_whole (S k) X xi))
  /\ env_le_on o G (newton_whole k) (step o G w (newton_whole k)).
Proof.
  destruct (newton_sandwich o Hr Ho Hs sub maxr rsd HL G Hwf w (zero_env o) NT
              (nonterminals_NoDup G) (nonterminals_nt G) k) as (H1 & H2 & H3 & H4 & _).
  split; [|split; [|split]].
  - intros X xi. rewrite <- (whole_kleene (zero_env o)). apply H1.
  - intros u Hu. exact (H2 u (whole_prefix u Hu)).
  - exact H3.
  - intros X xi HX Hxi. rewrite <- (whole_step (zero_env o)). now apply H4.
Qed.

Corollary newton_whole_mono j k : j <= k -> forall X xi, le o (newton_whole j X xi) (newton_whole k X xi).
Proof.
  induction 1 as [|k Hjk IH]; intros X xi; [apply (le_refl o Ho)|].
  apply (le_trans o Ho) with (newton_whole k X xi); [apply IH | apply (newton_whole_sandwich k)].
Qed.

(** C02_newton_in_enclosure: a certified enclosure [lo, u] of the least fixed point (found after
    4 j rounded Kleene steps) contains every Newton iterate from number 4 j on, and none ever
    exceeds u *)
Section Enclosure.
Variables (rd infl : R -> R) (leb : R -> R -> bool).
Hypothesis rd_le : forall x, le o (rd x) x.
Hypothesis leb_sound : forall x y, leb x y = true -> le o x y.

Theorem newton_in_enclosure K lo u :
  enclosure o rd infl leb G w K = Some (lo, u) ->
  (forall k, env_le_on o G (newton_whole k) (env_of o u))
  /\ exists j, j <= K /\ forall k, 4 * j <= k -> env_le_on o G (env_of o lo) (newton_whole k).
Proof.
  intros H.
  destruct (enclosure_sound o Hr Ho rd infl leb rd_le leb_sound G w K lo u Hwf H)
    as (_ & (j & Hj & _ & Hlo) & _ & _ & Hpre).
  split.
  - intros k. apply (proj1 (proj2 (newton_whole_sandwich k))). exact Hpre.
  - exists j. split; [exact Hj|]. intros k Hk X xi HX Hxi.
    apply (le_trans o Ho) with (Zk o G w (4 * j) X xi); [now apply Hlo|].
    apply (le_trans o Ho) with (newton_whole (4 * j) X xi); [apply (newton_whole_sandwich (4 * j))|].
    now apply newton_whole_mono.
Qed.

(** the value returned by the loop, whatever the stop test, never exceeds u *)
Theorem newton_run_below_enclosure close kmax K lo u :
  enclosure o rd infl leb G w K = Some (lo, u) ->
  env_le_on o G (fst (newton_whole_run close kmax)) (env_of o u).
Proof.
  intros H.
  destruct (enclosure_sound o Hr Ho rd infl leb rd_le leb_sound G w K lo u Hwf H) as (_ & _ & _ & _ & Hpre).
  exact (newton_run_below_prefix o Hr Ho Hs sub maxr rsd HL G Hwf w (zero_env o) NT
           (nonterminals_NoDup G) (nonterminals_nt G) close kmax _ (whole_prefix _ Hpre)).
Qed.
End Enclosure.

(** C02_newton_exact_stop_is_lfp: if the stop test is exact equality and the run does not warn,
    the value returned is the least fixed point of the grammar's equations *)
Theorem newton_exact_stop_is_lfp (eqb : R -> R -> bool) kmax :
  (forall x y, eqb x y = true -> x = y) ->
  snd (newton_whole_run (close_exact G NT eqb) kmax) = false ->
  let res := fst (newton_whole_run (close_exact G NT eqb) kmax) in
  env_eq_on G (step o G w res) res
  /\ (forall u, env_le_on o G (step o G w u) u -> env_le_on o G res u)
  /\ (forall k, env_le_on o G (Zk o G w k) res).
Proof.
  intros He Hq.
  destruct (newton_quiet_is_lfp o Hr Ho Hs sub maxr rsd HL G Hwf w (zero_env o) NT
              (nonterminals_NoDup G) (nonterminals_nt G) eqb kmax He Hq) as [H1 H2].
  cbv zeta in *. fold (newton_whole_run (close_exact G NT eqb) kmax) in H1, H2.
  set (res := fst (newton_whole_run (close_exact G NT eqb) kmax)) in *.
  assert (Hfix : env_eq_on G (step o G w res) res).
  { intros X xi HX Hxi. rewrite <- (whole_step (zero_env o)). now apply H1. }
  assert (Hleast : forall u, env_le_on o G (step o G w u) u -> env_le_on o G res u).
  { intros u Hu. exact (H2 u (whole_prefix u Hu)). }
  split; [exact Hfix|]. split; [exact Hleast|].
  intros k. apply (park_on o Hr Ho G w res Hwf).
  intros X xi HX Hxi. rewrite (Hfix X xi HX Hxi). apply (le_refl o Ho).
Qed.

(** ... hence it lies inside every certified enclosure *)
Theorem newton_exact_stop_in_enclosure (rd infl : R -> R) (leb eqb : R -> R -> bool) kmax K lo u :
  (forall x, le o (rd x) x) -> (forall x y, leb x y = true -> le o x y) ->
  (forall x y, eqb x y = true -> x = y) ->
  enclosure o rd infl leb G w K = Some (lo, u) ->
  snd (newton_whole_run (close_exact G NT eqb) kmax) = false ->
  let res := fst (newton_whole_run (close_exact G NT eqb) kmax) in
  env_le_on o G (env_of o lo) res /\ env_le_on o G res (env_of o u).
Proof.
  intros rd_le leb_sound He H Hq.
  destruct (newton_exact_stop_is_lfp eqb kmax He Hq) as (Hfix & Hleast & _).
  destruct (enclosure_sound o Hr Ho rd infl leb rd_le leb_sound G w K lo u Hwf H) as (_ & _ & Hlo & _ & Hpre).
  cbv zeta in *. split.
  - apply Hlo. intros X xi HX Hxi. rewrite (Hfix X xi HX Hxi). apply (le_refl o Ho).
  - apply Hleast. exact Hpre.
Qed.
End Whole.

(** * (3) instances *)
Lemma bool_eqb_sound (x y : bool) : Bool.eqb x y = true -> x = y.
Proof. apply eqb_prop. Qed.
Lemma teqb_sound x y : teqb x y = true -> x = y.
Proof.
  destruct x as [|a|], y as [|b|]; cbn; try discriminate; try reflexivity.
  intros H. f_equal. apply Qc_is_canon. now apply Qeq_bool_iff.
Qed.
Lemma eeqb_sound x y : eeqb x y = true -> x = y.
Proof.
  destruct x as [a|], y as [b|]; cbn; try discriminate; try reflexivity.
  intros H. apply Fin_eq. apply Qc_is_canon. now apply Qeq_bool_iff.
Qed.

Definition newton_sandwich_bool := newton_sandwich bool_ops bool_ring bool_ordered bool_star bsub2 orb _ bool_newton_laws.
Definition newton_sandwich_real := newton_sandwich ereal_ops ereal_ring ereal_ordered ereal_star esub emax2 _ ereal_newton_laws.
Definition newton_sandwich_viterbi := newton_sandwich trop_ops trop_ring trop_ordered trop_star (fun x _ => x) tmax _ trop_newton_laws.

Definition newton_whole_sandwich_bool := newton_whole_sandwich bool_ops bool_ring bool_ordered bool_star bsub2 orb _ bool_newton_laws.
Definition newton_whole_sandwich_real := newton_whole_sandwich ereal_ops ereal_ring ereal_ordered ereal_star esub emax2 _ ereal_newton_laws.
Definition newton_whole_sandwich_viterbi :=
  newton_whole_sandwich trop_ops trop_ring trop_ordered trop_star (fun x _ => x) tmax _ trop_newton_laws.

(** Real: every Newton iterate is below the upper end of the enclosure [fp_check_real] computes,
    and from iterate 4 j on inside it *)
Theorem newton_in_enclosure_real G (Hwf : wf_grammar G = true) w K lo u :
  enclosure ereal_ops rd_real infl_real eleb G w K = Some (lo, u) ->
  (forall k, env_le_on ereal_ops G (newton_whole ereal_ops esub emax2 G w k) (env_of ereal_ops u))
  /\ exists j, j <= K /\ forall k, 4 * j <= k ->
       env_le_on ereal_ops G (env_of ereal_ops lo) (newton_whole ereal_ops esub emax2 G w k).
Proof.
  apply (newton_in_enclosure ereal_ops ereal_ring ereal_ordered ereal_star esub emax2 _ ereal_newton_laws G Hwf w
           rd_real infl_real eleb rd_real_le eleb_sound).
Qed.

(** Bool / Viterbi / Real: exact stop test + no warning = least fixed point *)
Definition newton_exact_stop_is_lfp_bool G Hwf w kmax :=
  newton_exact_stop_is_lfp bool_ops bool_ring bool_ordered bool_star bsub2 orb _ bool_newton_laws G Hwf w Bool.eqb kmax bool_eqb_sound.
Definition newton_exact_stop_is_lfp_viterbi G Hwf w kmax :=
  newton_exact_stop_is_lfp trop_ops trop_ring trop_ordered trop_star (fun x _ => x) tmax _ trop_newton_laws G Hwf w teqb kmax teqb_sound.
Definition newton_exact_stop_is_lfp_real G Hwf w kmax :=
  newton_exact_stop_is_lfp ereal_ops ereal_ring ereal_ordered ereal_star esub emax2 _ ereal_newton_laws G Hwf w eeqb kmax eeqb_sound.

(** Real: exact stop test and no warning: the result is inside the enclosure of [fp_check_real] *)
Theorem newton_exact_stop_in_enclosure_real G (Hwf : wf_grammar G = true) w kmax K lo u :
  enclosure ereal_ops rd_real infl_real eleb G w K = Some (lo, u) ->
  snd (newton_whole_run ereal_ops esub emax2 G w (close_exact G (nonterminals G) eeqb) kmax) = false ->
  let res := fst (newton_whole_run ereal_ops esub emax2 G w (close_exact G (nonterminals G) eeqb) kmax) in
  env_le_on ereal_ops G (env_of ereal_ops lo) res /\ env_le_on ereal_ops G res (env_of ereal_ops u).
Proof.
  apply (newton_exact_stop_in_enclosure ereal_ops ereal_ring ereal_ordered ereal_star esub emax2 _ ereal_newton_laws
           G Hwf w rd_real infl_real eleb eeqb kmax K lo u rd_real_le eleb_sound eeqb_sound).
Qed.
