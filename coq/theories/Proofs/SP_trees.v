(** C01 / C02: the k-th Kleene iterate of the grammar's equations equals the sum, over all
    derivation trees of depth <= k and all assignments, of the product of the factor weights.
    Also: what [enum_trees] enumerates (exactly the well-formed trees of depth <= k, each once). *)
From Coq Require Import List Arith Bool PeanoNat Lia Permutation Ring Ring_theory.
Import ListNotations.
Require Import Fggs.Model.Semiring Fggs.Model.SCC Fggs.Model.SumProduct.
Require Import Fggs.Proofs.SCC_ntgraph Fggs.Proofs.BigSum.

(** * list_eqb, all_assts *)
Lemma list_eqb_refl a : list_eqb a a = true.
Proof.
  unfold list_eqb. rewrite Nat.eqb_refl. cbn [andb].
  induction a as [|x a IH]; [reflexivity|]. cbn [combine forallb fst snd]. now rewrite Nat.eqb_refl.
Qed.
Lemma nat_list_eqb_iff a b : nat_list_eqb a b = true <-> a = b.
Proof. split; [apply list_eqb_eq|intros <-; apply list_eqb_refl]. Qed.
Lemma nat_list_eqb_cons x a y b : nat_list_eqb (x :: a) (y :: b) = Nat.eqb x y && nat_list_eqb a b.
Proof.
  unfold nat_list_eqb, list_eqb. cbn [length combine forallb fst snd Nat.eqb].
  destruct (Nat.eqb (length a) (length b)), (Nat.eqb x y); reflexivity.
Qed.

Lemma in_all_assts sizes a :
  In a (all_assts sizes) <-> Forall2 (fun x n => x < n) a sizes.
Proof.
  revert a. induction sizes as [|n rest IH]; intros a; cbn [all_assts].
  - split; [intros [<-|[]]; constructor|]. intros H. inversion H. now left.
  - rewrite in_flat_map. split.
    + intros (i & Hi & Ha). rewrite in_map_iff in Ha. destruct Ha as (a' & <- & Ha').
      constructor; [apply in_seq in Hi; lia|now apply IH].
    + intros H. inversion H as [|i ? a' ? Hi Ha']; subst. exists i. split; [apply in_seq; lia|].
      apply in_map. now apply IH.
Qed.
Lemma NoDup_all_assts sizes : NoDup (all_assts sizes).
Proof.
  induction sizes as [|n rest IH]; cbn [all_assts].
  - constructor; [intros []|constructor].
  - apply NoDup_flat_map.
    + apply seq_NoDup.
    + intros i _. apply NoDup_map_inj; trivial. intros a b _ _ E. now inversion E.
    + intros i j z _ _ Hi Hj. rewrite in_map_iff in Hi, Hj.
      destruct Hi as (a & <- & _), Hj as (b & E & _). now inversion E.
Qed.
Lemma all_assts_length sizes a : In a (all_assts sizes) -> length a = length sizes.
Proof. rewrite in_all_assts. intros H. induction H; cbn [length]; congruence. Qed.
Lemma all_assts_nth sizes a v : In a (all_assts sizes) -> v < length sizes -> nth v a 0 < nth v sizes 0.
Proof.
  rewrite in_all_assts. intros H. revert v. induction H as [|x n a sizes Hx _ IH]; intros v Hv; [cbn in Hv; lia|].
  destruct v as [|v]; cbn [nth]; trivial. apply IH. cbn [length] in Hv. lia.
Qed.
Lemma all_assts_intro sizes a :
  length a = length sizes -> (forall v, v < length sizes -> nth v a 0 < nth v sizes 0) -> In a (all_assts sizes).
Proof.
  rewrite in_all_assts. revert a. induction sizes as [|n sizes IH]; intros [|x a] Hl H; try discriminate; constructor.
  - apply (H 0). cbn. lia.
  - apply IH; [cbn in Hl; lia|]. intros v Hv. apply (H (S v)). cbn. lia.
Qed.

(** * rules_of as a sum over rule indices *)
Lemma list_as_map_nth {A} (l : list A) d : l = map (fun i => nth i l d) (seq 0 (length l)).
Proof.
  induction l as [|x l IH]; [reflexivity|].
  cbn [length seq map nth]. f_equal. rewrite <- seq_shift, map_map. exact IH.
Qed.
Lemma g_rules_as_map G : g_rules G = map (get_rule G) (seq 0 (length (g_rules G))).
Proof. apply list_as_map_nth. Qed.

Section Trees.
Context {R : Type} (o : sr_ops R).
Hypothesis Hr : sr_ring o.
Add Ring RingR2 : (sr_is_srt o Hr).

Lemma sumS_rules_of G X (F : rule -> R) :
  sumS o (rules_of G X) F
  = sumS o (seq 0 (length (g_rules G)))
         (fun ri => if Nat.eqb (r_lhs (get_rule G ri)) X then F (get_rule G ri) else zero o).
Proof.
  unfold rules_of. rewrite (sumS_filter o Hr).
  rewrite (g_rules_as_map G) at 1. now rewrite sumS_map.
Qed.

(** * weight as a product over (edge, child) pairs *)
Definition child_weight (G : grammar) (w : env (R:=R)) (a : list nat) (ed : nat * list nat) (c : option dtree) : R :=
  match c with None => w (fst ed) (sel a (snd ed)) | Some t => weight o G w t end.

Lemma weight_DT G w ri a ch :
  weight o G w (DT ri a ch)
  = prodS o (combine (r_edges (get_rule G ri)) ch) (fun p => child_weight G w a (fst p) (snd p)).
Proof.
  cbn [weight]. generalize (r_edges (get_rule G ri)). induction ch as [|c ch IH]; intros es.
  - destruct es; reflexivity.
  - destruct es as [|ed es]; [reflexivity|].
    cbn [combine]. rewrite prodS_cons. cbn [fst snd]. rewrite <- IH. destruct c; reflexivity.
Qed.

(** * the theorem *)
Definition env_k (G : grammar) (w : env (R:=R)) (x : env (R:=R)) : env (R:=R) :=
  fun l => if is_term G l then w l else x l.

Lemma Zk_S G w k X xi : is_term G X = false ->
  Zk o G w (S k) X xi = sumS o (rules_of G X) (fun r => rule_val o G (env_k G w (Zk o G w k)) r xi).
Proof. intros HX. cbn [Zk]. unfold step. now rewrite HX. Qed.

Definition child_lists (G : grammar) (k : nat) (a : list nat) (ed : nat * list nat) : list (option dtree) :=
  if is_term G (fst ed) then [None] else map Some (enum_trees G k (fst ed) (sel a (snd ed))).

Theorem Zk_is_tree_sum G w k : forall X xi, is_term G X = false ->
  Zk o G w k X xi = tree_sum o G w k X xi.
Proof.
  induction k as [|k IH]; intros X xi HX; [reflexivity|].
  rewrite Zk_S by exact HX. rewrite sumS_rules_of.
  unfold tree_sum. cbn [enum_trees]. rewrite (sumS_flat_map o Hr).
  apply sumS_ext. intros ri _.
  destruct (Nat.eqb (r_lhs (get_rule G ri)) X); [|reflexivity].
  unfold rule_val. rewrite (sumS_flat_map o Hr). apply sumS_ext. intros a _.
  rewrite sumS_map.
  change (map (fun ed : nat * list nat => if is_term G (fst ed) then [None]
                 else map Some (enum_trees G k (fst ed) (sel a (snd ed)))) (r_edges (get_rule G ri)))
    with (map (child_lists G k a) (r_edges (get_rule G ri))).
  rewrite (sumS_ext o _ _ (fun c => prodS o (combine (r_edges (get_rule G ri)) c)
                                     (fun p => child_weight G w a (fst p) (snd p)))
             (fun c _ => weight_DT G w ri a c)).
  rewrite <- (prod_of_sums o Hr). apply prodS_ext. intros ed _.
  unfold env_k, child_lists. destruct (is_term G (fst ed)) eqn:Ht.
  - rewrite (sumS_single o Hr). reflexivity.
  - rewrite sumS_map. cbn [child_weight]. apply IH. exact Ht.
Qed.
End Trees.

(** * What [enum_trees] enumerates *)
Definition all2 {A B} (P : A -> B -> Prop) : list A -> list B -> Prop :=
  fix go (l : list A) (l' : list B) {struct l} : Prop :=
  match l, l' with
  | [], [] => True
  | a :: l, b :: l' => P a b /\ go l l'
  | _, _ => False
  end.
Lemma all2_Forall2 {A B} (P : A -> B -> Prop) l l' : all2 P l l' <-> Forall2 P l l'.
Proof.
  revert l'. induction l as [|a l IH]; intros [|b l']; cbn [all2].
  - split; [constructor|trivial].
  - split; [intros []|intros H; inversion H].
  - split; [intros []|intros H; inversion H].
  - rewrite IH. split; [intros []; now constructor|intros H; inversion H; now subst].
Qed.

Lemma Forall2_imp {A B} (P Q : A -> B -> Prop) l l' :
  (forall a b, P a b -> Q a b) -> Forall2 P l l' -> Forall2 Q l l'.
Proof. intros H H2. induction H2; constructor; auto. Qed.

Definition opt_depth (d : dtree -> nat) (c : option dtree) : nat :=
  match c with None => 0 | Some t => d t end.
Fixpoint depth (t : dtree) : nat :=
  match t with DT _ _ ch => S (fold_right Nat.max 0 (map (opt_depth depth) ch)) end.

(** [wf_dtree G X xi t]: [t] is a derivation tree of nonterminal [X] whose external nodes carry [xi]:
    the root's rule exists and rewrites [X]; its assignment gives every rhs node a value of its
    domain and agrees with [xi] on the external nodes; there is one child per edge: nothing for
    a terminal edge, and for a nonterminal edge a derivation tree of that edge's label whose
    external assignment is the parent's assignment restricted to the edge's attachment nodes *)
Fixpoint wf_dtree (G : grammar) (X : nat) (xi : list nat) (t : dtree) : Prop :=
  match t with
  | DT ri a ch =>
    ri < length (g_rules G) /\ r_lhs (get_rule G ri) = X
    /\ In a (all_assts (node_sizes G (get_rule G ri)))
    /\ sel a (r_ext (get_rule G ri)) = xi
    /\ all2 (fun c ed => match c with
                         | None => is_term G (fst ed) = true
                         | Some t' => is_term G (fst ed) = false /\ wf_dtree G (fst ed) (sel a (snd ed)) t'
                         end) ch (r_edges (get_rule G ri))
  end.

Lemma depth_DT_le ri a ch k :
  depth (DT ri a ch) <= S k <-> Forall (fun c => opt_depth depth c <= k) ch.
Proof.
  cbn [depth]. rewrite <- Nat.succ_le_mono. induction ch as [|c ch IH]; cbn [map fold_right].
  - split; [constructor|lia].
  - rewrite Nat.max_lub_iff, IH. split; [intros []; now constructor|intros H; now inversion H].
Qed.

Theorem enum_trees_spec G k : forall X xi t,
  In t (enum_trees G k X xi) <-> wf_dtree G X xi t /\ depth t <= k.
Proof.
  induction k as [|k IH]; intros X xi t.
  - cbn [enum_trees]. split; [intros []|]. intros [_ H]. destruct t. cbn [depth] in H. lia.
  - cbn [enum_trees]. rewrite in_flat_map. destruct t as [ri a ch]. split.
    + intros (ri' & Hri & Ht). apply in_seq in Hri.
      destruct (Nat.eqb (r_lhs (get_rule G ri')) X) eqn:HX; [|destruct Ht].
      apply Nat.eqb_eq in HX. rewrite in_flat_map in Ht. destruct Ht as (a' & Ha & Ht).
      rewrite in_map_iff in Ht. destruct Ht as (c & E & Hc). inversion E; subst ri' a' c. clear E.
      apply filter_In in Ha. destruct Ha as [Ha Hxi]. apply nat_list_eqb_iff in Hxi.
      rewrite in_choices in Hc.
      assert (Hch : Forall2 (fun c ed => (match c with
                         | None => is_term G (fst ed) = true
                         | Some t' => is_term G (fst ed) = false /\ wf_dtree G (fst ed) (sel a (snd ed)) t'
                         end) /\ opt_depth depth c <= k) ch (r_edges (get_rule G ri))).
      { clear -Hc IH. remember (r_edges (get_rule G ri)) as es eqn:E. clear E.
        remember (map _ es) as ls eqn:El. revert es El.
        induction Hc as [|c l ch ls Hcl _ IHc]; intros [|ed es] El; try discriminate; constructor.
        - cbn [map] in El. injection El as El1 El2. subst l.
          destruct (is_term G (fst ed)) eqn:Ht.
          + destruct Hcl as [<-|[]]. split; [reflexivity|cbn; lia].
          + rewrite in_map_iff in Hcl. destruct Hcl as (t' & <- & Ht'). apply IH in Ht'.
            cbn [opt_depth]. tauto.
        - apply IHc. cbn [map] in El. now injection El. }
      split.
      * cbn [wf_dtree]. repeat split; trivial; try lia. apply all2_Forall2.
        eapply Forall2_imp; [|exact Hch]. cbn beta. tauto.
      * apply depth_DT_le. clear -Hch. induction Hch; constructor; tauto.
    + intros [Hwf Hd]. cbn [wf_dtree] in Hwf. destruct Hwf as (Hri & HX & Ha & Hxi & Hch).
      exists ri. split; [apply in_seq; lia|]. rewrite (proj2 (Nat.eqb_eq _ _) HX).
      rewrite in_flat_map. exists a. split.
      { apply filter_In. split; trivial. now apply nat_list_eqb_iff. }
      apply in_map. rewrite in_choices. apply all2_Forall2 in Hch. apply depth_DT_le in Hd.
      clear -Hch Hd IH. induction Hch as [|c ed ch es Hc _ IHc]; cbn [map]; constructor.
      * inversion Hd as [|? ? Hdc _]; subst. destruct c as [t'|].
        -- destruct Hc as [Ht Hw]. rewrite Ht. apply in_map. apply IH. split; trivial.
        -- rewrite Hc. now left.
      * apply IHc. now inversion Hd.
Qed.

Theorem enum_trees_NoDup G k : forall X xi, NoDup (enum_trees G k X xi).
Proof.
  induction k as [|k IH]; intros X xi; cbn [enum_trees]; [constructor|].
  apply NoDup_flat_map.
  - apply seq_NoDup.
  - intros ri _. destruct (Nat.eqb (r_lhs (get_rule G ri)) X); [|constructor].
    apply NoDup_flat_map.
    + apply NoDup_filter, NoDup_all_assts.
    + intros a _. apply NoDup_map_inj; [intros c c' _ _ E; now inversion E|].
      apply NoDup_choices. intros l Hl. rewrite in_map_iff in Hl. destruct Hl as (ed & <- & _).
      destruct (is_term G (fst ed)); [constructor; [intros []|constructor]|].
      apply NoDup_map_inj; [intros t t' _ _ E; now inversion E|]. apply IH.
    + intros a a' t _ _ Ht Ht'. rewrite in_map_iff in Ht, Ht'.
      destruct Ht as (c & <- & _), Ht' as (c' & E & _). now inversion E.
  - intros ri ri' t _ _ Ht Ht'.
    destruct (Nat.eqb (r_lhs (get_rule G ri)) X); [|destruct Ht].
    destruct (Nat.eqb (r_lhs (get_rule G ri')) X); [|destruct Ht'].
    rewrite in_flat_map in Ht, Ht'. destruct Ht as (a & _ & Ht), Ht' as (a' & _ & Ht').
    rewrite in_map_iff in Ht, Ht'.
    destruct Ht as (c & <- & _), Ht' as (c' & E & _). now inversion E.
Qed.
