(** [pt_binary] denotes the pointwise operation -- proved here for operands of equal rank without
    broadcast dimensions (guard [no_broadcast]); see Props/C06.v for the full statement. *)
From Coq Require Import List Arith Lia PeanoNat Bool PArith.
Import ListNotations.
Require Import Fggs.Model.Axis Fggs.Model.PTensor.
Require Import Fggs.Proofs.Axis_sem Fggs.Proofs.Axis_unify Fggs.Proofs.Axis_antiunify.
Require Import Fggs.Proofs.PTensor_sem Fggs.Proofs.PTensor_dense.
Require Import Fggs.Proofs.Axis_antiunify_inv Fggs.Proofs.PTensor_gen.

(** * invariants of [antiunify_list] *)
Lemma antiunify_list_inv fuel B : forall es fs st gs st',
  (forall x, In x es -> below B x) -> (forall x, In x fs -> below B x) -> ainv B st -> length es = length fs ->
  antiunify_list fuel es fs st = Ok (gs, st') -> aresult B es fs gs st st'.
Proof.
  induction es as [|e es IH]; intros fs st gs st' Be Bf I Hlen H; destruct fs as [|f fs]; try discriminate.
  - simpl in H. inversion H; subst. apply aresult_nil. exact I.
  - simpl in H.
    destruct (antiunify fuel e f st) as [[g st1]|] eqn:E1; [|discriminate]. cbn [bind fst snd] in H.
    destruct (antiunify_list fuel es fs st1) as [[gs1 st2]|] eqn:E2; [|discriminate]. cbn [bind fst snd] in H.
    inversion H; subst. clear H.
    pose proof (proj1 (antiunify_inv fuel) B e f st g st1 (Be e (or_introl eq_refl)) (Bf f (or_introl eq_refl)) I E1) as R1.
    assert (R2 : aresult B es fs gs1 st1 st').
    { apply IH; try assumption.
      - intros x Hx. apply Be. right. exact Hx.
      - intros x Hx. apply Bf. right. exact Hx.
      - exact (ar_inv _ _ _ _ _ _ R1).
      - simpl in Hlen. lia. }
    exact (aresult_seq _ _ _ _ _ _ _ _ _ _ R1 R2).
Qed.

(** * the loop of [expansion] without broadcast dimensions is [antiunify_list] *)
Definition normal_pair (p : axis * axis) : bool :=
  negb (is_unit (fst p) && negb (is_unit (snd p))) && negb (is_unit (snd p) && negb (is_unit (fst p))).

Lemma loop_normal fuel : forall pairs st n1 n2 acc st' n1' n2' lggs',
  forallb normal_pair pairs = true ->
  expansion_loop fuel pairs st n1 n2 acc = Ok (st', n1', n2', lggs') ->
  n1' = n1 /\ n2' = n2 /\ exists gs, lggs' = rev gs ++ acc /\
    antiunify_list fuel (map fst pairs) (map snd pairs) st = Ok (gs, st').
Proof.
  induction pairs as [|[e f] pairs IH]; intros st n1 n2 acc st' n1' n2' lggs' N H.
  - simpl in H. inversion H; subst. split; [reflexivity|]. split; [reflexivity|]. exists []. split; reflexivity.
  - simpl in N. apply andb_true_iff in N. destruct N as [Np N]. unfold normal_pair in Np. simpl in Np.
    apply andb_true_iff in Np. destruct Np as [N1 N2]. apply negb_true_iff in N1, N2.
    cbn [expansion_loop] in H. rewrite N1, N2 in H.
    destruct (antiunify fuel e f st) as [[g st1]|] eqn:E1; [|discriminate]. cbn [bind fst snd] in H.
    destruct (IH _ _ _ _ _ _ _ _ N H) as (-> & -> & gs & -> & A).
    split; [reflexivity|]. split; [reflexivity|]. exists (g :: gs). split.
    + simpl. rewrite <- app_assoc. reflexivity.
    + simpl. rewrite E1. cbn [bind fst snd]. rewrite A. reflexivity.
Qed.

Lemma zip_longest_same es : forall fs, length es = length fs -> zip_longest_unit es fs = combine es fs.
Proof.
  induction es as [|e es IH]; intros [|f fs] L; try discriminate; [reflexivity|]. simpl. f_equal. apply IH. simpl in L. lia.
Qed.

Lemma map_fst_combine {A B} (l : list A) : forall (l' : list B), length l = length l' -> map fst (combine l l') = l.
Proof. induction l as [|x l IH]; intros [|y l'] L; try discriminate; [reflexivity|]. simpl. f_equal. apply IH. simpl in L. lia. Qed.
Lemma map_snd_combine {A B} (l : list A) : forall (l' : list B), length l = length l' -> map snd (combine l l') = l'.
Proof. induction l as [|x l IH]; intros [|y l'] L; try discriminate; [reflexivity|]. simpl. f_equal. apply IH. simpl in L. lia. Qed.

Section Binary.
Variable V : Type.
Notation ptensor := (ptensor V).

(** equal rank and no (unit, non-unit) pair of dimensions *)
Definition no_broadcast (t u : ptensor) : bool :=
  Nat.eqb (length (vaxes t)) (length (vaxes u)) &&
  forallb normal_pair (combine (rev (vaxes t)) (rev (vaxes u))).

Definition vars_below (B : positive) (t : ptensor) : Prop := forall e, In e (vaxes t) -> below B e.

Lemma sigma_of_part1 L : sigma_of part1 L = sigma1 L.
Proof. unfold sigma_of, sigma1. apply map_ext. intros [[[k n] e] f]. reflexivity. Qed.
Lemma sigma_of_part2 L : sigma_of part2 L = sigma2 L.
Proof. unfold sigma_of, sigma2. apply map_ext. intros [[[k n] e] f]. reflexivity. Qed.

Lemma flat_map_rev_In {A B} (f : A -> list B) l x : In x (flat_map f (rev l)) <-> In x (flat_map f l).
Proof.
  rewrite !in_flat_map. split; intros (y & Hy & H); exists y; (split; [|exact H]); [apply in_rev|apply in_rev; rewrite rev_involutive]; exact Hy.
Qed.

(** from the invariants and the semantic theorem to [gen_ok], for either side *)
Lemma gen_ok_of (part : aentry -> axis) B es_p fs_p xs_p gs_p st' next :
  (part = part1 /\ xs_p = es_p \/ part = part2 /\ xs_p = fs_p) ->
  (forall x, In x es_p -> below B x) -> (forall x, In x fs_p -> below B x) -> length es_p = length fs_p ->
  aresult B es_p fs_p gs_p (astate0 next) st' -> (B <= next)%positive ->
  (forall rho, models rho (sigma_of part (as_list st')) -> evals rho gs_p = evals rho xs_p) ->
  length gs_p = length xs_p ->
  (forall en, In en (as_list st') -> numel (part1 en) = numel (part2 en)) ->
  gen_ok part B (as_list st') (rev gs_p) (rev xs_p).
Proof.
  intros Side Be Bf Hlen [I (x & X & P & K) GP C1 C2] HB Sem Lg Hsz.
  simpl in X. subst x. destruct I as [I1 I2 I3 I4 I5].
  constructor.
  - exact I3.
  - intros k Hk. exact (proj1 (I2 k Hk)).
  - intros [[[k n] e] f] Hen. cbn [apair akey snd].
    unfold entries_ok in I1. rewrite Forall_forall in I1. pose proof (I1 _ Hen) as Hn. simpl in Hn.
    destruct (I4 _ _ _ _ Hen) as [Q1 Q2]. destruct (P _ Hen) as [P1 P2].
    destruct Side as [[-> ->]|[-> ->]]; cbn [part1 part2].
    + split; [exact Hn|]. split; [exact Q1|]. intros kn Hkn. apply (proj2 (flat_map_rev_In _ _ _)). exact (P1 kn Hkn).
    + split.
      * rewrite Hn. exact (Hsz _ Hen).
      * split; [exact Q2|]. intros kn Hkn. apply (proj2 (flat_map_rev_In _ _ _)). exact (P2 kn Hkn).
  - intros kn Hkn. apply (proj1 (flat_map_rev_In _ _ _)) in Hkn. destruct Side as [[-> ->]|[-> ->]]; [exact (C1 kn Hkn)|exact (C2 kn Hkn)].
  - intros [k n] Hkn. apply (proj1 (flat_map_rev_In _ _ _)) in Hkn. destruct (GP k n Hkn) as (e & f & H). exists (k, n, e, f). auto.
  - intros k Hk. destruct (K k Hk) as (n & Hn). exists n. apply (proj2 (flat_map_rev_In _ _ _)). exact Hn.
  - intros k n Hkn. left. apply (proj1 (flat_map_rev_In _ _ _)) in Hkn. apply in_flat_map in Hkn. destruct Hkn as (e & He & Hk).
    assert (In k (fv e)) by (apply fv_of_fvn; eauto).
    destruct Side as [[-> ->]|[-> ->]]; [exact (Be e He k H)|exact (Bf e He k H)].
  - rewrite !rev_length. exact Lg.
  - intros rho M. unfold evals. rewrite !map_rev. f_equal. apply Sem. exact M.
Qed.

Lemma ainv_init B : ainv B (astate0 B).
Proof.
  constructor; cbn [as_list as_next astate0].
  - constructor.
  - intros k [].
  - constructor.
  - intros k n e f [].
  - lia.
Qed.

Lemma below_rev B (vs : list axis) : (forall e, In e vs -> below B e) -> forall x, In x (rev vs) -> below B x.
Proof. intros H x Hx. apply H. apply in_rev. exact Hx. Qed.

(** C06 (binary operations, equal rank, no broadcast dimension): [pt_binary] is pointwise.
    [sizes_agree] is the boolean guard "every pair of parts recorded by the anti-unification has
    equal sizes" (true for well-typed operands of equal shape). *)
Definition sizes_agree (x : expansion_t) : bool :=
  forallb (fun ef => Nat.eqb (numel (fst ef)) (numel (snd ef))) (combine (ex_es x) (ex_fs x)).

Theorem binary_refines (op : V -> V -> V) dflt next (t u r : ptensor) next' x idx :
  wf V t -> wf V u -> vars_below next t -> vars_below next u ->
  no_broadcast t u = true ->
  expansion V next t u = Ok x -> sizes_agree x = true ->
  pt_binary V op dflt next t u = Ok (r, next') ->
  dflt = op (default t) (default u) ->
  length idx = length (vaxes t) ->
  denote V r idx = op (denote V t idx) (denote V u idx).
Proof.
  intros Wt Wu Bt Bu NB Ex SA H Hd Li.
  unfold pt_binary in H. rewrite Ex in H. cbn [bind] in H. inversion H; subst r next'. clear H.
  unfold no_broadcast in NB. apply andb_true_iff in NB. destruct NB as [NL NP]. apply Nat.eqb_eq in NL.
  unfold expansion in Ex.
  destruct (expansion_loop _ _ _ _ _ _) as [[[[st n1] n2] lggs]|] eqn:EL; [|discriminate].
  cbn [bind] in Ex. inversion Ex; subst x. clear Ex.
  cbn [ex_new1 ex_new2 ex_paxes1 ex_paxes2 ex_es ex_fs ex_gs ex_lggs] in *.
  rewrite zip_longest_same in EL by (rewrite !rev_length; exact NL).
  destruct (loop_normal _ _ _ _ _ _ _ _ _ _ NP EL) as (-> & -> & gs_p & -> & AL).
  rewrite map_fst_combine, map_snd_combine in AL by (rewrite !rev_length; exact NL).
  rewrite app_nil_r in *.
  set (L := as_list st) in *.
  assert (Lrev : length (rev (vaxes t)) = length (rev (vaxes u))) by (rewrite !rev_length; exact NL).
  pose proof (antiunify_list_inv _ next _ _ _ _ _ (below_rev _ _ Bt) (below_rev _ _ Bu) (ainv_init next) Lrev AL) as AR.
  destruct (antiunify_list_sound _ (rev (vaxes t)) (rev (vaxes u)) (astate0 next) gs_p st (Forall_nil _) AL) as (_ & Nn & S1 & S2).
  rewrite <- Lrev, firstn_all in Nn, S1. rewrite Lrev, firstn_all in S2.
  assert (Lg : length gs_p = length (rev (vaxes t))).
  { apply (f_equal (@length nat)) in Nn. rewrite !map_length in Nn. exact Nn. }
  assert (Hsz : forall en, In en L -> numel (part1 en) = numel (part2 en)).
  { intros [[[k n] e] f] Hen. unfold sizes_agree in SA. cbn [ex_es ex_fs] in SA. rewrite forallb_forall in SA.
    apply Nat.eqb_eq. apply (SA (e, f)). clear - Hen. fold L. induction L as [|[[[k' n'] e'] f'] l IH]; [contradiction|].
    simpl. destruct Hen as [Hen|Hen]; [inversion Hen; left; reflexivity|right; apply IH; exact Hen]. }
  assert (G1 : gen_ok part1 next L (rev gs_p) (vaxes t)).
  { rewrite <- (rev_involutive (vaxes t)).
    eapply (gen_ok_of part1); [left; split; reflexivity|apply below_rev; exact Bt|apply below_rev; exact Bu|exact Lrev|exact AR|lia| |exact Lg|exact Hsz].
    intros rho M. rewrite sigma_of_part1 in M. unfold evals. exact (S1 rho M). }
  assert (G2 : gen_ok part2 next L (rev gs_p) (vaxes u)).
  { rewrite <- (rev_involutive (vaxes u)).
    eapply (gen_ok_of part2); [right; split; reflexivity|apply below_rev; exact Bt|apply below_rev; exact Bu|exact Lrev|exact AR|lia| |rewrite Lg; exact Lrev|exact Hsz].
    intros rho M. rewrite sigma_of_part2 in M. unfold evals. exact (S2 rho M). }
  (* the result tensor *)
  set (R := mkPT _ _ _ _).
  assert (WR : wf V R) by (apply (gen_wf V part1 next L (rev gs_p) (vaxes t) G1)).
  assert (LR : length idx = length (vaxes R)).
  { cbn [vaxes R]. rewrite rev_length, Lg, rev_length. exact Li. }
  assert (T1eq : forall g, denote V (expanded V (length (@nil pn)) ([] ++ paxes t) (map part1 L) t) g
                           = denote V (with_vaxes V t (map part1 L)) g) by reflexivity.
  assert (U1eq : forall g, denote V (expanded V (length (@nil pn)) ([] ++ paxes u) (map part2 L) u) g
                           = denote V (with_vaxes V u (map part2 L)) g) by reflexivity.
  destruct (denote_cases V R idx (wf_covers V R WR) LR) as [(g & Rg & Eg & D)|[N D]].
  - rewrite D.
    change (op (denote V (with_vaxes V t (map part1 L)) (pcoords (gs_of L) g))
               (denote V (with_vaxes V u (map part2 L)) (pcoords (gs_of L) g))
            = op (denote V t idx) (denote V u idx)).
    rewrite (core_denote V part1 next L (rev gs_p) (vaxes t) G1 t g eq_refl Wt Rg).
    rewrite (core_denote V part2 next L (rev gs_p) (vaxes u) G2 u g eq_refl Wu Rg).
    unfold R in Eg; cbn [vaxes] in Eg. rewrite Eg. reflexivity.
  - rewrite D. cbn [default R]. rewrite Hd.
    assert (Dt : denote V t idx = default t).
    { destruct (denote_cases V t idx (wf_covers V t Wt) Li) as [(rho & Rr & Er & _)|[_ Dt]]; [|exact Dt].
      exfalso. destruct (core_complete part1 next L (rev gs_p) (vaxes t) G1 rho Rr) as (g & Rg & Eg).
      apply (N g Rg). cbn [vaxes R]. rewrite Eg. exact Er. }
    assert (Du : denote V u idx = default u).
    { destruct (denote_cases V u idx (wf_covers V u Wu) (eq_trans Li NL)) as [(rho & Rr & Er & _)|[_ Du]]; [|exact Du].
      exfalso. destruct (core_complete part2 next L (rev gs_p) (vaxes u) G2 rho Rr) as (g & Rg & Eg).
      apply (N g Rg). cbn [vaxes R]. rewrite Eg. exact Er. }
    rewrite Dt, Du. reflexivity.
Qed.

(** tensors that differ only by pointwise-equal physical storage denote the same *)
Lemma denote_phys_ext (r1 r2 : ptensor) :
  paxes r1 = paxes r2 -> vaxes r1 = vaxes r2 -> default r1 = default r2 ->
  (forall c, physical r1 c = physical r2 c) -> forall idx, denote V r1 idx = denote V r2 idx.
Proof.
  intros P Vx D Ph idx. unfold denote, pget. rewrite Vx, D, P.
  destruct (index_list (vaxes r2) [] idx); [apply Ph|reflexivity|reflexivity].
Qed.

(** the operand re-indexed by the generalised variables: its denotation, case by case *)
Lemma denote_expanded_cases new ps es (t : ptensor) c :
  denote V (expanded V new ps es t) c =
  match index_list es [] c with
  | IOk pi => pget V (expanded V new ps es t) (env_of pi)
  | _ => default t
  end.
Proof. reflexivity. Qed.

(** C06 (commutative operations: add, mul, logaddexp, maximum, logical and/or): all three code paths
    of [commutative] denote the pointwise operation, given that [identity] is a right identity and
    the operation is commutative (the laws the code relies on) *)
Theorem commutative_refines (veqb : V -> V -> bool) (op : V -> V -> V) identity dflt next
                            (t u r : ptensor) next' x idx :
  (forall a b, veqb a b = true -> a = b) -> (forall a, op a identity = a) -> (forall a b, op a b = op b a) ->
  wf V t -> wf V u -> vars_below next t -> vars_below next u ->
  no_broadcast t u = true ->
  expansion V next t u = Ok x -> sizes_agree x = true ->
  pt_commutative V veqb op identity dflt next t u = Ok (r, next') ->
  dflt = op (default t) (default u) ->
  length idx = length (vaxes t) ->
  denote V r idx = op (denote V t idx) (denote V u idx).
Proof.
  intros Veq Lid Lcomm Wt Wu Bt Bu NB Ex SA H Hd Li.
  set (T1 := expanded V (ex_new1 x) (ex_paxes1 x) (ex_es x) t).
  set (U1 := expanded V (ex_new2 x) (ex_paxes2 x) (ex_fs x) u).
  set (rb := mkPT (fun g => op (denote V T1 g) (denote V U1 g)) (ex_gs x) (ex_lggs x) dflt).
  assert (Hb : pt_binary V op dflt next t u = Ok (rb, ex_next x)).
  { unfold pt_binary. rewrite Ex. reflexivity. }
  rewrite <- (binary_refines op dflt next t u rb (ex_next x) x idx Wt Wu Bt Bu NB Ex SA Hb Hd Li).
  unfold pt_commutative in H. rewrite Ex in H. cbn [bind] in H. fold T1 U1 in H.
  destruct (negb (veqb (default t) identity) || negb (Nat.eqb (length (ex_paxes1 x)) (length (paxes t)))
            || (Nat.eqb (length (ex_paxes2 x)) (length (paxes u)) && (pnumel (paxes u) <=? pnumel (paxes t)))) eqn:C.
  - destruct (veqb (default u) identity) eqn:Eu; inversion H; subst r next'; clear H.
    + apply denote_phys_ext; try reflexivity. intros c.
      assert (DU : denote V U1 c = match index_list (ex_fs x) [] c with
                                   | IOk pi => pget V U1 (env_of pi) | _ => default u end) by reflexivity.
      unfold rb; cbn [physical]. rewrite DU.
      destruct (index_list (ex_fs x) [] c); [reflexivity| |]; rewrite (Veq _ _ Eu), Lid; reflexivity.
    + reflexivity.
  - inversion H; subst r next'; clear H.
    apply orb_false_iff in C. destruct C as [C _]. apply orb_false_iff in C. destruct C as [C _].
    apply negb_false_iff in C. apply Veq in C.
    apply denote_phys_ext; try reflexivity. intros c.
    assert (DT : denote V T1 c = match index_list (ex_es x) [] c with
                                 | IOk pi => pget V T1 (env_of pi) | _ => default t end) by reflexivity.
    unfold rb; cbn [physical]. rewrite DT.
    destruct (index_list (ex_es x) [] c); [apply Lcomm| |]; rewrite C, (Lcomm identity), Lid; reflexivity.
Qed.

(** C06 ([sub], and [div] whose reciprocal law is a hypothesis): [op' (inv b) a = op a b] is what the
    third path computes, [op identity b = inv b] what it leaves where the first operand is unbacked *)
Theorem sub_like_refines (veqb : V -> V -> bool) (op : V -> V -> V) (inv : V -> V) (op' : V -> V -> V)
                         identity dflt next (t u r : ptensor) next' x idx :
  (forall a b, veqb a b = true -> a = b) -> (forall a, op a identity = a) ->
  (forall a b, op' (inv b) a = op a b) -> (forall b, op identity b = inv b) ->
  wf V t -> wf V u -> vars_below next t -> vars_below next u ->
  no_broadcast t u = true ->
  expansion V next t u = Ok x -> sizes_agree x = true ->
  pt_sub_like V veqb op inv op' identity dflt next t u = Ok (r, next') ->
  dflt = op (default t) (default u) ->
  length idx = length (vaxes t) ->
  denote V r idx = op (denote V t idx) (denote V u idx).
Proof.
  intros Veq Lid L2 L3 Wt Wu Bt Bu NB Ex SA H Hd Li.
  set (T1 := expanded V (ex_new1 x) (ex_paxes1 x) (ex_es x) t).
  set (U1 := expanded V (ex_new2 x) (ex_paxes2 x) (ex_fs x) u).
  set (rb := mkPT (fun g => op (denote V T1 g) (denote V U1 g)) (ex_gs x) (ex_lggs x) dflt).
  assert (Hb : pt_binary V op dflt next t u = Ok (rb, ex_next x)).
  { unfold pt_binary. rewrite Ex. reflexivity. }
  rewrite <- (binary_refines op dflt next t u rb (ex_next x) x idx Wt Wu Bt Bu NB Ex SA Hb Hd Li).
  unfold pt_sub_like in H. rewrite Ex in H. cbn [bind] in H. fold T1 U1 in H.
  destruct (negb (veqb (default t) identity) || negb (Nat.eqb (length (ex_paxes1 x)) (length (paxes t)))
            || (Nat.eqb (length (ex_paxes2 x)) (length (paxes u)) && (pnumel (paxes u) <=? pnumel (paxes t)))) eqn:C.
  - destruct (veqb (default u) identity) eqn:Eu; inversion H; subst r next'; clear H.
    + apply denote_phys_ext; try reflexivity. intros c.
      assert (DU : denote V U1 c = match index_list (ex_fs x) [] c with
                                   | IOk pi => pget V U1 (env_of pi) | _ => default u end) by reflexivity.
      unfold rb; cbn [physical]. rewrite DU.
      destruct (index_list (ex_fs x) [] c); [reflexivity| |]; rewrite (Veq _ _ Eu), Lid; reflexivity.
    + reflexivity.
  - inversion H; subst r next'; clear H.
    apply orb_false_iff in C. destruct C as [C _]. apply orb_false_iff in C. destruct C as [C _].
    apply negb_false_iff in C. apply Veq in C.
    apply denote_phys_ext; try reflexivity. intros c.
    set (U1' := expanded V (ex_new2 x) (ex_paxes2 x) (ex_fs x)
                         (mkPT (fun idx0 => inv (physical u idx0)) (paxes u) (vaxes u) (inv (default u)))).
    assert (EU : denote V U1' c = inv (denote V U1 c)).
    { unfold U1', U1. rewrite !denote_expanded_cases. destruct (index_list (ex_fs x) [] c); reflexivity. }
    assert (DT : denote V T1 c = match index_list (ex_es x) [] c with
                                 | IOk pi => pget V T1 (env_of pi) | _ => default t end) by reflexivity.
    unfold rb; cbn [physical]. rewrite DT.
    destruct (index_list (ex_es x) [] c); rewrite EU; [apply L2| |]; rewrite C, L3; reflexivity.
Qed.

End Binary.
