(** [connected_components(g, s)]: what the acb proofs need -- every returned set is a non-empty,
    duplicate-free set of vertices outside [s] that is closed under taking neighbours outside [s];
    the sets are pairwise disjoint and cover all vertices outside [s].
    (That each set is connected is not needed for validity and not proved.) *)
From Coq Require Import List Arith Bool PeanoNat Lia Permutation Setoid Morphisms.
Import ListNotations.
Require Import Fggs.Model.TreeDec Fggs.Proofs.TreeDec_graph.

(** * more set lemmas *)
Lemma set_union_In a b x : In x (set_union a b) <-> In x a \/ In x b.
Proof.
  unfold set_union. revert a. induction b as [|y b IH]; intro a; cbn [fold_left].
  - cbn. tauto.
  - rewrite IH, set_add_In. cbn [In]. intuition.
Qed.
Lemma set_union_NoDup a b : NoDup a -> NoDup (set_union a b).
Proof.
  unfold set_union. revert a. induction b as [|y b IH]; intros a H; cbn [fold_left]; auto.
  apply IH. now apply set_add_NoDup.
Qed.
Lemma set_diff_In a b x : In x (set_diff a b) <-> In x a /\ ~ In x b.
Proof. unfold set_diff. rewrite filter_In, negb_true_iff, mem_nIn. tauto. Qed.
Lemma set_diff_NoDup a b : NoDup a -> NoDup (set_diff a b).
Proof. apply NoDup_filter. Qed.
Lemma set_inter_In a b x : In x (set_inter a b) <-> In x a /\ In x b.
Proof. unfold set_inter. rewrite filter_In, mem_In. tauto. Qed.
Lemma sort_set_In l x : In x (sort_set l) <-> In x l.
Proof. unfold sort_set. rewrite set_union_In. cbn. tauto. Qed.
Lemma sort_set_NoDup l : NoDup (sort_set l).
Proof. unfold sort_set. apply set_union_NoDup. constructor. Qed.

(** * pairwise disjointness *)
Definition disjoint (a b : list nat) : Prop := forall x, In x a -> ~ In x b.
Lemma FOP_snoc {A} (R : A -> A -> Prop) l x :
  ForallOrdPairs R l -> (forall a, In a l -> R a x) -> ForallOrdPairs R (l ++ [x]).
Proof.
  induction 1 as [|a l Ha Hl IH]; intro H; cbn.
  - constructor; constructor.
  - constructor.
    + apply Forall_app. split; [exact Ha|]. constructor; [apply H; cbn; auto|constructor].
    + apply IH. intros b Hb. apply H. cbn; auto.
Qed.

(** * the inner loop *)
Section CC.
  Variable g : graph.
  Variable s : list nat.
  Hypothesis W : wf_graph g.

  Definition outside (x : nat) : Prop := In x (gverts g) /\ ~ In x s.
  Definition closedP (D : nat -> Prop) : Prop :=
    forall x y, D x -> In y (nbrs g x) -> D y \/ In y s.

  Lemma cc_inner_spec fuel : forall comp agenda res,
    cc_inner fuel g s comp agenda = Some res ->
    (forall x y, In x comp -> In y (nbrs g x) -> In y comp \/ In y agenda \/ In y s) ->
    (forall x, In x comp \/ In x agenda -> outside x) ->
    NoDup comp ->
    (forall x y, In x res -> In y (nbrs g x) -> In y res \/ In y s) /\
    (forall x, In x res -> outside x) /\
    NoDup res /\
    (forall x, In x comp \/ In x agenda -> In x res) /\
    (forall D, closedP D -> (forall x, In x comp \/ In x agenda -> ~ D x) -> forall x, In x res -> ~ D x).
  Proof.
    induction fuel as [|fuel IH]; intros comp agenda res Hr I1 I2 I3.
    - destruct agenda as [|v rest]; [|discriminate]. cbn in Hr. inversion Hr; subst res.
      split; [|split; [|split; [|split]]].
      + intros x y Hx Hy. destruct (I1 x y Hx Hy) as [H|[[]|H]]; auto.
      + intros x Hx. apply I2; auto.
      + exact I3.
      + intros x [H|[]]; auto.
      + intros D HD Hn x Hx. apply Hn; auto.
    - destruct agenda as [|v rest].
      + cbn in Hr. inversion Hr; subst res.
        split; [|split; [|split; [|split]]].
        * intros x y Hx Hy. destruct (I1 x y Hx Hy) as [H|[[]|H]]; auto.
        * intros x Hx. apply I2; auto.
        * exact I3.
        * intros x [H|[]]; auto.
        * intros D HD Hn x Hx. apply Hn; auto.
      + cbn [cc_inner] in Hr.
        set (comp' := set_add v comp) in *.
        set (agenda' := set_union rest (set_diff (set_diff (nbrs g v) comp') s)) in *.
        assert (Hc' : forall x, In x comp' <-> x = v \/ In x comp) by (intro x; apply set_add_In).
        assert (Ha' : forall x, In x agenda' <-> In x rest \/ (In x (nbrs g v) /\ ~ In x comp' /\ ~ In x s)).
        { intro x. unfold agenda'. rewrite set_union_In, !set_diff_In. tauto. }
        assert (Hv : outside v) by (apply I2; right; cbn; auto).
        destruct (IH comp' agenda' res Hr) as [R1 [R2 [R3 [R4 R5]]]].
        * intros x y Hx Hy. apply Hc' in Hx.
          destruct (in_dec Nat.eq_dec y comp') as [Hyc|Hyc]; [auto|].
          destruct (in_dec Nat.eq_dec y s) as [Hys|Hys]; [auto|].
          right. left. apply Ha'. destruct Hx as [->|Hx].
          -- right. auto.
          -- destruct (I1 x y Hx Hy) as [H|[H|H]].
             ++ exfalso. apply Hyc. apply Hc'. auto.
             ++ destruct H as [<-|H]; [exfalso; apply Hyc, Hc'; auto|auto].
             ++ contradiction.
        * intros x [Hx|Hx].
          -- apply Hc' in Hx. destruct Hx as [->|Hx]; auto.
          -- apply Ha' in Hx. destruct Hx as [Hx|[Hx [_ Hs]]].
             ++ apply I2. right. cbn; auto.
             ++ split; auto. eapply wf_closed; eauto.
        * now apply set_add_NoDup.
        * split; [exact R1|split; [exact R2|split; [exact R3|split]]].
          -- intros x [Hx|[<-|Hx]]; apply R4.
             ++ left. apply Hc'. auto.
             ++ left. apply Hc'. auto.
             ++ right. apply Ha'. auto.
          -- intros D HD Hn. apply R5; auto. intros x [Hx|Hx].
             ++ apply Hc' in Hx. destruct Hx as [->|Hx]; apply Hn; [right; cbn; auto|auto].
             ++ apply Ha' in Hx. destruct Hx as [Hx|[Hx [_ Hs]]]; [apply Hn; right; cbn; auto|].
                intro Dx. destruct (HD x v Dx) as [Dv|Dv].
                ** eapply wf_sym; eauto.
                ** revert Dv. apply Hn. right. cbn; auto.
                ** destruct Hv as [_ Hv]. contradiction.
  Qed.

  (** * the outer loop *)
  Record comp_ok (c : list nat) : Prop := {
    co_nodup : NoDup c;
    co_ne : c <> [];
    co_out : forall x, In x c -> outside x;
    co_closed : forall x y, In x c -> In y (nbrs g x) -> In y c \/ In y s }.

  Lemma cc_outer_spec fuel : forall nodes comps res,
    cc_outer fuel g s nodes comps = Some res ->
    Forall comp_ok comps -> ForallOrdPairs disjoint comps ->
    (forall x, In x nodes -> outside x /\ forall c, In c comps -> ~ In x c) ->
    (forall x, outside x -> In x nodes \/ exists c, In c comps /\ In x c) ->
    Forall comp_ok res /\ ForallOrdPairs disjoint res /\
    (forall x, outside x -> exists c, In c res /\ In x c).
  Proof.
    induction fuel as [|fuel IH]; intros nodes comps res Hr J1 J2 J3 J4.
    - destruct nodes as [|v0 nodes']; [|discriminate]. cbn in Hr. inversion Hr; subst res.
      split; [auto|split; [auto|]]. intros x Hx. destruct (J4 x Hx) as [[]|H]; auto.
    - destruct nodes as [|v0 nodes'].
      + cbn in Hr. inversion Hr; subst res. split; [auto|split; [auto|]].
        intros x Hx. destruct (J4 x Hx) as [[]|H]; auto.
      + cbn [cc_outer] in Hr.
        destruct (cc_inner (S (length g)) g s [] [v0]) as [comp|] eqn:Ec; [|discriminate].
        destruct (J3 v0 (or_introl eq_refl)) as [Hv0 Hv0c].
        destruct (cc_inner_spec _ _ _ _ Ec) as [R1 [R2 [R3 [R4 R5]]]].
        * intros x y [].
        * intros x [[]|[<-|[]]]. exact Hv0.
        * constructor.
        * assert (Hin : In v0 comp) by (apply R4; right; cbn; auto).
          apply (IH _ _ _ Hr).
          -- apply Forall_app. split; auto. constructor; [|constructor].
             constructor; auto. intro E. rewrite E in Hin. destruct Hin.
          -- apply FOP_snoc; auto. intros c Hc x Hx Hxc.
             rewrite Forall_forall in J1. specialize (J1 c Hc).
             revert Hx. apply (R5 (fun z => In z c)); auto.
             ++ intros a b Ha Hb. eapply co_closed; eauto.
             ++ intros z [[]|[<-|[]]]. now apply Hv0c.
          -- intros x Hx. apply set_diff_In in Hx. destruct Hx as [Hx Hxc].
             destruct (J3 x Hx) as [Ho Hn]. split; auto.
             intros c Hc. apply in_app_or in Hc. destruct Hc as [Hc|[<-|[]]]; auto.
          -- intros x Hx. destruct (in_dec Nat.eq_dec x comp) as [Hc|Hc].
             ++ right. exists comp. split; auto. apply in_or_app. right. cbn; auto.
             ++ destruct (J4 x Hx) as [H|[c [H1 H2]]].
                ** left. apply set_diff_In. auto.
                ** right. exists c. split; auto. apply in_or_app. auto.
  Qed.

  Theorem cc_spec comps : connected_components g s = Some comps ->
    Forall comp_ok comps /\ ForallOrdPairs disjoint comps /\
    (forall x, outside x -> exists c, In c comps /\ In x c).
  Proof.
    unfold connected_components. intro H. apply (cc_outer_spec _ _ _ _ H).
    - constructor.
    - constructor.
    - intros x Hx. apply set_diff_In in Hx. destruct Hx as [Hx Hs]. apply (proj1 (sort_set_In _ _)) in Hx.
      split; [split; [exact Hx|exact Hs]|]. intros c Hc. destruct Hc.
    - intros x [Hx Hs]. left. apply set_diff_In. split; auto. now apply sort_set_In.
  Qed.
End CC.
