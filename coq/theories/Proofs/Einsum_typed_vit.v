(** C07 on typed operands, (d): the Viterbi variant without certificate premises.  On the normal
    exit, for every in-range output cell that has a backing element, the pointer tuple of
    [viterbi_ptr_model] is in range (one virtual index per summed-out einsum index) and the product
    of the GIVEN operands' entries at the pointed indices equals the einsum of the given operands at
    that cell -- the maximum, in the tropical semiring. *)
From Coq Require Import List Arith Lia PeanoNat Bool PArith.
Import ListNotations.
Require Import Fggs.Model.Semiring Fggs.Model.SumProduct.
Require Import Fggs.Proofs.BigSum Fggs.Proofs.SP_trees.
Require Import Fggs.Model.Axis Fggs.Model.AxisCheck Fggs.Model.PTensor Fggs.Model.Einsum Fggs.Model.EinsumCheck Fggs.Model.EinsumCert.
Require Import Fggs.Proofs.Axis_sem Fggs.Proofs.Axis_unify Fggs.Proofs.Axis_complete_gen Fggs.Proofs.Axis_repr.
Require Import Fggs.Proofs.Axis_typed Fggs.Proofs.Axis_total Fggs.Proofs.Axis_rank.
Require Import Fggs.Proofs.PTensor_sem Fggs.Proofs.PTensor_dense Fggs.Proofs.PTEqual_typed.
Require Import Fggs.Proofs.Einsum_dense Fggs.Proofs.Einsum_envs Fggs.Proofs.Einsum_support Fggs.Proofs.Einsum_form.
Require Import Fggs.Proofs.Einsum_views Fggs.Proofs.Einsum_reduce Fggs.Proofs.Einsum_subst Fggs.Proofs.Einsum_loop.
Require Import Fggs.Proofs.Einsum_project Fggs.Proofs.Einsum_reindex Fggs.Proofs.Einsum_main Fggs.Proofs.Einsum_final Fggs.Proofs.Einsum_top Fggs.Proofs.Einsum_orig.
Require Import Fggs.Proofs.Einsum_argmax Fggs.Proofs.Einsum_vit.
Require Import Fggs.Proofs.Einsum_typed_base Fggs.Proofs.Einsum_typed_prep Fggs.Proofs.Einsum_typed_loop Fggs.Proofs.Einsum_typed_views.
Require Import Fggs.Proofs.Einsum_typed_cert Fggs.Proofs.Einsum_typed_main.

Section TypedVit.
Context {R : Type} (o : sr_ops R).
Hypothesis Hr : sr_ring o.
Variable veqb : R -> R -> bool.
Hypothesis Hveqb : forall a b, veqb a b = true -> a = b.
Notation r0 := (Semiring.zero o).
Hypothesis Hrefl : veqb r0 r0 = true.
Variable leb : R -> R -> bool.
Hypothesis Hsel : forall a b, add o a b = if leb a b then b else a.
Notation stensor := (stensor (R:=R)).
Variable lty : nat -> list ity.
Hypothesis Hlty : forall l, gprimes (lty l).

(** all premises of the pointer theorem *)
Theorem viterbi_cert_typed G genabled next (ts : list stensor) inputs output r :
  typed_operands lty G next ts inputs ->
  einsum_run o veqb genabled next ts inputs output = Ok r ->
  cert_viterbi r inputs output = true.
Proof.
  intros TO Hrun.
  destruct (einsum_run_typed o veqb Hveqb lty Hlty G genabled next ts inputs output r TO Hrun) as (G' & s & nx1 & E & Es & Ei & _ & E2 & _ & _).
  exact (typed_cert_viterbi o lty nx1 r inputs output G' s E Es Ei E2).
Qed.

(** the product of the operand entries only reads the operands inside their shapes *)
Lemma einsum_term_same (env : list (nat * nat)) : forall (tl tl' : list (ptensor R)) (il : list (list nat)),
  Forall2 same_dense tl tl' -> Forall2 (fun t inp => shape R t = map (fun l => tsizes (lty l)) inp) tl il ->
  (forall l, In l (concat il) -> lval env l < tsizes (lty l)) ->
  einsum_term o (map (dn (R:=R)) tl') il env = einsum_term o (map (dn (R:=R)) tl) il env.
Proof.
  intros tl tl' il SD. revert il. unfold einsum_term.
  induction SD as [|t t' tl tl' [Sh Dn] _ IH]; intros il FS B; [reflexivity|].
  inversion FS as [|? inp ? il' St FS']; subst. cbn [map combine]. rewrite !(prodS_cons o). f_equal.
  - cbn [fst snd dn]. apply Dn. rewrite St. unfold in_bounds. apply Forall2_map_l. intros l Hl. apply B. simpl. apply in_or_app. left. exact Hl.
  - apply IH; [exact FS'|]. intros l Hl. apply B. simpl. apply in_or_app. right. exact Hl.
Qed.

Theorem viterbi_typed G genabled next (ts : list stensor) inputs output r :
  typed_operands lty G next ts inputs ->
  einsum_run o veqb genabled next ts inputs output = Ok r ->
  er_failed r = false ->
  forall oidx pi vp,
  Forall2 lt oidx (einsum_shape (map (dn (R:=R)) (map st_pt ts)) inputs output) ->
  index_list (er_outv r) [] oidx = IOk pi ->
  viterbi_ptr_model o leb r output oidx = Ok vp ->
  In vp (all_assts (map (lval (label_sizes (map fst (map (dn (R:=R)) (map st_pt ts))) inputs)) (summed_labels inputs output))) /\
  einsum_term o (map (dn (R:=R)) (map st_pt ts)) inputs (combine output oidx ++ combine (summed_labels inputs output) vp)
  = einsum_dense o (map (dn (R:=R)) (map st_pt ts)) inputs output oidx.
Proof.
  intros TO Hrun Hf oidx pi vp Hb Hidx Hptr.
  destruct (einsum_cert_typed o veqb Hveqb Hrefl lty Hlty G genabled next ts inputs output r TO Hrun) as (OK & CO & Z & CSV & CC).
  destruct (CSV Hf) as [CS CV].
  pose proof (viterbi_cert_typed G genabled next ts inputs output r TO Hrun) as CW.
  destruct (einsum_run_typed o veqb Hveqb lty Hlty G genabled next ts inputs output r TO Hrun) as (G' & s & nx1 & E & Es & Ei & _ & E2 & _ & SD).
  assert (SD' : Forall2 same_dense (map st_pt ts) (map st_pt (er_ts r))).
  { clear -SD. induction SD; simpl; constructor; assumption. }
  assert (Lo : length oidx = length output).
  { apply Forall2_len in Hb. unfold einsum_shape in Hb. rewrite map_length in Hb. exact Hb. }
  destruct (viterbi_ptr_correct o Hr veqb Hveqb leb Hsel genabled next ts inputs output r Hrun Hf Z OK CO CS CV CW oidx pi vp Lo Hidx Hptr)
    as [(rest & pi' & Ep & HpK & Evp) Eterm].
  destruct (cert_viterbi_facts r inputs output CW) as (rest' & Ep' & W1 & W2 & _). rewrite Ep in Ep'. inversion Ep'; subst rest'. clear Ep'.
  destruct (co_facts o veqb Hveqb r inputs output CO) as (HL & HW & HD & HF & HN & Hout & Hi2v & Hsz).
  destruct (cs_facts r CS) as (Pos & ND & HC & SZ & VS & NK & KU & VK & KV).
  set (tsr := map st_pt (er_ts r)) in *. set (sigma := er_sigma r) in *. set (F := cert_fuel sigma) in *.
  set (rho := xt sigma F pi') in *.
  (* the sizes of the labels: the types *)
  assert (Em : map fst (map (dn (R:=R)) tsr) = map fst (map (dn (R:=R)) (map st_pt ts))).
  { clear -SD'. induction SD' as [|a b l l' [E0 _] _ IH]; [reflexivity|]. simpl. rewrite E0, IH. reflexivity. }
  set (sz := label_sizes (map fst (map (dn (R:=R)) (map st_pt ts))) inputs) in *.
  pose proof (c_occ o lty nx1 r inputs G' s E Ei) as Cocc.
  assert (Sz : forall l e0, In l (concat inputs) -> lassoc l (er_i2v r) = Some e0 -> lval sz l = tsizes (lty l) /\ numel e0 = tsizes (lty l)).
  { intros l e0 Hl E0. unfold sz. rewrite <- Em. rewrite (sz_spec tsr inputs (er_i2v r) HF Hsz l e0 Hl E0).
    destruct (Cocc l e0 (Hi2v l e0 E0)) as [Te _]. rewrite (ty_numel _ _ _ Te). split; reflexivity. }
  assert (SzL : forall l, In l (concat inputs) -> lval sz l = tsizes (lty l)).
  { intros l Hl. destruct (proj1 (in_concat_occ tsr inputs l HF) Hl) as (e & He). destruct (Hsz l e He) as (e0 & E0 & _).
    exact (proj1 (Sz l e0 Hl E0)). }
  (* the pointers are in range *)
  assert (Rin : forall x n, In (x, n) (all_vars tsr) -> rho x < n).
  { intros x n Hx. apply (ext_bound sigma F SZ (env_of pi') x n (kvars r) pi' NK HpK eq_refl (VS x n Hx)). intros kn Hkn. exact (VK x n Hx kn Hkn). }
  assert (Rrest : forall l e, In (l, e) rest -> eval rho e < lval sz l).
  { intros l e Hin. pose proof (W2 l e Hin) as E0.
    assert (Hl : In l (concat inputs)).
    { apply (in_concat_occ tsr inputs l HF). exists e. exact (Hi2v l e E0). }
    destruct (Sz l e Hl E0) as [S1 S2]. rewrite S1, <- S2. apply eval_bound. apply inrange_fvn. intros k n Hk. apply Rin.
    exact (c_occ_V o lty nx1 r inputs G' s E l e (k, n) (Hi2v l e E0) Hk). }
  assert (Hvp : Forall2 lt vp (map (lval sz) (summed_labels inputs output))).
  { rewrite Evp, <- W1, !map_map. clear -Rrest. induction rest as [|[l e] rs IH]; simpl; constructor.
    - apply (Rrest l e). left. reflexivity.
    - apply IH. intros l' e' H'. apply (Rrest l' e'). right. exact H'. }
  split; [apply in_all_assts; exact Hvp|].
  (* the value *)
  rewrite <- (einsum_typed_correct o Hr veqb Hveqb Hrefl lty Hlty G genabled next ts inputs output r TO Hrun oidx Hb), <- Eterm.
  symmetry. unfold operands_of. fold tsr.
  apply (einsum_term_same _ (map st_pt ts) tsr inputs SD').
  - pose proof (to_ops _ _ _ _ _ TO) as Fo. clear -Fo. induction Fo as [|t inp l l' (_ & T & _) _ IH]; simpl; constructor; [|exact IH].
    unfold shape. rewrite (tys_shape _ _ _ T), map_map. reflexivity.
  - intros l Hl. rewrite <- (SzL l Hl). unfold lval at 1. rewrite lassoc_app.
    unfold einsum_shape in Hb. fold sz in Hb.
    destruct (lassoc l (combine output oidx)) as [v|] eqn:E1.
    + apply lassoc_In in E1. exact (combine_bound (lval sz) output oidx l v Hb E1).
    + assert (Hno : ~ In l output).
      { apply lassoc_None in E1. rewrite map_fst_combine_le in E1 by lia. exact E1. }
      assert (Hs' : In l (summed_labels inputs output)) by (apply dedup_nat_In; split; assumption).
      assert (Lv : length vp = length (summed_labels inputs output)).
      { apply Forall2_len in Hvp. rewrite map_length in Hvp. exact Hvp. }
      destruct (lassoc l (combine (summed_labels inputs output) vp)) as [v|] eqn:E3.
      * apply lassoc_In in E3. exact (combine_bound (lval sz) _ vp l v Hvp E3).
      * exfalso. apply lassoc_None in E3. rewrite map_fst_combine_le in E3 by lia. exact (E3 Hs').
Qed.
End TypedVit.
