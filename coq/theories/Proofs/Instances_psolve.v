(** Composition ("glue") for C09 tier B: carrier instances of the theorems about
    PatternedTensor.solve.  The law records of the carriers are proved in Proofs/SemiringLaws.v
    (C08); nothing here has a law premise.  The statements are spelled out in Props/C09.v. *)
From Coq Require Import List Arith Bool PeanoNat Lia QArith Qcanon.
Import ListNotations.
Require Import Fggs.Model.Semiring Fggs.Model.EReal Fggs.Model.Trop Fggs.Model.Solve Fggs.Model.Axis Fggs.Model.PSolve.
Require Import Fggs.Proofs.SolveRefine Fggs.Proofs.PSolve_dense Fggs.Proofs.PSolve_main.
Require Fggs.Proofs.SemiringLaws.
Local Open Scope nat_scope.

Local Notation bR := SemiringLaws.bool_ring. Local Notation bO := SemiringLaws.bool_ordered. Local Notation bS := SemiringLaws.bool_star.
Local Notation eR := SemiringLaws.ereal_ring. Local Notation eO := SemiringLaws.ereal_ordered. Local Notation eS := SemiringLaws.ereal_star.
Local Notation tR := SemiringLaws.trop_ring. Local Notation tO := SemiringLaws.trop_ordered. Local Notation tS := SemiringLaws.trop_star.

Definition bool_scatter_solve_gather := @scatter_solve_gather bool bool_ops bR bO bS.
Definition real_scatter_solve_gather := @scatter_solve_gather ereal ereal_ops eR eO eS.
Definition trop_scatter_solve_gather := @scatter_solve_gather trop trop_ops tR tO tS.

Definition bool_psolve_dense_least := @psolve_dense_least bool bool_ops bR bO bS.
Definition real_psolve_dense_least := @psolve_dense_least ereal ereal_ops eR eO eS.
Definition trop_psolve_dense_least := @psolve_dense_least trop trop_ops tR tO tS.

Definition bool_psolve_dense_least_spec := @psolve_dense_least_spec bool bool_ops bR bO bS.
Definition real_psolve_dense_least_spec := @psolve_dense_least_spec ereal ereal_ops eR eO eS.
Definition trop_psolve_dense_least_spec := @psolve_dense_least_spec trop trop_ops tR tO tS.

Definition bool_psolve_early_least := @psolve_early_least bool bool_ops bR bO bS.
Definition real_psolve_early_least := @psolve_early_least ereal ereal_ops eR eO eS.
Definition trop_psolve_early_least := @psolve_early_least trop trop_ops tR tO tS.
