(** Composition ("glue") for C09 tier B: carrier instances of the theorems about
    PatternedTensor.solve.  The law records of the carriers are proved in Proofs/SemiringLaws.v
    (C08); nothing here has a law premise.  The statements are spelled out in Props/C09.v. *)
From Coq Require Import List Arith Bool PeanoNat Lia QArith Qcanon.
Import ListNotations.
Require Import Fggs.Model.Semiring Fggs.Model.EReal Fggs.Model.Trop Fggs.Model.Solve Fggs.Model.Axis Fggs.Model.PSolve.
Require Import Fggs.Proofs.SolveRefine Fggs.Proofs.PSolve_dense Fggs.Proofs.PSolve_main Fggs.Model.AxisCheck.
Require Fggs.Proofs.SemiringLaws.
Local Open Scope nat_scope.

Local Notation bR := SemiringLaws.bool_ring. Local Notation bO := SemiringLaws.bool_ordered. Local Notation bS := SemiringLaws.bool_star.
Local Notation eR := SemiringLaws.ereal_ring. Local Notation eO := SemiringLaws.ereal_ordered. Local Notation eS := SemiringLaws.ereal_star.
Local Notation tR := SemiringLaws.trop_ring. Local Notation tO := SemiringLaws.trop_ordered. Local Notation tS := SemiringLaws.trop_star.

Definition bool_scatter_solve_gather := @scatter_solve_gather bool bool_ops bR bO bS.
Definition real_scatter_solve_gather := @scatter_solve_gather ereal ereal_ops eR eO eS.
Definition trop_scatter_solve_gather := @scatter_solve_gather trop trop_ops tR tO tS.

Definition bool_psolve_dense_least := @psolve_dense_least bool bool_ops bR bO bS.
Definition real_psolve_dense_least := @psolve_dense_least ereal ereal_ops eR eO eS.
Definition trop_psolve_dense_least := @psolve_dense_least trop trop_ops tR tO tS.

Definition bool_psolve_dense_least_spec := @psolve_dense_least_spec bool bool_ops bR bO bS.
Definition real_psolve_dense_least_spec := @psolve_dense_least_spec ereal ereal_ops eR eO eS.
Definition trop_psolve_dense_least_spec := @psolve_dense_least_spec trop trop_ops tR tO tS.

(** the hypotheses of [psolve_dense_least] are satisfiable: the shift pattern over 2 x 2 x 2
    (rows (inr, A, B), columns (A, B, C), [b] on the cell (inl, inl, inl)); the loop takes four
    passes, the support is {0, 4, 6, 7} after them all of 0..7, and gather / solve / scatter
    agrees with the dense solver on the whole system *)
Example psolve_dense_example :
  let inl := Sum 0 (Prod []) 1 in let inr := Sum 1 (Prod []) 0 in
  let a0 := Prod [inr; Phys 1 2; Phys 2 2] in let a1 := Prod [Phys 1 2; Phys 2 2; Phys 3 2] in
  let b0 := Prod [inl; inl; inl] in
  let A := tab2 8 8 (fun i j => existsb (fun pi => Nat.eqb (eval (env_of pi) a0) i && Nat.eqb (eval (env_of pi) a1) j)
                                        (sup_envs [a0; a1])) in
  let B := tab2 8 1 (fun i _ => nat_mem i (sup_rows b0)) in
  exists g ents i',
    psolve_loop (loop_fuel b0) a0 a1 b0 (mkLI 0 5 false []) = LDone g ents i' /\ li_warn i' = false /\
    sup_rows g = [0; 1; 2; 3; 4; 5; 6; 7] /\
    map (fun v => get2 bool_ops (psolve_dense bool_ops 8 1 g [] A B) v 0) (seq 0 8)
    = [true; false; false; false; true; false; true; true] /\
    map (fun v => get2 bool_ops (solve_model_mat bool_ops 8 1 A B) v 0) (seq 0 8)
    = [true; false; false; false; true; false; true; true].
Proof. eexists. eexists. eexists. split; [vm_compute; reflexivity|]. repeat split; vm_compute; reflexivity. Qed.

Definition bool_psolve_early_least := @psolve_early_least bool bool_ops bR bO bS.
Definition real_psolve_early_least := @psolve_early_least ereal ereal_ops eR eO eS.
Definition trop_psolve_early_least := @psolve_early_least trop trop_ops tR tO tS.
