(** C08: soundness of the executable oracles of Model/SemiringCheck.v.
    - the law table: in each carrier, for every law number and all x y z (under the guard of the
      sub law), lhs, rhs and the expected expression denote the same element -- so judging both
      implementation results against the one expected value is a test of the law;
    - verdict 0 of a check function implies that the oracle (carrier operation) accepts the
      implementation's value;
    - what acceptance means numerically. *)
From Coq Require Import QArith Qabs Qcanon ZArith Bool List Ring_theory.
Import ListNotations.
Require Import Fggs.Model.Semiring Fggs.Model.EReal Fggs.Model.Trop Fggs.Model.SemiringCode
               Fggs.Model.SemiringCheck.
Require Import Fggs.Proofs.SemiringGeneric Fggs.Proofs.SemiringLaws Fggs.Proofs.SemiringCodeLaws.

(* ------------------------------------------------------------------------- *)
(** * law expressions evaluated in an abstract star semiring with a subtraction *)
Section LawTable.
  Context {S : Type} (o : sr_ops S) (sub : S -> S -> S).
  Hypothesis R : sr_ring o.
  Hypothesis O : sr_ordered o.
  Hypothesis St : sr_star o.
  Variable leS : S -> S -> Prop.
  Hypothesis sub_add : forall x y, leS y x -> add o (sub x y) y = x.

  Fixpoint lev_c (x y z : S) (e : lexp) : S :=
    match e with
    | LX => x | LY => y | LZ => z | L0 => zero o | L1 => one o
    | LAdd a b => add o (lev_c x y z a) (lev_c x y z b)
    | LMul a b => mul o (lev_c x y z a) (lev_c x y z b)
    | LSub a b => sub (lev_c x y z a) (lev_c x y z b)
    | LStar a => star o (lev_c x y z a)
    end.

  Theorem law_table_sound n x y z :
    (n = 10%nat -> leS y x) ->
    let '(l, r, e) := law_table n in
    lev_c x y z l = lev_c x y z e /\ lev_c x y z r = lev_c x y z e.
  Proof.
    intros G.
    destruct n as [|[|[|[|[|[|[|[|[|[|[|[|n]]]]]]]]]]]]; cbn [law_table lev_c];
      (split; try reflexivity).
    (* 0 add assoc *)   - symmetry. apply (sr_add_assoc _ R).
    (* 1 add comm *)    - apply (sr_add_comm _ R).
    (* 2 add ident *)   - apply (sr_add_0_r _ R).
                        - apply (sr_add_0_l _ R).
    (* 3 mul assoc *)   - symmetry. apply (sr_mul_assoc _ R).
    (* 4 mul comm *)    - apply (sr_mul_comm _ R).
    (* 5 mul ident *)   - apply (sr_mul_1_r _ R).
                        - apply (sr_mul_1_l _ R).
    (* 6 annihilation *) - apply (sr_mul_0_r _ R).
                        - apply (sr_mul_0_l _ R).
    (* 7 distr *)       - symmetry. apply (sr_distr_l _ R).
    (* 8 distr *)       - symmetry. apply (sr_distr_r _ R).
    (* 9 star unfold *) - symmetry. apply (star_unfold _ St).
    (* 10 sub *)        - apply sub_add. apply G. reflexivity.
    (* 11 star zero *)  - apply (star_zero _ R St).
    (* 12.. *)          - symmetry. apply (star_mul_solution _ R St).
  Qed.
End LawTable.

(* ------------------------------------------------------------------------- *)
(** * the oracle of the check functions is the carrier *)

Lemma lift_e2_emb f a b : lift_e2 f (xr_of_ereal a) (xr_of_ereal b) = xr_of_ereal (f a b).
Proof. unfold lift_e2. rewrite !ereal_of_xr_emb. reflexivity. Qed.
Lemma lift_e1_emb f a : lift_e1 f (xr_of_ereal a) = xr_of_ereal (f a).
Proof. unfold lift_e1. rewrite ereal_of_xr_emb. reflexivity. Qed.
Lemma lift_t2_emb f a b : lift_t2 f (xr_of_trop a) (xr_of_trop b) = xr_of_trop (f a b).
Proof. unfold lift_t2. rewrite !trop_of_xr_emb. reflexivity. Qed.
Lemma lift_t1_emb f a : lift_t1 f (xr_of_trop a) = xr_of_trop (f a).
Proof. unfold lift_t1. rewrite trop_of_xr_emb. reflexivity. Qed.

Lemma lev_oracle_real x y z e :
  lev (oracle_of 0) (xr_of_ereal x) (xr_of_ereal y) (xr_of_ereal z) e
  = xr_of_ereal (lev_c ereal_ops esub x y z e).
Proof.
  induction e as [| | | | |a IHa b IHb|a IHa b IHb|a IHa b IHb|a IHa]; cbn [lev lev_c];
    rewrite ?IHa, ?IHb;
    change (i_add (oracle_of 0)) with (lift_e2 eadd); change (i_mul (oracle_of 0)) with (lift_e2 emul);
    change (i_sub (oracle_of 0)) with (lift_e2 esub); change (i_star (oracle_of 0)) with (lift_e1 estar);
    rewrite ?lift_e2_emb, ?lift_e1_emb; reflexivity.
Qed.
Lemma lev_oracle_viterbi x y z e :
  lev (oracle_of 2) (xr_of_trop x) (xr_of_trop y) (xr_of_trop z) e
  = xr_of_trop (lev_c trop_ops tsub x y z e).
Proof.
  induction e as [| | | | |a IHa b IHb|a IHa b IHb|a IHa b IHb|a IHa]; cbn [lev lev_c];
    rewrite ?IHa, ?IHb;
    change (i_add (oracle_of 2)) with (lift_t2 tmax); change (i_mul (oracle_of 2)) with (lift_t2 tplus);
    change (i_sub (oracle_of 2)) with (lift_t2 (fun x _ : trop => x)); change (i_star (oracle_of 2)) with (lift_t1 tstar);
    rewrite ?lift_t2_emb, ?lift_t1_emb; reflexivity.
Qed.

(** the law oracle is sound for RealSemiring's carrier ... *)
Theorem law_oracle_sound_real n x y z :
  (n = 10%nat -> ele y x) ->
  let '(l, r, e) := law_table n in
  let X := xr_of_ereal x in let Y := xr_of_ereal y in let Z := xr_of_ereal z in
  lev (oracle_of 0) X Y Z l = lev (oracle_of 0) X Y Z e /\
  lev (oracle_of 0) X Y Z r = lev (oracle_of 0) X Y Z e.
Proof.
  intros G.
  pose proof (law_table_sound ereal_ops esub ereal_ring ereal_star ele esub_add n x y z G) as H.
  destruct (law_table n) as [[l r] e]. cbn zeta. rewrite !lev_oracle_real.
  destruct H as [H1 H2]. rewrite H1, H2. split; reflexivity.
Qed.
(** ... and for ViterbiSemiring's *)
Theorem law_oracle_sound_viterbi n x y z :
  (n = 10%nat -> tle y x) ->
  let '(l, r, e) := law_table n in
  let X := xr_of_trop x in let Y := xr_of_trop y in let Z := xr_of_trop z in
  lev (oracle_of 2) X Y Z l = lev (oracle_of 2) X Y Z e /\
  lev (oracle_of 2) X Y Z r = lev (oracle_of 2) X Y Z e.
Proof.
  intros G.
  pose proof (law_table_sound trop_ops tsub trop_ring trop_star tle tsub_add n x y z G) as H.
  destruct (law_table n) as [[l r] e]. cbn zeta. rewrite !lev_oracle_viterbi.
  destruct H as [H1 H2]. rewrite H1, H2. split; reflexivity.
Qed.
Example law_oracle_guard_ex : ele (Fin nn1) (Fin (nnadd nn1 nn1)) /\ tle (TFin 0) TPInf.
Proof. split; [cbn; discriminate | exact I]. Qed.

(** the guard computed by the check function is the order of the carrier *)
Lemma law_guard_real x y : law_guard 0 10 (xr_of_ereal x) (xr_of_ereal y) = true -> ele y x.
Proof.
  destruct x as [a|], y as [b|]; cbn; try discriminate; auto. intros H. apply Qle_bool_iff in H. exact H.
Qed.
Lemma law_guard_viterbi x y : law_guard 2 10 (xr_of_trop x) (xr_of_trop y) = true -> tle y x.
Proof.
  destruct x as [|a|], y as [|b|]; cbn; try discriminate; auto. intros H. apply Qle_bool_iff in H. exact H.
Qed.

(* ------------------------------------------------------------------------- *)
(** * verdict 0 means: the oracle accepts *)

Lemma verdict_0 exact k abs spec model r :
  verdict exact k abs spec model r = 0%nat ->
  accept_x exact k abs spec r = true /\ accept_x exact k abs model r = true.
Proof.
  unfold verdict. destruct (accept_x exact k abs spec r); cbn; [|discriminate].
  destruct (accept_x exact k abs model r); cbn; [auto | discriminate].
Qed.

Theorem binop_check_sound_real op x y r :
  c08_binop_check (0%nat, op, x, y, r) = 0%nat ->
  exists a b, ereal_of_xr (w_xr x) = Some a /\ ereal_of_xr (w_xr y) = Some b /\
    accept_x true 1 0
      (xr_of_ereal (match op with 0%nat => eadd a b | 1%nat => emul a b | _ => esub a b end)) r = true.
Proof.
  unfold c08_binop_check. cbn [oracle_of i_in].
  destruct (ereal_of_xr (w_xr x)) as [a|] eqn:Ea; [|discriminate].
  destruct (ereal_of_xr (w_xr y)) as [b|] eqn:Eb; [|discriminate].
  cbn [negb andb]. intros H. apply verdict_0 in H. destruct H as [H _].
  exists a, b. repeat split. revert H.
  destruct op as [|[|op]]; cbn [binop oracle_of i_add i_mul i_sub]; unfold lift_e2; rewrite Ea, Eb; auto.
Qed.
Theorem binop_check_sound_viterbi op x y r :
  c08_binop_check (2%nat, op, x, y, r) = 0%nat ->
  exists a b, trop_of_xr (w_xr x) = Some a /\ trop_of_xr (w_xr y) = Some b /\
    accept_x true 1 0
      (xr_of_trop (match op with 0%nat => tmax a b | 1%nat => tplus a b | _ => tsub a b end)) r = true.
Proof.
  unfold c08_binop_check. cbn [oracle_of i_in].
  destruct (trop_of_xr (w_xr x)) as [a|] eqn:Ea; [|discriminate].
  destruct (trop_of_xr (w_xr y)) as [b|] eqn:Eb; [|discriminate].
  cbn [negb andb]. intros H. apply verdict_0 in H. destruct H as [H _].
  exists a, b. repeat split. revert H.
  destruct op as [|[|op]]; cbn [binop oracle_of i_add i_mul i_sub]; unfold lift_t2; rewrite Ea, Eb; auto.
Qed.
(** star: verdict 0 means the implementation returned (a rounding of) the LEAST solution *)
Theorem star_check_sound_viterbi x r :
  c08_star_check (2%nat, x, r) = 0%nat ->
  exists a, trop_of_xr (w_xr x) = Some a /\ accept_x true 4 0 (xr_of_trop (tstar a)) r = true.
Proof.
  unfold c08_star_check. cbn [oracle_of i_in].
  destruct (trop_of_xr (w_xr x)) as [a|] eqn:Ea; [|discriminate].
  cbn [negb]. intros H. apply verdict_0 in H. destruct H as [H _].
  exists a. split; [reflexivity|]. revert H. cbn [i_star]. unfold lift_t1. rewrite Ea. auto.
Qed.
Theorem star_check_sound_real x r :
  c08_star_check (0%nat, x, r) = 0%nat ->
  exists a, ereal_of_xr (w_xr x) = Some a /\ accept_x true 4 0 (xr_of_ereal (estar a)) r = true.
Proof.
  unfold c08_star_check. cbn [oracle_of i_in].
  destruct (ereal_of_xr (w_xr x)) as [a|] eqn:Ea; [|discriminate].
  cbn [negb]. intros H. apply verdict_0 in H. destruct H as [H _].
  exists a. split; [reflexivity|]. revert H. cbn [i_star]. unfold lift_e1. rewrite Ea. auto.
Qed.

Local Open Scope Q_scope.
(** what acceptance of a finite result means *)
Theorem accept_q_exact_sound k abs m q :
  accept_q true k abs m (1%nat, q) = true ->
  (representable64 (Qred m) = true /\ m == q) \/
  (representable64 (Qred m) = false /\
   (Qabs (q - m) <= 1 * rtol * Qabs m \/ Qabs (q - m) <= 1 * tiny)).
Proof.
  unfold accept_q, qclose, qclose_tol. cbn [fst snd].
  destruct (representable64 (Qred m)).
  - intros H. left. split; [reflexivity|]. apply Qeq_bool_iff, H.
  - intros H. right. split; [reflexivity|]. apply orb_true_iff in H.
    destruct H as [H|H]; apply Qle_bool_iff in H; auto.
Qed.
(** an infinite result is accepted only at or beyond the binary64 overflow threshold *)
Theorem accept_q_inf_sound m :
  accept_q true 1 0 m (2%nat, 0) = true -> ovf * (1 - 1 * rtol) <= m.
Proof. unfold accept_q. cbn [fst]. intros H. apply Qle_bool_iff, H. Qed.

(** Viterbi star as the check sees it: a result +inf at exactly 0 (the behaviour before the
    repair of F2) is rejected by the oracle; the least solution 0 is accepted *)
Example c08_star_check_at_zero :
  c08_star_check (2%nat, (1%nat, 0), (2%nat, 0)) = 1%nat /\
  c08_star_check (2%nat, (1%nat, 0), (1%nat, 0)) = 0%nat /\
  c08_star_check (2%nat, (1%nat, -1 # 2), (1%nat, 0)) = 0%nat /\
  c08_star_check (2%nat, (1%nat, 1 # 2), (2%nat, 0)) = 0%nat.
Proof. repeat split; vm_compute; reflexivity. Qed.

(* ------------------------------------------------------------------------- *)
(** * the leastness oracle: verdict 0 means star(x) is below the exact solution y *)
Local Close Scope Q_scope.

Lemma trop_of_xr_inv r a : trop_of_xr r = Some a -> r = xr_of_trop a.
Proof. destruct r; cbn; intros H; inversion H; reflexivity. Qed.
Lemma ereal_of_xr_inv r a : ereal_of_xr r = Some a -> r = xr_of_ereal a.
Proof.
  destruct r as [| |q|]; cbn; try discriminate.
  - destruct (nnb q) eqn:E; [|discriminate]. intros H. inversion H. cbn. f_equal. symmetry. apply nn_of_Qc_qv, E.
  - intros H. inversion H. reflexivity.
Qed.
Lemma xr_eqb_refl_trop b : xr_eqb (xr_of_trop b) (xr_of_trop b) = true.
Proof.
  destruct b as [|q|]; try reflexivity. unfold xr_eqb. cbn.
  assert (H : Qle_bool (this q) (this q) = true) by (apply Qle_bool_iff, Qle_refl). rewrite H. reflexivity.
Qed.
Lemma xr_eqb_refl_ereal b : xr_eqb (xr_of_ereal b) (xr_of_ereal b) = true.
Proof.
  destruct b as [q|]; try reflexivity. unfold xr_eqb. cbn.
  assert (H : Qle_bool (this (qv q)) (this (qv q)) = true) by (apply Qle_bool_iff, Qle_refl). rewrite H. reflexivity.
Qed.

Theorem least_check_sound_viterbi x y s :
  c08_least_check (2%nat, x, y, s) = 0%nat ->
  forall a b, trop_of_xr (w_xr x) = Some a -> trop_of_xr (w_xr y) = Some b ->
    b = add trop_ops (one trop_ops) (mul trop_ops a b) ->
    xle (w_xr s) (xr_of_trop b) = true.
Proof.
  intros H a b Ha Hb Hsol. unfold c08_least_check in H. cbn [oracle_of i_in i_add i_one i_mul] in H.
  rewrite Ha, Hb in H. cbn [negb andb] in H.
  apply trop_of_xr_inv in Ha. apply trop_of_xr_inv in Hb. rewrite Ha, Hb in H.
  rewrite lift_t2_emb in H. change (XFin 0) with (xr_of_trop (TFin 0)) in H. rewrite lift_t2_emb in H.
  cbn [add one mul trop_ops] in Hsol. rewrite <- Hsol, xr_eqb_refl_trop in H. cbn [andb] in H.
  destruct (xle (w_xr s) (xr_of_trop b)); [reflexivity | discriminate H].
Qed.
Theorem least_check_sound_real x y s :
  c08_least_check (0%nat, x, y, s) = 0%nat ->
  forall a b, ereal_of_xr (w_xr x) = Some a -> ereal_of_xr (w_xr y) = Some b ->
    b = add ereal_ops (one ereal_ops) (mul ereal_ops a b) ->
    xle (w_xr s) (xr_of_ereal b) = true.
Proof.
  intros H a b Ha Hb Hsol. unfold c08_least_check in H. cbn [oracle_of i_in i_add i_one i_mul] in H.
  rewrite Ha, Hb in H. cbn [negb andb] in H.
  apply ereal_of_xr_inv in Ha. apply ereal_of_xr_inv in Hb. rewrite Ha, Hb in H.
  rewrite !lift_e2_emb in H. cbn [zero one ereal_ops] in H.
  cbn [add one mul ereal_ops] in Hsol. rewrite <- Hsol, xr_eqb_refl_ereal in H. cbn [andb] in H.
  destruct (xle (w_xr s) (xr_of_ereal b)); [reflexivity | discriminate H].
Qed.
Example least_check_ex :
  TFin 0%Qc = add trop_ops (one trop_ops) (mul trop_ops (TFin 0%Qc) (TFin 0%Qc)) /\
  c08_least_check (2%nat, (1%nat, 0%Q), (1%nat, 0%Q), (2%nat, 0%Q)) = 3%nat /\
  c08_least_check (2%nat, (1%nat, 0%Q), (1%nat, 0%Q), (1%nat, 0%Q)) = 0%nat.
Proof. repeat split; vm_compute; reflexivity. Qed.
