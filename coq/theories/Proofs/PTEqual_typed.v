(** The bridge from "[unify] returns a most general unifier on typed patterns" (Proofs/Axis_mgu.v)
    to the premise of C13: for every pair of well-formed patterned tensors over disjoint physical
    axes whose patterns are typed alike, the two views that [equal] / [allclose] build from the
    unifier with [Axis.stride] enumerate exactly the coincidences of the two patterns, each once
    ([overlap_ok]) -- whenever the model answers at all.

    Ingredients: every assignment of the unbound axes extends to an environment satisfying the
    bindings and respecting the sizes ([model_exists], [model_fits]); [stride] is the affine form of
    [eval] under every such environment and its dict only mentions unbound axes reachable from the
    axis ([stride_affine], [stride_keys_ok]); environments satisfying the bindings that agree on an
    axis agree on everything reachable from it ([reach_inj]); soundness and completeness of the
    unifier. *)
From Coq Require Import List Arith Lia PeanoNat Bool PArith.
Import ListNotations.
Require Import Fggs.Model.Axis Fggs.Model.AxisCheck Fggs.Model.PTensor Fggs.Model.PTensorCheck Fggs.Model.PTEqual.
Require Import Fggs.Proofs.Axis_sem Fggs.Proofs.Axis_unify Fggs.Proofs.Axis_complete_gen Fggs.Proofs.Axis_typed Fggs.Proofs.Axis_total.
Require Import Fggs.Proofs.Axis_fuel Fggs.Proofs.Axis_mgu Fggs.Proofs.Axis_rank Fggs.Proofs.Axis_stride_typed.
Require Import Fggs.Proofs.PTensor_sem Fggs.Proofs.PTensor_dense Fggs.Proofs.Axis_repr Fggs.Proofs.PTensor_gen.
Require Import Fggs.Proofs.PTEqual_count Fggs.Proofs.PTEqual_sem.

(** * the views, at the level of lists of physical axes *)
Section Views.
Variable G : ctx.
Variable sigma : subst.
Hypothesis CG : ctx_good G.
Hypothesis W : wts G sigma.
Variable fuel : nat.

(** [ps] with the stride of each of its axes *)
Definition strided (ps : list pn) (ss : list (nat * lin)) : Prop :=
  Forall2 (fun kn os => stride fuel sigma (Phys (fst kn) (snd kn)) = Ok os) ps ss.

Definition typed_pn (ps : list pn) : Prop := forall k n, In (k, n) ps -> G k <> [] /\ n = tsizes (G k).

Lemma view_eq ps ss rho g : strided ps ss -> models rho sigma ->
  (forall os j, In os ss -> In j (keys (snd os)) -> rho j = env_of g j) ->
  view_coords ss g = pcoords ps rho.
Proof.
  intros S M A. induction S as [|[k n] [o s] ps ss E S IH]; [reflexivity|]. simpl in E.
  unfold view_coords, pcoords in *. cbn [map fst snd]. f_equal.
  - pose proof (stride_affine rho sigma M _ _ _ _ E) as Aff. simpl in Aff. rewrite Aff. f_equal.
    apply lin_eval_ext. intros j Hj. symmetry. apply (A (o, s) j); [left; reflexivity|exact Hj].
  - apply IH. intros os j Hos Hj. apply (A os j); [right; exact Hos|exact Hj].
Qed.

Lemma strided_keys ps ss os j : strided ps ss -> In os ss -> In j (keys (snd os)) ->
  assoc j sigma = None /\ exists k n, In (k, n) ps /\ reach sigma k j.
Proof.
  intros S. induction S as [|[k n] [o s] ps ss E S IH]; intros Hos Hj; [contradiction|]. simpl in E.
  destruct Hos as [<-|Hos].
  - destruct (stride_keys_ok sigma _ _ _ _ E) as [_ K]. destruct (K j Hj) as [U (j0 & Hj0 & R)].
    split; [exact U|]. simpl in Hj0. destruct Hj0 as [<-|[]]. exists k, n. split; [left; reflexivity|exact R].
  - destruct (IH Hos Hj) as [U (k' & n' & Hk' & R)]. split; [exact U|]. exists k', n'. split; [right; exact Hk'|exact R].
Qed.

Variable sub : list pn.
Hypothesis ND_sub : NoDup (map fst sub).
Hypothesis sub_sized : forall j n, In (j, n) sub -> n = tsizes (G j) /\ G j <> [].

(** the assignment of the unbound axes read off a view index [g] *)
Definition g_env (g : list pn) : env :=
  fun k => if existsb (Pos.eqb k) (map fst sub) then env_of g k else 0.

Lemma g_env_in g k : In k (map fst sub) -> g_env g k = env_of g k.
Proof.
  intros H. unfold g_env. assert (existsb (Pos.eqb k) (map fst sub) = true) as ->; [|reflexivity].
  apply existsb_exists. exists k. split; [exact H|apply Pos.eqb_refl].
Qed.

(** C1: a view index denotes an environment *)
Lemma view_model g : In g (all_envs sub) ->
  exists rho, models rho sigma /\ fits G rho /\ forall j, In j (map fst sub) -> assoc j sigma = None -> rho j = env_of g j.
Proof.
  intros Hg. destruct (model_exists G sigma (g_env g) W) as (rho & M & U). exists rho. split; [exact M|]. split.
  - apply (model_fits G sigma rho W M). intros k A Gk. rewrite (U k A). unfold g_env.
    destruct (existsb (Pos.eqb k) (map fst sub)) eqn:X.
    + apply existsb_exists in X. destruct X as (k' & Hk' & X). apply Pos.eqb_eq in X. subst k'.
      apply in_map_iff in Hk'. destruct Hk' as ([k' n] & Ek & Hk'). simpl in Ek. subst k'.
      rewrite <- (proj1 (sub_sized k n Hk')). eapply env_of_in_range; eauto.
    + pose proof (gprimes_pos _ (CG k)). lia.
  - intros j Hj A. rewrite (U j A). apply g_env_in. exact Hj.
Qed.

(** C3: an environment satisfying the bindings is the denotation of a view index *)
Lemma model_view ps ss rho : strided ps ss -> models rho sigma ->
  (forall os j, In os ss -> In j (keys (snd os)) -> In j (map fst sub)) ->
  (forall j n, In (j, n) sub -> rho j < n) ->
  let g := map (fun kn : pn => (fst kn, rho (fst kn))) sub in
  In g (all_envs sub) /\ view_coords ss g = pcoords ps rho.
Proof.
  intros S M K R g. split; [apply all_envs_complete; exact R|].
  apply view_eq; [exact S|exact M|]. intros os j Hos Hj. unfold env_of, g.
  rewrite assoc_restrict; [reflexivity|]. eapply K; eauto.
Qed.

End Views.

(** * patterned tensors *)
Section Bridge.
Variable V : Type.
Variables t u : ptensor V.
Hypothesis Wt : wf V t.
Hypothesis Wu : wf V u.
Variable G : ctx.
Variable next : positive.
Variable pss : list (list ity).
Hypothesis CG : ctx_good G.
Hypothesis CB : ctx_below G next.
Hypothesis Te : tys G (vaxes t) pss.
Hypothesis Tf : tys G (vaxes u) pss.
Hypothesis Gp : Forall gprimes pss.
Hypothesis Dj : forall k, In k (map fst (paxes t)) -> ~ In k (map fst (paxes u)).

Notation cell_of := (cell_of V).

Lemma tys_sized G0 es qss : tys G0 es qss -> forall j n, In (j, n) (flat_map fvn es) -> n = tsizes (G0 j) /\ G0 j <> [].
Proof.
  induction 1 as [|e es ps qss He Hes IH]; intros j n Hj; [contradiction|]. simpl in Hj. apply in_app_or in Hj.
  destruct Hj as [Hj|Hj]; [|exact (IH j n Hj)]. split; [exact (proj1 (ty_sized_both G0) _ _ He j n Hj)|].
  apply (proj1 (ty_fv_both G0) _ _ He). eapply fvn_fv; eauto.
Qed.

Lemma tys_inrange G0 rho es qss : tys G0 es qss -> fits G0 rho -> Forall (inrange rho) es.
Proof. induction 1; intros F; constructor; [eapply ty_inrange; eauto|auto]. Qed.

(** the merged environment of an element of [t] and an element of [u] *)
Definition merge_env (pi pj : list pn) : env :=
  fun k => match assoc k pi with Some v => v | None => env_of pj k end.

Lemma keys_of_env ps pi k : In pi (all_envs ps) -> In k (map fst ps) -> assoc k pi <> None.
Proof.
  intros H Hk. destruct (in_all_envs _ _ H) as [K _]. rewrite <- K in Hk. intros A.
  apply (assoc_None_notin _ _ A). exact Hk.
Qed.

Lemma merge_left pi pj k : In pi (all_envs (paxes t)) -> In k (map fst (paxes t)) -> merge_env pi pj k = env_of pi k.
Proof.
  intros H Hk. unfold merge_env, env_of. destruct (assoc k pi) eqn:A; [reflexivity|].
  exfalso. exact (keys_of_env _ _ _ H Hk A).
Qed.

Lemma merge_right pi pj k : In pi (all_envs (paxes t)) -> In k (map fst (paxes u)) -> merge_env pi pj k = env_of pj k.
Proof.
  intros H Hk. unfold merge_env. destruct (assoc k pi) eqn:A; [|reflexivity]. exfalso.
  apply assoc_In in A. destruct (in_all_envs _ _ H) as [K _].
  apply (Dj k); [|exact Hk]. rewrite <- K. apply in_map_iff. exists (k, n). auto.
Qed.

Lemma fv_paxes (w : ptensor V) : wf V w -> forall k, In k (flat_map fv (vaxes w)) -> In k (map fst (paxes w)).
Proof.
  intros Ww k Hk. apply in_flat_map in Hk. destruct Hk as (e & He & Hk). rewrite fv_fvn in Hk. apply in_map_iff in Hk.
  destruct Hk as ([k' n] & <- & Hk). apply in_map_iff. exists (k', n). split; [reflexivity|].
  apply (wf_fv V w Ww). apply in_flat_map. eauto.
Qed.

Lemma merge_facts pi pj : In pi (all_envs (paxes t)) -> In pj (all_envs (paxes u)) ->
  let rho := merge_env pi pj in
  Forall (inrange rho) (vaxes t) /\ Forall (inrange rho) (vaxes u) /\
  evals rho (vaxes t) = cell_of t pi /\ evals rho (vaxes u) = cell_of u pj /\
  pcoords (paxes t) rho = map snd pi /\ pcoords (paxes u) rho = map snd pj.
Proof.
  intros Hpi Hpj rho.
  assert (A1 : forall k, In k (flat_map fv (vaxes t)) -> env_of pi k = rho k).
  { intros k Hk. symmetry. apply merge_left; [exact Hpi|apply fv_paxes; assumption]. }
  assert (A2 : forall k, In k (flat_map fv (vaxes u)) -> env_of pj k = rho k).
  { intros k Hk. symmetry. apply merge_right; [exact Hpi|apply fv_paxes; assumption]. }
  split; [|split; [|split; [|split; [|split]]]].
  - pose proof (wf_inrange V t pi Wt Hpi) as R. rewrite Forall_forall in *. intros e He.
    apply (inrange_ext_fv (env_of pi)); [|auto]. intros k Hk. apply A1. apply in_flat_map. eauto.
  - pose proof (wf_inrange V u pj Wu Hpj) as R. rewrite Forall_forall in *. intros e He.
    apply (inrange_ext_fv (env_of pj)); [|auto]. intros k Hk. apply A2. apply in_flat_map. eauto.
  - unfold cell_of. symmetry. apply evals_ext. exact A1.
  - unfold cell_of. symmetry. apply evals_ext. exact A2.
  - rewrite <- (pcoords_env_of (paxes t) pi (wf_nodup V t Wt) Hpi). apply pcoords_ext. intros k Hk. apply merge_left; assumption.
  - rewrite <- (pcoords_env_of (paxes u) pj (wf_nodup V u Wu) Hpj). apply pcoords_ext. intros k Hk. apply merge_right; assumption.
Qed.

(** an environment restricted to the physical axes of a tensor *)
Lemma restrict_facts (w : ptensor V) G0 qss rho : wf V w -> tys G0 (vaxes w) qss -> fits G0 rho ->
  let pi := map (fun kn : pn => (fst kn, rho (fst kn))) (paxes w) in
  In pi (all_envs (paxes w)) /\ map snd pi = pcoords (paxes w) rho /\ cell_of w pi = evals rho (vaxes w).
Proof.
  intros Ww Tw F pi. split; [|split].
  - apply all_envs_complete. intros k n Hk. apply (wf_fv V w Ww) in Hk. destruct (tys_sized _ _ _ Tw k n Hk) as [-> Gk]. apply F. exact Gk.
  - unfold pi, pcoords. rewrite map_map. reflexivity.
  - unfold cell_of. apply evals_ext. intros k Hk. unfold env_of, pi. rewrite assoc_restrict; [reflexivity|]. apply fv_paxes; assumption.
Qed.

Lemma subaxes_spec fuel sigma es ss sub : subaxes_of fuel sigma es ss = Ok sub ->
  exists fvs, fv_list fuel sigma es = Ok fvs /\ map fst sub = stride_keys ss /\ forall j n, In (j, n) sub -> In (j, n) fvs.
Proof.
  unfold subaxes_of. destruct (fv_list fuel sigma es) as [fvs|]; [|discriminate]. cbn [bind]. intros H.
  exists fvs. split; [reflexivity|]. apply mapM_Forall2 in H. revert H. generalize (stride_keys ss).
  intros ks H. induction H as [|k [j n] ks sub' E _ IH]; [split; [reflexivity|intros ? ? []]|].
  destruct (assoc k fvs) as [m|] eqn:A; [|discriminate]. inversion E; subst. destruct IH as [IH1 IH2]. split.
  - simpl. rewrite IH1. reflexivity.
  - intros j' n' [E'|H']; [inversion E'; subst; apply assoc_In; exact A|exact (IH2 _ _ H')].
Qed.

Lemma paxes_axes_fvn (ps : list pn) : flat_map fvn (paxes_axes ps) = ps.
Proof. induction ps as [|[k n] ps IH]; [reflexivity|]. simpl. rewrite IH. reflexivity. Qed.

Lemma strided_of_mapM fuel sigma ps ss : mapM (stride fuel sigma) (paxes_axes ps) = Ok ss -> strided sigma fuel ps ss.
Proof.
  intros H. apply mapM_Forall2 in H. unfold strided, paxes_axes in *. remember (map _ ps) as l eqn:El. revert ps El.
  induction H as [|x os l ss E _ IH]; intros ps El; destruct ps as [|[k n] ps]; try discriminate; [constructor|].
  simpl in El. inversion El; subst. constructor; [exact E|apply IH; reflexivity].
Qed.

(** the main theorem: whenever the model builds the two views, they enumerate the coincidences *)
Theorem overlap_typed_ok : forall cs, overlap_cs V t u next = Ok cs -> overlap_ok V t u cs.
Proof.
  intros cs H. unfold overlap_cs, overlap_model in H.
  destruct (unify_list (unify_fuel (vaxes t) (vaxes u)) (vaxes t) (vaxes u) {| us_subst := []; us_next := next; us_warn := false |})
    as [[b st']|] eqn:E; [|discriminate].
  cbn [bind fst snd] in H.
  destruct (unify_typed_mgu_any_fuel G _ _ pss next _ b st' CG CB Te Tf Gp E) as (Wn & (G' & L & X & T') & HU).
  destruct b.
  2:{ (* the patterns do not unify: no coincidence *)
    inversion H; subst cs. split; [constructor|]. split; [intros cc []|].
    intros pi pj Hpi Hpj Ec. exfalso.
    destruct (merge_facts pi pj Hpi Hpj) as (R1 & R2 & E1 & E2 & _).
    apply (HU (merge_env pi pj) R1 R2). unfold evals in E1, E2. rewrite E1, E2. exact Ec. }
  set (sigma := us_subst st') in *.
  destruct (mapM (stride (sub_fuel sigma) sigma) (paxes_axes (paxes t))) as [ss|] eqn:Ess; [|discriminate]. cbn [bind] in H.
  destruct (subaxes_of (sub_fuel sigma) sigma (paxes_axes (paxes t)) ss) as [sub|] eqn:Esub; [|discriminate]. cbn [bind] in H.
  destruct (mapM (stride (sub_fuel sigma) sigma) (paxes_axes (paxes u))) as [su|] eqn:Esu; [|discriminate]. cbn [bind] in H.
  destruct (seteq Pos.eqb (stride_keys su) (map fst sub)) eqn:Eseq; [|discriminate]. inversion H; subst cs. clear H.
  pose proof (ts_wts _ _ T') as W. fold sigma in W. pose proof (ts_good _ _ T') as CG'.
  assert (Te' : tys G' (vaxes t) pss) by (eapply tys_ext; eauto).
  assert (Tf' : tys G' (vaxes u) pss) by (eapply tys_ext; eauto).
  apply strided_of_mapM in Ess. apply strided_of_mapM in Esu.
  destruct (subaxes_spec _ _ _ _ _ Esub) as (fvs & Efv & Ksub & Fsub).
  pose proof (seteq_In Pos.eqb Pos.eqb_eq _ _ Eseq) as Kseq.
  (* keys *)
  assert (Kss : forall os j, In os ss -> In j (keys (snd os)) -> In j (map fst sub)).
  { intros os j Hos Hj. rewrite Ksub. unfold stride_keys. apply (stride_keys_fold ss [] j). right. exists os. auto. }
  assert (Ksu : forall os j, In os su -> In j (keys (snd os)) -> In j (map fst sub)).
  { intros os j Hos Hj. apply Kseq. unfold stride_keys. apply (stride_keys_fold su [] j). right. exists os. auto. }
  assert (Ksub' : forall j, In j (map fst sub) -> exists os, In os ss /\ In j (keys (snd os))).
  { intros j Hj. rewrite Ksub in Hj. unfold stride_keys in Hj. apply (stride_keys_fold ss [] j) in Hj. destruct Hj as [[]|Hj]. exact Hj. }
  assert (ND_sub : NoDup (map fst sub)).
  { rewrite Ksub. unfold stride_keys. apply stride_keys_fold_nodup. constructor. }
  (* sizes *)
  assert (Sz_t : forall k n, In (k, n) (paxes t) -> n = tsizes (G' k) /\ G' k <> []).
  { intros k n Hk. apply (wf_fv V t Wt) in Hk. exact (tys_sized _ _ _ Te' k n Hk). }
  assert (Sz_u : forall k n, In (k, n) (paxes u) -> n = tsizes (G' k) /\ G' k <> []).
  { intros k n Hk. apply (wf_fv V u Wu) in Hk. exact (tys_sized _ _ _ Tf' k n Hk). }
  assert (Sz_s : forall k T, In (k, T) sigma -> forall j n, In (j, n) (fvn T) -> n = tsizes (G' j)).
  { intros k T Hk j n Hj. destruct (wts_ty _ _ W k T Hk) as [_ HT]. exact (proj1 (ty_sized_both G') _ _ HT j n Hj). }
  assert (sub_sized : forall j n, In (j, n) sub -> n = tsizes (G' j) /\ G' j <> []).
  { intros j n Hj. split.
    - eapply (fv_list_sized (fun j => tsizes (G' j)) sigma); [exact Sz_s| |exact Efv|apply Fsub; exact Hj].
      intros j' n' Hj'. rewrite paxes_axes_fvn in Hj'. exact (proj1 (Sz_t _ _ Hj')).
    - destruct (Ksub' j) as (os & Hos & Hjo); [apply in_map_iff; exists (j, n); auto|].
      destruct (strided_keys sigma _ _ _ _ _ Ess Hos Hjo) as [_ (k & m & Hk & R)].
      destruct (reach_occurs _ _ _ R) as [<-|(k' & T & Hk' & HjT)]; [exact (proj2 (Sz_t _ _ Hk))|].
      destruct (wts_ty _ _ W k' T Hk') as [_ HT]. exact (proj1 (ty_fv_both G') _ _ HT j HjT). }
  (* every view index denotes an environment *)
  assert (C1 : forall g, In g (all_envs sub) ->
            exists rho, models rho sigma /\ fits G' rho /\
                        view_coords ss g = pcoords (paxes t) rho /\ view_coords su g = pcoords (paxes u) rho /\
                        (forall j, In j (map fst sub) -> rho j = env_of g j)).
  { intros g Hg. destruct (view_model G' sigma CG' W sub ND_sub sub_sized g Hg) as (rho & M & F & A).
    assert (A' : forall j, In j (map fst sub) -> rho j = env_of g j).
    { intros j Hj. apply A; [exact Hj|]. destruct (Ksub' j Hj) as (os & Hos & Hjo).
      exact (proj1 (strided_keys sigma _ _ _ _ _ Ess Hos Hjo)). }
    exists rho. split; [exact M|]. split; [exact F|]. split; [|split; [|exact A']].
    - eapply view_eq; eauto.
    - eapply view_eq; eauto. }
  unfold ov_pairs. cbn [ov_sub ov_self ov_other]. split; [|split].
  - (* each coincidence once *)
    rewrite map_map. cbn [fst]. apply nd_map_inj; [|apply all_envs_NoDup].
    intros g g' Hg Hg' Ev.
    destruct (C1 g Hg) as (rho & M & F & V1 & _ & A). destruct (C1 g' Hg') as (rho' & M' & F' & V1' & _ & A').
    apply (all_envs_coords_inj sub); trivial.
    rewrite <- (pcoords_env_of sub g ND_sub Hg), <- (pcoords_env_of sub g' ND_sub Hg'). apply pcoords_ext.
    intros j Hj. rewrite <- (A j Hj), <- (A' j Hj).
    destruct (Ksub' j Hj) as (os & Hos & Hjo).
    destruct (strided_keys sigma _ _ _ _ _ Ess Hos Hjo) as [_ (k & n & Hk & R)].
    apply (reach_inj sigma rho rho' M M' (fits_inr_s _ _ _ W F) (fits_inr_s _ _ _ W F') k j R).
    assert (Ep : pcoords (paxes t) rho = pcoords (paxes t) rho') by congruence.
    unfold pcoords in Ep. clear -Ep Hk. induction (paxes t) as [|[k0 n0] ps IH]; [contradiction|].
    simpl in Ep. inversion Ep. destruct Hk as [Hk|Hk]; [inversion Hk; subst; assumption|auto].
  - (* every listed pair is a coincidence *)
    intros cc Hcc. apply in_map_iff in Hcc. destruct Hcc as (g & <- & Hg). cbn [fst snd].
    destruct (C1 g Hg) as (rho & M & F & V1 & V2 & _).
    destruct (restrict_facts t G' pss rho Wt Te' F) as (P1 & P2 & P3).
    destruct (restrict_facts u G' pss rho Wu Tf' F) as (Q1 & Q2 & Q3).
    eexists _, _. split; [exact P1|]. split; [exact Q1|]. split; [rewrite P2; exact V1|]. split; [rewrite Q2; exact V2|].
    rewrite P3, Q3. unfold evals. apply (proj1 (HU rho (tys_inrange _ _ _ _ Te' F) (tys_inrange _ _ _ _ Tf' F))). exact M.
  - (* every coincidence is listed *)
    intros pi pj Hpi Hpj Ec.
    destruct (merge_facts pi pj Hpi Hpj) as (R1 & R2 & E1 & E2 & P1 & P2).
    set (rho0 := merge_env pi pj) in *.
    destruct (proj2 (HU rho0 R1 R2)) as (rho' & Xr & Rs & M).
    { unfold evals in E1, E2. rewrite E1, E2. exact Ec. }
    assert (Below_t : forall k n, In (k, n) (paxes t) -> rho' k = rho0 k).
    { intros k n Hk. apply Xr. apply (wf_fv V t Wt) in Hk. destruct (tys_sized _ _ _ Te k n Hk) as [_ Gk].
      destruct (Pos.ltb_spec k next) as [Lt|Ge]; [exact Lt|]. exfalso. apply Gk. apply CB. exact Ge. }
    assert (Below_u : forall k n, In (k, n) (paxes u) -> rho' k = rho0 k).
    { intros k n Hk. apply Xr. apply (wf_fv V u Wu) in Hk. destruct (tys_sized _ _ _ Tf k n Hk) as [_ Gk].
      destruct (Pos.ltb_spec k next) as [Lt|Ge]; [exact Lt|]. exfalso. apply Gk. apply CB. exact Ge. }
    assert (Rsub : forall j n, In (j, n) sub -> rho' j < n).
    { intros j n Hj. destruct (Ksub' j) as (os & Hos & Hjo); [apply in_map_iff; exists (j, n); auto|].
      destruct (strided_keys sigma _ _ _ _ _ Ess Hos Hjo) as [_ (k & m & Hk & R)].
      rewrite (proj1 (sub_sized j n Hj)).
      destruct (reach_occurs _ _ _ R) as [<-|(k' & T & Hk' & HjT)].
      - rewrite (Below_t k m Hk), <- (proj1 (Sz_t k m Hk)). unfold rho0. rewrite merge_left; [|exact Hpi|apply in_map_iff; exists (k, m); auto].
        eapply env_of_in_range; [apply (wf_nodup V t Wt)|exact Hpi|exact Hk].
      - unfold inr_s in Rs. rewrite Forall_forall in Rs. specialize (Rs _ Hk'). simpl in Rs.
        rewrite fv_fvn in HjT. apply in_map_iff in HjT. destruct HjT as ([j' n'] & Ej & HjT). simpl in Ej. subst j'.
        rewrite <- (Sz_s k' T Hk' j n' HjT). exact (fvn_of_inrange rho' T Rs j n' HjT). }
    destruct (model_view sigma _ sub (paxes t) ss rho' Ess M Kss Rsub) as [Hg V1].
    destruct (model_view sigma _ sub (paxes u) su rho' Esu M Ksu Rsub) as [_ V2].
    apply in_map_iff. eexists. split; [|exact Hg]. cbv beta. f_equal.
    + rewrite V1, <- P1. apply pcoords_ext. intros k Hk. apply in_map_iff in Hk. destruct Hk as ([k' n] & <- & Hk). eapply Below_t; eauto.
    + rewrite V2, <- P2. apply pcoords_ext. intros k Hk. apply in_map_iff in Hk. destruct Hk as ([k' n] & <- & Hk). eapply Below_u; eauto.
Qed.

End Bridge.
