(** The *unfolding lemma* for the sum-product of Model/SumProduct.v (generic in the commutative
    semiring): replacing, in the right-hand side of a rule, an edge labelled [Y] by the
    right-hand side of a rule [c] (externals of [c] identified with the attachment nodes, the
    other nodes of [c] added) gives a rule with the same value as the original rule evaluated
    in an environment where [Y] denotes the value of [c]:
      [rule_val e[Y := rule_val e c] rr = rule_val e (inline_rule rr .. c)].
    Consequences for the grammar's equations ([step]): if [Y] has exactly the one rule [c] and
    is used exactly once (in [rr]), one step of the unfolded grammar equals a step of the
    original grammar taken after updating [Y] (a Gauss-Seidel step), and the fixed points of
    the two systems of equations correspond.  Used by C05 (factorisation = iterated folding)
    and available to C15 (hyperedge replacement). *)
From Coq Require Import List Arith Bool PeanoNat Lia Permutation Ring Ring_theory.
Import ListNotations.
Require Import Fggs.Model.Semiring Fggs.Model.SCC Fggs.Model.SumProduct.
Require Import Fggs.Proofs.SCC_ntgraph Fggs.Proofs.BigSum Fggs.Proofs.SP_trees Fggs.Proofs.SP_nonrec
               Fggs.Proofs.SP_rename Fggs.Proofs.SP_main.

(** * list facts *)
Lemma nth_map_seq (f : nat -> nat) m j : j < m -> nth j (map f (seq 0 m)) 0 = f j.
Proof.
  intro H. rewrite (nth_indep _ 0 (f 0)) by (now rewrite map_length, seq_length).
  rewrite map_nth. now rewrite seq_nth.
Qed.
Lemma index_of_In_nth X l : In X l -> nth (index_of X l) l 0 = X.
Proof.
  induction l as [|Y l IH]; [intros []|]. intro H. cbn [index_of].
  destruct (Nat.eqb Y X) eqn:E; [apply Nat.eqb_eq in E; now subst|].
  cbn [nth]. apply IH. destruct H as [H|H]; [apply Nat.eqb_neq in E; congruence|exact H].
Qed.
Lemma index_of_nth_NoDup l : NoDup l -> forall k, k < length l -> index_of (nth k l 0) l = k.
Proof.
  induction 1 as [|x l Hx ND IH]; intros k Hk; [cbn in Hk; lia|].
  destruct k as [|k]; cbn [nth index_of]; [now rewrite Nat.eqb_refl|].
  cbn [length] in Hk. assert (Hin : In (nth k l 0) l) by (apply nth_In; lia).
  destruct (Nat.eqb x (nth k l 0)) eqn:E; [apply Nat.eqb_eq in E; subst; contradiction|].
  f_equal. apply IH. lia.
Qed.
Lemma map_index_of_NoDup (g : nat -> nat) l : NoDup l -> forall l', length l = length l' ->
  map (fun j => g (nth (index_of j l) l' 0)) l = map g l'.
Proof.
  induction 1 as [|x l Hx ND IH]; intros [|y l'] Hl; try discriminate; [reflexivity|].
  cbn [map index_of]. rewrite Nat.eqb_refl. cbn [nth]. f_equal.
  rewrite <- (IH l') by (cbn in Hl; lia). apply map_ext_in. intros j Hj.
  destruct (Nat.eqb x j) eqn:E; [apply Nat.eqb_eq in E; subst; contradiction|]. reflexivity.
Qed.
Lemma sel_app_lt a b att : (forall u, In u att -> u < length a) -> sel (a ++ b) att = sel a att.
Proof. intros H. apply sel_eq_In. intros u Hu. apply app_nth1. now apply H. Qed.

Section Unfold.
Context {R : Type} (o : sr_ops R).
Hypothesis Hr : sr_ring o.
Add Ring RingRU : (sr_is_srt o Hr).

Lemma sumS_all_assts_app s1 : forall s2 (F : list nat -> R),
  sumS o (all_assts (s1 ++ s2)) F
  = sumS o (all_assts s1) (fun a => sumS o (all_assts s2) (fun b => F (a ++ b))).
Proof.
  induction s1 as [|n s1 IH]; intros s2 F.
  - cbn [app all_assts]. now rewrite (sumS_single o Hr).
  - cbn [app all_assts]. rewrite !(sumS_flat_map o Hr). apply sumS_ext. intros i _.
    rewrite !sumS_map, IH. reflexivity.
Qed.

Variable G : grammar.

(** the positions of [c] that are not external, ascending *)
Definition ints (c : rule) : list nat :=
  filter (fun j => negb (mem (r_ext c) j)) (seq 0 (length (r_nodes c))).
(** where node [j] of [c] goes in the unfolded rule: an external node to the attachment node
    it is identified with, an internal one to a new position after the [n0] nodes of [rr] *)
Definition rho (n0 : nat) (att : list nat) (c : rule) (j : nat) : nat :=
  if mem (r_ext c) j then nth (index_of j (r_ext c)) att 0 else n0 + index_of j (ints c).
Definition inline_rule (rr : rule) (es1 es2 : list (nat * list nat)) (att : list nat) (c : rule) : rule :=
  {| r_lhs := r_lhs rr;
     r_nodes := r_nodes rr ++ map (fun j => nth j (r_nodes c) 0) (ints c);
     r_edges := es1 ++ es2 ++ map (fun ed => (fst ed, map (rho (length (r_nodes rr)) att c) (snd ed))) (r_edges c);
     r_ext := r_ext rr |}.

(** side conditions: positions in range, externals of [c] distinct, as many attachment nodes as
    externals, with the same domain sizes *)
Record unfold_ok (rr : rule) (es1 es2 : list (nat * list nat)) (att : list nat) (c : rule) : Prop := {
  uo_ext : forall u, In u (r_ext rr) -> u < length (r_nodes rr);
  uo_es : forall ed u, In ed (es1 ++ es2) -> In u (snd ed) -> u < length (r_nodes rr);
  uo_att : forall u, In u att -> u < length (r_nodes rr);
  uo_cext : forall u, In u (r_ext c) -> u < length (r_nodes c);
  uo_ces : forall ed u, In ed (r_edges c) -> In u (snd ed) -> u < length (r_nodes c);
  uo_nodup : NoDup (r_ext c);
  uo_len : length att = length (r_ext c);
  uo_dom : forall k, k < length att ->
             dom G (nth (nth k att 0) (r_nodes rr) 0) = dom G (nth (nth k (r_ext c) 0) (r_nodes c) 0) }.

Section Reindex.
Variables (rr : rule) (es1 es2 : list (nat * list nat)) (att : list nat) (c : rule).
Hypothesis OK : unfold_ok rr es1 es2 att c.
Let n0 := length (r_nodes rr).
Let m := length (r_nodes c).
Let szi := map (dom G) (map (fun j => nth j (r_nodes c) 0) (ints c)).

Definition beta (a b' : list nat) : list nat := map (fun j => nth (rho n0 att c j) (a ++ b') 0) (seq 0 m).

Lemma ints_In j : In j (ints c) <-> j < m /\ ~ In j (r_ext c).
Proof.
  unfold ints. rewrite filter_In, in_seq, negb_true_iff. fold m. split.
  - intros [H1 H2]. split; [lia|]. intro Hin. apply mem_In in Hin. congruence.
  - intros [H1 H2]. split; [lia|]. destruct (mem (r_ext c) j) eqn:E; [apply mem_In in E; contradiction|reflexivity].
Qed.
Lemma ints_NoDup : NoDup (ints c).
Proof. apply NoDup_filter, seq_NoDup. Qed.

Lemma node_size_c j : nth j (node_sizes G c) 0 = dom G (nth j (r_nodes c) 0) \/ m <= j.
Proof.
  destruct (Nat.lt_ge_cases j m) as [H|H]; [left|now right].
  unfold node_sizes. rewrite (nth_indep _ 0 (dom G 0)) by (now rewrite map_length). now rewrite map_nth.
Qed.
Lemma node_size_c_lt j : j < m -> nth j (node_sizes G c) 0 = dom G (nth j (r_nodes c) 0).
Proof. intro H. destruct (node_size_c j) as [E|E]; [exact E|lia]. Qed.
Lemma node_size_rr j : j < n0 -> nth j (node_sizes G rr) 0 = dom G (nth j (r_nodes rr) 0).
Proof.
  intro H. unfold node_sizes. rewrite (nth_indep _ 0 (dom G 0)) by (now rewrite map_length). now rewrite map_nth.
Qed.
Lemma szi_nth k : k < length (ints c) -> nth k szi 0 = dom G (nth (nth k (ints c) 0) (r_nodes c) 0).
Proof.
  intro H. unfold szi. rewrite map_map.
  rewrite (nth_indep _ 0 (dom G (nth 0 (r_nodes c) 0))) by (now rewrite map_length).
  rewrite (map_nth (fun j => dom G (nth j (r_nodes c) 0)) (ints c) 0 k). reflexivity.
Qed.

Lemma beta_nth a b' j : j < m -> nth j (beta a b') 0 = nth (rho n0 att c j) (a ++ b') 0.
Proof. intro H. unfold beta. now rewrite nth_map_seq. Qed.
Lemma beta_length a b' : length (beta a b') = m.
Proof. unfold beta. now rewrite map_length, seq_length. Qed.

(** value at an external position: the attachment node's value *)
Lemma beta_ext a b' j : length a = n0 -> In j (r_ext c) ->
  nth j (beta a b') 0 = nth (nth (index_of j (r_ext c)) att 0) a 0.
Proof.
  intros La Hj. rewrite beta_nth by (now apply (uo_cext _ _ _ _ _ OK)). unfold rho.
  rewrite (proj2 (mem_In (r_ext c) j) Hj). apply app_nth1. rewrite La. apply (uo_att _ _ _ _ _ OK).
  apply nth_In. rewrite (uo_len _ _ _ _ _ OK). now apply index_of_lt.
Qed.
(** value at an internal position: the corresponding new coordinate *)
Lemma beta_int a b' j : length a = n0 -> In j (ints c) -> nth j (beta a b') 0 = nth (index_of j (ints c)) b' 0.
Proof.
  intros La Hj. pose proof (proj1 (ints_In j) Hj) as [Hm Hn]. rewrite beta_nth by exact Hm. unfold rho.
  destruct (mem (r_ext c) j) eqn:E; [apply mem_In in E; contradiction|].
  rewrite app_nth2 by lia. f_equal. lia.
Qed.

Lemma sel_beta a b' at_ : (forall u, In u at_ -> u < m) ->
  sel (beta a b') at_ = sel (a ++ b') (map (rho n0 att c) at_).
Proof.
  intro H. unfold sel. rewrite map_map. apply map_ext_in. intros u Hu. apply beta_nth. now apply H.
Qed.

(** the key re-indexing: the value of [c] at the attachment nodes' values is a sum over the
    new coordinates only *)
Lemma rule_val_reindex (e : env (R:=R)) a : In a (all_assts (node_sizes G rr)) ->
  rule_val o G e c (sel a att)
  = sumS o (all_assts szi)
         (fun b' => prodS o (r_edges c) (fun ed => e (fst ed) (sel (a ++ b') (map (rho n0 att c) (snd ed))))).
Proof.
  intro Ha. pose proof (all_assts_length _ _ Ha) as La. unfold node_sizes in La. rewrite map_length in La. fold n0 in La.
  unfold rule_val. symmetry.
  apply (sumS_bij o Hr (beta a)).
  - apply NoDup_all_assts.
  - apply NoDup_filter, NoDup_all_assts.
  - (* beta lands in the assignments of c that agree with a on the externals *)
    intros b' Hb. pose proof (all_assts_length _ _ Hb) as Lb. unfold szi in Lb. rewrite !map_length in Lb.
    apply filter_In. split.
    + apply all_assts_intro; [rewrite beta_length; unfold node_sizes; now rewrite map_length|].
      intros j Hj. unfold node_sizes in Hj. rewrite map_length in Hj. fold m in Hj.
      rewrite node_size_c_lt by exact Hj.
      destruct (in_dec Nat.eq_dec j (r_ext c)) as [Hin|Hnin].
      * rewrite beta_ext by trivial.
        set (k := index_of j (r_ext c)).
        assert (Hk : k < length att) by (rewrite (uo_len _ _ _ _ _ OK); now apply index_of_lt).
        assert (Hu : nth k att 0 < n0) by (apply (uo_att _ _ _ _ _ OK); now apply nth_In).
        pose proof (all_assts_nth _ _ (nth k att 0) Ha) as Hlt. unfold node_sizes in Hlt at 1. rewrite map_length in Hlt.
        specialize (Hlt Hu). rewrite node_size_rr in Hlt by exact Hu.
        rewrite (uo_dom _ _ _ _ _ OK k Hk) in Hlt. unfold k in Hlt at 2. now rewrite index_of_In_nth in Hlt.
      * assert (Hi : In j (ints c)) by (apply ints_In; tauto).
        rewrite beta_int by trivial.
        set (k := index_of j (ints c)). assert (Hk : k < length (ints c)) by now apply index_of_lt.
        pose proof (all_assts_nth _ _ k Hb) as Hlt. unfold szi in Hlt at 1. rewrite !map_length in Hlt. specialize (Hlt Hk).
        rewrite szi_nth in Hlt by exact Hk. unfold k in Hlt at 2. now rewrite index_of_In_nth in Hlt.
    + apply nat_list_eqb_iff. unfold sel.
      rewrite (map_ext_in _ (fun j => (fun u => nth u a 0) (nth (index_of j (r_ext c)) att 0))).
      * apply (map_index_of_NoDup (fun u => nth u a 0)); [apply OK|]. symmetry. apply OK.
      * intros j Hj. now apply beta_ext.
  - (* injective *)
    intros b1 b2 H1 H2 E.
    pose proof (all_assts_length _ _ H1) as L1. pose proof (all_assts_length _ _ H2) as L2.
    unfold szi in L1, L2. rewrite !map_length in L1, L2.
    apply nth_ext with (d := 0) (d' := 0); [congruence|]. intros k Hk. rewrite L1 in Hk.
    assert (Hi : In (nth k (ints c) 0) (ints c)) by now apply nth_In.
    pose proof (beta_int a b1 _ La Hi) as B1. pose proof (beta_int a b2 _ La Hi) as B2.
    rewrite (index_of_nth_NoDup _ ints_NoDup k Hk) in B1, B2. congruence.
  - (* surjective *)
    intros b Hb. apply filter_In in Hb. destruct Hb as [Hb Hs]. apply nat_list_eqb_iff in Hs.
    pose proof (all_assts_length _ _ Hb) as Lb. unfold node_sizes in Lb. rewrite map_length in Lb. fold m in Lb.
    exists (sel b (ints c)). split.
    + apply all_assts_intro; [unfold sel, szi; now rewrite !map_length|].
      intros k Hk. unfold szi in Hk. rewrite !map_length in Hk. rewrite szi_nth by exact Hk.
      unfold sel. rewrite (nth_indep _ 0 (nth 0 b 0)) by (now rewrite map_length).
      rewrite (map_nth (fun i => nth i b 0) (ints c) 0 k).
      assert (Hi : In (nth k (ints c) 0) (ints c)) by now apply nth_In.
      apply ints_In in Hi. destruct Hi as [Hm _].
      pose proof (all_assts_nth _ _ (nth k (ints c) 0) Hb) as Hlt. unfold node_sizes in Hlt at 1. rewrite map_length in Hlt.
      specialize (Hlt Hm). now rewrite node_size_c_lt in Hlt.
    + apply nth_ext with (d := 0) (d' := 0); [rewrite beta_length; congruence|].
      intros j Hj. rewrite beta_length in Hj.
      destruct (in_dec Nat.eq_dec j (r_ext c)) as [Hin|Hnin].
      * rewrite beta_ext by trivial.
        (* b j = (sel b ext) at the index of j = (sel a att) at that index *)
        set (k := index_of j (r_ext c)). assert (Hk : k < length (r_ext c)) by now apply index_of_lt.
        assert (E1 : nth k (sel b (r_ext c)) 0 = nth j b 0).
        { unfold sel. rewrite (nth_indep _ 0 (nth 0 b 0)) by (now rewrite map_length).
          rewrite (map_nth (fun i => nth i b 0) (r_ext c) 0 k). unfold k. now rewrite index_of_In_nth. }
        assert (E2 : nth k (sel a att) 0 = nth (nth k att 0) a 0).
        { unfold sel. rewrite (nth_indep _ 0 (nth 0 a 0)) by (rewrite map_length, (uo_len _ _ _ _ _ OK); exact Hk).
          now rewrite (map_nth (fun i => nth i a 0) att 0 k). }
        rewrite <- E1, Hs, E2. reflexivity.
      * assert (Hi : In j (ints c)) by (apply ints_In; tauto).
        rewrite beta_int by trivial. unfold sel.
        rewrite (nth_indep _ 0 (nth 0 b 0)) by (rewrite map_length; now apply index_of_lt).
        rewrite (map_nth (fun i => nth i b 0) (ints c) 0). now rewrite index_of_In_nth.
  - intros b' Hb. apply prodS_ext. intros ed Hed. f_equal. symmetry. apply sel_beta.
    intros u Hu. exact (uo_ces _ _ _ _ _ OK ed u Hed Hu).
Qed.

End Reindex.

(** ** the unfolding lemma *)
Theorem rule_val_unfold (e : env (R:=R)) (rr : rule) es1 Y att es2 (c : rule) xi :
  r_edges rr = es1 ++ (Y, att) :: es2 ->
  unfold_ok rr es1 es2 att c ->
  (forall ed, In ed (es1 ++ es2) -> fst ed <> Y) ->
  (forall ed, In ed (r_edges c) -> fst ed <> Y) ->
  rule_val o G (fun l => if Nat.eqb l Y then (fun zeta => rule_val o G e c zeta) else e l) rr xi
  = rule_val o G e (inline_rule rr es1 es2 att c) xi.
Proof.
  intros Ees OK NY1 NY2.
  set (e' := fun l => if Nat.eqb l Y then (fun zeta => rule_val o G e c zeta) else e l).
  set (n0 := length (r_nodes rr)).
  set (szi := map (dom G) (map (fun j => nth j (r_nodes c) 0) (ints c))).
  assert (Esz : node_sizes G (inline_rule rr es1 es2 att c) = node_sizes G rr ++ szi).
  { unfold node_sizes, inline_rule. cbn [r_nodes]. now rewrite map_app. }
  unfold rule_val at 1 2. rewrite Esz, !(sumS_filter o Hr), sumS_all_assts_app.
  apply sumS_ext. intros a Ha.
  pose proof (all_assts_length _ _ Ha) as La. unfold node_sizes in La. rewrite map_length in La. fold n0 in La.
  cbn [r_ext inline_rule].
  assert (Esel : forall b, sel (a ++ b) (r_ext rr) = sel a (r_ext rr)).
  { intro b. apply sel_app_lt. intros u Hu. rewrite La. now apply (uo_ext _ _ _ _ _ OK). }
  rewrite (sumS_ext o _ _ (fun b => if nat_list_eqb (sel a (r_ext rr)) xi
                                    then prodS o (r_edges (inline_rule rr es1 es2 att c))
                                               (fun ed => e (fst ed) (sel (a ++ b) (snd ed)))
                                    else zero o)) by (intros b _; now rewrite Esel).
  destruct (nat_list_eqb (sel a (r_ext rr)) xi); [|now rewrite (sumS_zero o Hr)].
  (* the products *)
  rewrite Ees. cbn [r_edges inline_rule].
  rewrite (prodS_app o Hr), prodS_cons. cbn [fst snd].
  assert (P1 : forall es, (forall ed, In ed es -> In ed (es1 ++ es2)) -> forall b,
             prodS o es (fun ed => e (fst ed) (sel (a ++ b) (snd ed))) = prodS o es (fun ed => e' (fst ed) (sel a (snd ed)))).
  { intros es Hsub b. apply prodS_ext. intros ed Hed. unfold e'.
    destruct (Nat.eqb (fst ed) Y) eqn:E; [apply Nat.eqb_eq in E; exfalso; exact (NY1 ed (Hsub ed Hed) E)|].
    f_equal. apply sel_app_lt. intros u Hu. rewrite La. exact (uo_es _ _ _ _ _ OK ed u (Hsub ed Hed) Hu). }
  subst n0 szi.
  rewrite (sumS_ext o _ _ (fun b => mul o (mul o (prodS o es1 (fun ed => e' (fst ed) (sel a (snd ed))))
                                                (prodS o es2 (fun ed => e' (fst ed) (sel a (snd ed)))))
                                          (prodS o (r_edges c) (fun ed => e (fst ed) (sel (a ++ b) (map (rho (length (r_nodes rr)) att c) (snd ed))))))).
  2:{ intros b _. rewrite !(prodS_app o Hr), prodS_map. cbn [fst snd].
      rewrite (P1 es1) by (intros ed H; apply in_or_app; now left).
      rewrite (P1 es2) by (intros ed H; apply in_or_app; now right). ring. }
  rewrite <- (sumS_mul_l o Hr).
  rewrite <- (rule_val_reindex rr es1 es2 att c OK e a Ha).
  unfold e' at 2. rewrite Nat.eqb_refl. ring.
Qed.

(** ** consequences for the equations of a grammar *)
End Unfold.

Lemma In_firstn_nth {A} (l : list A) : forall i x, In x (firstn i l) -> exists k, k < i /\ nth_error l k = Some x.
Proof.
  induction l as [|y l IH]; intros [|i] x H; cbn [firstn] in H; try destruct H.
  - exists 0. split; [lia|]. now subst.
  - destruct (IH i x H) as (k & Hk & E). exists (S k). split; [lia|exact E].
Qed.
Lemma In_skipn_nth {A} (l : list A) : forall i x, In x (skipn i l) -> exists k, i <= k /\ nth_error l k = Some x.
Proof.
  induction l as [|y l IH]; intros [|i] x H; cbn [skipn] in H; try destruct H.
  - exists 0. split; [lia|]. now subst.
  - apply In_nth_error in H. destruct H as (k & E). exists (S k). split; [lia|exact E].
  - destruct (IH i x H) as (k & Hk & E). exists (S k). split; [lia|exact E].
Qed.

Definition replace_nth {A} (l : list A) (i : nat) (x : A) : list A := firstn i l ++ x :: skipn (S i) l.

(** [G']: a grammar in which the nonterminal [Y] has exactly the one rule [c] (which does not
    use [Y]) and labels exactly one edge of the grammar, in rule number [ir] = [rr] (whose
    left-hand side is not [Y]).  [unfolded]: the same grammar with that edge replaced by the
    right-hand side of [c]; the rule of [Y] stays, [Y] is no longer used. *)
Record unfolding (G' : grammar) (ir : nat) (rr : rule) es1 Y att es2 (c : rule) : Prop := {
  uf_rr : nth_error (g_rules G') ir = Some rr;
  uf_es : r_edges rr = es1 ++ (Y, att) :: es2;
  uf_ok : unfold_ok G' rr es1 es2 att c;
  uf_y_nt : is_term G' Y = false;
  uf_y_rule : rules_of G' Y = [c];
  uf_y_not_lhs : r_lhs rr <> Y;
  uf_once_rr : forall ed, In ed (es1 ++ es2) -> fst ed <> Y;
  uf_once_c : forall ed, In ed (r_edges c) -> fst ed <> Y;
  uf_once_other : forall k r', nth_error (g_rules G') k = Some r' -> k <> ir ->
                    forall ed, In ed (r_edges r') -> fst ed <> Y }.

Definition unfolded (G' : grammar) (ir : nat) (rr : rule) es1 att es2 (c : rule) : grammar :=
  {| g_doms := g_doms G'; g_labels := g_labels G';
     g_rules := replace_nth (g_rules G') ir (inline_rule rr es1 es2 att c); g_start := g_start G' |}.

Section Equations.
Context {R : Type} (o : sr_ops R).
Hypothesis Hr : sr_ring o.
Add Ring RingRE : (sr_is_srt o Hr).

Lemma rule_val_doms G1 G2 (e : env (R:=R)) r xi : g_doms G1 = g_doms G2 -> rule_val o G1 e r xi = rule_val o G2 e r xi.
Proof. intro E. unfold rule_val, node_sizes, dom. now rewrite E. Qed.

Lemma nth_error_split {A} (l : list A) i x : nth_error l i = Some x -> l = firstn i l ++ x :: skipn (S i) l.
Proof.
  revert i. induction l as [|y l IH]; intros [|i] H; try discriminate.
  - cbn in H. injection H as ->. reflexivity.
  - cbn [firstn skipn app]. f_equal. now apply IH.
Qed.

Variables (G' : grammar) (ir : nat) (rr : rule) (es1 : list (nat * list nat)) (Y : nat) (att : list nat)
          (es2 : list (nat * list nat)) (c : rule).
Hypothesis U : unfolding G' ir rr es1 Y att es2 c.
Let G := unfolded G' ir rr es1 att es2 c.

Lemma unf_is_term l : is_term G l = is_term G' l.
Proof. reflexivity. Qed.

(** update of an environment at [Y] *)
Definition updY (x : env (R:=R)) (v : list nat -> R) : env (R:=R) := fun l => if Nat.eqb l Y then v else x l.

Lemma env_k_upd w x v l : env_k G' w (updY x v) l = if Nat.eqb l Y then v else env_k G' w x l.
Proof.
  unfold env_k, updY. destruct (Nat.eqb l Y) eqn:E; [|reflexivity].
  apply Nat.eqb_eq in E. subst l. now rewrite (uf_y_nt _ _ _ _ _ _ _ _ U).
Qed.

(** rules without [Y]-edge do not see the value of [Y] *)
Lemma rule_val_no_Y w x v r xi : (forall ed, In ed (r_edges r) -> fst ed <> Y) ->
  rule_val o G' (env_k G' w (updY x v)) r xi = rule_val o G' (env_k G' w x) r xi.
Proof.
  intro H. apply (rule_val_ext o). intros ed a Hed _. rewrite env_k_upd.
  destruct (Nat.eqb (fst ed) Y) eqn:E; [apply Nat.eqb_eq in E; exfalso; exact (H ed Hed E)|reflexivity].
Qed.

Lemma stepY w x xi : step o G' w x Y xi = rule_val o G' (env_k G' w x) c xi.
Proof.
  unfold step. rewrite (uf_y_nt _ _ _ _ _ _ _ _ U), (uf_y_rule _ _ _ _ _ _ _ _ U).
  rewrite (sumS_single o Hr). reflexivity.
Qed.

(** *** one step of the unfolded grammar = a Gauss-Seidel step of the original one *)
Theorem step_unfold w x X xi : X <> Y ->
  step o G w x X xi = step o G' w (updY x (step o G' w x Y)) X xi.
Proof.
  intro HX. unfold step at 1 2. rewrite unf_is_term. destruct (is_term G' X) eqn:TX; [reflexivity|].
  unfold rules_of. change (g_rules G) with (replace_nth (g_rules G') ir (inline_rule rr es1 es2 att c)).
  pose proof (nth_error_split _ _ _ (uf_rr _ _ _ _ _ _ _ _ U)) as Es.
  rewrite Es at 2. unfold replace_nth. rewrite !filter_app. cbn [filter]. cbn [r_lhs inline_rule].
  assert (Other : forall l, (forall r', In r' l -> exists k, nth_error (g_rules G') k = Some r' /\ k <> ir) ->
             sumS o (filter (fun r => Nat.eqb (r_lhs r) X) l)
                  (fun r => rule_val o G (fun l => if is_term G l then w l else x l) r xi)
             = sumS o (filter (fun r => Nat.eqb (r_lhs r) X) l)
                    (fun r => rule_val o G' (fun l => if is_term G' l then w l else updY x (step o G' w x Y) l) r xi)).
  { intros l Hl. apply sumS_ext. intros r' Hr'. apply filter_In in Hr'. destruct Hr' as [Hin _].
    destruct (Hl r' Hin) as (k & Hk & Hne).
    rewrite (rule_val_doms G G') by reflexivity. symmetry.
    apply (rule_val_no_Y w x). intros ed Hed. exact (uf_once_other _ _ _ _ _ _ _ _ U k r' Hk Hne ed Hed). }
  assert (OA := Other (firstn ir (g_rules G'))
                 (fun r' Hin => match In_firstn_nth _ _ _ Hin with
                                | ex_intro _ k (conj Hk E) => ex_intro _ k (conj E (Nat.lt_neq _ _ Hk)) end)).
  assert (OB := Other (skipn (S ir) (g_rules G'))
                 (fun r' Hin => match In_skipn_nth _ _ _ Hin with
                                | ex_intro _ k (conj Hk E) => ex_intro _ k (conj E (fun H : k = ir => Nat.nle_succ_diag_l ir (eq_ind k (fun z => S ir <= z) Hk ir H))) end)).
  destruct (Nat.eqb (r_lhs rr) X).
  2:{ rewrite !(sumS_app o Hr). now rewrite OA, OB. }
  rewrite !(sumS_app o Hr), !sumS_cons, OA, OB. f_equal. f_equal.
  - rewrite (rule_val_doms G G') by reflexivity.
    rewrite <- (rule_val_unfold o Hr G' _ rr es1 Y att es2 c xi (uf_es _ _ _ _ _ _ _ _ U) (uf_ok _ _ _ _ _ _ _ _ U)
                  (uf_once_rr _ _ _ _ _ _ _ _ U) (uf_once_c _ _ _ _ _ _ _ _ U)).
    apply (rule_val_ext o). intros ed a Hed _. cbv beta.
    destruct (Nat.eqb (fst ed) Y) eqn:E.
    + apply Nat.eqb_eq in E. rewrite E, (uf_y_nt _ _ _ _ _ _ _ _ U). unfold updY. rewrite Nat.eqb_refl.
      symmetry. apply stepY.
    + unfold updY. rewrite E. reflexivity.
Qed.

(** *** the fixed points of the two systems of equations correspond *)
Definition fixpoint (H : grammar) (w x : env (R:=R)) : Prop :=
  forall X xi, is_term H X = false -> step o H w x X xi = x X xi.

Lemma step_ext H w x x' X xi : (forall l zeta, is_term H l = false -> x l zeta = x' l zeta) ->
  step o H w x X xi = step o H w x' X xi.
Proof.
  intro E. unfold step. destruct (is_term H X); [reflexivity|]. apply sumS_ext. intros r _.
  apply (rule_val_ext o). intros ed a _ _. destruct (is_term H (fst ed)) eqn:T; [reflexivity|]. now apply E.
Qed.

Lemma stepY_unf w x xi : step o G w x Y xi = step o G' w x Y xi.
Proof.
  rewrite stepY. unfold step. rewrite unf_is_term, (uf_y_nt _ _ _ _ _ _ _ _ U).
  (* rules of Y in G: the same single rule c *)
  assert (E : rules_of G Y = [c]).
  { pose proof (uf_y_rule _ _ _ _ _ _ _ _ U) as RY. unfold rules_of in *. unfold G, unfolded. cbn [g_rules].
    pose proof (nth_error_split _ _ _ (uf_rr _ _ _ _ _ _ _ _ U)) as Es. rewrite Es in RY.
    unfold replace_nth. rewrite !filter_app in *. cbn [filter] in *. cbn [r_lhs inline_rule].
    destruct (Nat.eqb (r_lhs rr) Y) eqn:E; [apply Nat.eqb_eq in E; exfalso; exact (uf_y_not_lhs _ _ _ _ _ _ _ _ U E)|exact RY]. }
  rewrite E, (sumS_single o Hr). apply rule_val_doms. reflexivity.
Qed.

Theorem fixpoint_unfold w x' : fixpoint G' w x' -> fixpoint G w x'.
Proof.
  intros F X xi TX. destruct (Nat.eq_dec X Y) as [->|HX].
  - rewrite stepY_unf. now apply F.
  - rewrite step_unfold by exact HX. rewrite <- (F X xi TX). apply step_ext.
    intros l zeta Tl. unfold updY. destruct (Nat.eqb l Y) eqn:E; [|reflexivity].
    apply Nat.eqb_eq in E. subst l. now apply F.
Qed.

Theorem fixpoint_fold w x : fixpoint G w x -> fixpoint G' w x.
Proof.
  intros F.
  assert (FY : forall xi, step o G' w x Y xi = x Y xi).
  { intro xi. rewrite <- stepY_unf. apply F. exact (uf_y_nt _ _ _ _ _ _ _ _ U). }
  intros X xi TX. destruct (Nat.eq_dec X Y) as [->|HX]; [apply FY|].
  rewrite <- (F X xi TX), step_unfold by exact HX. apply step_ext.
  intros l zeta Tl. unfold updY. destruct (Nat.eqb l Y) eqn:E; [|reflexivity].
  apply Nat.eqb_eq in E. subst l. symmetry. apply FY.
Qed.

Theorem fixpoint_unfold_iff w x : fixpoint G' w x <-> fixpoint G w x.
Proof. split; [apply fixpoint_unfold|apply fixpoint_fold]. Qed.

(** *** non-recursive grammars: the sum-product of every nonterminal is unchanged *)
(** a ranked (non-recursive) grammar has exactly one solution: its stabilised Kleene iterate *)
Theorem ranked_fixpoint_unique H w rank x : ranked H rank -> fixpoint H w x ->
  forall X xi, is_term H X = false -> x X xi = Zk o H w (S (rank X)) X xi.
Proof.
  intros Rk F. intro X. induction X as [X IH] using (well_founded_induction (Wf_nat.well_founded_ltof _ rank)).
  intros xi TX. rewrite <- (F X xi TX), (Zk_S o H w (rank X)) by exact TX. unfold step. rewrite TX.
  apply sumS_ext. intros r Hrin. apply in_rules_of in Hrin. destruct Hrin as [Hrin E].
  apply (rule_val_ext o). intros ed a Hed _. unfold env_k. destruct (is_term H (fst ed)) eqn:T; [reflexivity|].
  assert (Hlt : rank (fst ed) < rank X) by (rewrite <- E; apply (Rk r Hrin); [now rewrite E|exact Hed|exact T]).
  rewrite (IH (fst ed) Hlt _ T). symmetry. apply (Zk_stable_ge o H w rank Rk); trivial.
Qed.

Theorem ranked_fixpoint_exists H w rank : ranked H rank ->
  fixpoint H w (fun X xi => Zk o H w (S (rank X)) X xi).
Proof.
  intros Rk X xi TX. rewrite (Zk_S o H w (rank X)) by exact TX. unfold step. rewrite TX.
  apply sumS_ext. intros r Hrin. apply in_rules_of in Hrin. destruct Hrin as [Hrin E].
  apply (rule_val_ext o). intros ed a Hed _. unfold env_k. destruct (is_term H (fst ed)) eqn:T; [reflexivity|].
  assert (Hlt : rank (fst ed) < rank X) by (rewrite <- E; apply (Rk r Hrin); [now rewrite E|exact Hed|exact T]).
  symmetry. apply (Zk_stable_ge o H w rank Rk); trivial.
Qed.

(** unfolding keeps the grammar ranked (same rank function) *)
Lemma ranked_unfolded rank : ranked G' rank -> ranked G rank.
Proof.
  intros Rk r Hin Tl ed Hed Ted.
  unfold G, unfolded in Hin. cbn [g_rules] in Hin. unfold replace_nth in Hin.
  pose proof (nth_error_split _ _ _ (uf_rr _ _ _ _ _ _ _ _ U)) as Es.
  assert (Hrr : In rr (g_rules G')) by (eapply nth_error_In; apply U).
  apply in_app_or in Hin. destruct Hin as [Hin|[<-|Hin]].
  - apply (Rk r); trivial. rewrite Es. apply in_or_app. now left.
  - cbn [r_lhs r_edges inline_rule] in *.
    apply in_app_or in Hed. destruct Hed as [Hed|Hed]; [|apply in_app_or in Hed; destruct Hed as [Hed|Hed]].
    + apply (Rk rr Hrr Tl); trivial. rewrite (uf_es _ _ _ _ _ _ _ _ U). apply in_or_app. now left.
    + apply (Rk rr Hrr Tl); trivial. rewrite (uf_es _ _ _ _ _ _ _ _ U). apply in_or_app. right. now right.
    + apply in_map_iff in Hed. destruct Hed as (ed0 & <- & Hed0). cbn [fst] in *.
      assert (Hc : In c (g_rules G') /\ r_lhs c = Y).
      { apply in_rules_of. rewrite (uf_y_rule _ _ _ _ _ _ _ _ U). now left. }
      destruct Hc as [Hc Ec].
      assert (L1 : rank (fst ed0) < rank Y).
      { rewrite <- Ec. apply (Rk c Hc); trivial. rewrite Ec. apply U. }
      assert (L2 : rank Y < rank (r_lhs rr)).
      { apply (Rk rr Hrr Tl (Y, att)); [|apply U]. rewrite (uf_es _ _ _ _ _ _ _ _ U). apply in_or_app. right. now left. }
      lia.
  - apply (Rk r); trivial. rewrite Es. apply in_or_app. right. now right.
Qed.

(** the unfolding lemma, grammar level, non-recursive grammars: in every commutative semiring
    the sum-product of EVERY nonterminal (the stabilised Kleene iterate = the sum over all
    derivation trees, C01) is the same before and after unfolding *)
Theorem Zk_unfold_nonrec w rank : ranked G' rank ->
  forall X xi, is_term G' X = false ->
    Zk o G w (S (rank X)) X xi = Zk o G' w (S (rank X)) X xi.
Proof.
  intros Rk X xi TX.
  pose proof (ranked_fixpoint_exists G' w rank Rk) as F'.
  apply fixpoint_unfold in F'.
  symmetry. exact (ranked_fixpoint_unique G w rank _ (ranked_unfolded rank Rk) F' X xi TX).
Qed.

End Equations.

(** * a non-trivial instance of the hypotheses *)
(** labels: 0 = S (nonterminal, arity 0), 1 = Y (nonterminal, arity 1), 2 = t (terminal, binary);
    S -> t(n0, n1) Y(n1);  Y(n0) -> t(n0, n1).  Unfolded: S -> t(n0, n1) t(n1, n2). *)
Definition ex_rr : rule := {| r_lhs := 0; r_nodes := [0; 0]; r_edges := [(2, [0; 1]); (1, [1])]; r_ext := [] |}.
Definition ex_c : rule := {| r_lhs := 1; r_nodes := [0; 0]; r_edges := [(2, [0; 1])]; r_ext := [0] |}.
Definition ex_G : grammar :=
  {| g_doms := [2]; g_labels := [(false, []); (false, [0]); (true, [0; 0])]; g_rules := [ex_rr; ex_c]; g_start := 0 |}.

Example unfolding_example : unfolding ex_G 0 ex_rr [(2, [0; 1])] 1 [1] [] ex_c.
Proof.
  constructor; try reflexivity.
  - constructor; cbn.
    + intros u [].
    + intros ed u [<-|[]] [<-|[<-|[]]]; lia.
    + intros u [<-|[]]; lia.
    + intros u [<-|[]]; lia.
    + intros ed u [<-|[]] [<-|[<-|[]]]; lia.
    + constructor; [intros []|constructor].
    + reflexivity.
    + intros [|k] Hk; [reflexivity|cbn in Hk; lia].
  - discriminate.
  - intros ed [<-|[]]. discriminate.
  - intros ed [<-|[]]. discriminate.
  - intros [|[|k]] r' Hk Hne; try congruence.
    + cbn in Hk. injection Hk as <-. intros ed [<-|[]]. discriminate.
    + destruct k; discriminate.
Qed.
Example unfolding_ranked_example :
  unfolding ex_G 0 ex_rr [(2, [0; 1])] 1 [1] [] ex_c
  /\ ranked ex_G (fun l => match l with 0 => 2 | 1 => 1 | _ => 0 end).
Proof.
  split; [exact unfolding_example|].
  intros r [<-|[<-|[]]] _ ed; cbn.
  - intros [<-|[<-|[]]]; cbn; [discriminate|lia].
  - intros [<-|[]]; cbn. discriminate.
Qed.
Example unfolded_example :
  g_rules (unfolded ex_G 0 ex_rr [(2, [0; 1])] [1] [] ex_c)
  = [ {| r_lhs := 0; r_nodes := [0; 0; 0]; r_edges := [(2, [0; 1]); (2, [1; 2])]; r_ext := [] |}; ex_c ].
Proof. reflexivity. Qed.
Example ranked_example : ranked ex_G (fun l => match l with 0 => 2 | 1 => 1 | _ => 0 end).
Proof.
  intros r [<-|[<-|[]]] _ ed; cbn.
  - intros [<-|[<-|[]]]; cbn; [discriminate|lia].
  - intros [<-|[]]; cbn. discriminate.
Qed.
