(** C09 -- the meaning of the state of [multi_solve_model] (Model/MultiSolve.v).
    A block of shape n x m is read as the function [pad2 n m M] : nat -> nat -> S that is
    zero outside the shape; an absent block is the zero function ([semA], [semb]).  All blocks
    are thereby embedded in the N x N matrices of Proofs/SolveMatInst.v for any N that bounds
    the block sizes.
    - zero / padding facts for the Gauss-Jordan loop [gjf]: a zero matrix solves to the
      right-hand side ([gjf_zero_cols]), a zero right-hand side to zero ([gjf_zero_rhs]),
      running the loop on the padded matrix over 0..N-1 is running it over 0..n-1 ([gjf_pad]);
    - [pad2_mm], [pad1_mv], ...: the list operations are the matrix operations on the paddings;
    - [pad2_rsolve]: the transposed solve of multi_solve's LU step is  B . star A
      (uses Proofs/SolveStar.v, i.e. commutativity of the scalars);
    - [pad1_solve]: the dense solver on a diagonal block is [solve1] of SolveMatInst.v;
    - how [set1/set2/add_single1/add_single2] change the readings. *)
From Coq Require Import List Arith Lia Bool PeanoNat Ring Setoid Morphisms.
Import ListNotations.
Require Import Fggs.Model.Semiring Fggs.Model.Solve Fggs.Model.MultiSolve.
Require Import Fggs.Proofs.SolveElim Fggs.Proofs.SolveRefine Fggs.Proofs.SolveBlock
               Fggs.Proofs.SolveMatInst Fggs.Proofs.SolveStar Fggs.Proofs.MultiMV.

Section Pad.
Context {S : Type} (o : sr_ops S).
Hypothesis Hring : sr_ring o.
Let SRth : semi_ring_theory (zero o) (one o) (add o) (mul o) (@eq S) := Hring.
Add Ring Sring5 : SRth.
Notation "a ⊕ b" := (add o a b) (at level 50, left associativity).
Notation "a ⊗ b" := (mul o a b) (at level 40, left associativity).

(** the solve of a matrix whose columns [vs] are zero is the identity action *)
Lemma gjf_zero_cols vs : forall (A : nat -> nat -> S) b,
  (forall k, In k vs -> forall i, A i k = zero o) -> forall i, gjf o nat vs A b i = b i.
Proof.
  induction vs as [|k vs IH]; intros A b H i; [reflexivity|]. cbn [gjf].
  rewrite IH.
  - unfold elimb. rewrite (H k) by now left. ring.
  - intros k' Hk' i'. unfold elimA. rewrite (H k' (or_intror Hk') i'), (H k' (or_intror Hk') k). ring.
Qed.

Lemma gjf_app_zero vs tail : forall (A : nat -> nat -> S) b,
  (forall k, In k tail -> forall i, A i k = zero o) ->
  forall i, gjf o nat (vs ++ tail) A b i = gjf o nat vs A b i.
Proof.
  induction vs as [|k vs IH]; intros A b H i.
  - apply gjf_zero_cols. exact H.
  - cbn [app gjf]. apply IH. intros k' Hk' i'. unfold elimA.
    rewrite (H k' Hk' i'), (H k' Hk' k). ring.
Qed.

(** padding: columns n.. are zero, so passes n..N-1 of the loop do nothing *)
Lemma gjf_pad n N (A : nat -> nat -> S) b : n <= N ->
  (forall i k, n <= k -> A i k = zero o) ->
  forall i, gjf o nat (seq 0 N) A b i = gjf o nat (seq 0 n) A b i.
Proof.
  intros Hn H i. replace N with (n + (N - n)) by lia. rewrite seq_app.
  apply gjf_app_zero. intros k Hk i'. apply in_seq in Hk. apply H. lia.
Qed.

(** a zero row stays what it is *)
Lemma gjf_zero_row vs : forall (A : nat -> nat -> S) b i,
  (forall k, In k vs -> A i k = zero o) -> gjf o nat vs A b i = b i.
Proof.
  induction vs as [|k vs IH]; intros A b i H; [reflexivity|]. cbn [gjf].
  rewrite IH.
  - unfold elimb. rewrite (H k) by now left. ring.
  - intros k' Hk'. unfold elimA. rewrite (H k' (or_intror Hk')), (H k (or_introl eq_refl)). ring.
Qed.

Lemma gjf_zero_rhs vs : forall (A : nat -> nat -> S) b,
  (forall i, b i = zero o) -> forall i, gjf o nat vs A b i = zero o.
Proof.
  induction vs as [|k vs IH]; intros A b H i; [apply H|]. cbn [gjf]. apply IH.
  intros i'. unfold elimb. rewrite !H. ring.
Qed.

Lemma sumS_pad n N (f : nat -> S) : n <= N -> (forall k, n <= k -> f k = zero o) ->
  sumS o nat (seq 0 N) f = sumS o nat (seq 0 n) f.
Proof.
  intros Hn H. replace N with (n + (N - n)) by lia. rewrite seq_app, (sumS_app o Hring).
  rewrite (sumS_ext o nat (seq (0 + n) (N - n)) f (fun _ => zero o)).
  - rewrite (sumS_zero o Hring). ring.
  - intros k Hk. apply in_seq in Hk. apply H. lia.
Qed.

Lemma sumS_all_zero l (f : nat -> S) : (forall k, In k l -> f k = zero o) -> sumS o nat l f = zero o.
Proof.
  intros H. rewrite (sumS_ext o nat l f (fun _ => zero o)) by exact H. apply (sumS_zero o Hring).
Qed.

(** * paddings *)
Definition pad2 (n m : nat) (M : mat S) : nat -> nat -> S :=
  fun i j => if Nat.ltb i n && Nat.ltb j m then get2 o M i j else zero o.
Definition pad1 (n : nat) (v : vec S) : nat -> S :=
  fun i => if Nat.ltb i n then get1 o v i else zero o.

Lemma pad2_in n m M i j : i < n -> j < m -> pad2 n m M i j = get2 o M i j.
Proof.
  intros Hi Hj. unfold pad2.
  destruct (Nat.ltb_spec i n); [|lia]. destruct (Nat.ltb_spec j m); [|lia]. reflexivity.
Qed.
Lemma pad2_out_r n m M i j : m <= j -> pad2 n m M i j = zero o.
Proof. intros H. unfold pad2. destruct (Nat.ltb_spec j m); [lia|]. rewrite andb_false_r. reflexivity. Qed.
Lemma pad2_out_l n m M i j : n <= i -> pad2 n m M i j = zero o.
Proof. intros H. unfold pad2. destruct (Nat.ltb_spec i n); [lia|]. reflexivity. Qed.
Lemma pad1_in n v i : i < n -> pad1 n v i = get1 o v i.
Proof. intros Hi. unfold pad1. destruct (Nat.ltb_spec i n); [|lia]. reflexivity. Qed.
Lemma pad1_out n v i : n <= i -> pad1 n v i = zero o.
Proof. intros Hi. unfold pad1. destruct (Nat.ltb_spec i n); [lia|]. reflexivity. Qed.

Lemma pad2_zeros n m i j : pad2 n m (zeros2 o n m) i j = zero o.
Proof.
  unfold pad2. destruct (Nat.ltb_spec i n); [|reflexivity]. destruct (Nat.ltb_spec j m); [|reflexivity].
  cbn [andb]. apply get2_zeros2; assumption.
Qed.
Lemma pad1_zeros n i : pad1 n (zeros1 o n) i = zero o.
Proof. unfold pad1. destruct (Nat.ltb_spec i n); [|reflexivity]. apply get1_zeros1. assumption. Qed.

Lemma pad2_madd n m U V i j :
  pad2 n m (madd_model o n m U V) i j = pad2 n m U i j ⊕ pad2 n m V i j.
Proof.
  unfold pad2. destruct (Nat.ltb_spec i n); [|cbn [andb]; ring].
  destruct (Nat.ltb_spec j m); cbn [andb]; [|ring].
  unfold madd_model. rewrite get2_tab2 by assumption. reflexivity.
Qed.
Lemma pad1_vadd n u v i : pad1 n (vadd_model o n u v) i = pad1 n u i ⊕ pad1 n v i.
Proof.
  unfold pad1. destruct (Nat.ltb_spec i n); [|ring].
  unfold vadd_model. rewrite get1_tab1 by assumption. reflexivity.
Qed.
Lemma pad2_transpose n m M i j : pad2 m n (transpose_model o n m M) i j = pad2 n m M j i.
Proof.
  unfold pad2. rewrite (andb_comm (Nat.ltb j n)).
  destruct (Nat.ltb_spec i m); [|reflexivity]. destruct (Nat.ltb_spec j n); [|reflexivity]. cbn [andb].
  unfold transpose_model. rewrite get2_tab2 by assumption. reflexivity.
Qed.

Variable N : nat.

Lemma pad2_mm n l m L M i j : l <= N ->
  pad2 n m (mm_model o n l m L M) i j
  = sumS o nat (seq 0 N) (fun k => pad2 n l L i k ⊗ pad2 l m M k j).
Proof.
  intros Hl. destruct (Nat.ltb_spec i n) as [Hi|Hi].
  - destruct (Nat.ltb_spec j m) as [Hj|Hj].
    + rewrite pad2_in by assumption. unfold mm_model. rewrite get2_tab2 by assumption.
      rewrite sum_n_sumS. symmetry. rewrite (sumS_pad l N) by
        (try exact Hl; intros k Hk; rewrite (pad2_out_r n l L i k Hk); ring).
      apply sumS_ext. intros k Hk. apply in_seq in Hk. rewrite !pad2_in by lia. reflexivity.
    + rewrite pad2_out_r by exact Hj. symmetry. apply sumS_all_zero. intros k _.
      rewrite (pad2_out_r l m M k j Hj). ring.
  - rewrite pad2_out_l by exact Hi. symmetry. apply sumS_all_zero. intros k _.
    rewrite (pad2_out_l n l L i k Hi). ring.
Qed.

Lemma pad1_mv n m M v i : m <= N ->
  pad1 n (mv_model o n m M v) i = sumS o nat (seq 0 N) (fun k => pad2 n m M i k ⊗ pad1 m v k).
Proof.
  intros Hm. destruct (Nat.ltb_spec i n) as [Hi|Hi].
  - rewrite pad1_in by assumption. unfold mv_model. rewrite get1_tab1 by assumption.
    rewrite sum_n_sumS. symmetry. rewrite (sumS_pad m N) by
      (try exact Hm; intros k Hk; rewrite (pad2_out_r n m M i k Hk); ring).
    apply sumS_ext. intros k Hk. apply in_seq in Hk. rewrite pad2_in, pad1_in by lia. reflexivity.
  - rewrite pad1_out by exact Hi. symmetry. apply sumS_all_zero. intros k _.
    rewrite (pad2_out_l n m M i k Hi). ring.
Qed.

(** * the dense solver on a padded block *)
Hypothesis Hord : sr_ordered o.
Hypothesis Hstar : sr_star o.

(** [a[z,z].solve(b[z])] is [solve1] of the N x N instance *)
Lemma pad1_solve n A b i : n <= N -> i < N ->
  pad1 n (solve_model o n A b) i = gjf o nat (seq 0 N) (pad2 n n A) (pad1 n b) i.
Proof.
  intros Hn Hi. rewrite (gjf_pad n N) by (try exact Hn; intros; apply pad2_out_r; assumption).
  destruct (Nat.ltb_spec i n) as [Hin|Hin].
  - rewrite pad1_in by exact Hin. rewrite solve_model_gjf by exact Hin.
    apply (gjf_ext o nat (fun i => i < n)); [intros k Hk; apply in_seq in Hk; lia| | |exact Hin].
    + intros i' j Hi' Hj. apply in_seq in Hj. rewrite pad2_in by lia. reflexivity.
    + intros i' Hi'. rewrite pad1_in by exact Hi'. reflexivity.
  - rewrite pad1_out by exact Hin. rewrite gjf_zero_row by (intros; apply pad2_out_l; exact Hin).
    rewrite pad1_out by exact Hin. reflexivity.
Qed.

(** the transposed solve [a[z,z].T.solve(a[x,z].T).T] is  B . star A  (B is m x n, A is n x n) *)
Lemma pad2_rsolve n m A B i k : n <= N -> k < N ->
  pad2 m n (rsolve_model o n m A B) i k
  = sumS o nat (seq 0 N) (fun l => pad2 m n B i l ⊗ star_mat o N (pad2 n n A) l k).
Proof.
  intros Hn Hk. rewrite <- (rsolve_star o Hring Hord Hstar N (pad2 n n A) (pad2 m n B i) k Hk).
  destruct (Nat.ltb_spec k n) as [Hkn|Hkn].
  - rewrite (gjf_pad n N) by (try exact Hn; intros; unfold ct; apply pad2_out_l; assumption).
    destruct (Nat.ltb_spec i m) as [Him|Him].
    + rewrite pad2_in by assumption. rewrite rsolve_model_gjf by assumption.
      apply (gjf_ext o nat (fun i => i < n)); [intros k' Hk'; apply in_seq in Hk'; lia| | |exact Hkn].
      * intros i' j Hi' Hj. apply in_seq in Hj. unfold ct. rewrite pad2_in by lia. reflexivity.
      * intros i' Hi'. rewrite pad2_in by assumption. reflexivity.
    + rewrite pad2_out_l by exact Him. symmetry. apply gjf_zero_rhs.
      intros l. apply pad2_out_l. exact Him.
  - rewrite pad2_out_r by exact Hkn.
    rewrite gjf_zero_row by (intros; unfold ct; apply pad2_out_r; exact Hkn).
    rewrite pad2_out_r by exact Hkn. reflexivity.
Qed.

(** the star of a zero matrix is the identity: an absent diagonal block *)
Lemma star_mat_zero (s : nat -> nat -> S) : (forall i j, s i j = zero o) ->
  forall l k, star_mat o N s l k = cid o l k.
Proof. intros H l k. unfold star_mat, cid. apply gjf_zero_cols. intros; apply H. Qed.

Lemma rstar_zero_diag (a s : nat -> nat -> S) : (forall i j, s i j = zero o) ->
  meq N (rstar o N a s) a.
Proof.
  intros H i k Hi Hk. unfold rstar, cmul.
  rewrite (sumS_ext o nat (seq 0 N) (fun l => a i l ⊗ star_mat o N s l k) (fun l => a i l ⊗ cid o l k))
    by (intros; rewrite star_mat_zero by exact H; reflexivity).
  exact (cmul_id_r o Hring N a i k Hi Hk).
Qed.

(** annihilation: an absent off-diagonal block *)
Lemma cmul_zero_l (a b : nat -> nat -> S) : (forall i j, a i j = zero o) -> forall i j, cmul o N a b i j = zero o.
Proof. intros H i j. unfold cmul. apply sumS_all_zero. intros k _. rewrite H. ring. Qed.
Lemma cmul_zero_r (a b : nat -> nat -> S) : (forall i j, b i j = zero o) -> forall i j, cmul o N a b i j = zero o.
Proof. intros H i j. unfold cmul. apply sumS_all_zero. intros k _. rewrite H. ring. Qed.

Lemma star_mat_meq (s s' : nat -> nat -> S) : meq N s s' -> forall i j, i < N -> star_mat o N s i j = star_mat o N s' i j.
Proof.
  intros H i j Hi. unfold star_mat.
  apply (gjf_ext o nat (fun i => i < N)); [intros k Hk; apply in_seq in Hk; lia| |reflexivity|exact Hi].
  intros i' j' Hi' Hj'. apply in_seq in Hj'. apply H; lia.
Qed.

End Pad.

(** * readings of the dictionaries *)
Section Sem.
Context {S : Type} (o : sr_ops S).
Hypothesis Hring : sr_ring o.
Let SRth : semi_ring_theory (zero o) (one o) (add o) (mul o) (@eq S) := Hring.
Add Ring Sring6 : SRth.
Notation "a ⊕ b" := (add o a b) (at level 50, left associativity).
Notation "a ⊗ b" := (mul o a b) (at level 40, left associativity).
Variable d : dims_t.

Definition semA (a : @mt2 S) (x y : key) : nat -> nat -> S :=
  pad2 o (dim d x) (dim d y) (getm o d d a x y).
Definition semb (b : @mt1 S) (x : key) : nat -> S := pad1 o (dim d x) (getv o d b x).

Lemma semA_absent a x y : lookup2 a x y = None -> forall i j, semA a x y i j = zero o.
Proof. intros L i j. unfold semA, getm. rewrite L. apply pad2_zeros. Qed.
Lemma semA_present a x y m : lookup2 a x y = Some m -> semA a x y = pad2 o (dim d x) (dim d y) m.
Proof. intros L. unfold semA, getm. rewrite L. reflexivity. Qed.
Lemma semb_absent b x : lookup1 b x = None -> forall i, semb b x i = zero o.
Proof. intros L i. unfold semb, getv. rewrite L. apply pad1_zeros. Qed.
Lemma semb_present b x v : lookup1 b x = Some v -> semb b x = pad1 o (dim d x) v.
Proof. intros L. unfold semb, getv. rewrite L. reflexivity. Qed.
Lemma semA_lookup a a' x y : lookup2 a' x y = lookup2 a x y -> semA a' x y = semA a x y.
Proof. intros L. unfold semA, getm. rewrite L. reflexivity. Qed.
Lemma semb_lookup b b' x : lookup1 b' x = lookup1 b x -> semb b' x = semb b x.
Proof. intros L. unfold semb, getv. rewrite L. reflexivity. Qed.

Lemma lookup2_set2 (a : @mt2 S) x y m x' y' :
  lookup2 (set2 a x y m) x' y'
  = if Nat.eqb x x' && Nat.eqb y y' then Some m else lookup2 a x' y'.
Proof.
  induction a as [|[[u v] t] a IH]; cbn [set2 lookup2].
  - rewrite (Nat.eqb_sym x x'), (Nat.eqb_sym y y'). reflexivity.
  - destruct (Nat.eqb u x && Nat.eqb v y) eqn:E; cbn [lookup2].
    + apply andb_true_iff in E. destruct E as [E1 E2].
      apply Nat.eqb_eq in E1. apply Nat.eqb_eq in E2. subst u v.
      destruct (Nat.eqb x x' && Nat.eqb y y'); reflexivity.
    + rewrite IH. destruct (Nat.eqb x x' && Nat.eqb y y') eqn:E'; [|reflexivity].
      apply andb_true_iff in E'. destruct E' as [E1 E2].
      apply Nat.eqb_eq in E1. apply Nat.eqb_eq in E2. subst x' y'. rewrite E. reflexivity.
Qed.

Lemma lookup2_add_single2_other a x y m x' y' : (x, y) <> (x', y') ->
  lookup2 (add_single2 o d a x y m) x' y' = lookup2 a x' y'.
Proof.
  intros Hne. unfold add_single2.
  assert (E : Nat.eqb x x' && Nat.eqb y y' = false).
  { destruct (Nat.eqb_spec x x') as [<-|]; [|reflexivity].
    destruct (Nat.eqb_spec y y') as [<-|]; [|reflexivity]. congruence. }
  destruct (lookup2 a x y); rewrite lookup2_set2, E; reflexivity.
Qed.

Lemma semA_add_single2_same a x y m i j :
  semA (add_single2 o d a x y m) x y i j = semA a x y i j ⊕ pad2 o (dim d x) (dim d y) m i j.
Proof.
  unfold add_single2. destruct (lookup2 a x y) as [u|] eqn:L.
  - rewrite (semA_present _ x y _ (eq_trans (lookup2_set2 a x y _ x y)
                                     ltac:(rewrite !Nat.eqb_refl; reflexivity))).
    rewrite (semA_present a x y u L). apply pad2_madd. exact Hring.
  - rewrite (semA_present _ x y _ (eq_trans (lookup2_set2 a x y _ x y)
                                     ltac:(rewrite !Nat.eqb_refl; reflexivity))).
    rewrite (semA_absent a x y L). ring.
Qed.

Lemma lookup1_add_single1_other b x v x' : x <> x' ->
  lookup1 (add_single1 o d b x v) x' = lookup1 b x'.
Proof.
  intros Hne. unfold add_single1.
  destruct (lookup1 b x); rewrite lookup1_set1; destruct (Nat.eqb_spec x x'); try contradiction; reflexivity.
Qed.

Lemma semb_add_single1_same b x v i :
  semb (add_single1 o d b x v) x i = semb b x i ⊕ pad1 o (dim d x) v i.
Proof.
  unfold add_single1. destruct (lookup1 b x) as [u|] eqn:L.
  - rewrite (semb_present _ x _ (eq_trans (lookup1_set1 b x _ x) ltac:(rewrite Nat.eqb_refl; reflexivity))).
    rewrite (semb_present b x u L). apply pad1_vadd. exact Hring.
  - rewrite (semb_present _ x _ (eq_trans (lookup1_set1 b x _ x) ltac:(rewrite Nat.eqb_refl; reflexivity))).
    rewrite (semb_absent b x L). ring.
Qed.

End Sem.
