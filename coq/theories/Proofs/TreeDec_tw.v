(** [tw_perm] (the least elimination width over the enumerated permutations) really is the
    minimum over ALL permutations of the vertex list, it is attained, and therefore
    (with TreeDec_elim.v) there is a valid tree decomposition of width [tw_perm g];
    [min_fill] (and [quickbb], whenever it returns) is an upper bound for every graph. *)
From Coq Require Import List Arith Bool PeanoNat Lia Permutation Setoid Morphisms.
Import ListNotations.
Require Import Fggs.Model.TreeDec Fggs.Proofs.TreeDec_graph Fggs.Proofs.TreeDec_tdok
               Fggs.Proofs.TreeDec_elim Fggs.Proofs.TreeDec_qbb.

Lemma insert_all_In x l1 l2 : In (l1 ++ x :: l2) (insert_all x (l1 ++ l2)).
Proof.
  induction l1 as [|y l1 IH]; cbn.
  - destruct l2; cbn; auto.
  - right. apply in_map. exact IH.
Qed.
Lemma perms_complete l : forall l', Permutation l l' -> In l' (perms l).
Proof.
  induction l as [|x l IH]; intros l' P.
  - apply Permutation_nil in P. subst. cbn. auto.
  - assert (Hx : In x l') by (eapply Permutation_in; [exact P|cbn; auto]).
    destruct (in_split _ _ Hx) as [l1 [l2 ->]].
    apply Permutation_cons_app_inv in P. cbn. apply in_flat_map.
    exists (l1 ++ l2). split; [apply IH; exact P|apply insert_all_In].
Qed.
Lemma insert_all_perm x l l' : In l' (insert_all x l) -> Permutation (x :: l) l'.
Proof.
  revert l'. induction l as [|y l IH]; intros l' H; cbn in H.
  - destruct H as [<-|[]]. auto.
  - destruct H as [<-|H]; auto. apply in_map_iff in H. destruct H as [l0 [<- H0]].
    eapply perm_trans; [apply perm_swap|]. apply perm_skip. now apply IH.
Qed.
Lemma perms_sound l : forall l', In l' (perms l) -> Permutation l l'.
Proof.
  induction l as [|x l IH]; intros l' H; cbn in H.
  - destruct H as [<-|[]]. auto.
  - apply in_flat_map in H. destruct H as [l0 [H0 H1]].
    eapply perm_trans; [apply perm_skip, IH; exact H0|]. now apply insert_all_perm.
Qed.

Lemma fold_min_le ws : forall w0 w, In w (w0 :: ws) -> fold_left Nat.min ws w0 <= w.
Proof.
  induction ws as [|a ws IH]; intros w0 w H; cbn.
  - destruct H as [<-|[]]. lia.
  - destruct H as [<-|[<-|H]].
    + etransitivity; [apply IH; cbn; left; reflexivity|]. lia.
    + etransitivity; [apply IH; cbn; left; reflexivity|]. lia.
    + apply IH. cbn. auto.
Qed.
Lemma fold_min_In ws : forall w0, In (fold_left Nat.min ws w0) (w0 :: ws).
Proof.
  induction ws as [|a ws IH]; intro w0; [cbn; auto|].
  cbn [fold_left]. destruct (Nat.min_spec w0 a) as [[_ E]|[_ E]]; rewrite E.
  - destruct (IH w0) as [H|H]; [left; exact H|right; right; exact H].
  - right. exact (IH a).
Qed.

Theorem tw_perm_le g order : Permutation order (gverts g) -> tw_perm g <= elim_width g order.
Proof.
  intro P. unfold tw_perm.
  assert (H : In (elim_width g order) (map (elim_width g) (perms (gverts g)))).
  { apply in_map. apply perms_complete. now apply Permutation_sym. }
  destruct (map (elim_width g) (perms (gverts g))) as [|w ws]; [destruct H|]. now apply fold_min_le.
Qed.

Theorem tw_perm_attained g : exists order, Permutation order (gverts g) /\ elim_width g order = tw_perm g.
Proof.
  unfold tw_perm.
  destruct (map (elim_width g) (perms (gverts g))) as [|w ws] eqn:E.
  - exfalso. assert (H : In (gverts g) (perms (gverts g))) by (apply perms_complete; auto).
    apply (in_map (elim_width g)) in H. rewrite E in H. destruct H.
  - pose proof (fold_min_In ws w) as H. rewrite <- E in H. apply in_map_iff in H.
    destruct H as [o [Ho Hi]]. exists o. split; auto. apply Permutation_sym. now apply perms_sound.
Qed.

Theorem tw_perm_is_min g :
  (forall order, Permutation order (gverts g) -> tw_perm g <= elim_width g order) /\
  (exists order, Permutation order (gverts g) /\ elim_width g order = tw_perm g).
Proof. split; [intros o P; now apply tw_perm_le|apply tw_perm_attained]. Qed.

(** * the pruned search used by the check functions decides [tw_perm g < k] *)
Lemma tw_below_nil fuel k : tw_below fuel [] k = (0 <? k).
Proof. destruct fuel; reflexivity. Qed.
Lemma tw_below_step f p g' k :
  tw_below (S f) (p :: g') k =
  existsb (fun v => (deg (p :: g') v <? k) && tw_below f (eliminate_node (p :: g') v) k) (gverts (p :: g')).
Proof.
  cbn [tw_below]. generalize (gverts (p :: g')). intro vs.
  induction vs as [|v vs IH]; cbn [existsb]; auto.
  destruct (deg (p :: g') v <? k); cbn [andb orb]; [|exact IH].
  destruct (tw_below f (eliminate_node (p :: g') v) k); cbn [orb]; auto.
Qed.

Lemma tw_below_spec fuel : forall g k, wf_graph g -> length g <= fuel ->
  (tw_below fuel g k = true <-> exists order, Permutation order (gverts g) /\ elim_width g order < k).
Proof.
  induction fuel as [|fuel IH]; intros g k W L.
  - destruct g; [|cbn in L; lia]. rewrite tw_below_nil, Nat.ltb_lt. split.
    + intro H. exists []. cbn. auto.
    + intros [o [P H]]. apply Permutation_sym, Permutation_nil in P. subst. cbn in H. exact H.
  - destruct g as [|p g'].
    + rewrite tw_below_nil, Nat.ltb_lt. split.
      * intro H. exists []. cbn. auto.
      * intros [o [P H]]. apply Permutation_sym, Permutation_nil in P. subst. cbn in H. exact H.
    + rewrite tw_below_step. remember (p :: g') as g eqn:Eg. rewrite existsb_exists. split.
      * intros [v [Hv H]]. apply andb_true_iff in H. destruct H as [H1 H2]. apply Nat.ltb_lt in H1.
        pose proof (length_eliminate g v (wf_keys g W) Hv) as Le.
        apply IH in H2; [|now apply wf_eliminate|lia]. destruct H2 as [o [P Hw]].
        exists (v :: o). split.
        -- rewrite gverts_eliminate in P. eapply perm_trans; [apply perm_skip, P|].
           apply Permutation_sym, NoDup_perm_remove; auto. apply W.
        -- cbn [elim_width]. lia.
      * intros [o [P Hw]]. destruct o as [|v r].
        -- apply Permutation_nil in P. subst g. discriminate.
        -- assert (Hv : In v (gverts g)) by (eapply Permutation_in; [exact P|cbn; auto]).
           pose proof (length_eliminate g v (wf_keys g W) Hv) as Le.
           cbn [elim_width] in Hw. exists v. split; auto. apply andb_true_iff. split.
           ++ apply Nat.ltb_lt. lia.
           ++ apply IH; [now apply wf_eliminate|lia|]. exists r. split; [|lia].
              apply perm_tail_eliminate; auto. apply W.
Qed.

Theorem tw_below_iff g k : wf_graph g -> (tw_below (length g) g k = true <-> tw_perm g < k).
Proof.
  intro W. rewrite (tw_below_spec (length g) g k W (le_n _)). split.
  - intros [o [P H]]. pose proof (tw_perm_le g o P). lia.
  - intro H. destruct (tw_perm_attained g) as [o [P E]]. exists o. split; auto. lia.
Qed.
Theorem tw_is_iff g w : wf_graph g -> (tw_is g w = true <-> tw_perm g = w).
Proof.
  intro W. unfold tw_is.
  pose proof (tw_below_iff g w W) as H1. pose proof (tw_below_iff g (S w) W) as H2.
  destruct (tw_below (length g) g w).
  - split; [discriminate|]. intro E. assert (tw_perm g < w) by (apply H1; reflexivity). lia.
  - rewrite H2. assert (~ tw_perm g < w) by (intro L; apply H1 in L; discriminate). lia.
Qed.
Theorem tw_gt_iff g w : wf_graph g -> (tw_gt g w = true <-> w < tw_perm g).
Proof.
  intro W. unfold tw_gt. rewrite negb_true_iff, <- not_true_iff_false, (tw_below_iff g _ W). lia.
Qed.

Theorem tw_oracle_spec g w : wf_graph g ->
  (tw_below (length g) g w = true <-> tw_perm g < w) /\
  (tw_is g w = true <-> tw_perm g = w) /\
  (tw_gt g w = true <-> w < tw_perm g).
Proof. intro W. split; [now apply tw_below_iff|]. split; [now apply tw_is_iff|now apply tw_gt_iff]. Qed.

(** there is a valid tree decomposition of width [tw_perm g] *)
Theorem tw_perm_decomposition g : wf_graph g -> exists t, valid_td g t /\ width t = tw_perm g.
Proof.
  intro W. destruct (tw_perm_attained g) as [o [P E]].
  destruct (elimination_td_valid g o W P) as [t [_ [V Wd]]]. exists t. split; auto. congruence.
Qed.

(** upper bounds, for every graph *)
Theorem min_fill_upper_bound g : wf_graph g ->
  exists d order, min_fill g = Some (d, order) /\ tw_perm g <= d.
Proof.
  intro W. destruct (min_fill_reports_width g (wf_keys g W)) as [d [o [E [P D]]]].
  exists d, o. split; auto. subst d. now apply tw_perm_le.
Qed.
Theorem quickbb_upper_bound g w order : wf_graph g -> quickbb g = Some (w, order) -> tw_perm g <= w.
Proof.
  intros W H. destruct (quickbb_sound g w order W H) as [P D]. subst w. now apply tw_perm_le.
Qed.
