(** [antiunify] generalises both arguments: instantiating each new variable by the first
    (resp. second) component of its antisubst entry gives back [e] (resp. [f]), semantically. *)
From Coq Require Import List Arith Lia PeanoNat Bool PArith.
Import ListNotations.
Require Import Fggs.Model.Axis Fggs.Proofs.Axis_sem Fggs.Proofs.Axis_unify.

Lemma axis_eqb_eq e : forall f, axis_eqb e f = true -> e = f.
Proof.
  induction e as [k n|l IH|b t a IH] using axis_ind'; intros f H; destruct f as [k' n'|l'|b' t' a']; simpl in H;
    try discriminate.
  - apply andb_true_iff in H. destruct H as [H1 H2]. apply Pos.eqb_eq in H1. apply Nat.eqb_eq in H2. subst. reflexivity.
  - f_equal. revert l' H. induction l as [|x l IHl]; intros [|y l'] H; try discriminate; [reflexivity|].
    apply andb_true_iff in H. destruct H as [H1 H2]. inversion IH; subst.
    f_equal; [apply H3; exact H1|apply IHl; assumption].
  - apply andb_true_iff in H. destruct H as [H12 H3]. apply andb_true_iff in H12. destruct H12 as [H1 H2].
    apply Nat.eqb_eq in H1. apply Nat.eqb_eq in H3. apply IH in H2. subst. reflexivity.
Qed.

Lemma axis_eqb_refl e : axis_eqb e e = true.
Proof.
  induction e as [k n|l IH|b t a IH] using axis_ind'; simpl.
  - rewrite Pos.eqb_refl, Nat.eqb_refl. reflexivity.
  - induction l as [|x l IHl]; [reflexivity|]. inversion IH; subst. rewrite H1. simpl. apply IHl. assumption.
  - rewrite !Nat.eqb_refl, IH. reflexivity.
Qed.

Definition sigma1 (l : list aentry) : subst := map (fun en => match en with (k, _, e, _) => (k, e) end) l.
Definition sigma2 (l : list aentry) : subst := map (fun en => match en with (k, _, _, f) => (k, f) end) l.
Definition entries_ok (l : list aentry) : Prop :=
  Forall (fun en => match en with (_, n, e, _) => n = numel e end) l.

Definition aext (st st' : astate) : Prop :=
  (exists ext, as_list st' = as_list st ++ ext) /\ entries_ok (as_list st').

Lemma aext_refl st : entries_ok (as_list st) -> aext st st.
Proof. intros H. split; [exists []; rewrite app_nil_r; reflexivity|exact H]. Qed.
Lemma aext_trans a b c : aext a b -> aext b c -> aext a c.
Proof.
  intros [[x Hx] _] [[y Hy] Hc]. split; [|exact Hc]. exists (x ++ y). rewrite Hy, Hx, app_assoc. reflexivity.
Qed.
Lemma aext_models1 rho a b : aext a b -> models rho (sigma1 (as_list b)) -> models rho (sigma1 (as_list a)).
Proof. intros [[x Hx] _] M. rewrite Hx in M. unfold sigma1 in M. rewrite map_app in M. apply models_app in M. tauto. Qed.
Lemma aext_models2 rho a b : aext a b -> models rho (sigma2 (as_list b)) -> models rho (sigma2 (as_list a)).
Proof. intros [[x Hx] _] M. rewrite Hx in M. unfold sigma2 in M. rewrite map_app in M. apply models_app in M. tauto. Qed.

Lemma as_list_warn_if (c : bool) st : as_list (if c then st else a_warn st) = as_list st.
Proof. destruct c; reflexivity. Qed.

Lemma afind_In e f l k n : afind e f l = Some (k, n) -> In (k, n, e, f) l.
Proof.
  induction l as [|[[[k' n'] e'] f'] l IH]; simpl; [discriminate|].
  destruct (axis_eqb e e' && axis_eqb f f') eqn:E.
  - intros H. inversion H; subst. apply andb_true_iff in E. destruct E as [E1 E2].
    apply axis_eqb_eq in E1. apply axis_eqb_eq in E2. subst. left. reflexivity.
  - intros H. right. auto.
Qed.

(** what a generalisation [g] of the pair [(e, f)] has to satisfy *)
Definition generalises (g e f : axis) (st' : astate) : Prop :=
  numel g = numel e /\
  (forall rho, models rho (sigma1 (as_list st')) -> eval rho g = eval rho e) /\
  (forall rho, models rho (sigma2 (as_list st')) -> eval rho g = eval rho f).

Lemma extend_antisubst_sound e f st g st' :
  entries_ok (as_list st) -> extend_antisubst e f st = (g, st') -> aext st st' /\ generalises g e f st'.
Proof.
  intros Hok H. unfold extend_antisubst in H. destruct (afind e f (as_list st)) as [[k n]|] eqn:F.
  - inversion H; subst. split; [apply aext_refl; exact Hok|].
    apply afind_In in F. unfold entries_ok in Hok. rewrite Forall_forall in Hok.
    pose proof (Hok _ F) as Hn. simpl in Hn. split; [exact Hn|]. split; intros rho M.
    + unfold models in M. rewrite Forall_forall in M. apply (M (k, e)). unfold sigma1.
      apply in_map_iff. exists (k, n, e, f). auto.
    + unfold models in M. rewrite Forall_forall in M. apply (M (k, f)). unfold sigma2.
      apply in_map_iff. exists (k, n, e, f). auto.
  - inversion H; subst. simpl. split.
    + split; [eexists; reflexivity|]. simpl. apply Forall_app. split; [exact Hok|]. constructor; [reflexivity|constructor].
    + split; [reflexivity|]. split; intros rho M.
      * cbn [as_list] in M. unfold sigma1 in M. rewrite map_app in M. apply models_app in M. destruct M as [_ M]. inversion M; subst. assumption.
      * cbn [as_list] in M. unfold sigma2 in M. rewrite map_app in M. apply models_app in M. destruct M as [_ M]. inversion M; subst. assumption.
Qed.

Lemma zero_numel e : zero e = false -> numel e > 0.
Proof.
  induction e as [k n|l IH|b t a IH] using axis_ind'; simpl; intros H.
  - destruct (Nat.eqb_spec n 0); [discriminate|lia].
  - induction l as [|x l IHl]; simpl in *; [lia|].
    apply orb_false_iff in H. destruct H as [Hx Hl]. inversion IH; subst.
    specialize (H1 Hx). specialize (IHl H2 Hl). nia.
  - destruct (Nat.eqb_spec b 0); [|lia]. destruct (Nat.eqb_spec a 0); [|lia]. simpl in H. specialize (IH H). lia.
Qed.

Lemma zero_factors_pos l : zero (Prod l) = false -> Forall (fun x => numel x > 0) l.
Proof.
  simpl. induction l as [|x l IH]; simpl; intros H; constructor.
  - apply orb_false_iff in H. apply zero_numel. tauto.
  - apply IH. apply orb_false_iff in H. tauto.
Qed.

Lemma prodn_pos l : Forall (fun x => numel x > 0) l -> prodn l > 0.
Proof. induction 1; [cbv; lia|]. rewrite prodn_cons. nia. Qed.

Definition A_anti (fuel : nat) : Prop :=
  forall e f st g st', entries_ok (as_list st) -> antiunify fuel e f st = Ok (g, st') ->
    aext st st' /\ generalises g e f st'.

Definition A_sweep (fuel : nat) : Prop :=
  forall egrp erest fgrp frest en fn ret st rets st' c,
    entries_ok (as_list st) -> c > 0 -> en = c * prodn egrp -> fn = c * prodn fgrp ->
    Forall (fun x => numel x > 0) (egrp ++ erest) -> Forall (fun x => numel x > 0) (fgrp ++ frest) ->
    sweep fuel egrp erest fgrp frest en fn ret st = Ok (rets, st') ->
    exists new, rets = ret ++ new /\ aext st st' /\
      prodn new = prodn (egrp ++ erest) /\ prodn new = prodn (fgrp ++ frest) /\
      (forall rho, models rho (sigma1 (as_list st')) -> evalL rho new = evalL rho (egrp ++ erest)) /\
      (forall rho, models rho (sigma2 (as_list st')) -> evalL rho new = evalL rho (fgrp ++ frest)).

Lemma nonempty_false {A} (l : list A) : nonempty l = false -> l = [].
Proof. destruct l; [reflexivity|discriminate]. Qed.

Lemma anti_step fuel : A_anti fuel -> A_sweep fuel -> A_anti (S fuel) /\ A_sweep (S fuel).
Proof.
  intros IHa IHs. split.
  - intros e f st0 g st' Hok0 H. cbn [antiunify] in H.
    remember (if Nat.eqb (numel e) (numel f) then st0 else a_warn st0) as st eqn:Est.
    assert (Hok : entries_ok (as_list st)) by (subst st; rewrite as_list_warn_if; exact Hok0).
    assert (A0 : aext st0 st).
    { subst st. split; [exists []; rewrite as_list_warn_if, app_nil_r; reflexivity|rewrite as_list_warn_if; exact Hok0]. }
    assert (G : aext st st' /\ generalises g e f st').
    2:{ destruct G as [A G]. split; [eapply aext_trans; eauto|exact G]. }
    clear A0 Est Hok0 st0.
    destruct e as [k1 n1|l1|b1 t1 a1]; destruct f as [k2 n2|l2|b2 t2 a2];
      try (inversion H as [H']; apply extend_antisubst_sound; [exact Hok|exact H']).
    + (* Prod, Prod *)
      destruct (negb (zero (Prod l1)) && negb (zero (Prod l2))) eqn:Z.
      * apply andb_true_iff in Z. destruct Z as [Z1 Z2]. apply negb_true_iff in Z1, Z2.
        destruct (sweep fuel [] l1 [] l2 1 1 [] st) as [[rets st1]|] eqn:Sw; [|discriminate].
        cbn [bind fst snd] in H. inversion H; subst. clear H.
        destruct (IHs [] l1 [] l2 1 1 [] st rets st' 1 Hok (le_n 1) eq_refl eq_refl
                      (zero_factors_pos _ Z1) (zero_factors_pos _ Z2) Sw) as (new & Enew & A & N & _ & E1 & E2).
        simpl in Enew. subst rets. split; [exact A|].
        split; [|split]; intros.
        -- rewrite (proj2 (productAxis_sem (fun _ => 0) new)). exact N.
        -- rewrite (proj1 (productAxis_sem rho new)). apply E1. assumption.
        -- rewrite (proj1 (productAxis_sem rho new)). apply E2. assumption.
      * inversion H as [H']. apply extend_antisubst_sound; [exact Hok|exact H'].
    + (* Sum, Sum *)
      destruct (Nat.eqb b1 b2 && Nat.eqb a1 a2) eqn:E0.
      * apply andb_true_iff in E0. destruct E0 as [B A]. apply Nat.eqb_eq in B, A. subst.
        destruct (antiunify fuel t1 t2 st) as [[g1 st1]|] eqn:E1; [|discriminate].
        cbn [bind fst snd] in H. inversion H; subst. clear H.
        destruct (IHa _ _ _ _ _ Hok E1) as [A1 (N & G1 & G2)]. split; [exact A1|].
        split; [simpl; lia|]. split; intros rho M; simpl; [rewrite (G1 rho M)|rewrite (G2 rho M)]; reflexivity.
      * inversion H as [H']. apply extend_antisubst_sound; [exact Hok|exact H'].
  - intros egrp erest fgrp frest en fn ret st rets st' c Hok Hc Hen Hfn Pe Pf H. cbn [sweep] in H.
    destruct (negb (nonempty egrp || nonempty erest || nonempty fgrp || nonempty frest)) eqn:Done.
    { apply negb_true_iff in Done. repeat (apply orb_false_iff in Done; destruct Done as [Done ?]).
      apply nonempty_false in Done. repeat match goal with X : nonempty _ = false |- _ => apply nonempty_false in X end.
      subst. inversion H; subst. exists []. rewrite app_nil_r. split; [reflexivity|]. split; [apply aext_refl; exact Hok|].
      split; [reflexivity|]. split; [reflexivity|]. split; intros; reflexivity. }
    clear Done.
    destruct (Nat.eqb en fn && (nonempty egrp || nonempty fgrp)) eqn:Cut.
    + (* a cut *)
      apply andb_true_iff in Cut. destruct Cut as [Eq _]. apply Nat.eqb_eq in Eq.
      assert (Pg : prodn egrp = prodn fgrp) by nia.
      set (e1 := productAxis egrp) in *. set (f1 := productAxis fgrp) in *.
      destruct ((if is_prod e1 && is_prod f1 then Ok (extend_antisubst e1 f1 st) else antiunify fuel e1 f1 st))
        as [[g1 st1]|] eqn:R; [|discriminate].
      cbn [bind fst snd] in H.
      assert (G1 : aext st st1 /\ generalises g1 e1 f1 st1).
      { destruct (is_prod e1 && is_prod f1).
        - inversion R as [R']. apply extend_antisubst_sound; [exact Hok|exact R'].
        - eapply IHa; eauto. }
      destruct G1 as [A1 (N1 & X1 & X2)].
      apply Forall_app in Pe. destruct Pe as [Pe1 Pe2]. apply Forall_app in Pf. destruct Pf as [Pf1 Pf2].
      assert (Hc' : en > 0). { subst en. pose proof (prodn_pos _ Pe1). nia. }
      destruct (IHs [] erest [] frest en fn (ret ++ [g1]) st1 rets st' en (proj2 A1) Hc') as (new & Enew & A2 & N & N' & E1 & E2);
        [unfold prodn; simpl; lia|unfold prodn; simpl; lia|exact Pe2|exact Pf2|exact H|].
      exists (g1 :: new). split; [rewrite Enew, <- app_assoc; reflexivity|].
      split; [eapply aext_trans; eauto|].
      simpl in N, N', E1, E2.
      assert (Ne1 : numel e1 = prodn egrp) by (unfold e1; apply (proj2 (productAxis_sem (fun _ => 0) egrp))).
      split; [|split; [|split]].
      * rewrite prodn_cons, prodn_app, N, N1, Ne1. reflexivity.
      * rewrite prodn_cons, prodn_app, N', N1, Ne1, Pg. reflexivity.
      * intros rho M. rewrite evalL_cons, evalL_app, (E1 rho M), N, (X1 rho (aext_models1 _ _ _ A2 M)).
        unfold e1. rewrite (proj1 (productAxis_sem rho egrp)). reflexivity.
      * intros rho M. rewrite evalL_cons, evalL_app, (E2 rho M), (X2 rho (aext_models2 _ _ _ A2 M)).
        unfold f1. rewrite (proj1 (productAxis_sem rho fgrp)).
        rewrite N'. reflexivity.
    + destruct (en <? fn) eqn:Lt.
      * destruct erest as [|x erest']; [discriminate|].
        destruct (IHs (egrp ++ [x]) erest' fgrp frest (en * numel x) fn ret st rets st' c Hok Hc) as (new & Enew & A & N & N' & E1 & E2);
          [rewrite prodn_app; unfold prodn at 2; simpl; nia|exact Hfn|rewrite <- app_assoc; exact Pe|exact Pf|exact H|].
        exists new. rewrite <- app_assoc in N, E1. simpl in N, E1. auto 10.
      * destruct frest as [|y frest']; [discriminate|].
        destruct (IHs egrp erest (fgrp ++ [y]) frest' en (fn * numel y) ret st rets st' c Hok Hc) as (new & Enew & A & N & N' & E1 & E2);
          [exact Hen|rewrite prodn_app; unfold prodn at 2; simpl; nia|exact Pe|rewrite <- app_assoc; exact Pf|exact H|].
        exists new. rewrite <- app_assoc in N', E2. simpl in N', E2. auto 10.
Qed.

Theorem antiunify_both : forall fuel, A_anti fuel /\ A_sweep fuel.
Proof.
  induction fuel as [|fuel [IHa IHs]]; [split; [intros ? ? ? ? ? ? H|intros ? ? ? ? ? ? ? ? ? ? ? ? ? ? ? ? ? H]; discriminate|].
  apply anti_step; assumption.
Qed.

Definition astate0 (next : positive) : astate := {| as_list := []; as_next := next; as_warn := false |}.

Lemma antiunify_list_sound fuel : forall es fs st gs st',
  entries_ok (as_list st) -> antiunify_list fuel es fs st = Ok (gs, st') ->
  aext st st' /\
  map numel gs = map numel (firstn (length fs) es) /\
  (forall rho, models rho (sigma1 (as_list st')) -> map (eval rho) gs = map (eval rho) (firstn (length fs) es)) /\
  (forall rho, models rho (sigma2 (as_list st')) -> map (eval rho) gs = map (eval rho) (firstn (length es) fs)).
Proof.
  induction es as [|e es IH]; intros fs st gs st' Hok H.
  - simpl in H. inversion H; subst. split; [apply aext_refl; exact Hok|]. rewrite firstn_nil. simpl. auto.
  - destruct fs as [|f fs].
    + simpl in H. inversion H; subst. split; [apply aext_refl; exact Hok|]. simpl. auto.
    + simpl in H.
      destruct (antiunify fuel e f st) as [[g st1]|] eqn:E1; [|discriminate]. cbn [bind fst snd] in H.
      destruct (antiunify_list fuel es fs st1) as [[gs1 st2]|] eqn:E2; [|discriminate]. cbn [bind fst snd] in H.
      inversion H; subst. clear H.
      destruct (proj1 (antiunify_both fuel) _ _ _ _ _ Hok E1) as [A1 (N1 & X1 & X2)].
      destruct (IH _ _ _ _ (proj2 A1) E2) as (A2 & N2 & Y1 & Y2).
      split; [eapply aext_trans; eauto|]. simpl. split; [rewrite N1, N2; reflexivity|].
      split; intros rho M.
      * rewrite (Y1 rho M), (X1 rho (aext_models1 _ _ _ A2 M)). reflexivity.
      * rewrite (Y2 rho M), (X2 rho (aext_models2 _ _ _ A2 M)). reflexivity.
Qed.

(** C06_antiunify_generalises *)
Theorem antiunify_generalises fuel es fs next gs st' :
  length es = length fs ->
  antiunify_list fuel es fs (astate0 next) = Ok (gs, st') ->
  map numel gs = map numel es /\
  (forall rho, models rho (sigma1 (as_list st')) -> map (eval rho) gs = map (eval rho) es) /\
  (forall rho, models rho (sigma2 (as_list st')) -> map (eval rho) gs = map (eval rho) fs).
Proof.
  intros Hlen H. destruct (antiunify_list_sound fuel es fs (astate0 next) gs st' (Forall_nil _) H) as (_ & N & X1 & X2).
  rewrite <- Hlen, firstn_all in N, X1. rewrite Hlen, firstn_all in X2. auto.
Qed.

Example antiunify_ex :
  let x := Phys 1 2 in let y := Phys 2 3 in let z := Phys 3 6 in
  antiunify_list 10 [Sum 1 (Prod [x; y]) 0; x] [Sum 1 z 0; Phys 4 2] (astate0 5)
  = Ok ([Sum 1 (Phys 5 6) 0; Phys 6 2],
        {| as_list := [(5%positive, 6, Prod [x; y], z); (6%positive, 2, x, Phys 4 2)]; as_next := 7%positive; as_warn := false |}).
Proof. reflexivity. Qed.
