(** Meaning of patterned tensors: characterisation of [denote] (an element is either backed by
    exactly the physical element whose environment evaluates to its index, or it is the default),
    and the refinement theorems for views and unary maps. *)
From Coq Require Import List Arith Lia PeanoNat Bool PArith.
Import ListNotations.
Require Import Fggs.Model.Axis Fggs.Model.PTensor Fggs.Proofs.Axis_sem.

(** * [index_list] inverts [evals] *)
Lemma index_list_sound es : forall pi vs pi', length vs = length es -> index_list es pi vs = IOk pi' ->
  extends pi pi' /\ (forall k, In k (flat_map fv es) -> assoc k pi' <> None) /\
  (forall rho, agrees rho pi' -> evals rho es = vs /\ Forall (inrange rho) es).
Proof.
  induction es as [|e es IH]; intros pi vs pi' Hlen H.
  - destruct vs; [|discriminate]. simpl in H. inversion H; subst.
    split; [apply extends_refl|]. split; [intros k []|]. intros rho _. split; [reflexivity|constructor].
  - destruct vs as [|v vs]; [discriminate|]. simpl in H, Hlen.
    destruct (index e pi v) as [pi1| |] eqn:E1; try discriminate.
    destruct (index_sound e _ _ _ E1) as (X1 & X2 & X3).
    destruct (IH _ _ _ (eq_add_S _ _ Hlen) H) as (Y1 & Y2 & Y3).
    split; [eapply extends_trans; eauto|]. split.
    + intros k Hk. simpl in Hk. apply in_app_or in Hk. destruct Hk as [Hk|Hk]; [|auto].
      specialize (X2 _ Hk). destruct (assoc k pi1) eqn:E; [|congruence]. rewrite (Y1 _ _ E). discriminate.
    + intros rho A. destruct (Y3 _ A) as [Ye Yr]. destruct (X3 rho (agrees_extends _ _ _ Y1 A)) as [Xe Xr].
      split; [unfold evals in *; simpl; rewrite Xe, Ye; reflexivity|constructor; assumption].
Qed.

Lemma index_list_complete es : forall rho pi, Forall (inrange rho) es -> agrees rho pi ->
  exists pi', index_list es pi (evals rho es) = IOk pi' /\ agrees rho pi'.
Proof.
  induction es as [|e es IH]; intros rho pi R A.
  - simpl. eauto.
  - inversion R as [|? ? Re Res]; subst. simpl.
    destruct (index_complete e rho pi Re A) as (pi1 & E1 & A1). rewrite E1. apply IH; assumption.
Qed.

Section Sem.
Variable V : Type.
Notation ptensor := (ptensor V).

(** every physical axis of the tensor occurs in its [vaxes] *)
Definition covers (ps : list pn) (vs : list axis) : Prop :=
  forall k, In k (map fst ps) -> In k (flat_map fv vs).

Lemma pcoords_ext ps rho1 rho2 :
  (forall k, In k (map fst ps) -> rho1 k = rho2 k) -> pcoords ps rho1 = pcoords ps rho2.
Proof.
  induction ps as [|[k n] ps IH]; intros H; [reflexivity|]. simpl. f_equal.
  - apply H. left. reflexivity.
  - apply IH. intros k' Hk'. apply H. right. exact Hk'.
Qed.

Theorem denote_backed (t : ptensor) rho : covers (paxes t) (vaxes t) ->
  Forall (inrange rho) (vaxes t) -> denote V t (evals rho (vaxes t)) = pget V t rho.
Proof.
  intros C R. unfold denote.
  destruct (index_list_complete (vaxes t) rho [] R) as (pi & E & A); [intros k i H; discriminate|].
  rewrite E. unfold pget. f_equal. apply pcoords_ext. intros k Hk.
  destruct (index_list_sound (vaxes t) [] _ pi (map_length _ _) E) as (_ & B & _).
  specialize (B k (C k Hk)). unfold env_of. destruct (assoc k pi) as [i|] eqn:Ek; [|congruence].
  symmetry. exact (A _ _ Ek).
Qed.

Theorem denote_unbacked (t : ptensor) idx : length idx = length (vaxes t) ->
  (forall rho, Forall (inrange rho) (vaxes t) -> evals rho (vaxes t) <> idx) ->
  denote V t idx = default t.
Proof.
  intros Hlen H. unfold denote. destruct (index_list (vaxes t) [] idx) as [pi| |] eqn:E; try reflexivity.
  destruct (index_list_sound _ _ _ _ Hlen E) as (_ & _ & S).
  destruct (S (env_of pi) (agrees_env_of pi)) as [Se Sr]. exfalso. exact (H _ Sr Se).
Qed.

Theorem denote_cases (t : ptensor) idx : covers (paxes t) (vaxes t) -> length idx = length (vaxes t) ->
  (exists rho, Forall (inrange rho) (vaxes t) /\ evals rho (vaxes t) = idx /\ denote V t idx = pget V t rho) \/
  ((forall rho, Forall (inrange rho) (vaxes t) -> evals rho (vaxes t) <> idx) /\ denote V t idx = default t).
Proof.
  intros C Hlen. destruct (index_list (vaxes t) [] idx) as [pi| |] eqn:E.
  - left. destruct (index_list_sound _ _ _ _ Hlen E) as (_ & _ & S).
    destruct (S (env_of pi) (agrees_env_of pi)) as [Se Sr]. exists (env_of pi). split; [exact Sr|]. split; [exact Se|].
    rewrite <- Se. apply denote_backed; assumption.
  - right. assert (N : forall rho, Forall (inrange rho) (vaxes t) -> evals rho (vaxes t) <> idx).
    { intros rho R Ee. destruct (index_list_complete (vaxes t) rho [] R) as (pi & E' & _); [intros k i H; discriminate|].
      rewrite Ee in E'. congruence. }
    split; [exact N|apply denote_unbacked; assumption].
  - right. assert (N : forall rho, Forall (inrange rho) (vaxes t) -> evals rho (vaxes t) <> idx).
    { intros rho R Ee. destruct (index_list_complete (vaxes t) rho [] R) as (pi & E' & _); [intros k i H; discriminate|].
      rewrite Ee in E'. congruence. }
    split; [exact N|apply denote_unbacked; assumption].
Qed.

(** * the generic view lemma: same storage, another pattern; indices related so that the same
    environments back them *)
Theorem view_lemma (t : ptensor) vs' idx idx' :
  covers (paxes t) (vaxes t) -> covers (paxes t) vs' ->
  length idx = length (vaxes t) -> length idx' = length vs' ->
  (forall rho, (Forall (inrange rho) (vaxes t) /\ evals rho (vaxes t) = idx) <->
               (Forall (inrange rho) vs' /\ evals rho vs' = idx')) ->
  denote V (with_vaxes V t vs') idx' = denote V t idx.
Proof.
  intros C C' L L' H.
  destruct (denote_cases t idx C L) as [(rho & R & E & D)|[N D]].
  - rewrite D. destruct (proj1 (H rho) (conj R E)) as [R' E']. rewrite <- E'.
    change vs' with (vaxes (with_vaxes V t vs')). rewrite denote_backed; [reflexivity|exact C'|exact R'].
  - rewrite D. apply (denote_unbacked (with_vaxes V t vs')); [exact L'|].
    intros rho R' E'. destruct (proj2 (H rho) (conj R' E')) as [R E]. exact (N rho R E).
Qed.

(** * unary maps *)
Theorem map_refines (f : V -> V) fd (t : ptensor) idx :
  fd = f (default t) -> denote V (pt_map V f fd t) idx = f (denote V t idx).
Proof.
  intros ->. unfold denote, pt_map, pget. simpl. destruct (index_list (vaxes t) [] idx); reflexivity.
Qed.

(** * T (reverse all dimensions) *)
Lemma evals_rev rho vs : evals rho (rev vs) = rev (evals rho vs).
Proof. unfold evals. apply map_rev. Qed.

Lemma covers_rev ps vs : covers ps vs -> covers ps (rev vs).
Proof.
  intros C k Hk. specialize (C k Hk). apply in_flat_map in C. destruct C as (x & Hx & Hkx).
  apply in_flat_map. exists x. split; [apply in_rev; rewrite rev_involutive; exact Hx|exact Hkx].
Qed.

Theorem T_refines (t : ptensor) idx : covers (paxes t) (vaxes t) -> length idx = length (vaxes t) ->
  denote V (pt_T V t) (rev idx) = denote V t idx.
Proof.
  intros C L. unfold pt_T. apply view_lemma; try assumption.
  - apply covers_rev. exact C.
  - rewrite !rev_length. exact L.
  - intros rho. rewrite evals_rev. split; intros [R E].
    + split; [apply Forall_rev; exact R|rewrite E; reflexivity].
    + split; [rewrite <- (rev_involutive (vaxes t)); apply Forall_rev; exact R|].
      apply (f_equal (@rev nat)) in E. rewrite !rev_involutive in E. exact E.
Qed.

(** * unsqueeze *)
Lemma app_inj_len {A} (a c b d : list A) : length a = length c -> a ++ b = c ++ d -> a = c /\ b = d.
Proof.
  revert c. induction a as [|x a IH]; intros [|y c] L E; try discriminate; [split; [reflexivity|exact E]|].
  simpl in *. inversion E; subst. destruct (IH c (eq_add_S _ _ L) H1) as [-> ->]. split; reflexivity.
Qed.

Theorem unsqueeze_refines (t : ptensor) dim idx : covers (paxes t) (vaxes t) -> length idx = length (vaxes t) ->
  denote V (pt_unsqueeze V dim t) (firstn dim idx ++ [0] ++ skipn dim idx) = denote V t idx.
Proof.
  intros C L. unfold pt_unsqueeze. apply view_lemma; try assumption.
  - intros k Hk. specialize (C k Hk). rewrite <- (firstn_skipn dim (vaxes t)) in C.
    rewrite flat_map_app in *. simpl. apply in_app_or in C. apply in_or_app. tauto.
  - rewrite !app_length. simpl. rewrite !firstn_length, !skipn_length, L. reflexivity.
  - intros rho. unfold evals. rewrite !map_app. simpl. rewrite <- firstn_map, <- skipn_map.
    split; intros [R E].
    + split.
      * rewrite <- (firstn_skipn dim (vaxes t)) in R. apply Forall_app in R. destruct R as [R1 R2].
        apply Forall_app. split; [exact R1|]. constructor; [exact I|exact R2].
      * unfold evals in E. rewrite E. reflexivity.
    + apply Forall_app in R. destruct R as [R1 R2]. inversion R2 as [|? ? _ R3]; subst.
      split; [rewrite <- (firstn_skipn dim (vaxes t)); apply Forall_app; split; assumption|].
      assert (Hl : length (firstn dim (map (eval rho) (vaxes t))) = length (firstn dim idx)).
      { rewrite !firstn_length, map_length, L. reflexivity. }
      apply app_inj_len in E; [|exact Hl].
      destruct E as [E1 E2]. inversion E2 as [E3].
      unfold evals. rewrite <- (firstn_skipn dim (map (eval rho) (vaxes t))), <- (firstn_skipn dim idx), E1, E3. reflexivity.
Qed.

End Sem.
