(** C17, rules: the conjunction of two conjoinable rules has the nodes and externals of the
    pair, one nonterminal edge per shared edge (paired label, shared attachment) and the terminal
    edges of both, and is a well-typed rule. *)
From Coq Require Import List Arith Bool PeanoNat Lia Permutation Sorted.
Import ListNotations.
Require Import Fggs.Model.Conj Fggs.Proofs.ConjBase Fggs.Proofs.ConjSort.

(** * small list facts *)
Lemma NoDup_snoc {A} : forall (l : list A) x, NoDup l -> ~ In x l -> NoDup (l ++ [x]).
Proof.
  induction l as [|a l IH]; simpl; intros x H N.
  - constructor; [intros [] | constructor].
  - inversion H as [|? ? H1 H2]; subst. constructor.
    + rewrite in_app_iff. intros [Hin|[->|[]]]; [contradiction | apply N; left; reflexivity].
    + apply IH; [exact H2 | intros Hin; apply N; right; exact Hin].
Qed.

Lemma NoDup_same_length {A} : forall l1 l2 : list A,
  NoDup l1 -> NoDup l2 -> (forall x, In x l1 <-> In x l2) -> length l1 = length l2.
Proof.
  intros l1 l2 N1 N2 H. apply Nat.le_antisymm; apply NoDup_incl_length; auto; intros x Hx; apply H; exact Hx.
Qed.

Lemma NoDup_map_fst {A B} (f : A -> B) : forall l, NoDup (map f l) -> NoDup l.
Proof.
  induction l as [|a l IH]; simpl; intros H; [constructor|].
  inversion H as [|? ? H1 H2]; subst. constructor; [|apply IH; exact H2].
  intros Hin. apply H1. apply in_map. exact Hin.
Qed.

(** * the graph builder *)
Definition hid (ns : list node) (i : nat) : bool := existsb (fun m => Nat.eqb (n_id m) i) ns.

Lemma hid_in : forall ns n, In n ns -> hid ns (n_id n) = true.
Proof. intros. unfold hid. apply existsb_exists. exists n. split; [assumption | apply Nat.eqb_refl]. Qed.
Lemma hid_false : forall ns i, hid ns i = false <-> ~ In i (map n_id ns).
Proof.
  intros. unfold hid. split.
  - intros H Hin. apply in_map_iff in Hin. destruct Hin as [n [E Hn]].
    assert (X : existsb (fun m => Nat.eqb (n_id m) i) ns = true).
    { apply existsb_exists. exists n. split; [exact Hn | apply Nat.eqb_eq; exact E]. }
    congruence.
  - intros N. destruct (existsb (fun m => Nat.eqb (n_id m) i) ns) eqn:E; [|reflexivity].
    apply existsb_exists in E. destruct E as [n [Hn E]]. apply Nat.eqb_eq in E.
    exfalso. apply N. apply in_map_iff. exists n. auto.
Qed.

Definition heid (es : list edge) (i : nat) : bool := existsb (fun e => Nat.eqb (e_id e) i) es.
Lemma heid_false : forall es i, heid es i = false <-> ~ In i (map e_id es).
Proof.
  intros. unfold heid. split.
  - intros H Hin. apply in_map_iff in Hin. destruct Hin as [n [E Hn]].
    assert (X : existsb (fun e => Nat.eqb (e_id e) i) es = true).
    { apply existsb_exists. exists n. split; [exact Hn | apply Nat.eqb_eq; exact E]. }
    congruence.
  - intros N. destruct (existsb (fun e => Nat.eqb (e_id e) i) es) eqn:E; [|reflexivity].
    apply existsb_exists in E. destruct E as [n [Hn E]]. apply Nat.eqb_eq in E.
    exfalso. apply N. apply in_map_iff. exists n. auto.
Qed.

Lemma add_node_ok : forall g n g', add_node g n = Ok g' ->
  hid (g_nodes g) (n_id n) = false /\
  g_nodes g' = g_nodes g ++ [n] /\ g_edges g' = g_edges g /\ g_ext g' = g_ext g.
Proof.
  unfold add_node, has_node_id, hid. intros g n g' H.
  destruct (existsb (fun m => Nat.eqb (n_id m) (n_id n)) (g_nodes g)); [discriminate|].
  injection H as <-. simpl. auto.
Qed.

Lemma add_nodes_ok : forall l g g', mfold add_node l g = Ok g' ->
  g_nodes g' = g_nodes g ++ l /\ g_edges g' = g_edges g /\ g_ext g' = g_ext g.
Proof.
  induction l as [|a l IH]; simpl; intros g g' H.
  - injection H as <-. rewrite app_nil_r. auto.
  - destruct (add_node g a) as [g1|] eqn:E; [|discriminate].
    apply add_node_ok in E. destruct E as [_ [E1 [E2 E3]]].
    apply IH in H. destruct H as [H1 [H2 H3]]. rewrite H1, H2, H3, E1, E2, E3, <- app_assoc. auto.
Qed.

Lemma find_node_in : forall l n, NoDup (map n_id l) -> In n l -> find_node (n_id n) l = Some n.
Proof.
  unfold find_node. induction l as [|x l IH]; simpl; intros n N Hn; [contradiction|].
  inversion N as [|? ? N1 N2]; subst. destruct Hn as [->|Hn].
  - rewrite Nat.eqb_refl. reflexivity.
  - destruct (Nat.eqb (n_id x) (n_id n)) eqn:E.
    + apply Nat.eqb_eq in E. exfalso. apply N1. rewrite E. apply in_map. exact Hn.
    + apply IH; assumption.
Qed.

(** nodes that are already in the graph (by value) are not added again *)
Lemma check_new_nodes_present : forall existing ns,
  NoDup (map n_id existing) -> (forall n, In n ns -> In n existing) ->
  check_new_nodes existing [] ns = Ok [].
Proof.
  induction ns as [|n ns IH]; simpl; intros N H; [reflexivity|].
  rewrite (find_node_in existing n N (H n (or_introl eq_refl))).
  rewrite (proj2 (node_eqb_eq n n) eq_refl). apply IH; auto.
Qed.

Lemma add_new_nodes_present : forall g ns,
  NoDup (map n_id (g_nodes g)) -> (forall n, In n ns -> In n (g_nodes g)) ->
  add_new_nodes g ns = Ok g.
Proof.
  intros g ns N H. unfold add_new_nodes. rewrite (check_new_nodes_present _ _ N H). reflexivity.
Qed.

Lemma set_ext_ok : forall g ns g',
  NoDup (map n_id (g_nodes g)) -> (forall n, In n ns -> In n (g_nodes g)) -> set_ext g ns = Ok g' ->
  g_nodes g' = g_nodes g /\ g_edges g' = g_edges g /\ g_ext g' = ns.
Proof.
  intros g ns g' N P H. unfold set_ext in H. rewrite (add_new_nodes_present g ns N P) in H.
  simpl in H. injection H as <-. simpl. auto.
Qed.

Lemma add_edge_ok : forall g e g',
  NoDup (map n_id (g_nodes g)) -> (forall n, In n (e_att e) -> In n (g_nodes g)) ->
  add_edge g e = Ok g' ->
  heid (g_edges g) (e_id e) = false /\
  g_nodes g' = g_nodes g /\ g_edges g' = g_edges g ++ [e] /\ g_ext g' = g_ext g.
Proof.
  intros g e g' N P H. unfold add_edge, has_edge_id in H. fold (heid (g_edges g) (e_id e)) in H.
  destruct (heid (g_edges g) (e_id e)); [discriminate|].
  rewrite (add_new_nodes_present g _ N P) in H. simpl in H. injection H as <-. simpl. auto.
Qed.

Lemma add_edges_ok : forall es g g',
  NoDup (map n_id (g_nodes g)) ->
  (forall e n, In e es -> In n (e_att e) -> In n (g_nodes g)) ->
  mfold add_edge es g = Ok g' ->
  g_nodes g' = g_nodes g /\ g_edges g' = g_edges g ++ es /\ g_ext g' = g_ext g /\
  (NoDup (map e_id (g_edges g)) -> NoDup (map e_id (g_edges g'))).
Proof.
  induction es as [|e es IH]; simpl; intros g g' N P H.
  - injection H as <-. rewrite app_nil_r. auto.
  - destruct (add_edge g e) as [g1|] eqn:E; [|discriminate].
    apply add_edge_ok in E; [|exact N|intros n Hn; apply (P e n); auto].
    destruct E as [E0 [E1 [E2 E3]]].
    apply IH in H; [|rewrite E1; exact N|intros e' n He Hn; rewrite E1; apply (P e' n); auto].
    destruct H as [H1 [H2 [H3 H4]]].
    split; [rewrite H1, E1; reflexivity|].
    split; [rewrite H2, E2, <- app_assoc; reflexivity|].
    split; [rewrite H3, E3; reflexivity|].
    intros ND. apply H4. rewrite E2, map_app. simpl.
    apply NoDup_snoc; [exact ND | apply heid_false; exact E0].
Qed.

(** * well-formedness as propositions *)
Record wf_graph (g : graph) : Prop := {
  wg_nodes : NoDup (map n_id (g_nodes g));
  wg_edges : NoDup (map e_id (g_edges g));
  wg_ext : forall n, In n (g_ext g) -> In n (g_nodes g);
  wg_att : forall e n, In e (g_edges g) -> In n (e_att e) -> In n (g_nodes g);
  wg_type : forall e, In e (g_edges g) -> el_type (e_lab e) = map n_lab (e_att e) }.

Lemma wf_graph_b_spec : forall g, wf_graph_b g = true <-> wf_graph g.
Proof.
  intros g. unfold wf_graph_b. rewrite !andb_true_iff, !nodup_nat_NoDup, !forallb_forall. split.
  - intros [[[H1 H2] H3] H4]. constructor; auto.
    + intros n Hn. apply mem_node_In. apply H3. exact Hn.
    + intros e n He Hn. specialize (H4 e He). apply andb_true_iff in H4. destruct H4 as [H4 _].
      rewrite forallb_forall in H4. apply mem_node_In. apply H4. exact Hn.
    + intros e He. specialize (H4 e He). apply andb_true_iff in H4. destruct H4 as [_ H4].
      apply nats_eqb_eq. exact H4.
  - intros [W1 W2 W3 W4 W5]. split; [split; [split|]|]; auto.
    + intros n Hn. apply mem_node_In. auto.
    + intros e He. apply andb_true_iff. split.
      * apply forallb_forall. intros n Hn. apply mem_node_In. eauto.
      * apply nats_eqb_eq. auto.
Qed.

Record wf_rule (r : rule) : Prop := {
  wr_nt : el_term (r_lhs r) = false;
  wr_type : el_type (r_lhs r) = map n_lab (g_ext (r_rhs r));
  wr_graph : wf_graph (r_rhs r) }.

Lemma wf_rule_b_spec : forall r, wf_rule_b r = true <-> wf_rule r.
Proof.
  intros r. unfold wf_rule_b, is_nt. rewrite !andb_true_iff, negb_true_iff, nats_eqb_eq, wf_graph_b_spec.
  split.
  - intros [[H1 H2] H3]. constructor; assumption.
  - intros [H1 H2 H3]. auto.
Qed.

Lemma conjoinable_spec : forall r1 r2, conjoinable_model r1 r2 = true <->
  (forall n, In n (g_nodes (r_rhs r1)) <-> In n (g_nodes (r_rhs r2))) /\
  (forall s, In s (nt_sig (r_rhs r1)) <-> In s (nt_sig (r_rhs r2))) /\
  map n_id (g_ext (r_rhs r1)) = map n_id (g_ext (r_rhs r2)).
Proof.
  intros r1 r2. unfold conjoinable_model.
  rewrite <- (set_eqb_spec node_eqb node_eqb_eq), <- (set_eqb_spec sig_eqb sig_eqb_eq), <- nats_eqb_eq.
  destruct (set_eqb node_eqb _ _); simpl; [|intuition discriminate].
  destruct (set_eqb sig_eqb _ _); simpl; [|intuition discriminate].
  destruct (nats_eqb _ _); simpl; intuition discriminate.
Qed.

Lemma nt_edges_in : forall g e, In e (nt_edges g) <-> In e (g_edges g) /\ el_term (e_lab e) = false.
Proof. intros. unfold nt_edges. rewrite filter_In. unfold is_nt. rewrite negb_true_iff. reflexivity. Qed.
Lemma t_edges_in : forall g e, In e (t_edges g) <-> In e (g_edges g) /\ el_term (e_lab e) = true.
Proof. intros. unfold t_edges. rewrite filter_In. reflexivity. Qed.

(** * fresh implicit ids *)
Definition fresh_of (base : nat) (pre : list edge) : nat :=
  2 + 2 * Nat.div2 (fold_right Nat.max base (map e_id pre)).

Lemma fresh_eid_of : forall base g, fresh_eid base g = fresh_of base (g_edges g).
Proof. reflexivity. Qed.

Lemma fold_max_ge : forall (l : list nat) b x, In x l -> x <= fold_right Nat.max b l.
Proof.
  induction l as [|a l IH]; simpl; intros b x H; [contradiction|].
  destruct H as [->|H]; [lia|]. specialize (IH b x H). lia.
Qed.
Lemma fold_max_base : forall (l : list nat) b, b <= fold_right Nat.max b l.
Proof. induction l as [|a l IH]; simpl; intros b; [lia|]. specialize (IH b). lia. Qed.

Lemma lt_fresh : forall m, m < 2 + 2 * Nat.div2 m.
Proof.
  intros m. pose proof (Nat.div2_odd m) as E. destruct (Nat.odd m); simpl in E; lia.
Qed.

Lemma fresh_of_gt : forall base pre x, In x pre -> e_id x < fresh_of base pre.
Proof.
  intros base pre x H. unfold fresh_of.
  pose proof (fold_max_ge (map e_id pre) base (e_id x) (in_map e_id _ _ H)) as L.
  pose proof (lt_fresh (fold_right Nat.max base (map e_id pre))). lia.
Qed.
Lemma fresh_of_gt_base : forall base pre, base < fresh_of base pre.
Proof.
  intros base pre. unfold fresh_of. pose proof (fold_max_base (map e_id pre) base).
  pose proof (lt_fresh (fold_right Nat.max base (map e_id pre))). lia.
Qed.
Lemma fresh_of_even : forall base pre, is_int_id (fresh_of base pre) = true.
Proof.
  intros. unfold is_int_id, fresh_of. change (2 + ?x) with (S (S x)).
  rewrite Nat.even_succ_succ, Nat.even_mul. reflexivity.
Qed.
Lemma fresh_not_in : forall base pre, heid pre (fresh_of base pre) = false.
Proof.
  intros base pre. apply heid_false. intros H. apply in_map_iff in H. destruct H as [x [E Hx]].
  pose proof (fresh_of_gt base pre x Hx). lia.
Qed.

(** * the nonterminal edges of the conjunction *)
(** what a new nonterminal edge looks like: paired label, attachment of edge 1, the id of edge 1
    if that is explicit, an implicit id otherwise *)
Definition nt_edge_rel (m : ntmap) (p : edge * edge) (e : edge) : Prop :=
  nt_get m (e_lab (fst p), e_lab (snd p)) = Some (e_lab e) /\ e_att e = e_att (fst p) /\
  (if is_int_id (e_id (fst p)) then is_int_id (e_id e) = true else e_id e = e_id (fst p)).

(** the functional reading of the loop over the shared edges, [pre] = edges already in the graph *)
Definition new_nt_edge (m : ntmap) (base : nat) (pre : list edge) (p : edge * edge) : option edge :=
  match nt_get m (e_lab (fst p), e_lab (snd p)) with
  | Some l => Some {| e_id := if is_int_id (e_id (fst p)) then fresh_of base pre else e_id (fst p);
                      e_lab := l; e_att := e_att (fst p) |}
  | None => None
  end.
Inductive built (m : ntmap) (base : nat) : list edge -> list (edge * edge) -> list edge -> Prop :=
| built_nil : forall pre, built m base pre [] []
| built_cons : forall pre p ps e es,
    new_nt_edge m base pre p = Some e -> built m base (pre ++ [e]) ps es ->
    built m base pre (p :: ps) (e :: es).

Lemma new_nt_edge_rel : forall m base pre p e, new_nt_edge m base pre p = Some e -> nt_edge_rel m p e.
Proof.
  intros m base pre p e H. unfold new_nt_edge in H.
  destruct (nt_get m (e_lab (fst p), e_lab (snd p))) as [l|] eqn:G; [|discriminate].
  injection H as <-. unfold nt_edge_rel. simpl. rewrite G. split; [reflexivity|]. split; [reflexivity|].
  destruct (is_int_id (e_id (fst p))); [apply fresh_of_even | reflexivity].
Qed.

Lemma built_rel : forall m base pre ps es, built m base pre ps es -> Forall2 (nt_edge_rel m) ps es.
Proof.
  induction 1 as [|pre p ps e es H B IH]; constructor; [eapply new_nt_edge_rel; eauto | exact IH].
Qed.

Lemma built_ids : forall m base pre ps es, built m base pre ps es ->
  forall e', In e' es -> exists p', In p' ps /\
    (is_int_id (e_id (fst p')) = true ->
       is_int_id (e_id e') = true /\ forall x, In x pre -> e_id x < e_id e') /\
    (is_int_id (e_id (fst p')) = false -> e_id e' = e_id (fst p')).
Proof.
  induction 1 as [|pre p ps e es H B IH]; intros e' He'; [contradiction|].
  destruct He' as [<-|He'].
  - exists p. split; [left; reflexivity|]. unfold new_nt_edge in H.
    destruct (nt_get m (e_lab (fst p), e_lab (snd p))); [|discriminate]. injection H as <-. simpl.
    split; intros I; rewrite I.
    + split; [apply fresh_of_even | intros x Hx; apply fresh_of_gt; exact Hx].
    + reflexivity.
  - destruct (IH e' He') as [p' [Hp' [A B']]]. exists p'. split; [right; exact Hp'|]. split; [|exact B'].
    intros I. destruct (A I) as [A1 A2]. split; [exact A1|]. intros x Hx. apply A2.
    apply in_app_iff. left. exact Hx.
Qed.

(** the new edges are created in id order, so they are already sorted *)
Lemma built_sorted : forall m base pre ps es, built m base pre ps es ->
  StronglySorted (fun p q : edge * edge => le_id (fst p) (fst q)) ps -> StronglySorted le_id es.
Proof.
  induction 1 as [|pre p ps e es H B IH]; intros S; [constructor|].
  inversion S as [|? ? S' F]; subst. constructor; [apply IH; exact S'|].
  apply Forall_forall. intros e' He'.
  destruct (built_ids _ _ _ _ _ B e' He') as [p' [Hp' [A1 A2]]].
  rewrite Forall_forall in F. specialize (F p' Hp'). unfold le_id in *.
  unfold new_nt_edge in H. destruct (nt_get m (e_lab (fst p), e_lab (snd p))); [|discriminate].
  injection H as <-. simpl.
  destruct (is_int_id (e_id (fst p))) eqn:I1; destruct (is_int_id (e_id (fst p'))) eqn:I2.
  - destruct (A1 eq_refl) as [Ev Gt].
    assert (L : fresh_of base pre < e_id e').
    { apply (Gt {| e_id := fresh_of base pre; e_lab := e0; e_att := e_att (fst p) |}).
      apply in_app_iff. right. left. reflexivity. }
    unfold id_leb. pose proof (fresh_of_even base pre) as Ev0. unfold is_int_id in Ev, Ev0.
    rewrite Ev0, Ev. apply Nat.leb_le. lia.
  - rewrite (A2 eq_refl). unfold id_leb. pose proof (fresh_of_even base pre) as Ev0.
    unfold is_int_id in Ev0, I2. rewrite Ev0, I2. reflexivity.
  - exfalso. unfold id_leb in F. unfold is_int_id in I1, I2. rewrite I1, I2 in F. discriminate.
  - rewrite (A2 eq_refl). exact F.
Qed.

Lemma combine_sorted_fst : forall s1 s2,
  StronglySorted le_id s1 ->
  StronglySorted (fun p q : edge * edge => le_id (fst p) (fst q)) (combine s1 s2).
Proof.
  induction s1 as [|a s1 IH]; intros [|b s2] S; simpl; try constructor.
  - inversion S; subst. apply IH. assumption.
  - inversion S as [|? ? S' F]; subst. apply Forall_forall. intros [x y] H. simpl.
    apply in_combine_l in H. rewrite Forall_forall in F. apply F. exact H.
Qed.

Definition typed_edge (e : edge) : Prop := el_type (e_lab e) = map n_lab (e_att e).

Lemma conj_nt_edge_ok : forall m base g p g',
  NoDup (map n_id (g_nodes g)) -> (forall n, In n (e_att (fst p)) -> In n (g_nodes g)) ->
  conj_nt_edge m base g p = Ok g' ->
  exists e, new_nt_edge m base (g_edges g) p = Some e /\
    heid (g_edges g) (e_id e) = false /\ typed_edge e /\
    g_nodes g' = g_nodes g /\ g_edges g' = g_edges g ++ [e] /\ g_ext g' = g_ext g.
Proof.
  intros m base g p g' N P H. unfold conj_nt_edge in H. rewrite fresh_eid_of in H. unfold new_nt_edge.
  destruct (nt_get m (e_lab (fst p), e_lab (snd p))) as [l|]; [|discriminate].
  apply bind_ok in H. destruct H as [e [H1 H2]]. unfold mk_edge in H1.
  destruct (nats_eqb (el_type l) (map n_lab (e_att (fst p)))) eqn:T; simpl in H1; [|discriminate].
  injection H1 as <-. apply nats_eqb_eq in T.
  apply add_edge_ok in H2; [|exact N|exact P]. simpl in H2. destruct H2 as [A [B [C D]]].
  eexists. split; [reflexivity|]. simpl.
  unfold typed_edge. simpl. auto 10.
Qed.

Lemma conj_nt_edges_ok : forall m base ps g g',
  NoDup (map n_id (g_nodes g)) ->
  (forall p n, In p ps -> In n (e_att (fst p)) -> In n (g_nodes g)) ->
  mfold (conj_nt_edge m base) ps g = Ok g' ->
  exists es, built m base (g_edges g) ps es /\ Forall typed_edge es /\
    g_nodes g' = g_nodes g /\ g_edges g' = g_edges g ++ es /\ g_ext g' = g_ext g /\
    (NoDup (map e_id (g_edges g)) -> NoDup (map e_id (g_edges g'))).
Proof.
  induction ps as [|p ps IH]; simpl; intros g g' N P H.
  - injection H as <-. exists []. rewrite app_nil_r.
    split; [constructor|]. split; [constructor|]. auto.
  - destruct (conj_nt_edge m base g p) as [g1|] eqn:E; [|discriminate].
    apply conj_nt_edge_ok in E; [|exact N|intros n Hn; apply (P p n); auto].
    destruct E as [e [E1 [E2 [E4 [E5 [E6 E7]]]]]].
    apply IH in H; [|rewrite E5; exact N|intros p' n Hp Hn; rewrite E5; apply (P p' n); auto].
    destruct H as [es [F [G [H1 [H2 [H3 H4]]]]]].
    exists (e :: es). split; [econstructor; [exact E1 | rewrite <- E6; exact F]|].
    split; [constructor; auto|].
    split; [rewrite H1, E5; reflexivity|].
    split; [rewrite H2, E6, <- app_assoc; reflexivity|].
    split; [rewrite H3, E7; reflexivity|].
    intros ND. apply H4. rewrite E6, map_app. simpl.
    apply NoDup_snoc; [exact ND | apply heid_false; exact E2].
Qed.

(** * the terminal edges of rule 2 *)
Definition t2_rel (e e' : edge) : Prop :=
  e_lab e' = e_lab e /\ e_att e' = e_att e /\ (e_id e' = e_id e \/ is_int_id (e_id e') = true).

Lemma add_t2_edge_ok : forall base g e g',
  NoDup (map n_id (g_nodes g)) -> (forall n, In n (e_att e) -> In n (g_nodes g)) ->
  add_t2_edge base g e = Ok g' ->
  exists e', t2_rel e e' /\ heid (g_edges g) (e_id e') = false /\
    g_nodes g' = g_nodes g /\ g_edges g' = g_edges g ++ [e'] /\ g_ext g' = g_ext g.
Proof.
  intros base g e g' N P H. unfold add_t2_edge in H. destruct (has_edge_id g (e_id e)).
  - apply bind_ok in H. destruct H as [e' [H1 H2]]. unfold mk_edge in H1.
    destruct (nats_eqb (el_type (e_lab e)) (map n_lab (e_att e))); simpl in H1; [|discriminate].
    injection H1 as <-. apply add_edge_ok in H2; [|exact N|exact P]. simpl in H2.
    destruct H2 as [A [B [C D]]].
    exists {| e_id := fresh_eid base g; e_lab := e_lab e; e_att := e_att e |}.
    split; [|split; [exact A|auto]].
    unfold t2_rel. split; [reflexivity|]. split; [reflexivity|]. right.
    exact (fresh_of_even base (g_edges g)).
  - apply add_edge_ok in H; [|exact N|exact P]. destruct H as [A [B [C D]]].
    exists e. split; [|auto]. unfold t2_rel. auto.
Qed.

Lemma add_t2_edges_ok : forall base es g g',
  NoDup (map n_id (g_nodes g)) ->
  (forall e n, In e es -> In n (e_att e) -> In n (g_nodes g)) ->
  mfold (add_t2_edge base) es g = Ok g' ->
  exists es', Forall2 t2_rel es es' /\
    g_nodes g' = g_nodes g /\ g_edges g' = g_edges g ++ es' /\ g_ext g' = g_ext g /\
    (NoDup (map e_id (g_edges g)) -> NoDup (map e_id (g_edges g'))).
Proof.
  induction es as [|e es IH]; simpl; intros g g' N P H.
  - injection H as <-. exists []. rewrite app_nil_r. split; [constructor|]. auto.
  - destruct (add_t2_edge base g e) as [g1|] eqn:E; [|discriminate].
    apply add_t2_edge_ok in E; [|exact N|intros n Hn; apply (P e n); auto].
    destruct E as [e' [R [E0 [E1 [E2 E3]]]]].
    apply IH in H; [|rewrite E1; exact N|intros x n Hx Hn; rewrite E1; apply (P x n); auto].
    destruct H as [es' [F [H1 [H2 [H3 H4]]]]].
    exists (e' :: es'). split; [constructor; assumption|].
    split; [rewrite H1, E1; reflexivity|].
    split; [rewrite H2, E2, <- app_assoc; reflexivity|].
    split; [rewrite H3, E3; reflexivity|].
    intros ND. apply H4. rewrite E2, map_app. simpl.
    apply NoDup_snoc; [exact ND | apply heid_false; exact E0].
Qed.

(** * the structure of a conjoined rule (whenever [conjoin_rules] returns) *)
Theorem conjoin_rules_exact : forall base r1 r2 m r,
  wf_rule r1 -> wf_rule r2 -> conjoinable_model r1 r2 = true ->
  conjoin_rules_model base r1 r2 m = Ok r ->
  exists es ts2',
    Forall2 (nt_edge_rel m) (combine (nt_sorted r1) (nt_sorted r2)) es /\
    StronglySorted le_id es /\
    Forall2 t2_rel (t_edges (r_rhs r2)) ts2' /\
    nt_get m (r_lhs r1, r_lhs r2) = Some (r_lhs r) /\
    g_nodes (r_rhs r) = g_nodes (r_rhs r1) /\
    g_edges (r_rhs r) = es ++ t_edges (r_rhs r1) ++ ts2' /\
    g_ext (r_rhs r) = g_ext (r_rhs r1) /\
    wf_rule r.
Proof.
  intros base r1 r2 m r W1 W2 C H. unfold conjoin_rules_model in H.
  destruct (nt_get m (r_lhs r1, r_lhs r2)) as [L|] eqn:GL; [|discriminate].
  apply bind_ok in H. destruct H as [g0 [H0 H]].
  apply bind_ok in H. destruct H as [g1 [H1 H]].
  apply bind_ok in H. destruct H as [g2 [H2 H]].
  apply bind_ok in H. destruct H as [g3 [H3 H]].
  apply bind_ok in H. destruct H as [g4 [H4 H]].
  destruct W1 as [W1a W1b [W1n W1e W1x W1t W1y]]. destruct W2 as [W2a W2b [W2n W2e W2x W2t W2y]].
  apply conjoinable_spec in C. destruct C as [Cn [Cs Cx]].
  apply add_nodes_ok in H0. unfold empty_graph in H0. simpl in H0. destruct H0 as [A0 [B0 C0]].
  apply set_ext_ok in H1; [|rewrite A0; exact W1n|rewrite A0; exact W1x].
  destruct H1 as [A1 [B1 C1]].
  fold (nt_sorted r1) in H2. fold (nt_sorted r2) in H2.
  apply conj_nt_edges_ok in H2; [|rewrite A1, A0; exact W1n|].
  2:{ intros [a b] n Hp Hn. simpl in Hn. rewrite A1, A0. apply in_combine_l in Hp.
      apply (proj1 (sort_edges_in _ _)) in Hp. apply nt_edges_in in Hp. destruct Hp as [Hp _].
      apply (W1t a n); assumption. }
  destruct H2 as [es [F [G [A2 [B2 [C2 D2]]]]]].
  apply add_edges_ok in H3; [|rewrite A2, A1, A0; exact W1n|].
  2:{ intros e n He Hn. rewrite A2, A1, A0. apply t_edges_in in He. destruct He as [He _].
      apply (W1t e n); assumption. }
  destruct H3 as [A3 [B3 [C3 D3]]].
  apply add_t2_edges_ok in H4; [|rewrite A3, A2, A1, A0; exact W1n|].
  2:{ intros e n He Hn. rewrite A3, A2, A1, A0. apply t_edges_in in He. destruct He as [He _].
      apply (proj2 (Cn n)). apply (W2t e n); assumption. }
  destruct H4 as [ts2' [F2 [A4 [B4 [C4 D4]]]]].
  unfold mk_rule in H. destruct (el_term L) eqn:TL; [discriminate|].
  destruct (nats_eqb (el_type L) (map n_lab (g_ext g4))) eqn:TT; simpl in H; [|discriminate].
  injection H as <-. simpl. apply nats_eqb_eq in TT.
  assert (EN : g_nodes g4 = g_nodes (r_rhs r1)) by (rewrite A4, A3, A2, A1, A0; reflexivity).
  assert (EE : g_edges g4 = es ++ t_edges (r_rhs r1) ++ ts2')
    by (rewrite B4, B3, B2, B1, B0, <- app_assoc; reflexivity).
  assert (EX : g_ext g4 = g_ext (r_rhs r1)) by (rewrite C4, C3, C2, C1; reflexivity).
  exists es, ts2'. split; [eapply built_rel; exact F|].
  split. { eapply built_sorted; [exact F|]. apply combine_sorted_fst. apply sort_edges_sorted. }
  split; [exact F2|].
  split; [reflexivity|]. split; [exact EN|]. split; [exact EE|]. split; [exact EX|].
  pose proof (built_rel _ _ _ _ _ F) as FR.
  constructor; simpl; [exact TL | exact TT |].
  constructor.
  - rewrite EN. exact W1n.
  - apply D4. apply D3. apply D2. rewrite B1, B0. constructor.
  - rewrite EX, EN. exact W1x.
  - rewrite EN, EE. intros e n He Hn. rewrite !in_app_iff in He. destruct He as [He|[He|He]].
    + destruct (Forall2_in_r _ _ _ _ FR He) as [[a b] [Hp [_ [Pa _]]]]. simpl in Pa. rewrite Pa in Hn.
      apply in_combine_l in Hp.
      apply (proj1 (sort_edges_in _ _)) in Hp. apply nt_edges_in in Hp. destruct Hp as [Hp _].
      apply (W1t a n); assumption.
    + apply t_edges_in in He. destruct He as [He _]. apply (W1t e n); assumption.
    + destruct (Forall2_in_r _ _ _ _ F2 He) as [x [Hx [_ [Pa _]]]]. rewrite Pa in Hn.
      apply t_edges_in in Hx. destruct Hx as [Hx _]. apply (proj2 (Cn n)). apply (W2t x n); assumption.
  - rewrite EE. intros e He. rewrite !in_app_iff in He. destruct He as [He|[He|He]].
    + rewrite Forall_forall in G. apply (G e He).
    + apply t_edges_in in He. destruct He as [He _]. apply W1y. exact He.
    + destruct (Forall2_in_r _ _ _ _ F2 He) as [x [Hx [Pl [Pa _]]]]. rewrite Pl, Pa.
      apply t_edges_in in Hx. destruct Hx as [Hx _]. apply W2y. exact Hx.
Qed.

(** * C17_rule: the specification of a conjoined rule *)
(** how the terminal edges of the pair reappear: those of rule 1 unchanged, those of rule 2
    unchanged or re-created under an implicit id *)
Definition t_edge_rel (x : bool * edge) (e : edge) : Prop :=
  if fst x then e = snd x else t2_rel (snd x) e.

Definition conj_rule_spec (r1 r2 : rule) (m : ntmap) (r : rule) : Prop :=
  nt_get m (r_lhs r1, r_lhs r2) = Some (r_lhs r) /\
  (* the nodes and externals of the pair *)
  (forall n, In n (g_nodes (r_rhs r)) <-> In n (g_nodes (r_rhs r1))) /\
  (forall n, In n (g_nodes (r_rhs r)) <-> In n (g_nodes (r_rhs r2))) /\
  g_ext (r_rhs r) = g_ext (r_rhs r1) /\
  map n_id (g_ext (r_rhs r)) = map n_id (g_ext (r_rhs r2)) /\
  (* one nonterminal edge per shared edge, with the paired label and the shared attachment; the
     shared edges are the pairs of the id-sorted nonterminal edges ([shared_pairs]) *)
  (exists ps, Permutation ps (combine (nt_sorted r1) (nt_sorted r2)) /\
              Forall2 (nt_edge_rel m) ps (nt_edges (r_rhs r))) /\
  (* the terminal edges of both *)
  (exists ts, Permutation ts (t_todo r1 r2) /\ Forall2 t_edge_rel ts (t_edges (r_rhs r))) /\
  (* a well-typed rule (ids unique, attachments inside, labels typed, lhs typed like ext) *)
  wf_rule r.

Lemma filter_all {A} (f : A -> bool) : forall l, (forall x, In x l -> f x = true) -> filter f l = l.
Proof.
  induction l as [|a l IH]; simpl; intros H; [reflexivity|].
  rewrite (H a (or_introl eq_refl)). f_equal. apply IH. intros. apply H. right. assumption.
Qed.
Lemma filter_none {A} (f : A -> bool) : forall l, (forall x, In x l -> f x = false) -> filter f l = [].
Proof.
  induction l as [|a l IH]; simpl; intros H; [reflexivity|].
  rewrite (H a (or_introl eq_refl)). apply IH. intros. apply H. right. assumption.
Qed.

Lemma NoDup_map_filter {A B} (f : A -> B) (p : A -> bool) : forall l,
  NoDup (map f l) -> NoDup (map f (filter p l)).
Proof.
  induction l as [|a l IH]; simpl; intros H; [constructor|].
  inversion H as [|? ? H1 H2]; subst. destruct (p a); simpl; [|apply IH; exact H2].
  constructor; [|apply IH; exact H2]. intros Hin. apply H1.
  apply in_map_iff in Hin. destruct Hin as [x [E Hx]]. apply filter_In in Hx.
  rewrite <- E. apply in_map. apply Hx.
Qed.

(** the values of nt_map are nonterminal labels *)
Definition nt_values (m : ntmap) : Prop := forall k v, nt_get m k = Some v -> el_term v = false.

(** the values of nt_map are nonterminal labels *)
Lemma Forall2_map_l {A B C} (P : B -> C -> Prop) (f : A -> B) : forall l l',
  Forall2 (fun a c => P (f a) c) l l' -> Forall2 P (map f l) l'.
Proof. induction 1; simpl; constructor; assumption. Qed.

Lemma Forall2_app_intro {A B} (P : A -> B -> Prop) : forall l1 l1' l2 l2',
  Forall2 P l1 l1' -> Forall2 P l2 l2' -> Forall2 P (l1 ++ l2) (l1' ++ l2').
Proof. induction 1; simpl; intros; [assumption | constructor; auto]. Qed.

Lemma Forall2_refl_map {A B} (P : B -> A -> Prop) (f : A -> B) : forall l,
  (forall a, P (f a) a) -> Forall2 P (map f l) l.
Proof. induction l; simpl; intros; constructor; auto. Qed.

(** the nonterminal / terminal edges of a conjoined rule *)
Lemma conj_edges_split : forall m ps es ts,
  nt_values m -> Forall2 (nt_edge_rel m) ps es ->
  (forall e, In e ts -> el_term (e_lab e) = true) ->
  filter (fun e => is_nt (e_lab e)) (es ++ ts) = es /\ filter (fun e => el_term (e_lab e)) (es ++ ts) = ts.
Proof.
  intros m ps es ts V F T.
  assert (N : forall e, In e es -> el_term (e_lab e) = false).
  { intros e He. destruct (Forall2_in_r _ _ _ _ F He) as [p [_ [G _]]]. apply (V _ _ G). }
  rewrite !filter_app. split.
  - rewrite (filter_all _ es), (filter_none _ ts), app_nil_r; auto.
    + intros e He. unfold is_nt. rewrite (T e He). reflexivity.
    + intros e He. unfold is_nt. rewrite (N e He). reflexivity.
  - rewrite (filter_none _ es), (filter_all _ ts); auto.
Qed.

Lemma conj_rule_edges : forall base r1 r2 m r,
  wf_rule r1 -> wf_rule r2 -> conjoinable_model r1 r2 = true -> nt_values m ->
  conjoin_rules_model base r1 r2 m = Ok r ->
  exists es ts2',
    Forall2 (nt_edge_rel m) (combine (nt_sorted r1) (nt_sorted r2)) es /\ StronglySorted le_id es /\
    Forall2 t2_rel (t_edges (r_rhs r2)) ts2' /\
    nt_edges (r_rhs r) = es /\ t_edges (r_rhs r) = t_edges (r_rhs r1) ++ ts2' /\
    nt_get m (r_lhs r1, r_lhs r2) = Some (r_lhs r).
Proof.
  intros base r1 r2 m r W1 W2 C V H.
  destruct (conjoin_rules_exact _ _ _ _ _ W1 W2 C H) as [es [ts2' [F [S [F2 [GL [EN [EE [EX WR]]]]]]]]].
  assert (T : forall e, In e (t_edges (r_rhs r1) ++ ts2') -> el_term (e_lab e) = true).
  { intros e He. apply in_app_iff in He. destruct He as [He|He].
    - apply t_edges_in in He. apply He.
    - destruct (Forall2_in_r _ _ _ _ F2 He) as [x [Hx [Pl _]]]. rewrite Pl. apply t_edges_in in Hx. apply Hx. }
  destruct (conj_edges_split m _ es _ V F T) as [ENT ET].
  exists es, ts2'. split; [exact F|]. split; [exact S|]. split; [exact F2|].
  split; [unfold nt_edges; rewrite EE; exact ENT|].
  split; [unfold t_edges at 1; rewrite EE; exact ET | exact GL].
Qed.

(** C17_rule for the model *)
Theorem conjoin_rules_spec : forall base r1 r2 m r,
  wf_rule r1 -> wf_rule r2 -> conjoinable_model r1 r2 = true -> nt_values m ->
  conjoin_rules_model base r1 r2 m = Ok r -> conj_rule_spec r1 r2 m r.
Proof.
  intros base r1 r2 m r W1 W2 C V H.
  destruct (conjoin_rules_exact _ _ _ _ _ W1 W2 C H) as [es0 [ts0 [_ [_ [_ [_ [EN [_ [EX WR]]]]]]]]].
  destruct (conj_rule_edges _ _ _ _ _ W1 W2 C V H) as [es [ts2' [F [_ [F2 [NT [TE GL]]]]]]].
  pose proof (proj1 (conjoinable_spec _ _) C) as [Cn [Cs Cx]].
  unfold conj_rule_spec. rewrite NT, TE, EN, EX.
  split; [exact GL|]. split; [tauto|]. split; [exact Cn|].
  split; [reflexivity|]. split; [exact Cx|]. split; [|split; [|exact WR]].
  - exists (combine (nt_sorted r1) (nt_sorted r2)). split; [reflexivity | exact F].
  - exists (t_todo r1 r2). split; [reflexivity|]. unfold t_todo.
    apply Forall2_app_intro.
    + apply Forall2_refl_map. intros a. reflexivity.
    + apply Forall2_map_l. exact F2.
Qed.

(** which edges are "shared": the pairs of the id-sorted nonterminal edges of two conjoinable
    rules are exactly the pairs of nonterminal edges with the same id, and they have the same
    attachment ids *)
Theorem shared_pairs : forall r1 r2,
  wf_rule r1 -> wf_rule r2 -> conjoinable_model r1 r2 = true ->
  length (nt_sorted r1) = length (nt_sorted r2) /\
  (forall e1 e2, In (e1, e2) (combine (nt_sorted r1) (nt_sorted r2)) <->
     In e1 (nt_edges (r_rhs r1)) /\ In e2 (nt_edges (r_rhs r2)) /\ e_id e1 = e_id e2) /\
  (forall e1 e2, In (e1, e2) (combine (nt_sorted r1) (nt_sorted r2)) ->
     map n_id (e_att e1) = map n_id (e_att e2)).
Proof.
  intros r1 r2 W1 W2 C. pose proof (proj1 (conjoinable_spec _ _) C) as [_ [Cs _]].
  assert (N1 : NoDup (map e_id (nt_edges (r_rhs r1)))) by (apply NoDup_map_filter; apply W1).
  assert (N2 : NoDup (map e_id (nt_edges (r_rhs r2)))) by (apply NoDup_map_filter; apply W2).
  assert (AL : map sigf (nt_sorted r1) = map sigf (nt_sorted r2)).
  { unfold nt_sorted. apply sorted_sigs_eq; [exact N1 | exact N2 | exact Cs]. }
  split; [|split].
  - apply (f_equal (@length _)) in AL. rewrite !map_length in AL. exact AL.
  - intros e1 e2. split.
    + intros H. pose proof (combine_aligned_sig _ _ _ _ AL H) as SG. unfold sigf in SG.
      injection SG as SG1 SG2.
      split; [apply (proj1 (sort_edges_in _ _)); apply in_combine_l in H; exact H|].
      split; [apply (proj1 (sort_edges_in _ _)); apply in_combine_r in H; exact H | exact SG1].
    + intros [H1 [H2 E]]. apply combine_aligned_in; auto.
      * unfold nt_sorted. apply sort_edges_nodup. exact N2.
      * apply (proj2 (sort_edges_in _ _)). exact H1.
      * apply (proj2 (sort_edges_in _ _)). exact H2.
  - intros e1 e2 H. pose proof (combine_aligned_sig _ _ _ _ AL H) as SG. unfold sigf in SG.
    injection SG as SG1 SG2. exact SG2.
Qed.

(** the same-length fact used by the derivation bijection *)
Lemma conjoinable_nt_length : forall r1 r2,
  wf_rule r1 -> wf_rule r2 -> conjoinable_model r1 r2 = true ->
  length (nt_sorted r1) = length (nt_sorted r2).
Proof.
  intros r1 r2 W1 W2 C. pose proof (proj1 (conjoinable_spec _ _) C) as [_ [Cs _]].
  assert (N1 : NoDup (map e_id (nt_edges (r_rhs r1)))) by (apply NoDup_map_filter; apply W1).
  assert (N2 : NoDup (map e_id (nt_edges (r_rhs r2)))) by (apply NoDup_map_filter; apply W2).
  assert (AL : map sigf (nt_sorted r1) = map sigf (nt_sorted r2)).
  { unfold nt_sorted. apply sorted_sigs_eq; [exact N1 | exact N2 | exact Cs]. }
  apply (f_equal (@length _)) in AL. rewrite !map_length in AL. exact AL.
Qed.

(** the id-sorted nonterminal edges of the conjunction are the pairs of the id-sorted nonterminal
    edges of the two rules *)
Lemma conj_nt_sorted : forall base r1 r2 m r,
  wf_rule r1 -> wf_rule r2 -> conjoinable_model r1 r2 = true -> nt_values m ->
  conjoin_rules_model base r1 r2 m = Ok r ->
  Forall2 (nt_edge_rel m) (combine (nt_sorted r1) (nt_sorted r2)) (nt_sorted r) /\
  nt_get m (r_lhs r1, r_lhs r2) = Some (r_lhs r).
Proof.
  intros base r1 r2 m r W1 W2 C V H.
  destruct (conj_rule_edges _ _ _ _ _ W1 W2 C V H) as [es [ts2' [F [S [_ [NT [_ GL]]]]]]].
  split; [|exact GL]. unfold nt_sorted at 3. rewrite NT.
  rewrite sort_edges_sorted_id; [exact F | exact S].
Qed.
