(** C17, rules: the conjunction of two conjoinable rules has the nodes and externals of the
    pair, one nonterminal edge per shared edge (paired label, shared attachment) and the terminal
    edges of both, and is a well-typed rule. *)
From Coq Require Import List Arith Bool PeanoNat Lia Permutation Sorted.
Import ListNotations.
Require Import Fggs.Model.Conj Fggs.Proofs.ConjBase Fggs.Proofs.ConjSort.

(** * small list facts *)
Lemma NoDup_snoc {A} : forall (l : list A) x, NoDup l -> ~ In x l -> NoDup (l ++ [x]).
Proof.
  induction l as [|a l IH]; simpl; intros x H N.
  - constructor; [intros [] | constructor].
  - inversion H as [|? ? H1 H2]; subst. constructor.
    + rewrite in_app_iff. intros [Hin|[->|[]]]; [contradiction | apply N; left; reflexivity].
    + apply IH; [exact H2 | intros Hin; apply N; right; exact Hin].
Qed.

Lemma NoDup_same_length {A} : forall l1 l2 : list A,
  NoDup l1 -> NoDup l2 -> (forall x, In x l1 <-> In x l2) -> length l1 = length l2.
Proof.
  intros l1 l2 N1 N2 H. apply Nat.le_antisymm; apply NoDup_incl_length; auto; intros x Hx; apply H; exact Hx.
Qed.

Lemma NoDup_map_fst {A B} (f : A -> B) : forall l, NoDup (map f l) -> NoDup l.
Proof.
  induction l as [|a l IH]; simpl; intros H; [constructor|].
  inversion H as [|? ? H1 H2]; subst. constructor; [|apply IH; exact H2].
  intros Hin. apply H1. apply in_map. exact Hin.
Qed.

(** * the graph builder *)
Definition hid (ns : list node) (i : nat) : bool := existsb (fun m => Nat.eqb (n_id m) i) ns.

Lemma hid_in : forall ns n, In n ns -> hid ns (n_id n) = true.
Proof. intros. unfold hid. apply existsb_exists. exists n. split; [assumption | apply Nat.eqb_refl]. Qed.
Lemma hid_false : forall ns i, hid ns i = false <-> ~ In i (map n_id ns).
Proof.
  intros. unfold hid. split.
  - intros H Hin. apply in_map_iff in Hin. destruct Hin as [n [E Hn]].
    assert (X : existsb (fun m => Nat.eqb (n_id m) i) ns = true).
    { apply existsb_exists. exists n. split; [exact Hn | apply Nat.eqb_eq; exact E]. }
    congruence.
  - intros N. destruct (existsb (fun m => Nat.eqb (n_id m) i) ns) eqn:E; [|reflexivity].
    apply existsb_exists in E. destruct E as [n [Hn E]]. apply Nat.eqb_eq in E.
    exfalso. apply N. apply in_map_iff. exists n. auto.
Qed.

Definition heid (es : list edge) (i : nat) : bool := existsb (fun e => Nat.eqb (e_id e) i) es.
Lemma heid_false : forall es i, heid es i = false <-> ~ In i (map e_id es).
Proof.
  intros. unfold heid. split.
  - intros H Hin. apply in_map_iff in Hin. destruct Hin as [n [E Hn]].
    assert (X : existsb (fun e => Nat.eqb (e_id e) i) es = true).
    { apply existsb_exists. exists n. split; [exact Hn | apply Nat.eqb_eq; exact E]. }
    congruence.
  - intros N. destruct (existsb (fun e => Nat.eqb (e_id e) i) es) eqn:E; [|reflexivity].
    apply existsb_exists in E. destruct E as [n [Hn E]]. apply Nat.eqb_eq in E.
    exfalso. apply N. apply in_map_iff. exists n. auto.
Qed.

Lemma add_node_ok : forall g n g', add_node g n = Ok g' ->
  hid (g_nodes g) (n_id n) = false /\
  g_nodes g' = g_nodes g ++ [n] /\ g_edges g' = g_edges g /\ g_ext g' = g_ext g.
Proof.
  unfold add_node, has_node_id, hid. intros g n g' H.
  destruct (existsb (fun m => Nat.eqb (n_id m) (n_id n)) (g_nodes g)); [discriminate|].
  injection H as <-. simpl. auto.
Qed.

Lemma add_nodes_ok : forall l g g', mfold add_node l g = Ok g' ->
  g_nodes g' = g_nodes g ++ l /\ g_edges g' = g_edges g /\ g_ext g' = g_ext g.
Proof.
  induction l as [|a l IH]; simpl; intros g g' H.
  - injection H as <-. rewrite app_nil_r. auto.
  - destruct (add_node g a) as [g1|] eqn:E; [|discriminate].
    apply add_node_ok in E. destruct E as [_ [E1 [E2 E3]]].
    apply IH in H. destruct H as [H1 [H2 H3]]. rewrite H1, H2, H3, E1, E2, E3, <- app_assoc. auto.
Qed.

Lemma add_missing_present : forall ns g,
  (forall n, In n ns -> hid (g_nodes g) (n_id n) = true) -> mfold add_missing ns g = Ok g.
Proof.
  intros ns g H. apply mfold_id. intros x Hx. unfold add_missing, has_node_id.
  specialize (H x Hx). unfold hid in H. rewrite H. reflexivity.
Qed.

Lemma set_ext_ok : forall g ns g',
  (forall n, In n ns -> hid (g_nodes g) (n_id n) = true) -> set_ext g ns = Ok g' ->
  g_nodes g' = g_nodes g /\ g_edges g' = g_edges g /\ g_ext g' = ns.
Proof.
  intros g ns g' P H. unfold set_ext in H. rewrite (add_missing_present ns g P) in H.
  simpl in H. injection H as <-. simpl. auto.
Qed.

Lemma add_edge_ok : forall g e g',
  (forall n, In n (e_att e) -> hid (g_nodes g) (n_id n) = true) -> add_edge g e = Ok g' ->
  heid (g_edges g) (e_id e) = false /\
  g_nodes g' = g_nodes g /\ g_edges g' = g_edges g ++ [e] /\ g_ext g' = g_ext g.
Proof.
  intros g e g' P H. unfold add_edge, has_edge_id in H. fold (heid (g_edges g) (e_id e)) in H.
  destruct (heid (g_edges g) (e_id e)); [discriminate|].
  rewrite (add_missing_present _ g P) in H. simpl in H. injection H as <-. simpl. auto.
Qed.

Lemma add_edges_ok : forall es g g',
  (forall e n, In e es -> In n (e_att e) -> hid (g_nodes g) (n_id n) = true) ->
  mfold add_edge es g = Ok g' ->
  g_nodes g' = g_nodes g /\ g_edges g' = g_edges g ++ es /\ g_ext g' = g_ext g /\
  (NoDup (map e_id (g_edges g)) -> NoDup (map e_id (g_edges g'))).
Proof.
  induction es as [|e es IH]; simpl; intros g g' P H.
  - injection H as <-. rewrite app_nil_r. auto.
  - destruct (add_edge g e) as [g1|] eqn:E; [|discriminate].
    apply add_edge_ok in E; [|intros n Hn; apply (P e n); auto].
    destruct E as [E0 [E1 [E2 E3]]].
    apply IH in H; [|intros e' n He Hn; rewrite E1; apply (P e' n); auto].
    destruct H as [H1 [H2 [H3 H4]]].
    split; [rewrite H1, E1; reflexivity|].
    split; [rewrite H2, E2, <- app_assoc; reflexivity|].
    split; [rewrite H3, E3; reflexivity|].
    intros ND. apply H4. rewrite E2, map_app. simpl.
    apply NoDup_snoc; [exact ND | apply heid_false; exact E0].
Qed.

(** * well-formedness as propositions *)
Record wf_graph (g : graph) : Prop := {
  wg_nodes : NoDup (map n_id (g_nodes g));
  wg_edges : NoDup (map e_id (g_edges g));
  wg_ext : forall n, In n (g_ext g) -> In n (g_nodes g);
  wg_att : forall e n, In e (g_edges g) -> In n (e_att e) -> In n (g_nodes g);
  wg_type : forall e, In e (g_edges g) -> el_type (e_lab e) = map n_lab (e_att e) }.

Lemma wf_graph_b_spec : forall g, wf_graph_b g = true <-> wf_graph g.
Proof.
  intros g. unfold wf_graph_b. rewrite !andb_true_iff, !nodup_nat_NoDup, !forallb_forall. split.
  - intros [[[H1 H2] H3] H4]. constructor; auto.
    + intros n Hn. apply mem_node_In. apply H3. exact Hn.
    + intros e n He Hn. specialize (H4 e He). apply andb_true_iff in H4. destruct H4 as [H4 _].
      rewrite forallb_forall in H4. apply mem_node_In. apply H4. exact Hn.
    + intros e He. specialize (H4 e He). apply andb_true_iff in H4. destruct H4 as [_ H4].
      apply nats_eqb_eq. exact H4.
  - intros [W1 W2 W3 W4 W5]. split; [split; [split|]|]; auto.
    + intros n Hn. apply mem_node_In. auto.
    + intros e He. apply andb_true_iff. split.
      * apply forallb_forall. intros n Hn. apply mem_node_In. eauto.
      * apply nats_eqb_eq. auto.
Qed.

Record wf_rule (r : rule) : Prop := {
  wr_nt : el_term (r_lhs r) = false;
  wr_type : el_type (r_lhs r) = map n_lab (g_ext (r_rhs r));
  wr_graph : wf_graph (r_rhs r) }.

Lemma wf_rule_b_spec : forall r, wf_rule_b r = true <-> wf_rule r.
Proof.
  intros r. unfold wf_rule_b, is_nt. rewrite !andb_true_iff, negb_true_iff, nats_eqb_eq, wf_graph_b_spec.
  split.
  - intros [[H1 H2] H3]. constructor; assumption.
  - intros [H1 H2 H3]. auto.
Qed.

Lemma conjoinable_spec : forall r1 r2, conjoinable_model r1 r2 = true <->
  (forall n, In n (g_nodes (r_rhs r1)) <-> In n (g_nodes (r_rhs r2))) /\
  (forall s, In s (nt_sig (r_rhs r1)) <-> In s (nt_sig (r_rhs r2))) /\
  map n_id (g_ext (r_rhs r1)) = map n_id (g_ext (r_rhs r2)).
Proof.
  intros r1 r2. unfold conjoinable_model.
  rewrite <- (set_eqb_spec node_eqb node_eqb_eq), <- (set_eqb_spec sig_eqb sig_eqb_eq), <- nats_eqb_eq.
  destruct (set_eqb node_eqb _ _); simpl; [|intuition discriminate].
  destruct (set_eqb sig_eqb _ _); simpl; [|intuition discriminate].
  destruct (nats_eqb _ _); simpl; intuition discriminate.
Qed.

Lemma nt_edges_in : forall g e, In e (nt_edges g) <-> In e (g_edges g) /\ el_term (e_lab e) = false.
Proof. intros. unfold nt_edges. rewrite filter_In. unfold is_nt. rewrite negb_true_iff. reflexivity. Qed.
Lemma t_edges_in : forall g e, In e (t_edges g) <-> In e (g_edges g) /\ el_term (e_lab e) = true.
Proof. intros. unfold t_edges. rewrite filter_In. reflexivity. Qed.

Lemma sorted_by_id_ok : forall l s, sorted_by_id l = Ok s -> s = sort_edges l /\ mixed_ids l = false.
Proof.
  unfold sorted_by_id. intros l s H. destruct (mixed_ids l); [discriminate|]. injection H as <-. auto.
Qed.

(** * the nonterminal edges of the conjunction *)
Definition paired_edge (m : ntmap) (p : edge * edge) : option edge :=
  match nt_get m (e_lab (fst p), e_lab (snd p)) with
  | Some l => Some {| e_id := e_id (fst p); e_lab := l; e_att := e_att (fst p) |}
  | None => None
  end.

Lemma conj_nt_edge_ok : forall m g p g',
  (forall n, In n (e_att (fst p)) -> hid (g_nodes g) (n_id n) = true) ->
  conj_nt_edge m g p = Ok g' ->
  exists e, paired_edge m p = Some e /\
    heid (g_edges g) (e_id e) = false /\ is_int_id (e_id e) = false /\
    el_type (e_lab e) = map n_lab (e_att e) /\
    g_nodes g' = g_nodes g /\ g_edges g' = g_edges g ++ [e] /\ g_ext g' = g_ext g.
Proof.
  intros m g p g' P H. unfold conj_nt_edge in H. unfold paired_edge.
  destruct (nt_get m (e_lab (fst p), e_lab (snd p))) as [l|]; [|discriminate].
  apply bind_ok in H. destruct H as [e [H1 H2]]. unfold mk_edge in H1.
  destruct (is_int_id (e_id (fst p))) eqn:I; [discriminate|].
  destruct (nats_eqb (el_type l) (map n_lab (e_att (fst p)))) eqn:T; simpl in H1; [|discriminate].
  injection H1 as <-. apply nats_eqb_eq in T.
  apply add_edge_ok in H2; [|exact P]. simpl in H2. destruct H2 as [A [B [C D]]].
  eexists. split; [reflexivity|]. simpl. auto 10.
Qed.

Lemma conj_nt_edges_ok : forall m ps g g',
  (forall p n, In p ps -> In n (e_att (fst p)) -> hid (g_nodes g) (n_id n) = true) ->
  mfold (conj_nt_edge m) ps g = Ok g' ->
  exists es, Forall2 (fun p e => paired_edge m p = Some e) ps es /\
    Forall (fun e => is_int_id (e_id e) = false /\ el_type (e_lab e) = map n_lab (e_att e)) es /\
    g_nodes g' = g_nodes g /\ g_edges g' = g_edges g ++ es /\ g_ext g' = g_ext g /\
    (NoDup (map e_id (g_edges g)) -> NoDup (map e_id (g_edges g'))).
Proof.
  induction ps as [|p ps IH]; simpl; intros g g' P H.
  - injection H as <-. exists []. rewrite app_nil_r.
    split; [constructor|]. split; [constructor|]. auto.
  - destruct (conj_nt_edge m g p) as [g1|] eqn:E; [|discriminate].
    apply conj_nt_edge_ok in E; [|intros n Hn; apply (P p n); auto].
    destruct E as [e [E1 [E2 [E3 [E4 [E5 [E6 E7]]]]]]].
    apply IH in H; [|intros p' n Hp Hn; rewrite E5; apply (P p' n); auto].
    destruct H as [es [F [G [H1 [H2 [H3 H4]]]]]].
    exists (e :: es). split; [constructor; assumption|]. split; [constructor; auto|].
    split; [rewrite H1, E5; reflexivity|].
    split; [rewrite H2, E6, <- app_assoc; reflexivity|].
    split; [rewrite H3, E7; reflexivity|].
    intros ND. apply H4. rewrite E6, map_app. simpl.
    apply NoDup_snoc; [exact ND | apply heid_false; exact E2].
Qed.

(** * the structure of a conjoined rule (whenever [conjoin_rules] returns) *)
Theorem conjoin_rules_exact : forall r1 r2 m r,
  wf_rule r1 -> wf_rule r2 -> conjoinable_model r1 r2 = true ->
  conjoin_rules_model r1 r2 m = Ok r ->
  exists es,
    Forall2 (fun p e => paired_edge m p = Some e) (combine (nt_sorted r1) (nt_sorted r2)) es /\
    Forall (fun e => is_int_id (e_id e) = false) es /\
    nt_get m (r_lhs r1, r_lhs r2) = Some (r_lhs r) /\
    g_nodes (r_rhs r) = g_nodes (r_rhs r1) /\
    g_edges (r_rhs r) = es ++ t_edges (r_rhs r1) ++ t_edges (r_rhs r2) /\
    g_ext (r_rhs r) = g_ext (r_rhs r1) /\
    wf_rule r.
Proof.
  intros r1 r2 m r W1 W2 C H. unfold conjoin_rules_model in H.
  destruct (nt_get m (r_lhs r1, r_lhs r2)) as [L|] eqn:GL; [|discriminate].
  apply bind_ok in H. destruct H as [g0 [H0 H]].
  apply bind_ok in H. destruct H as [g1 [H1 H]].
  apply bind_ok in H. destruct H as [nts1 [S1 H]].
  apply bind_ok in H. destruct H as [nts2 [S2 H]].
  apply bind_ok in H. destruct H as [g2 [H2 H]].
  apply bind_ok in H. destruct H as [g3 [H3 H]].
  destruct W1 as [W1a W1b [W1n W1e W1x W1t W1y]]. destruct W2 as [W2a W2b [W2n W2e W2x W2t W2y]].
  apply conjoinable_spec in C. destruct C as [Cn [Cs Cx]].
  apply add_nodes_ok in H0. unfold empty_graph in H0. simpl in H0. destruct H0 as [A0 [B0 C0]].
  assert (P : forall n, In n (g_nodes (r_rhs r1)) -> hid (g_nodes (r_rhs r1)) (n_id n) = true)
    by (intros; apply hid_in; assumption).
  apply set_ext_ok in H1; [|rewrite A0; intros n Hn; apply P; apply W1x; exact Hn].
  destruct H1 as [A1 [B1 C1]].
  apply sorted_by_id_ok in S1. destruct S1 as [-> _].
  apply sorted_by_id_ok in S2. destruct S2 as [-> _].
  apply conj_nt_edges_ok in H2.
  2:{ intros [a b] n Hp Hn. simpl in Hn. rewrite A1, A0. apply P. apply in_combine_l in Hp.
      apply (proj1 (sort_edges_in _ _)) in Hp. apply nt_edges_in in Hp. destruct Hp as [Hp _].
      apply (W1t a n); assumption. }
  destruct H2 as [es [F [G [A2 [B2 [C2 D2]]]]]].
  apply add_edges_ok in H3.
  2:{ intros e n He Hn. rewrite A2, A1, A0. apply P. apply in_app_iff in He.
      destruct He as [He|He]; apply t_edges_in in He; destruct He as [He _].
      - apply (W1t e n); assumption.
      - apply (proj2 (Cn n)). apply (W2t e n); assumption. }
  destruct H3 as [A3 [B3 [C3 D3]]].
  unfold mk_rule in H. destruct (el_term L) eqn:TL; [discriminate|].
  destruct (nats_eqb (el_type L) (map n_lab (g_ext g3))) eqn:TT; simpl in H; [|discriminate].
  injection H as <-. simpl. apply nats_eqb_eq in TT.
  assert (EN : g_nodes g3 = g_nodes (r_rhs r1)) by (rewrite A3, A2, A1, A0; reflexivity).
  assert (EE : g_edges g3 = es ++ t_edges (r_rhs r1) ++ t_edges (r_rhs r2))
    by (rewrite B3, B2, B1, B0; reflexivity).
  assert (EX : g_ext g3 = g_ext (r_rhs r1)) by (rewrite C3, C2, C1; reflexivity).
  exists es. split; [exact F|].
  split; [eapply Forall_impl; [|exact G]; intros e [X _]; exact X|].
  split; [reflexivity|]. split; [exact EN|]. split; [exact EE|]. split; [exact EX|].
  constructor; simpl; [exact TL | exact TT |].
  constructor.
  - rewrite EN. exact W1n.
  - apply D3. apply D2. rewrite B1, B0. constructor.
  - rewrite EX, EN. exact W1x.
  - rewrite EN, EE. intros e n He Hn. rewrite !in_app_iff in He. destruct He as [He|[He|He]].
    + destruct (Forall2_in_r _ _ _ _ F He) as [[a b] [Hp Pp]]. unfold paired_edge in Pp. simpl in Pp.
      destruct (nt_get m (e_lab a, e_lab b)); [|discriminate]. injection Pp as <-.
      simpl in Hn. apply in_combine_l in Hp.
      apply (proj1 (sort_edges_in _ _)) in Hp. apply nt_edges_in in Hp. destruct Hp as [Hp _].
      apply (W1t a n); assumption.
    + apply t_edges_in in He. destruct He as [He _]. apply (W1t e n); assumption.
    + apply t_edges_in in He. destruct He as [He _]. apply (proj2 (Cn n)). apply (W2t e n); assumption.
  - rewrite EE. intros e He. rewrite !in_app_iff in He. destruct He as [He|[He|He]].
    + rewrite Forall_forall in G. apply (G e He).
    + apply t_edges_in in He. destruct He as [He _]. apply W1y. exact He.
    + apply t_edges_in in He. destruct He as [He _]. apply W2y. exact He.
Qed.

(** * C17_rule: the specification of a conjoined rule *)
Definition conj_rule_spec (r1 r2 : rule) (m : ntmap) (r : rule) : Prop :=
  nt_get m (r_lhs r1, r_lhs r2) = Some (r_lhs r) /\
  (* the nodes and externals of the pair *)
  (forall n, In n (g_nodes (r_rhs r)) <-> In n (g_nodes (r_rhs r1))) /\
  (forall n, In n (g_nodes (r_rhs r)) <-> In n (g_nodes (r_rhs r2))) /\
  g_ext (r_rhs r) = g_ext (r_rhs r1) /\
  map n_id (g_ext (r_rhs r)) = map n_id (g_ext (r_rhs r2)) /\
  (* one nonterminal edge per shared edge, with the paired label and the shared attachment *)
  (forall e1 e2, In e1 (nt_edges (r_rhs r1)) -> In e2 (nt_edges (r_rhs r2)) -> e_id e1 = e_id e2 ->
     exists l, nt_get m (e_lab e1, e_lab e2) = Some l /\
               In {| e_id := e_id e1; e_lab := l; e_att := e_att e1 |} (nt_edges (r_rhs r))) /\
  (forall e, In e (nt_edges (r_rhs r)) ->
     exists e1 e2, In e1 (nt_edges (r_rhs r1)) /\ In e2 (nt_edges (r_rhs r2)) /\
       e_id e1 = e_id e /\ e_id e2 = e_id e /\ e_att e = e_att e1 /\
       map n_id (e_att e) = map n_id (e_att e2) /\
       nt_get m (e_lab e1, e_lab e2) = Some (e_lab e)) /\
  (* the terminal edges of both *)
  (forall e, In e (t_edges (r_rhs r)) <-> In e (t_edges (r_rhs r1)) \/ In e (t_edges (r_rhs r2))) /\
  (* a well-typed rule (ids unique, attachments inside, labels typed, lhs typed like ext) *)
  wf_rule r.

Lemma filter_all {A} (f : A -> bool) : forall l, (forall x, In x l -> f x = true) -> filter f l = l.
Proof.
  induction l as [|a l IH]; simpl; intros H; [reflexivity|].
  rewrite (H a (or_introl eq_refl)). f_equal. apply IH. intros. apply H. right. assumption.
Qed.
Lemma filter_none {A} (f : A -> bool) : forall l, (forall x, In x l -> f x = false) -> filter f l = [].
Proof.
  induction l as [|a l IH]; simpl; intros H; [reflexivity|].
  rewrite (H a (or_introl eq_refl)). apply IH. intros. apply H. right. assumption.
Qed.

Lemma NoDup_map_filter {A B} (f : A -> B) (p : A -> bool) : forall l,
  NoDup (map f l) -> NoDup (map f (filter p l)).
Proof.
  induction l as [|a l IH]; simpl; intros H; [constructor|].
  inversion H as [|? ? H1 H2]; subst. destruct (p a); simpl; [|apply IH; exact H2].
  constructor; [|apply IH; exact H2]. intros Hin. apply H1.
  apply in_map_iff in Hin. destruct Hin as [x [E Hx]]. apply filter_In in Hx.
  rewrite <- E. apply in_map. apply Hx.
Qed.

(** the values of nt_map are nonterminal labels *)
Definition nt_values (m : ntmap) : Prop := forall k v, nt_get m k = Some v -> el_term v = false.

(** the nonterminal / terminal edges of a conjoined rule *)
Lemma conj_edges_split : forall m ps es ts,
  nt_values m -> Forall2 (fun p e => paired_edge m p = Some e) ps es ->
  (forall e, In e ts -> el_term (e_lab e) = true) ->
  filter (fun e => is_nt (e_lab e)) (es ++ ts) = es /\ filter (fun e => el_term (e_lab e)) (es ++ ts) = ts.
Proof.
  intros m ps es ts V F T.
  assert (N : forall e, In e es -> el_term (e_lab e) = false).
  { intros e He. destruct (Forall2_in_r _ _ _ _ F He) as [p [_ Pp]]. unfold paired_edge in Pp.
    destruct (nt_get m (e_lab (fst p), e_lab (snd p))) as [l|] eqn:G; [|discriminate].
    injection Pp as <-. simpl. apply (V _ _ G). }
  rewrite !filter_app. split.
  - rewrite (filter_all _ es), (filter_none _ ts), app_nil_r; auto.
    + intros e He. unfold is_nt. rewrite (T e He). reflexivity.
    + intros e He. unfold is_nt. rewrite (N e He). reflexivity.
  - rewrite (filter_none _ es), (filter_all _ ts); auto.
Qed.

(** C17_rule for the model *)
Theorem conjoin_rules_spec : forall r1 r2 m r,
  wf_rule r1 -> wf_rule r2 -> conjoinable_model r1 r2 = true -> nt_values m ->
  conjoin_rules_model r1 r2 m = Ok r -> conj_rule_spec r1 r2 m r.
Proof.
  intros r1 r2 m r W1 W2 C V H.
  destruct (conjoin_rules_exact _ _ _ _ W1 W2 C H) as [es [F [_ [GL [EN [EE [EX WR]]]]]]].
  pose proof (proj1 (conjoinable_spec _ _) C) as [Cn [Cs Cx]].
  assert (T : forall e, In e (t_edges (r_rhs r1) ++ t_edges (r_rhs r2)) -> el_term (e_lab e) = true).
  { intros e He. apply in_app_iff in He. destruct He as [He|He]; apply t_edges_in in He; apply He. }
  destruct (conj_edges_split m _ es _ V F T) as [ENT ET].
  assert (NT : nt_edges (r_rhs r) = es) by (unfold nt_edges; rewrite EE; exact ENT).
  assert (TE : t_edges (r_rhs r) = t_edges (r_rhs r1) ++ t_edges (r_rhs r2))
    by (unfold t_edges at 1; rewrite EE; exact ET).
  assert (N1 : NoDup (map e_id (nt_edges (r_rhs r1)))) by (apply NoDup_map_filter; apply W1).
  assert (N2 : NoDup (map e_id (nt_edges (r_rhs r2)))) by (apply NoDup_map_filter; apply W2).
  assert (AL : map sigf (nt_sorted r1) = map sigf (nt_sorted r2)).
  { unfold nt_sorted. apply sorted_sigs_eq; [exact N1 | exact N2 | exact Cs]. }
  unfold conj_rule_spec. rewrite NT, TE, EN, EX.
  split; [exact GL|]. split; [tauto|]. split; [exact Cn|].
  split; [reflexivity|]. split; [exact Cx|]. split; [|split; [|split; [|exact WR]]].
  - intros e1 e2 H1 H2 Eid.
    assert (Hin : In (e1, e2) (combine (nt_sorted r1) (nt_sorted r2))).
    { apply combine_aligned_in; auto.
      - unfold nt_sorted. apply sort_edges_nodup. exact N2.
      - apply (proj2 (sort_edges_in _ _)). exact H1.
      - apply (proj2 (sort_edges_in _ _)). exact H2. }
    destruct (Forall2_in_l _ _ _ _ F Hin) as [e [He Pe]]. unfold paired_edge in Pe. simpl in Pe.
    destruct (nt_get m (e_lab e1, e_lab e2)) as [l|]; [|discriminate]. injection Pe as <-.
    exists l. split; [reflexivity | exact He].
  - intros e He. destruct (Forall2_in_r _ _ _ _ F He) as [[a b] [Hp Pp]].
    pose proof (combine_aligned_sig _ _ _ _ AL Hp) as SG. unfold sigf in SG. injection SG as SG1 SG2.
    unfold paired_edge in Pp. simpl in Pp.
    destruct (nt_get m (e_lab a, e_lab b)) as [l|] eqn:G; [|discriminate]. injection Pp as <-. simpl.
    exists a, b. split; [|split; [|split; [|split; [|split; [|split]]]]]; auto.
    + apply (proj1 (sort_edges_in _ _)). apply in_combine_l in Hp. exact Hp.
    + apply (proj1 (sort_edges_in _ _)). apply in_combine_r in Hp. exact Hp.
  - intros e. apply in_app_iff.
Qed.

(** the same-length fact used by the derivation bijection *)
Lemma conjoinable_nt_length : forall r1 r2,
  wf_rule r1 -> wf_rule r2 -> conjoinable_model r1 r2 = true ->
  length (nt_sorted r1) = length (nt_sorted r2).
Proof.
  intros r1 r2 W1 W2 C. pose proof (proj1 (conjoinable_spec _ _) C) as [_ [Cs _]].
  assert (N1 : NoDup (map e_id (nt_edges (r_rhs r1)))) by (apply NoDup_map_filter; apply W1).
  assert (N2 : NoDup (map e_id (nt_edges (r_rhs r2)))) by (apply NoDup_map_filter; apply W2).
  assert (AL : map sigf (nt_sorted r1) = map sigf (nt_sorted r2)).
  { unfold nt_sorted. apply sorted_sigs_eq; [exact N1 | exact N2 | exact Cs]. }
  apply (f_equal (@length _)) in AL. rewrite !map_length in AL. exact AL.
Qed.

(** the new nonterminal edges are created in id order, so they are already sorted *)
Lemma paired_sorted : forall m s1 s2 es,
  StronglySorted le_id s1 -> Forall2 (fun p e => paired_edge m p = Some e) (combine s1 s2) es ->
  StronglySorted le_id es.
Proof.
  induction s1 as [|a s1 IH]; intros [|b s2] es S F; simpl in F.
  - inversion F; subst; constructor.
  - inversion F; subst; constructor.
  - inversion F; subst; constructor.
  - inversion F as [|p e ps es' Hp F']; subst. inversion S as [|? ? S' Fa]; subst.
    constructor; [apply (IH s2); assumption|].
    apply Forall_forall. intros e' He'. destruct (Forall2_in_r _ _ _ _ F' He') as [[a' b'] [Hin Pp]].
    unfold paired_edge in Hp, Pp. simpl in Hp, Pp.
    destruct (nt_get m (e_lab a, e_lab b)); [|discriminate]. injection Hp as <-.
    destruct (nt_get m (e_lab a', e_lab b')); [|discriminate]. injection Pp as <-.
    unfold le_id. simpl. apply in_combine_l in Hin. rewrite Forall_forall in Fa. apply (Fa a' Hin).
Qed.

(** the id-sorted nonterminal edges of the conjunction are the pairs of the id-sorted nonterminal
    edges of the two rules *)
Lemma conj_nt_sorted : forall r1 r2 m r,
  wf_rule r1 -> wf_rule r2 -> conjoinable_model r1 r2 = true -> nt_values m ->
  conjoin_rules_model r1 r2 m = Ok r ->
  Forall2 (fun p e => paired_edge m p = Some e) (combine (nt_sorted r1) (nt_sorted r2)) (nt_sorted r) /\
  nt_get m (r_lhs r1, r_lhs r2) = Some (r_lhs r).
Proof.
  intros r1 r2 m r W1 W2 C V H.
  destruct (conjoin_rules_exact _ _ _ _ W1 W2 C H) as [es [F [_ [GL [EN [EE [EX WR]]]]]]].
  assert (T : forall e, In e (t_edges (r_rhs r1) ++ t_edges (r_rhs r2)) -> el_term (e_lab e) = true).
  { intros e He. apply in_app_iff in He. destruct He as [He|He]; apply t_edges_in in He; apply He. }
  destruct (conj_edges_split m _ es _ V F T) as [ENT _].
  assert (NT : nt_edges (r_rhs r) = es) by (unfold nt_edges; rewrite EE; exact ENT).
  split; [|exact GL]. unfold nt_sorted at 3. rewrite NT.
  rewrite sort_edges_sorted_id; [exact F|].
  apply (paired_sorted m (nt_sorted r1) (nt_sorted r2)); [apply sort_edges_sorted | exact F].
Qed.
