(** C05, grammar level: the theorems.  For [factorize_hrg] and [factorize_fgg] of
    Model/Factorize.v, with valid tree decompositions for every rule and any iteration orders:
    - the label numbering of the factorised grammar extends the original one;
    - non-recursive grammars, every commutative semiring: the factorised grammar is non-recursive
      and the sum over all derivations ([Zk] at any k >= number of nonterminals) of every
      original nonterminal is unchanged;
    - recursive grammars, ordered commutative semirings: the Kleene iterates are sandwiched, hence
      the chains have the same upper bounds / suprema / enclosures, and pre-fixed points
      correspond. *)
From Coq Require Import List Arith Bool PeanoNat Lia Permutation Ring Ring_theory.
Import ListNotations.
Require Import Fggs.Model.Conj Fggs.Proofs.ConjBase.
Require Import Fggs.Model.TreeDec Fggs.Proofs.TreeDec_graph Fggs.Proofs.TreeDec_tdok Fggs.Model.Factorize
               Fggs.Proofs.Fz_final Fggs.Proofs.Fz_post Fggs.Proofs.Fz_glue Fggs.Proofs.Fz_labels.
Require Import Fggs.Model.Semiring Fggs.Model.SCC Fggs.Model.SumProduct.
Require Import Fggs.Proofs.BigSum Fggs.Proofs.SP_trees Fggs.Proofs.SP_nonrec Fggs.Proofs.SP_unfold
               Fggs.Proofs.SP_refine Fggs.Proofs.Fz_grammar.
Require Fggs.Proofs.SP_mono.

(** * the label numbering (no hypothesis on the decompositions) *)
Lemma hrg_loop_ext (ps : list (frule * rule_oracle)) : forall gn L x,
  mfold (fun (acc : fhrg * list elabel) (p : frule * rule_oracle) =>
           y <- factorize_rule_model (fst p) (snd acc) (fst (snd p)) (snd (snd p)) ;;
           gn <- mfold hrg_add_rule (fst y) (fst acc) ;;
           Ok (gn, snd y)) ps (gn, L) = Ok x -> exists ex, fh_elabels (fst x) = fh_elabels gn ++ ex.
Proof.
  induction ps as [|p ps IH]; intros gn L x H; cbn [mfold] in H.
  - injection H as <-. exists []. now rewrite app_nil_r.
  - cbn [fst snd] in H.
    destruct (factorize_rule_model (fst p) L (fst (snd p)) (snd (snd p))) as [y|e] eqn:E1; [|discriminate]. cbn [bind] in H.
    destruct (mfold hrg_add_rule (fst y) gn) as [gn'|e] eqn:E2; [|discriminate]. cbn [bind] in H.
    destruct (mfold_add_rule_spec _ _ _ E2) as ((ex1 & T1) & _). destruct (IH _ _ _ H) as (ex2 & T2).
    exists (ex1 ++ ex2). now rewrite T2, T1, app_assoc.
Qed.

Theorem factorize_hrg_numbering g orc g' : factorize_hrg_with g orc = Ok g' ->
  (exists ex, fh_elabels g' = fh_elabels g ++ ex)
  /\ forall l, In l (fh_elabels g) -> lab_idx (fh_elabels g') l = lab_idx (fh_elabels g) l.
Proof.
  unfold factorize_hrg_with, factorize_hrg_from.
  destruct (mfold _ (combine (fh_all_rules g) orc) _) as [x|e] eqn:E; [|discriminate]. cbn [bind]. intros [= <-].
  apply hrg_loop_ext in E. cbn [fh_elabels] in E. split; [exact E|]. destruct E as (ex & ->).
  intros l Hl. now apply lab_idx_app.
Qed.
Theorem factorize_fgg_numbering m g orc f : factorize_fgg_model m g orc = Ok f ->
  (exists ex, fh_elabels (ff_hrg f) = fh_elabels (ff_hrg g) ++ ex)
  /\ forall l, In l (fh_elabels (ff_hrg g)) -> lab_idx (fh_elabels (ff_hrg f)) l = lab_idx (fh_elabels (ff_hrg g)) l.
Proof.
  unfold factorize_fgg_model, factorize_hrg_model.
  destruct (factorize_hrg_with (ff_hrg g) (orc m)) as [h|e] eqn:E1; [|discriminate]. cbn [bind].
  destruct (from_hrg_model h) as [h'|e] eqn:E2; [|discriminate]. cbn [bind]. intros [= <-]. cbn [ff_hrg].
  destruct (factorize_hrg_numbering _ _ _ E1) as [(ex1 & T1) _].
  unfold from_hrg_model in E2. destruct (mfold_add_rule_spec _ _ _ E2) as ((ex2 & T2) & _). cbn [fh_elabels] in T2.
  assert (T : fh_elabels h' = fh_elabels (ff_hrg g) ++ (ex1 ++ ex2)) by now rewrite T2, T1, app_assoc.
  split; [eexists; exact T|]. intros l Hl. rewrite T. now apply lab_idx_app.
Qed.

(** * from the specification of the gluing *)
Section FromSpec.
Variables (doms : list nat) (g g' : fhrg) (cs : list call).
Hypothesis SP : fz_spec g g' cs.
Hypothesis WF : wf_grammar (to_sp_grammar doms g) = true.
Hypothesis IDS : ids_are_positions g.
Let G := to_sp_grammar doms g.
Let G' := to_sp_grammar doms g'.

Lemma spec_refines :
  refines G G' (length (fh_elabels g)) (M_of cs) (rk_of (fh_elabels g) (fh_elabels g') cs)
          (owner_of (fh_elabels g) (fh_elabels g') cs).
Proof. apply factorize_refines; trivial. now apply (wf_grammar_wf_fhrg doms). Qed.

Lemma spec_idx l : In l (fh_elabels g) -> lab_idx (fh_elabels g') l = lab_idx (fh_elabels g) l.
Proof. intro H. destruct (fs_tbl _ _ _ SP) as (ex & ->). now apply lab_idx_app. Qed.

Theorem spec_nonrec rank : ranked G rank ->
  (exists rank', ranked G' rank')
  /\ forall (R : Type) (o : sr_ops R), sr_ring o -> forall (w : env (R:=R)) l xi,
       In l (fh_elabels g) -> el_term l = false ->
       forall k k0, length (nonterminals G') <= k -> length (nonterminals G) <= k0 ->
         Zk o G' w k (lab_idx (fh_elabels g') l) xi = Zk o G w k0 (lab_idx (fh_elabels g) l) xi.
Proof.
  intro Rk. split; [eexists; exact (ranked_refines _ _ _ _ _ _ spec_refines rank Rk)|].
  intros R o Hr w l xi Hl Tl k k0 Hk Hk0. rewrite (spec_idx l Hl).
  apply (refines_Zk_nonrec _ _ _ _ _ _ spec_refines o Hr rank Rk); trivial.
  unfold G. now rewrite is_term_idx.
Qed.

Theorem spec_recursive :
  exists c, forall (R : Type) (o : sr_ops R), sr_ring o -> sr_ordered o -> forall (w : env (R:=R)) l xi,
    In l (fh_elabels g) ->
    (forall k, le o (Zk o G' w k (lab_idx (fh_elabels g') l) xi) (Zk o G w k (lab_idx (fh_elabels g) l) xi))
    /\ (forall k, le o (Zk o G w k (lab_idx (fh_elabels g) l) xi) (Zk o G' w (c * k) (lab_idx (fh_elabels g') l) xi))
    /\ (forall u, (forall k, le o (Zk o G w k (lab_idx (fh_elabels g) l) xi) u)
                  <-> (forall k, le o (Zk o G' w k (lab_idx (fh_elabels g') l) xi) u))
    /\ (forall s, is_sup o (fun k => Zk o G w k (lab_idx (fh_elabels g) l) xi) s
                  <-> is_sup o (fun k => Zk o G' w k (lab_idx (fh_elabels g') l) xi) s)
    /\ (forall lo hi,
          ((exists j, le o lo (Zk o G w j (lab_idx (fh_elabels g) l) xi))
           /\ (forall k, le o (Zk o G w k (lab_idx (fh_elabels g) l) xi) hi))
          <-> ((exists j, le o lo (Zk o G' w j (lab_idx (fh_elabels g') l) xi))
               /\ (forall k, le o (Zk o G' w k (lab_idx (fh_elabels g') l) xi) hi))).
Proof.
  exists (M_of cs + 2). intros R o Hr Ho w l xi Hl. rewrite (spec_idx l Hl).
  assert (HX : lab_idx (fh_elabels g) l < length (fh_elabels g)) by now apply lab_idx_lt.
  pose proof spec_refines as RF.
  split; [intro k; now apply (Zk_refines_upper _ _ _ _ _ _ RF o Hr Ho)|].
  split; [intro k; now apply (Zk_refines_lower _ _ _ _ _ _ RF o Hr Ho)|].
  split; [now apply (refines_same_bounds _ _ _ _ _ _ RF o Hr Ho)|].
  split; [now apply (refines_same_sup _ _ _ _ _ _ RF o Hr Ho)|].
  now apply (refines_same_enclosures _ _ _ _ _ _ RF o Hr Ho).
Qed.

(** pre-fixed points (ordered semirings): extension and restriction; solutions restrict *)
Theorem spec_prefix (R : Type) (o : sr_ops R) : sr_ring o -> sr_ordered o -> forall w : env (R:=R),
  (forall u : env (R:=R), SP_mono.env_le o (step o G w u) u ->
     exists u' : env (R:=R), SP_mono.env_le o (step o G' w u') u'
       /\ forall l, In l (fh_elabels g) -> u' (lab_idx (fh_elabels g') l) = u (lab_idx (fh_elabels g) l))
  /\ (forall u' : env (R:=R), SP_mono.env_le o (step o G' w u') u' ->
        forall X xi, is_term G X = false -> le o (step o G w u' X xi) (u' X xi)).
Proof.
  intros Hr Ho w. pose proof spec_refines as RF. split.
  - intros u P. destruct (prefix_extend _ _ _ _ _ _ RF o Hr Ho w u P) as [P' E].
    eexists. split; [exact P'|]. intros l Hl. rewrite (spec_idx l Hl). apply E. now apply lab_idx_lt.
  - intros u' P X xi TX. now apply (prefix_restrict _ _ _ _ _ _ RF o Hr Ho w u' P).
Qed.
Theorem spec_fixpoint (R : Type) (o : sr_ops R) : sr_ring o -> forall w : env (R:=R),
  (forall x : env (R:=R), fixpoint o G' w x -> fixpoint o G w x)
  /\ (forall x : env (R:=R), fixpoint o G w x ->
        exists x' : env (R:=R), fixpoint o G' w x'
          /\ forall l, In l (fh_elabels g) -> x' (lab_idx (fh_elabels g') l) = x (lab_idx (fh_elabels g) l)).
Proof.
  intros Hr w. pose proof spec_refines as RF. split.
  - intro x. apply (fixpoint_restrict _ _ _ _ _ _ RF o Hr).
  - intros x F. destruct (fixpoint_extend _ _ _ _ _ _ RF o Hr w x F) as [F' E].
    eexists. split; [exact F'|]. intros l Hl. rewrite (spec_idx l Hl). apply E. now apply lab_idx_lt.
Qed.

End FromSpec.

(** * factorize_hrg / factorize_fgg *)
Lemma wf_rules doms g : wf_grammar (to_sp_grammar doms g) = true -> ids_are_positions g ->
  forall r, In r (fh_all_rules g) -> Fz_final.wf_rule r.
Proof. intros W I r Hr. apply (wf_grammar_wf_fhrg doms g W I r Hr). Qed.

Theorem sum_product_nonrec_hrg doms m g orc g' rank :
  wf_grammar (to_sp_grammar doms g) = true -> ids_are_positions g ->
  orc_ok g (orc m) -> factorize_hrg_model m g orc = Ok g' ->
  ranked (to_sp_grammar doms g) rank ->
  (exists rank', ranked (to_sp_grammar doms g') rank')
  /\ forall (R : Type) (o : sr_ops R), sr_ring o -> forall (w : env (R:=R)) l xi,
       In l (fh_elabels g) -> el_term l = false ->
       forall k k0, length (nonterminals (to_sp_grammar doms g')) <= k -> length (nonterminals (to_sp_grammar doms g)) <= k0 ->
         Zk o (to_sp_grammar doms g') w k (lab_idx (fh_elabels g') l) xi
         = Zk o (to_sp_grammar doms g) w k0 (lab_idx (fh_elabels g) l) xi.
Proof.
  intros W I O H Rk. destruct (factorize_hrg_spec g (orc m) g' (wf_rules doms g W I) O H) as (cs & SP).
  exact (spec_nonrec doms g g' cs SP W I rank Rk).
Qed.

Theorem sum_product_nonrec_fgg doms m f orc f' rank :
  wf_grammar (to_sp_grammar doms (ff_hrg f)) = true -> ids_are_positions (ff_hrg f) ->
  orc_ok (ff_hrg f) (orc m) -> factorize_fgg_model m f orc = Ok f' ->
  ranked (to_sp_grammar doms (ff_hrg f)) rank ->
  (exists rank', ranked (to_sp_grammar doms (ff_hrg f')) rank')
  /\ forall (R : Type) (o : sr_ops R), sr_ring o -> forall (w : env (R:=R)) l xi,
       In l (fh_elabels (ff_hrg f)) -> el_term l = false ->
       forall k k0, length (nonterminals (to_sp_grammar doms (ff_hrg f'))) <= k
                    -> length (nonterminals (to_sp_grammar doms (ff_hrg f))) <= k0 ->
         Zk o (to_sp_grammar doms (ff_hrg f')) w k (lab_idx (fh_elabels (ff_hrg f')) l) xi
         = Zk o (to_sp_grammar doms (ff_hrg f)) w k0 (lab_idx (fh_elabels (ff_hrg f)) l) xi.
Proof.
  intros W I O H Rk. destruct (factorize_fgg_spec m f orc f' (wf_rules doms _ W I) O H) as (cs & SP).
  exact (spec_nonrec doms _ _ cs SP W I rank Rk).
Qed.

(** the start symbol: what the check function [fz_sp_check] compares *)
Corollary sum_product_nonrec_start doms m g orc g' rank :
  wf_grammar (to_sp_grammar doms g) = true -> ids_are_positions g ->
  orc_ok g (orc m) -> factorize_hrg_model m g orc = Ok g' ->
  ranked (to_sp_grammar doms g) rank ->
  forall (R : Type) (o : sr_ops R), sr_ring o -> forall (w : env (R:=R)) xi,
    Zk o (to_sp_grammar doms g') w (length (nonterminals (to_sp_grammar doms g'))) (g_start (to_sp_grammar doms g')) xi
    = Zk o (to_sp_grammar doms g) w (length (nonterminals (to_sp_grammar doms g))) (g_start (to_sp_grammar doms g)) xi.
Proof.
  intros W I O H Rk R o Hr w xi.
  destruct (sum_product_nonrec_hrg doms m g orc g' rank W I O H Rk) as [_ E].
  assert (S : fh_start g' = fh_start g) by (apply (factorize_hrg_keeps g (orc m) g' H)).
  change (g_start (to_sp_grammar doms g')) with (lab_idx (fh_elabels g') (fh_start g')).
  change (g_start (to_sp_grammar doms g)) with (lab_idx (fh_elabels g) (fh_start g)).
  assert (Ws : g_start (to_sp_grammar doms g) < length (g_labels (to_sp_grammar doms g))
               /\ is_term (to_sp_grammar doms g) (g_start (to_sp_grammar doms g)) = false).
  { unfold wf_grammar in W. apply andb_true_iff in W. destruct W as [W' Tn].
    apply andb_true_iff in W'. destruct W' as [_ Ws]. apply Nat.ltb_lt in Ws. apply negb_true_iff in Tn. now split. }
  destruct Ws as [Ws Tn]. change (g_start (to_sp_grammar doms g)) with (lab_idx (fh_elabels g) (fh_start g)) in Ws, Tn.
  change (g_labels (to_sp_grammar doms g)) with (map (fun l => (el_term l, el_type l)) (fh_elabels g)) in Ws.
  rewrite map_length in Ws. apply lab_idx_lt in Ws. rewrite is_term_idx in Tn by exact Ws.
  rewrite S. apply E; trivial; lia.
Qed.

Theorem sum_product_recursive_hrg doms m g orc g' :
  wf_grammar (to_sp_grammar doms g) = true -> ids_are_positions g ->
  orc_ok g (orc m) -> factorize_hrg_model m g orc = Ok g' ->
  exists c, forall (R : Type) (o : sr_ops R), sr_ring o -> sr_ordered o -> forall (w : env (R:=R)) l xi,
    In l (fh_elabels g) ->
    let G := to_sp_grammar doms g in let G' := to_sp_grammar doms g' in
    let X := lab_idx (fh_elabels g) l in let X' := lab_idx (fh_elabels g') l in
    (forall k, le o (Zk o G' w k X' xi) (Zk o G w k X xi))
    /\ (forall k, le o (Zk o G w k X xi) (Zk o G' w (c * k) X' xi))
    /\ (forall u, (forall k, le o (Zk o G w k X xi) u) <-> (forall k, le o (Zk o G' w k X' xi) u))
    /\ (forall s, is_sup o (fun k => Zk o G w k X xi) s <-> is_sup o (fun k => Zk o G' w k X' xi) s)
    /\ (forall lo hi,
          ((exists j, le o lo (Zk o G w j X xi)) /\ (forall k, le o (Zk o G w k X xi) hi))
          <-> ((exists j, le o lo (Zk o G' w j X' xi)) /\ (forall k, le o (Zk o G' w k X' xi) hi))).
Proof.
  intros W I O H. destruct (factorize_hrg_spec g (orc m) g' (wf_rules doms g W I) O H) as (cs & SP).
  exact (spec_recursive doms g g' cs SP W I).
Qed.

Theorem sum_product_recursive_fgg doms m f orc f' :
  wf_grammar (to_sp_grammar doms (ff_hrg f)) = true -> ids_are_positions (ff_hrg f) ->
  orc_ok (ff_hrg f) (orc m) -> factorize_fgg_model m f orc = Ok f' ->
  exists c, forall (R : Type) (o : sr_ops R), sr_ring o -> sr_ordered o -> forall (w : env (R:=R)) l xi,
    In l (fh_elabels (ff_hrg f)) ->
    let G := to_sp_grammar doms (ff_hrg f) in let G' := to_sp_grammar doms (ff_hrg f') in
    let X := lab_idx (fh_elabels (ff_hrg f)) l in let X' := lab_idx (fh_elabels (ff_hrg f')) l in
    (forall k, le o (Zk o G' w k X' xi) (Zk o G w k X xi))
    /\ (forall k, le o (Zk o G w k X xi) (Zk o G' w (c * k) X' xi))
    /\ (forall u, (forall k, le o (Zk o G w k X xi) u) <-> (forall k, le o (Zk o G' w k X' xi) u))
    /\ (forall s, is_sup o (fun k => Zk o G w k X xi) s <-> is_sup o (fun k => Zk o G' w k X' xi) s)
    /\ (forall lo hi,
          ((exists j, le o lo (Zk o G w j X xi)) /\ (forall k, le o (Zk o G w k X xi) hi))
          <-> ((exists j, le o lo (Zk o G' w j X' xi)) /\ (forall k, le o (Zk o G' w k X' xi) hi))).
Proof.
  intros W I O H. destruct (factorize_fgg_spec m f orc f' (wf_rules doms _ W I) O H) as (cs & SP).
  exact (spec_recursive doms _ _ cs SP W I).
Qed.

(** solutions and pre-fixed points, recursive grammars included *)
Theorem sum_product_fixpoints_hrg doms m g orc g' :
  wf_grammar (to_sp_grammar doms g) = true -> ids_are_positions g ->
  orc_ok g (orc m) -> factorize_hrg_model m g orc = Ok g' ->
  let G := to_sp_grammar doms g in let G' := to_sp_grammar doms g' in
  (forall (R : Type) (o : sr_ops R), sr_ring o -> forall w : env (R:=R),
     (forall x : env (R:=R), fixpoint o G' w x -> fixpoint o G w x)
     /\ (forall x : env (R:=R), fixpoint o G w x ->
           exists x' : env (R:=R), fixpoint o G' w x'
             /\ forall l, In l (fh_elabels g) -> x' (lab_idx (fh_elabels g') l) = x (lab_idx (fh_elabels g) l)))
  /\ forall (R : Type) (o : sr_ops R), sr_ring o -> sr_ordered o -> forall w : env (R:=R),
       (forall u : env (R:=R), SP_mono.env_le o (step o G w u) u ->
          exists u' : env (R:=R), SP_mono.env_le o (step o G' w u') u'
            /\ forall l, In l (fh_elabels g) -> u' (lab_idx (fh_elabels g') l) = u (lab_idx (fh_elabels g) l))
       /\ (forall u' : env (R:=R), SP_mono.env_le o (step o G' w u') u' ->
             forall X xi, is_term G X = false -> le o (step o G w u' X xi) (u' X xi)).
Proof.
  intros W I O H. destruct (factorize_hrg_spec g (orc m) g' (wf_rules doms g W I) O H) as (cs & SP).
  split.
  - intros R o Hr w. exact (spec_fixpoint doms g g' cs SP W I R o Hr w).
  - intros R o Hr Ho w. exact (spec_prefix doms g g' cs SP W I R o Hr Ho w).
Qed.
