(** C16 -- frame: a call changes at most the object behind its target handle; new objects are
    appended.  Hence objects are independent of each other (copies included). *)
From Coq Require Import List Arith Bool Lia.
Import ListNotations.
Require Import Fggs.Model.GraphAPI Fggs.Proofs.GraphAPI_assoc.

Definition extends (os os' : list obj) (t : option nat) : Prop :=
  length os <= length os' /\
  forall k, k < length os -> t <> Some k -> nth_error os' k = nth_error os k.

Lemma extends_refl : forall os t, extends os os t.
Proof. intros. split; [lia | reflexivity]. Qed.

Lemma extends_app : forall os news t, extends os (os ++ news) t.
Proof.
  intros. split; [rewrite app_length; lia|]. intros k L _. apply nth_error_app1. assumption.
Qed.

Lemma extends_set_nth : forall os h x, extends os (set_nth os h x) (Some h).
Proof.
  intros. split; [rewrite length_set_nth; lia|].
  intros k L N. apply nth_error_set_nth_other. congruence.
Qed.

Lemma on_graph_frame : forall s c h f, extends (objs s) (objs (fst (on_graph s c h f))) (Some h).
Proof.
  intros. unfold on_graph. destruct (get_graph (objs s) h); cbn.
  - destruct (f g). cbn. apply extends_set_nth.
  - apply extends_refl.
Qed.

Lemma on_hrg_frame : forall s h f, extends (objs s) (objs (fst (on_hrg s h f))) (Some h).
Proof.
  intros. unfold on_hrg. destruct (get_hrg (objs s) h); cbn.
  - destruct (f h0). cbn. apply extends_set_nth.
  - apply extends_refl.
Qed.

Lemma on_tab_frame : forall s b h f, extends (objs s) (objs (fst (on_tab s b h f))) (Some h).
Proof.
  intros. unfold on_tab. destruct (nth_error (objs s) h); cbn; [|apply extends_refl].
  destruct (b && negb (has_interp o)); [apply extends_refl|].
  destruct (f (tab_of o)). cbn. apply extends_set_nth.
Qed.

Theorem step_frame : forall s o, extends (objs s) (objs (fst (step s o))) (target o).
Proof.
  intros s o. destruct o; cbn [step target];
    try apply on_graph_frame; try apply on_hrg_frame; try apply on_tab_frame;
    try (apply extends_app).
  - destruct (h_new false s0) as [[x|] r]; cbn; [apply extends_app | apply extends_refl].
  - destruct (h_new true s0) as [[x|] r]; cbn; [apply extends_app | apply extends_refl].
  - (* AddNode *)
    destruct (resolve (ctr s) [n]) as [ns c]. destruct ns as [|x [|y ns]]; try apply extends_refl.
    apply on_graph_frame.
  - (* NewNode *)
    destruct (resolve_id (ctr s) i) as [[i'|] c]; [apply on_graph_frame | cbn; apply extends_refl].
  - (* AddEdge *)
    destruct (resolve (ctr s) ns) as [ns' c]. destruct (resolve_id c i) as [i' c']. apply on_graph_frame.
  - (* NewEdge *)
    destruct (resolve (ctr s) ns) as [ns' c]. destruct (resolve_id c i) as [i' c'].
    destruct ((t && nt) || (negb t && negb nt)); [cbn; apply extends_refl | apply on_graph_frame].
  - (* SetExt *)
    destruct (resolve (ctr s) ns) as [ns' c]. apply on_graph_frame.
  - (* Copy *)
    destruct (nth_error (objs s) h) as [[g|x]|]; [| |apply extends_refl].
    + destruct (g_copy g); cbn; [apply extends_app | apply extends_refl].
    + destruct (h_copy (objs s) x) as [[c news]|]; cbn; [apply extends_app | apply extends_refl].
  - (* MkRule *)
    destruct (get_graph (objs s) g); cbn; apply extends_refl.
  - (* AddRule *)
    destruct (get_graph (objs s) g); [|apply extends_refl].
    destruct (rule_ok l g0); [|apply extends_refl].
    eapply (proj1 (conj (on_hrg_frame s h _) I)).
  - (* NewRule *)
    destruct (get_graph (objs s) g); [|apply extends_refl].
    destruct (rule_ok _ g0); [|apply extends_refl].
    eapply (proj1 (conj (on_hrg_frame s h _) I)).
  - (* EqOp *)
    destruct (nth_error (objs s) h1), (nth_error (objs s) h2); apply extends_refl.
Qed.

(** a call never changes an object it does not target *)
Corollary step_other_unchanged : forall s o k,
    k < length (objs s) -> target o <> Some k ->
    nth_error (objs (fst (step s o))) k = nth_error (objs s) k.
Proof. intros s o k L N. apply (proj2 (step_frame s o)); assumption. Qed.

Corollary step_length : forall s o, length (objs s) <= length (objs (fst (step s o))).
Proof. intros. apply (proj1 (step_frame s o)). Qed.

(** ... and so does no sequence of calls: an object shows the same thing after any calls that
    target other handles *)
Theorem run_other_unchanged : forall ops s k,
    k < length (objs s) -> (forall o, In o ops -> target o <> Some k) ->
    nth_error (objs (run s ops)) k = nth_error (objs s) k.
Proof.
  induction ops as [|o ops IH]; intros s k L N; cbn; [reflexivity|].
  unfold run in *. cbn. rewrite IH.
  - apply step_other_unchanged; [assumption | apply N; left; reflexivity].
  - pose proof (step_length s o). lia.
  - intros o' H. apply N. right. assumption.
Qed.

Corollary run_observe_other_unchanged : forall ops s k,
    k < length (objs s) -> (forall o, In o ops -> target o <> Some k) ->
    nth_error (observe (run s ops)) k = nth_error (observe s) k.
Proof.
  intros. unfold observe. rewrite !nth_error_map. f_equal. apply run_other_unchanged; assumption.
Qed.

(** the observation-level frame oracle used by the harness accepts every model step *)
Lemma frame_ok_model_aux : forall t os os' k,
    (forall j, j < length os -> t <> Some (k + j) -> nth_error os' j = nth_error os j) ->
    length os <= length os' ->
    frame_ok k t (map obs_obj os) (map obs_obj os') = true.
Proof.
  intros t. induction os as [|a os IH]; intros os' k H L; cbn; [reflexivity|].
  destruct os' as [|b os']; cbn in *; [lia|].
  apply andb_true_iff. split.
  - destruct t as [h|].
    + destruct (Nat.eqb h k) eqn:E; [reflexivity|]. cbn.
      apply Nat.eqb_neq in E.
      assert (X : Some b = Some a). { apply (H 0); [lia | rewrite Nat.add_0_r; congruence]. }
      inversion X; subst. destruct (oobs_eq_dec (obs_obj a) (obs_obj a)); congruence.
    + cbn. assert (X : Some b = Some a). { apply (H 0); [lia | congruence]. }
      inversion X; subst. destruct (oobs_eq_dec (obs_obj a) (obs_obj a)); congruence.
  - apply IH; [|lia]. intros j Lj N. apply (H (S j)); [lia|]. rewrite Nat.add_succ_r. exact N.
Qed.

Theorem frame_ok_model : forall s o,
    frame_ok 0 (target o) (observe s) (observe (fst (step s o))) = true.
Proof.
  intros. unfold observe. destruct (step_frame s o) as [L H].
  apply frame_ok_model_aux; [|assumption]. intros j Lj N. apply H; assumption.
Qed.
