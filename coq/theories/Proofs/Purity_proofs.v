From Coq Require Import List Arith Bool PeanoNat NArith.
Import ListNotations.
Require Import Fggs.Model.Purity.

Lemma memN_In l x : memN l x = true <-> In x l.
Proof.
  unfold memN. rewrite existsb_exists. split.
  - intros [y [Hy He]]. apply N.eqb_eq in He. subst. exact Hy.
  - intros H. exists x. split; [exact H | apply N.eqb_refl].
Qed.

Lemma run_app tr1 tr2 st : run (tr1 ++ tr2) st = run tr2 (run tr1 st).
Proof. unfold run. apply fold_left_app. Qed.

(** an accepted trace never changes a user-owned storage, whatever was in it before *)
Lemma trace_ok_from_preserves user fresh tr st s :
  trace_ok_from user fresh tr = true -> In s user -> run tr st s = st s.
Proof.
  revert fresh st. induction tr as [|e tr IH]; intros fresh st Hok Hs; [reflexivity|].
  destruct e as [a|a v]; cbn [trace_ok_from] in Hok.
  - apply andb_prop in Hok. destruct Hok as [_ Hok]. cbn. apply (IH _ _ Hok Hs).
  - apply andb_prop in Hok. destruct Hok as [Hok1 Hok]. apply andb_prop in Hok1. destruct Hok1 as [_ Hnu].
    cbn. change (run tr (upd st a v) s = st s). rewrite (IH _ _ Hok Hs).
    unfold upd. destruct (N.eqb s a) eqn:E; [|reflexivity].
    apply N.eqb_eq in E. subst a. apply negb_true_iff in Hnu.
    apply memN_In in Hs. congruence.
Qed.

Theorem trace_ok_preserves user tr st s :
  trace_ok user tr = true -> In s user -> run tr st s = st s.
Proof. apply trace_ok_from_preserves. Qed.

(** every written storage was allocated earlier in the same trace *)
Lemma writes_fresh_from user tr1 tr2 s v fresh :
  trace_ok_from user fresh (tr1 ++ Write s v :: tr2) = true -> In s fresh \/ In (Alloc s) tr1.
Proof.
  revert fresh. induction tr1 as [|e tr1 IH]; intros fresh H.
  - cbn in H. apply andb_prop in H. destruct H as [H _]. apply andb_prop in H. destruct H as [H _].
    left. apply memN_In. exact H.
  - destruct e as [a|a w]; cbn [app trace_ok_from] in H.
    + apply andb_prop in H. destruct H as [_ H]. destruct (IH _ H) as [[->|Hin]|Hin]; cbn; auto.
    + apply andb_prop in H. destruct H as [_ H]. destruct (IH _ H) as [Hin|Hin]; cbn; auto.
Qed.

Theorem trace_ok_writes_fresh user tr1 tr2 s v :
  trace_ok user (tr1 ++ Write s v :: tr2) = true -> In (Alloc s) tr1.
Proof.
  intros H. destruct (writes_fresh_from _ _ _ _ _ _ H) as [[]|Ha]. exact Ha.
Qed.

Example trace_ok_example :
  trace_ok [7%N; 9%N] [Alloc 3%N; Write 3%N 1%N; Alloc 4%N; Write 4%N 2%N; Write 3%N 5%N] = true
  /\ trace_ok [7%N] [Alloc 3%N; Write 7%N 1%N] = false.
Proof. split; reflexivity. Qed.
