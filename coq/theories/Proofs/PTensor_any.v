(** [any(dim, keepdim)]: the result is well formed and its element at [idx'] is true iff some element
    of [t] along the reduced dimension is true.  Both code paths: the all-ones shortcut (default true
    and the dimension longer than the product of the axes that occur only in it: by the pigeonhole
    principle some element along the dimension is unbacked, hence the default) and [physical.any]
    over those axes (when the product equals the length they index the dimension bijectively).
    Guard: the reduced dimension is not empty or the default is false (a size-0 dimension with a true
    default is the one case where the code differs from torch; see notes/C06.md). *)
From Coq Require Import List Arith Lia PeanoNat Bool PArith.
Import ListNotations.
Require Import Fggs.Model.Axis Fggs.Model.PTensor Fggs.Model.PTensorOps.
Require Import Fggs.Proofs.Axis_sem Fggs.Proofs.Axis_unify Fggs.Proofs.Axis_antiunify Fggs.Proofs.Axis_antiunify_inv.
Require Import Fggs.Proofs.PTensor_sem Fggs.Proofs.PTensor_dense Fggs.Proofs.PTensor_views Fggs.Proofs.PTensor_gen.
Require Import Fggs.Proofs.PTensor_struct Fggs.Proofs.PTensor_transpose Fggs.Proofs.PTensor_reprinv.
Local Open Scope nat_scope.

(** * lists *)
Lemma NoDup_app_disj {A} (l1 l2 : list A) : NoDup l1 -> NoDup l2 -> (forall x, In x l1 -> In x l2 -> False) -> NoDup (l1 ++ l2).
Proof.
  induction l1 as [|x l1 IH]; intros N1 N2 D; [exact N2|]. inversion N1; subst. simpl. constructor.
  - intros H. apply in_app_or in H. destruct H as [H|H]; [contradiction|exact (D x (or_introl eq_refl) H)].
  - apply IH; [assumption|exact N2|]. intros y Hy. apply D. right. exact Hy.
Qed.

Lemma NoDup_map_inj' {A B} (f : A -> B) l : (forall a b, f a = f b -> a = b) -> NoDup l -> NoDup (map f l).
Proof.
  intros Inj. induction 1 as [|x l Hx _ IH]; [constructor|]. simpl. constructor; [|exact IH].
  intros H. apply in_map_iff in H. destruct H as (y & E & Hy). apply Inj in E. subst. contradiction.
Qed.

Lemma evals_app' rho a b : evals rho (a ++ b) = evals rho a ++ evals rho b.
Proof. unfold evals. apply map_app. Qed.

Lemma pmem_In k l : pmem k l = true <-> In k l.
Proof.
  unfold pmem. rewrite existsb_exists. split.
  - intros (y & Hy & E). apply Pos.eqb_eq in E. subst. exact Hy.
  - intros H. exists k. split; [exact H|apply Pos.eqb_refl].
Qed.

Lemma pmem_false k l : pmem k l = false <-> ~ In k l.
Proof. rewrite <- pmem_In. destruct (pmem k l); split; congruence. Qed.

Lemma remove_nth_app {A} (l1 : list A) a l2 : remove_nth (length l1) (l1 ++ a :: l2) = l1 ++ l2.
Proof. induction l1 as [|x l1 IH]; [reflexivity|]. simpl. f_equal. exact IH. Qed.

Lemma replace_nth_app {A} (l1 : list A) a b l2 : replace_nth (length l1) b (l1 ++ a :: l2) = l1 ++ b :: l2.
Proof. induction l1 as [|x l1 IH]; [reflexivity|]. simpl. f_equal. exact IH. Qed.

Lemma insert_nth_split {A} (a : A) : forall n l, n <= length l -> insert_nth n a l = firstn n l ++ a :: skipn n l.
Proof.
  induction n as [|n IH]; intros l H; [reflexivity|]. destruct l as [|x l]; [simpl in H; lia|].
  simpl. f_equal. apply IH. simpl in H. lia.
Qed.

Lemma existsb_const {A} (b : bool) (l : list A) : existsb (fun _ => b) l = (negb (Nat.eqb (length l) 0) && b).
Proof. induction l as [|x l IH]; [reflexivity|]. simpl. rewrite IH. destruct b; simpl; [reflexivity|]. rewrite andb_false_r. reflexivity. Qed.

Lemma all_envs_length vars : length (all_envs vars) = pnumel vars.
Proof.
  induction vars as [|[k n] vars IH]; [reflexivity|]. cbn [all_envs pnumel fold_right snd]. fold (pnumel vars). rewrite <- IH.
  generalize (all_envs vars) as E. intros E. generalize 0 as s. induction n as [|n IHn]; intros s; [reflexivity|].
  cbn [seq flat_map]. rewrite app_length, map_length, IHn. simpl. lia.
Qed.

(** two enumerated environments that agree on the keys are the same list *)
Lemma all_envs_eq vars : forall pi pi', NoDup (map fst vars) -> In pi (all_envs vars) -> In pi' (all_envs vars) ->
  (forall k, In k (map fst vars) -> env_of pi k = env_of pi' k) -> pi = pi'.
Proof.
  induction vars as [|[k n] vars IH]; intros pi pi' ND H H' E.
  - simpl in H, H'. destruct H as [<-|[]]. destruct H' as [<-|[]]. reflexivity.
  - simpl in ND. inversion ND as [|? ? Hk ND']; subst.
    simpl in H, H'. apply in_flat_map in H. destruct H as (i & _ & H). apply in_map_iff in H. destruct H as (p & <- & Hp).
    apply in_flat_map in H'. destruct H' as (i' & _ & H'). apply in_map_iff in H'. destruct H' as (p' & <- & Hp').
    assert (i = i').
    { specialize (E k (or_introl eq_refl)). unfold env_of in E. simpl in E. rewrite Pos.eqb_refl in E. exact E. }
    subst i'. f_equal. apply IH; try assumption. intros k' Hk'. specialize (E k' (or_intror Hk')).
    unfold env_of in *. simpl in E. destruct (Pos.eqb_spec k k') as [->|_]; [contradiction|exact E].
Qed.

(** pigeonhole, constructively: a list shorter than [n] misses some number below [n] *)
Lemma missing_value (l : list nat) n : length l < n -> exists i, i < n /\ ~ In i l.
Proof.
  intros H. destruct (find (fun i => negb (existsb (Nat.eqb i) l)) (seq 0 n)) as [i|] eqn:F.
  - apply find_some in F. destruct F as [Hi Hn]. apply in_seq in Hi. exists i. split; [lia|].
    apply negb_true_iff in Hn. intros Hin. assert (existsb (Nat.eqb i) l = true); [|congruence].
    apply existsb_exists. exists i. split; [exact Hin|apply Nat.eqb_refl].
  - exfalso. assert (Inc : incl (seq 0 n) l).
    { intros i Hi. pose proof (find_none _ _ F i Hi) as Q. apply negb_false_iff in Q. apply existsb_exists in Q.
      destruct Q as (y & Hy & E). apply Nat.eqb_eq in E. subst. exact Hy. }
    pose proof (NoDup_incl_length (seq_NoDup n 0) Inc) as Q. rewrite seq_length in Q. lia.
Qed.

(** the merged coordinates are the coordinates under the merged environment *)
Definition menv (kk : list positive) (g rho : env) : env := fun k => if pmem k kk then g k else rho k.

Lemma merge_coords_spec kk g rho : forall ps,
  merge_coords ps kk g (pcoords (filter (fun kn => negb (pmem (fst kn) kk)) ps) rho) = pcoords ps (menv kk g rho).
Proof.
  induction ps as [|[k n] ps IH]; [reflexivity|]. cbn [merge_coords filter fst]. unfold menv at 1.
  destruct (pmem k kk) eqn:E; cbn [negb].
  - cbn [pcoords map fst]. rewrite E. f_equal. exact IH.
  - cbn [pcoords map fst]. rewrite E. f_equal. exact IH.
Qed.

Section Any.
Variable V : Type.
Notation ptensor := (ptensor V).
Variables (truth : V -> bool) (ofb : bool -> V).
Hypothesis truth_ofb : forall b, truth (ofb b) = b.

(** the core: [keepdim = false] with the pattern split around the reduced dimension *)
Section Core.
Variables (t : ptensor) (pre post : list axis) (ed : axis).
Hypothesis W : wf V t.
Hypothesis Evx : vaxes t = pre ++ ed :: post.

Let others := pre ++ post.
Let ks := filter (fun kn => pmem (fst kn) (fv ed) && negb (pmem (fst kn) (flat_map fv others))) (paxes t).
Let kk := map fst ks.
Let ps := filter (fun kn => negb (pmem (fst kn) kk)) (paxes t).

Lemma kk_spec k : In k kk <-> In k (map fst (paxes t)) /\ In k (fv ed) /\ ~ In k (flat_map fv others).
Proof.
  unfold kk, ks. rewrite in_map_iff. split.
  - intros ([k' n] & <- & H). apply filter_In in H. destruct H as [H C]. cbn [fst] in *. apply andb_true_iff in C. destruct C as [C1 C2].
    apply pmem_In in C1. apply negb_true_iff in C2. apply pmem_false in C2. split; [apply in_map_iff; exists (k', n); auto|auto].
  - intros (H & C1 & C2). apply in_map_iff in H. destruct H as ([k' n] & <- & H). exists (k', n). split; [reflexivity|].
    apply filter_In. split; [exact H|]. cbn [fst] in *. apply andb_true_iff. split; [apply pmem_In; exact C1|].
    apply negb_true_iff. apply pmem_false. exact C2.
Qed.

Lemma fvn_vaxes kn : In kn (paxes t) <-> In kn (flat_map fvn others) \/ In kn (fvn ed).
Proof.
  destruct kn as [k n]. rewrite <- (wf_fv V t W), Evx. unfold others. rewrite !flat_map_app. simpl. rewrite !in_app_iff. tauto.
Qed.

Lemma wf_any (phys : list nat -> V) : wf V (mkPT phys ps others (default t)).
Proof.
  constructor; cbn [paxes vaxes].
  - apply NoDup_map_filter'. apply (wf_nodup V t W).
  - intros k n. unfold ps. rewrite filter_In. cbn [fst]. rewrite negb_true_iff, pmem_false. split.
    + intros H. split; [apply fvn_vaxes; left; exact H|]. rewrite kk_spec. intros (_ & _ & C). apply C. apply In_fv_fvn. eauto.
    + intros [H C]. apply fvn_vaxes in H. destruct H as [H|H]; [exact H|].
      assert (Hfv : In k (fv ed)) by (apply fv_of_fvn; eauto).
      assert (HP : In (k, n) (paxes t)) by (apply fvn_vaxes; right; exact H).
      destruct (in_dec Pos.eq_dec k (flat_map fv others)) as [Hin|Hn].
      * apply In_fv_fvn in Hin. destruct Hin as (n' & Hn').
        assert (HP' : In (k, n') (paxes t)) by (apply fvn_vaxes; left; exact Hn').
        rewrite (keys_fun _ k n n' (wf_nodup V t W) HP HP'). exact Hn'.
      * exfalso. apply C. apply kk_spec. split; [apply in_map_iff; exists (k, n); auto|auto].
Qed.

(** backing of [t] at an index through the reduced dimension *)
Lemma split_backing rho ipre ipost i : length ipre = length pre ->
  (Forall (inrange rho) (vaxes t) /\ evals rho (vaxes t) = ipre ++ i :: ipost) <->
  (Forall (inrange rho) others /\ evals rho others = ipre ++ ipost /\ inrange rho ed /\ eval rho ed = i).
Proof.
  intros L. rewrite Evx. unfold others. rewrite !Forall_app, Forall_cons_iff, !evals_app'. unfold evals at 2. cbn [map]. fold (evals rho post).
  split.
  - intros [(R1 & R2 & R3) E]. apply app_inj_len in E; [|unfold evals; rewrite map_length; symmetry; exact L]. destruct E as [E1 E2].
    injection E2 as Ei Ep. split; [split; assumption|]. split; [rewrite E1, Ep; reflexivity|]. split; assumption.
  - intros ([R1 R3] & E & R2 & Ei). apply app_inj_len in E; [|unfold evals; rewrite map_length; symmetry; exact L]. destruct E as [E1 E2].
    split; [split; [exact R1|split; [exact R2|exact R3]]|]. rewrite E1, E2, Ei. reflexivity.
Qed.

Section WithEnv.
Variable rho' : env.
Hypothesis R' : Forall (inrange rho') others.

(** the environment of one physical element along the reduced dimension *)
Let rho_of (pi : list pn) : env := menv kk (env_of pi) rho'.

Lemma rho_of_others pi k : In k (flat_map fv others) -> rho_of pi k = rho' k.
Proof.
  intros Hk. unfold rho_of, menv. destruct (pmem k kk) eqn:E; [|reflexivity]. apply pmem_In in E. apply kk_spec in E. tauto.
Qed.

Lemma ks_nodup : NoDup (map fst ks).
Proof. unfold ks. apply NoDup_map_filter'. apply (wf_nodup V t W). Qed.

Lemma rho_of_inrange pi : In pi (all_envs ks) -> Forall (inrange (rho_of pi)) others /\ evals (rho_of pi) others = evals rho' others /\ inrange (rho_of pi) ed.
Proof.
  intros Hpi. split; [|split].
  - apply (Forall_inrange_ext' rho'); [intros k Hk; symmetry; apply rho_of_others; exact Hk|exact R'].
  - apply evals_ext. intros k Hk. apply rho_of_others. exact Hk.
  - apply inrange_fvn. intros k n Hk. unfold rho_of, menv. destruct (pmem k kk) eqn:E.
    + apply pmem_In in E. apply (env_of_in_range ks pi ks_nodup Hpi).
      unfold kk in E. apply in_map_iff in E. destruct E as ([k' n'] & Ek & Hin). simpl in Ek. subst k'.
      assert (HP : In (k, n) (paxes t)) by (apply fvn_vaxes; right; exact Hk).
      assert (HP' : In (k, n') (paxes t)) by (unfold ks in Hin; apply filter_In in Hin; tauto).
      rewrite (keys_fun _ k n n' (wf_nodup V t W) HP HP'). exact Hin.
    + apply pmem_false in E.
      assert (HP : In (k, n) (paxes t)) by (apply fvn_vaxes; right; exact Hk).
      destruct (in_dec Pos.eq_dec k (flat_map fv others)) as [Hin|Hn].
      * apply In_fv_fvn in Hin. destruct Hin as (n' & Hn').
        assert (HP' : In (k, n') (paxes t)) by (apply fvn_vaxes; left; exact Hn').
        rewrite (keys_fun _ k n n' (wf_nodup V t W) HP HP'). exact (proj1 (inrange_list_fvn rho' others) R' k n' Hn').
      * exfalso. apply E. apply kk_spec. split; [apply in_map_iff; exists (k, n); auto|]. split; [apply fv_of_fvn; eauto|exact Hn].
Qed.

(** the elements of [t] along the dimension that are backed are exactly the images of [all_envs ks] *)
Lemma backed_along rho ipre ipost i : length ipre = length pre -> evals rho' others = ipre ++ ipost ->
  Forall (inrange rho) (vaxes t) -> evals rho (vaxes t) = ipre ++ i :: ipost ->
  exists pi, In pi (all_envs ks) /\ eval (rho_of pi) ed = i /\ pget V t (rho_of pi) = pget V t rho.
Proof.
  intros L E' R E. destruct (proj1 (split_backing rho ipre ipost i L) (conj R E)) as (Ro & Eo & Re & Ei).
  assert (Agree : forall k, In k (flat_map fv others) -> rho k = rho' k).
  { apply (pattern_injective others rho rho' Ro R'). unfold evals in Eo, E'. rewrite Eo, E'. reflexivity. }
  set (pi := map (fun kn : pn => (fst kn, rho (fst kn))) ks).
  assert (Hpi : In pi (all_envs ks)).
  { apply all_envs_complete. intros k n Hk. unfold ks in Hk. apply filter_In in Hk. destruct Hk as [Hk _].
    apply (wf_fv V t W) in Hk. exact (proj1 (inrange_list_fvn rho (vaxes t)) R k n Hk). }
  assert (Same : forall k, In k (flat_map fv (vaxes t)) -> rho_of pi k = rho k).
  { intros k Hk. unfold rho_of, menv. destruct (pmem k kk) eqn:Ek.
    - apply pmem_In in Ek. unfold env_of, pi. rewrite assoc_restrict by exact Ek. reflexivity.
    - apply pmem_false in Ek. symmetry. apply Agree.
      destruct (in_dec Pos.eq_dec k (flat_map fv others)) as [Hin|Hn]; [exact Hin|]. exfalso. apply Ek. apply kk_spec.
      assert (Hk' : In k (map fst (paxes t))).
      { apply In_fv_fvn in Hk. destruct Hk as (n & Hk). apply (wf_fv V t W) in Hk. apply in_map_iff. exists (k, n). auto. }
      split; [exact Hk'|]. split; [|exact Hn].
      rewrite Evx, flat_map_app in Hk. simpl in Hk. unfold others in Hn. rewrite flat_map_app in Hn. rewrite !in_app_iff in *. tauto. }
  exists pi. split; [exact Hpi|]. split.
  - rewrite <- Ei. apply eval_ext. intros k Hk. apply Same. rewrite Evx, flat_map_app. simpl. rewrite !in_app_iff. tauto.
  - unfold pget. f_equal. apply pcoords_ext. intros k Hk. apply Same. apply (wf_covers V t W). exact Hk.
Qed.

Lemma images_nodup : NoDup (map (fun pi => eval (rho_of pi) ed) (all_envs ks)).
Proof.
  assert (Inj : forall pi pi', In pi (all_envs ks) -> In pi' (all_envs ks) -> eval (rho_of pi) ed = eval (rho_of pi') ed -> pi = pi').
  { intros pi pi' H H' E. apply (all_envs_eq ks pi pi' ks_nodup H H'). intros k Hk.
    destruct (rho_of_inrange pi H) as (_ & _ & R1). destruct (rho_of_inrange pi' H') as (_ & _ & R2).
    assert (Hke : In k (fv ed)) by (apply kk_spec in Hk; tauto).
    pose proof (eval_inj (rho_of pi) (rho_of pi') ed R1 R2 E k Hke) as Q.
    unfold rho_of, menv in Q. assert (pmem k kk = true) by (apply pmem_In; exact Hk). rewrite H0 in Q. exact Q. }
  assert (G : forall l, (forall pi, In pi l -> In pi (all_envs ks)) -> NoDup l -> NoDup (map (fun pi => eval (rho_of pi) ed) l)).
  { induction l as [|x l IH]; intros Hin ND; [constructor|]. inversion ND as [|? ? Hx ND']; subst. simpl. constructor.
    - intros H. apply in_map_iff in H. destruct H as (y & Ey & Hy). apply Hx.
      rewrite (Inj x y (Hin x (or_introl eq_refl)) (Hin y (or_intror Hy)) (eq_sym Ey)). exact Hy.
    - apply IH; [intros pi Hp; apply Hin; right; exact Hp|exact ND']. }
  apply G; [auto|].
  (* all_envs lists distinct environments *)
  clear. induction ks as [|[k n] vars IH]; [repeat constructor; intros []|]. cbn [all_envs].
  assert (H : forall s m, NoDup (flat_map (fun i => map (fun pi : list pn => (k, i) :: pi) (all_envs vars)) (seq s m))).
  { intros s m. revert s. induction m as [|m IHm]; intros s; [constructor|]. cbn [seq flat_map]. apply NoDup_app_disj.
    - apply NoDup_map_inj'; [intros a b E; inversion E; reflexivity|exact IH].
    - apply IHm.
    - intros x H1 H2. apply in_map_iff in H1. destruct H1 as (p & <- & _). apply in_flat_map in H2. destruct H2 as (j & Hj & H2).
      apply in_map_iff in H2. destruct H2 as (p' & E & _). inversion E. apply in_seq in Hj. lia. }
  apply H.
Qed.

End WithEnv.

(** the storage of the result, on either code path *)
Definition any_phys (allones : bool) : list nat -> V :=
  if allones then fun _ => ofb true
  else fun idx => ofb (existsb (fun pi => truth (physical t (merge_coords (paxes t) kk (env_of pi) idx))) (all_envs ks)).

Lemma existsb_ext_in' {A} (f g : A -> bool) l : (forall x, In x l -> f x = g x) -> existsb f l = existsb g l.
Proof.
  induction l as [|x l IH]; intros H; [reflexivity|]. simpl. rewrite (H x (or_introl eq_refl)), IH; [reflexivity|].
  intros y Hy. apply H. right. exact Hy.
Qed.

Theorem any_core idx' :
  (0 < numel ed \/ truth (default t) = false) -> length idx' = length others ->
  truth (denote V (mkPT (any_phys (truth (default t) && (pnumel ks <? numel ed))) ps others (default t)) idx') =
  existsb (fun i => truth (denote V t (firstn (length pre) idx' ++ i :: skipn (length pre) idx'))) (seq 0 (numel ed)).
Proof.
  intros Guard L.
  set (allones := truth (default t) && (pnumel ks <? numel ed)).
  set (r := mkPT (any_phys allones) ps others (default t)).
  set (ipre := firstn (length pre) idx'). set (ipost := skipn (length pre) idx').
  assert (Eidx : idx' = ipre ++ ipost) by (symmetry; apply firstn_skipn).
  assert (Lpre : length ipre = length pre).
  { unfold ipre. rewrite firstn_length. unfold others in L. rewrite app_length in L. lia. }
  assert (WR : wf V r) by (apply wf_any).
  assert (Lt : forall i, length (ipre ++ i :: ipost) = length (vaxes t)).
  { intros i. rewrite Evx, !app_length. simpl. unfold ipost. rewrite skipn_length, Lpre. unfold others in L. rewrite app_length in L. lia. }
  (* an image of all_envs ks is a backed element along the dimension *)
  assert (Img : forall rho' pi, Forall (inrange rho') others -> evals rho' others = idx' -> In pi (all_envs ks) ->
            let rp := menv kk (env_of pi) rho' in
            eval rp ed < numel ed /\ denote V t (ipre ++ eval rp ed :: ipost) = pget V t rp).
  { intros rho' pi R' E' Hpi rp. destruct (rho_of_inrange rho' R' pi Hpi) as (Ro & Eo & Re). fold kk in Ro, Eo, Re. fold rp in Ro, Eo, Re.
    split; [apply eval_bound; exact Re|].
    assert (B : Forall (inrange rp) (vaxes t) /\ evals rp (vaxes t) = ipre ++ eval rp ed :: ipost).
    { apply (split_backing rp ipre ipost (eval rp ed) Lpre). repeat split; try assumption. rewrite Eo, E'. exact Eidx. }
    destruct B as [B1 B2]. rewrite <- B2. apply denote_backed; [apply wf_covers; exact W|exact B1]. }
  destruct (denote_cases V r idx' (wf_covers V r WR) L) as [(rho' & R' & E' & D)|[N D]].
  - cbn [vaxes r] in R', E'. rewrite D. unfold pget. cbn [physical paxes r].
    set (l := map (fun pi => eval (menv kk (env_of pi) rho') ed) (all_envs ks)).
    assert (Ll : length l = pnumel ks) by (unfold l; rewrite map_length; apply all_envs_length).
    assert (Back : forall i rho, Forall (inrange rho) (vaxes t) -> evals rho (vaxes t) = ipre ++ i :: ipost ->
              exists pi, In pi (all_envs ks) /\ eval (menv kk (env_of pi) rho') ed = i /\ pget V t (menv kk (env_of pi) rho') = pget V t rho).
    { intros i rho R E. apply (backed_along rho' R' rho ipre ipost i Lpre); [rewrite E'; exact Eidx|exact R|exact E]. }
    destruct allones eqn:A; unfold any_phys.
    + (* the all-ones shortcut *)
      rewrite truth_ofb. symmetry. unfold allones in A. apply andb_true_iff in A. destruct A as [Ad Ak]. apply Nat.ltb_lt in Ak.
      destruct (missing_value l (numel ed)) as (i & Hi & Hn); [lia|].
      apply existsb_exists. exists i. split; [apply in_seq; lia|].
      destruct (denote_cases V t _ (wf_covers V t W) (Lt i)) as [(rho & R & E & _)|[_ Dt]]; [|rewrite Dt; exact Ad].
      exfalso. destruct (Back i rho R E) as (pi & Hpi & Ei & _). apply Hn. unfold l. apply in_map_iff. exists pi. auto.
    + rewrite truth_ofb.
      rewrite (existsb_ext_in' _ (fun pi => truth (pget V t (menv kk (env_of pi) rho'))) (all_envs ks)).
      2:{ intros pi _. unfold pget. unfold ps. rewrite merge_coords_spec. reflexivity. }
      apply Bool.eq_iff_eq_true. rewrite !existsb_exists. split.
      * intros (pi & Hpi & T). destruct (Img rho' pi R' E' Hpi) as [Hlt Hd]. cbv zeta in Hlt, Hd.
        exists (eval (menv kk (env_of pi) rho') ed). split; [apply in_seq; lia|]. rewrite Hd. exact T.
      * intros (i & Hi & T). apply in_seq in Hi.
        destruct (denote_cases V t _ (wf_covers V t W) (Lt i)) as [(rho & R & E & Dt)|[Nt Dt]].
        -- destruct (Back i rho R E) as (pi & Hpi & _ & Ep). exists pi. split; [exact Hpi|]. rewrite Ep, <- Dt. exact T.
        -- (* an unbacked element with a true default: impossible here, the images cover the dimension *)
           exfalso. rewrite Dt in T. unfold allones in A. rewrite T in A. simpl in A. apply Nat.ltb_ge in A.
           assert (Inc : incl (seq 0 (numel ed)) l).
           { apply NoDup_length_incl.
             - apply (images_nodup rho' R').
             - rewrite seq_length, Ll. exact A.
             - intros v Hv. unfold l in Hv. apply in_map_iff in Hv. destruct Hv as (pi & <- & Hpi).
               destruct (Img rho' pi R' E' Hpi) as [Hlt _]. cbv zeta in Hlt. apply in_seq. lia. }
           assert (Hil : In i l) by (apply Inc; apply in_seq; lia).
           unfold l in Hil. apply in_map_iff in Hil. destruct Hil as (pi & Ei & Hpi).
           destruct (rho_of_inrange rho' R' pi Hpi) as (Ro & Eo & Re).
           apply (Nt (menv kk (env_of pi) rho')).
           ++ apply (split_backing _ ipre ipost i Lpre). repeat split; try assumption. rewrite Eo, E'. exact Eidx.
           ++ apply (split_backing _ ipre ipost i Lpre). repeat split; try assumption. rewrite Eo, E'. exact Eidx.
  - rewrite D. cbn [default r].
    rewrite (existsb_ext_in' _ (fun _ => truth (default t)) (seq 0 (numel ed))).
    + rewrite existsb_const, seq_length. destruct Guard as [G|G]; [|rewrite G; rewrite andb_false_r; reflexivity].
      destruct (Nat.eqb_spec (numel ed) 0); [lia|reflexivity].
    + intros i _. f_equal.
      destruct (denote_cases V t _ (wf_covers V t W) (Lt i)) as [(rho & R & E & _)|[_ Dt]]; [|exact Dt].
      exfalso. destruct (proj1 (split_backing rho ipre ipost i Lpre) (conj R E)) as (Ro & Eo & _).
      apply (N rho); cbn [vaxes r]; [exact Ro|rewrite Eo; symmetry; exact Eidx].
Qed.

End Core.

(** * the operation as coded *)
Lemma fv_replace_unit (pre post : list axis) ed :
  flat_map fv (pre ++ unitAxis :: post) = flat_map fv (pre ++ post) /\ flat_map fv (pre ++ ed :: post) = flat_map fv pre ++ fv ed ++ flat_map fv post.
Proof. rewrite !flat_map_app. simpl. split; reflexivity. Qed.

Theorem any_refines dim keepdim (t r : ptensor) ed :
  wf V t -> nth_error (vaxes t) dim = Some ed ->
  (0 < numel ed \/ truth (default t) = false) ->
  pt_any V truth ofb dim keepdim t = Ok r ->
  wf V r /\ default r = default t /\
  forall idx', length idx' + 1 = length (vaxes t) ->
    truth (denote V r (if keepdim then firstn dim idx' ++ [0] ++ skipn dim idx' else idx')) =
    existsb (fun i => truth (denote V t (firstn dim idx' ++ i :: skipn dim idx'))) (seq 0 (numel ed)).
Proof.
  intros W Hn Guard H. unfold pt_any in H. rewrite Hn in H.
  destruct (nth_error_split _ _ Hn) as (pre & post & Evx & Lpre). subst dim.
  (* both values of keepdim give the same sets of axes; the patterns differ by one unitAxis *)
  assert (Evs : (if keepdim then replace_nth (length pre) unitAxis (vaxes t) else remove_nth (length pre) (vaxes t)) =
                if keepdim then pre ++ unitAxis :: post else pre ++ post).
  { rewrite Evx. destruct keepdim; [apply replace_nth_app|apply remove_nth_app]. }
  rewrite Evs in H.
  assert (Efv : flat_map fv (if keepdim then pre ++ unitAxis :: post else pre ++ post) = flat_map fv (pre ++ post)).
  { destruct keepdim; [apply (fv_replace_unit pre post ed)|reflexivity]. }
  rewrite Efv in H.
  set (r0 := mkPT (any_phys t pre post ed (truth (default t) && (pnumel (filter (fun kn => pmem (fst kn) (fv ed) && negb (pmem (fst kn) (flat_map fv (pre ++ post)))) (paxes t)) <? numel ed)))
                  (filter (fun kn => negb (pmem (fst kn) (map fst (filter (fun kn0 => pmem (fst kn0) (fv ed) && negb (pmem (fst kn0) (flat_map fv (pre ++ post)))) (paxes t))))) (paxes t))
                  (pre ++ post) (default t)).
  assert (W0 : wf V r0) by (apply (wf_any t pre post ed W Evx)).
  assert (Er : r = if keepdim then pt_unsqueeze V (length pre) r0 else r0).
  { unfold r0, any_phys. destruct (truth (default t) && (pnumel _ <? numel ed)); inversion H; subst r; destruct keepdim; try reflexivity;
      unfold pt_unsqueeze, with_vaxes; cbn [physical paxes vaxes default]; rewrite firstn_app_exact, skipn_app_exact; reflexivity. }
  assert (Core : forall idx', length idx' + 1 = length (vaxes t) ->
            truth (denote V r0 idx') = existsb (fun i => truth (denote V t (firstn (length pre) idx' ++ i :: skipn (length pre) idx'))) (seq 0 (numel ed))).
  { intros idx' L. apply (any_core t pre post ed W Evx idx' Guard). rewrite Evx, !app_length in L. simpl in L. rewrite app_length. lia. }
  rewrite Er. destruct keepdim.
  - split.
    { apply wf_with_vaxes; [|exact W0]. intros kn.
      rewrite <- (firstn_skipn (length pre) (vaxes r0)) at 3. rewrite !flat_map_app. simpl. rewrite !in_app_iff. tauto. }
    split; [reflexivity|].
    intros idx' L. rewrite <- (Core idx' L). f_equal. apply unsqueeze_refines; [apply wf_covers; exact W0|].
    cbn [vaxes r0]. rewrite Evx, !app_length in L. simpl in L. rewrite app_length. lia.
  - split; [exact W0|]. split; [reflexivity|]. exact Core.
Qed.

End Any.

(** the guard is needed: over an EMPTY dimension torch.any is False everywhere, but the result keeps the
    default True for its unbacked cells (a 0 x 3 tensor whose second dimension is [0 + Y(2) + 1]) *)
Example any_empty_dim_refuted :
  let t := mkPT (fun _ : list nat => false) [(1%positive, 0); (2%positive, 2)] [Phys 1 0; Sum 0 (Phys 2 2) 1] true in
  exists r, pt_any bool (fun b => b) (fun b => b) 0 false t = Ok r /\ wf bool t /\
            denote bool r [2] = true /\ existsb (fun i => denote bool t [i; 2]) (seq 0 (numel (Phys 1 0))) = false.
Proof.
  eexists. split; [reflexivity|]. split; [|split; reflexivity].
  constructor; cbn [paxes vaxes]; [repeat constructor; simpl; intuition discriminate|intros k n; simpl; intuition].
Qed.

(** the hypotheses of [any_refines] are satisfiable on both code paths: a 2 x 3 tensor stored on 2 x 2
    (second dimension [0 + Y(2) + 1]), default true: reducing dimension 1 takes the all-ones shortcut,
    reducing dimension 0 reduces the storage *)
Example any_ex :
  let t := mkPT (fun c => match c with [1; 1] => true | _ => false end)
                [(1%positive, 2); (2%positive, 2)] [Phys 1 2; Sum 0 (Phys 2 2) 1] true in
  wf bool t /\
  exists r1 r0, pt_any bool (fun b => b) (fun b => b) 1 false t = Ok r1 /\ pt_any bool (fun b => b) (fun b => b) 0 true t = Ok r0 /\
    denote bool r1 [0] = true /\ denote bool r0 [0; 0] = false /\ denote bool r0 [0; 1] = true /\ denote bool r0 [0; 2] = true.
Proof.
  split; [constructor; cbn [paxes vaxes]; [repeat constructor; simpl; intuition discriminate|intros k n; simpl; intuition]|].
  do 2 eexists. repeat split; reflexivity.
Qed.
