(** One replacement step preserves the invariant and the denotation. *)
From Coq Require Import List Arith Bool PeanoNat Lia Permutation.
Import ListNotations.
Require Import Fggs.Model.Replace Fggs.Proofs.Replace_base Fggs.Proofs.Replace_wf Fggs.Proofs.Replace_explicit
  Fggs.Proofs.Replace_spec Fggs.Proofs.Replace_model_spec Fggs.Proofs.Replace_inv.

Section OneStep.
  Variable L : list elabel.
  Hypothesis HF : functional L.
  Variables (s : rstate) (p0 : path) (pre post : list task) (tk : task) (r : rule) (a : asst_t) (cs : list (edge * dtree)).
  Hypothesis HI : Inv L s.
  Hypothesis HS : split_task p0 (rs_pending s) = Some (pre, tk, post).
  Hypothesis HT : tk_tree tk = DT r a cs.

  Lemma HP : rs_pending s = pre ++ tk :: post.
  Proof. apply (split_task_spec _ _ _ _ _ HS). Qed.
  Lemma Hp0 : tk_path tk = p0.
  Proof. apply (split_task_spec _ _ _ _ _ HS). Qed.

  Local Notation G := (rs_graph s).
  Local Notation nx := (rs_next s).
  Local Notation e := (tk_edge tk).
  Local Notation R := (r_rhs r).
  Local Notation p := (tk_path tk).
  Local Notation nm := (r_nm (rs_next s) (tk_edge tk) (r_rhs r)).
  Local Notation em := (r_em (rs_next s) (tk_edge tk) (r_rhs r)).
  Local Notation newt := (map (fun kc => mkTask (tk_path tk ++ [e_id (fst kc)])
                                               (ecopy (r_em (rs_next s) (tk_edge tk) (r_rhs r)) (fst kc)) (snd kc)) cs).
  Local Notation nn := (rs_nnames s).
  Local Notation en := (rs_enames s).
  Local Notation nn' := (rs_nnames s ++ new_nnames (tk_path tk) (r_rhs r) (r_nm (rs_next s) (tk_edge tk) (r_rhs r))).
  Local Notation en' := (filter (fun x => negb (id_eqb (e_id (fst x)) (e_id (tk_edge tk)))) (rs_enames s)
                         ++ new_enames (tk_path tk) (r_em (rs_next s) (tk_edge tk) (r_rhs r))).

  Definition s_next (as' : asst_t) : rstate :=
    mkRS (r_graph G nx e R) (r_next nx R) as' (pre ++ newt ++ post) nn' en'.

  Lemma tk_in : In tk (rs_pending s).
  Proof. rewrite HP. apply in_app_iff; simpl; auto. Qed.

  Lemma tk_wf : wf_dtreeb L (DT r a cs) = true.
  Proof. rewrite <- HT. apply (I_pend L s HI tk tk_in). Qed.

  Lemma step_guard : repl_guard L G nx e R.
  Proof.
    destruct (I_pend L s HI tk tk_in) as [Hin [Hw Hl]].
    destruct (wf_dtreeb_unfold _ _ _ _ tk_wf) as [WR [LR _]].
    constructor; auto.
    - apply (I_wf L s HI).
    - apply (I_below L s HI).
    - apply (wr_graph r WR).
    - apply (wr_ext r WR).
    - rewrite Hl, HT. cbn [t_rule]. apply (wr_type r WR).
    - apply (I_lab L s HI).
  Qed.

  Lemma keys_in : forall kc, In kc cs -> In (fst kc) (g_edges R).
  Proof.
    intros [k c] Hkc. destruct (wf_dtreeb_unfold _ _ _ _ tk_wf) as [_ [_ [_ [_ [_ HC]]]]].
    apply (HC k c Hkc).
  Qed.

  Lemma em_keys : map fst em = g_edges R.
  Proof. unfold r_em. apply combine_keys. unfold r_es. rewrite ecopies_length; auto. Qed.

  Lemma ecopy_spec : forall k, In k (g_edges R) ->
    In (k, ecopy em k) em /\
    exists j, ecopy em k = mkEdge (Fresh j) (e_label k) (map (gn nm) (e_att k)) /\ nx <= j < r_next nx R.
  Proof.
    intros k Hk. unfold ecopy.
    destruct (aget_In_key edge_eqb edge_eqb_eq em k) as [x Hx]. { rewrite em_keys; auto. }
    rewrite Hx. pose proof (aget_Some_In edge_eqb edge_eqb_eq _ _ _ Hx) as Hin. split; auto.
    unfold r_em, r_es in Hin. pose proof (in_combine_r _ _ _ _ Hin) as Hr.
    apply combine_ecopies_In in Hin. destruct Hin as [_ [j Hj]].
    exists j. split; auto. apply ecopies_In in Hr. destruct Hr as [j' [re [Hr [Hb _]]]].
    rewrite Hj in Hr. inversion Hr; subst. unfold r_next. lia.
  Qed.

  Lemma step_explicit : exists as',
    assign_nodes nm a (g_nodes R) (rs_asst s) = (as', None) /\ step p0 s = Ok (s_next as').
  Proof.
    destruct (wf_dtreeb_unfold _ _ _ _ tk_wf) as [_ [_ [_ [HA _]]]].
    destruct (assign_nodes_ok nm a (g_nodes R) (rs_asst s)) as [as' Has]; auto.
    { intros v Hv. destruct (r_nm_total _ _ _ _ _ step_guard v Hv) as [x [Hx _]]. eauto. }
    exists as'. split; auto.
    unfold step. rewrite HS, HT. rewrite (replace_explicit L _ _ _ _ step_guard). rewrite Has.
    rewrite child_tasks_ok.
    - reflexivity.
    - intros kc Hkc. rewrite em_keys. apply keys_in; auto.
  Qed.

  Lemma new_nnames_eq : new_nnames p R nm
    = map (fun rg => (snd rg, NInst p (n_id (fst rg)))) (combine (nonext R) (copies nx (nonext R))).
  Proof. unfold new_nnames. rewrite (r_nm_nonext _ _ _ _ _ step_guard). reflexivity. Qed.

  Lemma new_nnames_keys : map fst (new_nnames p R nm) = copies nx (nonext R).
  Proof.
    rewrite new_nnames_eq, map_map. cbn [fst]. apply combine_vals. rewrite copies_length; auto.
  Qed.

  Lemma new_enames_keys : map fst (new_enames p em) = r_es nx e R.
  Proof.
    unfold new_enames. rewrite map_map. cbn [fst]. unfold r_em. apply combine_vals.
    unfold r_es. rewrite ecopies_length; auto.
  Qed.

  Lemma other_task_id : forall tk', In tk' (pre ++ post) -> e_id (tk_edge tk') <> e_id e.
  Proof.
    intros tk' Hin Heq. pose proof (I_pid L s HI) as ND. rewrite HP, map_app in ND. cbn [map] in ND.
    apply NoDup_remove_2 in ND. apply ND. rewrite <- Heq, <- map_app.
    apply (in_map (fun t => e_id (tk_edge t))); auto.
  Qed.

  Lemma other_task_in : forall tk', In tk' (pre ++ post) -> In tk' (rs_pending s).
  Proof. intros tk' H. rewrite HP. apply in_app_iff in H. apply in_app_iff. simpl. tauto. Qed.

  Lemma s_next_inv : forall as', Inv L (s_next as').
  Proof.
    intros as'. pose proof step_guard as GD.
    destruct (wf_dtreeb_unfold _ _ _ _ tk_wf) as [_ [_ [_ [_ [KND HC]]]]].
    constructor; cbn [s_next rs_graph rs_next rs_pending rs_nnames rs_enames].
    - apply (r_graph_wf L); auto.
    - apply (r_graph_below L); auto.
    - apply (r_graph_labels L); auto.
    - rewrite map_app, (I_nn L s HI), new_nnames_keys. reflexivity.
    - rewrite map_app, (map_fst_filter (fun e' => negb (id_eqb (e_id e') (e_id e)))), (I_en L s HI), new_enames_keys.
      reflexivity.
    - intros tk' Hin. rewrite app_assoc in Hin. apply in_app_iff in Hin.
      rewrite in_app_iff in Hin.
      assert (C : In tk' (pre ++ post) \/ In tk' newt) by (rewrite in_app_iff; tauto). clear Hin.
      destruct C as [C|C].
      + destruct (I_pend L s HI tk' (other_task_in tk' C)) as [A1 [A2 A3]]. split; [|auto].
        unfold r_graph; cbn [g_edges]. apply in_app_iff; left. unfold kept. apply filter_In. split; auto.
        apply negb_true_iff. apply id_eqb_neq. apply other_task_id; auto.
      + apply in_map_iff in C. destruct C as [[k c] [<- Hkc]]. cbn [tk_edge tk_tree fst snd].
        destruct (HC k c Hkc) as [Hk [Hl [_ Hw]]].
        destruct (ecopy_spec k Hk) as [Hin [j [Hj _]]].
        split; [|split; auto].
        * unfold r_graph; cbn [g_edges]. apply in_app_iff; right. unfold r_em in Hin. eapply in_combine_r; eauto.
        * rewrite Hj. cbn [e_label]. auto.
    - rewrite !map_app. eapply Permutation_NoDup; [apply Permutation_app_swap_app|].
      apply NoDup_app_intro.
      + rewrite map_map. cbn [tk_edge]. apply NoDup_map_inj.
        * intros [k1 c1] [k2 c2] H1 H2 Heq. cbn [fst] in Heq.
          destruct (ecopy_spec k1 (keys_in _ H1)) as [I1 _]. destruct (ecopy_spec k2 (keys_in _ H2)) as [I2 _].
          assert (k1 = k2).
          { unfold r_em in I1, I2. eapply (combine_inj_l e_id); [|exact I1|exact I2|exact Heq].
            unfold r_es. apply ecopies_ids_nodup. }
          subst. eapply (NoDup_map_inj_in (fun kc : edge * dtree => e_id (fst kc))); eauto.
        * eapply NoDup_map_NoDup; eauto.
      + pose proof (I_pid L s HI) as ND. rewrite HP, map_app in ND. cbn [map] in ND.
        apply NoDup_remove_1 in ND. auto.
      + intros i Hi Ho. rewrite map_map in Hi. apply in_map_iff in Hi. destruct Hi as [[k c] [<- Hkc]].
        cbn [tk_edge fst] in Ho. destruct (ecopy_spec k (keys_in _ Hkc)) as [_ [j [Hj Hb]]].
        rewrite Hj in Ho. cbn [e_id] in Ho. rewrite <- map_app in Ho. apply in_map_iff in Ho.
        destruct Ho as [tk' [Hid Hin]].
        destruct (I_pend L s HI tk' (other_task_in tk' Hin)) as [A1 _].
        destruct (I_below L s HI) as [_ B2]. specialize (B2 _ A1). rewrite Hid in B2. simpl in B2. lia.
  Qed.

  (** ** nodes of the denotation *)
  Lemma den_nodes_step : forall as', Permutation (den_nodes (s_next as')) (den_nodes s).
  Proof.
    intros. unfold den_nodes. cbn [s_next rs_pending rs_nnames]. rewrite HP.
    rewrite map_app, !flat_map_app'. cbn [flat_map].
    change (task_nodes tk) with (dsub_nodes (tk_path tk) (tk_tree tk)). rewrite HT. cbn [dsub_nodes].
    assert (E1 : map dn_of (new_nnames p R nm) = map (fun v => (NInst p (n_id v), n_label v)) (nonext R)).
    { rewrite new_nnames_eq, map_map. unfold dn_of; cbn [fst snd].
      apply (map_combine_copies (fun v l => (NInst p (n_id v), l))). }
    assert (E2 : flat_map task_nodes newt = flat_map (fun kc => dsub_nodes (p ++ [e_id (fst kc)]) (snd kc)) cs).
    { rewrite flat_map_map'. reflexivity. }
    rewrite E1, E2. unfold nonext. rewrite <- !app_assoc. apply Permutation_app_head.
    apply Permutation_app_swap_app.
  Qed.

  (** ** the key fact: names of the images of the rule's nodes *)
  Local Notation xs := (map (nname (rs_nnames s)) (e_att (tk_edge tk))).
  Local Notation m := (ext_map (g_ext (r_rhs r)) (map (nname (rs_nnames s)) (e_att (tk_edge tk)))).

  Lemma m_eq : m = combine (g_ext R) xs.
  Proof.
    apply ext_map_nodup. apply (rg_ext _ _ _ _ _ step_guard).
    rewrite map_length. symmetry. apply (guard_lengths _ _ _ _ _ step_guard).
  Qed.

  Lemma old_node_name : forall v, In v (g_nodes G) -> nname nn' v = nname nn v.
  Proof. intros. apply nname_app_old. rewrite (I_nn L s HI). auto. Qed.

  Lemma copies_not_old : forall x, In x (copies nx (nonext R)) -> ~ In x (g_nodes G).
  Proof.
    intros x Hx Hin. apply copies_In in Hx. destruct Hx as [k [v [-> [Hk _]]]].
    destruct (I_below L s HI) as [B1 _]. specialize (B1 _ Hin). simpl in B1. lia.
  Qed.

  Lemma K : forall v, In v (g_nodes R) -> nname nn' (gn nm v) = local_name p m v.
  Proof.
    intros v Hv. pose proof step_guard as GD.
    destruct (r_nm_total _ _ _ _ _ GD v Hv) as [x [Hx [Hin [Hl [HE HN]]]]].
    unfold gn. rewrite Hx. unfold local_name. rewrite m_eq.
    destruct (is_ext R v) eqn:E.
    - apply is_ext_In in E. specialize (HE E).
      assert (Hxa : In x (e_att e)) by (eapply in_combine_r; eauto).
      rewrite old_node_name.
      2:{ apply (wf_att G (rg_wf _ _ _ _ _ GD) e (rg_in _ _ _ _ _ GD)); auto. }
      rewrite combine_map_r, (aget_map_val node_eqb).
      rewrite (In_aget_nodup node_eqb node_eqb_eq _ v x); auto.
      rewrite combine_keys. apply (rg_ext _ _ _ _ _ GD). apply (guard_lengths _ _ _ _ _ GD).
    - assert (Hne : ~ In v (g_ext R)). { intro Hc. apply is_ext_In in Hc. congruence. }
      specialize (HN Hne).
      assert (N : aget node_eqb (combine (g_ext R) xs) v = None).
      { apply (aget_None node_eqb node_eqb_eq). rewrite combine_keys; auto.
        rewrite map_length. apply (guard_lengths _ _ _ _ _ GD). }
      rewrite N. unfold nname. rewrite aget_app.
      assert (Hxc : In x (copies nx (nonext R))) by (eapply in_combine_r; eauto).
      assert (N2 : aget node_eqb nn x = None).
      { apply (aget_None node_eqb node_eqb_eq). rewrite (I_nn L s HI). apply copies_not_old; auto. }
      rewrite N2. rewrite (In_aget_nodup node_eqb node_eqb_eq _ x (NInst p (n_id v))); auto.
      + rewrite new_nnames_keys. eapply NoDup_map_NoDup. apply copies_ids_nodup.
      + rewrite new_nnames_eq. apply in_map_iff. exists (v, x). split; auto.
  Qed.

  Lemma atts_old : forall x, In x (g_edges G) -> map (nname nn') (e_att x) = map (nname nn) (e_att x).
  Proof.
    intros x Hx. apply map_ext_in. intros v Hv. apply old_node_name.
    apply (wf_att G (I_wf L s HI) x Hx); auto.
  Qed.

  (** ** filters *)
  Lemma new_task_old_edge : forall x, In x (g_edges G) -> is_pending newt x = false.
  Proof.
    intros x Hx. apply is_pending_false. intros tk' Hin Heq.
    apply in_map_iff in Hin. destruct Hin as [[k c] [<- Hkc]]. cbn [tk_edge fst] in Heq.
    destruct (ecopy_spec k (keys_in _ Hkc)) as [_ [j [Hj Hb]]]. rewrite Hj in Heq. cbn [e_id] in Heq.
    destruct (I_below L s HI) as [_ B2]. specialize (B2 _ Hx). rewrite <- Heq in B2. simpl in B2. lia.
  Qed.

  Lemma old_task_new_edge : forall re ge, In (re, ge) em -> is_pending (pre ++ post) ge = false.
  Proof.
    intros re ge Hin. apply is_pending_false. intros tk' Hin' Heq.
    destruct (I_pend L s HI tk' (other_task_in tk' Hin')) as [A1 _].
    destruct (I_below L s HI) as [_ B2]. specialize (B2 _ A1).
    unfold r_em, r_es in Hin. apply in_combine_r in Hin. apply ecopies_In in Hin.
    destruct Hin as [j [re' [-> [Hb _]]]]. rewrite Heq in B2. simpl in B2. lia.
  Qed.

  Lemma filter_old : filter (np (pre ++ newt ++ post)) (filter (fun x => negb (id_eqb (e_id (fst x)) (e_id e))) en)
                     = filter (np (rs_pending s)) en.
  Proof.
    rewrite filter_filter. apply filter_ext_in. intros [x nmx] Hin.
    assert (Hx : In x (g_edges G)). { rewrite <- (I_en L s HI). apply in_map_iff. exists (x, nmx); auto. }
    unfold np. cbn [fst]. rewrite HP, !is_pending_app. rewrite (new_task_old_edge x Hx).
    change (is_pending (tk :: post) x) with (id_eqb (e_id e) (e_id x) || is_pending post x).
    rewrite (id_eqb_sym (e_id x) (e_id e)).
    destruct (id_eqb (e_id e) (e_id x)), (is_pending pre x), (is_pending post x); reflexivity.
  Qed.

  Lemma em_nodup_keys : NoDup (map fst em).
  Proof. rewrite em_keys. apply wf_graph_nodup_edges. apply (rg_wfr _ _ _ _ _ step_guard). Qed.

  Lemma new_pending_iff : forall re ge, In (re, ge) em -> is_pending newt ge = is_key cs re.
  Proof.
    intros re ge Hin. destruct (is_key cs re) eqn:E.
    - unfold is_key in E. apply (memb_In edge_eqb edge_eqb_eq) in E. apply in_map_iff in E.
      destruct E as [[k c] [Hk Hkc]]. cbn [fst] in Hk. subst k.
      unfold is_pending. apply existsb_exists.
      exists (mkTask (p ++ [e_id re]) (ecopy em re) c). split.
      + apply in_map_iff. exists (re, c). auto.
      + cbn [tk_edge]. unfold ecopy. rewrite (In_aget_nodup edge_eqb edge_eqb_eq _ re ge em_nodup_keys Hin).
        apply id_eqb_refl.
    - destruct (is_pending newt ge) eqn:E2; auto. exfalso.
      unfold is_pending in E2. apply existsb_exists in E2. destruct E2 as [tk' [Hin' Hid]].
      apply in_map_iff in Hin'. destruct Hin' as [[k c] [<- Hkc]]. cbn [tk_edge fst] in Hid.
      apply id_eqb_eq in Hid. destruct (ecopy_spec k (keys_in _ Hkc)) as [I1 _].
      assert (k = re).
      { unfold r_em in I1, Hin. eapply (combine_inj_l e_id); [|exact I1|exact Hin|exact Hid].
        unfold r_es. apply ecopies_ids_nodup. }
      subst k. unfold is_key in E. apply (memb_false edge_eqb edge_eqb_eq) in E. apply E.
      apply in_map_iff. exists (re, c); auto.
  Qed.

  Lemma filter_new : filter (np (pre ++ newt ++ post)) (new_enames p em)
    = map (fun rg => (snd rg, NInst p (e_id (fst rg)))) (filter (fun rg => negb (is_key cs (fst rg))) em).
  Proof.
    unfold new_enames. rewrite filter_app_comm_map. f_equal. apply filter_ext_in.
    intros [re ge] Hin. unfold np. cbn [fst snd].
    rewrite !is_pending_app. rewrite (new_pending_iff re ge Hin).
    pose proof (old_task_new_edge re ge Hin) as O. rewrite is_pending_app in O.
    apply orb_false_iff in O. destruct O as [O1 O2]. rewrite O1, O2.
    rewrite orb_false_r. reflexivity.
  Qed.

  Lemma map_filter_combine : forall {A B C} (q : A -> bool) (H : A * B -> C) (H' : A -> C) (l1 : list A) (l2 : list B),
    length l1 = length l2 -> (forall x y, In (x, y) (combine l1 l2) -> H (x, y) = H' x) ->
    map H (filter (fun ab => q (fst ab)) (combine l1 l2)) = map H' (filter q l1).
  Proof.
    induction l1; destruct l2; simpl; intros; try discriminate; auto.
    destruct (q a0); simpl.
    - rewrite H1 by auto. f_equal. apply IHl1; auto.
    - apply IHl1; auto.
  Qed.

  (** ** edges of the denotation *)
  Lemma den_edges_step : forall as', Permutation (den_edges (s_next as')) (den_edges s).
  Proof.
    intros. pose proof step_guard as GD. unfold den_edges. cbn [s_next rs_pending rs_nnames rs_enames].
    rewrite filter_app, filter_old, filter_new, map_app.
    replace (flat_map (task_edges nn) (rs_pending s)) with (flat_map (task_edges nn) (pre ++ tk :: post))
      by (rewrite HP; reflexivity).
    rewrite !flat_map_app'. cbn [flat_map].
    change (task_edges nn tk) with (dsub_edges (tk_path tk) xs (tk_tree tk)). rewrite HT. cbn [dsub_edges].
    (* old finished edges keep their renaming *)
    assert (E1 : map (ren_edge nn') (filter (np (rs_pending s)) en) = map (ren_edge nn) (filter (np (rs_pending s)) en)).
    { apply map_ext_in. intros [x nmx] Hin. apply filter_In in Hin. destruct Hin as [Hin _].
      unfold ren_edge. cbn [fst snd]. f_equal. apply atts_old.
      rewrite <- (I_en L s HI). apply in_map_iff. exists (x, nmx); auto. }
    (* the new non-key edges *)
    assert (E2 : map (ren_edge nn') (map (fun rg => (snd rg, NInst p (e_id (fst rg))))
                                         (filter (fun rg => negb (is_key cs (fst rg))) em))
                 = map (fun x => (NInst p (e_id x), e_label x, map (local_name p m) (e_att x)))
                       (filter (fun x => negb (is_key cs x)) (g_edges R))).
    { rewrite map_map. unfold r_em.
      apply (map_filter_combine (fun x => negb (is_key cs x))).
      - unfold r_es. rewrite ecopies_length; auto.
      - intros re ge Hin. unfold ren_edge. cbn [fst snd].
        apply combine_ecopies_In in Hin. destruct Hin as [Hre [j ->]]. cbn [e_label e_att].
        f_equal. rewrite map_map. apply map_ext_in. intros v Hv. apply K.
        apply (wf_att R (rg_wfr _ _ _ _ _ GD) re Hre); auto. }
    (* tasks that stay pending *)
    assert (E3 : forall l, (forall t, In t l -> In t (pre ++ post)) ->
                 flat_map (task_edges nn') l = flat_map (task_edges nn) l).
    { intros l Hl. apply flat_map_ext_in. intros t Ht. unfold task_edges. f_equal.
      apply atts_old. apply (I_pend L s HI t (other_task_in t (Hl t Ht))). }
    (* the new tasks *)
    assert (E4 : flat_map (task_edges nn') newt
                 = flat_map (fun kc => dsub_edges (p ++ [e_id (fst kc)]) (map (local_name p m) (e_att (fst kc))) (snd kc)) cs).
    { rewrite flat_map_map'. apply flat_map_ext_in. intros [k c] Hkc. unfold task_edges. cbn [tk_path tk_edge tk_tree fst snd].
      f_equal. destruct (ecopy_spec k (keys_in _ Hkc)) as [_ [j [Hj _]]]. rewrite Hj. cbn [e_att].
      rewrite map_map. apply map_ext_in. intros v Hv. apply K.
      apply (wf_att R (rg_wfr _ _ _ _ _ GD) k (keys_in _ Hkc)); auto. }
    rewrite E1, E2, E4.
    rewrite (E3 pre) by (intros; apply in_app_iff; auto).
    rewrite (E3 post) by (intros; apply in_app_iff; auto).
    rewrite <- !app_assoc. apply Permutation_app_head.
    apply Permutation_app_swap_app.
  Qed.
End OneStep.
