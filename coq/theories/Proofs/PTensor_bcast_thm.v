(** Broadcasting in [expansion], part 3: the refinement theorems without the [no_broadcast] and
    [sizes_agree] guards.  For well-formed operands whose shapes are broadcast compatible
    ([bcast_ok]: at every aligned position the sizes agree or one side is [unitAxis]) the result of
    [binary] / [commutative] / [sub] / [div] has the broadcast shape and its element at [idx] is the
    operation applied to the elements of the operands at the broadcast indices [bidx]. *)
From Coq Require Import List Arith Lia PeanoNat Bool PArith.
Import ListNotations.
Require Import Fggs.Model.Axis Fggs.Model.AxisCheck Fggs.Model.PTensor Fggs.Model.PTensorCheck.
Require Import Fggs.Proofs.Axis_sem Fggs.Proofs.Axis_unify Fggs.Proofs.Axis_antiunify.
Require Import Fggs.Proofs.PTensor_sem Fggs.Proofs.PTensor_dense Fggs.Proofs.PTensor_views.
Require Import Fggs.Proofs.Axis_antiunify_inv Fggs.Proofs.PTensor_gen Fggs.Proofs.PTensor_binary Fggs.Proofs.PTensor_expand.
Require Import Fggs.Proofs.PTensor_bcast Fggs.Proofs.PTensor_bcast_inv Fggs.Proofs.Axis_repr.
Local Open Scope nat_scope.

(** * [gen_ok] when the operand pattern itself contains fresh (broadcast) axes *)
Lemma gen_ok_of' (part : aentry -> axis) B es_p fs_p xs_p gs_p st' next :
  (part = part1 /\ xs_p = es_p \/ part = part2 /\ xs_p = fs_p) ->
  aresult B es_p fs_p gs_p (astate0 next) st' -> (B <= next)%positive ->
  (forall k n, In (k, n) (flat_map fvn xs_p) -> (k < B)%positive \/
     exists en, In en (as_list st') /\ apair en = (k, n) /\ part en = Phys k n) ->
  (forall rho, models rho (sigma_of part (as_list st')) -> evals rho gs_p = evals rho xs_p) ->
  length gs_p = length xs_p ->
  (forall en, In en (as_list st') -> numel (part1 en) = numel (part2 en)) ->
  gen_ok part B (as_list st') (rev gs_p) (rev xs_p).
Proof.
  intros Side [I (x & X & P & K) GP C1 C2] HB Own Sem Lg Hsz.
  simpl in X. subst x. destruct I as [I1 I2 I3 I4 I5].
  constructor.
  - exact I3.
  - intros k Hk. exact (proj1 (I2 k Hk)).
  - intros [[[k n] e] f] Hen. cbn [apair akey snd].
    unfold entries_ok in I1. rewrite Forall_forall in I1. pose proof (I1 _ Hen) as Hn. simpl in Hn.
    destruct (I4 _ _ _ _ Hen) as [Q1 Q2]. destruct (P _ Hen) as [P1 P2].
    destruct Side as [[-> ->]|[-> ->]]; cbn [part1 part2].
    + split; [exact Hn|]. split; [exact Q1|]. intros kn Hkn. apply (proj2 (flat_map_rev_In' _ _ _)). exact (P1 kn Hkn).
    + split.
      * rewrite Hn. exact (Hsz _ Hen).
      * split; [exact Q2|]. intros kn Hkn. apply (proj2 (flat_map_rev_In' _ _ _)). exact (P2 kn Hkn).
  - intros kn Hkn. apply (proj1 (flat_map_rev_In' _ _ _)) in Hkn. destruct Side as [[-> ->]|[-> ->]]; [exact (C1 kn Hkn)|exact (C2 kn Hkn)].
  - intros [k n] Hkn. apply (proj1 (flat_map_rev_In' _ _ _)) in Hkn. destruct (GP k n Hkn) as (e & f & H). exists (k, n, e, f). auto.
  - intros k Hk. destruct (K k Hk) as (n & Hn). exists n. apply (proj2 (flat_map_rev_In' _ _ _)). exact Hn.
  - intros k n Hkn. apply (proj1 (flat_map_rev_In' _ _ _)) in Hkn. exact (Own k n Hkn).
  - rewrite !rev_length. exact Lg.
  - intros rho M. unfold evals. rewrite !map_rev. f_equal. apply Sem. exact M.
Qed.

(** * list facts *)
Lemma NoDup_app' {A} (l1 l2 : list A) : NoDup l1 -> NoDup l2 -> (forall x, In x l1 -> ~ In x l2) -> NoDup (l1 ++ l2).
Proof.
  induction l1 as [|x l1 IH]; intros N1 N2 D; [exact N2|]. inversion N1; subst. simpl. constructor.
  - intros H. apply in_app_or in H. destruct H as [H|H]; [contradiction|exact (D x (or_introl eq_refl) H)].
  - apply IH; [assumption|exact N2|]. intros y Hy. apply D. right. exact Hy.
Qed.

Lemma NoDup_map_filter {A B} (f : A -> B) (p : A -> bool) l : NoDup (map f l) -> NoDup (map f (filter p l)).
Proof.
  induction l as [|x l IH]; intros N; [constructor|]. simpl in N. inversion N as [|? ? Hn N']; subst. simpl.
  destruct (p x); [|apply IH; exact N']. simpl. constructor; [|apply IH; exact N'].
  intros H. apply Hn. apply in_map_iff in H. destruct H as (y & E & Hy). apply filter_In in Hy.
  apply in_map_iff. exists y. tauto.
Qed.

Lemma fvn_units m : flat_map fvn (repeat unitAxis m) = [].
Proof. induction m; simpl; auto. Qed.

Lemma combine_app_eq {A B} (a1 : list A) : forall (b1 : list B) a2 b2, length a1 = length b1 ->
  combine (a1 ++ a2) (b1 ++ b2) = combine a1 b1 ++ combine a2 b2.
Proof. induction a1 as [|x a1 IH]; intros [|y b1] a2 b2 L; try discriminate; [reflexivity|]. simpl. f_equal. apply IH. simpl in L. lia. Qed.

Lemma combine_rev_eq {A B} (a : list A) : forall (b : list B), length a = length b -> combine (rev a) (rev b) = rev (combine a b).
Proof.
  induction a as [|x a IH]; intros [|y b] L; try discriminate; [reflexivity|]. simpl.
  rewrite combine_app_eq by (rewrite !rev_length; simpl in L; lia). rewrite IH by (simpl in L; lia). reflexivity.
Qed.

Lemma combine_app_r_exact {A B} (a : list A) : forall (b c : list B), length a = length b -> combine a (b ++ c) = combine a b.
Proof. induction a as [|x a IH]; intros [|y b] c L; try discriminate; [reflexivity|]. simpl. f_equal. apply IH. simpl in L. lia. Qed.

Definition bsel (ni : nat * nat) : nat := if Nat.eqb (fst ni) 1 then 0 else snd ni.

Lemma bidxr_combine evs : forall idxr, bidxr evs idxr = map bsel (combine (map numel evs) idxr).
Proof. induction evs as [|e evs IH]; intros [|i idxr]; try reflexivity. simpl. f_equal. apply IH. Qed.

(** the reversed formulation used by the proofs is the dense formulation of the specification *)
Lemma bidx_bidxr vs idx : length vs <= length idx ->
  rev (bidxr (rev vs) (rev idx)) = bidx (map numel vs) idx.
Proof.
  intros L. unfold bidx. rewrite map_length. set (d := length idx - length vs).
  rewrite bidxr_combine. rewrite <- (firstn_skipn d idx) at 1. rewrite rev_app_distr, map_rev.
  assert (Ls : length (map numel vs) = length (skipn d idx)) by (rewrite map_length, skipn_length; unfold d; lia).
  rewrite combine_app_r_exact by (rewrite !rev_length; exact Ls).
  rewrite combine_rev_eq by exact Ls. rewrite map_rev, rev_involutive. reflexivity.
Qed.

(** * sizes of the two broadcast patterns; the broadcast shape *)
Lemma pair_ok_norm e f : pair_ok (e, f) = true -> normal_pair (e, f) = true -> numel e = numel f.
Proof.
  unfold pair_ok, normal_pair. cbn [fst snd]. intros Pp Np.
  destruct (Nat.eqb_spec (numel e) (numel f)) as [N|_]; [exact N|]. simpl in Pp.
  destruct (is_unit e) eqn:Ue, (is_unit f) eqn:Uf; simpl in *; try discriminate.
  apply is_unit_eq in Ue, Uf. subst. reflexivity.
Qed.

Definition bdim (x y : nat) : nat := if Nat.eqb x y then x else if Nat.eqb x 1 then y else x.
Definition pdim (p : axis * axis) : nat := bdim (numel (fst p)) (numel (snd p)).

Lemma bdim_1_l y : bdim 1 y = y.
Proof. unfold bdim. destruct (Nat.eqb_spec 1 y); [assumption|reflexivity]. Qed.
Lemma bdim_1_r x : bdim x 1 = x.
Proof. unfold bdim. destruct (Nat.eqb_spec x 1); reflexivity. Qed.

Lemma xloop_sizes fuel pairs st es fs gs w1 w2 st' :
  xloop fuel pairs st es fs gs w1 w2 st' -> forallb pair_ok pairs = true ->
  map numel es = map pdim pairs /\ map numel fs = map pdim pairs.
Proof.
  induction 1 as [st|e f pairs st es fs gs w1 w2 st' Ue Uf X IH|e f pairs st es fs gs w1 w2 st' Uf Ue X IH
                 |e f pairs st g st1 es fs gs w1 w2 st' Np E1 X IH]; intros P.
  - split; reflexivity.
  - simpl in P. apply andb_true_iff in P. destruct (IH (proj2 P)) as [A C].
    apply is_unit_eq in Ue. subst e.
    assert (Hp : pdim (unitAxis, f) = numel f) by (unfold pdim; cbn [fst snd]; apply bdim_1_l).
    cbn [map]. rewrite Hp, A, C. split; reflexivity.
  - simpl in P. apply andb_true_iff in P. destruct (IH (proj2 P)) as [A C].
    apply is_unit_eq in Uf. subst f.
    assert (Hp : pdim (e, unitAxis) = numel e) by (unfold pdim; cbn [fst snd]; apply bdim_1_r).
    cbn [map]. rewrite Hp, A, C. split; reflexivity.
  - simpl in P. apply andb_true_iff in P. destruct P as [Pp P]. destruct (IH P) as [A C].
    pose proof (pair_ok_norm e f Pp Np) as N.
    assert (Hp : pdim (e, f) = numel e) by (unfold pdim, bdim; cbn [fst snd]; rewrite <- N, Nat.eqb_refl; reflexivity).
    cbn [map]. rewrite Hp, A, C, <- N. split; reflexivity.
Qed.

Lemma bshape_rev_zip : forall evs fvs, forallb pair_ok (zip_longest_unit evs fvs) = true ->
  bshape_rev (map numel evs) (map numel fvs) = Some (map pdim (zip_longest_unit evs fvs)).
Proof.
  induction evs as [|e evs IH]; intros fvs P.
  - cbn [zip_longest_unit map]. rewrite map_map. unfold pdim. cbn [fst snd numel fold_right].
    destruct (map numel fvs) eqn:E; simpl; rewrite <- E; f_equal; apply map_ext; intros f; symmetry; apply bdim_1_l.
  - destruct fvs as [|f fvs]; cbn [zip_longest_unit map].
    + cbn [bshape_rev]. f_equal. cbn [map]. unfold pdim at 1. cbn [fst snd]. change (numel unitAxis) with 1. rewrite bdim_1_r. f_equal.
      rewrite map_map. apply map_ext. intros x. unfold pdim. cbn [fst snd]. change (numel unitAxis) with 1. symmetry. apply bdim_1_r.
    + cbn [zip_longest_unit forallb] in P. apply andb_true_iff in P. destruct P as [Pp P].
      cbn [bshape_rev]. rewrite (IH fvs P). cbn [map].
      change (pdim (e, f)) with (bdim (numel e) (numel f)). unfold bdim.
      destruct (Nat.eqb_spec (numel e) (numel f)) as [N|N]; [reflexivity|].
      destruct (Nat.eqb_spec (numel e) 1) as [N1|N1]; [reflexivity|].
      unfold pair_ok in Pp. cbn [fst snd] in Pp. apply Nat.eqb_neq in N. rewrite N in Pp. simpl in Pp.
      apply orb_true_iff in Pp. destruct Pp as [Pp|Pp]; apply is_unit_eq in Pp; subst.
      * exfalso. apply N1. reflexivity.
      * reflexivity.
Qed.

Section Bcast.
Variable V : Type.
Notation ptensor := (ptensor V).

(** broadcast compatibility of the two patterns: at every aligned position the sizes agree or one
    side is [unitAxis] (what [expansion] tests with [e == unitAxis != f]) *)
Definition bcast_ok (t u : ptensor) : bool :=
  forallb pair_ok (zip_longest_unit (rev (vaxes t)) (rev (vaxes u))).

(** the operand after broadcasting: fresh leading physical axes [w] that the storage ignores *)
Definition bc_tensor (t : ptensor) (w : list pn) (es : list axis) : ptensor :=
  mkPT (fun idx => physical t (skipn (length (rev w)) idx)) (rev w ++ paxes t) (rev es) (default t).

Lemma bcast_operand (t : ptensor) (B : positive) es w m :
  wf V t -> vars_below V B t ->
  brel (rev (vaxes t) ++ repeat unitAxis m) es w ->
  NoDup (map fst w) -> (forall k, In k (map fst w) -> (B <= k)%positive) ->
  wf V (bc_tensor t w es) /\
  forall idx, Forall2 lt idx (map numel (rev es)) ->
    denote V (bc_tensor t w es) idx = denote V t (rev (bidxr (rev (vaxes t)) (rev idx))).
Proof.
  intros W Bel R ND Fr. set (T := bc_tensor t w es).
  set (pevs := rev (vaxes t) ++ repeat unitAxis m) in *.
  assert (FVp : forall kn, In kn (flat_map fvn pevs) <-> In kn (paxes t)).
  { intros [k n]. unfold pevs. rewrite flat_map_app, in_app_iff, fvn_units.
    split.
    - intros [H|[]]. apply (wf_fv V t W). apply (proj1 (flat_map_rev_In' _ _ _)). exact H.
    - intros H. left. apply (proj2 (flat_map_rev_In' _ _ _)). apply (wf_fv V t W). exact H. }
  assert (Low : forall k, In k (flat_map fv pevs) -> (k < B)%positive).
  { intros k Hk. apply In_fv_fvn in Hk. destruct Hk as (n & Hk). apply FVp in Hk. apply (wf_fv V t W) in Hk.
    apply in_flat_map in Hk. destruct Hk as (e & He & Hk). apply (Bel e He). apply fv_of_fvn. eauto. }
  assert (WT : wf V T).
  { constructor; cbn [paxes vaxes T bc_tensor].
    - rewrite map_app. apply NoDup_app'.
      + rewrite map_rev. apply NoDup_rev. exact ND.
      + apply (wf_nodup V t W).
      + intros k H1 H2. rewrite map_rev in H1. apply in_rev in H1. pose proof (Fr k H1).
        apply in_map_iff in H2. destruct H2 as ([k' n] & E & H2). simpl in E. subst k'.
        assert (k < B)%positive by (apply Low; apply In_fv_fvn; exists n; apply FVp; exact H2). lia.
    - intros k n. split.
      + intros H. apply (proj1 (flat_map_rev_In' _ _ _)) in H. apply (brel_fvn _ _ _ R) in H. apply in_or_app.
        destruct H as [H|H]; [right; apply FVp; exact H|left; apply in_rev in H; exact H].
      + intros H. apply (proj2 (flat_map_rev_In' _ _ _)). apply (brel_fvn _ _ _ R). apply in_app_or in H.
        destruct H as [H|H]; [right; apply in_rev; exact H|left; apply FVp; exact H]. }
  split; [exact WT|]. intros idx Bd.
  assert (Li : length idx = length (vaxes T)).
  { cbn [vaxes T bc_tensor]. rewrite (Forall2_len _ _ _ Bd), map_length. reflexivity. }
  assert (Les : length es = length (vaxes t) + m).
  { rewrite (brel_len _ _ _ R). unfold pevs. rewrite app_length, rev_length, repeat_length. reflexivity. }
  assert (Lidx : length idx = length (vaxes t) + m).
  { rewrite Li. cbn [vaxes T bc_tensor]. rewrite rev_length. exact Les. }
  assert (Br : Forall2 lt (rev idx) (map numel es)).
  { pose proof (Forall2_rev _ _ _ Bd) as Q. rewrite map_rev, rev_involutive in Q. exact Q. }
  assert (Pget : forall rho, pget V T rho = pget V t rho).
  { intros rho. unfold pget. cbn [physical paxes T bc_tensor]. rewrite pcoords_app.
    replace (length (rev w)) with (length (pcoords (rev w) rho)) by (unfold pcoords; apply map_length).
    rewrite skipn_app_exact'. reflexivity. }
  assert (Lb : length (bidxr (rev (vaxes t)) (rev idx)) = length (rev (vaxes t))).
  { apply bidxr_length. rewrite !rev_length. lia. }
  destruct (denote_cases V T idx (wf_covers V T WT) Li) as [(rho & Rr & Er & D)|[N D]].
  - rewrite D, Pget. cbn [vaxes T bc_tensor] in Rr, Er.
    assert (Ra : Forall (inrange rho) es) by (rewrite <- (rev_involutive es); apply Forall_rev; exact Rr).
    assert (Ea : evals rho es = rev idx).
    { rewrite <- Er. unfold evals. rewrite map_rev, rev_involutive. reflexivity. }
    destruct (brel_fwd _ _ _ R rho Ra) as [Rp Ep]. rewrite Ea in Ep.
    unfold pevs in Rp, Ep. apply Forall_app in Rp. destruct Rp as [Rv _].
    rewrite evals_app, bidxr_app in Ep by (rewrite !rev_length; lia).
    apply app_inj_len in Ep; [|unfold evals; rewrite map_length, Lb; reflexivity].
    destruct Ep as [Ep _]. rewrite <- Ep. unfold evals. rewrite map_rev, rev_involutive. symmetry.
    apply (denote_backed V t rho (wf_covers V t W)).
    rewrite <- (rev_involutive (vaxes t)). apply Forall_rev. exact Rv.
  - rewrite D. cbn [default T bc_tensor]. symmetry.
    assert (Lb' : length (rev (bidxr (rev (vaxes t)) (rev idx))) = length (vaxes t)) by (rewrite rev_length, Lb, rev_length; reflexivity).
    destruct (denote_cases V t _ (wf_covers V t W) Lb') as [(rho & Rr & Er & _)|[_ Dt]]; [|exact Dt].
    exfalso.
    assert (Rp : Forall (inrange rho) pevs).
    { unfold pevs. apply Forall_app. split; [apply Forall_rev; exact Rr|apply inrange_units]. }
    assert (Ep : evals rho pevs = bidxr pevs (rev idx)).
    { unfold pevs. rewrite evals_app, bidxr_app, evals_units by (rewrite !rev_length; lia).
      rewrite bidxr_units by (rewrite skipn_length, !rev_length; lia).
      f_equal. unfold evals. rewrite map_rev. unfold evals in Er. rewrite Er, rev_involutive. reflexivity. }
    assert (Fr' : forall k, In k (map fst w) -> ~ In k (flat_map fv pevs)).
    { intros k Hk Hin. pose proof (Fr k Hk). pose proof (Low k Hin). lia. }
    destruct (brel_bwd _ _ _ R ND Fr' rho (rev idx) Br Rp Ep) as (rho' & _ & Ra & Ea).
    apply (N rho'); cbn [vaxes T bc_tensor].
    + apply Forall_rev. exact Ra.
    + unfold evals in *. rewrite map_rev, Ea, rev_involutive. reflexivity.
Qed.

Lemma below_unit B : below B unitAxis.
Proof. intros k []. Qed.

(** facts about the fresh axes [w] of one operand *)
Lemma own_facts (part : aentry -> axis) (ownb : aentry -> bool) B L w :
  (forall en, ownb en = true -> exists k' n', part en = Phys k' n' /\ k' = akey en) ->
  entries_ok L -> (forall en, In en L -> numel (part1 en) = numel (part2 en)) ->
  (part = part1 \/ part = part2) ->
  NoDup (akeys L) -> (forall k, In k (akeys L) -> (B <= k)%positive) ->
  w = map apair (filter ownb L) ->
  NoDup (map fst w) /\ (forall k, In k (map fst w) -> (B <= k)%positive) /\
  (forall k n, In (k, n) w -> exists en, In en L /\ apair en = (k, n) /\ part en = Phys k n).
Proof.
  intros Ho Hok Hsz Side ND Ge ->. split; [|split].
  - rewrite map_map. replace (map (fun x => fst (apair x)) (filter ownb L)) with (map akey (filter ownb L)).
    + apply NoDup_map_filter. rewrite <- akeys_akey. exact ND.
    + apply map_ext. intros [[[k n] e] f]. reflexivity.
  - intros k Hk. rewrite map_map in Hk. apply in_map_iff in Hk. destruct Hk as (en & <- & Hen). apply filter_In in Hen.
    apply Ge. rewrite akeys_akey. replace (fst (apair en)) with (akey en) by (destruct en as [[[? ?] ?] ?]; reflexivity).
    apply in_map. tauto.
  - intros k n Hk. apply in_map_iff in Hk. destruct Hk as (en & E & Hen). apply filter_In in Hen. destruct Hen as [Hen Ho'].
    exists en. split; [exact Hen|]. split; [exact E|]. destruct (Ho en Ho') as (k' & n' & Ep & Ek).
    destruct en as [[[k0 n0] e0] f0]. cbn [apair akey] in E, Ek. inversion E. subst k0 n0 k'.
    unfold entries_ok in Hok. rewrite Forall_forall in Hok. pose proof (Hok _ Hen) as Hn. pose proof (Hsz _ Hen) as Hs.
    rewrite Ep. f_equal. cbn [part1 part2] in Hs. simpl in Hn.
    destruct Side as [->| ->]; cbn [part1 part2] in Ep; rewrite Ep in *; simpl in *; lia.
Qed.

Lemma own1b_spec en : own1b en = true -> exists k' n', part1 en = Phys k' n' /\ k' = akey en.
Proof. unfold own1b. destruct (part1 en) as [k' n'| |]; try discriminate. intros H. apply Pos.eqb_eq in H. eauto. Qed.
Lemma own2b_spec en : own2b en = true -> exists k' n', part2 en = Phys k' n' /\ k' = akey en.
Proof. unfold own2b. destruct (part2 en) as [k' n'| |]; try discriminate. intros H. apply Pos.eqb_eq in H. eauto. Qed.

(** C06 (binary operations, with broadcasting): [pt_binary] has the broadcast shape and is pointwise
    on the broadcast operands *)
Theorem binary_bcast_refines (op : V -> V -> V) dflt next (t u r : ptensor) next' :
  wf V t -> wf V u -> vars_below V next t -> vars_below V next u ->
  bcast_ok t u = true ->
  pt_binary V op dflt next t u = Ok (r, next') ->
  dflt = op (default t) (default u) ->
  wf V r /\ bshape (shape V t) (shape V u) = Some (shape V r) /\
  forall idx, in_bounds (shape V r) idx ->
    denote V r idx = op (denote V t (bidx (shape V t) idx)) (denote V u (bidx (shape V u) idx)).
Proof.
  intros Wt Wu Bt Bu OK H Hd.
  unfold pt_binary in H. destruct (expansion V next t u) as [x|] eqn:Ex; [|discriminate].
  cbn [bind] in H. inversion H; subst r next'. clear H.
  unfold expansion in Ex.
  destruct (expansion_loop _ _ _ _ _ _) as [[[[st n1] n2] lggs]|] eqn:EL; [|discriminate].
  cbn [bind] in Ex. inversion Ex; subst x. clear Ex.
  cbn [ex_new1 ex_new2 ex_paxes1 ex_paxes2 ex_es ex_fs ex_gs ex_lggs].
  unfold bcast_ok in OK. set (pairs := zip_longest_unit (rev (vaxes t)) (rev (vaxes u))) in *.
  destruct (loop_xloop _ _ _ _ _ _ _ _ _ _ EL) as (es & fs & gs & w1 & w2 & X & -> & -> & ->).
  rewrite !app_nil_r.
  assert (Bel : forall p, In p pairs -> below next (fst p) /\ below next (snd p)).
  { intros p Hp. destruct (zip_In _ _ _ Hp) as [[H1|H1] [H2|H2]]; split;
      try (rewrite H1; apply below_unit); try (rewrite H2; apply below_unit).
    all: try (apply Bt; apply in_rev; exact H1). all: try (apply Bu; apply in_rev; exact H2). }
  destruct (xloop_inv _ next _ _ _ _ _ _ _ _ X Bel (ainv_init next)) as (AR & ext & Xe & W1 & W2).
  simpl in Xe. set (L := as_list st) in *. rewrite <- Xe in W1, W2. clear Xe ext.
  destruct (xloop_sem _ _ _ _ _ _ _ _ _ X (Forall_nil _)) as (A & Nn & L1 & L2 & S1 & S2).
  assert (Hsz : szeq L) by (apply (xloop_szeq _ _ _ _ _ _ _ _ _ X OK); intros en []).
  destruct (xloop_brel _ _ _ _ _ _ _ _ _ X) as [BR1 BR2]. unfold pairs in BR1, BR2. rewrite zip_fst in BR1. rewrite zip_snd in BR2.
  destruct (xloop_sizes _ _ _ _ _ _ _ _ _ X OK) as [Z1 Z2].
  pose proof (ar_inv _ _ _ _ _ _ AR) as I.
  assert (Ge : forall k, In k (akeys L) -> (next <= k)%positive) by (intros k Hk; exact (proj1 (ai_keys _ _ I k Hk))).
  destruct (own_facts part1 own1b next L w1 own1b_spec (ai_ok _ _ I) Hsz (or_introl eq_refl) (ai_nodup _ _ I) Ge W1) as (ND1 & Fr1 & Own1).
  destruct (own_facts part2 own2b next L w2 own2b_spec (ai_ok _ _ I) Hsz (or_intror eq_refl) (ai_nodup _ _ I) Ge W2) as (ND2 & Fr2 & Own2).
  destruct (bcast_operand t next es w1 _ Wt Bt BR1 ND1 Fr1) as [WT DT].
  destruct (bcast_operand u next fs w2 _ Wu Bu BR2 ND2 Fr2) as [WU DU].
  assert (Lg : length gs = length es).
  { apply (f_equal (@length nat)) in Nn. rewrite !map_length in Nn. exact Nn. }
  assert (G1 : gen_ok part1 next L (rev gs) (rev es)).
  { eapply (gen_ok_of' part1); [left; split; reflexivity|exact AR|lia| | |exact Lg|exact Hsz].
    - intros k n Hk. apply (brel_fvn _ _ _ BR1) in Hk. destruct Hk as [Hk|Hk]; [left|right; exact (Own1 k n Hk)].
      rewrite flat_map_app, fvn_units, app_nil_r in Hk. apply in_flat_map in Hk. destruct Hk as (e & He & Hk).
      apply (Bt e); [apply in_rev; exact He|apply fv_of_fvn; eauto].
    - intros rho M. rewrite sigma_of_part1 in M. exact (S1 rho M). }
  assert (G2 : gen_ok part2 next L (rev gs) (rev fs)).
  { eapply (gen_ok_of' part2); [right; split; reflexivity|exact AR|lia| | |rewrite Lg, L1, L2; reflexivity|exact Hsz].
    - intros k n Hk. apply (brel_fvn _ _ _ BR2) in Hk. destruct Hk as [Hk|Hk]; [left|right; exact (Own2 k n Hk)].
      rewrite flat_map_app, fvn_units, app_nil_r in Hk. apply in_flat_map in Hk. destruct Hk as (e & He & Hk).
      apply (Bu e); [apply in_rev; exact He|apply fv_of_fvn; eauto].
    - intros rho M. rewrite sigma_of_part2 in M. exact (S2 rho M). }
  set (R := mkPT _ _ _ _).
  assert (WR : wf V R) by (apply (gen_wf V part1 next L (rev gs) (rev es) G1)).
  split; [exact WR|]. split.
  { unfold bshape, shape. rewrite <- !map_rev. fold pairs. rewrite (bshape_rev_zip _ _ OK). fold pairs.
    cbn [vaxes R]. rewrite map_rev, Nn, Z1. reflexivity. }
  intros idx Bd.
  assert (Bd1 : Forall2 lt idx (map numel (rev es))).
  { unfold in_bounds, shape in Bd. cbn [vaxes R] in Bd. rewrite map_rev, Nn, <- map_rev in Bd. exact Bd. }
  assert (Bd2 : Forall2 lt idx (map numel (rev fs))).
  { rewrite map_rev, Z2, <- Z1, <- map_rev. exact Bd1. }
  assert (LR : length idx = length (vaxes R)).
  { rewrite (Forall2_len _ _ _ Bd). unfold shape. apply map_length. }
  assert (Lt : length (vaxes t) <= length idx).
  { rewrite (Forall2_len _ _ _ Bd1), map_length, rev_length, (brel_len _ _ _ BR1), app_length, rev_length. lia. }
  assert (Lu : length (vaxes u) <= length idx).
  { rewrite (Forall2_len _ _ _ Bd2), map_length, rev_length, (brel_len _ _ _ BR2), app_length, rev_length. lia. }
  unfold shape. rewrite <- (bidx_bidxr (vaxes t) idx Lt), <- (bidx_bidxr (vaxes u) idx Lu).
  rewrite <- (DT idx Bd1), <- (DU idx Bd2).
  destruct (denote_cases V R idx (wf_covers V R WR) LR) as [(g & Rg & Eg & D)|[N D]].
  - rewrite D.
    change (op (denote V (with_vaxes V (bc_tensor t w1 es) (map part1 L)) (pcoords (gs_of L) g))
               (denote V (with_vaxes V (bc_tensor u w2 fs) (map part2 L)) (pcoords (gs_of L) g))
            = op (denote V (bc_tensor t w1 es) idx) (denote V (bc_tensor u w2 fs) idx)).
    rewrite (core_denote V part1 next L (rev gs) (rev es) G1 (bc_tensor t w1 es) g eq_refl WT Rg).
    rewrite (core_denote V part2 next L (rev gs) (rev fs) G2 (bc_tensor u w2 fs) g eq_refl WU Rg).
    unfold R in Eg; cbn [vaxes] in Eg. rewrite Eg. reflexivity.
  - rewrite D. cbn [default R]. rewrite Hd.
    assert (Dt : denote V (bc_tensor t w1 es) idx = default t).
    { assert (Li : length idx = length (vaxes (bc_tensor t w1 es))).
      { cbn [vaxes bc_tensor]. rewrite (Forall2_len _ _ _ Bd1), map_length. reflexivity. }
      destruct (denote_cases V _ idx (wf_covers V _ WT) Li) as [(rho & Rr & Er & _)|[_ Dt]]; [|exact Dt].
      exfalso. destruct (core_complete part1 next L (rev gs) (rev es) G1 rho Rr) as (g & Rg & Eg).
      apply (N g Rg). cbn [vaxes R]. rewrite Eg. exact Er. }
    assert (Du : denote V (bc_tensor u w2 fs) idx = default u).
    { assert (Li : length idx = length (vaxes (bc_tensor u w2 fs))).
      { cbn [vaxes bc_tensor]. rewrite (Forall2_len _ _ _ Bd2), map_length. reflexivity. }
      destruct (denote_cases V _ idx (wf_covers V _ WU) Li) as [(rho & Rr & Er & _)|[_ Du]]; [|exact Du].
      exfalso. destruct (core_complete part2 next L (rev gs) (rev fs) G2 rho Rr) as (g & Rg & Eg).
      apply (N g Rg). cbn [vaxes R]. rewrite Eg. exact Er. }
    rewrite Dt, Du. reflexivity.
Qed.

(** [commutative] and [sub]/[div] compute, on all three code paths, a tensor with the pattern of
    [binary]'s result and the same elements -- whatever the broadcasting *)
Lemma commutative_as_binary (veqb : V -> V -> bool) (op : V -> V -> V) identity dflt next (t u r : ptensor) next' :
  (forall a b, veqb a b = true -> a = b) -> (forall a, op a identity = a) -> (forall a b, op a b = op b a) ->
  pt_commutative V veqb op identity dflt next t u = Ok (r, next') ->
  exists rb, pt_binary V op dflt next t u = Ok (rb, next') /\ paxes r = paxes rb /\ vaxes r = vaxes rb /\
             forall idx, denote V r idx = denote V rb idx.
Proof.
  intros Veq Lid Lcomm H. unfold pt_commutative in H. unfold pt_binary.
  destruct (expansion V next t u) as [x|] eqn:Ex; [|discriminate]. cbn [bind] in *.
  set (T1 := expanded V (ex_new1 x) (ex_paxes1 x) (ex_es x) t) in *.
  set (U1 := expanded V (ex_new2 x) (ex_paxes2 x) (ex_fs x) u) in *.
  set (rb := mkPT (fun g => op (denote V T1 g) (denote V U1 g)) (ex_gs x) (ex_lggs x) dflt).
  destruct (negb (veqb (default t) identity) || negb (Nat.eqb (length (ex_paxes1 x)) (length (paxes t)))
            || (Nat.eqb (length (ex_paxes2 x)) (length (paxes u)) && (pnumel (paxes u) <=? pnumel (paxes t)))) eqn:C.
  - destruct (veqb (default u) identity) eqn:Eu; inversion H; subst r next'; clear H; exists rb; (split; [reflexivity|]).
    + split; [reflexivity|]. split; [reflexivity|]. apply denote_phys_ext; try reflexivity. intros c. unfold rb. cbn [physical].
      assert (DU : denote V U1 c = match index_list (ex_fs x) [] c with
                                   | IOk pi => pget V U1 (env_of pi) | _ => default u end) by reflexivity.
      rewrite DU.
      destruct (index_list (ex_fs x) [] c); [reflexivity| |]; rewrite (Veq _ _ Eu), Lid; reflexivity.
    + repeat split; reflexivity.
  - inversion H; subst r next'; clear H.
    apply orb_false_iff in C. destruct C as [C _]. apply orb_false_iff in C. destruct C as [C _].
    apply negb_false_iff in C. apply Veq in C. exists rb. split; [reflexivity|].
    split; [reflexivity|]. split; [reflexivity|]. apply denote_phys_ext; try reflexivity. intros c. unfold rb. cbn [physical].
    assert (DT : denote V T1 c = match index_list (ex_es x) [] c with
                                 | IOk pi => pget V T1 (env_of pi) | _ => default t end) by reflexivity.
    rewrite DT.
    destruct (index_list (ex_es x) [] c); [apply Lcomm| |]; rewrite C, (Lcomm identity), Lid; reflexivity.
Qed.

Lemma sub_like_as_binary (veqb : V -> V -> bool) (op : V -> V -> V) (inv : V -> V) (op' : V -> V -> V)
                         identity dflt next (t u r : ptensor) next' :
  (forall a b, veqb a b = true -> a = b) -> (forall a, op a identity = a) ->
  (forall a b, op' (inv b) a = op a b) -> (forall b, op identity b = inv b) ->
  pt_sub_like V veqb op inv op' identity dflt next t u = Ok (r, next') ->
  exists rb, pt_binary V op dflt next t u = Ok (rb, next') /\ paxes r = paxes rb /\ vaxes r = vaxes rb /\
             forall idx, denote V r idx = denote V rb idx.
Proof.
  intros Veq Lid L2 L3 H. unfold pt_sub_like in H. unfold pt_binary.
  destruct (expansion V next t u) as [x|] eqn:Ex; [|discriminate]. cbn [bind] in *.
  set (T1 := expanded V (ex_new1 x) (ex_paxes1 x) (ex_es x) t) in *.
  set (U1 := expanded V (ex_new2 x) (ex_paxes2 x) (ex_fs x) u) in *.
  set (rb := mkPT (fun g => op (denote V T1 g) (denote V U1 g)) (ex_gs x) (ex_lggs x) dflt).
  destruct (negb (veqb (default t) identity) || negb (Nat.eqb (length (ex_paxes1 x)) (length (paxes t)))
            || (Nat.eqb (length (ex_paxes2 x)) (length (paxes u)) && (pnumel (paxes u) <=? pnumel (paxes t)))) eqn:C.
  - destruct (veqb (default u) identity) eqn:Eu; inversion H; subst r next'; clear H; exists rb; (split; [reflexivity|]).
    + split; [reflexivity|]. split; [reflexivity|]. apply denote_phys_ext; try reflexivity. intros c. unfold rb. cbn [physical].
      assert (DU : denote V U1 c = match index_list (ex_fs x) [] c with
                                   | IOk pi => pget V U1 (env_of pi) | _ => default u end) by reflexivity.
      rewrite DU.
      destruct (index_list (ex_fs x) [] c); [reflexivity| |]; rewrite (Veq _ _ Eu), Lid; reflexivity.
    + repeat split; reflexivity.
  - inversion H; subst r next'; clear H.
    apply orb_false_iff in C. destruct C as [C _]. apply orb_false_iff in C. destruct C as [C _].
    apply negb_false_iff in C. apply Veq in C. exists rb. split; [reflexivity|].
    split; [reflexivity|]. split; [reflexivity|]. apply denote_phys_ext; try reflexivity. intros c. unfold rb. cbn [physical].
    set (U1' := expanded V (ex_new2 x) (ex_paxes2 x) (ex_fs x)
                         (mkPT (fun idx0 => inv (physical u idx0)) (paxes u) (vaxes u) (inv (default u)))).
    assert (EU : denote V U1' c = inv (denote V U1 c)).
    { unfold U1', U1. rewrite !denote_expanded_cases. destruct (index_list (ex_fs x) [] c); reflexivity. }
    assert (DT : denote V T1 c = match index_list (ex_es x) [] c with
                                 | IOk pi => pget V T1 (env_of pi) | _ => default t end) by reflexivity.
    rewrite DT.
    destruct (index_list (ex_es x) [] c); rewrite EU; [apply L2| |]; rewrite C, L3; reflexivity.
Qed.

Lemma wf_same (r rb : ptensor) : paxes r = paxes rb -> vaxes r = vaxes rb -> wf V rb -> wf V r.
Proof. intros P Vx [N F]. constructor; rewrite ?P, ?Vx; assumption. Qed.

Theorem commutative_bcast_refines (veqb : V -> V -> bool) (op : V -> V -> V) identity dflt next (t u r : ptensor) next' :
  (forall a b, veqb a b = true -> a = b) -> (forall a, op a identity = a) -> (forall a b, op a b = op b a) ->
  wf V t -> wf V u -> vars_below V next t -> vars_below V next u ->
  bcast_ok t u = true ->
  pt_commutative V veqb op identity dflt next t u = Ok (r, next') ->
  dflt = op (default t) (default u) ->
  wf V r /\ bshape (shape V t) (shape V u) = Some (shape V r) /\
  forall idx, in_bounds (shape V r) idx ->
    denote V r idx = op (denote V t (bidx (shape V t) idx)) (denote V u (bidx (shape V u) idx)).
Proof.
  intros Veq Lid Lcomm Wt Wu Bt Bu OK H Hd.
  destruct (commutative_as_binary _ _ _ _ _ _ _ _ _ Veq Lid Lcomm H) as (rb & Hb & Ep & Ev & Ed).
  destruct (binary_bcast_refines op dflt next t u rb next' Wt Wu Bt Bu OK Hb Hd) as (Wr & Sh & D).
  unfold shape in *. rewrite Ev. split; [exact (wf_same r rb Ep Ev Wr)|]. split; [exact Sh|].
  intros idx Bd. rewrite Ed. apply D. exact Bd.
Qed.

Theorem sub_like_bcast_refines (veqb : V -> V -> bool) (op : V -> V -> V) (inv : V -> V) (op' : V -> V -> V)
                               identity dflt next (t u r : ptensor) next' :
  (forall a b, veqb a b = true -> a = b) -> (forall a, op a identity = a) ->
  (forall a b, op' (inv b) a = op a b) -> (forall b, op identity b = inv b) ->
  wf V t -> wf V u -> vars_below V next t -> vars_below V next u ->
  bcast_ok t u = true ->
  pt_sub_like V veqb op inv op' identity dflt next t u = Ok (r, next') ->
  dflt = op (default t) (default u) ->
  wf V r /\ bshape (shape V t) (shape V u) = Some (shape V r) /\
  forall idx, in_bounds (shape V r) idx ->
    denote V r idx = op (denote V t (bidx (shape V t) idx)) (denote V u (bidx (shape V u) idx)).
Proof.
  intros Veq Lid L2 L3 Wt Wu Bt Bu OK H Hd.
  destruct (sub_like_as_binary _ _ _ _ _ _ _ _ _ _ _ Veq Lid L2 L3 H) as (rb & Hb & Ep & Ev & Ed).
  destruct (binary_bcast_refines op dflt next t u rb next' Wt Wu Bt Bu OK Hb Hd) as (Wr & Sh & D).
  unfold shape in *. rewrite Ev. split; [exact (wf_same r rb Ep Ev Wr)|]. split; [exact Sh|].
  intros idx Bd. rewrite Ed. apply D. exact Bd.
Qed.

End Bcast.
