(** C07: the support form of the specification.  For patterned operands with default zero,
    well formed, with pairwise disjoint physical axes and co-indexed axes of equal sizes,
      einsum_dense (denotations) oidx
        = sum over the physical environments [pi] of all operands on which every co-indexed
          axis evaluates like the first axis of its index and the output indices evaluate to
          [oidx], of the product of the physical elements. *)
From Coq Require Import List Arith Bool PeanoNat Lia Permutation Ring Ring_theory PArith.
Import ListNotations.
Require Import Fggs.Model.Semiring Fggs.Model.SumProduct.
Require Import Fggs.Proofs.BigSum Fggs.Proofs.SP_trees.
Require Import Fggs.Model.Axis Fggs.Model.PTensor Fggs.Model.AxisCheck Fggs.Model.Einsum Fggs.Model.EinsumCheck Fggs.Model.EinsumCert.
Require Import Fggs.Proofs.Axis_sem Fggs.Proofs.PTensor_sem Fggs.Proofs.PTensor_dense Fggs.Proofs.PTensor_gen.
Require Import Fggs.Proofs.Einsum_dense Fggs.Proofs.Einsum_envs Fggs.Proofs.Einsum_support.

(** ** small list facts *)
Lemma map_eq_combine {A B C} (f : A -> C) (g : B -> C) (xs : list A) (ys : list B) :
  length xs = length ys -> (map f xs = map g ys <-> forall x y, In (y, x) (combine ys xs) -> f x = g y).
Proof.
  revert ys. induction xs as [|x xs IH]; intros [|y ys] L; try discriminate.
  - simpl. split; [intros _ ? ? []|reflexivity].
  - simpl in L. simpl. split.
    + intros E. inversion E as [[E1 E2]]. intros x' y' [H|H]; [inversion H; subst; exact E1|].
      apply (proj1 (IH ys (eq_add_S _ _ L)) E2). exact H.
    + intros H. f_equal; [apply H; left; reflexivity|]. apply IH; [lia|]. intros x' y' H'. apply H. right. exact H'.
Qed.

Lemma map_lval_combine (ls vs : list nat) : NoDup ls -> length ls = length vs -> map (lval (combine ls vs)) ls = vs.
Proof.
  intros ND. revert vs. induction ND as [|x ls Hx ND IH]; intros [|v vs] L; try discriminate; [reflexivity|].
  simpl. unfold lval at 1. simpl. rewrite Nat.eqb_refl. f_equal.
  rewrite <- (IH vs) at 2 by (simpl in L; lia). apply map_ext_in. intros l Hl. unfold lval. simpl.
  destruct (Nat.eqb_spec x l) as [->|]; [contradiction|reflexivity].
Qed.

Lemma map_f_combine (f : nat -> nat) (ls vs : list nat) :
  length ls = length vs -> (forall l v, In (l, v) (combine ls vs) -> f l = v) -> map f ls = vs.
Proof.
  revert vs. induction ls as [|x ls IH]; intros [|v vs] L H; try discriminate; [reflexivity|].
  simpl. f_equal; [apply H; left; reflexivity|]. apply IH; [simpl in L; lia|]. intros l v' H'. apply H. right. exact H'.
Qed.

Lemma Forall2_map_l {A B C} (P : C -> B -> Prop) (f : A -> C) (xs : list A) (g : A -> B) :
  (forall x, In x xs -> P (f x) (g x)) -> Forall2 P (map f xs) (map g xs).
Proof.
  induction xs as [|x xs IH]; intros H; simpl; constructor; [apply H; left; reflexivity|].
  apply IH. intros y Hy. apply H. right. exact Hy.
Qed.

Lemma map_fst_combine_le (ls vs : list nat) : length ls <= length vs -> map fst (combine ls vs) = ls.
Proof.
  revert vs. induction ls as [|x ls IH]; intros [|v vs] L; simpl in *; try reflexivity; [lia|]. f_equal. apply IH. lia.
Qed.

Section Form.
Context {R : Type} (o : sr_ops R).
Hypothesis Hr : sr_ring o.
Add Ring RingEF : (sr_is_srt o Hr).
Notation r0 := (Semiring.zero o).
Notation ptensor := (ptensor R).

(** ** occurrences *)
Lemma occurrences_cons (t : ptensor) ts inp inputs :
  occurrences (t :: ts) (inp :: inputs) = combine inp (vaxes t) ++ occurrences ts inputs.
Proof. reflexivity. Qed.

Lemma backs_spec (a : nat -> nat) rho : forall (ts : list ptensor) inputs,
  Forall2 (fun t inp => length (vaxes t) = length inp) ts inputs ->
  (backs_b ts inputs a rho = true <-> forall l e, In (l, e) (occurrences ts inputs) -> eval rho e = a l).
Proof.
  induction 1 as [|t inp ts inputs Ft F IH].
  - simpl. split; [intros _ ? ? []|reflexivity].
  - unfold backs_b. cbn [combine forallb fst snd]. rewrite andb_true_iff, leqb_eq.
    change (forallb _ (combine ts inputs)) with (backs_b ts inputs a rho). rewrite IH, occurrences_cons.
    unfold evals. rewrite (map_eq_combine (eval rho) a (vaxes t) inp Ft). split.
    + intros [H1 H2] l e Hin. apply in_app_or in Hin. destruct Hin; auto.
    + intros H. split; intros l e Hin; apply H; apply in_or_app; [left|right]; exact Hin.
Qed.

Lemma label_sizes_occ : forall (ts : list ptensor) inputs,
  label_sizes (map (shape R) ts) inputs = map (fun le => (fst le, numel (snd le))) (occurrences ts inputs).
Proof.
  induction ts as [|t ts IH]; intros [|inp inputs]; try reflexivity.
  unfold label_sizes in *. cbn [map combine flat_map fst snd]. rewrite occurrences_cons, map_app, <- IH. f_equal.
  unfold shape. generalize (vaxes t). clear. induction inp as [|l inp IHi]; intros [|e vs]; try reflexivity.
  simpl. f_equal. apply IHi.
Qed.

Lemma lassoc_map_numel l (occ : list (nat * axis)) :
  lassoc l (map (fun le => (fst le, numel (snd le))) occ) = option_map numel (lassoc l occ).
Proof.
  induction occ as [|[l' e] occ IH]; [reflexivity|]. simpl. destruct (Nat.eqb l' l); [reflexivity|exact IH].
Qed.

Lemma in_concat_occ : forall (ts : list ptensor) inputs l,
  Forall2 (fun t inp => length (vaxes t) = length inp) ts inputs ->
  (In l (concat inputs) <-> exists e, In (l, e) (occurrences ts inputs)).
Proof.
  intros ts inputs l F. induction F as [|t inp ts inputs Ft F IH].
  - simpl. split; [intros []|intros (e & [])].
  - simpl concat. rewrite occurrences_cons, in_app_iff, IH. split.
    + intros [H|(e & H)].
      * destruct (In_nth _ _ 0 H) as (j & Hj & Ej).
        exists (nth j (vaxes t) unitAxis). apply in_or_app. left. rewrite <- Ej.
        rewrite <- (combine_nth inp (vaxes t) j 0 unitAxis) by (symmetry; exact Ft). apply nth_In.
        rewrite combine_length, Ft, Nat.min_id. exact Hj.
      * exists e. apply in_or_app. right. exact H.
    + intros (e & H). apply in_app_or in H. destruct H as [H|H]; [left; apply in_combine_l in H; exact H|right; eauto].
Qed.

(** ** the support form of the specification *)
Section Fixed.
Variables (ts : list ptensor) (inputs : list (list nat)) (output : list nat) (i2v : list (nat * axis)).
Let occ := occurrences ts inputs.
Let V := all_vars ts.
Hypothesis HL : length ts = length inputs.
Hypothesis HW : Forall (wf R) ts.
Hypothesis HD : Forall (fun t => default t = r0) ts.
Hypothesis HF : Forall2 (fun t inp => length (vaxes t) = length inp) ts inputs.
Hypothesis HN : NoDup (map fst V).
Hypothesis Hout : forall l, In l output -> lassoc l i2v <> None.
Hypothesis Hi2v : forall l e0, lassoc l i2v = Some e0 -> In (l, e0) occ.
Hypothesis Hsz : forall l e, In (l, e) occ -> exists e0, lassoc l i2v = Some e0 /\ numel e0 = numel e.

Let summed := summed_labels inputs output.
Let sz := label_sizes (map fst (map (dn (R:=R)) ts)) inputs.
Definition Aenv (oidx sv : list nat) : nat -> nat := lval (combine output oidx ++ combine summed sv).

Lemma Aenv_out oidx sv l : In l output -> length output = length oidx ->
  Aenv oidx sv l = lval (combine output oidx) l.
Proof.
  intros Hl Hlen. unfold Aenv, lval. rewrite lassoc_app.
  destruct (lassoc l (combine output oidx)) eqn:E; [reflexivity|].
  exfalso. apply lassoc_None in E. apply E. rewrite map_fst_combine_le by lia. exact Hl.
Qed.

Lemma Aenv_sum oidx sv l : ~ In l output -> Aenv oidx sv l = lval (combine summed sv) l.
Proof. intros Hl. unfold Aenv, lval. rewrite lassoc_app, (lassoc_combine_notin output oidx l Hl). reflexivity. Qed.

Lemma sz_spec l e0 : In l (concat inputs) -> lassoc l i2v = Some e0 -> lval sz l = numel e0.
Proof.
  intros Hl E0. unfold sz. rewrite map_map. cbn [dn fst]. change (map (fun x => shape R x) ts) with (map (shape R) ts).
  rewrite label_sizes_occ. unfold lval. rewrite lassoc_map_numel.
  destruct (proj1 (in_concat_occ ts inputs l HF) Hl) as (e & He).
  destruct (lassoc l (occurrences ts inputs)) as [e1|] eqn:E1.
  - simpl. apply lassoc_In in E1. destruct (Hsz l e1 E1) as (e0' & E0' & Hn). congruence.
  - exfalso. apply lassoc_None in E1. apply E1. apply in_map_iff. exists (l, e). split; [reflexivity|exact He].
Qed.

Lemma env_inrange_occ pi l e : In pi (all_envs V) -> In (l, e) occ -> inrange (env_of pi) e.
Proof.
  intros Hp He. apply inrange_fvn. intros k n Hk. apply (env_of_in_range V pi HN Hp).
  unfold occ, occurrences in He. apply in_flat_map in He. destruct He as ([t inp] & Hti & He). simpl in He.
  apply in_combine_r in He. assert (Ht : In t ts) by (apply in_combine_l in Hti; exact Hti).
  unfold V, all_vars. apply in_flat_map. exists t. split; [exact Ht|]. rewrite Forall_forall in HW.
  apply (wf_fv R t (HW t Ht)). apply in_flat_map. exists e. split; assumption.
Qed.

Lemma per_env (pi : list (positive * nat)) (oidx : list nat) (c : R) :
  In pi (all_envs V) -> out_consistent output oidx = true ->
  sumS o (all_assts (map (lval sz) summed))
       (fun sv => if backs_b ts inputs (Aenv oidx sv) (env_of pi) then c else r0)
  = if coinc_b i2v occ (env_of pi) && leqb (map (lv i2v (env_of pi)) output) oidx then c else r0.
Proof.
  intros Hp OC. set (rho := env_of pi).
  assert (Hlen : length output = length oidx).
  { unfold out_consistent in OC. apply andb_true_iff in OC. destruct OC as [OC _]. apply Nat.eqb_eq in OC. exact OC. }
  assert (OCv : forall l v, In (l, v) (combine output oidx) -> lval (combine output oidx) l = v).
  { unfold out_consistent in OC. apply andb_true_iff in OC. destruct OC as [_ OC]. rewrite forallb_forall in OC.
    intros l v H. specialize (OC (l, v) H). simpl in OC. apply Nat.eqb_eq in OC. exact OC. }
  (* what a backing valuation implies *)
  assert (Fwd : forall sv, In sv (all_assts (map (lval sz) summed)) -> backs_b ts inputs (Aenv oidx sv) rho = true ->
                coinc_b i2v occ rho = true /\ map (lv i2v rho) output = oidx /\ sv = map (lv i2v rho) summed).
  { intros sv Hsv B. rewrite (backs_spec _ _ ts inputs HF) in B.
    assert (Hlv : forall l e0, lassoc l i2v = Some e0 -> lv i2v rho l = Aenv oidx sv l).
    { intros l e0 E0. unfold lv. rewrite E0. apply B. apply Hi2v. exact E0. }
    split; [|split].
    - unfold coinc_b. apply forallb_forall. intros [l e] Hin. simpl. apply Nat.eqb_eq.
      destruct (Hsz l e Hin) as (e0 & E0 & _). rewrite (Hlv l e0 E0). apply B. exact Hin.
    - apply map_f_combine; [exact Hlen|]. intros l v Hin.
      assert (Hl : In l output) by (apply in_combine_l in Hin; exact Hin).
      destruct (lassoc l i2v) as [e0|] eqn:E0; [|exfalso; exact (Hout l Hl E0)].
      rewrite (Hlv l e0 E0), (Aenv_out oidx sv l Hl Hlen). apply OCv. exact Hin.
    - apply all_assts_length in Hsv. rewrite map_length in Hsv.
      rewrite <- (map_lval_combine summed sv (dedup_nat_NoDup _ _)) at 1 by (symmetry; exact Hsv).
      apply map_ext_in. intros l Hl. unfold summed, summed_labels in Hl. apply dedup_nat_In in Hl. destruct Hl as [Hl Hno].
      destruct (proj1 (in_concat_occ ts inputs l HF) Hl) as (e & He). destruct (Hsz l e He) as (e0 & E0 & _).
      rewrite (Hlv l e0 E0). symmetry. apply Aenv_sum. exact Hno. }
  destruct (coinc_b i2v occ rho && leqb (map (lv i2v rho) output) oidx) eqn:Cond.
  - apply andb_true_iff in Cond. destruct Cond as [Co Om]. apply leqb_eq in Om.
    set (x0 := map (lv i2v rho) summed).
    assert (Hx0 : In x0 (all_assts (map (lval sz) summed))).
    { apply in_all_assts. unfold x0. apply Forall2_map_l. intros l Hl.
      unfold summed, summed_labels in Hl. apply dedup_nat_In in Hl. destruct Hl as [Hl _].
      destruct (proj1 (in_concat_occ ts inputs l HF) Hl) as (e & He). destruct (Hsz l e He) as (e0 & E0 & _).
      rewrite (sz_spec l e0 Hl E0). unfold lv. rewrite E0. apply eval_bound.
      apply (env_inrange_occ pi l e0 Hp). apply Hi2v. exact E0. }
    assert (Bx0 : backs_b ts inputs (Aenv oidx x0) rho = true).
    { apply (backs_spec _ _ ts inputs HF). intros l e Hin.
      unfold coinc_b in Co. rewrite forallb_forall in Co. specialize (Co (l, e) Hin). simpl in Co. apply Nat.eqb_eq in Co.
      rewrite Co. destruct (in_dec Nat.eq_dec l output) as [Hlo|Hlo].
      - rewrite (Aenv_out oidx x0 l Hlo Hlen). rewrite <- Om. symmetry. apply lval_combine_map. exact Hlo.
      - rewrite (Aenv_sum oidx x0 l Hlo). unfold x0. symmetry. apply lval_combine_map.
        unfold summed, summed_labels. apply dedup_nat_In. split; [|exact Hlo].
        apply (in_concat_occ ts inputs l HF). exists e. exact Hin. }
    rewrite (sumS_unique o Hr _ (fun sv => backs_b ts inputs (Aenv oidx sv) rho) (fun _ => c) x0 (NoDup_all_assts _) Hx0 Bx0); [reflexivity|].
    intros sv Hsv B. destruct (Fwd sv Hsv B) as (_ & _ & E). exact E.
  - apply (sumS_none o Hr). intros sv Hsv.
    destruct (backs_b ts inputs (Aenv oidx sv) rho) eqn:B; [|reflexivity].
    destruct (Fwd sv Hsv B) as (Co & Om & _). rewrite Co in Cond. simpl in Cond.
    rewrite (proj2 (leqb_eq _ _) Om) in Cond. discriminate.
Qed.

Theorem dense_support_form oidx :
  einsum_dense o (map (dn (R:=R)) ts) inputs output oidx
  = sumS o (all_envs V)
         (fun pi => if coinc_b i2v occ (env_of pi) && leqb (map (lv i2v (env_of pi)) output) oidx
                    then term o ts (env_of pi) else r0).
Proof.
  unfold einsum_dense. destruct (out_consistent output oidx) eqn:OC.
  - cbv zeta. fold sz. fold summed.
    rewrite (sumS_ext o _ _ (fun sv => sumS o (all_envs V)
               (fun pi => if backs_b ts inputs (Aenv oidx sv) (env_of pi) then term o ts (env_of pi) else r0))).
    + rewrite (sumS_exchange o Hr). apply (sumS_ext o). intros pi Hp. apply per_env; assumption.
    + intros sv _. unfold einsum_term. apply (prod_as_env_sum o Hr (Aenv oidx sv)); assumption.
  - symmetry. apply (sumS_none o Hr). intros pi _.
    destruct (leqb (map (lv i2v (env_of pi)) output) oidx) eqn:E; [|apply andb_false_r].
    apply leqb_eq in E. rewrite <- E, out_consistent_map in OC. discriminate.
Qed.
End Fixed.
End Form.
