(** [freshen] on patterned tensors ([PatternedTensor.freshen] / [clone] / [detach], and the
    [other = other.freshen()] step of [equal] / [allclose]): the freshened tensor is well formed,
    has the same shape, uses only new axes and denotes the same dense tensor. *)
From Coq Require Import List Arith Lia PeanoNat Bool PArith.
Import ListNotations.
Require Import Fggs.Model.Axis Fggs.Model.AxisCheck Fggs.Model.PTensor Fggs.Model.PTEqual.
Require Import Fggs.Proofs.Axis_sem Fggs.Proofs.PTensor_sem Fggs.Proofs.PTensor_dense Fggs.Proofs.PTensor_gen.
Require Import Fggs.Proofs.PTEqual_count.

(** * renaming the physical axes of an axis *)
Fixpoint rename_axis (g : positive -> positive) (e : axis) : axis :=
  match e with
  | Phys k n => Phys (g k) n
  | Prod l => Prod (map (rename_axis g) l)
  | Sum b t a => Sum b (rename_axis g t) a
  end.

Lemma numel_rename g e : numel (rename_axis g e) = numel e.
Proof.
  induction e as [k n|l IH|b t a IH] using axis_ind'; simpl; [reflexivity| |rewrite IH; reflexivity].
  induction l as [|x l IHl]; simpl; [reflexivity|]. inversion IH; subst. rewrite H1, IHl by assumption. reflexivity.
Qed.

Lemma eval_rename g rho e : eval rho (rename_axis g e) = eval (fun k => rho (g k)) e.
Proof.
  induction e as [k n|l IH|b t a IH] using axis_ind'; simpl; [reflexivity| |rewrite IH; reflexivity].
  generalize 0 as acc. induction l as [|x l IHl]; intros acc; simpl; [reflexivity|].
  inversion IH; subst. rewrite H1, numel_rename. apply IHl. assumption.
Qed.

Lemma inrange_rename g rho e : inrange rho (rename_axis g e) <-> inrange (fun k => rho (g k)) e.
Proof.
  induction e as [k n|l IH|b t a IH] using axis_ind'.
  - simpl. tauto.
  - cbn [rename_axis]. rewrite !inrange_Prod. rewrite Forall_forall in IH. rewrite !Forall_forall. split.
    + intros H x Hx. apply IH; [exact Hx|]. apply H. apply in_map. exact Hx.
    + intros H y Hy. apply in_map_iff in Hy. destruct Hy as (x & <- & Hx). apply IH; [exact Hx|]. apply H. exact Hx.
  - simpl. exact IH.
Qed.

Definition rename_pn (g : positive -> positive) (kn : pn) : pn := (g (fst kn), snd kn).

Lemma fvn_rename g e : fvn (rename_axis g e) = map (rename_pn g) (fvn e).
Proof.
  induction e as [k n|l IH|b t a IH] using axis_ind'; simpl; [reflexivity| |exact IH].
  induction l as [|x l IHl]; simpl; [reflexivity|]. inversion IH; subst. rewrite map_app, H1, IHl by assumption. reflexivity.
Qed.

(** * [freshen] when every variable already has a new name *)
Lemma freshen_Prod l st : freshen (Prod l) st = let '(l', st') := freshen_list l st in (Prod l', st').
Proof. reflexivity. Qed.

Lemma freshen_known g st e :
  (forall k n, In (k, n) (fvn e) -> assoc k (fs_rename st) = Some (g k, n)) ->
  freshen e st = (rename_axis g e, st).
Proof.
  induction e as [k n|l IH|b t a IH] using axis_ind'; intros H.
  - simpl. rewrite (H k n (or_introl eq_refl)). reflexivity.
  - rewrite freshen_Prod.
    assert (G : freshen_list l st = (map (rename_axis g) l, st)).
    { induction l as [|x l IHl]; [reflexivity|]. inversion IH; subst. simpl.
      rewrite H2; [|intros k n Hk; apply H; simpl; apply in_or_app; left; exact Hk].
      rewrite IHl; [reflexivity|assumption|]. intros k n Hk. apply H. simpl. apply in_or_app. right. exact Hk. }
    rewrite G. reflexivity.
  - simpl. rewrite IH; [reflexivity|]. exact H.
Qed.

Lemma freshen_list_known g st es :
  (forall k n, In (k, n) (flat_map fvn es) -> assoc k (fs_rename st) = Some (g k, n)) ->
  freshen_list es st = (map (rename_axis g) es, st).
Proof.
  induction es as [|e es IH]; intros H; [reflexivity|]. simpl.
  rewrite (freshen_known g); [|intros k n Hk; apply H; simpl; apply in_or_app; left; exact Hk].
  rewrite IH; [reflexivity|]. intros k n Hk. apply H. simpl. apply in_or_app. right. exact Hk.
Qed.

(** * freshening the list of physical axes: consecutive new uids *)
Fixpoint new_pn (ps : list pn) (nx : positive) : list pn :=
  match ps with [] => [] | (_, n) :: ps => (nx, n) :: new_pn ps (Pos.succ nx) end.
Fixpoint new_rename (ps : list pn) (nx : positive) : rename :=
  match ps with [] => [] | (k, n) :: ps => (k, (nx, n)) :: new_rename ps (Pos.succ nx) end.
Fixpoint pos_after (nx : positive) (m : nat) : positive :=
  match m with O => nx | S m => pos_after (Pos.succ nx) m end.

Lemma assoc_app_l {A} k (s1 s2 : list (positive * A)) a : assoc k s1 = Some a -> assoc k (s1 ++ s2) = Some a.
Proof.
  induction s1 as [|[k' a'] s1 IH]; simpl; [discriminate|]. destruct (Pos.eqb k' k); [trivial|exact IH].
Qed.
Lemma assoc_app_r {A} k (s1 s2 : list (positive * A)) : assoc k s1 = None -> assoc k (s1 ++ s2) = assoc k s2.
Proof.
  induction s1 as [|[k' a'] s1 IH]; simpl; [reflexivity|]. destruct (Pos.eqb k' k); [discriminate|exact IH].
Qed.

Lemma assoc_not_in {A} k (s : list (positive * A)) : ~ In k (map fst s) -> assoc k s = None.
Proof.
  induction s as [|[k' a] s IH]; simpl; intros H; [reflexivity|].
  destruct (Pos.eqb_spec k' k) as [->|_]; [exfalso; apply H; left; reflexivity|]. apply IH. tauto.
Qed.

Lemma new_rename_keys ps nx : map fst (new_rename ps nx) = map fst ps.
Proof. revert nx. induction ps as [|[k n] ps IH]; intros nx; simpl; [reflexivity|rewrite IH; reflexivity]. Qed.

Lemma freshen_paxes ps : forall r nx, NoDup (map fst ps) -> (forall k, In k (map fst ps) -> assoc k r = None) ->
  freshen_list (paxes_axes ps) {| fs_rename := r; fs_next := nx |} =
  (paxes_axes (new_pn ps nx), {| fs_rename := r ++ new_rename ps nx; fs_next := pos_after nx (length ps) |}).
Proof.
  induction ps as [|[k n] ps IH]; intros r nx N H.
  - simpl. rewrite app_nil_r. reflexivity.
  - simpl in N. inversion N as [|? ? Hk N']; subst. cbn [paxes_axes map freshen_list freshen fst snd fs_rename fs_next].
    rewrite (H k (or_introl eq_refl)). cbn [fs_rename fs_next].
    change (map (fun kn : pn => Phys (fst kn) (snd kn)) ps) with (paxes_axes ps).
    rewrite IH; [| exact N' |].
    + cbn [new_pn new_rename length pos_after paxes_axes map fst snd]. rewrite <- app_assoc. reflexivity.
    + intros k' Hk'. rewrite assoc_app_r by (apply H; right; exact Hk'). simpl.
      destruct (Pos.eqb_spec k k') as [->|_]; [contradiction|reflexivity].
Qed.

(** the renaming function read off a rename dict *)
Definition ren_of (r : rename) (k : positive) : positive :=
  match assoc k r with Some (k', _) => k' | None => k end.

Lemma new_rename_assoc ps : forall nx k n, NoDup (map fst ps) -> In (k, n) ps ->
  exists k', assoc k (new_rename ps nx) = Some (k', n) /\ (nx <= k')%positive /\ In (k', n) (new_pn ps nx).
Proof.
  induction ps as [|[k0 n0] ps IH]; intros nx k n N H; [contradiction|].
  simpl in N. inversion N as [|? ? Hk N']; subst. simpl.
  destruct H as [H|H].
  - inversion H; subst. rewrite Pos.eqb_refl. exists nx. split; [reflexivity|]. split; [lia|left; reflexivity].
  - destruct (Pos.eqb_spec k0 k) as [->|_].
    + exfalso. apply Hk. apply in_map_iff. exists (k, n). auto.
    + destruct (IH (Pos.succ nx) k n N' H) as (k' & E & L & I). exists k'. split; [exact E|]. split; [lia|right; exact I].
Qed.

Lemma new_pn_keys_ge ps : forall nx k n, In (k, n) (new_pn ps nx) -> (nx <= k)%positive.
Proof.
  induction ps as [|[k0 n0] ps IH]; intros nx k n H; [contradiction|]. simpl in H. destruct H as [H|H].
  - inversion H; subst. lia.
  - apply IH in H. lia.
Qed.

Lemma new_pn_NoDup ps : forall nx, NoDup (map fst (new_pn ps nx)).
Proof.
  induction ps as [|[k0 n0] ps IH]; intros nx; simpl; constructor; [|apply IH].
  intros H. apply in_map_iff in H. destruct H as ([k n] & E & H). simpl in E. subst k.
  apply new_pn_keys_ge in H. lia.
Qed.

(** [new_pn] is the image of [ps] under the renaming *)
Lemma new_pn_map ps : forall nx, NoDup (map fst ps) ->
  new_pn ps nx = map (rename_pn (ren_of (new_rename ps nx))) ps.
Proof.
  induction ps as [|[k0 n0] ps IH]; intros nx N; [reflexivity|].
  simpl in N. inversion N as [|? ? Hk N']; subst. cbn [new_pn new_rename map].
  f_equal.
  - unfold rename_pn, ren_of. simpl. rewrite Pos.eqb_refl. reflexivity.
  - rewrite (IH (Pos.succ nx) N'). apply map_ext_in. intros [k n] Hin. unfold rename_pn, ren_of. cbn [fst snd assoc].
    destruct (Pos.eqb_spec k0 k) as [->|_]; [|reflexivity].
    exfalso. apply Hk. apply in_map_iff. exists (k, n). auto.
Qed.

(** the renaming is injective on the renamed keys *)
Lemma ren_inj ps nx k1 n1 k2 n2 : NoDup (map fst ps) -> In (k1, n1) ps -> In (k2, n2) ps ->
  ren_of (new_rename ps nx) k1 = ren_of (new_rename ps nx) k2 -> k1 = k2.
Proof.
  revert nx. induction ps as [|[k0 n0] ps IH]; intros nx N H1 H2 E; [contradiction|].
  simpl in N. inversion N as [|? ? Hk N']; subst.
  assert (Q : forall k n, In (k, n) ps -> k0 <> k).
  { intros k n Hin ->. apply Hk. apply in_map_iff. exists (k, n). auto. }
  assert (G : forall k n, In (k, n) ps -> (Pos.succ nx <= ren_of (new_rename ((k0, n0) :: ps) nx) k)%positive /\
                                          ren_of (new_rename ((k0, n0) :: ps) nx) k = ren_of (new_rename ps (Pos.succ nx)) k).
  { intros k n Hin. unfold ren_of. simpl. destruct (Pos.eqb_spec k0 k) as [->|_]; [exfalso; eapply Q; eauto|].
    destruct (new_rename_assoc ps (Pos.succ nx) k n N' Hin) as (k' & Ea & L & _). rewrite Ea. auto. }
  assert (Z : ren_of (new_rename ((k0, n0) :: ps) nx) k0 = nx).
  { unfold ren_of. simpl. rewrite Pos.eqb_refl. reflexivity. }
  destruct H1 as [H1|H1], H2 as [H2|H2].
  - congruence.
  - inversion H1; subst. destruct (G _ _ H2) as [L _]. rewrite Z in E. lia.
  - inversion H2; subst. destruct (G _ _ H1) as [L _]. rewrite Z in E. lia.
  - destruct (G _ _ H1) as [_ E1], (G _ _ H2) as [_ E2]. rewrite E1, E2 in E. eapply IH; eauto.
Qed.

Section Freshen.
Variable V : Type.
Notation ptensor := (ptensor V).

Definition keys_below (B : positive) (t : ptensor) : Prop :=
  forall k, In k (map fst (paxes t)) -> (k < B)%positive.

Variable t : ptensor.
Variable next : positive.
Hypothesis W : wf V t.

Let g := ren_of (new_rename (paxes t) next).

(** what [pt_freshen] returns on a well-formed tensor *)
Lemma pt_freshen_eq :
  fst (pt_freshen V next t) =
  mkPT (physical t) (new_pn (paxes t) next) (map (rename_axis g) (vaxes t)) (default t).
Proof.
  unfold pt_freshen. change (map (fun kn : pn => Phys (fst kn) (snd kn)) (paxes t)) with (paxes_axes (paxes t)).
  rewrite freshen_paxes; [|apply (wf_nodup V t W)|intros; reflexivity]. cbn [app].
  rewrite (freshen_list_known g).
  - cbn [fst]. f_equal. clear. generalize next. induction (paxes t) as [|[k n] ps IH]; intros nx; [reflexivity|].
    simpl. rewrite IH. reflexivity.
  - intros k n Hk. cbn [fs_rename]. apply (wf_fv V t W) in Hk.
    destruct (new_rename_assoc (paxes t) next k n (wf_nodup V t W) Hk) as (k' & E & _).
    unfold g, ren_of. rewrite E. reflexivity.
Qed.

Let t' := fst (pt_freshen V next t).

Lemma pt_freshen_paxes : paxes t' = map (rename_pn g) (paxes t).
Proof. unfold t'. rewrite pt_freshen_eq. cbn [paxes]. apply new_pn_map. apply (wf_nodup V t W). Qed.

Lemma pt_freshen_vaxes : vaxes t' = map (rename_axis g) (vaxes t).
Proof. unfold t'. rewrite pt_freshen_eq. reflexivity. Qed.

Lemma pt_freshen_shape : shape V t' = shape V t.
Proof.
  unfold shape. rewrite pt_freshen_vaxes, map_map. apply map_ext. intros e. apply numel_rename.
Qed.

Lemma pt_freshen_wf : wf V t'.
Proof.
  split.
  - unfold t'. rewrite pt_freshen_eq. cbn [paxes]. apply new_pn_NoDup.
  - intros k n. rewrite pt_freshen_paxes, pt_freshen_vaxes.
    rewrite flat_map_concat_map, map_map, <- flat_map_concat_map.
    assert (E : flat_map (fun e => fvn (rename_axis g e)) (vaxes t) = map (rename_pn g) (flat_map fvn (vaxes t))).
    { induction (vaxes t) as [|e es IH]; [reflexivity|]. simpl. rewrite map_app, fvn_rename, IH. reflexivity. }
    rewrite E, !in_map_iff. split; intros (kn & Ek & Hk); exists kn; (split; [exact Ek|]); destruct kn as [k0 n0];
      apply (wf_fv V t W); exact Hk.
Qed.

(** the new axes are all at or above [next]: disjoint from every tensor whose axes are below *)
Lemma pt_freshen_fresh k : In k (map fst (paxes t')) -> (next <= k)%positive.
Proof.
  unfold t'. rewrite pt_freshen_eq. cbn [paxes]. intros H. apply in_map_iff in H. destruct H as ([k0 n] & E & H).
  simpl in E. subst k0. eapply new_pn_keys_ge; eauto.
Qed.

Lemma pcoords_rename rho' : pcoords (paxes t') rho' = pcoords (paxes t) (fun k => rho' (g k)).
Proof. rewrite pt_freshen_paxes. unfold pcoords. rewrite map_map. reflexivity. Qed.

Lemma evals_rename rho' : evals rho' (vaxes t') = evals (fun k => rho' (g k)) (vaxes t).
Proof. rewrite pt_freshen_vaxes. unfold evals. rewrite map_map. apply map_ext. intros e. apply eval_rename. Qed.

Lemma inrange_rename_all rho' : Forall (inrange rho') (vaxes t') <-> Forall (inrange (fun k => rho' (g k))) (vaxes t).
Proof.
  rewrite pt_freshen_vaxes, !Forall_forall. split.
  - intros H e He. apply inrange_rename. apply H. apply in_map. exact He.
  - intros H e' He'. apply in_map_iff in He'. destruct He' as (e & <- & He). apply inrange_rename. apply H. exact He.
Qed.

(** an inverse of the renaming on the keys of [t] *)
Definition unren (rho : env) : env :=
  fun k' => match find (fun kn : pn => Pos.eqb (g (fst kn)) k') (paxes t) with
            | Some kn => rho (fst kn)
            | None => 0
            end.

Lemma unren_spec rho k : In k (map fst (paxes t)) -> unren rho (g k) = rho k.
Proof.
  intros Hk. apply in_map_iff in Hk. destruct Hk as ([k0 n] & E & Hk). simpl in E. subst k0.
  unfold unren. destruct (find _ (paxes t)) as [[k1 n1]|] eqn:F.
  - apply find_some in F. destruct F as [F1 F2]. apply Pos.eqb_eq in F2. cbn [fst] in *.
    f_equal. eapply (ren_inj (paxes t) next); eauto. apply (wf_nodup V t W).
  - exfalso. apply (find_none _ _ F (k, n)) in Hk. simpl in Hk. rewrite Pos.eqb_refl in Hk. discriminate.
Qed.

Lemma fv_in_paxes k : In k (flat_map fv (vaxes t)) -> In k (map fst (paxes t)).
Proof.
  intros Hk. apply in_flat_map in Hk. destruct Hk as (e & He & Hk). rewrite fv_fvn in Hk. apply in_map_iff in Hk.
  destruct Hk as ([k' n] & <- & Hk). apply in_map_iff. exists (k', n). split; [reflexivity|].
  apply (wf_fv V t W). apply in_flat_map. eauto.
Qed.

Theorem pt_freshen_denote idx : length idx = length (vaxes t) -> denote V t' idx = denote V t idx.
Proof.
  intros L.
  assert (L' : length idx = length (vaxes t')) by (rewrite pt_freshen_vaxes, map_length; exact L).
  destruct (denote_cases V t' idx (wf_covers V t' pt_freshen_wf) L') as [(rho' & R & E & D)|[N D]].
  - rewrite D. set (rho := fun k => rho' (g k)).
    assert (Rr : Forall (inrange rho) (vaxes t)) by (apply inrange_rename_all; exact R).
    rewrite <- E, evals_rename. fold rho. rewrite (denote_backed V t rho (wf_covers V t W) Rr).
    unfold pget. rewrite pcoords_rename. unfold t'. rewrite pt_freshen_eq. reflexivity.
  - rewrite D. unfold t'. rewrite pt_freshen_eq. cbn [default]. symmetry. apply denote_unbacked; [exact L|].
    intros rho R E. apply (N (unren rho)).
    + apply inrange_rename_all. rewrite Forall_forall in *. intros e He.
      assert (X : forall k, In k (fv e) -> unren rho (g k) = rho k).
      { intros k Hk. apply unren_spec. apply fv_in_paxes. apply in_flat_map. eauto. }
      specialize (R e He). apply inrange_fvn. intros k n Hk. rewrite X.
      * exact (proj2 (inrange_fvn rho e) R k n Hk).
      * rewrite fv_fvn. apply in_map_iff. exists (k, n). auto.
    + rewrite evals_rename, <- E. apply evals_ext. intros k Hk. apply unren_spec. apply fv_in_paxes. exact Hk.
Qed.

End Freshen.
