(** C07 on typed operands: the hypothesis [typed_operands] is satisfiable by non-trivial values
    (a product type: Z(6) against X(2) x Y(3); a sum type: the first summand of 2 + 3 against the
    whole), the model answers on them, and the theorem applies. *)
From Coq Require Import List Arith Bool PeanoNat PArith Lia.
Import ListNotations.
Require Import Fggs.Model.Semiring Fggs.Model.SumProduct.
Require Import Fggs.Model.Axis Fggs.Model.PTensor Fggs.Model.AxisCheck Fggs.Model.Einsum Fggs.Model.EinsumCheck Fggs.Model.EinsumCert.
Require Import Fggs.Proofs.Axis_typed Fggs.Proofs.Axis_total Fggs.Proofs.PTensor_dense Fggs.Proofs.Einsum_project.
Require Import Fggs.Proofs.Einsum_typed_prep Fggs.Proofs.Einsum_typed_main.

Definition ex_a : stensor (R:=bool) :=
  mkST (mkPT (fun idx => Nat.odd (nth 0 idx 0)) [(1%positive, 6)] [Phys 1 6] false) [1] false.
Definition ex_b : stensor (R:=bool) :=
  mkST (mkPT (fun idx => Nat.odd (nth 0 idx 0 + nth 1 idx 0)) [(2%positive, 2); (3%positive, 3)]
             [Prod [Phys 2 2; Phys 3 3]] false) [3; 1] false.

Definition ex_lty (l : nat) : list ity := match l with 0 => [TAtom 2; TAtom 3] | _ => [] end.
Definition ex_G : ctx := fun k =>
  match k with
  | 1%positive => [TAtom 2; TAtom 3]
  | 2%positive => [TAtom 2]
  | 3%positive => [TAtom 3]
  | _ => []
  end.

Lemma ex_lty_good l : gprimes (ex_lty l).
Proof. destruct l as [|l]; repeat constructor. Qed.

Lemma st_ok_nonzero {R} (t : stensor (R:=R)) : length (st_pstr t) = length (paxes (st_pt t)) ->
  (forall i, nth i (st_pstr t) 1 <> 0) -> st_ok t.
Proof. intros L H. split; [exact L|]. intros i idx v Hn _. exfalso. exact (H i Hn). Qed.

Example typed_operands_ex :
  typed_operands ex_lty ex_G 10 [ex_a; ex_b] [[0]; [0]] /\
  exists p, einsum_model bool_ops Bool.eqb false 10 [ex_a; ex_b] [[0]; [0]] [] = Ok p /\ denote bool p [] = true.
Proof.
  split.
  - split.
    + intros k. unfold ex_G. destruct k as [[|[]|]|[[]|[]|]|]; repeat constructor.
    + intros k Hk. unfold ex_G. destruct k as [[|[]|]|[[]|[]|]|]; try reflexivity; lia.
    + constructor; [|constructor; [|constructor]].
      * split; [split; [repeat constructor; simpl; tauto|intros k n; simpl; tauto]|]. split.
        -- constructor; [|constructor]. apply (ty_phys ex_G 1 6); [discriminate|reflexivity].
        -- apply st_ok_nonzero; [reflexivity|]. intros [|[|i]]; simpl; lia.
      * split; [split; [repeat constructor; simpl; intuition discriminate|intros k n; simpl; tauto]|]. split.
        -- constructor; [|constructor]. constructor; [simpl; lia|].
           apply (tyl_cons ex_G (Phys 2 2) [Phys 3 3] [TAtom 2] [TAtom 3]); [reflexivity| |].
           ++ apply (ty_phys ex_G 2 2); [discriminate|reflexivity].
           ++ apply tyl_single; [reflexivity|]. apply (ty_phys ex_G 3 3); [discriminate|reflexivity].
        -- apply st_ok_nonzero; [reflexivity|]. intros [|[|[|i]]]; simpl; lia.
  - vm_compute. eexists. split; reflexivity.
Qed.

(** a sum type: the operand [ex_c] covers the first summand of [2 + 3], [ex_d] the whole index *)
Definition ex_c : stensor (R:=bool) :=
  mkST (mkPT (fun idx => true) [(1%positive, 2)] [Sum 0 (Phys 1 2) 3] false) [1] false.
Definition ex_d : stensor (R:=bool) :=
  mkST (mkPT (fun idx => Nat.leb 1 (nth 0 idx 0)) [(2%positive, 5)] [Phys 2 5] false) [1] false.
Definition ex_lty2 (l : nat) : list ity := match l with 0 => [TSum [TAtom 2; TAtom 3]] | _ => [] end.
Definition ex_G2 : ctx := fun k =>
  match k with
  | 1%positive => [TAtom 2]
  | 2%positive => [TSum [TAtom 2; TAtom 3]]
  | _ => []
  end.

Lemma ex_lty2_good l : gprimes (ex_lty2 l).
Proof. destruct l as [|l]; repeat constructor. Qed.

Example typed_operands_sum_ex :
  typed_operands ex_lty2 ex_G2 10 [ex_c; ex_d] [[0]; [0]] /\
  exists p, einsum_model bool_ops Bool.eqb false 10 [ex_c; ex_d] [[0]; [0]] [] = Ok p /\ denote bool p [] = true.
Proof.
  split.
  - split.
    + intros k. unfold ex_G2. destruct k as [[|[]|]|[[]|[]|]|]; repeat constructor.
    + intros k Hk. unfold ex_G2. destruct k as [[|[]|]|[[]|[]|]|]; try reflexivity; lia.
    + constructor; [|constructor; [|constructor]].
      * split; [split; [repeat constructor; simpl; tauto|intros k n; simpl; tauto]|]. split.
        -- constructor; [|constructor]. apply (ty_sum ex_G2 0 (Phys 1 2) 3 [] (TAtom 2) [TAtom 3]); [reflexivity|reflexivity|].
           apply (ty_phys ex_G2 1 2); [discriminate|reflexivity].
        -- apply st_ok_nonzero; [reflexivity|]. intros [|[|i]]; simpl; lia.
      * split; [split; [repeat constructor; simpl; tauto|intros k n; simpl; tauto]|]. split.
        -- constructor; [|constructor]. apply (ty_phys ex_G2 2 5); [discriminate|reflexivity].
        -- apply st_ok_nonzero; [reflexivity|]. intros [|[|i]]; simpl; lia.
  - vm_compute. eexists. split; reflexivity.
Qed.

(** the hypotheses of the pointer theorem ([viterbi_typed]) on the first pair: the run does not
    fail, the only output cell has a backing element, the pointer is computed, and the Boolean
    addition is selective *)
Example viterbi_typed_ex :
  exists r, einsum_run bool_ops Bool.eqb false 10 [ex_a; ex_b] [[0]; [0]] [] = Ok r /\ er_failed r = false /\
            index_list (er_outv r) [] [] = IOk [] /\
            viterbi_ptr_model bool_ops (fun x y => implb x y) r [] [] = Ok [1] /\
            (forall a b, Semiring.add bool_ops a b = if implb a b then b else a).
Proof. vm_compute. eexists. repeat split; try reflexivity. intros [|] [|]; reflexivity. Qed.

(** the failed-unification exit is reached by typed operands: one operand on the first summand of
    [2 + 3], the other on the second: the supports are disjoint, unification fails (without a
    warning), the result is the all-zero tensor *)
Definition ex_e : stensor (R:=bool) :=
  mkST (mkPT (fun idx => true) [(3%positive, 3)] [Sum 2 (Phys 3 3) 0] false) [1] false.
Definition ex_c1 : stensor (R:=bool) :=
  mkST (mkPT (fun idx => true) [(1%positive, 2)] [Sum 0 (Phys 1 2) 3] false) [1] false.
Definition ex_G3 : ctx := fun k =>
  match k with
  | 1%positive => [TAtom 2]
  | 3%positive => [TAtom 3]
  | _ => []
  end.

Example typed_operands_failed_ex :
  typed_operands ex_lty2 ex_G3 10 [ex_c1; ex_e] [[0]; [0]] /\
  exists r, einsum_run bool_ops Bool.eqb false 10 [ex_c1; ex_e] [[0]; [0]] [] = Ok r /\ er_failed r = true /\
            denote bool (er_raw r) [] = false.
Proof.
  split.
  - split.
    + intros k. unfold ex_G3. destruct k as [[|[]|]|[[]|[]|]|]; repeat constructor.
    + intros k Hk. unfold ex_G3. destruct k as [[|[]|]|[[]|[]|]|]; try reflexivity; lia.
    + constructor; [|constructor; [|constructor]].
      * split; [split; [repeat constructor; simpl; tauto|intros k n; simpl; tauto]|]. split.
        -- constructor; [|constructor]. apply (ty_sum ex_G3 0 (Phys 1 2) 3 [] (TAtom 2) [TAtom 3]); [reflexivity|reflexivity|].
           apply (ty_phys ex_G3 1 2); [discriminate|reflexivity].
        -- apply st_ok_nonzero; [reflexivity|]. intros [|[|i]]; simpl; lia.
      * split; [split; [repeat constructor; simpl; tauto|intros k n; simpl; tauto]|]. split.
        -- constructor; [|constructor]. apply (ty_sum ex_G3 2 (Phys 3 3) 0 [TAtom 2] (TAtom 3) []); [reflexivity|reflexivity|].
           apply (ty_phys ex_G3 3 3); [discriminate|reflexivity].
        -- apply st_ok_nonzero; [reflexivity|]. intros [|[|i]]; simpl; lia.
  - vm_compute. eexists. repeat split; reflexivity.
Qed.
