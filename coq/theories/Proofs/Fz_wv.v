(** C05 / sum-product, part A (combinatorics): the variables summed in each rule of the
    factorisation, [Wv]: every node of the original rule is summed in exactly one new rule (the
    topmost bag that contains it), none of the variables of a subtree is read outside of it. *)
From Coq Require Import List Arith Bool PeanoNat Lia Permutation.
Import ListNotations.
Require Import Fggs.Model.Conj.
Require Import Fggs.Model.TreeDec Fggs.Proofs.TreeDec_graph Fggs.Proofs.TreeDec_check Fggs.Model.Factorize
               Fggs.Proofs.Fz_rooted Fggs.Proofs.Fz_struct Fggs.Proofs.Fz_main.

Section WvSec.
Variable r : frule.
Variable t : ftd.
Variable ords : list (list nat).

Definition lminus (b x : list nat) : list nat := filter (fun v => negb (mem v x)) b.
Lemma lminus_In b x v : In v (lminus b x) <-> In v b /\ ~ In v x.
Proof. unfold lminus. rewrite filter_In, negb_true_iff, mem_nIn. tauto. Qed.

(** the nodes summed by the rules of the subtree [T] (whose root has parent [parent]) *)
Fixpoint Wv (T : rt) (parent : option nat) : list nat :=
  match T with
  | RT i cs => lminus (bag_of t i) (ext_at r ords parent i)
               ++ (fix go (l : list rt) : list nat := match l with [] => [] | c :: l' => Wv c (Some i) ++ go l' end) cs
  end.
Lemma Wv_eq i cs parent :
  Wv (RT i cs) parent = lminus (bag_of t i) (ext_at r ords parent i) ++ flat_map (fun c => Wv c (Some i)) cs.
Proof. reflexivity. Qed.

(** all nodes of the bags of a subtree *)
Definition Vn (T : rt) : list nat := flat_map (bag_of t) (rt_indices T).
Lemma Vn_occurs x T : In x (Vn T) <-> occurs t x T.
Proof. unfold Vn, occurs. rewrite in_flat_map. tauto. Qed.

(** the externals of a non-root bag are exactly [bag & parent] *)
Lemma ext_child_In i p x : NoDup (bag_of t i) ->
  is_perm (nth i ords []) (set_inter (bag_of t i) (bag_of t p)) = true ->
  (In x (ext_at r ords (Some p) i) <-> In x (bag_of t i) /\ In x (bag_of t p)).
Proof.
  intros ND P. cbn [ext_at]. apply is_perm_sound in P; [|now apply NoDup_filter].
  unfold set_inter in P. split.
  - intro H. eapply Permutation_in in H; [|exact P]. apply filter_In in H. rewrite mem_In in H. exact H.
  - intros [H1 H2]. eapply Permutation_in; [apply Permutation_sym; exact P|]. apply filter_In. now rewrite mem_In.
Qed.
Lemma ext_child_NoDup i p : NoDup (bag_of t i) ->
  is_perm (nth i ords []) (set_inter (bag_of t i) (bag_of t p)) = true -> NoDup (nth i ords []).
Proof.
  intros ND P. apply is_perm_sound in P; [|now apply NoDup_filter].
  eapply Permutation_NoDup; [apply Permutation_sym; exact P|]. now apply NoDup_filter.
Qed.

Lemma rip_inv i cs : rip t (RT i cs) ->
  (forall c, In c cs -> rip t c) /\
  (forall c x j, In c cs -> occurs t x c -> In j (i :: flat_map rt_indices cs) -> ~ In j (rt_indices c) ->
                 In x (bag_of t j) -> In x (bag_of t i) /\ In x (bag_of t (rt_root c))).
Proof. inversion 1; subst. split; assumption. Qed.

Lemma ords_child i cs parent c : ords_ok t ords (RT i cs) parent -> In c cs -> ords_ok t ords c (Some i).
Proof. intros H Hc. apply ords_ok_eq in H. destruct H as [_ H]. rewrite Forall_forall in H. now apply H. Qed.

(** up-condition for a child, from the running intersection at its parent *)
Lemma up_child i cs c : rip t (RT i cs) -> NoDup (rt_indices (RT i cs)) -> In c cs ->
  forall x, occurs t x c -> In x (bag_of t i) -> In x (bag_of t (rt_root c)).
Proof.
  intros Rp ND Hc x Ox Hx. destruct (rip_inv i cs Rp) as [_ H].
  destruct (NoDup_child i cs c ND Hc) as [_ Hi]. exact (proj2 (H c x i Hc Ox (or_introl eq_refl) Hi Hx)).
Qed.

(** a node summed in the subtree occurs in it and not in the parent's bag *)
Lemma Wv_private : forall T p, rip t T -> NoDup (rt_indices T) -> ords_ok t ords T (Some p) ->
  (forall j, In j (rt_indices T) -> NoDup (bag_of t j)) ->
  (forall x, occurs t x T -> In x (bag_of t p) -> In x (bag_of t (rt_root T))) ->
  forall x, In x (Wv T (Some p)) -> occurs t x T /\ ~ In x (bag_of t p).
Proof.
  induction T as [i cs IH] using rt_ind'. intros p Rp ND OO NDb Up x Hx. rewrite Forall_forall in IH.
  rewrite Wv_eq, in_app_iff in Hx. cbn [rt_root] in Up.
  pose proof (proj1 (ords_ok_eq t ords i cs (Some p)) OO) as [Pi _].
  assert (NDi : NoDup (bag_of t i)) by (apply NDb; rewrite rt_indices_eq; now left).
  destruct Hx as [Hx|Hx].
  - apply lminus_In in Hx. destruct Hx as [Hb Hn]. split.
    + exists i. split; [rewrite rt_indices_eq; now left|exact Hb].
    + intro Hp. apply Hn. apply (ext_child_In i p x NDi Pi). tauto.
  - apply in_flat_map in Hx. destruct Hx as (c & Hc & Hx).
    destruct (NoDup_child i cs c ND Hc) as [NDc Hic].
    assert (Hres : occurs t x c /\ ~ In x (bag_of t i)).
    { apply (IH c Hc i); trivial.
      - now apply (rip_inv i cs Rp).
      - eapply ords_child; eauto.
      - intros j Hj. apply NDb. rewrite rt_indices_eq. right. apply in_flat_map. eauto.
      - now apply (up_child i cs c). }
    destruct Hres as [Oc Hni].
    split; [eapply occurs_child; eauto|]. intro Hp. apply Hni. apply Up; trivial. eapply occurs_child; eauto.
Qed.

(** ... nor in the subtree of a sibling *)
Lemma Wv_sibling i cs c c' x : rip t (RT i cs) -> NoDup (rt_indices (RT i cs)) -> ords_ok t ords (RT i cs) None \/ True ->
  (forall j, In j (rt_indices (RT i cs)) -> NoDup (bag_of t j)) ->
  (forall cc, In cc cs -> ords_ok t ords cc (Some i)) ->
  In c cs -> In c' cs -> (forall j, In j (rt_indices c') -> ~ In j (rt_indices c)) ->
  In x (Wv c (Some i)) -> ~ In x (Vn c').
Proof.
  intros Rp ND _ NDb OO Hc Hc' Dis Hx Hv.
  destruct (NoDup_child i cs c ND Hc) as [NDc Hic].
  assert (Hres : occurs t x c /\ ~ In x (bag_of t i)).
  { apply (Wv_private c i); trivial.
    - now apply (rip_inv i cs Rp).
    - now apply OO.
    - intros j Hj. apply NDb. rewrite rt_indices_eq. right. apply in_flat_map. eauto.
    - now apply (up_child i cs c). }
  destruct Hres as [Oc Hni].
  apply Vn_occurs in Hv. destruct Hv as (j' & Hj' & Hxj').
    destruct (rip_inv i cs Rp) as [_ H]. apply Hni.
    refine (proj1 (H c x j' Hc Oc _ (Dis j' Hj') Hxj')). right. apply in_flat_map. eauto.
Qed.

(** every node that occurs in the subtree and not above it is summed there *)
Lemma Wv_complete : forall T parent, ords_ok t ords T parent ->
  (forall j, In j (rt_indices T) -> NoDup (bag_of t j)) ->
  forall x, occurs t x T ->
    match parent with Some p => ~ In x (bag_of t p) | None => ~ In x (fr_ext r) end ->
    In x (Wv T parent).
Proof.
  induction T as [i cs IH] using rt_ind'. intros parent OO NDb x Ox Hn. rewrite Forall_forall in IH.
  rewrite Wv_eq, in_app_iff.
  assert (NDi : NoDup (bag_of t i)) by (apply NDb; rewrite rt_indices_eq; now left).
  destruct (in_dec Nat.eq_dec x (bag_of t i)) as [Hb|Hb].
  - left. apply lminus_In. split; trivial. destruct parent as [p|]; [|exact Hn].
    pose proof (proj1 (ords_ok_eq t ords i cs (Some p)) OO) as [Pi _].
    intro He. apply (ext_child_In i p x NDi Pi) in He. tauto.
  - right. destruct Ox as (j & Hj & Hxj). rewrite rt_indices_eq in Hj. destruct Hj as [<-|Hj]; [contradiction|].
    apply in_flat_map in Hj. destruct Hj as (c & Hc & Hj). apply in_flat_map. exists c. split; trivial.
    apply (IH c Hc (Some i)); trivial.
    + eapply ords_child; eauto.
    + intros k Hk. apply NDb. rewrite rt_indices_eq. right. apply in_flat_map. eauto.
    + exists j. auto.
Qed.

Lemma Wv_sub : forall T parent x, In x (Wv T parent) -> In x (Vn T).
Proof.
  induction T as [i cs IH] using rt_ind'. intros parent x. rewrite Forall_forall in IH.
  rewrite Wv_eq, in_app_iff. unfold Vn. rewrite rt_indices_eq. cbn [flat_map]. rewrite in_app_iff. intros [H|H].
  - left. apply lminus_In in H. tauto.
  - right. apply in_flat_map in H. destruct H as (c & Hc & Hx). apply (IH c Hc) in Hx. unfold Vn in Hx.
    apply in_flat_map in Hx. destruct Hx as (j & Hj & Hx). apply in_flat_map. exists j. split; trivial.
    apply in_flat_map. eauto.
Qed.

(** the summed variables of a subtree are pairwise different *)
Lemma Wv_NoDup : forall T parent, rip t T -> NoDup (rt_indices T) -> ords_ok t ords T parent ->
  (forall j, In j (rt_indices T) -> NoDup (bag_of t j)) -> NoDup (Wv T parent).
Proof.
  induction T as [i cs IH] using rt_ind'. intros parent Rp ND OO NDb. rewrite Forall_forall in IH.
  rewrite Wv_eq.
  assert (NDi : NoDup (bag_of t i)) by (apply NDb; rewrite rt_indices_eq; now left).
  assert (OOc : forall c, In c cs -> ords_ok t ords c (Some i)) by (intros c Hc; eapply ords_child; eauto).
  assert (NDbc : forall c, In c cs -> forall j, In j (rt_indices c) -> NoDup (bag_of t j)).
  { intros c Hc j Hj. apply NDb. rewrite rt_indices_eq. right. apply in_flat_map. eauto. }
  assert (Priv : forall c x, In c cs -> In x (Wv c (Some i)) -> occurs t x c /\ ~ In x (bag_of t i)).
  { intros c x Hc Hx. destruct (NoDup_child i cs c ND Hc) as [NDc Hic].
    apply (Wv_private c i); trivial; [now apply (rip_inv i cs Rp)|now apply OOc|now apply NDbc|now apply (up_child i cs c)]. }
  apply NoDup_app_intro'.
  - now apply NoDup_filter.
  - (* the children *)
    assert (G : forall l, (forall c, In c l -> In c cs) -> NoDup (flat_map rt_indices l) -> NoDup (flat_map (fun c => Wv c (Some i)) l)).
    { induction l as [|c l IHl]; intros Hsub NDl; [constructor|]. cbn [flat_map] in *.
      assert (Hc : In c cs) by (apply Hsub; now left).
      apply NoDup_app_intro'.
      - destruct (NoDup_child i cs c ND Hc) as [NDc _]. apply IH; trivial; [now apply (rip_inv i cs Rp)|now apply OOc|now apply NDbc].
      - apply IHl; [intros d Hd; apply Hsub; now right|eapply NoDup_app_r; exact NDl].
      - intros x Hx1 Hx2. apply in_flat_map in Hx2. destruct Hx2 as (c' & Hc' & Hx2).
        assert (Hc'cs : In c' cs) by (apply Hsub; now right).
        apply (Wv_sibling i cs c c' x Rp ND (or_intror I) NDb OOc Hc Hc'cs); trivial.
        + intros j Hj Hj2. apply (NoDup_app_disj _ _ j NDl Hj2). apply in_flat_map. eauto.
        + now apply Wv_sub in Hx2. }
    apply G; [auto|]. rewrite rt_indices_eq in ND. now inversion ND.
  - intros x Hx1 Hx2. apply lminus_In in Hx1. apply in_flat_map in Hx2. destruct Hx2 as (c & Hc & Hx2).
    destruct (Priv c x Hc Hx2) as [_ H]. tauto.
Qed.

End WvSec.
