(** C09 -- [order_nonterminals_model]: whatever the iteration order of Python's sets, the
    returned list is a duplicate-free enumeration of the shape keys, i.e. a legitimate
    elimination order for multi_solve (C09_block_elimination_least holds for any such order). *)
From Coq Require Import List Arith Lia Bool PeanoNat.
Import ListNotations.
Require Import Fggs.Model.MultiSolve.

Lemma memk_In l x : memk l x = true <-> In x l.
Proof.
  unfold memk. rewrite existsb_exists. split.
  - intros [y [Hy E]]. apply Nat.eqb_eq in E. subst. exact Hy.
  - intros H. exists x. split; [exact H|apply Nat.eqb_refl].
Qed.
Lemma memk_false l x : memk l x = false <-> ~ In x l.
Proof. rewrite <- memk_In. destruct (memk l x); split; congruence. Qed.

Lemma NoDup_snoc (l : list nat) y : NoDup l -> ~ In y l -> NoDup (l ++ [y]).
Proof.
  induction l as [|a l IH]; intros ND Hy; cbn.
  - constructor; [intros []|constructor].
  - inversion ND as [|? ? Ha ND']; subst. constructor.
    + rewrite in_app_iff. intros [H|[H|[]]]; [contradiction|subst; apply Hy; now left].
    + apply IH; [exact ND'|intros H; apply Hy; now right].
Qed.
Lemma NoDup_app_disj (l1 l2 : list nat) :
  NoDup l1 -> NoDup l2 -> (forall x, In x l1 -> ~ In x l2) -> NoDup (l1 ++ l2).
Proof.
  induction l1 as [|a l1 IH]; intros N1 N2 D; cbn; [exact N2|].
  inversion N1 as [|? ? Ha N1']; subst. constructor.
  - rewrite in_app_iff. intros [H|H]; [contradiction|]. apply (D a); [now left|exact H].
  - apply IH; [exact N1'|exact N2|]. intros x Hx. apply D. now right.
Qed.

(** the graph built from the keys: successor sets are duplicate-free and contain only second
    components of keys *)
Definition graph_ok (ys : list key) (g : graph_t) : Prop :=
  forall a s, In (a, s) g -> NoDup s /\ forall y, In y s -> In y ys.

Lemma gadd_ok ys g x y : graph_ok ys g -> In y ys -> graph_ok ys (gadd g x y).
Proof.
  induction g as [|[a s] g IH]; intros Hg Hy a' s' Hin; cbn in Hin.
  - destruct Hin as [E|[]]. injection E as <- <-. split; [constructor; [intros []|constructor]|].
    intros y' [<-|[]]. exact Hy.
  - destruct (Nat.eqb a x).
    + destruct Hin as [E|Hin].
      * injection E as <- <-. destruct (Hg a s (or_introl eq_refl)) as [ND Hs].
        destruct (memk s y) eqn:M; [split; assumption|].
        split; [apply NoDup_snoc; [exact ND|apply memk_false; exact M]|].
        intros y' Hy'. apply in_app_iff in Hy'. destruct Hy' as [Hy'|[<-|[]]]; [apply Hs; exact Hy'|exact Hy].
      * apply (Hg a' s'). now right.
    + destruct Hin as [E|Hin].
      * injection E as <- <-. apply (Hg a s). now left.
      * apply (IH (fun a0 s0 H0 => Hg a0 s0 (or_intror H0)) Hy a' s' Hin).
Qed.

Lemma build_graph_ok keys : graph_ok (map snd keys) (build_graph keys).
Proof.
  unfold build_graph.
  assert (G : forall l g, graph_ok (map snd keys) g -> (forall e, In e l -> In e keys) ->
                          graph_ok (map snd keys) (fold_left (fun g e => gadd g (fst e) (snd e)) l g)).
  { induction l as [|e l IH]; intros g Hg Hl; [exact Hg|]. cbn [fold_left]. apply IH.
    - apply gadd_ok; [exact Hg|]. apply in_map. apply Hl. now left.
    - intros e' He'. apply Hl. now right. }
  apply G; [intros a s []|auto].
Qed.

Lemma gsuccs_In g x s : gsuccs g x = Some s -> In (x, s) g.
Proof.
  induction g as [|[a t] g IH]; cbn; [discriminate|].
  destruct (Nat.eqb_spec a x) as [->|]; [intros E; injection E as ->; now left|].
  intros H. right. apply IH. exact H.
Qed.

Section Order.
Variable iter : list key -> list key.
Hypothesis iter_In : forall s x, In x (iter s) -> In x s.
Hypothesis iter_In' : forall s x, In x s -> In x (iter s).
Hypothesis iter_NoDup : forall s, NoDup s -> NoDup (iter s).

Definition nl_ok (ys nl : list key) : Prop := NoDup nl /\ forall y, In y nl -> In y ys.

Lemma nonlinking_step_ok ys g fin nl x :
  graph_ok ys g -> nl_ok ys nl -> nl_ok ys (nonlinking_step iter g fin nl x).
Proof.
  intros Hg Hnl. unfold nonlinking_step.
  destruct (fget fin x) as [fx|]; [|exact Hnl].
  destruct (gsuccs g x) as [s|] eqn:Gs; [|exact Hnl].
  destruct (Hg x s (gsuccs_In g x s Gs)) as [_ Hs].
  assert (F : forall l, (forall y, In y l -> In y ys) ->
              nl_ok ys ((fix first (ys0 : list key) : list key :=
                 match ys0 with
                 | [] => nl
                 | y :: ys1 => match fget fin y with
                               | Some fy => if fx <? fy then if memk nl y then nl else nl ++ [y] else first ys1
                               | None => first ys1
                               end
                 end) l)).
  { induction l as [|y l IH]; intros Hl; [exact Hnl|].
    assert (IH' := IH (fun y0 H0 => Hl y0 (or_intror H0))).
    destruct (fget fin y) as [fy|]; [|exact IH'].
    destruct (fx <? fy); [|exact IH'].
    destruct (memk nl y) eqn:M; [exact Hnl|].
    destruct Hnl as [ND Hin]. split; [apply NoDup_snoc; [exact ND|apply memk_false; exact M]|].
    intros y' Hy'. apply in_app_iff in Hy'. destruct Hy' as [Hy'|[<-|[]]]; [apply Hin; exact Hy'|].
    apply Hl. now left. }
  apply F. intros y Hy. apply Hs. apply iter_In. exact Hy.
Qed.

Theorem order_model_enumerates keys shape_keys l :
  NoDup shape_keys -> (forall e, In e keys -> In (snd e) shape_keys) -> keys <> [] ->
  order_nonterminals_model iter keys shape_keys = Some l ->
  NoDup l /\ forall x, In x l <-> In x shape_keys.
Proof.
  intros NDs Hk Hne. unfold order_nonterminals_model.
  destruct (rev keys) as [|[start w] rk] eqn:R.
  { exfalso. apply Hne. rewrite <- (rev_involutive keys), R. reflexivity. }
  cbv zeta.
  destruct (dfs iter (S (length (build_graph keys) + length keys)) (build_graph keys) start ([], 0, []))
    as [[[vis time] fin]|]; [|discriminate].
  intros E. injection E as <-.
  set (g := build_graph keys).
  set (nl := fold_left (nonlinking_step iter g fin) shape_keys []).
  assert (G : forall l acc, nl_ok (map snd keys) acc ->
                nl_ok (map snd keys) (fold_left (nonlinking_step iter g fin) l acc)).
  { induction l as [|x l IH]; intros acc Hacc; [exact Hacc|]. cbn [fold_left]. apply IH.
    apply nonlinking_step_ok; [apply build_graph_ok|exact Hacc]. }
  assert (Hnl : nl_ok (map snd keys) nl).
  { unfold nl. apply G. split; [constructor|intros y []]. }
  destruct Hnl as [NDnl Hin].
  split.
  - apply NoDup_app_disj.
    + apply NoDup_filter. exact NDs.
    + apply iter_NoDup. exact NDnl.
    + intros x Hx Hx'. apply filter_In in Hx. destruct Hx as [_ M]. apply negb_true_iff in M.
      apply memk_false in M. apply M. apply iter_In. exact Hx'.
  - intros x. rewrite in_app_iff. split.
    + intros [H|H]; [apply filter_In in H; tauto|].
      apply iter_In in H. apply Hin in H. apply in_map_iff in H. destruct H as [e [<- He]].
      apply Hk; exact He.
    + intros Hx. destruct (memk nl x) eqn:M.
      * right. apply iter_In'. apply memk_In. exact M.
      * left. apply filter_In. split; [exact Hx|]. rewrite M. reflexivity.
Qed.
End Order.

(** the ascending iteration used by the executable check satisfies the hypotheses *)
Lemma insert_sorted_In x l y : In y (insert_sorted x l) <-> y = x \/ In y l.
Proof.
  induction l as [|z l IH]; cbn [insert_sorted].
  - cbn. intuition.
  - destruct (x <? z); [cbn; intuition|].
    destruct (Nat.eqb_spec x z) as [->|]; [cbn; intuition|]. cbn [In]. rewrite IH. intuition.
Qed.
Lemma iter_sorted_In s x : In x (iter_sorted s) <-> In x s.
Proof.
  unfold iter_sorted.
  assert (G : forall l acc, In x (fold_left (fun acc x => insert_sorted x acc) l acc) <-> In x l \/ In x acc).
  { induction l as [|y l IH]; intros acc; cbn [fold_left]; [cbn; tauto|].
    rewrite IH, insert_sorted_In. cbn. intuition. }
  rewrite G. cbn. tauto.
Qed.

From Coq Require Import Sorting.Sorted.
Lemma insert_sorted_sorted x l : StronglySorted lt l -> StronglySorted lt (insert_sorted x l).
Proof.
  induction l as [|z l IH]; intros Hs; cbn [insert_sorted].
  - constructor; constructor.
  - inversion Hs as [|? ? Hs' Hf]; subst.
    destruct (Nat.ltb_spec x z) as [Hlt|Hge].
    + constructor; [exact Hs|]. constructor; [exact Hlt|].
      apply Forall_forall. intros y Hy. rewrite Forall_forall in Hf. specialize (Hf y Hy). lia.
    + destruct (Nat.eqb_spec x z) as [->|Hne]; [exact Hs|].
      constructor; [apply IH; exact Hs'|].
      apply Forall_forall. intros y Hy. apply insert_sorted_In in Hy. destruct Hy as [->|Hy]; [lia|].
      rewrite Forall_forall in Hf. apply Hf. exact Hy.
Qed.
Lemma sorted_NoDup l : StronglySorted lt l -> NoDup l.
Proof.
  induction 1 as [|a l Hs IH Hf]; constructor; [|exact IH].
  intros Hin. rewrite Forall_forall in Hf. specialize (Hf a Hin). lia.
Qed.
Lemma iter_sorted_NoDup s : NoDup (iter_sorted s).
Proof.
  apply sorted_NoDup. unfold iter_sorted.
  assert (G : forall l acc, StronglySorted lt acc ->
                StronglySorted lt (fold_left (fun acc x => insert_sorted x acc) l acc)).
  { induction l as [|y l IH]; intros acc Ha; [exact Ha|]. cbn [fold_left]. apply IH.
    apply insert_sorted_sorted. exact Ha. }
  apply G. constructor.
Qed.

(** the model as run by [order_check] (ascending set iteration) returns a legitimate
    elimination order *)
Corollary order_model_sorted_enumerates keys shape_keys l :
  NoDup shape_keys -> (forall e, In e keys -> In (snd e) shape_keys) -> keys <> [] ->
  order_nonterminals_model iter_sorted keys shape_keys = Some l ->
  NoDup l /\ forall x, In x l <-> In x shape_keys.
Proof.
  apply order_model_enumerates.
  - intros s x. apply iter_sorted_In.
  - intros s x. apply iter_sorted_In.
  - intros s _. apply iter_sorted_NoDup.
Qed.

Example order_model_example :
  order_nonterminals_model iter_sorted [(0, 1); (1, 0); (2, 1)] [0; 1; 2] = Some [0; 2; 1].
Proof. vm_compute. reflexivity. Qed.
