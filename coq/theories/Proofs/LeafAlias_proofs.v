(** C03 -- proofs about Model/LeafAlias.v: the storage-partition check is exact, a path accepted by it keeps
    distinct storages distinct, and a factor whose storage is shared with no other factor reads its own
    derivative from [.grad] (while two factors in one storage both read the sum). *)
From Coq Require Import List Arith Bool PeanoNat Ring_theory Lia.
Import ListNotations.
Require Import Fggs.Model.Semiring Fggs.Model.LeafAlias Fggs.Proofs.SP_examples.
Local Open Scope nat_scope.

Lemma alias_refines_spec ps :
  alias_refines ps = true <-> forall p q, In p ps -> In q ps -> snd p = snd q -> fst p = fst q.
Proof.
  unfold alias_refines. rewrite forallb_forall. split.
  - intros H p q Hp Hq E. specialize (H p Hp). rewrite forallb_forall in H. specialize (H q Hq).
    apply Nat.eqb_eq in E. rewrite E in H. cbn in H. now apply Nat.eqb_eq.
  - intros H p Hp. apply forallb_forall. intros q Hq.
    destruct (Nat.eqb (snd p) (snd q)) eqn:E; cbn; [|reflexivity].
    apply Nat.eqb_eq. apply H; auto. now apply Nat.eqb_eq.
Qed.

Theorem alias_check_exact pre post :
  alias_check (pre, post) = 0 <->
  length pre = length post /\
  forall p q, In p (combine pre post) -> In q (combine pre post) -> snd p = snd q -> fst p = fst q.
Proof.
  unfold alias_check. destruct (Nat.eqb (length pre) (length post)) eqn:L; cbn.
  - apply Nat.eqb_eq in L. destruct (alias_refines (combine pre post)) eqn:A.
    + split; [intros _; split; [exact L | now apply alias_refines_spec] | reflexivity].
    + split; [discriminate|]. intros [_ H]. apply alias_refines_spec in H. congruence.
  - apply Nat.eqb_neq in L. split; [discriminate | intros [H _]; contradiction].
Qed.

Lemma in_combine_r_ex {A B} (l : list A) (l' : list B) b :
  length l = length l' -> In b l' -> exists a, In (a, b) (combine l l').
Proof.
  revert l'. induction l as [|a l IH]; intros [|b' l'] Hl Hin; cbn in *; try discriminate; try contradiction.
  destruct Hin as [->|Hin].
  - exists a. now left.
  - destruct (IH l') as [a' Ha']; [lia | exact Hin |]. exists a'. now right.
Qed.

(** a path accepted by the check keeps tensors in different storages in different storages *)
Theorem alias_check_preserves_nodup pre post :
  alias_check (pre, post) = 0 -> NoDup pre -> NoDup post.
Proof.
  intros H. apply alias_check_exact in H. destruct H as [Hl H]. revert post Hl H.
  induction pre as [|a pre IH]; intros [|b post] Hl H ND; cbn in *; try discriminate; [constructor|].
  inversion ND as [|? ? Hn ND']; subst. constructor.
  - intros Hb. destruct (in_combine_r_ex pre post b) as [x Hx]; [lia | exact Hb |].
    assert (E : a = x) by (apply (H (a, b) (x, b)); [now left | now right | reflexivity]).
    subst x. apply Hn. eapply in_combine_l. exact Hx.
  - apply IH; [lia | | exact ND']. intros p q Hp Hq. apply H; now right.
Qed.

Section Leaf.
Context {R : Type} (o : sr_ops R) (Hr : sr_ring o).

Lemma leaf_grad_cons p fs s :
  leaf_grad o (p :: fs) s = if Nat.eqb (fst p) s then add o (snd p) (leaf_grad o fs s) else leaf_grad o fs s.
Proof. reflexivity. Qed.

Lemma leaf_grad_absent fs s : ~ In s (map fst fs) -> leaf_grad o fs s = zero o.
Proof.
  induction fs as [|p fs IH]; intros H; [reflexivity|].
  rewrite leaf_grad_cons. destruct (Nat.eqb (fst p) s) eqn:E.
  - apply Nat.eqb_eq in E. exfalso. apply H. now left.
  - apply IH. intros H'. apply H. now right.
Qed.

(** a factor that shares its storage with no other factor reads its own derivative *)
Lemma leaf_grad_unshared fs s d :
  NoDup (map fst fs) -> In (s, d) fs -> leaf_grad o fs s = d.
Proof.
  induction fs as [|p fs IH]; intros ND HIn; [contradiction|].
  rewrite leaf_grad_cons. cbn [map] in ND.
  inversion ND as [|? ? Hn ND']; subst. destruct HIn as [->|HIn].
  - cbn [fst snd]. rewrite Nat.eqb_refl. rewrite leaf_grad_absent by exact Hn.
    rewrite (SRadd_comm Hr). apply (SRadd_0_l Hr).
  - destruct (Nat.eqb (fst p) s) eqn:E.
    + apply Nat.eqb_eq in E. exfalso. apply Hn. rewrite E.
      apply (in_map fst) in HIn. exact HIn.
    + now apply IH.
Qed.

Theorem observed_grads_unshared fs :
  NoDup (map fst fs) -> observed_grads o fs = map snd fs.
Proof.
  intros ND. unfold observed_grads. apply map_ext_in. intros [s d] HIn. cbn.
  now apply leaf_grad_unshared.
Qed.

(** two factors in one storage: each of them reads the sum of both derivatives *)
Theorem observed_grads_shared_pair s a b :
  observed_grads o [(s, a); (s, b)] = [add o a b; add o a b].
Proof.
  unfold observed_grads. cbn. rewrite Nat.eqb_refl.
  replace (add o b (zero o)) with b; [reflexivity|].
  rewrite (SRadd_comm Hr). symmetry. apply (SRadd_0_l Hr).
Qed.
End Leaf.

(** hypotheses satisfiable / the conclusion fails without them: naturals, derivatives 1 and 2 *)
Example observed_grads_unshared_example :
  observed_grads nat_ops_example [(0, 1); (1, 2)] = [1; 2].
Proof. reflexivity. Qed.

Example observed_grads_shared_witness :
  observed_grads nat_ops_example [(0, 1); (0, 2)] = [3; 3]
  /\ observed_grads nat_ops_example [(0, 1); (0, 2)] <> map snd [(0, 1); (0, 2)].
Proof. split; [reflexivity | discriminate]. Qed.

Example alias_check_examples :
  alias_check ([0; 1; 2], [5; 6; 7]) = 0 /\ alias_check ([0; 0; 2], [5; 5; 7]) = 0
  /\ alias_check ([0; 0; 2], [5; 6; 7]) = 0 /\ alias_check ([0; 1; 2], [5; 5; 7]) = 1
  /\ alias_check ([0; 1], [5]) = 2.
Proof. repeat split; reflexivity. Qed.
