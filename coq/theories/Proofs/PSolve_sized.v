(** C09 tier B -- a unifier computed without a warning preserves sizes.
    [unify] warns whenever it meets two axes of different sizes, and binds a physical axis only
    after that test.  If every physical axis has one size ([szc sz]: all its occurrences carry the
    size [sz k]) and no warning was issued, every binding [k |-> T] of the resulting substitution
    has [numel T = sz' k] for an extension [sz'] of [sz] to the fresh axes ([unify_sized]).  Hence
    the guard [last_sized_b] of the closure theorem holds by itself ([unify_sized_b]). *)
From Coq Require Import List Arith Lia PeanoNat Bool PArith.
Import ListNotations.
Require Import Fggs.Model.Axis Fggs.Model.AxisCheck Fggs.Model.PSolve.
Require Import Fggs.Proofs.Axis_sem Fggs.Proofs.Axis_unify Fggs.Proofs.Axis_antiunify Fggs.Proofs.Axis_antiunify_inv.
Require Import Fggs.Proofs.Axis_clone Fggs.Proofs.Axis_subst.
Require Import Fggs.Proofs.Axis_complete_gen.

Definition szc (sz : positive -> nat) (x : axis) : Prop := forall k n, In (k, n) (fvn x) -> n = sz k.
Definition szs (sz : positive -> nat) (s : subst) : Prop := forall k T, In (k, T) s -> szc sz T /\ numel T = sz k.
Definition agree (nx : positive) (sz sz' : positive -> nat) : Prop := forall k, (k < nx)%positive -> sz' k = sz k.

Lemma agree_refl nx sz : agree nx sz sz.
Proof. intros k _. reflexivity. Qed.
Lemma agree_trans nx nx' s0 s1 s2 : (nx <= nx')%positive -> agree nx s0 s1 -> agree nx' s1 s2 -> agree nx s0 s2.
Proof. intros L A1 A2 k Hk. rewrite A2 by lia. apply A1. exact Hk. Qed.

Lemma szc_agree nx sz sz' x : agree nx sz sz' -> below nx x -> szc sz x -> szc sz' x.
Proof.
  intros A B S k n Hk. rewrite A; [exact (S k n Hk)|]. apply B. apply fv_of_fvn. eauto.
Qed.
Lemma szs_agree nx sz sz' s : agree nx sz sz' -> below_s nx s -> szs sz s -> szs sz' s.
Proof.
  intros A B S k T H. destruct (S k T H) as [S1 S2]. destruct (B k T H) as [B1 B2].
  split; [eapply szc_agree; eauto|]. rewrite A by exact B1. exact S2.
Qed.

Lemma szc_Prod sz l : szc sz (Prod l) <-> forall x, In x l -> szc sz x.
Proof.
  unfold szc. simpl. split.
  - intros H x Hx k n Hk. apply H. apply in_flat_map. eauto.
  - intros H k n Hk. apply in_flat_map in Hk. destruct Hk as (x & Hx & Hk). eapply H; eauto.
Qed.
Lemma szc_Sum sz b t a : szc sz (Sum b t a) <-> szc sz t.
Proof. reflexivity. Qed.
Lemma szc_unit sz : szc sz unitAxis.
Proof. intros k n []. Qed.
Lemma szc_productAxis sz l : (forall x, In x l -> szc sz x) -> szc sz (productAxis l).
Proof.
  intros H k n Hk. apply fvn_productAxis in Hk. apply in_flat_map in Hk. destruct Hk as (x & Hx & Hk). exact (H x Hx k n Hk).
Qed.

Lemma lookup_szc sz s fuel e e' : szc sz e -> szs sz s -> lookup fuel s e = Ok e' -> szc sz e'.
Proof.
  intros Se Ss H. destruct (lookup_cases _ _ _ _ H) as [->|[k Hk]]; [exact Se|exact (proj1 (Ss _ _ Hk))].
Qed.

Definition upd_sz (sz : positive -> nat) (k : positive) (v : nat) : positive -> nat :=
  fun j => if Pos.eqb j k then v else sz j.
Lemma upd_sz_agree nx sz v : agree nx sz (upd_sz sz nx v).
Proof. intros k Hk. unfold upd_sz. destruct (Pos.eqb_spec k nx); [lia|reflexivity]. Qed.
Lemma upd_sz_same sz k v : upd_sz sz k v k = v.
Proof. unfold upd_sz. rewrite Pos.eqb_refl. reflexivity. Qed.

Definition zgoal (sz : positive -> nat) (st st' : ustate) : Prop :=
  exists sz', agree (us_next st) sz sz' /\ szs sz' (us_subst st').

Definition Z_unify (fuel : nat) : Prop :=
  forall e f st b st' sz,
    below (us_next st) e -> below (us_next st) f -> below_s (us_next st) (us_subst st) ->
    szc sz e -> szc sz f -> szs sz (us_subst st) ->
    unify fuel e f st = Ok (b, st') -> us_warn st' = false -> zgoal sz st st'.

Definition Z_loop (fuel : nat) : Prop :=
  forall esr fsr st b st' sz,
    (forall x, In x esr -> below (us_next st) x) -> (forall x, In x fsr -> below (us_next st) x) ->
    below_s (us_next st) (us_subst st) ->
    (forall x, In x esr -> szc sz x) -> (forall x, In x fsr -> szc sz x) -> szs sz (us_subst st) ->
    unify_loop fuel esr fsr st = Ok (b, st') -> us_warn st' = false -> zgoal sz st st'.

Lemma zgoal_refl sz st : szs sz (us_subst st) -> zgoal sz st st.
Proof. intros S. exists sz. split; [apply agree_refl|exact S]. Qed.

Lemma zgoal_chain sz st st1 st' sz1 :
  (us_next st <= us_next st1)%positive -> agree (us_next st) sz sz1 -> zgoal sz1 st1 st' -> zgoal sz st st'.
Proof. intros L A (sz2 & A2 & S2). exists sz2. split; [eapply agree_trans; eauto|exact S2]. Qed.

(** the frame facts and the monotonicity of the flag, from the completeness development *)
Lemma unify_frame fuel e f st b st' :
  below (us_next st) e -> below (us_next st) f -> below_s (us_next st) (us_subst st) ->
  unify fuel e f st = Ok (b, st') ->
  (us_next st <= us_next st')%positive /\ below_s (us_next st') (us_subst st') /\ (us_warn st' = false -> us_warn st = false).
Proof.
  intros Be Bf Bs H. destruct (proj1 (unify_complete_both fuel) e f st b st' Be Bf Bs H) as [(L & B & _) C].
  split; [exact L|]. split; [exact B|]. intros W. exact (proj1 (C W)).
Qed.
Lemma loop_frame fuel esr fsr st b st' :
  (forall x, In x esr -> below (us_next st) x) -> (forall x, In x fsr -> below (us_next st) x) ->
  below_s (us_next st) (us_subst st) ->
  unify_loop fuel esr fsr st = Ok (b, st') ->
  (us_next st <= us_next st')%positive /\ below_s (us_next st') (us_subst st') /\ (us_warn st' = false -> us_warn st = false).
Proof.
  intros Be Bf Bs H. destruct (proj2 (unify_complete_both fuel) esr fsr st b st' Be Bf Bs H) as [(L & B & _) C].
  split; [exact L|]. split; [exact B|]. intros W. exact (proj1 (C W)).
Qed.

(** the leftover loop *)
Lemma leftovers_sized fuel : Z_unify fuel ->
  forall l st b st' sz, (forall x, In x l -> below (us_next st) x) -> below_s (us_next st) (us_subst st) ->
    (forall x, In x l -> szc sz x) -> szs sz (us_subst st) ->
    leftovers fuel l st = Ok (b, st') -> us_warn st' = false -> zgoal sz st st'.
Proof.
  intros IH. induction l as [|x l IHl]; intros st b st' sz Bl Bs Sl Ss H W; simpl in H.
  - inversion H; subst. apply zgoal_refl. exact Ss.
  - destruct (unify fuel x unitAxis st) as [[b1 st1]|] eqn:E1; [|discriminate]. cbn [bind fst snd] in H.
    assert (Bu : below (us_next st) unitAxis) by (intros k []).
    destruct (unify_frame fuel x unitAxis st b1 st1 (Bl x (or_introl eq_refl)) Bu Bs E1) as (L1 & B1 & M1).
    destruct b1.
    + assert (Bl1 : forall y, In y l -> below (us_next st1) y) by (intros y Hy; eapply below_mono; [exact L1|apply Bl; right; exact Hy]).
      assert (W1 : us_warn st1 = false).
      { destruct (leftovers_complete fuel (proj1 (unify_complete_both fuel)) l st1 b st' Bl1 B1 H) as [_ C]. exact (proj1 (C W)). }
      destruct (IH x unitAxis st true st1 sz (Bl x (or_introl eq_refl)) Bu Bs (Sl x (or_introl eq_refl)) (szc_unit sz) Ss E1 W1) as (sz1 & A1 & S1).
      eapply zgoal_chain; [exact L1|exact A1|]. apply (IHl st1 b st' sz1); try assumption.
      intros y Hy. eapply szc_agree; [exact A1|apply Bl; right; exact Hy|apply Sl; right; exact Hy].
    + inversion H; subst. exact (IH x unitAxis st false st' sz (Bl x (or_introl eq_refl)) Bu Bs (Sl x (or_introl eq_refl)) (szc_unit sz) Ss E1 W).
Qed.

(** one splitting step of the loop (cf. [split_step] of Axis_complete_gen.v) *)
Lemma split_sized fuel : Z_unify fuel -> Z_loop fuel ->
  forall (big small : axis) (resb ress : list axis) st b st' (swap : bool) sz,
    below (us_next st) big -> below (us_next st) small ->
    (forall x, In x resb -> below (us_next st) x) -> (forall x, In x ress -> below (us_next st) x) ->
    below_s (us_next st) (us_subst st) ->
    szc sz big -> szc sz small -> (forall x, In x resb -> szc sz x) -> (forall x, In x ress -> szc sz x) ->
    szs sz (us_subst st) ->
    let k := Phys (us_next st) (numel big / numel small) in
    let st0 := {| us_subst := us_subst st; us_next := Pos.succ (us_next st); us_warn := us_warn st |} in
    (r <- unify fuel big (productAxis [k; small]) st0 ;;
     if fst r then (if swap then unify_loop fuel (k :: resb) ress (snd r) else unify_loop fuel ress (k :: resb) (snd r))
     else Ok (false, snd r)) = Ok (b, st') ->
    us_warn st' = false -> zgoal sz st st'.
Proof.
  intros IHu IHl big small resb ress st b st' swap sz Bb Bsm Brb Brs Bs Sb Ssm Srb Srs Ss k st0 H W.
  assert (L0 : (us_next st <= us_next st0)%positive) by (simpl; lia).
  assert (Bk : below (us_next st0) k) by (intros j [<-|[]]; simpl; lia).
  assert (Bp : below (us_next st0) (productAxis [k; small])).
  { intros j Hj. rewrite fv_productAxis in Hj. simpl in Hj. rewrite app_nil_r in Hj. destruct Hj as [<-|Hj]; [simpl; lia|].
    specialize (Bsm j Hj). simpl. lia. }
  assert (Bs0 : below_s (us_next st0) (us_subst st0)) by (eapply below_s_mono; [exact L0|exact Bs]).
  set (sz0 := upd_sz sz (us_next st) (numel big / numel small)).
  assert (A0 : agree (us_next st) sz sz0) by apply upd_sz_agree.
  assert (Sk : szc sz0 k) by (intros j n [E|[]]; inversion E; subst; unfold sz0; rewrite upd_sz_same; reflexivity).
  assert (Sb0 : szc sz0 big) by (eapply szc_agree; eauto).
  assert (Ssm0 : szc sz0 small) by (eapply szc_agree; eauto).
  assert (Sp0 : szc sz0 (productAxis [k; small])) by (apply szc_productAxis; intros x [<-|[<-|[]]]; assumption).
  assert (Ss0 : szs sz0 (us_subst st0)) by (simpl; eapply szs_agree; eauto).
  destruct (unify fuel big (productAxis [k; small]) st0) as [[b1 st1]|] eqn:E1; [|discriminate]. cbn [bind fst snd] in H.
  destruct (unify_frame fuel big (productAxis [k; small]) st0 b1 st1 (below_mono _ _ _ L0 Bb) Bp Bs0 E1) as (L1 & B1 & M1).
  assert (L01 : (us_next st <= us_next st1)%positive) by lia.
  destruct b1.
  - assert (Bkr : forall x, In x (k :: resb) -> below (us_next st1) x).
    { intros x [<-|Hx]; [eapply below_mono; [exact L1|exact Bk]|eapply below_mono; [exact L01|apply Brb; exact Hx]]. }
    assert (Brs1 : forall x, In x ress -> below (us_next st1) x).
    { intros x Hx. eapply below_mono; [exact L01|apply Brs; exact Hx]. }
    assert (W1 : us_warn st1 = false).
    { destruct swap.
      - exact (proj2 (proj2 (loop_frame fuel _ _ _ _ _ Bkr Brs1 B1 H)) W).
      - exact (proj2 (proj2 (loop_frame fuel _ _ _ _ _ Brs1 Bkr B1 H)) W). }
    destruct (IHu big (productAxis [k; small]) st0 true st1 sz0 (below_mono _ _ _ L0 Bb) Bp Bs0 Sb0 Sp0 Ss0 E1 W1) as (sz1 & A1 & S1).
    assert (A01 : agree (us_next st) sz sz1) by (eapply agree_trans; [exact L0|exact A0|exact A1]).
    assert (Skr : forall x, In x (k :: resb) -> szc sz1 x).
    { intros x [<-|Hx]; [eapply szc_agree; [exact A1|exact Bk|exact Sk]|eapply szc_agree; [exact A01|apply Brb; exact Hx|apply Srb; exact Hx]]. }
    assert (Srs1 : forall x, In x ress -> szc sz1 x).
    { intros x Hx. eapply szc_agree; [exact A01|apply Brs; exact Hx|apply Srs; exact Hx]. }
    eapply zgoal_chain; [exact L01|exact A01|].
    destruct swap.
    + exact (IHl (k :: resb) ress st1 b st' sz1 Bkr Brs1 B1 Skr Srs1 S1 H W).
    + exact (IHl ress (k :: resb) st1 b st' sz1 Brs1 Bkr B1 Srs1 Skr S1 H W).
  - inversion H; subst.
    destruct (IHu big (productAxis [k; small]) st0 false st' sz0 (below_mono _ _ _ L0 Bb) Bp Bs0 Sb0 Sp0 Ss0 E1 W) as (sz1 & A1 & S1).
    exists sz1. split; [eapply agree_trans; [exact L0|exact A0|exact A1]|exact S1].
Qed.

Lemma sized_step fuel : Z_unify fuel -> Z_loop fuel -> Z_unify (S fuel) /\ Z_loop (S fuel).
Proof.
  intros IHu IHl. split.
  - (* unify *)
    intros e0 f0 st b st' sz Be0 Bf0 Bs Se0 Sf0 Ss H W. cbn [unify] in H.
    destruct (lookup (lookup_fuel (us_subst st)) (us_subst st) e0) as [e|] eqn:Le; [|discriminate].
    cbn [bind] in H.
    destruct (lookup (lookup_fuel (us_subst st)) (us_subst st) f0) as [f|] eqn:Lf; [|discriminate].
    cbn [bind] in H.
    assert (Be : below (us_next st) e) by exact (lookup_below _ _ _ _ _ Be0 Bs Le).
    assert (Bf : below (us_next st) f) by exact (lookup_below _ _ _ _ _ Bf0 Bs Lf).
    assert (Se : szc sz e) by exact (lookup_szc _ _ _ _ _ Se0 Ss Le).
    assert (Sf : szc sz f) by exact (lookup_szc _ _ _ _ _ Sf0 Ss Lf).
    clear Le Lf Be0 Bf0 Se0 Sf0 e0 f0.
    destruct (same_object e f) eqn:So.
    { inversion H; subst. apply zgoal_refl. exact Ss. }
    clear So.
    remember (if Nat.eqb (numel e) (numel f) then st else u_warn st) as st1 eqn:Est1.
    assert (S1 : us_subst st1 = us_subst st) by (subst st1; apply subst_warn_if).
    assert (N1 : us_next st1 = us_next st) by (subst st1; destruct (Nat.eqb (numel e) (numel f)); reflexivity).
    assert (HN : us_warn st1 = false -> numel e = numel f).
    { subst st1. destruct (Nat.eqb_spec (numel e) (numel f)); [auto|discriminate]. }
    assert (G : zgoal sz st1 st').
    2:{ unfold zgoal in *. rewrite N1 in G. exact G. }
    rewrite <- N1 in Be, Bf. rewrite <- N1, <- S1 in Bs. rewrite <- S1 in Ss.
    clear Est1 S1 N1 st. rename st1 into st.
    assert (Bind : forall k n g (sw : bool), (if sw then e = Phys k n /\ f = g else f = Phys k n /\ e = g) ->
              Ok (true, u_bind k g st) = Ok (b, st') -> zgoal sz st st').
    { intros k n g sw Hsw H'. inversion H'; subst b st'. clear H'. simpl in W. specialize (HN W).
      exists sz. split; [apply agree_refl|]. simpl. intros k' T Hin. apply in_app_or in Hin. destruct Hin as [Hin|[Hin|[]]]; [exact (Ss _ _ Hin)|].
      inversion Hin; subst k' T. destruct sw; destruct Hsw as [-> ->].
      - split; [exact Sf|]. rewrite <- HN. simpl. apply (Se k n). left. reflexivity.
      - split; [exact Se|]. rewrite HN. simpl. apply (Sf k n). left. reflexivity. }
    destruct e as [k1 n1|l1|b1 t1 a1]; destruct f as [k2 n2|l2|b2 t2 a2].
    + apply (Bind k1 n1 (Phys k2 n2) true); [split; reflexivity|exact H].
    + apply (Bind k1 n1 (Prod l2) true); [split; reflexivity|exact H].
    + apply (Bind k1 n1 (Sum b2 t2 a2) true); [split; reflexivity|exact H].
    + apply (Bind k2 n2 (Prod l1) false); [split; reflexivity|destruct l1; exact H].
    + (* Prod, Prod *)
      destruct (zero (Prod l1)) eqn:Z.
      * inversion H; subst. apply zgoal_refl. exact Ss.
      * rewrite below_Prod in Be, Bf. rewrite szc_Prod in Se, Sf.
        apply (IHl (rev l1) (rev l2) st b st' sz); try assumption.
        -- intros x Hx. apply Be. apply in_rev. exact Hx.
        -- intros x Hx. apply Bf. apply in_rev. exact Hx.
        -- intros x Hx. apply Se. apply in_rev. exact Hx.
        -- intros x Hx. apply Sf. apply in_rev. exact Hx.
    + (* Prod, Sum *)
      destruct l1 as [|x l1]; cbn [is_unit] in H.
      * destruct (Nat.eqb b2 0 && Nat.eqb a2 0).
        -- exact (IHu (Prod []) t2 st b st' sz Be Bf Bs Se Sf Ss H W).
        -- inversion H; subst. apply zgoal_refl. exact Ss.
      * inversion H; subst. simpl in W. discriminate.
    + apply (Bind k2 n2 (Sum b1 t1 a1) false); [split; reflexivity|exact H].
    + (* Sum, Prod *)
      destruct l2 as [|y l2]; cbn [is_unit] in H.
      * destruct (Nat.eqb b1 0 && Nat.eqb a1 0).
        -- exact (IHu (Prod []) t1 st b st' sz Bf Be Bs Sf Se Ss H W).
        -- inversion H; subst. apply zgoal_refl. exact Ss.
      * inversion H; subst. simpl in W. discriminate.
    + (* Sum, Sum *)
      destruct (Nat.eqb b1 b2 && Nat.eqb a1 a2).
      * exact (IHu t1 t2 st b st' sz Be Bf Bs Se Sf Ss H W).
      * destruct ((b2 <? b1 + numel t1) && (b1 <? b2 + numel t2)); inversion H; subst.
        -- simpl in W. discriminate.
        -- apply zgoal_refl. exact Ss.
  - (* unify_loop *)
    intros esr fsr st b st' sz Bes Bfs Bs Ses Sfs Ss H W. cbn [unify_loop] in H.
    assert (Left : forall l, l = rev esr ++ rev fsr -> leftovers fuel l st = Ok (b, st') -> zgoal sz st st').
    { intros l El HL. apply (leftovers_sized fuel IHu l st b st' sz); try assumption.
      - subst l. intros x Hx. apply in_app_or in Hx. destruct Hx as [Hx|Hx]; apply in_rev in Hx; auto.
      - subst l. intros x Hx. apply in_app_or in Hx. destruct Hx as [Hx|Hx]; apply in_rev in Hx; auto. }
    destruct esr as [|e9 esr']; [apply (Left _ eq_refl); exact H|].
    destruct fsr as [|f9 fsr']; [apply (Left _ eq_refl); exact H|].
    clear Left.
    assert (Be9 : below (us_next st) e9) by (apply Bes; left; reflexivity).
    assert (Bf9 : below (us_next st) f9) by (apply Bfs; left; reflexivity).
    assert (Bes' : forall x, In x esr' -> below (us_next st) x) by (intros x Hx; apply Bes; right; exact Hx).
    assert (Bfs' : forall x, In x fsr' -> below (us_next st) x) by (intros x Hx; apply Bfs; right; exact Hx).
    assert (Se9 : szc sz e9) by (apply Ses; left; reflexivity).
    assert (Sf9 : szc sz f9) by (apply Sfs; left; reflexivity).
    assert (Ses' : forall x, In x esr' -> szc sz x) by (intros x Hx; apply Ses; right; exact Hx).
    assert (Sfs' : forall x, In x fsr' -> szc sz x) by (intros x Hx; apply Sfs; right; exact Hx).
    destruct (Nat.eqb_spec (numel e9) (numel f9)) as [Emn|Emn].
    + destruct (unify fuel e9 f9 st) as [[b1 st1]|] eqn:E1; [|discriminate]. cbn [bind fst snd] in H.
      destruct (unify_frame fuel e9 f9 st b1 st1 Be9 Bf9 Bs E1) as (L1 & B1 & M1).
      destruct b1.
      * assert (Bes1 : forall x, In x esr' -> below (us_next st1) x) by (intros x Hx; eapply below_mono; [exact L1|auto]).
        assert (Bfs1 : forall x, In x fsr' -> below (us_next st1) x) by (intros x Hx; eapply below_mono; [exact L1|auto]).
        assert (W1 : us_warn st1 = false) by exact (proj2 (proj2 (loop_frame fuel _ _ _ _ _ Bes1 Bfs1 B1 H)) W).
        destruct (IHu e9 f9 st true st1 sz Be9 Bf9 Bs Se9 Sf9 Ss E1 W1) as (sz1 & A1 & S1).
        eapply zgoal_chain; [exact L1|exact A1|].
        apply (IHl esr' fsr' st1 b st' sz1); try assumption.
        -- intros x Hx. eapply szc_agree; [exact A1|auto|auto].
        -- intros x Hx. eapply szc_agree; [exact A1|auto|auto].
      * inversion H; subst. exact (IHu e9 f9 st false st' sz Be9 Bf9 Bs Se9 Sf9 Ss E1 W).
    + destruct (numel e9 <? numel f9) eqn:Elt.
      * destruct (Nat.eqb_spec (numel e9) 0) as [|Hm]; [discriminate|].
        destruct (Nat.eqb_spec (numel f9 mod numel e9) 0) as [Hmod|Hmod]; cbn [negb] in H;
          [|inversion H; subst; simpl in W; discriminate].
        unfold u_fresh in H.
        exact (split_sized fuel IHu IHl f9 e9 fsr' esr' st b st' false sz Bf9 Be9 Bfs' Bes' Bs Sf9 Se9 Sfs' Ses' Ss H W).
      * destruct (Nat.eqb_spec (numel f9) 0) as [|Hm]; [discriminate|].
        destruct (Nat.eqb_spec (numel e9 mod numel f9) 0) as [Hmod|Hmod]; cbn [negb] in H;
          [|inversion H; subst; simpl in W; discriminate].
        unfold u_fresh in H.
        exact (split_sized fuel IHu IHl e9 f9 esr' fsr' st b st' true sz Be9 Bf9 Bes' Bfs' Bs Se9 Sf9 Ses' Sfs' Ss H W).
Qed.

Theorem unify_sized_both : forall fuel, Z_unify fuel /\ Z_loop fuel.
Proof.
  induction fuel as [|fuel [IHu IHl]]; [split; intros ? ? ? ? ? ? ? ? ? ? ? ? H; discriminate|].
  apply sized_step; assumption.
Qed.

(** C09_unify_sized: the call made by the library, from the empty substitution *)
Theorem unify_sized fuel e f next b st sz :
  below next e -> below next f -> szc sz e -> szc sz f ->
  unify fuel e f {| us_subst := []; us_next := next; us_warn := false |} = Ok (b, st) -> us_warn st = false ->
  exists sz', agree next sz sz' /\ szs sz' (us_subst st).
Proof.
  intros Be Bf Se Sf H W.
  set (st0 := {| us_subst := []; us_next := next; us_warn := false |}) in *.
  destruct (proj1 (unify_sized_both fuel) e f st0 b st sz) as (sz' & A & S); try assumption.
  - intros k T [].
  - intros k T [].
  - exists sz'. split; [exact A|exact S].
Qed.

(** what the closure theorem needs of the unifier *)
Lemma szs_Sized sz s : szs sz s -> Sized s.
Proof.
  intros S k c Ha k' n' c' Hk' Ha'. apply assoc_In in Ha, Ha'.
  rewrite (proj2 (S _ _ Ha')). symmetry. exact (proj1 (S _ _ Ha) k' n' Hk').
Qed.
Lemma szs_sized_for sz s x : szs sz s -> szc sz x -> sized_for s x.
Proof.
  intros S Sx k n c Hk Ha. apply assoc_In in Ha. rewrite (proj2 (S _ _ Ha)). symmetry. exact (Sx k n Hk).
Qed.

(** a size function for a pattern whose axes have one size each, extending a given one *)
Definition sz_with (sz : positive -> nat) (g : axis) : positive -> nat :=
  fun k => match assoc k (fvn g) with Some n => n | None => sz k end.

Lemma sz_with_g sz g : (forall k n n', In (k, n) (fvn g) -> In (k, n') (fvn g) -> n = n') -> szc (sz_with sz g) g.
Proof.
  intros C k n Hk. unfold sz_with. destruct (assoc k (fvn g)) as [n'|] eqn:E.
  - apply assoc_In in E. exact (C k n n' Hk E).
  - exfalso. clear C. induction (fvn g) as [|[k0 n0] l IH]; [contradiction|]. simpl in E.
    destruct (Pos.eqb_spec k0 k) as [->|Hne]; [discriminate|]. destruct Hk as [Hk|Hk]; [inversion Hk; congruence|auto].
Qed.

Lemma sz_with_other sz g x : (forall k, In k (fv x) -> ~ In k (fv g)) -> szc sz x -> szc (sz_with sz g) x.
Proof.
  intros D S k n Hk. unfold sz_with. destruct (assoc k (fvn g)) as [n'|] eqn:E; [|exact (S k n Hk)].
  exfalso. apply assoc_In in E. apply (D k); apply fv_of_fvn; eauto.
Qed.

Example unify_sized_ex :
  let e := Prod [Phys 1 2; Phys 1 2] in let f := Prod [Phys 2 2; Sum 0 (Phys 3 1) 1] in
  exists st, unify 20 e f {| us_subst := []; us_next := 4; us_warn := false |} = Ok (true, st) /\ us_warn st = false
             /\ szc (fun k => match k with 3%positive => 1 | _ => 2 end) e.
Proof. eexists. split; [vm_compute; reflexivity|]. split; [reflexivity|]. intros k n [E|[E|[]]]; inversion E; reflexivity. Qed.
