(** C04, code-shaped model: the per-component loop of [viterbi] with the pointer merge.

    [viter k] = the loop's state (values + merged pointers) after k passes; [rho k] its values
    ([x[n][xi]], an absent key reading -inf); [E k] the environment the rules see in pass k+1
    (terminals' weights, finished components, [rho k]).

    - [rho_step]: the values are the Kleene iterates of the component's equations:
      rho (k+1) = Fval (E k) on the component's cells (the merge never touches values);
    - [rho_mono]: they increase;
    - [C04_ptr_inv] ([linv_all]): after ANY number k >= 1 of passes, every cell of the component
      whose value v is finite has an lhs_pointer naming a rule r of its nonterminal and an
      rhs_pointer row that rebuilds an in-range assignment a agreeing with the cell on the
      external nodes, such that the product of the edge values at a -- terminal weights,
      finished components' values, and for the component's own nonterminals the values of pass
      j-1, where j <= k is the pass in which the cell last strictly improved -- is v;
    - [vloop_spec]: what the loop returns is [viter (S K)] for some K < kmax, with the ghost flag
      "rho K = rho (K+1) exactly". *)
From Coq Require Import QArith Qcanon List Arith Bool PeanoNat Lia Ring_theory.
Import ListNotations.
Require Import Fggs.Model.Semiring Fggs.Model.SCC Fggs.Model.SumProduct Fggs.Model.SumProductCheck
               Fggs.Model.Kleene Fggs.Model.EReal Fggs.Model.Trop Fggs.Model.Viterbi Fggs.Model.ViterbiAlg.
Require Import Fggs.Proofs.BigSum Fggs.Proofs.SP_mono Fggs.Proofs.SP_trees Fggs.Proofs.SP_rename
               Fggs.Proofs.Viterbi_trop Fggs.Proofs.Viterbi_proofs Fggs.Proofs.ViterbiAlg_base.
Local Open Scope nat_scope.

Local Notation sumT := (sumS trop_ops).
Local Notation prodT := (prodS trop_ops).

Lemma trop_eq_dec_NInf (v : trop) : v = NInf \/ v <> NInf.
Proof. destruct v; [left; reflexivity | right; discriminate | right; discriminate]. Qed.

(* ------------------------------------------------------------------------- *)
(** * what a rule reads *)
Lemma cands_sub G r xi a : In a (cands G r xi) -> In a (all_assts (node_sizes G r)).
Proof. unfold cands. rewrite filter_In. tauto. Qed.

Lemma edges_prod_ext e1 e2 r a :
  (forall ed, In ed (r_edges r) -> e1 (fst ed) (sel a (snd ed)) = e2 (fst ed) (sel a (snd ed))) ->
  edges_prod e1 r a = edges_prod e2 r a.
Proof. intros H. unfold edges_prod. apply (BigSum.prodS_ext trop_ops). exact H. Qed.

Lemma edges_prod_mono e1 e2 r a :
  (forall ed, In ed (r_edges r) -> tle (e1 (fst ed) (sel a (snd ed))) (e2 (fst ed) (sel a (snd ed)))) ->
  tle (edges_prod e1 r a) (edges_prod e2 r a).
Proof. intros H. unfold edges_prod. apply (prodS_mono trop_ops vt_trop_ring vt_trop_ordered). exact H. Qed.

Lemma Fval_ext G e1 e2 n xi :
  (forall r ed a, In r (rules_of G n) -> In ed (r_edges r) -> In a (all_assts (node_sizes G r)) ->
                  e1 (fst ed) (sel a (snd ed)) = e2 (fst ed) (sel a (snd ed))) ->
  Fval G e1 n xi = Fval G e2 n xi.
Proof.
  intros H. unfold Fval, rule_max. apply (BigSum.sumS_ext trop_ops). intros r Hr.
  apply (BigSum.sumS_ext trop_ops). intros a Ha. apply edges_prod_ext. intros ed Hed.
  apply (H r ed a Hr Hed (cands_sub _ _ _ _ Ha)).
Qed.

Lemma Fval_mono G e1 e2 n xi :
  (forall r ed a, In r (rules_of G n) -> In ed (r_edges r) -> In a (all_assts (node_sizes G r)) ->
                  tle (e1 (fst ed) (sel a (snd ed))) (e2 (fst ed) (sel a (snd ed)))) ->
  tle (Fval G e1 n xi) (Fval G e2 n xi).
Proof.
  intros H. unfold Fval, rule_max. apply (sumS_mono trop_ops vt_trop_ordered). intros r Hr.
  apply (sumS_mono trop_ops vt_trop_ordered). intros a Ha. apply edges_prod_mono. intros ed Hed.
  apply (H r ed a Hr Hed (cands_sub _ _ _ _ Ha)).
Qed.

Lemma good_ptr_ext G e1 e2 r xi ptr v :
  (forall ed a, In ed (r_edges r) -> e1 (fst ed) (sel a (snd ed)) = e2 (fst ed) (sel a (snd ed))) ->
  good_ptr G e1 r xi ptr v -> good_ptr G e2 r xi ptr v.
Proof.
  intros H (H1 & H2 & H3 & H4). repeat split; try assumption.
  rewrite <- H4. symmetry. apply edges_prod_ext. intros ed Hed. apply H. exact Hed.
Qed.

Lemma Fval_absent G lk n xi :
  existsb (labels_ok lk) (rules_of G n) = false -> Fval G (lk_env lk) n xi = NInf.
Proof.
  intros H. unfold Fval. apply sumT_all_NInf. intros r Hr. apply labels_missing_NInf.
  destruct (labels_ok lk r) eqn:E; [|reflexivity].
  assert (C : existsb (labels_ok lk) (rules_of G n) = true) by (apply existsb_exists; exists r; tauto). congruence.
Qed.

(* ------------------------------------------------------------------------- *)
(** * the merge on pointer rows *)
Lemma merge_rhs_list_length b new old : length (merge_rhs_list b new old) = length new.
Proof.
  revert old. induction new as [|nw new IH]; intros [|o old]; cbn [merge_rhs_list length]; try reflexivity.
  f_equal. apply IH.
Qed.
Lemma nth_merge_true new old i nw :
  nth i new None = Some nw -> nth i (merge_rhs_list true new old) None = Some nw.
Proof.
  revert old i. induction new as [|x new IH]; intros old i H; [destruct i; discriminate|].
  destruct old as [|o old]; [exact H|]. cbn [merge_rhs_list].
  destruct i as [|i]; cbn [nth] in *; [|apply IH; exact H].
  subst x. destruct o; reflexivity.
Qed.
Lemma nth_merge_false new old i o :
  nth i old None = Some o -> i < length new -> nth i (merge_rhs_list false new old) None = Some o.
Proof.
  revert old i. induction new as [|x new IH]; intros old i H Hi; [cbn in Hi; lia|].
  destruct old as [|y old]; [destruct i; discriminate|]. cbn [merge_rhs_list].
  destruct i as [|i]; cbn [nth] in *; [|apply IH; [exact H | cbn in Hi; lia]].
  subst y. destruct x; reflexivity.
Qed.

Lemma trivial_comp_inv G comp :
  trivial_comp G comp = true ->
  exists nt, comp = [nt]
    /\ existsb (fun r => existsb (fun ed => Nat.eqb (fst ed) nt) (r_edges r)) (rules_of G nt) = false.
Proof.
  unfold trivial_comp. destruct comp as [|nt [|? ?]]; try discriminate.
  rewrite negb_true_iff. intros H. exists nt. split; [reflexivity | exact H].
Qed.

(* ------------------------------------------------------------------------- *)
Section Comp.
Variables (G : grammar) (w : env (R:=trop)) (done : cst) (comp : list nat).
Hypothesis Hwf : wf_grammar G = true.

(** the environment the rules of the component see when [x] holds [rho] *)
Definition sem_env (rho : nat -> list nat -> trop) : env (R:=trop) :=
  fun l xi => if is_term G l then w l xi
              else match st_lk done l with Some f => f xi | None => rho l xi end.

Lemma lk_env_lookup x l xi : lk_env (lookup G w done x) l xi = sem_env (x_val x) l xi.
Proof.
  unfold lk_env, lookup, sem_env, x_val. destruct (is_term G l); [reflexivity|].
  destruct (st_lk done l); [reflexivity|]. destruct x as [st|]; reflexivity.
Qed.

Lemma query_range n r ed a :
  In r (rules_of G n) -> In ed (r_edges r) -> In a (all_assts (node_sizes G r)) ->
  In (sel a (snd ed)) (all_assts (lshape G (fst ed))).
Proof.
  intros Hr Hed Ha. apply in_rules_of in Hr as [Hr _].
  apply (wf_rule_query_in_range G r ed a (wf_grammar_rule G r Hwf Hr) Hed Ha).
Qed.

(** ** one pass *)
Definition lkx (x : option cst) : lkup := lookup G w done x.

Lemma F_model_aget lk n : In n comp -> aget (F_viterbi_model G lk comp) n = Some (F_nt G lk n).
Proof. intros Hn. unfold F_viterbi_model. apply (aget_map_in (F_nt G lk)). exact Hn. Qed.
Lemma F_model_aget_out lk n : ~ In n comp -> aget (F_viterbi_model G lk comp) n = None.
Proof. intros Hn. unfold F_viterbi_model. apply (aget_map_out (F_nt G lk)). exact Hn. Qed.

Lemma merge_comp_F lk old :
  merge_comp (F_viterbi_model G lk comp) old = map (fun n => (n, merge_nt n (F_nt G lk n) old)) comp.
Proof. unfold merge_comp, F_viterbi_model. rewrite map_map. reflexivity. Qed.

Lemma vstep_aget_out x n : ~ In n comp -> aget (vstep G w done comp x) n = None.
Proof.
  intros Hn. unfold vstep. destruct x as [old|]; [|apply F_model_aget_out; exact Hn].
  rewrite merge_comp_F. apply (aget_map_out (fun n => merge_nt n (F_nt G (lookup G w done (Some old)) n) old)). exact Hn.
Qed.

(** the cell of [vstep x] at (n, xi), in terms of one evaluation of F_viterbi and the merge *)
Lemma vstep_cell x n xi pres v lp rps :
  In n comp -> In xi (all_assts (lshape G n)) ->
  F_cell G (lkx x) n xi = (pres, v, lp, rps) ->
  exists nr, aget (vstep G w done comp x) n = Some nr /\ nr_present nr = pres
    /\ nt_cell nr xi =
       match x with
       | None => (v, lp, rps)
       | Some old => if pres then match aget old n with
                                  | Some o => merge_cell (v, lp, rps) (x_val (Some old) n xi) (nt_cell o xi)
                                  | None => (v, lp, rps)
                                  end
                     else (v, lp, rps)
       end.
Proof.
  intros Hn Hxi HF. destruct (F_cell_spec _ _ _ _ _ _ _ _ HF) as (_ & Hpres & _ & _).
  assert (Hcell : nt_cell (F_nt G (lkx x) n) xi = (v, lp, rps)).
  { unfold nt_cell, F_nt. cbn [nr_cells]. rewrite (tget_ttab _ _ _ _ Hxi), HF. reflexivity. }
  unfold vstep. destruct x as [old|].
  - rewrite merge_comp_F.
    rewrite (aget_map_in (fun n => merge_nt n (F_nt G (lookup G w done (Some old)) n) old) comp n Hn).
    eexists. split; [reflexivity|]. fold (lkx (Some old)). unfold merge_nt.
    assert (Hp : nr_present (F_nt G (lkx (Some old)) n) = pres) by (unfold F_nt; cbn [nr_present]; symmetry; exact Hpres).
    rewrite Hp. destruct pres; [|split; [exact Hp | exact Hcell]].
    destruct (aget old n) as [o|]; [|split; [exact Hp | exact Hcell]].
    split; [reflexivity|]. unfold nt_cell at 1. cbn [nr_cells]. unfold F_nt at 1. cbn [nr_cells].
    rewrite (map_ttab (lshape G n) _ (fun p => merge_cell (snd p) (x_val (Some old) n (fst p)) (nt_cell o (fst p)))).
    rewrite (tget_ttab _ _ _ _ Hxi). cbn [fst snd]. rewrite HF. reflexivity.
  - rewrite (F_model_aget _ _ Hn). eexists. split; [reflexivity|]. split; [|exact Hcell].
    unfold F_nt. cbn [nr_present]. symmetry. exact Hpres.
Qed.

(** ** the loop's states and their values *)
Fixpoint viter (k : nat) : option cst :=
  match k with 0 => None | S k => Some (vstep G w done comp (viter k)) end.
Definition rho (k : nat) : nat -> list nat -> trop := x_val (viter k).
Definition E (k : nat) : env (R:=trop) := sem_env (rho k).

Lemma rho_0 n xi : rho 0 n xi = NInf.
Proof. reflexivity. Qed.

Lemma rho_out k n xi : ~ In n comp -> rho k n xi = NInf.
Proof.
  intros Hn. unfold rho. destruct k as [|k]; [reflexivity|]. cbn [viter x_val]. unfold st_lk.
  rewrite (vstep_aget_out _ _ Hn). reflexivity.
Qed.

Lemma merge_cell_val c xo o : fst (fst (merge_cell c xo o)) = fst (fst c).
Proof. destruct c as [[v1 lp1] rp1], o as [[v0 lp0] rp0]. reflexivity. Qed.

(** the values are the Kleene iterates of the component's equations *)
Theorem rho_step k n xi :
  In n comp -> In xi (all_assts (lshape G n)) -> rho (S k) n xi = Fval G (E k) n xi.
Proof.
  intros Hn Hxi. destruct (F_cell G (lkx (viter k)) n xi) as [[[pres v] lp] rps] eqn:HF.
  destruct (vstep_cell _ _ _ _ _ _ _ Hn Hxi HF) as (nr & Hget & Hp & Hcell).
  destruct (F_cell_spec _ _ _ _ _ _ _ _ HF) as (_ & Hpres & Hv & _).
  assert (HE : Fval G (lk_env (lkx (viter k))) n xi = Fval G (E k) n xi).
  { apply Fval_ext. intros r ed a _ _ _. apply lk_env_lookup. }
  unfold rho at 1. cbn [viter x_val]. unfold st_lk. rewrite Hget, Hp. destruct pres.
  - unfold nt_val. rewrite Hcell, <- HE, <- Hv.
    destruct (viter k) as [old|]; [|reflexivity].
    destruct (aget old n); [rewrite merge_cell_val|]; reflexivity.
  - rewrite <- HE. symmetry. apply Fval_absent. symmetry. exact Hpres.
Qed.

(** ... and increase *)
Theorem rho_mono k : forall n xi, In n comp -> In xi (all_assts (lshape G n)) -> tle (rho k n xi) (rho (S k) n xi).
Proof.
  induction k as [|k IH]; intros n xi Hn Hxi; [rewrite rho_0; exact I|].
  rewrite (rho_step k n xi Hn Hxi), (rho_step (S k) n xi Hn Hxi). apply Fval_mono.
  intros r ed a Hr Hed Ha. unfold E, sem_env.
  destruct (is_term G (fst ed)); [apply vt_tle_refl|].
  destruct (st_lk done (fst ed)); [apply vt_tle_refl|].
  destruct (in_dec Nat.eq_dec (fst ed) comp) as [Hc|Hc].
  - apply IH; [exact Hc | apply (query_range n r ed a Hr Hed Ha)].
  - rewrite !(rho_out _ _ _ Hc). exact I.
Qed.

Corollary rho_mono_le j k n xi : j <= k -> In n comp -> In xi (all_assts (lshape G n)) -> tle (rho j n xi) (rho k n xi).
Proof.
  intros Hjk Hn Hxi. induction Hjk as [|k Hjk IH]; [apply vt_tle_refl|].
  apply vt_tle_trans with (rho k n xi); [exact IH | apply rho_mono; assumption].
Qed.

(** the environments increase on everything a rule of the component reads *)
Lemma E_mono_le j k n r ed a :
  j <= k -> In r (rules_of G n) -> In ed (r_edges r) -> In a (all_assts (node_sizes G r)) ->
  tle (E j (fst ed) (sel a (snd ed))) (E k (fst ed) (sel a (snd ed))).
Proof.
  intros Hjk Hr Hed Ha. unfold E, sem_env.
  destruct (is_term G (fst ed)); [apply vt_tle_refl|].
  destruct (st_lk done (fst ed)); [apply vt_tle_refl|].
  destruct (in_dec Nat.eq_dec (fst ed) comp) as [Hc|Hc].
  - apply rho_mono_le; [exact Hjk | exact Hc | apply (query_range n r ed a Hr Hed Ha)].
  - rewrite !(rho_out _ _ _ Hc). exact I.
Qed.

(** ** the pointer invariant *)
(** the cell (v, lp, rps) of nonterminal n at xi after k passes *)
Definition cell_inv (k n : nat) (xi : list nat) (c : vcell) : Prop :=
  let '(v, lp, rps) := c in
  v = rho k n xi
  /\ length rps = length (rules_of G n)
  /\ (v <> NInf ->
      exists j r ptr, 1 <= j <= k /\ rho j n xi = v /\ rho (j - 1) n xi <> v
                      /\ nth_error (rules_of G n) lp = Some r /\ nth lp rps None = Some ptr
                      /\ good_ptr G (E (j - 1)) r xi ptr v).
Definition linv (k : nat) : Prop :=
  forall n xi, In n comp -> In xi (all_assts (lshape G n)) ->
    exists S nr, viter k = Some S /\ aget S n = Some nr /\ cell_inv k n xi (nt_cell nr xi).

Lemma good_ptr_lk k r xi ptr v :
  good_ptr G (lk_env (lkx (viter k))) r xi ptr v -> good_ptr G (E k) r xi ptr v.
Proof. apply good_ptr_ext. intros ed a _. apply lk_env_lookup. Qed.

Lemma linv_step k : (k = 0 \/ linv k) -> linv (S k).
Proof.
  intros Hk n xi Hn Hxi.
  destruct (F_cell G (lkx (viter k)) n xi) as [[[pres v] lp] rps] eqn:HF.
  destruct (vstep_cell _ _ _ _ _ _ _ Hn Hxi HF) as (nr & Hget & Hp & Hcell).
  destruct (F_cell_spec _ _ _ _ _ _ _ _ HF) as (Hlen & Hpres & Hv & Hptr).
  assert (HE : Fval G (lk_env (lkx (viter k))) n xi = Fval G (E k) n xi).
  { apply Fval_ext. intros r ed a _ _ _. apply lk_env_lookup. }
  assert (Hvr : v = rho (S k) n xi) by (rewrite (rho_step k n xi Hn Hxi), <- HE; exact Hv).
  exists (vstep G w done comp (viter k)), nr. split; [reflexivity|]. split; [exact Hget|].
  (* the fresh cell satisfies the invariant with j = S k whenever rho k <> v *)
  assert (Hfresh : rho k n xi <> v -> cell_inv (S k) n xi (v, lp, rps)).
  { intros Hne. cbn [cell_inv]. split; [exact Hvr|]. split; [exact Hlen|]. intros Hfin.
    destruct (Hptr Hfin) as (r & ptr & H1 & H2 & H3). exists (S k), r, ptr.
    split; [lia|]. split; [symmetry; exact Hvr|]. rewrite Nat.sub_succ, Nat.sub_0_r.
    split; [exact Hne|]. split; [exact H1|]. split; [exact H2 | apply good_ptr_lk; exact H3]. }
  assert (Hninf : v = NInf -> cell_inv (S k) n xi (v, lp, rps)).
  { intros Hv0. cbn [cell_inv]. split; [exact Hvr|]. split; [exact Hlen|]. intros C. contradiction. }
  rewrite Hcell. destruct (viter k) as [old|] eqn:Hold.
  - destruct Hk as [->|Hk]; [discriminate|].
    destruct (Hk n xi Hn Hxi) as (S0 & o & HS0 & Hgo & Hco). rewrite Hold in HS0. injection HS0 as <-.
    destruct pres.
    + rewrite Hgo. destruct (nt_cell o xi) as [[v0 lp0] rps0] eqn:Hoc. cbn [cell_inv] in Hco.
      destruct Hco as (Hv0 & Hlen0 & Hptr0).
      assert (Hxv : x_val (Some old) n xi = rho k n xi) by (unfold rho; rewrite Hold; reflexivity).
      rewrite Hxv. unfold merge_cell. destruct (tgtb v (rho k n xi)) eqn:Egt.
      * apply tgtb_true in Egt. destruct Egt as (_ & _ & Hne).
        cbn [cell_inv]. split; [exact Hvr|]. split; [rewrite merge_rhs_list_length; exact Hlen|]. intros Hfin.
        destruct (Hptr Hfin) as (r & ptr & H1 & H2 & H3). exists (S k), r, ptr.
        split; [lia|]. split; [symmetry; exact Hvr|]. rewrite Nat.sub_succ, Nat.sub_0_r.
        split; [intros C; apply Hne; symmetry; exact C|]. split; [exact H1|].
        split; [apply nth_merge_true; exact H2 | apply good_ptr_lk; rewrite Hold; exact H3].
      * apply tgtb_false in Egt. destruct Egt as (_ & Hle).
        assert (Heq : v = rho k n xi).
        { apply vt_tle_antisym; [exact Hle|]. rewrite Hvr. apply rho_mono; assumption. }
        cbn [cell_inv]. split; [exact Hvr|]. split; [rewrite merge_rhs_list_length; exact Hlen|]. intros Hfin.
        assert (Hfin0 : v0 <> NInf) by (rewrite Hv0, <- Heq; exact Hfin).
        destruct (Hptr0 Hfin0) as (j & r & ptr & Hj & Hrj & Hrj1 & H1 & H2 & H3).
        assert (Hvv0 : v0 = v) by (rewrite Hv0; symmetry; exact Heq). rewrite Hvv0 in *.
        exists j, r, ptr. split; [lia|]. split; [exact Hrj|]. split; [exact Hrj1|]. split; [exact H1|].
        split; [|exact H3]. apply nth_merge_false; [exact H2|].
        rewrite Hlen. apply nth_error_Some. congruence.
    + apply Hninf. rewrite Hv, HE. rewrite <- HE. apply Fval_absent. symmetry. exact Hpres.
  - destruct (trop_eq_dec_NInf v) as [Hz|Hz]; [apply Hninf; exact Hz|].
    apply Hfresh. destruct k as [|k]; [|cbn [viter] in Hold; discriminate]. rewrite rho_0. intros C. apply Hz. symmetry. exact C.
Qed.

(** C04_ptr_inv: the invariant holds after any number k >= 1 of passes *)
Theorem linv_all k : 1 <= k -> linv k.
Proof.
  induction k as [|k IH]; [lia|]. intros _. destruct k as [|k].
  - apply linv_step. left. reflexivity.
  - apply linv_step. right. apply IH. lia.
Qed.

Lemma viter_keys k S : viter k = Some S -> map fst S = comp.
Proof.
  destruct k as [|k]; [discriminate|]. cbn [viter]. intros H. injection H as <-. unfold vstep.
  destruct (viter k) as [old|].
  - rewrite merge_comp_F, map_map. cbn [fst]. apply map_id.
  - unfold F_viterbi_model. rewrite map_map. cbn [fst]. apply map_id.
Qed.

(** ** what the loop returns *)
Lemma all_equal_spec x st :
  all_equal G comp x st = true ->
  forall n xi, In n comp -> In xi (all_assts (lshape G n)) -> x_val x n xi = x_val (Some st) n xi.
Proof.
  unfold all_equal. rewrite forallb_forall. intros H n xi Hn Hxi. specialize (H n Hn).
  rewrite forallb_forall in H. apply vt_teqb_iff. apply H. exact Hxi.
Qed.

Theorem vloop_spec tol : forall fuel k last st c,
  vloop G w tol done comp fuel (viter k) last = Some (st, c) ->
  last = Some (st, c)
  \/ exists K, k <= K < k + fuel /\ viter (S K) = Some st /\ c = all_equal G comp (viter K) st.
Proof.
  induction fuel as [|fuel IH]; intros k last st c H; cbn [vloop] in H; [left; exact H|].
  destruct (all_close G tol comp (viter k) (vstep G w done comp (viter k))).
  - injection H as <- <-. right. exists k. split; [lia|]. split; reflexivity.
  - change (Some (vstep G w done comp (viter k))) with (viter (S k)) in H at 1.
    apply IH in H. destruct H as [H|(K & HK & Hst & Hc)].
    + injection H as <- <-. right. exists k. split; [lia|]. split; reflexivity.
    + right. exists K. split; [lia|]. split; assumption.
Qed.

(** ** stable states: the values are a fixed point of the component's equations *)
Definition stable (M : nat) : Prop :=
  forall n xi, In n comp -> In xi (all_assts (lshape G n)) -> Fval G (E M) n xi = rho M n xi.

Lemma equal_stable K :
  (forall n xi, In n comp -> In xi (all_assts (lshape G n)) -> rho K n xi = rho (S K) n xi) -> stable (S K).
Proof.
  intros H n xi Hn Hxi. rewrite (rho_step K n xi Hn Hxi). apply Fval_ext.
  intros r ed a Hr Hed Ha. unfold E, sem_env.
  destruct (is_term G (fst ed)); [reflexivity|]. destruct (st_lk done (fst ed)); [reflexivity|].
  destruct (in_dec Nat.eq_dec (fst ed) comp) as [Hc|Hc].
  - symmetry. apply H; [exact Hc | apply (query_range n r ed a Hr Hed Ha)].
  - rewrite !(rho_out _ _ _ Hc). reflexivity.
Qed.

Lemma trivial_stable : trivial_comp G comp = true -> stable 1.
Proof.
  intros Ht. destruct (trivial_comp_inv G comp Ht) as (nt & Ec & Hno).
  intros n xi Hn Hxi. rewrite (rho_step 0 n xi Hn Hxi). apply Fval_ext.
  intros r ed a Hr Hed Ha.
  assert (En : n = nt) by (rewrite Ec in Hn; destruct Hn as [E|[]]; symmetry; exact E). subst n.
  assert (Hne : fst ed <> nt).
  { intros C. assert (X : existsb (fun r => existsb (fun ed => Nat.eqb (fst ed) nt) (r_edges r)) (rules_of G nt) = true).
    { apply existsb_exists. exists r. split; [exact Hr|]. apply existsb_exists. exists ed. split; [exact Hed|].
      apply Nat.eqb_eq. exact C. }
    congruence. }
  unfold E, sem_env. destruct (is_term G (fst ed)); [reflexivity|]. destruct (st_lk done (fst ed)); [reflexivity|].
  assert (Hc : ~ In (fst ed) comp) by (rewrite Ec; intros [C|[]]; apply Hne; symmetry; exact C).
  rewrite !(rho_out _ _ _ Hc). reflexivity.
Qed.

(** the assignment a pointer row rebuilds is one of the candidates of the arg-max *)
Lemma rebuild_in_cands r xi ptr :
  In (rebuild r xi ptr) (all_assts (node_sizes G r)) -> sel (rebuild r xi ptr) (r_ext r) = xi ->
  In (rebuild r xi ptr) (cands G r xi).
Proof.
  intros H1 H2. apply in_cands. split; [exact H1|]. split; [exact H2|]. intros v Hv.
  rewrite (rebuild_nth _ _ _ _ Hv). unfold node_val.
  destruct (index_of v (r_ext r)) as [j|] eqn:E1.
  - left. destruct (index_of_some _ _ _ E1) as [Hj <-]. apply nth_In. exact Hj.
  - destruct (index_of v (summed r)) as [j|] eqn:E2; [|right; right; reflexivity].
    right. left. destruct (index_of_some _ _ _ E2) as [Hj <-].
    apply (proj1 (summed_In r _)). apply nth_In. exact Hj.
Qed.

(** in a stable state the values a finite cell's pointer was recorded with are the current ones *)
Lemma stable_child M n xi q j r ptr :
  stable M -> In n comp -> In xi (all_assts (lshape G n)) ->
  rho M n xi = TFin q -> j <= M -> In r (rules_of G n) ->
  good_ptr G (E j) r xi ptr (TFin q) ->
  forall ed, In ed (r_edges r) ->
    E M (fst ed) (sel (rebuild r xi ptr) (snd ed)) = E j (fst ed) (sel (rebuild r xi ptr) (snd ed)).
Proof.
  intros Hst Hn Hxi Hv Hj Hr (_ & Ha & Hext & Hprod).
  set (a := rebuild r xi ptr) in *.
  assert (Hle : forall ed, In ed (r_edges r) -> tle (E j (fst ed) (sel a (snd ed))) (E M (fst ed) (sel a (snd ed)))).
  { intros ed Hed. apply (E_mono_le j M n r ed a Hj Hr Hed Ha). }
  assert (Hup : tle (edges_prod (E M) r a) (TFin q)).
  { rewrite <- Hv, <- (Hst n xi Hn Hxi). unfold Fval.
    apply vt_tle_trans with (rule_max G (E M) r xi).
    - unfold rule_max. apply (in_le_sumT (cands G r xi) (edges_prod (E M) r) a). apply rebuild_in_cands; assumption.
    - apply (in_le_sumT (rules_of G n) (fun r => rule_max G (E M) r xi) r Hr). }
  assert (Hlo : tle (TFin q) (edges_prod (E M) r a)).
  { rewrite <- Hprod. apply edges_prod_mono. exact Hle. }
  pose proof (vt_tle_antisym _ _ Hup Hlo) as Heq.
  intros ed Hed. unfold edges_prod in Hprod, Heq.
  apply (prodT_same_inv (r_edges r) (fun ed => E j (fst ed) (sel a (snd ed))) (fun ed => E M (fst ed) (sel a (snd ed))) q Hprod Hle Heq ed Hed).
Qed.
End Comp.
