(** C11 -- the meaning of [tol] for VECTOR systems x = A x + c over Q^n (non-negative entries,
    max-row-sum norm a < 1): comparison principle, uniqueness / leastness of the fixed point,
    the stop bound  x_k <= mu <= x_k + tol/(1-a),  and termination of the stopping test. *)
From Coq Require Import QArith Qabs Qround Bool List Lqa Lia.
Require Import Fggs.Model.Tolerance Fggs.Proofs.Tolerance_proofs.
Import ListNotations.
Local Open Scope Q_scope.

(** * generic Forall2 plumbing *)
Lemma Forall2_trans3 {A B C : Type} (P : A -> B -> Prop) (Q : B -> C -> Prop) (R : A -> C -> Prop) :
  (forall a b c, P a b -> Q b c -> R a c) ->
  forall x y z, Forall2 P x y -> Forall2 Q y z -> Forall2 R x z.
Proof.
  intros H x y z Hxy. revert z. induction Hxy as [|a b x y Hab Hxy IH]; intros z Hyz; inversion Hyz; subst; constructor; eauto.
Qed.

Lemma Forall2_impl {A B : Type} (P Q : A -> B -> Prop) :
  (forall a b, P a b -> Q a b) -> forall x y, Forall2 P x y -> Forall2 Q x y.
Proof. intros H x y F. induction F; constructor; auto. Qed.

Lemma Forall2_flip' {A B : Type} (P : A -> B -> Prop) x y :
  Forall2 P x y -> Forall2 (fun b a => P a b) y x.
Proof. intros F. induction F; constructor; auto. Qed.

Lemma Forall2_same_length {A B : Type} (P : A -> B -> Prop) x y : Forall2 P x y -> length x = length y.
Proof. intros F. induction F; cbn; congruence. Qed.

(** * qmax *)
Lemma qmax_l x y : x <= qmax x y.
Proof. unfold qmax. destruct (Qle_bool x y) eqn:E; [apply Qle_bool_iff in E; exact E | lra]. Qed.
Lemma qmax_r x y : y <= qmax x y.
Proof.
  unfold qmax. destruct (Qle_bool x y) eqn:E; [lra|].
  destruct (Qlt_le_dec y x) as [H|H]; [lra|]. apply Qle_bool_iff in H. congruence.
Qed.
Lemma qmax_lub x y t : x <= t -> y <= t -> qmax x y <= t.
Proof. unfold qmax. destruct (Qle_bool x y); auto. Qed.

(** * x <= y + t, componentwise *)
Definition vle_off (t : Q) (x y : list Q) : Prop := Forall2 (fun p q => p <= q + t) x y.
Definition vle (x y : list Q) : Prop := Forall2 Qle x y.
Definition veq (x y : list Q) : Prop := Forall2 Qeq x y.

Lemma vle_off_0 x y : vle_off 0 x y <-> vle x y.
Proof. split; apply Forall2_impl; intros; lra. Qed.

Lemma vle_off_weaken s t x y : s <= t -> vle_off s x y -> vle_off t x y.
Proof. intros H. apply Forall2_impl. intros; lra. Qed.

Lemma veq_vle x y : veq x y -> vle x y.
Proof. apply Forall2_impl. intros a b H. rewrite H. lra. Qed.
Lemma veq_vle' x y : veq x y -> vle y x.
Proof. intros H. apply Forall2_flip' in H. revert H. apply Forall2_impl. intros a b H. rewrite H. lra. Qed.

Lemma voff_nonneg x y : 0 <= voff x y.
Proof.
  revert y. induction x as [|p x IH]; intros [|q y]; cbn [voff]; try lra.
  eapply Qle_trans; [apply IH | apply qmax_r].
Qed.

Lemma voff_bound x y : length x = length y -> vle_off (voff x y) x y.
Proof.
  revert y. induction x as [|p x IH]; intros [|q y] L; cbn in L; try discriminate; [constructor|].
  cbn [voff]. constructor.
  - pose proof (qmax_l (p - q) (voff x y)). lra.
  - eapply vle_off_weaken; [apply qmax_r | apply IH; congruence].
Qed.

Lemma voff_least t x y : 0 <= t -> vle_off t x y -> voff x y <= t.
Proof.
  intros Ht F. induction F as [|p q x y H F IH]; cbn [voff]; [exact Ht|].
  apply qmax_lub; [lra | exact IH].
Qed.

(** * one row *)
Lemma rowsum_nonneg r : Forall (fun q => 0 <= q) r -> 0 <= rowsum r.
Proof. intros F. induction F; cbn [rowsum fold_right]; [lra|]. fold (rowsum l). lra. Qed.

Lemma dot_off r : Forall (fun q => 0 <= q) r ->
  forall t x y, 0 <= t -> vle_off t x y -> dot r x <= dot r y + rowsum r * t.
Proof.
  intros Fr. induction Fr as [|a r Ha Fr IH]; intros t x y Ht F.
  - cbn. lra.
  - destruct F as [|p q x y Hpq F]; cbn [dot rowsum fold_right]; fold (rowsum r).
    + pose proof (rowsum_nonneg r Fr). assert (0 <= (a + rowsum r) * t) by (apply Qmult_le_0_compat; lra). lra.
    + specialize (IH t x y Ht F).
      assert (a * p <= a * (q + t)) by (apply Qmult_le_l_weak; assumption).
      lra.
Qed.

Lemma dot_zero r n : dot r (vzero n) == 0.
Proof.
  revert n. induction r as [|a r IH]; intros [|n]; cbn; try reflexivity.
  fold (vzero n). rewrite IH. lra.
Qed.

Lemma rowsum_le_mnorm A r : In r A -> rowsum r <= mnorm A.
Proof.
  induction A as [|r' A IH]; intros []; cbn [mnorm fold_right]; fold (mnorm A).
  - subst. apply qmax_l.
  - eapply Qle_trans; [apply IH; assumption | apply qmax_r].
Qed.
Lemma mnorm_nonneg A : 0 <= mnorm A.
Proof. induction A; cbn [mnorm fold_right]; [lra|]. fold (mnorm A). eapply Qle_trans; [exact IHA | apply qmax_r]. Qed.

(** the first iterate: A 0 + c == c *)
Lemma vzero_sub_gen c : Forall (fun q => 0 <= q) c ->
  forall A n, length A = length c -> vle (vzero (length c)) (vstep A c (vzero n)).
Proof.
  intros Hc. induction Hc as [|ci c' Hci Hc' IH]; intros [|r A'] n L; cbn in L; try discriminate; cbn [vzero repeat length vstep]; constructor.
  - pose proof (dot_zero r n). lra.
  - apply IH. congruence.
Qed.
Lemma vstep_zero_le c : forall A n, length A = length c -> Forall2 (fun p q => p <= q + 0) (vstep A c (vzero n)) c.
Proof.
  induction c as [|ci c' IH]; intros [|r A'] n L; cbn in L; try discriminate; cbn [vstep]; constructor.
  - pose proof (dot_zero r n). lra.
  - apply IH. congruence.
Qed.
Lemma le_vzero_off C c : Forall (fun q => q <= C) c -> Forall2 (fun p q => p <= q + C) c (vzero (length c)).
Proof. intros Hb. induction Hb; cbn [length vzero repeat]; constructor; [lra | assumption]. Qed.

Lemma vzero_le_nonneg n m : vle (vzero n) m -> Forall (fun q => 0 <= q) m.
Proof.
  revert n. induction m as [|q m IH]; intros [|n] H; cbn [vzero repeat] in H; inversion H; subst; constructor.
  - lra.
  - apply (IH n). assumption.
Qed.

(** * the system *)
Section Vector.
Variables (A : list (list Q)) (c : list Q) (a : Q).
Hypothesis HA : Forall (Forall (fun q => 0 <= q)) A.
Hypothesis Hrow : Forall (fun r => rowsum r <= a) A.
Hypothesis Ha0 : 0 <= a.
Hypothesis Ha1 : a < 1.
Hypothesis Hlen : length A = length c.

Lemma vstep_length x : length (vstep A c x) = length c.
Proof.
  clear HA Hrow. revert c Hlen. induction A as [|r A' IH]; intros [|ci c'] L; cbn in *; try discriminate; auto.
Qed.

Lemma viter_length k : length (viter A c k) = length c.
Proof. destruct k; cbn [viter]; [apply repeat_length | apply vstep_length]. Qed.

(** the contraction, one-sided: x <= y + t  implies  A x + c <= A y + c + a t *)
Lemma vstep_off t x y : 0 <= t -> vle_off t x y -> vle_off (a * t) (vstep A c x) (vstep A c y).
Proof.
  intros Ht F. clear Hlen. revert c. induction A as [|r A' IH]; intros [|ci c']; cbn [vstep]; try constructor.
  - inversion HA as [|? ? Hr HA']; subst. inversion Hrow as [|? ? Hs Hrow']; subst.
    pose proof (dot_off r Hr t x y Ht F).
    assert (rowsum r * t <= a * t) by (apply Qmult_le_compat_r; assumption). lra.
  - inversion HA; subst. inversion Hrow; subst. apply IH; assumption.
Qed.

Lemma vstep_mono x y : vle x y -> vle (vstep A c x) (vstep A c y).
Proof.
  intros H. apply vle_off_0 in H. apply (vstep_off 0) in H; [|lra].
  apply vle_off_0. eapply vle_off_weaken; [|exact H]. lra.
Qed.

(** comparison principle: a sub-solution is below every super-solution *)
Theorem comparison z y :
  length z = length y -> vle z (vstep A c z) -> vle (vstep A c y) y -> vle z y.
Proof.
  intros L Hz Hy.
  pose proof (voff_bound z y L) as B. pose proof (voff_nonneg z y) as Hn.
  set (t := voff z y) in *.
  pose proof (vstep_off t z y Hn B) as HS.
  assert (B' : vle_off (a * t) z y).
  { eapply (Forall2_trans3 Qle (fun p q => p <= q + a * t)); [| exact Hz |].
    - intros p q r H1 H2. lra.
    - eapply (Forall2_trans3 (fun p q => p <= q + a * t) Qle); [| exact HS | exact Hy].
      intros p q r H1 H2. lra. }
  assert (Hat : 0 <= a * t) by (apply Qmult_le_0_compat; assumption).
  pose proof (voff_least (a * t) z y Hat B') as Hle. fold t in Hle.
  assert (t <= 0) by nra.
  apply vle_off_0. eapply vle_off_weaken; [|exact B]. assumption.
Qed.

Section WithFixedPoint.
Variable mu : list Q.
Hypothesis Hmu : veq mu (vstep A c mu).
Hypothesis Hc : Forall (fun q => 0 <= q) c.

Lemma mu_length : length mu = length c.
Proof. rewrite (Forall2_same_length _ _ _ Hmu). apply vstep_length. Qed.

(** the fixed point is unique ... *)
Theorem vfix_unique mu' : veq mu' (vstep A c mu') -> veq mu mu'.
Proof.
  intros Hmu'.
  assert (L : length mu = length mu').
  { rewrite mu_length. rewrite (Forall2_same_length _ _ _ Hmu'). symmetry. apply vstep_length. }
  pose proof (comparison mu mu' L (veq_vle _ _ Hmu) (veq_vle' _ _ Hmu')) as H1.
  pose proof (comparison mu' mu (eq_sym L) (veq_vle _ _ Hmu') (veq_vle' _ _ Hmu)) as H2.
  apply Forall2_flip' in H2.
  revert H2. revert H1. generalize mu'. clear. induction mu as [|m mu0 IH]; intros mu' H1 H2; inversion H1; subst; inversion H2; subst; constructor.
  - lra.
  - apply IH; assumption.
Qed.

(** ... and the LEAST pre-fixed point (no sign condition on y) *)
Theorem vfix_least y : length y = length c -> vle (vstep A c y) y -> vle mu y.
Proof.
  intros L Hy. apply comparison; [rewrite mu_length; auto | apply veq_vle; exact Hmu | exact Hy].
Qed.

Lemma vzero_sub : vle (vzero (length c)) (vstep A c (vzero (length c))).
Proof. apply vzero_sub_gen; assumption. Qed.

(** the Kleene iterates increase ... *)
Lemma viter_chain k : vle (viter A c k) (viter A c (S k)).
Proof.
  induction k as [|k IH].
  - cbn [viter]. apply vzero_sub.
  - change (vle (vstep A c (viter A c k)) (vstep A c (viter A c (S k)))). apply vstep_mono. exact IH.
Qed.

(** ... and stay below the fixed point *)
Lemma viter_le_mu k : vle (viter A c k) mu.
Proof.
  apply comparison.
  - rewrite viter_length, mu_length. reflexivity.
  - apply (viter_chain k).
  - apply veq_vle'. exact Hmu.
Qed.

Corollary mu_nonneg : Forall (fun q => 0 <= q) mu.
Proof. apply (vzero_le_nonneg (length c)). apply (viter_le_mu 0). Qed.

(** ** the stop bound: if the stopping distance x_{k+1} <= x_k + tol is reached at pass k (this is
    what the code's test says, see [vclose_sound]), then  x_k <= mu <= x_k + tol/(1-a)  and
    x_{k+1} <= mu <= x_{k+1} + a tol/(1-a), componentwise *)
Theorem vstop_bound k tol :
  0 <= tol -> vle_off tol (viter A c (S k)) (viter A c k) ->
  vle (viter A c k) mu /\ vle_off (tol / (1 - a)) mu (viter A c k) /\
  vle (viter A c (S k)) mu /\ vle_off (a * (tol / (1 - a))) mu (viter A c (S k)).
Proof.
  intros Ht Hs.
  assert (L : length mu = length (viter A c k)) by (rewrite viter_length; apply mu_length).
  pose proof (voff_bound _ _ L) as B. pose proof (voff_nonneg mu (viter A c k)) as Hn.
  set (t := voff mu (viter A c k)) in *.
  pose proof (vstep_off t _ _ Hn B) as HS. change (vstep A c (viter A c k)) with (viter A c (S k)) in HS.
  assert (S' : vle_off (a * t) mu (viter A c (S k))).
  { eapply (Forall2_trans3 Qle (fun p q => p <= q + a * t)); [| apply veq_vle; exact Hmu | exact HS].
    intros p q r H1 H2. lra. }
  assert (B' : vle_off (a * t + tol) mu (viter A c k)).
  { eapply (Forall2_trans3 (fun p q => p <= q + a * t) (fun p q => p <= q + tol)); [| exact S' | exact Hs].
    intros p q r H1 H2. lra. }
  assert (Hat : 0 <= a * t) by (apply Qmult_le_0_compat; assumption).
  assert (Hle : t <= a * t + tol) by (apply voff_least; [lra | exact B']).
  assert (Hd : t <= tol / (1 - a)).
  { apply Qle_shift_div_l; [lra|]. nra. }
  split; [apply viter_le_mu|]. split; [eapply vle_off_weaken; [exact Hd | exact B]|].
  split; [apply viter_le_mu|].
  eapply vle_off_weaken; [|exact S']. apply Qmult_le_l_weak; assumption.
Qed.

(** ** termination: the increments contract geometrically *)
Lemma qpow_nonneg k : 0 <= qpow a k.
Proof. induction k; cbn [qpow]; [lra|]. apply Qmult_le_0_compat; assumption. Qed.

Lemma increments C k :
  0 <= C -> Forall (fun q => q <= C) c -> vle_off (qpow a k * C) (viter A c (S k)) (viter A c k).
Proof.
  intros HC Hb. induction k as [|k IH].
  - cbn [qpow viter].
    apply (Forall2_trans3 (fun p q => p <= q + 0) (fun p q => p <= q + C) _) with (y := c).
    + intros p q r H1 H2. lra.
    + apply vstep_zero_le. exact Hlen.
    + apply le_vzero_off. exact Hb.
  - assert (H0 : 0 <= qpow a k * C) by (apply Qmult_le_0_compat; [apply qpow_nonneg | exact HC]).
    pose proof (vstep_off _ _ _ H0 IH) as HS.
    change (vle_off (a * (qpow a k * C)) (viter A c (S (S k))) (viter A c (S k))) in HS.
    eapply vle_off_weaken; [|exact HS]. cbn [qpow]. lra.
Qed.

End WithFixedPoint.
End Vector.

Lemma qpow_nonneg' a k : 0 <= a -> 0 <= qpow a k.
Proof. intros H. induction k; cbn [qpow]; [lra|]. apply Qmult_le_0_compat; assumption. Qed.

(** Bernoulli: a^k (1 + k (1 - a)) <= 1 for 0 <= a <= 1 *)
Lemma qpow_bernoulli a k : 0 <= a -> a <= 1 -> qpow a k * (1 + inject_Z (Z.of_nat k) * (1 - a)) <= 1.
Proof.
  intros H0 H1. induction k as [|k IH].
  - cbn [qpow Z.of_nat]. change (inject_Z 0) with 0. lra.
  - rewrite Nat2Z.inj_succ. unfold Z.succ. rewrite inject_Z_plus. cbn [qpow].
    set (n := inject_Z (Z.of_nat k)) in *.
    assert (Hn : 0 <= n). { unfold n. change 0 with (inject_Z 0). rewrite <- Zle_Qle. lia. }
    assert (Hp : 0 <= qpow a k) by (apply qpow_nonneg'; assumption).
    assert (E : a * (1 + (n + inject_Z 1) * (1 - a)) <= 1 + n * (1 - a)).
    { change (inject_Z 1) with 1.
      assert (Hsq : 0 <= (n + 1) * ((1 - a) * (1 - a))).
      { apply Qmult_le_0_compat; [lra|]. apply Qmult_le_0_compat; lra. }
      assert (Eq : 1 + n * (1 - a) - a * (1 + (n + 1) * (1 - a)) == (n + 1) * ((1 - a) * (1 - a))) by ring.
      lra. }
    assert (qpow a k * (a * (1 + (n + inject_Z 1) * (1 - a))) <= qpow a k * (1 + n * (1 - a)))
      by (apply Qmult_le_l_weak; assumption).
    lra.
Qed.

(** explicit pass count: with K = pass_bound a tol C, a^K C <= tol *)
Lemma pass_bound_ok a tol C :
  0 <= a -> a < 1 -> 0 < tol -> 0 <= C -> qpow a (pass_bound a tol C) * C <= tol.
Proof.
  intros H0 H1 Ht HC. unfold pass_bound.
  set (q := (C - tol) / (tol * (1 - a))).
  set (K := Z.to_nat (Qceiling q)).
  assert (Hd : 0 < tol * (1 - a)) by nra.
  assert (HK : q <= inject_Z (Z.of_nat K)).
  { eapply Qle_trans; [apply Qle_ceiling|]. rewrite <- Zle_Qle. unfold K. lia. }
  assert (HC' : C <= tol * (1 + inject_Z (Z.of_nat K) * (1 - a))).
  { assert (q * (tol * (1 - a)) == C - tol) by (unfold q; field; lra).
    assert (q * (tol * (1 - a)) <= inject_Z (Z.of_nat K) * (tol * (1 - a))) by (apply Qmult_le_compat_r; lra).
    lra. }
  pose proof (qpow_bernoulli a K H0 (Qlt_le_weak _ _ H1)) as B.
  pose proof (qpow_nonneg' a K H0) as Hp.
  set (p := qpow a K) in *. set (s := 1 + inject_Z (Z.of_nat K) * (1 - a)) in *.
  assert (p * C <= p * (tol * s)) by (apply Qmult_le_l_weak; assumption).
  assert (tol * (p * s) <= tol * 1) by (apply Qmult_le_l_weak; lra).
  lra.
Qed.

Lemma qpow_antitone a j k : 0 <= a -> a <= 1 -> (j <= k)%nat -> qpow a k <= qpow a j.
Proof.
  intros H0 H1 L. induction L as [|k L IH]; [lra|]. cbn [qpow].
  pose proof (qpow_nonneg' a k H0). nra.
Qed.
