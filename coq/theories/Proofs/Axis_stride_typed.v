(** What [stride] and [fv_occ] (as coded, following a substitution) return:
    - the keys of a stride dict are pairwise distinct, unbound in the substitution, and reachable
      through the bindings from a variable of the axis;
    - every (axis, size) that [fv_occ] yields carries the size written at some occurrence. *)
From Coq Require Import List Arith Lia PeanoNat Bool PArith.
Import ListNotations.
Require Import Fggs.Model.Axis Fggs.Proofs.Axis_sem Fggs.Proofs.Axis_unify Fggs.Proofs.Axis_complete_gen.
Require Import Fggs.Proofs.Axis_typed Fggs.Proofs.Axis_rank.

(** * keys of stride dicts *)
Definition keys (s : lin) : list positive := map fst s.

Lemma keys_add1 s k c j : In j (keys (lin_add1 s k c)) <-> In j (keys s) \/ j = k.
Proof.
  unfold keys. induction s as [|[k' c'] s IH]; simpl.
  - split; [intros [H|[]]; right; congruence|intros [[]|H]; left; congruence].
  - destruct (Pos.eqb_spec k' k) as [->|Hne]; simpl.
    + split; [tauto|]. intros [H|H]; [exact H|left; congruence].
    + rewrite IH. tauto.
Qed.

Lemma nodup_add1 s k c : NoDup (keys s) -> NoDup (keys (lin_add1 s k c)).
Proof.
  unfold keys. induction s as [|[k' c'] s IH]; simpl; intros N.
  - constructor; [intros []|constructor].
  - inversion N as [|? ? Hk N']; subst. destruct (Pos.eqb_spec k' k) as [->|Hne]; simpl.
    + constructor; assumption.
    + constructor; [|apply IH; exact N']. intros H. apply (keys_add1 s k c k') in H. destruct H as [H|H]; [contradiction|congruence].
Qed.

Lemma keys_merge s1 s2 j : In j (keys (lin_merge s1 s2)) <-> In j (keys s1) \/ In j (keys s2).
Proof.
  unfold lin_merge. revert s1. induction s2 as [|[k c] s2 IH]; intros s1; simpl; [tauto|].
  rewrite IH, keys_add1. simpl. intuition congruence.
Qed.

Lemma nodup_merge s1 s2 : NoDup (keys s1) -> NoDup (keys (lin_merge s1 s2)).
Proof.
  unfold lin_merge. revert s1. induction s2 as [|[k c] s2 IH]; intros s1 N; simpl; [exact N|].
  apply IH. apply nodup_add1. exact N.
Qed.

Lemma keys_scale n s : keys (lin_scale n s) = keys s.
Proof. unfold keys, lin_scale. rewrite map_map. reflexivity. Qed.

(** the value of a stride dict depends only on its keys *)
Lemma lin_eval_ext r1 r2 s : (forall j, In j (keys s) -> r1 j = r2 j) -> lin_eval r1 s = lin_eval r2 s.
Proof.
  unfold keys. induction s as [|[k c] s IH]; intros H; simpl; [reflexivity|].
  rewrite (H k (or_introl eq_refl)), IH; [reflexivity|]. intros j Hj. apply H. right. exact Hj.
Qed.

(** * [stride]: the fold over the factors of a product *)
Definition stride_step (fuel : nat) (sigma : subst) (acc : res (nat * lin)) (x : axis) : res (nat * lin) :=
  os <- acc ;; r <- stride fuel sigma x ;;
  let n := numel x in Ok (fst os * n + fst r, lin_merge (lin_scale n (snd os)) (snd r)).

Lemma stride_Prod fuel sigma l : stride (S fuel) sigma (Prod l) = fold_left (stride_step fuel sigma) l (Ok (0, [])).
Proof. reflexivity. Qed.

Lemma fold_fail {A B} (F : res A -> B -> res A) (HF : forall e x, F (Fail e) x = Fail e) l e :
  fold_left F l (Fail e) = Fail e.
Proof. induction l as [|x l IH]; simpl; [reflexivity|]. rewrite HF. exact IH. Qed.

Lemma stride_fold_keys fuel sigma : forall l os0 o s,
  fold_left (stride_step fuel sigma) l (Ok os0) = Ok (o, s) -> NoDup (keys (snd os0)) ->
  NoDup (keys s) /\
  forall j, In j (keys s) -> In j (keys (snd os0)) \/
                             exists x ox sx, In x l /\ stride fuel sigma x = Ok (ox, sx) /\ In j (keys sx).
Proof.
  induction l as [|x l IH]; intros os0 o s H N; cbn [fold_left] in H.
  - inversion H; subst. simpl. split; [exact N|]. intros j Hj. left. exact Hj.
  - unfold stride_step at 2 in H. cbn [bind] in H.
    destruct (stride fuel sigma x) as [[ox sx]|e] eqn:Ex.
    + cbn [bind fst snd] in H. destruct (IH _ _ _ H) as [N' K'].
      { cbn [snd]. apply nodup_merge. rewrite keys_scale. exact N. }
      split; [exact N'|]. intros j Hj. destruct (K' j Hj) as [Hj'|(y & oy & sy & Hy & Ey & Hjy)].
      * cbn [snd] in Hj'. apply keys_merge in Hj'. rewrite keys_scale in Hj'. destruct Hj' as [Hj'|Hj']; [left; exact Hj'|].
        right. exists x, ox, sx. split; [left; reflexivity|]. split; assumption.
      * right. exists y, oy, sy. split; [right; exact Hy|]. split; assumption.
    + cbn [bind] in H. rewrite fold_fail in H; [discriminate|]. intros e' x'. reflexivity.
Qed.

Theorem stride_keys_ok sigma : forall fuel e o s, stride fuel sigma e = Ok (o, s) ->
  NoDup (keys s) /\
  forall j, In j (keys s) -> assoc j sigma = None /\ exists j0, In j0 (fv e) /\ reach sigma j0 j.
Proof.
  induction fuel as [|fuel IH]; intros e o s H; [discriminate|].
  destruct e as [k n|l|b t a].
  - cbn [stride] in H. destruct (lookup (lookup_fuel sigma) sigma (Phys k n)) as [look|] eqn:L; [|discriminate].
    cbn [bind] in H. destruct (same_object look (Phys k n)) eqn:So.
    + inversion H; subst. split; [constructor; [intros []|constructor]|]. intros j [<-|[]].
      destruct look as [k' n'| |]; try discriminate. simpl in So. apply Pos.eqb_eq in So. subst k'.
      split; [eapply lookup_unbound; eauto|]. exists k. split; [left; reflexivity|constructor].
    + destruct (IH _ _ _ H) as [N K]. split; [exact N|]. intros j Hj. destruct (K j Hj) as [U (j0 & Hj0 & R)].
      split; [exact U|]. exists k. split; [left; reflexivity|]. eapply reach_trans; [|exact R].
      eapply lookup_reach; eauto.
  - rewrite stride_Prod in H. destruct (stride_fold_keys fuel sigma l (0, []) o s H) as [N K]; [constructor|].
    split; [exact N|]. intros j Hj. destruct (K j Hj) as [[]|(x & ox & sx & Hx & Ex & Hjx)].
    destruct (IH _ _ _ Ex) as [_ Kx]. destruct (Kx j Hjx) as [U (j0 & Hj0 & R)]. split; [exact U|].
    exists j0. split; [simpl; apply in_flat_map; eauto|exact R].
  - cbn [stride] in H. destruct (stride fuel sigma t) as [[o1 s1]|] eqn:Et; [|discriminate].
    cbn [bind fst snd] in H. inversion H; subst. exact (IH _ _ _ Et).
Qed.

(** * the keys of the merged dict of [project] *)
Lemma stride_keys_fold (ss : list (nat * lin)) : forall acc j,
  In j (keys (fold_left (fun acc os => lin_merge acc (snd os)) ss acc)) <->
  In j (keys acc) \/ exists os, In os ss /\ In j (keys (snd os)).
Proof.
  induction ss as [|os ss IH]; intros acc j; simpl.
  - split; [tauto|intros [H|(os & [] & _)]; exact H].
  - rewrite IH, keys_merge. split.
    + intros [[H|H]|(os' & H1 & H2)]; [left; exact H|right; exists os; auto|right; exists os'; auto].
    + intros [H|(os' & [<-|H1] & H2)]; [left; left; exact H|left; right; exact H2|right; exists os'; auto].
Qed.

Lemma stride_keys_fold_nodup (ss : list (nat * lin)) : forall acc, NoDup (keys acc) ->
  NoDup (keys (fold_left (fun acc os => lin_merge acc (snd os)) ss acc)).
Proof. induction ss as [|os ss IH]; intros acc N; simpl; [exact N|]. apply IH. apply nodup_merge. exact N. Qed.

(** * [fv_occ]: sizes *)
Definition fv_step (fuel : nat) (sigma : subst) (acc : res (list pn)) (x : axis) : res (list pn) :=
  a <- acc ;; r <- fv_occ fuel sigma x ;; Ok (a ++ r).

Lemma fv_fold_In fuel sigma : forall l a0 r,
  fold_left (fv_step fuel sigma) l (Ok a0) = Ok r ->
  forall y, In y r -> In y a0 \/ exists x rx, In x l /\ fv_occ fuel sigma x = Ok rx /\ In y rx.
Proof.
  induction l as [|x l IH]; intros a0 r H y Hy; cbn [fold_left] in H.
  - inversion H; subst. left. exact Hy.
  - unfold fv_step at 2 in H. cbn [bind] in H. destruct (fv_occ fuel sigma x) as [rx|e] eqn:Ex.
    + cbn [bind] in H. destruct (IH _ _ H y Hy) as [Hy'|(x' & rx' & Hx' & Ex' & Hy')].
      * apply in_app_or in Hy'. destruct Hy' as [Hy'|Hy']; [left; exact Hy'|].
        right. exists x, rx. split; [left; reflexivity|]. split; assumption.
      * right. exists x', rx'. split; [right; exact Hx'|]. split; assumption.
    + cbn [bind] in H. rewrite fold_fail in H; [discriminate|]. intros e' x'. reflexivity.
Qed.

Theorem fv_occ_sized (sz : positive -> nat) sigma :
  (forall k T, In (k, T) sigma -> forall j n, In (j, n) (fvn T) -> n = sz j) ->
  forall fuel e r, fv_occ fuel sigma e = Ok r -> (forall j n, In (j, n) (fvn e) -> n = sz j) ->
  forall j n, In (j, n) r -> n = sz j.
Proof.
  intros HS. induction fuel as [|fuel IH]; intros e r H He j n Hj; [discriminate|].
  destruct e as [k m|l|b t a].
  - cbn [fv_occ] in H. destruct (lookup (lookup_fuel sigma) sigma (Phys k m)) as [look|] eqn:L; [|discriminate].
    cbn [bind] in H. destruct (same_object look (Phys k m)).
    + inversion H; subst. destruct Hj as [E|[]]. inversion E; subst. apply He. left. reflexivity.
    + apply (IH _ _ H); [|exact Hj]. destruct (lookup_cases _ _ _ _ L) as [->|[k' Hk']]; [exact He|exact (HS _ _ Hk')].
  - change (fold_left (fv_step fuel sigma) l (Ok []) = Ok r) in H.
    destruct (fv_fold_In fuel sigma l [] r H (j, n) Hj) as [[]|(x & rx & Hx & Ex & Hjx)].
    apply (IH _ _ Ex); [|exact Hjx]. intros j' n' Hj'. apply He. simpl. apply in_flat_map. eauto.
  - cbn [fv_occ] in H. apply (IH _ _ H); [|exact Hj]. exact He.
Qed.

Lemma fv_list_sized (sz : positive -> nat) sigma fuel es r :
  (forall k T, In (k, T) sigma -> forall j n, In (j, n) (fvn T) -> n = sz j) ->
  (forall j n, In (j, n) (flat_map fvn es) -> n = sz j) ->
  fv_list fuel sigma es = Ok r -> forall j n, In (j, n) r -> n = sz j.
Proof.
  intros HS He H j n Hj. unfold fv_list in H.
  change (r0 <- fold_left (fv_step fuel sigma) es (Ok []) ;; Ok (dedup [] r0) = Ok r) in H.
  destruct (fold_left (fv_step fuel sigma) es (Ok [])) as [r0|] eqn:F; [|discriminate]. cbn [bind] in H. inversion H; subst.
  assert (Hj0 : In (j, n) r0).
  { clear -Hj. revert Hj. generalize (@nil positive). induction r0 as [|[k m] r0 IH]; intros seen Hj; [contradiction|].
    simpl in Hj. destruct (existsb (Pos.eqb k) seen); [right; eapply IH; eauto|].
    destruct Hj as [Hj|Hj]; [left; exact Hj|right; eapply IH; eauto]. }
  destruct (fv_fold_In fuel sigma es [] r0 F (j, n) Hj0) as [[]|(x & rx & Hx & Ex & Hjx)].
  eapply (fv_occ_sized sz sigma HS); [exact Ex| |exact Hjx]. intros j' n' Hj'. apply He. apply in_flat_map. eauto.
Qed.

(** * [mapM] *)
Lemma mapM_Forall2 {A B} (f : A -> res B) l r : mapM f l = Ok r -> Forall2 (fun x y => f x = Ok y) l r.
Proof.
  revert r. induction l as [|x l IH]; intros r H; simpl in H.
  - inversion H. constructor.
  - destruct (f x) as [y|] eqn:E; [|discriminate]. cbn [bind] in H. destruct (mapM f l) as [ys|]; [|discriminate].
    cbn [bind] in H. inversion H; subst. constructor; [exact E|apply IH; reflexivity].
Qed.

Example stride_keys_ok_ex :
  let s := [(1%positive, Prod [Phys 2 2; Phys 3 3]); (2%positive, Phys 4 2)] in
  stride 6 s (Phys 1 6) = Ok (0, [(4%positive, 3); (3%positive, 1)]).
Proof. reflexivity. Qed.
