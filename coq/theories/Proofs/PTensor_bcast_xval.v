(** Instances of the broadcasting refinement theorems on the concrete carrier [xval]
    (add, mul, maximum, sub, div), an example with operands of different rank and a unit dimension,
    and the witness that the guard [bcast_ok] cannot be weakened to "the shapes broadcast": a
    size-1 dimension whose axis is not [unitAxis] (for instance [Sum 0 unitAxis 0]) is not
    broadcast by [expansion] (the code tests [e == unitAxis]), so the result has the wrong shape. *)
From Coq Require Import List Arith Lia PeanoNat Bool PArith QArith Qcanon.
Import ListNotations.
Require Import Fggs.Model.Axis Fggs.Model.AxisCheck Fggs.Model.XVal Fggs.Model.PTensor Fggs.Model.PTensorCheck.
Require Import Fggs.Proofs.PTensor_sem Fggs.Proofs.PTensor_dense Fggs.Proofs.PTensor_binary Fggs.Proofs.PTensor_xval.
Require Import Fggs.Proofs.PTensor_bcast Fggs.Proofs.PTensor_bcast_inv Fggs.Proofs.PTensor_bcast_thm Fggs.Proofs.Axis_repr.
Local Open Scope nat_scope.

Section Instances.
Variables (next : positive) (t u r : pt) (next' : positive).
Hypothesis Wt : wf xval t.
Hypothesis Wu : wf xval u.
Hypothesis Bt : vars_below xval next t.
Hypothesis Bu : vars_below xval next u.
Hypothesis OK : bcast_ok xval t u = true.

Definition bcast_spec (op : xval -> xval -> xval) : Prop :=
  wf xval r /\ bshape (shape xval t) (shape xval u) = Some (shape xval r) /\
  forall idx, in_bounds (shape xval r) idx ->
    denote xval r idx = op (denote xval t (bidx (shape xval t) idx)) (denote xval u (bidx (shape xval u) idx)).

Theorem add_bcast :
  pt_commutative xval xeqb' xadd (XF 0) (xadd (default t) (default u)) next t u = Ok (r, next') -> bcast_spec xadd.
Proof.
  intros H. eapply (commutative_bcast_refines xval xeqb' xadd (XF 0)); eauto using xeqb_sound, xadd_0_r, xadd_comm.
Qed.

Theorem mul_bcast :
  pt_commutative xval xeqb' xmul (XF 1) (xmul (default t) (default u)) next t u = Ok (r, next') -> bcast_spec xmul.
Proof.
  intros H. eapply (commutative_bcast_refines xval xeqb' xmul (XF 1)); eauto using xeqb_sound, xmul_1_r, xmul_comm.
Qed.

Theorem maximum_bcast :
  pt_commutative xval xeqb' xmax XNInf (xmax (default t) (default u)) next t u = Ok (r, next') -> bcast_spec xmax.
Proof.
  intros H. eapply (commutative_bcast_refines xval xeqb' xmax XNInf); eauto using xeqb_sound, xmax_ninf_r, xmax_comm.
Qed.

Theorem sub_bcast :
  pt_sub_like xval xeqb' xsub xneg xadd (XF 0) (xsub (default t) (default u)) next t u = Ok (r, next') -> bcast_spec xsub.
Proof.
  intros H. eapply (sub_like_bcast_refines xval xeqb' xsub xneg xadd (XF 0));
    eauto using xeqb_sound, xsub_0_r, xsub_as_add, xsub_0_l.
Qed.

Theorem div_bcast :
  pt_sub_like xval xeqb' xdiv (fun b => xdiv (XF 1) b) xmul (XF 1) (xdiv (default t) (default u)) next t u = Ok (r, next') ->
  bcast_spec xdiv.
Proof.
  intros H. eapply (sub_like_bcast_refines xval xeqb' xdiv (fun b => xdiv (XF 1) b) xmul (XF 1));
    eauto using xeqb_sound, xdiv_1_r, xdiv_recip.
Qed.

End Instances.

(** the hypotheses are satisfiable with genuine broadcasting: a 1 x 2 row (unit dimension) plus a
    diagonal 2 x 2 matrix, and a vector (rank 1) plus the matrix *)
Definition xq (z : Z) : xval := XF (Q2Qc (inject_Z z)).
Definition ex_row : pt := mkPT (fun c => match c with [0] => xq 1 | _ => xq 2 end) [(1%positive, 2)] [unitAxis; Phys 1 2] (XF 0).
Definition ex_vec : pt := mkPT (fun c => match c with [0] => xq 1 | _ => xq 2 end) [(1%positive, 2)] [Phys 1 2] (XF 0).
Definition ex_diag : pt := mkPT (fun c => match c with [0] => xq 3 | _ => xq 4 end) [(2%positive, 2)] [Phys 2 2; Phys 2 2] (XF 1).

Example bcast_ex :
  wf xval ex_row /\ wf xval ex_vec /\ wf xval ex_diag /\
  bcast_ok xval ex_row ex_diag = true /\ bcast_ok xval ex_vec ex_diag = true /\
  no_broadcast xval ex_row ex_diag = false /\ no_broadcast xval ex_vec ex_diag = false /\
  exists r n, pt_commutative xval xeqb' xadd (XF 0) (xadd (default ex_vec) (default ex_diag)) 3 ex_vec ex_diag = Ok (r, n) /\
              shape xval r = [2; 2] /\ denote xval r [0; 1] = xq 3 /\ denote xval r [1; 1] = xq 6.
Proof.
  split; [apply (repr_inv_wf xval ex_row [2]); reflexivity|].
  split; [apply (repr_inv_wf xval ex_vec [2]); reflexivity|].
  split; [apply (repr_inv_wf xval ex_diag [2]); reflexivity|].
  repeat (split; [reflexivity|]). do 2 eexists. repeat split; vm_compute; reflexivity.
Qed.

(** the guard is needed: [Sum 0 unitAxis 0] has one element but is not [unitAxis]; the operand is well
    formed, the shapes [1] and [3] broadcast to [3], yet the result of [binary] has shape [1] *)
Definition ex_one : pt := mkPT (fun _ => xq 5) [] [Sum 0 unitAxis 0] (XF 0).
Definition ex_three : pt := mkPT (fun c => match c with [i] => XF (Q2Qc (inject_Z (Z.of_nat i))) | _ => XF 0 end) [(1%positive, 3)] [Phys 1 3] (XF 0).

Theorem expansion_nonunit_size1_refuted :
  wf xval ex_one /\ wf xval ex_three /\ bshape (shape xval ex_one) (shape xval ex_three) = Some [3] /\
  bcast_ok xval ex_one ex_three = false /\
  exists r n, pt_binary xval xadd (XF 0) 2 ex_one ex_three = Ok (r, n) /\ shape xval r = [1].
Proof.
  split; [apply (repr_inv_wf xval ex_one []); reflexivity|].
  split; [apply (repr_inv_wf xval ex_three [3]); reflexivity|].
  repeat (split; [reflexivity|]). do 2 eexists. split; vm_compute; reflexivity.
Qed.
