(** C05, grammar level: non-trivial values satisfying the hypotheses of the grammar-level
    theorems of Proofs/Fz_gfinal.v -- a non-recursive grammar (two nonterminals, the rule of S is
    split into three rules with two fresh nonterminals) and a recursive one (X -> t t X | u, the
    first rule split in two) -- and the conclusion evaluated on them in the Boolean semiring. *)
From Coq Require Import List Arith Bool PeanoNat Lia.
Import ListNotations.
Require Import Fggs.Model.Conj Fggs.Model.TreeDec Fggs.Proofs.TreeDec_tdok Fggs.Model.Factorize
               Fggs.Proofs.Fz_final Fggs.Proofs.Fz_examples Fggs.Proofs.Fz_glue Fggs.Proofs.Fz_grammar
               Fggs.Proofs.SP_refine Fggs.Proofs.Fz_gfinal.
Require Import Fggs.Model.Semiring Fggs.Model.SumProduct Fggs.Proofs.SP_nonrec.

Definition lA := NT [65] [0; 0].
Definition lX := NT [88] [0].
(** S -> A(0,1) t(1,2) t(2,3);  A(0,1) -> t(0,2) t(2,1) *)
Definition ruleS : frule :=
  {| fr_lhs := lS; fr_nodes := [(0, 0); (1, 0); (2, 0); (3, 0)];
     fr_edges := [ED 1 lA [0; 1]; ED 2 lt [1; 2]; ED 3 lt [2; 3]]; fr_ext := [] |}.
Definition ruleA : frule :=
  {| fr_lhs := lA; fr_nodes := [(0, 0); (1, 0); (2, 0)];
     fr_edges := [ED 1 lt [0; 2]; ED 2 lt [2; 1]]; fr_ext := [0; 1] |}.
Definition gN : fhrg :=
  {| fh_nlabels := [0]; fh_elabels := [lS; lA; lt]; fh_start := lS; fh_rules := [(lS, [ruleS]); (lA, [ruleA])] |}.
(** the decompositions min_fill returns (Model/TreeDec.v), canonical orders *)
Definition orcN : list rule_oracle := [(td_mf, ords_mf); ([([0; 1; 2], [])], [[]])].
Definition rankN (l : nat) : nat := match l with 0 => 1 | _ => 0 end.

Example orcN_is_min_fill :
  map (fun ro => Some (fst ro)) orcN
  = map (fun c => option_map canon_ftd (tree_decomposition 0 (primal c))) (fh_all_rules gN).
Proof. reflexivity. Qed.

Lemma orc_ok_by_td_ok g orc :
  length (fh_all_rules g) = length orc ->
  forallb (fun p => ftd_wfb (fst (snd p)) && td_ok (primal (fst p)) (td_of_ftd (fst (snd p)))) (combine (fh_all_rules g) orc) = true ->
  orc_ok g orc.
Proof.
  unfold orc_ok. generalize (fh_all_rules g). intro rs. revert orc.
  induction rs as [|r rs IH]; intros [|ro orc] L H; try discriminate; constructor.
  - cbn [combine forallb fst snd] in H. apply andb_true_iff in H. destruct H as [H _].
    apply andb_true_iff in H. destruct H as [H1 H2]. split; [exact H1|now apply td_ok_sound].
  - apply IH; [cbn in L; lia|]. cbn [combine forallb] in H. apply andb_true_iff in H. tauto.
Qed.

Lemma ranked_by_check G rank :
  forallb (fun r => is_term G (r_lhs r)
                    || forallb (fun ed => is_term G (fst ed) || (rank (fst ed) <? rank (r_lhs r))) (r_edges r)) (g_rules G) = true ->
  ranked G rank.
Proof.
  intros H r Hr Tl ed Hed Ted. rewrite forallb_forall in H. specialize (H r Hr). rewrite Tl in H. cbn [orb] in H.
  rewrite forallb_forall in H. specialize (H ed Hed). rewrite Ted in H. now apply Nat.ltb_lt.
Qed.

Example gN_hyps :
  wf_grammar (to_sp_grammar [2] gN) = true /\ ids_are_positions gN
  /\ orc_ok gN orcN /\ ranked (to_sp_grammar [2] gN) rankN
  /\ exists g', factorize_hrg_model 0 gN (fun _ => orcN) = Ok g'
                /\ length (fh_all_rules g') = 4 /\ length (fh_elabels g') = 5.
Proof.
  split; [reflexivity|]. split.
  { intros r [<-|[<-|[]]]; reflexivity. }
  split; [apply orc_ok_by_td_ok; reflexivity|]. split; [apply ranked_by_check; reflexivity|].
  eexists. split; [vm_compute; reflexivity|]. split; reflexivity.
Qed.

(** the conclusion, evaluated: Boolean semiring, every terminal weight true *)
Example gN_conclusion_bool :
  match factorize_hrg_model 0 gN (fun _ => orcN) with
  | Ok g' => Zk bool_ops (to_sp_grammar [2] g') (fun _ _ => true) 4 0 []
             = Zk bool_ops (to_sp_grammar [2] gN) (fun _ _ => true) 2 0 []
  | Err _ => False
  end.
Proof. vm_compute. reflexivity. Qed.

(** ... a weight that is not symmetric, and an EMPTY domain (covered by the theorem as well) *)
Definition wN : env (R:=bool) := fun _ xi => match xi with [0; 1] => true | [1; 1] => true | _ => false end.
Example gN_conclusion_bool2 :
  match factorize_hrg_model 0 gN (fun _ => orcN) with
  | Ok g' => forallb (fun xi => Bool.eqb (Zk bool_ops (to_sp_grammar [2] g') wN 4 1 xi)
                                        (Zk bool_ops (to_sp_grammar [2] gN) wN 2 1 xi)) (all_assts [2; 2])
             && Bool.eqb (Zk bool_ops (to_sp_grammar [2] g') wN 4 0 []) (Zk bool_ops (to_sp_grammar [2] gN) wN 2 0 [])
             && Bool.eqb (Zk bool_ops (to_sp_grammar [0] g') wN 4 0 []) (Zk bool_ops (to_sp_grammar [0] gN) wN 2 0 []) = true
  | Err _ => False
  end.
Proof. vm_compute. reflexivity. Qed.

(** X(0) -> t(0,1) t(1,2) X(2)  |  u(0) : recursive *)
Definition ruleX1 : frule :=
  {| fr_lhs := lX; fr_nodes := [(0, 0); (1, 0); (2, 0)];
     fr_edges := [ED 1 lt [0; 1]; ED 2 lt [1; 2]; ED 3 lX [2]]; fr_ext := [0] |}.
Definition ruleX2 : frule :=
  {| fr_lhs := lX; fr_nodes := [(0, 0)]; fr_edges := [ED 1 lu [0]]; fr_ext := [0] |}.
Definition gR : fhrg :=
  {| fh_nlabels := [0]; fh_elabels := [lX; lt; lu]; fh_start := lX; fh_rules := [(lX, [ruleX1; ruleX2])] |}.
Definition orcR : list rule_oracle := [([([1; 2], [1]); ([0; 1], [0])], [[1]; []]); ([([0], [])], [[]])].

Example orcR_is_min_fill :
  map (fun ro => Some (fst ro)) orcR
  = map (fun c => option_map canon_ftd (tree_decomposition 0 (primal c))) (fh_all_rules gR).
Proof. reflexivity. Qed.

Example gR_hyps :
  wf_grammar (to_sp_grammar [2] gR) = true /\ ids_are_positions gR
  /\ orc_ok gR orcR
  /\ exists g', factorize_hrg_model 0 gR (fun _ => orcR) = Ok g'
                /\ length (fh_all_rules g') = 3 /\ length (fh_elabels g') = 4.
Proof.
  split; [reflexivity|]. split.
  { intros r [<-|[<-|[]]]; reflexivity. }
  split; [apply orc_ok_by_td_ok; reflexivity|].
  eexists. split; [vm_compute; reflexivity|]. split; reflexivity.
Qed.

(** the abstract hypothesis [refines] of Proofs/SP_refine.v, on the first example *)
Example gN_refines :
  exists g' cs, factorize_hrg_model 0 gN (fun _ => orcN) = Ok g'
    /\ refines (to_sp_grammar [2] gN) (to_sp_grammar [2] g') 3 (M_of cs)
               (rk_of (fh_elabels gN) (fh_elabels g') cs) (owner_of (fh_elabels gN) (fh_elabels g') cs).
Proof.
  destruct gN_hyps as (W & I & O & _ & g' & H & _).
  destruct (factorize_hrg_spec gN orcN g' (wf_rules [2] gN W I) O H) as (cs & SP).
  exists g', cs. split; [exact H|]. apply (factorize_refines [2] gN g' cs SP). now apply (wf_grammar_wf_fhrg [2]).
Qed.
