(** C05: [C05_inline] -- replacing the fresh nonterminals of the factorised rule by their unique
    rules gives back the original right-hand side (same node set, same edge multiset, same
    externals) -- and the soundness of the oracles [inline_ok], [fresh_ok], [nodes_ok]. *)
From Coq Require Import List Arith Bool PeanoNat Lia Permutation.
Import ListNotations.
Require Import Fggs.Model.Conj Fggs.Proofs.ConjBase Fggs.Proofs.ConjNames.
Require Import Fggs.Model.TreeDec Fggs.Proofs.TreeDec_graph Fggs.Proofs.TreeDec_tdok Fggs.Model.Factorize
               Fggs.Proofs.Fz_fresh Fggs.Proofs.Fz_rooted Fggs.Proofs.Fz_struct Fggs.Proofs.Fz_main
               Fggs.Proofs.Fz_bridge Fggs.Proofs.Fz_final.

(** * inlining, declaratively *)
(** [expands tbl l ns ns' es]: going through the edges [l] with the nodes [ns] collected so far,
    keeping an edge whose label is no left-hand side of [tbl] and replacing an edge whose label
    is the left-hand side of exactly one rule [d] of [tbl] (attached to [d]'s externals) by
    [d]'s expanded right-hand side, gives the nodes [ns'] and the edges [es] *)
Inductive expands (tbl : list frule) : list fedge -> list (nat * nat) -> list (nat * nat) -> list fedge -> Prop :=
| x_nil ns : expands tbl [] ns ns []
| x_keep e l ns ns' es :
    filter (fun d => elabel_eqb (fr_lhs d) (fe_lab e)) tbl = [] ->
    expands tbl l ns ns' es -> expands tbl (e :: l) ns ns' (e :: es)
| x_inline e d l ns ns1 ns' es1 es :
    filter (fun d' => elabel_eqb (fr_lhs d') (fe_lab e)) tbl = [d] ->
    fe_att e = fr_ext d ->
    expands tbl (fr_edges d) (fr_nodes d) ns1 es1 ->
    expands tbl l (union_nodes ns ns1) ns' es ->
    expands tbl (e :: l) ns ns' (es1 ++ es).

(** the specification of [inline_ok] *)
Definition inlines_to (r : frule) (rs : list frule) : Prop :=
  exists tbl root ns es,
    rs = tbl ++ [root] /\ fr_lhs root = fr_lhs r /\ fr_ext root = fr_ext r
    /\ expands tbl (fr_edges root) (fr_nodes root) ns es
    /\ Permutation ns (fr_nodes r) /\ Permutation es (fr_edges r).

Lemma expands_app tbl l1 : forall l2 ns ns' ns'' es1 es2,
  expands tbl l1 ns ns' es1 -> expands tbl l2 ns' ns'' es2 -> expands tbl (l1 ++ l2) ns ns'' (es1 ++ es2).
Proof.
  intros l2 ns ns' ns'' es1 es2 H. revert l2 ns'' es2.
  induction H as [ns|e l ns ns' es F H IH|e d l ns ns1 ns' es1' es F A Hd _ H IH]; intros l2 ns'' es2 H2.
  - exact H2.
  - cbn [app]. apply x_keep; trivial. now apply IH.
  - cbn [app]. rewrite <- app_assoc. eapply x_inline; eauto.
Qed.

(** * eqb's *)
Lemma list_eqb_eq a b : list_eqb a b = true <-> a = b.
Proof.
  unfold list_eqb. split.
  - rewrite andb_true_iff, Nat.eqb_eq, forallb_forall. intros [L H]. revert b L H.
    induction a as [|x a IH]; intros [|y b] L H; try discriminate; [reflexivity|].
    f_equal.
    + specialize (H (x, y) (or_introl eq_refl)). now apply Nat.eqb_eq in H.
    + apply IH; [cbn in L; lia|]. intros p Hp. apply H. now right.
  - intros <-. rewrite Nat.eqb_refl. cbn [andb]. apply forallb_forall. intros [x y] H.
    assert (x = y); [|subst; apply Nat.eqb_refl]. clear -H. induction a as [|z a IH]; [destruct H|].
    destruct H as [H|H]; [now inversion H|auto].
Qed.
Lemma pair_eqb_eq a b : pair_eqb a b = true <-> a = b.
Proof. unfold pair_eqb. rewrite andb_true_iff, !Nat.eqb_eq. destruct a, b; cbn. split; [intros [-> ->]; reflexivity|intros [= -> ->]; auto]. Qed.
Lemma fedge_eqb_eq a b : fedge_eqb a b = true <-> a = b.
Proof.
  unfold fedge_eqb. rewrite !andb_true_iff, Nat.eqb_eq, elabel_eqb_eq, list_eqb_eq. destruct a, b; cbn.
  split; [intros [[-> ->] ->]; reflexivity|intros [= -> -> ->]; auto].
Qed.

Lemma remove_first_perm {A} (eqb : A -> A -> bool) (Heq : forall a b, eqb a b = true -> a = b) x l l' :
  remove_first eqb x l = Some l' -> Permutation l (x :: l').
Proof.
  revert l'. induction l as [|y l IH]; intros l' H; [discriminate|]. cbn [remove_first] in H.
  destruct (eqb x y) eqn:E.
  - injection H as <-. apply Heq in E. subst. apply Permutation_refl.
  - destruct (remove_first eqb x l) as [l''|]; [|discriminate]. injection H as <-.
    eapply perm_trans; [apply perm_skip; apply IH; reflexivity|]. apply perm_swap.
Qed.
Lemma perm_b_sound {A} (eqb : A -> A -> bool) (Heq : forall a b, eqb a b = true -> a = b) a :
  forall b, perm_b eqb a b = true -> Permutation a b.
Proof.
  induction a as [|x a IH]; intros b H; cbn [perm_b] in H.
  - destruct b; [constructor|discriminate].
  - destruct (remove_first eqb x b) as [b'|] eqn:E; [|discriminate].
    apply (remove_first_perm eqb Heq) in E. eapply perm_trans; [apply perm_skip; apply IH; exact H|].
    now apply Permutation_sym.
Qed.

(** * [expand] computes [expands] *)
Lemma expand_sound tbl : forall fuel c ns es,
  expand fuel tbl c = Some (ns, es) -> expands tbl (fr_edges c) (fr_nodes c) ns es.
Proof.
  induction fuel as [|f IH]; intros c ns es H; [discriminate|]. cbn [expand] in H.
  set (stepf := fun (acc : option (list (nat * nat) * list fedge)) e =>
                 match acc with
                 | None => None
                 | Some (ns, es) =>
                   match filter (fun d => elabel_eqb (fr_lhs d) (fe_lab e)) tbl with
                   | [] => Some (ns, es ++ [e])
                   | [d] => if list_eqb (fe_att e) (fr_ext d)
                            then match expand f tbl d with
                                 | Some (ns', es') => Some (union_nodes ns ns', es ++ es')
                                 | None => None
                                 end
                            else None
                   | _ => None
                   end
                 end) in H.
  assert (N : forall l, fold_left stepf l None = None) by (induction l; cbn; auto).
  assert (G : forall l ns0 es0 ns es, fold_left stepf l (Some (ns0, es0)) = Some (ns, es) ->
               exists es', es = es0 ++ es' /\ expands tbl l ns0 ns es').
  { induction l as [|e l IHl]; intros ns0 es0 ns1 es1 Hf; cbn [fold_left] in Hf.
    - injection Hf as <- <-. exists []. split; [now rewrite app_nil_r|constructor].
    - unfold stepf at 2 in Hf.
      destruct (filter (fun d => elabel_eqb (fr_lhs d) (fe_lab e)) tbl) as [|d [|d2 tl]] eqn:F.
      + destruct (IHl _ _ _ _ Hf) as (es' & -> & X). exists (e :: es'). split; [now rewrite <- app_assoc|].
        now apply x_keep.
      + destruct (list_eqb (fe_att e) (fr_ext d)) eqn:A; [|rewrite N in Hf; discriminate].
        destruct (expand f tbl d) as [[ns' es']|] eqn:X; [|rewrite N in Hf; discriminate].
        destruct (IHl _ _ _ _ Hf) as (es'' & -> & X2). exists (es' ++ es''). split; [now rewrite app_assoc|].
        eapply x_inline; eauto. now apply list_eqb_eq.
      + rewrite N in Hf. discriminate. }
  destruct (G _ _ _ _ _ H) as (es' & -> & X). exact X.
Qed.

Lemma split_last_spec {A} (l : list A) tbl x : split_last l = Some (tbl, x) -> l = tbl ++ [x].
Proof.
  unfold split_last. destruct (rev l) as [|y r] eqn:E; [discriminate|]. intros [= <- <-].
  rewrite <- (rev_involutive l), E. reflexivity.
Qed.

Theorem inline_ok_sound r rs : inline_ok r rs = true -> inlines_to r rs.
Proof.
  unfold inline_ok. destruct (split_last rs) as [[tbl root]|] eqn:S; [|discriminate].
  rewrite !andb_true_iff. intros [[H1 H2] H3].
  destruct (expand (Datatypes.S (length rs)) tbl root) as [[ns es]|] eqn:X; [|discriminate].
  apply andb_true_iff in H3. destruct H3 as [H3 H4].
  exists tbl, root, ns, es. split; [now apply split_last_spec|].
  split; [now apply elabel_eqb_eq|]. split; [now apply list_eqb_eq|].
  split; [eapply expand_sound; eauto|]. split.
  - apply (perm_b_sound pair_eqb); trivial. intros a b. apply pair_eqb_eq.
  - apply (perm_b_sound fedge_eqb); trivial. intros a b. apply fedge_eqb_eq.
Qed.

(** * the oracles [fresh_ok] and [nodes_ok] *)
Lemma snodup_NoDup l : snodup l = true -> NoDup l.
Proof.
  induction l as [|x l IH]; cbn [snodup]; [constructor|]. rewrite andb_true_iff, negb_true_iff.
  intros [H1 H2]. constructor; [now apply smem_false|auto].
Qed.
Theorem fresh_ok_sound existing rs : fresh_ok existing rs = true ->
  exists tbl root, rs = tbl ++ [root]
    /\ NoDup (map (fun c => el_name (fr_lhs c)) tbl)
    /\ forall c, In c tbl -> ~ In (el_name (fr_lhs c)) existing /\ el_term (fr_lhs c) = false
                             /\ count_label (fr_lhs c) rs = 1.
Proof.
  unfold fresh_ok. destruct (split_last rs) as [[tbl root]|] eqn:S; [|discriminate].
  rewrite andb_true_iff, forallb_forall. intros [H1 H2]. exists tbl, root. split; [now apply split_last_spec|].
  split; [apply snodup_NoDup; now rewrite map_map in H1|].
  intros c Hc. specialize (H2 (fr_lhs c) (in_map _ _ _ Hc)).
  rewrite !andb_true_iff, !negb_true_iff, Nat.eqb_eq in H2. destruct H2 as [[H2 H3] H4].
  split; [now apply smem_false|auto].
Qed.
Theorem nodes_ok_sound r t rs : nodes_ok r t rs = true ->
  forall c, In c rs -> length (fr_nodes c) <= length (fr_nodes r) /\ NoDup (fr_ids c)
                       /\ (exists b, In b (map fst t) /\ incl (fr_ids c) b /\ incl b (fr_ids c))
                       /\ incl (fr_nodes c) (fr_nodes r).
Proof.
  unfold nodes_ok. rewrite forallb_forall. intros H c Hc. specialize (H c Hc).
  rewrite !andb_true_iff, Nat.leb_le, nodupb_NoDup, existsb_exists, forallb_forall in H.
  destruct H as [[[H1 H2] (p & Hp & H3)] H4]. split; trivial. split; trivial. split.
  - exists (fst p). split; [now apply in_map|]. unfold set_eqb in H3. rewrite andb_true_iff, !subset_incl in H3. exact H3.
  - intros q Hq. specialize (H4 q Hq). apply existsb_exists in H4. destruct H4 as (q' & Hq' & E).
    apply pair_eqb_eq in E. now subst.
Qed.

(** * the model's output inlines to the original rule *)
Lemma union_nodes_In a b p : In p (union_nodes a b) <-> In p a \/ In p b.
Proof.
  unfold union_nodes. revert a. induction b as [|q b IH]; intro a; cbn [fold_left]; [cbn [In]; tauto|].
  rewrite IH. destruct (existsb (pair_eqb q) a) eqn:E.
  - apply existsb_exists in E. destruct E as (q' & Hq' & E). apply pair_eqb_eq in E. subst q'.
    cbn [In]. split; [tauto|]. intros [H|[<-|H]]; auto.
  - rewrite in_app_iff. cbn [In]. tauto.
Qed.
Lemma union_nodes_NoDup a b : NoDup a -> NoDup (union_nodes a b).
Proof.
  unfold union_nodes. revert a. induction b as [|q b IH]; intros a H; cbn [fold_left]; [exact H|].
  apply IH. destruct (existsb (pair_eqb q) a) eqn:E; [exact H|].
  apply NoDup_app_intro'; trivial; [constructor; [intros []|constructor]|].
  intros x Hx [E2|[]]. subst x. assert (existsb (pair_eqb q) a = true); [|congruence].
  apply existsb_exists. exists q. split; trivial. now apply pair_eqb_eq.
Qed.

Lemma filter_unique_name tbl d :
  NoDup (map (fun c => el_name (fr_lhs c)) tbl) -> In d tbl ->
  filter (fun d' => elabel_eqb (fr_lhs d') (fr_lhs d)) tbl = [d].
Proof.
  induction tbl as [|x tbl IH]; intros ND Hd; [destruct Hd|]. cbn [map] in ND. inversion ND as [|? ? Hx ND']; subst.
  cbn [filter]. destruct Hd as [->|Hd].
  - rewrite elabel_eqb_refl. f_equal.
    assert (G : forall l, (forall y, In y l -> el_name (fr_lhs y) <> el_name (fr_lhs d)) ->
                 filter (fun d' => elabel_eqb (fr_lhs d') (fr_lhs d)) l = []).
    { induction l as [|y l IHl]; intro Hn; [reflexivity|]. cbn [filter].
      destruct (elabel_eqb (fr_lhs y) (fr_lhs d)) eqn:E.
      - apply elabel_eqb_eq in E. exfalso. apply (Hn y (or_introl eq_refl)). now rewrite E.
      - apply IHl. intros z Hz. apply Hn. now right. }
    apply G. intros y Hy E. apply Hx. rewrite <- E. apply in_map_iff. eauto.
  - destruct (elabel_eqb (fr_lhs x) (fr_lhs d)) eqn:E.
    + apply elabel_eqb_eq in E. exfalso. apply Hx. rewrite E. apply in_map_iff. eauto.
    + now apply IH.
Qed.

Lemma NoDup_map_inj' {A B} (f : A -> B) l : (forall a b, f a = f b -> a = b) -> NoDup l -> NoDup (map f l).
Proof.
  intros Hf ND. induction ND as [|x l Hx ND IH]; cbn [map]; constructor; trivial.
  intro H. apply in_map_iff in H. destruct H as (y & E & Hy). apply Hf in E. now subst.
Qed.

Section Inline.
Variable r : frule.
Variable t : ftd.
Variable ords : list (list nat).
Notation rules_of := (rules_of_rt r t ords).
Variable nm : nat -> elabel.
Variable tbl : list frule.
Hypothesis NDn : NoDup (map (fun c => el_name (fr_lhs c)) tbl).
Hypothesis Orig : forall e d, In e (fr_edges r) -> In d tbl -> fr_lhs d <> fe_lab e.

Definition bag_nodes (j : nat) : list (nat * nat) := map (fun v => (v, nlabel (fr_nodes r) v)) (bag_of t j).

Lemma keep_orig l : (forall e, In e l -> In e (fr_edges r)) -> forall ns, expands tbl l ns ns l.
Proof.
  induction l as [|e l IH]; intros H ns; [constructor|]. apply x_keep; [|apply IH; intros x Hx; apply H; now right].
  assert (G : forall l', incl l' tbl -> filter (fun d => elabel_eqb (fr_lhs d) (fe_lab e)) l' = []).
  { induction l' as [|d l' IHl]; intro I; [reflexivity|]. cbn [filter].
    destruct (elabel_eqb (fr_lhs d) (fe_lab e)) eqn:E.
    - apply elabel_eqb_eq in E. exfalso. apply (Orig e d); [apply H; now left|apply I; now left|exact E].
    - apply IHl. intros x Hx. apply I. now right. }
  apply G. apply incl_refl.
Qed.

(** the rule that [visit] builds for the root of [T] *)
Definition root_rule (T : rt) (parent : option nat) : frule :=
  mk_rule r (nm (rt_root T)) (bag_of t (rt_root T))
          (place_edges r (bag_of t (rt_root T)) (pbag t parent) ++ kid_edges ords nm (rt_kids T))
          (ext_at r ords parent (rt_root T)).
Lemma root_rule_in T parent : In (root_rule T parent) (rules_of nm T parent).
Proof. destruct T as [i cs]. rewrite rules_of_rt_eq. apply in_or_app. right. now left. Qed.
Lemma kids_rules_incl i cs parent : incl (flat_map (fun c => rules_of nm c (Some i)) cs) (rules_of nm (RT i cs) parent).
Proof. rewrite rules_of_rt_eq. intros x Hx. apply in_or_app. now left. Qed.

Theorem expand_tree : forall T parent,
  incl (flat_map (fun c => rules_of nm c (Some (rt_root T))) (rt_kids T)) tbl ->
  (forall j, In j (rt_indices T) -> NoDup (bag_of t j)) ->
  exists ns es,
    expands tbl (fr_edges (root_rule T parent)) (fr_nodes (root_rule T parent)) ns es
    /\ Permutation es (placements r t T parent)
    /\ NoDup ns
    /\ forall p, In p ns <-> exists j, In j (rt_indices T) /\ In p (bag_nodes j).
Proof.
  induction T as [i cs IH] using rt_ind'. intros parent Hin Hnd. cbn [rt_root rt_kids] in Hin.
  unfold root_rule. cbn [rt_root rt_kids fr_edges fr_nodes mk_rule]. fold (bag_nodes i).
  assert (NDi : NoDup (bag_nodes i)).
  { unfold bag_nodes. apply NoDup_map_inj'.
    - intros a b E. now injection E.
    - apply Hnd. rewrite rt_indices_eq. now left. }
  (* the children, with the nodes collected so far *)
  assert (K : forall cs', incl cs' cs -> forall ns0, NoDup ns0 ->
            exists ns es, expands tbl (kid_edges ords nm cs') ns0 ns es
              /\ Permutation es (flat_map (fun c => placements r t c (Some i)) cs')
              /\ NoDup ns
              /\ forall p, In p ns <-> In p ns0 \/ exists c j, In c cs' /\ In j (rt_indices c) /\ In p (bag_nodes j)).
  { induction cs' as [|c cs' IHc]; intros Hsub ns0 ND0.
    - exists ns0, []. split; [constructor|]. split; [constructor|]. split; trivial.
      intro p. split; [tauto|]. intros [H|(c & j & [] & _)]; exact H.
    - assert (Hc : In c cs) by (apply Hsub; now left).
      rewrite Forall_forall in IH.
      destruct (IH c Hc (Some i)) as (ns1 & es1 & X1 & P1 & N1 & M1).
      { intros x Hx. apply Hin. apply in_flat_map. exists c. split; trivial.
        destruct c as [j cs'']. cbn [rt_root rt_kids] in Hx. now apply (kids_rules_incl j cs'' (Some i)). }
      { intros j Hj. apply Hnd. rewrite rt_indices_eq. right. apply in_flat_map. eauto. }
      destruct (IHc (fun x Hx => Hsub x (or_intror Hx)) (union_nodes ns0 ns1) (union_nodes_NoDup _ _ ND0))
        as (ns2 & es2 & X2 & P2 & N2 & M2).
      exists ns2, (es1 ++ es2). split; [|split; [|split]]; trivial.
      + cbn [kid_edges map].
        assert (Hd : In (root_rule c (Some i)) tbl).
        { apply Hin. apply in_flat_map. exists c. split; trivial. apply root_rule_in. }
        eapply x_inline; [| |exact X1|exact X2].
        * cbn [fe_lab new_edge]. change (nm (rt_root c)) with (fr_lhs (root_rule c (Some i))).
          now apply filter_unique_name.
        * reflexivity.
      + cbn [flat_map]. now apply Permutation_app.
      + intro p. rewrite M2, union_nodes_In, M1. split.
        * intros [[H|(j & Hj & Hp)]|(c' & j & Hc' & Hj & Hp)]; [now left| |].
          -- right. exists c, j. split; [now left|tauto].
          -- right. exists c', j. split; [now right|tauto].
        * intros [H|(c' & j & [<-|Hc'] & Hj & Hp)]; [tauto| |].
          -- left. right. eauto.
          -- right. eauto. }
  destruct (K cs (incl_refl _) (bag_nodes i) NDi) as (ns & es & X & P & N & M).
  exists ns, (place_edges r (bag_of t i) (pbag t parent) ++ es).
  split; [|split; [|split]]; trivial.
  - eapply expands_app; [|exact X]. apply keep_orig. intros e He. unfold place_edges in He. apply filter_In in He. tauto.
  - rewrite placements_eq. now apply Permutation_app_head.
  - intro p. rewrite M, rt_indices_eq. split.
    + intros [H|(c & j & Hc & Hj & Hp)]; [exists i; split; [now left|exact H]|].
      exists j. split; [|exact Hp]. right. apply in_flat_map. eauto.
    + intros (j & [<-|Hj] & Hp); [now left|]. right. apply in_flat_map in Hj. destruct Hj as (c & Hc & Hj). eauto.
Qed.

End Inline.

Lemma nlabel_In ns v l : NoDup (map fst ns) -> In (v, l) ns -> nlabel ns v = l.
Proof.
  induction ns as [|[u k] ns IH]; intros ND H; [destruct H|]. cbn [nlabel fst snd]. cbn [map fst] in ND.
  inversion ND as [|? ? Hu ND']; subst. destruct H as [H|H].
  - injection H as -> ->. now rewrite Nat.eqb_refl.
  - destruct (Nat.eqb_spec u v) as [->|Hne]; [exfalso; apply Hu; apply in_map_iff; exists (v, l); auto|].
    now apply IH.
Qed.
Lemma nodes_as_map ns : NoDup (map fst ns) -> forall p, In p ns <-> In (fst p) (map fst ns) /\ snd p = nlabel ns (fst p).
Proof.
  intros ND [v l]. cbn [fst snd]. split.
  - intro H. split; [apply in_map_iff; exists (v, l); auto|]. symmetry. now apply nlabel_In.
  - intros [H ->]. apply in_map_iff in H. destruct H as ([v' l'] & E & H). cbn in E. subst v'.
    now rewrite (nlabel_In ns v l' ND H).
Qed.

(** ** C05_inline *)
Theorem inline_final r t ords labels rs ls :
  wf_rule r -> ftd_wfb t = true -> valid_td (primal r) (td_of_ftd t) ->
  factorize_rule_model r labels t ords = Ok (rs, ls) ->
  inlines_to r rs.
Proof.
  intros WR WF V H. pose proof WR as (NDi & A & Ext).
  destruct (edges_once_final r t ords labels rs ls WR WF V H)
    as (front & last & Ers & El & Ee & _ & _ & _ & Hfresh & NDn & _ & _).
  destruct (find_root (fr_ext r) t 0) as [root|] eqn:FR; [|unfold factorize_rule_model, factorize_rule_from in H; rewrite FR in H; discriminate].
  destruct (valid_rooted r t WF V root NDi A Ext FR) as (T & RV).
  destruct (model_output r t ords labels root T rs ls FR RV H) as (nm & Ers' & Eroot & _ & _ & _).
  pose proof (rr_valid r t root T RV) as Vt.
  destruct (rules_last r t ords nm T None) as (front' & EL). rewrite <- Ers' in EL.
  rewrite Ers in EL. apply app_inj_tail in EL. destruct EL as [<- Elast].
  assert (Orig : forall e d, In e (fr_edges r) -> In d front -> fr_lhs d <> fe_lab e).
  { intros e d He Hd E. destruct (Hfresh d Hd) as (Tm & _ & Nin). apply Nin. rewrite E. apply in_map.
    unfold init_labels. apply in_or_app. left. now apply in_map. }
  destruct (expand_tree r t ords nm front NDn Orig T None) as (ns & es & X & P & N & M).
  { destruct T as [i cs]. cbn [rt_root rt_kids]. intros x Hx.
    assert (Hin : In x (rules_of_rt r t ords nm (RT i cs) None)) by now apply (kids_rules_incl r t ords nm i cs None).
    rewrite <- Ers', Ers in Hin. apply in_app_or in Hin. destruct Hin as [Hin|[<-|[]]]; [exact Hin|].
    (* the last rule is not among the children's rules: its lhs is the original one *)
    exfalso. rewrite rules_of_rt_eq in Ers'. rewrite Ers in Ers'. apply app_inj_tail in Ers'. destruct Ers' as [Ef _].
    rewrite <- Ef in Hx. destruct (Hfresh last Hx) as (_ & _ & Nin). apply Nin. rewrite El. apply in_map.
    unfold init_labels. apply in_or_app. right. now left. }
  { intros j Hj. now apply (rv_bags_nodup r t T Vt). }
  exists front, last, ns, es. split; [exact Ers|]. split; [exact El|]. split; [exact Ee|].
  split; [rewrite Elast; exact X|]. split.
  - apply NoDup_Permutation; trivial.
    + apply (NoDup_map_inv fst). exact NDi.
    + intro p. rewrite M, (nodes_as_map (fr_nodes r) NDi). fold (fr_ids r). split.
      * intros (j & Hj & Hp). unfold bag_nodes in Hp. apply in_map_iff in Hp. destruct Hp as (v & <- & Hv). cbn [fst snd].
        split; [now apply (rv_bags_sub r t T Vt j)|reflexivity].
      * intros [Hv E]. destruct (rv_vertex r t T Vt (fst p) Hv) as (j & Hj & Hvj). exists j. split; trivial.
        unfold bag_nodes. apply in_map_iff. exists (fst p). split; trivial. destruct p. cbn in *. now subst.
  - eapply perm_trans; [exact P|]. apply placements_perm; trivial.
Qed.
