(** C12: what a presentation preserves besides the values: non-recursiveness (a rank function),
    the shapes of the labels, membership of the transported index tuples. *)
From Coq Require Import List Arith Bool PeanoNat Lia Permutation.
Import ListNotations.
Require Import Fggs.Model.Semiring Fggs.Model.SCC Fggs.Model.SumProduct.
Require Import Fggs.Proofs.SCC_ntgraph Fggs.Proofs.BigSum Fggs.Proofs.SP_trees Fggs.Proofs.SP_nonrec
               Fggs.Proofs.SP_code Fggs.Proofs.SP_rename Fggs.Proofs.SP_spe Fggs.Proofs.SP_driver.
Require Import Fggs.Proofs.Presentation Fggs.Proofs.Presentation_perm Fggs.Proofs.Presentation_nodes
               Fggs.Proofs.Presentation_dom Fggs.Proofs.Presentation_relabel.

(** rules correspond one by one, each up to a renumbering of its nodes *)
Definition rules_nodes_perm (rs rs' : list rule) : Prop :=
  Forall2 (fun r r' => exists p, rule_nodes_perm p r r') rs rs'.
(** same label tables *)
Definition same_tables (G G' : grammar) : Prop := g_doms G = g_doms G' /\ g_labels G = g_labels G'.

Lemma same_tables_is_term G G' l : same_tables G G' -> is_term G' l = is_term G l.
Proof. intros [_ H]. unfold is_term. now rewrite H. Qed.
Lemma same_tables_lshape G G' l : same_tables G G' -> lshape G' l = lshape G l.
Proof. intros [H1 H2]. unfold lshape, ltype, dom. now rewrite H1, H2. Qed.

(** [G'] presents [G]: domain values permuted by [rho] (this changes only how weights and
    results are indexed), labels renumbered by [pel] / [pnl] (giving [G2]), the nodes of every
    rule renumbered ([G3]), the edge list of every rule permuted ([G4]), the rule list permuted *)
Definition presents (rho : nat -> list nat) (pel pnl : nat -> nat) (G G' : grammar) : Prop :=
  dom_perms G rho /\
  exists G2 G3 G4,
    relabelled pel pnl G G2
    /\ same_tables G2 G3 /\ rules_nodes_perm (g_rules G2) (g_rules G3)
    /\ same_tables G3 G4 /\ Forall2 rule_edges_perm (g_rules G3) (g_rules G4)
    /\ same_tables G4 G' /\ Permutation (g_rules G4) (g_rules G').

Lemma Forall2_In_r {A B} (P : A -> B -> Prop) l l' b :
  Forall2 P l l' -> In b l' -> exists a, In a l /\ P a b.
Proof.
  intros H. induction H as [|x y l l' Hxy _ IH]; [intros []|].
  intros [<-|Hin]; [exists x; split; [now left|exact Hxy]|].
  destruct (IH Hin) as (a & Ha & Hab). exists a. split; [now right|exact Hab].
Qed.

(** * non-recursiveness is preserved *)
Lemma ranked_rules_perm G G' rank :
  same_tables G G' -> Permutation (g_rules G) (g_rules G') -> ranked G rank -> ranked G' rank.
Proof.
  intros Hs Hp Hrk r Hr Ht ed Hed Hte. rewrite (same_tables_is_term G G' _ Hs) in Ht. rewrite (same_tables_is_term G G' _ Hs) in Hte.
  apply (Hrk r); trivial. exact (Permutation_in _ (Permutation_sym Hp) Hr).
Qed.
Lemma ranked_edges_perm G G' rank :
  same_tables G G' -> Forall2 rule_edges_perm (g_rules G) (g_rules G') -> ranked G rank -> ranked G' rank.
Proof.
  intros Hs HF Hrk r' Hr' Ht ed Hed Hte. rewrite (same_tables_is_term G G' _ Hs) in Ht. rewrite (same_tables_is_term G G' _ Hs) in Hte.
  destruct (Forall2_In_r _ _ _ _ HF Hr') as (r & Hr & E1 & _ & _ & Ep). rewrite <- E1 in *.
  apply (Hrk r Hr); trivial. exact (Permutation_in _ (Permutation_sym Ep) Hed).
Qed.
Lemma ranked_nodes_perm G G' rank :
  same_tables G G' -> rules_nodes_perm (g_rules G) (g_rules G') -> ranked G rank -> ranked G' rank.
Proof.
  intros Hs HF Hrk r' Hr' Ht ed Hed Hte. rewrite (same_tables_is_term G G' _ Hs) in Ht. rewrite (same_tables_is_term G G' _ Hs) in Hte.
  destruct (Forall2_In_r _ _ _ _ HF Hr') as (r & Hr & p & _ & _ & E1 & _ & Eed & _). rewrite E1 in *.
  rewrite Eed in Hed. apply in_map_iff in Hed. destruct Hed as (ed0 & <- & Hed0). cbn [fst] in *.
  now apply (Hrk r Hr).
Qed.

Definition rank_back (pel : nat -> nat) (n : nat) (rank : nat -> nat) (l' : nat) : nat :=
  match find (fun l => Nat.eqb (pel l) l') (seq 0 n) with Some l => rank l | None => 0 end.
Lemma rank_back_pel pel n rank l :
  (forall a b, a < n -> b < n -> pel a = pel b -> a = b) -> l < n -> rank_back pel n rank (pel l) = rank l.
Proof.
  intros Hinj Hl. unfold rank_back. destruct (find _ _) as [l0|] eqn:E.
  - apply find_some in E. destruct E as [Hin E]. apply in_seq in Hin. apply Nat.eqb_eq in E.
    now rewrite (Hinj l0 l) by (trivial; lia).
  - pose proof (find_none _ _ E l) as H. cbn beta in H. rewrite Nat.eqb_refl in H.
    discriminate H. apply in_seq. lia.
Qed.
Lemma ranked_relabel pel pnl G G' rank :
  wf_grammar G = true -> relabelled pel pnl G G' -> ranked G rank ->
  ranked G' (rank_back pel (length (g_labels G)) rank).
Proof.
  intros Hwf Hrel Hrk r' Hr' Ht ed' Hed' Hte.
  destruct (Forall2_In_r _ _ _ _ (rl_rules _ _ _ _ Hrel) Hr') as (r & Hr & E1 & _ & Eed & _).
  destruct (wf_rule_types G r (wf_grammar_rules G Hwf r Hr)) as (Hlhs & _ & Hedges & _).
  rewrite Eed in Hed'. apply in_map_iff in Hed'. destruct Hed' as (ed & <- & Hed). cbn [fst] in *.
  destruct (Hedges ed Hed) as (Hl & _).
  rewrite E1 in *. rewrite (rl_term _ _ _ _ Hrel) in Ht, Hte by trivial.
  rewrite !rank_back_pel; trivial; try apply (rl_inj _ _ _ _ Hrel). now apply (Hrk r Hr).
Qed.

Theorem presents_ranked rho pel pnl G G' rank :
  wf_grammar G = true -> presents rho pel pnl G G' -> ranked G rank ->
  ranked G' (rank_back pel (length (g_labels G)) rank).
Proof.
  intros Hwf (_ & G2 & G3 & G4 & Hrel & H23 & Hn & H34 & He & H45 & Hp) Hrk.
  apply (ranked_rules_perm G4 G'); trivial. apply (ranked_edges_perm G3 G4); trivial.
  apply (ranked_nodes_perm G2 G3); trivial. now apply (ranked_relabel pel pnl G G2).
Qed.

(** * labels, shapes, index tuples *)
Lemma presents_is_term rho pel pnl G G' X :
  presents rho pel pnl G G' -> vlab G X -> is_term G' (pel X) = is_term G X.
Proof.
  intros (_ & G2 & G3 & G4 & Hrel & H23 & _ & H34 & _ & H45 & _) HX.
  rewrite (same_tables_is_term G4 G' _ H45), (same_tables_is_term G3 G4 _ H34), (same_tables_is_term G2 G3 _ H23).
  now apply (rl_term _ _ _ _ Hrel).
Qed.
Lemma relabelled_lshape pel pnl G G' X :
  wf_grammar G = true -> relabelled pel pnl G G' -> vlab G X -> lshape G' (pel X) = lshape G X.
Proof.
  intros Hwf Hrel HX. unfold lshape. rewrite (rl_type _ _ _ _ Hrel X HX), map_map.
  apply map_ext_in. intros nl Hin. apply (rl_dom _ _ _ _ Hrel). now apply (wf_grammar_ltype G X).
Qed.
Theorem presents_lshape rho pel pnl G G' X :
  wf_grammar G = true -> presents rho pel pnl G G' -> vlab G X -> lshape G' (pel X) = lshape G X.
Proof.
  intros Hwf (_ & G2 & G3 & G4 & Hrel & H23 & _ & H34 & _ & H45 & _) HX.
  rewrite (same_tables_lshape G4 G' _ H45), (same_tables_lshape G3 G4 _ H34), (same_tables_lshape G2 G3 _ H23).
  now apply (relabelled_lshape pel pnl).
Qed.
(** the transported index tuple is an index tuple of the presented label *)
Theorem presents_vidx rho pel pnl G G' X xi :
  wf_grammar G = true -> presents rho pel pnl G G' -> vlab G X -> vidx G X xi ->
  In (pmap rho (ltype G X) xi) (all_assts (lshape G' (pel X))).
Proof.
  intros Hwf Hp HX Hxi. rewrite (presents_lshape rho pel pnl G G' X Hwf Hp HX).
  unfold lshape. apply pmap_all_assts; [|exact Hxi].
  intros nl Hin. apply (proj1 Hp). now apply (wf_grammar_ltype G X).
Qed.
