(** Preservation of the representation invariant [repr_ok] (physical axes distinct, exactly the free
    axes of the pattern with consistent sizes, none of size 1) by the constructors the library uses:
    the view operations ([permute], [transpose], [T], [flatten], [unsqueeze]), [freshen]/[clone],
    [expand] followed by [__post_init__], [eye], [from_int], [full]; and the equivalence of the
    proposition with the extracted boolean oracle [repr_inv_b] of the run-time monitor. *)
From Coq Require Import List Arith Lia PeanoNat Bool PArith.
Import ListNotations.
Require Import Fggs.Model.Axis Fggs.Model.AxisCheck Fggs.Model.PTensor Fggs.Model.PTensorOps Fggs.Model.PTensorCheck.
Require Import Fggs.Proofs.Axis_sem Fggs.Proofs.Axis_unify Fggs.Proofs.Axis_antiunify Fggs.Proofs.Axis_antiunify_inv.
Require Import Fggs.Proofs.PTensor_sem Fggs.Proofs.PTensor_dense Fggs.Proofs.PTensor_views Fggs.Proofs.PTensor_gen.
Require Import Fggs.Proofs.PTensor_transpose Fggs.Proofs.PTensor_expand Fggs.Proofs.Axis_repr.
Require Import Fggs.Proofs.Axis_clone Fggs.Proofs.PTensor_struct Fggs.Proofs.PTEqual_freshen.

Lemma NoDup_app'' {A} (l1 l2 : list A) : NoDup l1 -> NoDup l2 -> (forall x, In x l1 -> ~ In x l2) -> NoDup (l1 ++ l2).
Proof.
  induction l1 as [|x l1 IH]; intros N1 N2 D; [exact N2|]. inversion N1; subst. simpl. constructor.
  - intros H. apply in_app_or in H. destruct H as [H|H]; [contradiction|exact (D x (or_introl eq_refl) H)].
  - apply IH; [assumption|exact N2|]. intros y Hy. apply D. right. exact Hy.
Qed.

Section ReprInv.
Variable V : Type.
Notation ptensor := (ptensor V).

(** another pattern over the same storage with the same free axes *)
Lemma wf_with_vaxes (t : ptensor) vs :
  (forall kn, In kn (flat_map fvn vs) <-> In kn (flat_map fvn (vaxes t))) -> wf V t -> wf V (with_vaxes V t vs).
Proof.
  intros H [N F]. constructor; cbn [with_vaxes paxes vaxes]; [exact N|]. intros k n. rewrite (H (k, n)). apply F.
Qed.

Lemma repr_ok_with_vaxes (t : ptensor) vs :
  (forall kn, In kn (flat_map fvn vs) <-> In kn (flat_map fvn (vaxes t))) -> repr_ok V t -> repr_ok V (with_vaxes V t vs).
Proof. intros H [W N]. split; [apply wf_with_vaxes; assumption|exact N]. Qed.

Lemma In_flat_map_ext {A B} (f : A -> list B) l l' x : (forall y, In y l <-> In y l') -> In x (flat_map f l) <-> In x (flat_map f l').
Proof. intros H. rewrite !in_flat_map. split; intros (y & Hy & Hx); exists y; (split; [apply H; exact Hy|exact Hx]). Qed.

Theorem permute_repr_ok (t t' : ptensor) dims : repr_ok V t -> pt_permute V dims t = Some t' -> repr_ok V t'.
Proof.
  intros R H. unfold pt_permute in H. destruct (is_perm dims (length (vaxes t))) eqn:P; [|discriminate].
  destruct (select dims (vaxes t)) as [vs|] eqn:S; [|discriminate]. inversion H; subst.
  apply repr_ok_with_vaxes; [|exact R]. intros kn. apply In_flat_map_ext. intros y. split.
  - apply (select_In dims _ _ y S).
  - apply (select_covers dims _ _ _ y P eq_refl S).
Qed.

Theorem transpose_repr_ok (t t' : ptensor) d0 d1 : repr_ok V t -> pt_transpose V d0 d1 t = Some t' -> repr_ok V t'.
Proof.
  intros R H. unfold pt_transpose in H. destruct (Nat.eqb d0 d1) eqn:E; [inversion H; subst; exact R|].
  apply Nat.eqb_neq in E. destruct (Nat.max d0 d1 <? length (vaxes t)) eqn:L; [|discriminate]. apply Nat.ltb_lt in L.
  inversion H; subst. apply repr_ok_with_vaxes; [|exact R]. intros kn. apply In_flat_map_ext. intros y.
  apply (swap_In (Nat.min d0 d1) (Nat.max d0 d1)); lia.
Qed.

Theorem T_repr_ok (t : ptensor) : repr_ok V t -> repr_ok V (pt_T V t).
Proof. intros R. apply repr_ok_with_vaxes; [|exact R]. intros kn. apply flat_map_rev_In'. Qed.

Theorem unsqueeze_repr_ok (t : ptensor) dim : repr_ok V t -> repr_ok V (pt_unsqueeze V dim t).
Proof.
  intros R. apply repr_ok_with_vaxes; [|exact R]. intros kn.
  rewrite <- (firstn_skipn dim (vaxes t)) at 3. rewrite !flat_map_app. simpl. rewrite !in_app_iff. tauto.
Qed.

Theorem flatten_repr_ok (t : ptensor) : repr_ok V t -> repr_ok V (pt_flatten V t).
Proof.
  intros R. unfold pt_flatten. destruct (vaxes t) as [|x [|y r]] eqn:E; try exact R;
    (apply repr_ok_with_vaxes; [|exact R]; intros kn; rewrite E, flat1; apply fvn_productAxis).
Qed.

(** [freshen] / [clone] / [detach] / [copy_] *)
Theorem freshen_repr_ok (t : ptensor) next : repr_ok V t -> repr_ok V (fst (pt_freshen V next t)).
Proof.
  intros [W N]. split; [apply pt_freshen_wf; exact W|].
  rewrite (pt_freshen_paxes V t next W). intros k n Hk. apply in_map_iff in Hk. destruct Hk as ([k0 n0] & E & Hk).
  unfold rename_pn in E. inversion E; subst. exact (N _ _ Hk).
Qed.

(** [expand]: well formed before, and fully normalised after, [__post_init__] *)
Theorem expand_wf (t t' : ptensor) sizes next next' :
  wf V t -> (forall e, In e (vaxes t) -> below next e) ->
  pt_expand V sizes next t = Some (t', next') -> wf V t'.
Proof.
  intros W Bel H. unfold pt_expand in H.
  destruct (expand_loop (rev (vaxes t)) (rev sizes) next [] []) as [[[news vs] nx]|] eqn:EL; [|discriminate].
  inversion H; subst t' next'. clear H.
  destruct (expand_loop_rel _ _ _ _ _ _ _ _ EL) as (ar & nr & R & -> & ->). rewrite !app_nil_r.
  assert (Bel' : forall e, In e (rev (vaxes t)) -> below next e) by (intros e He; apply Bel; apply in_rev; exact He).
  destruct (exp_rel_sem _ _ _ _ _ _ R Bel') as (L1 & K & ND & FV & Len & _).
  constructor; cbn [paxes vaxes].
  - rewrite map_app. apply NoDup_app''.
    + rewrite map_rev. apply NoDup_rev. exact ND.
    + apply (wf_nodup V t W).
    + intros k H1 H2. rewrite map_rev in H1. apply in_rev in H1. apply in_map_iff in H1. destruct H1 as ([k1 n1] & E1 & H1).
      simpl in E1. subst k1. destruct (K _ _ H1) as [Kl _].
      apply in_map_iff in H2. destruct H2 as ([k2 n2] & E2 & H2). simpl in E2. subst k2.
      apply (wf_fv V t W) in H2. apply in_flat_map in H2. destruct H2 as (e & He & H2).
      assert (In k (fv e)) by (apply fv_of_fvn; eauto). pose proof (Bel e He k H). lia.
  - intros k n. split.
    + intros H. apply (proj1 (flat_map_rev_In' _ _ _)) in H. apply FV in H. apply in_or_app. destruct H as [H|H].
      * right. apply (wf_fv V t W). apply (proj1 (flat_map_rev_In' _ _ _)). exact H.
      * left. apply in_rev in H. exact H.
    + intros H. apply (proj2 (flat_map_rev_In' _ _ _)). apply FV. apply in_app_or in H. destruct H as [H|H].
      * right. apply in_rev. exact H.
      * left. apply (proj2 (flat_map_rev_In' _ _ _)). apply (wf_fv V t W). exact H.
Qed.

Theorem expand_repr_ok (t t' t'' : ptensor) sizes next next' :
  wf V t -> (forall e, In e (vaxes t) -> below next e) ->
  pt_expand V sizes next t = Some (t', next') -> post_init V t' = Ok t'' -> repr_ok V t''.
Proof. intros W Bel H P. exact (proj1 (post_init_refines V t' t'' (expand_wf t t' sizes next next' W Bel H) P)). Qed.

(** [eye]: well formed, no size-1 axis, and it denotes the identity matrix *)
Theorem eye_refines n (one zero : V) next :
  let r := fst (pt_eye V n one zero next) in
  repr_ok V r /\ shape V r = [n; n] /\
  forall i j, i < n -> j < n -> denote V r [i; j] = if Nat.eqb i j then one else zero.
Proof.
  unfold pt_eye. destruct (Nat.eqb_spec n 1) as [->|Hn]; cbn [fst].
  - split; [split; [constructor; [constructor|intros k n; simpl; tauto]|intros k n []]|]. split; [reflexivity|].
    intros i j Hi Hj. assert (i = 0) by lia. assert (j = 0) by lia. subst. reflexivity.
  - split; [split|].
    + constructor; cbn [paxes vaxes].
      * simpl. constructor; [intros []|constructor].
      * intros k m. simpl. intuition.
    + intros k m [E|[]]. inversion E; subst. exact Hn.
    + split; [reflexivity|]. intros i j Hi Hj. unfold denote. cbn [vaxes index_list index].
      destruct (n <=? i) eqn:Ei; [apply Nat.leb_le in Ei; lia|]. cbn [assoc app].
      destruct (n <=? j) eqn:Ej; [apply Nat.leb_le in Ej; lia|]. rewrite Pos.eqb_refl.
      destruct (Nat.eqb_spec i j); reflexivity.
Qed.

(** [from_int(x, semiring)] = [PatternedTensor(0-dim tensor, default=...)] *)
Corollary from_int_repr_ok (x d : V) next :
  let r := fst (pt_of_dense V [] (fun _ => x) d next) in repr_ok V r /\ denote V r [] = x.
Proof.
  destruct (of_dense_refines V [] (fun _ => x) d next) as (R & _ & _ & _ & D). split; [exact R|]. apply D. constructor.
Qed.

(** * the proposition and the boolean oracle of the monitor agree *)
Lemma nodup_pos_complete l : NoDup l -> nodup_pos l = true.
Proof.
  induction 1 as [|k l Hk _ IH]; [reflexivity|]. simpl. rewrite IH, andb_true_r. apply negb_true_iff.
  destruct (existsb (Pos.eqb k) l) eqn:E; [|reflexivity]. apply existsb_exists in E. destruct E as (y & Hy & Ey).
  apply Pos.eqb_eq in Ey. subst. contradiction.
Qed.

Lemma sizes_consistent_complete l : (forall k n n', In (k, n) l -> In (k, n') l -> n = n') -> sizes_consistent l = true.
Proof.
  induction l as [|[k n] l IH]; intros H; [reflexivity|]. simpl. apply andb_true_iff. split.
  - apply forallb_forall. intros [k' n'] Hin. simpl. destruct (Pos.eqb_spec k' k) as [->|_]; [|reflexivity]. simpl.
    apply Nat.eqb_eq. apply (H k); [right; exact Hin|left; reflexivity].
  - apply IH. intros k0 a b Ha Hb. apply (H k0); right; assumption.
Qed.

Lemma dedup_In seen l kn : In kn (dedup seen l) -> In kn l.
Proof. destruct kn. apply dedup_In_sub. Qed.

Theorem repr_ok_inv_b (t : ptensor) : repr_ok V t -> repr_inv_b (map snd (paxes t)) (paxes t) (vaxes t) = true.
Proof.
  intros [[ND F] N1]. unfold repr_inv_b.
  assert (A1 : list_eqb Nat.eqb (map snd (paxes t)) (map snd (paxes t)) = true).
  { clear. induction (map snd (paxes t)) as [|x l IH]; [reflexivity|]. simpl. rewrite Nat.eqb_refl. exact IH. }
  assert (A2 : nodup_pos (map fst (paxes t)) = true) by (apply nodup_pos_complete; exact ND).
  assert (A3 : seteq pn_eqb (paxes t) (fvn_list (vaxes t)) = true).
  { unfold seteq, subset. apply andb_true_iff. split; apply forallb_forall; intros [k n] Hk; apply (memb_In pn_eqb pn_eqb_eq).
    - apply F in Hk. destruct (dedup_keys [] _ k n Hk eq_refl) as (n' & Hn'). unfold fvn_list.
      assert (n = n'); [|subst; exact Hn']. pose proof (dedup_In_sub _ _ _ Hn') as Hn2. apply F in Hn2, Hk.
      exact (keys_fun _ k n n' ND Hk Hn2).
    - apply F. unfold fvn_list in Hk. eapply dedup_In_sub. exact Hk. }
  assert (A4 : sizes_consistent (paxes t ++ flat_map fvn (vaxes t)) = true).
  { apply sizes_consistent_complete. intros k n n' H1 H2.
    assert (G : forall m, In (k, m) (paxes t ++ flat_map fvn (vaxes t)) -> In (k, m) (paxes t)).
    { intros m Hm. apply in_app_or in Hm. destruct Hm as [Hm|Hm]; [exact Hm|apply F; exact Hm]. }
    exact (keys_fun _ k n n' ND (G _ H1) (G _ H2)). }
  assert (A5 : forallb (fun kn : pn => negb (Nat.eqb (snd kn) 1)) (paxes t) = true).
  { apply forallb_forall. intros [k n] Hk. simpl. apply negb_true_iff. apply Nat.eqb_neq. exact (N1 k n Hk). }
  rewrite A1, A2, A3, A4, A5. reflexivity.
Qed.

Theorem repr_inv_b_ok (t : ptensor) psize : repr_inv_b psize (paxes t) (vaxes t) = true -> repr_ok V t.
Proof.
  intros H. split; [exact (repr_inv_wf V t psize H)|].
  unfold repr_inv_b in H. apply andb_true_iff in H. destruct H as [_ H]. rewrite forallb_forall in H.
  intros k n Hk. specialize (H _ Hk). simpl in H. apply negb_true_iff in H. apply Nat.eqb_neq in H. exact H.
Qed.

End ReprInv.
