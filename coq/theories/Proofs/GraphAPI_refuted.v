(** C16 -- the property is FALSE for the code as it stands: concrete reachable witnesses, one
    per defect class, checked by computation on the faithful model. *)
From Coq Require Import List Arith Bool.
Import ListNotations.
Require Import Fggs.Model.GraphAPI.

Definition reachable (s : state) : Prop := exists ops, s = run init ops.

Definition A := 0. Definition B := 1.
Definition ax := Node A (Explicit 0).
Definition bx := Node B (Explicit 0).
Definition fA := EL 0 [A] true.
Definition fB := EL 0 [B] true.
Definition XA := EL 1 [A] false.

(** a call [o] issued in the state reached by [pre] breaks well-formedness *)
Definition breaks_wf (pre : list op) (o : op) : Prop :=
  wf_b (observe (run init pre)) = true /\ wf_b (observe (fst (step (run init pre) o))) = false.

(** F11: add_edge with a node that re-uses a present id with another label: the edge is
    attached to a node that is not in the graph *)
Lemma inv_refuted_F11_add_edge :
  breaks_wf [NewGraph; AddNode 0 (NVal ax)] (AddEdge 0 fB [NVal bx] (IdStr 0)).
Proof. split; vm_compute; reflexivity. Qed.

(** F11: the ext setter, same cause *)
Lemma inv_refuted_F11_set_ext :
  breaks_wf [NewGraph; AddNode 0 (NVal ax)] (SetExt 0 [NVal bx]).
Proof. split; vm_compute; reflexivity. Qed.

(** F11 within one argument list: two new nodes sharing an id *)
Lemma inv_refuted_F11_two_args :
  breaks_wf [NewGraph] (AddEdge 0 (EL 0 [A; B] true) [NVal ax; NVal bx] (IdStr 0)).
Proof. split; vm_compute; reflexivity. Qed.

(** remove_node tests presence by id and attachment by value: it removes an attached node *)
Lemma inv_refuted_remove_node :
  breaks_wf [NewGraph; AddEdge 0 fA [NVal ax] (IdStr 0)] (RemoveNode 0 bx).
Proof. split; vm_compute; reflexivity. Qed.

(** F13: Graph.copy forgets the label tables: the copy does not know the label of its own
    edge (and a later add_edge with a clashing label of the same name is accepted) *)
Lemma inv_refuted_F13_copy :
  breaks_wf [NewGraph; AddEdge 0 fA [NVal ax] (IdStr 0)] (Copy 0).
Proof. split; vm_compute; reflexivity. Qed.

Lemma inv_refuted_F13_two_labels_one_name :
  let s := run init [NewGraph; AddEdge 0 fA [NVal ax] (IdStr 0); Copy 0;
                     AddEdge 1 (EL 0 [B] false) [NVal (Node B (Explicit 1))] (IdStr 1)] in
  match nth_error (observe s) 1 with
  | Some (ObsG (_, _, edges, _, _) _ _) => map e_label edges = [fA; EL 0 [B] false]
  | _ => False
  end.
Proof. vm_compute. reflexivity. Qed.

(** aliasing: the grammar holds a reference to the caller's rhs graph; changing its external
    nodes afterwards leaves a rule whose lhs type differs from its rhs type *)
Lemma inv_refuted_alias_set_ext :
  breaks_wf [NewGraph; AddNode 0 (NVal ax); SetExt 0 [NVal ax]; NewHRG (SName 2); AddRule 1 XA 0]
            (SetExt 0 []).
Proof. split; vm_compute; reflexivity. Qed.

Lemma inv_refuted_alias_add_edge :
  breaks_wf [NewGraph; NewHRG (SName 2); NewRule 1 1 0] (AddEdge 0 fA [NVal ax] (IdStr 0)).
Proof. split; vm_compute; reflexivity. Qed.

Theorem C16_inv_refuted :
  exists s o, reachable s /\ wf_b (observe s) = true /\ wf_b (observe (fst (step s o))) = false.
Proof.
  exists (run init [NewGraph; AddNode 0 (NVal ax)]), (AddEdge 0 fB [NVal bx] (IdStr 0)).
  split; [eexists; reflexivity | exact inv_refuted_F11_add_edge].
Qed.

(** * atomicity *)
Definition not_atomic (pre : list op) (o : op) : Prop :=
  is_err (snd (step (run init pre) o)) = true /\
  (if list_eq_dec oobs_eq_dec (observe (fst (step (run init pre) o))) (observe (run init pre)) then true else false) = false.

(** F12: add_edge adds the missing nodes before add_edge_label raises *)
Lemma atomic_refuted_F12 :
  not_atomic [NewGraph; AddEdgeLabel 0 fA] (AddEdge 0 fB [NVal bx] (IdStr 0)).
Proof. split; vm_compute; reflexivity. Qed.

(** add_rule / new_rule register the lhs and the node labels before an edge label clashes *)
Lemma atomic_refuted_add_rule :
  not_atomic [NewGraph; AddEdge 0 fA [NVal ax] (IdStr 0); NewHRG (SName 2); AddEdgeLabel 1 fB] (NewRule 1 1 0).
Proof. split; vm_compute; reflexivity. Qed.

(** add_factor registers the edge label before the arity / domain checks *)
Lemma atomic_refuted_add_factor :
  not_atomic [NewFactorGraph; AddDomain 0 A [0; 1]] (AddFactor 0 fA (Fac [[0; 1]; [0; 1]] 0)).
Proof. split; vm_compute; reflexivity. Qed.

(** add_domain registers the node label before it finds the name mapped (reachable through a
    FactorGraph copy, whose node-label table is rebuilt from the nodes only) *)
Lemma atomic_refuted_add_domain :
  not_atomic [NewFactorGraph; AddDomain 0 A [0; 1]; Copy 0] (AddDomain 1 A [0; 1]).
Proof. split; vm_compute; reflexivity. Qed.

Theorem C16_failure_atomic_refuted :
  exists s o, reachable s /\ is_err (snd (step s o)) = true /\ observe (fst (step s o)) <> observe s.
Proof.
  exists (run init [NewGraph; AddEdgeLabel 0 fA]), (AddEdge 0 fB [NVal bx] (IdStr 0)).
  split; [eexists; reflexivity|].
  destruct atomic_refuted_F12 as [H1 H2]. split; [exact H1|].
  intro E. rewrite E in H2.
  destruct (list_eq_dec oobs_eq_dec _ _) in H2; [discriminate | congruence].
Qed.

(** * copies *)
(** F13: a copy of a Graph does not show the label tables of its original *)
Theorem C16_copy_refuted :
  exists s h, reachable s /\
    let s' := fst (step s (Copy h)) in
    snd (step s (Copy h)) = ROk /\
    match nth_error (observe s') h, nth_error (observe s') (length (objs s)) with
    | Some x, Some y => copy_match true (observe s') x y = false /\ wf_b (observe s) = true
    | _, _ => False
    end.
Proof.
  exists (run init [NewGraph; AddNode 0 (NVal ax)]), 0.
  split; [eexists; reflexivity|]. vm_compute. repeat split.
Qed.

(** a copy of a FactorGraph rebuilds its label tables from nodes and edges and forgets the rest *)
Lemma copy_refuted_factor_graph :
  let s := run init [NewFactorGraph; AddNodeLabel 0 A; Copy 0] in
  match nth_error (observe s) 0, nth_error (observe s) 1 with
  | Some x, Some y => copy_match true (observe s) x y = false
  | _, _ => False
  end.
Proof. vm_compute. reflexivity. Qed.
