(** C16 -- what is still FALSE for the code as it stands: the grammar keeps a reference to the
    caller's rhs graph, so a later mutation of that graph can break the grammar.  (The other
    classes -- F11, F12, F13, remove_node by id, add_rule / add_factor / add_domain
    registering before failing -- were repaired in /repo commits 349378f, 80c0f78, 068b525,
    6c89611; their former witnesses now raise ValueError or succeed harmlessly, see
    [repaired_*] below.) *)
From Coq Require Import List Arith Bool.
Import ListNotations.
Require Import Fggs.Model.GraphAPI.

Definition reachable (s : state) : Prop := exists ops, s = run init ops.

Definition A := 0. Definition B := 1.
Definition ax := Node A (Explicit 0).
Definition bx := Node B (Explicit 0).
Definition fA := EL 0 [A] true.
Definition fB := EL 0 [B] true.
Definition XA := EL 1 [A] false.

(** a call [o] issued in the state reached by [pre] breaks well-formedness *)
Definition breaks_wf (pre : list op) (o : op) : Prop :=
  wf_b (observe (run init pre)) = true /\ wf_b (observe (fst (step (run init pre) o))) = false.

(** changing the external nodes of a graph after it was added as a rhs leaves a rule whose lhs
    type differs from its rhs type *)
Lemma inv_refuted_alias_set_ext :
  breaks_wf [NewGraph; AddNode 0 (NVal ax); SetExt 0 [NVal ax]; NewHRG (SName 2); AddRule 1 XA 0]
            (SetExt 0 []).
Proof. split; vm_compute; reflexivity. Qed.

(** adding an edge to it gives the grammar a rule that uses a label it has not registered *)
Lemma inv_refuted_alias_add_edge :
  breaks_wf [NewGraph; NewHRG (SName 2); NewRule 1 1 0] (AddEdge 0 fA [NVal ax] (IdStr 0)).
Proof. split; vm_compute; reflexivity. Qed.

Theorem C16_inv_refuted :
  exists s o, reachable s /\ wf_b (observe s) = true /\ guard_wf s o = false /\
              wf_b (observe (fst (step s o))) = false.
Proof.
  exists (run init [NewGraph; AddNode 0 (NVal ax); SetExt 0 [NVal ax]; NewHRG (SName 2); AddRule 1 XA 0]), (SetExt 0 []).
  split; [eexists; reflexivity|]. split; [apply inv_refuted_alias_set_ext|].
  split; [vm_compute; reflexivity | apply inv_refuted_alias_set_ext].
Qed.

(** * the repaired classes: the former witnesses *)
Definition raises_unchanged (pre : list op) (o : op) : Prop :=
  snd (step (run init pre) o) = RErr ValueErr /\ objs (fst (step (run init pre) o)) = objs (run init pre).

Lemma repaired_F11_add_edge : raises_unchanged [NewGraph; AddNode 0 (NVal ax)] (AddEdge 0 fB [NVal bx] (IdStr 0)).
Proof. split; vm_compute; reflexivity. Qed.
Lemma repaired_F11_set_ext : raises_unchanged [NewGraph; AddNode 0 (NVal ax)] (SetExt 0 [NVal bx]).
Proof. split; vm_compute; reflexivity. Qed.
Lemma repaired_F11_two_args : raises_unchanged [NewGraph] (AddEdge 0 (EL 0 [A; B] true) [NVal ax; NVal bx] (IdStr 0)).
Proof. split; vm_compute; reflexivity. Qed.
Lemma repaired_remove_node : raises_unchanged [NewGraph; AddEdge 0 fA [NVal ax] (IdStr 0)] (RemoveNode 0 bx).
Proof. split; vm_compute; reflexivity. Qed.
Lemma repaired_F12 : raises_unchanged [NewGraph; AddEdgeLabel 0 fA] (AddEdge 0 fB [NVal bx] (IdStr 0)).
Proof. split; vm_compute; reflexivity. Qed.
Lemma repaired_add_rule :
  raises_unchanged [NewGraph; AddEdge 0 fA [NVal ax] (IdStr 0); NewHRG (SName 2); AddEdgeLabel 1 fB] (NewRule 1 1 0).
Proof. split; vm_compute; reflexivity. Qed.
Lemma repaired_add_factor :
  raises_unchanged [NewFactorGraph; AddDomain 0 A [0; 1]] (AddFactor 0 fA (Fac [[0; 1]; [0; 1]] 0)).
Proof. split; vm_compute; reflexivity. Qed.
Lemma repaired_add_domain :
  raises_unchanged [NewFactorGraph; AddDomain 0 A [0; 1]; Copy 0] (AddDomain 1 A [0; 1]).
Proof. split; vm_compute; reflexivity. Qed.

(** F13: the copy now shows the label tables, and rejects a clashing label *)
Lemma repaired_F13 :
  let s := run init [NewGraph; AddEdge 0 fA [NVal ax] (IdStr 0); Copy 0] in
  nth_error (observe s) 1 = nth_error (observe s) 0 /\
  snd (step s (AddEdge 1 (EL 0 [B] false) [NVal (Node B (Explicit 1))] (IdStr 1))) = RErr ValueErr.
Proof. split; vm_compute; reflexivity. Qed.
