(** C14: the round trip [json_to_hrg (hrg_to_json g)] for whole grammars. *)
From Coq Require Import List Arith Bool PeanoNat ZArith Lia Permutation.
Import ListNotations.
Require Import Fggs.Model.Json Fggs.Proofs.Json_base Fggs.Proofs.Json_iso Fggs.Proofs.Json_rule.
Local Open Scope nat_scope.

(** * generic list facts *)
Lemma filter_all : forall {A : Type} (p : A -> bool) l, (forall x, In x l -> p x = true) -> filter p l = l.
Proof.
  intros A p. induction l as [|x l IH]; intro H; cbn; [reflexivity|].
  rewrite (H x (or_introl eq_refl)). f_equal. apply IH. intros y Hy. apply H. now right.
Qed.

Lemma filter_none : forall {A : Type} (p : A -> bool) l, (forall x, In x l -> p x = false) -> filter p l = [].
Proof.
  intros A p. induction l as [|x l IH]; intro H; cbn; [reflexivity|].
  rewrite (H x (or_introl eq_refl)). apply IH. intros y Hy. apply H. now right.
Qed.

Lemma filter_partition_perm : forall {A : Type} (p : A -> bool) l,
  Permutation (filter p l ++ filter (fun x => negb (p x)) l) l.
Proof.
  intros A p. induction l as [|x l IH]; cbn; [constructor|]. destruct (p x); cbn.
  - now constructor.
  - symmetry. etransitivity; [|apply Permutation_middle]. constructor. now symmetry.
Qed.

Lemma NoDup_app_l : forall {A : Type} (a b : list A), NoDup (a ++ b) -> NoDup a.
Proof.
  intros A a. induction a as [|x a IH]; intros b H; [constructor|]. cbn in H. inversion H; subst.
  constructor; [|now apply (IH b)]. intro Hin. apply H2. apply in_or_app. now left.
Qed.

(** * the two label sections *)
Definition jitem (l : elabel) : str * json := (el_name l, jtype (el_type l)).

Lemma jlabels_items : forall ls, jlabels ls = JDict (map jitem ls).
Proof. reflexivity. Qed.

Lemma mapM_as_str : forall t, mapM as_str (map JStr t) = Ok t.
Proof. induction t as [|x t IH]; cbn; [reflexivity|]. now rewrite IH. Qed.

Lemma parse_type_jtype : forall t, parse_type (jtype t) = Ok t.
Proof.
  intro t. unfold parse_type.
  replace (jget (jtype t) k_type) with (Ok (JList (map JStr t))) by reflexivity.
  cbn [bind jiter]. apply mapM_as_str.
Qed.

Lemma parse_labels_jlabels : forall term ls acc,
  (forall l, In l ls -> el_term l = term) -> NoDup (map el_name (acc ++ ls)) ->
  parse_labels term (map jitem ls) acc = Ok (acc ++ ls).
Proof.
  intros term. induction ls as [|l ls IH]; intros acc Ht Hnd.
  - cbn. now rewrite app_nil_r.
  - change (map jitem (l :: ls)) with ((el_name l, jtype (el_type l)) :: map jitem ls).
    cbn [parse_labels]. rewrite parse_type_jtype. cbn [bind].
    assert (mkEL (el_name l) (el_type l) term = l) as ->.
    { rewrite <- (Ht l (or_introl eq_refl)). now destruct l. }
    rewrite lab_set_fresh.
    + rewrite IH.
      * now rewrite <- app_assoc.
      * intros x Hx. apply Ht. now right.
      * now rewrite <- app_assoc.
    + rewrite map_app in Hnd. cbn in Hnd. apply NoDup_remove_2 in Hnd. intro Hin. apply Hnd.
      apply in_or_app. now left.
Qed.

Lemma nodup_names_inj : forall L a b,
  NoDup (map el_name L) -> In a L -> In b L -> el_name a = el_name b -> a = b.
Proof.
  intros L a b Hnd Ha Hb E. pose proof (lab_get_in L a Hnd Ha) as H1. pose proof (lab_get_in L b Hnd Hb) as H2.
  rewrite E in H1. congruence.
Qed.

(** * the label table of the new grammar: [HRG(start)] then [add_edge_label] for every label *)
Definition neq_start (start l : elabel) : bool := negb (elabel_eqb l start).

Lemma add_edge_labels_gen : forall start L acc,
  NoDup (map el_name (start :: acc ++ filter (neq_start start) L)) ->
  (forall l, In l L -> el_name l = el_name start -> l = start) ->
  add_edge_labels (start :: acc) L = Ok (start :: acc ++ filter (neq_start start) L).
Proof.
  intros start. induction L as [|a L IH]; intros acc Hnd Hs.
  - cbn. now rewrite app_nil_r.
  - cbn [add_edge_labels filter] in *.
    assert (neq_start start a = negb (elabel_eqb a start)) as En by reflexivity. rewrite En in *. clear En.
    destruct (elabel_eqb a start) eqn:E; cbn [negb] in *.
    + apply elabel_eqb_eq in E. subst a.
      unfold add_edge_label. cbn [lab_get]. rewrite str_eqb_refl, elabel_eqb_refl. cbn [lab_set].
      rewrite str_eqb_refl. cbn [bind]. apply IH; [assumption|]. intros l Hl. apply Hs. now right.
    + assert (~ In (el_name a) (map el_name (start :: acc))) as Hfresh.
      { change (start :: acc ++ a :: filter (neq_start start) L)
          with ((start :: acc) ++ a :: filter (neq_start start) L) in Hnd.
        rewrite map_app in Hnd. cbn [map] in Hnd. apply NoDup_remove_2 in Hnd.
        intro Hin. apply Hnd. apply in_or_app. now left. }
      unfold add_edge_label. rewrite (proj2 (lab_get_none _ _) Hfresh). rewrite (lab_set_fresh _ _ Hfresh).
      cbn [bind]. change ((start :: acc) ++ [a]) with (start :: (acc ++ [a])).
      rewrite IH.
      * now rewrite <- app_assoc.
      * now rewrite <- app_assoc.
      * intros l Hl. apply Hs. now right.
Qed.

Lemma perm_start_filter : forall start L, NoDup L -> In start L ->
  Permutation (start :: filter (neq_start start) L) L.
Proof.
  intros start. induction L as [|a L IH]; intros Hnd Hin; [inversion Hin|].
  inversion Hnd as [|? ? Hna Hnd']; subst. cbn [filter]. unfold neq_start at 1.
  destruct (elabel_eqb a start) eqn:E; cbn [negb].
  - apply elabel_eqb_eq in E. subst a. rewrite filter_all; [reflexivity|].
    intros x Hx. unfold neq_start. apply negb_true_iff, elabel_eqb_neq. intro Ex. subst. contradiction.
  - apply elabel_eqb_neq in E. destruct Hin as [Hin|Hin]; [contradiction|].
    etransitivity; [apply perm_swap|]. constructor. now apply IH.
Qed.

(** * the rules *)
Lemma parse_rules_cons : forall tbl jr l c acc,
  parse_rules tbl (jr :: l) c acc =
  (do rc <- parse_rule tbl jr c; parse_rules tbl l (snd rc) (rules_add acc (fst rc))).
Proof. reflexivity. Qed.

Lemma rules_roundtrip : forall dec tbl labels rs c acc,
  Forall (fun r => wf_rule labels r = true) rs ->
  (forall l, In l labels -> lab_get tbl (el_name l) = Some l) ->
  exists jrs rs' c',
    mapM (jrule dec) rs = Ok jrs /\
    parse_rules tbl jrs c acc = Ok (fold_left rules_add rs' acc, c') /\
    Forall2 rule_iso rs rs'.
Proof.
  intros dec tbl labels. induction rs as [|r rs IH]; intros c acc Hwf Htbl.
  - exists [], [], c. repeat split; constructor.
  - inversion Hwf as [|? ? Hr Hwf']; subst.
    destruct (rule_roundtrip dec tbl labels r c Hr Htbl) as [jr [r' [c1 [H1 [H2 H3]]]]].
    destruct (IH c1 (rules_add acc r') Hwf' Htbl) as [jrs [rs' [c' [H4 [H5 H6]]]]].
    exists (jr :: jrs), (r' :: rs'), c'. repeat split.
    + cbn [mapM]. now rewrite H1, H4.
    + rewrite parse_rules_cons, H2. cbn [bind fst snd]. exact H5.
    + now constructor.
Qed.

Lemma rules_roundtrip_explicit : forall dec tbl labels rs c acc,
  Forall (fun r => wf_rule labels r = true) rs ->
  Forall (fun r => all_explicit_graph (r_rhs r) = true) rs ->
  (forall l, In l labels -> lab_get tbl (el_name l) = Some l) ->
  exists jrs,
    mapM (jrule dec) rs = Ok jrs /\
    parse_rules tbl jrs c acc = Ok (fold_left rules_add (map (norm_rule dec) rs) acc, c).
Proof.
  intros dec tbl labels. induction rs as [|r rs IH]; intros c acc Hwf Hex Htbl.
  - exists []. split; reflexivity.
  - inversion Hwf as [|? ? Hr Hwf']; subst. inversion Hex as [|? ? Hx Hex']; subst.
    destruct (rule_roundtrip_explicit dec tbl labels r c Hr Hx Htbl) as [jr [H1 H2]].
    destruct (IH c (rules_add acc (norm_rule dec r)) Hwf' Hex' Htbl) as [jrs [H4 H5]].
    exists (jr :: jrs). split.
    + cbn [mapM]. now rewrite H1, H4.
    + rewrite parse_rules_cons, H2. cbn [bind fst snd map fold_left]. exact H5.
Qed.

(** ** [_rules.setdefault(lhs, []).append(rule)] regroups the rules exactly as they were grouped *)
Definition keys_ok (R : list (elabel * list rule)) : Prop :=
  forall kl, In kl R -> snd kl <> [] /\ forall r, In r (snd kl) -> r_lhs r = fst kl.

Lemma rules_add_new : forall acc r, ~ In (r_lhs r) (map fst acc) -> rules_add acc r = acc ++ [(r_lhs r, [r])].
Proof.
  induction acc as [|[k l] acc IH]; intros r H; cbn; [reflexivity|].
  destruct (elabel_eqb k (r_lhs r)) eqn:E.
  - apply elabel_eqb_eq in E. exfalso. apply H. now left.
  - rewrite IH; [reflexivity|]. intro Hin. apply H. now right.
Qed.

Lemma rules_add_last : forall acc k l r, ~ In k (map fst acc) -> r_lhs r = k ->
  rules_add (acc ++ [(k, l)]) r = acc ++ [(k, l ++ [r])].
Proof.
  induction acc as [|[k0 l0] acc IH]; intros k l r H E; cbn.
  - subst k. now rewrite elabel_eqb_refl.
  - destruct (elabel_eqb k0 (r_lhs r)) eqn:E0.
    + apply elabel_eqb_eq in E0. exfalso. apply H. left. cbn. congruence.
    + rewrite IH; [reflexivity| |assumption]. intro Hin. apply H. now right.
Qed.

Lemma fold_rules_add_same : forall l0 acc k l1,
  ~ In k (map fst acc) -> (forall r, In r l0 -> r_lhs r = k) ->
  fold_left rules_add l0 (acc ++ [(k, l1)]) = acc ++ [(k, l1 ++ l0)].
Proof.
  induction l0 as [|r l0 IH]; intros acc k l1 Hk Hl; cbn [fold_left].
  - now rewrite app_nil_r.
  - rewrite rules_add_last; [|assumption|apply Hl; now left].
    rewrite IH; [|assumption|intros x Hx; apply Hl; now right]. now rewrite <- app_assoc.
Qed.

Lemma group_spec : forall (P : rule -> rule -> Prop),
  (forall r r', P r r' -> r_lhs r' = r_lhs r) ->
  forall R acc rs',
    NoDup (map fst acc ++ map fst R) -> keys_ok R -> Forall2 P (concat (map snd R)) rs' ->
    exists R', fold_left rules_add rs' acc = acc ++ R' /\
               Forall2 (fun kl kl' => fst kl = fst kl' /\ Forall2 P (snd kl) (snd kl')) R R' /\
               concat (map snd R') = rs'.
Proof.
  intros P HP. induction R as [|[k l] R IH]; intros acc rs' Hnd Hok H.
  - cbn in H. inversion H; subst. exists []. cbn. rewrite app_nil_r. repeat split; constructor.
  - cbn [map concat snd] in H. apply Forall2_app_inv_l in H as [l' [rs0' [Hl [H0 E]]]]. subst rs'.
    destruct (Hok (k, l) (or_introl eq_refl)) as [Hne Hlhs]. cbn [fst snd] in *.
    destruct l as [|r1 l0]; [contradiction|].
    inversion Hl as [|? r1' ? l0' Hr1 Hl0]; subst.
    assert (r_lhs r1' = k) as Hk1 by (rewrite (HP _ _ Hr1); apply Hlhs; now left).
    assert (forall r', In r' l0' -> r_lhs r' = k) as Hk0.
    { clear - HP Hl0 Hlhs. induction Hl0 as [|x y l0 l0' Hxy _ IH]; intros r' Hin; [inversion Hin|].
      destruct Hin as [<-|Hin].
      - rewrite (HP _ _ Hxy). apply Hlhs. right. now left.
      - apply IH; [|assumption]. intros r Hr. apply Hlhs. destruct Hr as [<-|Hr]; [now left|right; now right]. }
    assert (~ In k (map fst acc)) as Hkacc.
    { cbn [map fst] in Hnd. apply NoDup_remove_2 in Hnd. intro Hin. apply Hnd. apply in_or_app. now left. }
    destruct (IH (acc ++ [(k, r1' :: l0')]) rs0') as [R0' [HR1 [HR2 HR3]]].
    + rewrite map_app. cbn [map fst]. now rewrite <- app_assoc.
    + intros kl Hkl. apply Hok. now right.
    + assumption.
    + exists ((k, r1' :: l0') :: R0'). repeat split.
      * rewrite fold_left_app. cbn [fold_left app]. rewrite rules_add_new by (rewrite Hk1; exact Hkacc).
        rewrite Hk1. rewrite (fold_rules_add_same l0' acc k [r1'] Hkacc Hk0). cbn [app].
        rewrite HR1. now rewrite <- app_assoc.
      * constructor; [|assumption]. split; [reflexivity|]. now constructor.
      * cbn [map concat snd]. now rewrite HR3.
Qed.

(** * the facts [wf_hrg] packs *)
Lemma wf_hrg_facts : forall g, wf_hrg g = true ->
  NoDup (map el_name (h_labels g)) /\ In (h_start g) (h_labels g) /\ el_term (h_start g) = false /\
  NoDup (map fst (h_rules g)) /\ keys_ok (h_rules g) /\
  Forall (fun r => wf_rule (h_labels g) r = true) (all_rules g).
Proof.
  intros g H. unfold wf_hrg in H.
  apply andb_true_iff in H as [H H5]. apply andb_true_iff in H as [H H4]. apply andb_true_iff in H as [H H3].
  apply andb_true_iff in H as [H1 H2]. rewrite forallb_forall in H5. repeat split.
  - now apply nodup_strs_NoDup.
  - now apply label_mem_In.
  - now apply negb_true_iff.
  - now apply nodup_labels_NoDup.
  - specialize (H5 kl H). apply andb_true_iff in H5 as [H5 _]. apply negb_true_iff, Nat.eqb_neq in H5.
    intro E. rewrite E in H5. now apply H5.
  - intros r Hr. specialize (H5 kl H). apply andb_true_iff in H5 as [_ H5]. rewrite forallb_forall in H5.
    specialize (H5 r Hr). apply andb_true_iff in H5 as [H5 _]. now apply elabel_eqb_eq.
  - apply Forall_forall. intros r Hr. unfold all_rules in Hr. apply in_concat in Hr as [l [Hl Hr]].
    apply in_map_iff in Hl as [kl [<- Hkl]]. specialize (H5 kl Hkl). apply andb_true_iff in H5 as [_ H5].
    rewrite forallb_forall in H5. specialize (H5 r Hr). now apply andb_true_iff in H5 as [_ H5].
Qed.

(** the document [hrg_to_json] writes *)
Definition hrg_json (T N : list elabel) (s : str) (jrs : list json) : json :=
  JDict [(k_terminals, jlabels T); (k_nonterminals, jlabels N); (k_start, JStr s); (k_rules, JList jrs)].

Lemma json_to_hrg_step : forall c it inn s jrs,
  json_to_hrg_model c (JDict [(k_terminals, JDict it); (k_nonterminals, JDict inn); (k_start, JStr s);
                              (k_rules, JList jrs)]) =
  (do l1 <- parse_labels true it [];
   do labels <- parse_labels false inn l1;
   do start <- label_lookup labels (JStr s);
   if el_term start then Err ValueErr
   else do tbl <- add_edge_labels [start] labels;
        do rs <- parse_rules tbl jrs c [];
        Ok (mkHRG tbl start (fst rs))).
Proof. reflexivity. Qed.

(** reading the header of the document: the label table of the result *)
Lemma header_roundtrip : forall g, wf_hrg g = true ->
  let L := terminals g ++ nonterminals g in
  let tbl := h_start g :: filter (neq_start (h_start g)) L in
  parse_labels true (map jitem (terminals g)) [] = Ok (terminals g) /\
  parse_labels false (map jitem (nonterminals g)) (terminals g) = Ok L /\
  label_lookup L (JStr (el_name (h_start g))) = Ok (h_start g) /\
  add_edge_labels [h_start g] L = Ok tbl /\
  NoDup (map el_name tbl) /\ (forall l, In l tbl <-> In l (h_labels g)).
Proof.
  intros g Hwf L tbl.
  destruct (wf_hrg_facts g Hwf) as [Hnd [Hstart [Hnt _]]].
  assert (Permutation L (h_labels g)) as HpL by apply filter_partition_perm.
  assert (NoDup (map el_name L)) as HndL.
  { eapply Permutation_NoDup; [|exact Hnd]. apply Permutation_map. now symmetry. }
  assert (In (h_start g) L) as HinL by (apply (Permutation_in _ (Permutation_sym HpL)); exact Hstart).
  assert (Permutation tbl L) as Hpt.
  { apply perm_start_filter; [eapply NoDup_map_inv'; exact HndL|exact HinL]. }
  assert (NoDup (map el_name tbl)) as Hndt.
  { eapply Permutation_NoDup; [|exact HndL]. apply Permutation_map. now symmetry. }
  repeat split.
  - rewrite (parse_labels_jlabels true (terminals g) []); [reflexivity| |].
    + intros l Hl. unfold terminals in Hl. now apply filter_In in Hl.
    + cbn [app]. unfold L in HndL. rewrite map_app in HndL. now apply NoDup_app_l in HndL.
  - apply parse_labels_jlabels; [|exact HndL].
    intros l Hl. unfold nonterminals in Hl. apply filter_In in Hl as [_ Hl]. now apply negb_true_iff.
  - cbn [label_lookup]. now rewrite (lab_get_in L (h_start g) HndL HinL).
  - apply (add_edge_labels_gen (h_start g) L []); [exact Hndt|].
    intros l Hl E. now apply (nodup_names_inj L l (h_start g) HndL Hl HinL).
  - exact Hndt.
  - intro Hin. apply (Permutation_in _ HpL). now apply (Permutation_in _ Hpt).
  - intro Hin. apply (Permutation_in _ (Permutation_sym Hpt)). now apply (Permutation_in _ (Permutation_sym HpL)).
Qed.

(** * C14_roundtrip_iso *)
Theorem roundtrip_iso : forall (dec : nat -> str) (g : hrg) (c : nat),
  wf_hrg g = true ->
  exists j g', hrg_to_json_model dec g = Ok j /\ json_to_hrg_model c j = Ok g' /\ hrg_iso g g'.
Proof.
  intros dec g c Hwf.
  destruct (wf_hrg_facts g Hwf) as [Hnd [Hstart [Hnt [Hkeys [Hok Hrules]]]]].
  destruct (header_roundtrip g Hwf) as [Hp1 [Hp2 [Hp3 [Hp4 [Hndt Htbl]]]]].
  set (L := terminals g ++ nonterminals g) in *.
  set (tbl := h_start g :: filter (neq_start (h_start g)) L) in *.
  assert (forall l, In l (h_labels g) -> lab_get tbl (el_name l) = Some l) as Hget.
  { intros l Hl. apply lab_get_in; [exact Hndt|]. now apply Htbl. }
  destruct (rules_roundtrip dec tbl (h_labels g) (all_rules g) c [] Hrules Hget) as [jrs [rs' [c' [H1 [H2 H3]]]]].
  destruct (group_spec rule_iso (fun r r' H => eq_sym (proj1 H)) (h_rules g) [] rs') as [R' [HR1 [HR2 HR3]]].
  { cbn [map app]. exact Hkeys. }
  { exact Hok. }
  { exact H3. }
  exists (hrg_json (terminals g) (nonterminals g) (el_name (h_start g)) jrs), (mkHRG tbl (h_start g) R').
  split; [|split].
  - unfold hrg_to_json_model. rewrite H1. reflexivity.
  - unfold hrg_json. rewrite !jlabels_items, json_to_hrg_step, Hp1. cbn [bind]. rewrite Hp2. cbn [bind].
    rewrite Hp3. cbn [bind]. rewrite Hnt, Hp4. cbn [bind]. rewrite H2. cbn [bind fst]. now rewrite HR1.
  - split; [reflexivity|]. split; [|exact HR2].
    split; [exact Hnd|]. split; [exact Hndt|]. intro l. symmetry. apply Htbl.
Qed.

(** the theorem is not vacuous: a two-rule grammar with implicit and explicit ids, an external
    node and a binary terminal *)
Example roundtrip_iso_ex :
  let t := mkEL [116] [[78]; [78]] true in
  let s := mkEL [83] [] false in
  let x := mkEL [88] [[78]] false in
  let a := mkNode [78] (Explicit [97]) in
  let b := mkNode [78] (Implicit 5) in
  wf_hrg (mkHRG [s; t; x] s
            [(s, [mkRule s (mkGraph [b] [mkEdge x [b] (Implicit 6)] [])]);
             (x, [mkRule x (mkGraph [b; a] [mkEdge t [a; b] (Explicit [101])] [a])])]) = true.
Proof. reflexivity. Qed.

(** * C14_second_roundtrip_verbatim *)
Lemma id_str_explicit : forall dec dec' i, is_explicit i = true -> id_str dec' i = id_str dec i.
Proof. intros dec dec' [s|n] H; [reflexivity|discriminate]. Qed.

Lemma jrule_norm : forall dec dec' r, all_explicit_graph (r_rhs r) = true ->
  jrule dec' (norm_rule dec r) = jrule dec r.
Proof.
  intros dec dec' r Hex. unfold all_explicit_graph in Hex. apply andb_true_iff in Hex as [Hn He].
  rewrite forallb_forall in Hn, He.
  unfold jrule, norm_rule. cbn [r_rhs r_lhs g_ext].
  assert (sorted_nodes dec' (mkGraph (sorted_nodes dec (r_rhs r)) (sorted_edges dec (r_rhs r)) (g_ext (r_rhs r)))
          = sorted_nodes dec (r_rhs r)) as ->.
  { unfold sorted_nodes at 1. cbn [g_nodes].
    rewrite (sort_by_ext (fun v => id_str dec' (n_id v)) (fun v => id_str dec (n_id v))).
    - unfold sorted_nodes. apply sort_by_idem.
    - intros v Hv. apply id_str_explicit. apply Hn. now apply sorted_nodes_in in Hv. }
  assert (sorted_edges dec' (mkGraph (sorted_nodes dec (r_rhs r)) (sorted_edges dec (r_rhs r)) (g_ext (r_rhs r)))
          = sorted_edges dec (r_rhs r)) as ->.
  { unfold sorted_edges at 1. cbn [g_edges].
    rewrite (sort_by_ext (fun e => id_str dec' (e_id e)) (fun e => id_str dec (e_id e))).
    - unfold sorted_edges. apply sort_by_idem.
    - intros e He'. apply id_str_explicit. apply He. now apply sorted_edges_in in He'. }
  reflexivity.
Qed.

(** With all ids explicit, [json_to_hrg (hrg_to_json g)] is [g] with nodes and edges in sorted
    order and the label table rearranged as (start, terminals, other nonterminals); writing it out
    again gives the same document, except that the start symbol now comes first among the
    "nonterminals" entries. *)
Theorem second_roundtrip : forall (dec dec' : nat -> str) (g : hrg) (c : nat),
  wf_hrg g = true -> all_explicit g = true ->
  exists jrs g',
    hrg_to_json_model dec g = Ok (hrg_json (terminals g) (nonterminals g) (el_name (h_start g)) jrs) /\
    json_to_hrg_model c (hrg_json (terminals g) (nonterminals g) (el_name (h_start g)) jrs) = Ok g' /\
    hrg_to_json_model dec' g' =
      Ok (hrg_json (terminals g) (h_start g :: filter (neq_start (h_start g)) (nonterminals g))
                   (el_name (h_start g)) jrs).
Proof.
  intros dec dec' g c Hwf Hex.
  destruct (wf_hrg_facts g Hwf) as [Hnd [Hstart [Hnt [Hkeys [Hok Hrules]]]]].
  destruct (header_roundtrip g Hwf) as [Hp1 [Hp2 [Hp3 [Hp4 [Hndt Htbl]]]]].
  set (L := terminals g ++ nonterminals g) in *.
  set (tbl := h_start g :: filter (neq_start (h_start g)) L) in *.
  assert (forall l, In l (h_labels g) -> lab_get tbl (el_name l) = Some l) as Hget.
  { intros l Hl. apply lab_get_in; [exact Hndt|]. now apply Htbl. }
  assert (Forall (fun r => all_explicit_graph (r_rhs r) = true) (all_rules g)) as Hex'.
  { apply Forall_forall. unfold all_explicit in Hex. rewrite forallb_forall in Hex. exact Hex. }
  destruct (rules_roundtrip_explicit dec tbl (h_labels g) (all_rules g) c [] Hrules Hex' Hget) as [jrs [H1 H2]].
  destruct (group_spec (fun r r' => r' = norm_rule dec r) (fun r r' H => f_equal r_lhs H)
                       (h_rules g) [] (map (norm_rule dec) (all_rules g))) as [R' [HR1 [HR2 HR3]]].
  { cbn [map app]. exact Hkeys. }
  { exact Hok. }
  { unfold all_rules. generalize (concat (map snd (h_rules g))). intro l. induction l; cbn; constructor; auto. }
  exists jrs, (mkHRG tbl (h_start g) R'). split; [|split].
  - unfold hrg_to_json_model. rewrite H1. reflexivity.
  - unfold hrg_json. rewrite !jlabels_items, json_to_hrg_step, Hp1. cbn [bind]. rewrite Hp2. cbn [bind].
    rewrite Hp3. cbn [bind]. rewrite Hnt, Hp4. cbn [bind]. rewrite H2. cbn [bind fst]. now rewrite HR1.
  - assert (terminals (mkHRG tbl (h_start g) R') = terminals g) as HT.
    { unfold terminals at 1. cbn [h_labels]. unfold tbl. cbn [filter]. rewrite Hnt.
      unfold L. rewrite !filter_app.
      rewrite (filter_none el_term (filter (neq_start (h_start g)) (nonterminals g))).
      - rewrite app_nil_r. rewrite (filter_all (neq_start (h_start g)) (terminals g)).
        + apply filter_all. intros x Hx. unfold terminals in Hx. now apply filter_In in Hx.
        + intros x Hx. unfold terminals in Hx. apply filter_In in Hx as [_ Hx].
          unfold neq_start. apply negb_true_iff, elabel_eqb_neq. intro E. subst. congruence.
      - intros x Hx. apply filter_In in Hx as [Hx _]. unfold nonterminals in Hx. apply filter_In in Hx as [_ Hx].
        now apply negb_true_iff. }
    assert (nonterminals (mkHRG tbl (h_start g) R') = h_start g :: filter (neq_start (h_start g)) (nonterminals g)) as HN.
    { unfold nonterminals at 1. cbn [h_labels]. unfold tbl. cbn [filter]. rewrite Hnt. cbn [negb].
      f_equal. unfold L. rewrite !filter_app.
      rewrite (filter_none (fun l => negb (el_term l)) (filter (neq_start (h_start g)) (terminals g))).
      - cbn [app]. apply filter_all. intros x Hx. apply filter_In in Hx as [Hx _].
        unfold nonterminals in Hx. now apply filter_In in Hx.
      - intros x Hx. apply filter_In in Hx as [Hx _]. unfold terminals in Hx. apply filter_In in Hx as [_ Hx].
        now rewrite Hx. }
    unfold hrg_to_json_model. rewrite HT, HN. unfold all_rules. cbn [h_rules h_start]. rewrite HR3, mapM_map.
    rewrite (mapM_ext_in _ (jrule dec)).
    + fold (all_rules g). rewrite H1. reflexivity.
    + intros r Hr. apply jrule_norm. rewrite Forall_forall in Hex'. now apply Hex'.
Qed.

(** in particular: if the start symbol is the first nonterminal of the label table (it always is
    for a grammar built as [HRG(start)] whose start was not reassigned), the second round trip
    reproduces the document verbatim *)
Corollary second_roundtrip_verbatim : forall (dec dec' : nat -> str) (g : hrg) (c : nat),
  wf_hrg g = true -> all_explicit g = true ->
  (exists rest, nonterminals g = h_start g :: rest) ->
  exists j g', hrg_to_json_model dec g = Ok j /\ json_to_hrg_model c j = Ok g' /\
               hrg_to_json_model dec' g' = Ok j.
Proof.
  intros dec dec' g c Hwf Hex [rest Hrest].
  destruct (second_roundtrip dec dec' g c Hwf Hex) as [jrs [g' [H1 [H2 H3]]]].
  eexists. exists g'. split; [exact H1|]. split; [exact H2|]. rewrite H3. f_equal. f_equal.
  rewrite Hrest. cbn [filter]. unfold neq_start at 1. rewrite elabel_eqb_refl. cbn [negb]. f_equal.
  apply filter_all. intros x Hx. unfold neq_start. apply negb_true_iff, elabel_eqb_neq. intro E. subst x.
  destruct (wf_hrg_facts g Hwf) as [Hnd _].
  assert (NoDup (nonterminals g)) as Hn.
  { unfold nonterminals. apply NoDup_filter. eapply NoDup_map_inv'. exact Hnd. }
  rewrite Hrest in Hn. inversion Hn. contradiction.
Qed.
