(** Basic facts for the C15 development: decidable equalities, association lists,
    boolean list predicates. *)
From Coq Require Import List Arith Bool PeanoNat Lia Permutation.
Import ListNotations.
Require Import Fggs.Model.Replace.

(** * Boolean equalities *)
Lemma id_eqb_eq : forall a b, id_eqb a b = true <-> a = b.
Proof.
  destruct a, b; simpl; try (split; congruence);
    rewrite Nat.eqb_eq; split; congruence.
Qed.
Lemma id_eqb_refl : forall a, id_eqb a a = true.
Proof. intros; apply id_eqb_eq; reflexivity. Qed.
Lemma id_eqb_neq : forall a b, id_eqb a b = false <-> a <> b.
Proof.
  intros; destruct (id_eqb a b) eqn:E.
  - apply id_eqb_eq in E; split; congruence.
  - split; auto. intros _ H. apply id_eqb_eq in H. congruence.
Qed.
Lemma id_eqb_sym : forall a b, id_eqb a b = id_eqb b a.
Proof.
  intros. destruct (id_eqb a b) eqn:E.
  - apply id_eqb_eq in E; subst; symmetry; apply id_eqb_refl.
  - symmetry. apply id_eqb_neq. apply id_eqb_neq in E. congruence.
Qed.

Section ListEqb.
  Context {A : Type} (eqb : A -> A -> bool) (eqb_eq : forall a b, eqb a b = true <-> a = b).
  Lemma list_eqb_eq : forall l1 l2, list_eqb eqb l1 l2 = true <-> l1 = l2.
  Proof.
    induction l1; destruct l2; simpl; try (split; congruence).
    rewrite andb_true_iff, eqb_eq, IHl1. split; [intros [-> ->]; auto | intros H; inversion H; auto].
  Qed.
  Lemma memb_In : forall l x, memb eqb l x = true <-> In x l.
  Proof.
    unfold memb; intros. rewrite existsb_exists. split.
    - intros [y [Hy E]]. apply eqb_eq in E; subst; auto.
    - intros H; exists x; split; auto. apply eqb_eq; auto.
  Qed.
  Lemma memb_false : forall l x, memb eqb l x = false <-> ~ In x l.
  Proof.
    intros. destruct (memb eqb l x) eqn:E.
    - apply memb_In in E. split; [congruence | tauto].
    - split; auto. intros _ H. apply memb_In in H. congruence.
  Qed.
  Lemma nodupb_NoDup : forall l, nodupb eqb l = true <-> NoDup l.
  Proof.
    induction l; simpl.
    - split; auto using NoDup_nil.
    - rewrite andb_true_iff, negb_true_iff, memb_false, IHl. split.
      + intros [H1 H2]; constructor; auto.
      + intros H; inversion H; auto.
  Qed.
  Lemma eqb_refl_gen : forall a, eqb a a = true.
  Proof. intros; apply eqb_eq; reflexivity. Qed.
  Lemma eqb_false_gen : forall a b, eqb a b = false <-> a <> b.
  Proof.
    intros. destruct (eqb a b) eqn:E.
    - apply eqb_eq in E. split; congruence.
    - split; auto. intros _ H. apply eqb_eq in H. congruence.
  Qed.
End ListEqb.

Lemma node_eqb_eq : forall a b, node_eqb a b = true <-> a = b.
Proof.
  destruct a, b; unfold node_eqb; simpl. rewrite andb_true_iff, id_eqb_eq, Nat.eqb_eq.
  split; [intros [-> ->]; auto | intros H; inversion H; auto].
Qed.
Lemma elabel_eqb_eq : forall a b, elabel_eqb a b = true <-> a = b.
Proof.
  destruct a, b; unfold elabel_eqb; simpl.
  rewrite !andb_true_iff, Nat.eqb_eq, (list_eqb_eq Nat.eqb Nat.eqb_eq), Bool.eqb_true_iff.
  split; [intros [[-> ->] ->]; auto | intros H; inversion H; auto].
Qed.
Lemma edge_eqb_eq : forall a b, edge_eqb a b = true <-> a = b.
Proof.
  destruct a, b; unfold edge_eqb; simpl.
  rewrite !andb_true_iff, id_eqb_eq, elabel_eqb_eq, (list_eqb_eq node_eqb node_eqb_eq).
  split; [intros [[-> ->] ->]; auto | intros H; inversion H; auto].
Qed.
Lemma path_eqb_eq : forall p q : path, list_eqb id_eqb p q = true <-> p = q.
Proof. exact (list_eqb_eq id_eqb id_eqb_eq). Qed.
Lemma name_eqb_eq : forall a b, name_eqb a b = true <-> a = b.
Proof.
  destruct a, b; simpl; try (split; congruence).
  - rewrite Nat.eqb_eq; split; congruence.
  - rewrite andb_true_iff, path_eqb_eq, id_eqb_eq.
    split; [intros [-> ->]; auto | intros H; inversion H; auto].
Qed.
Lemma dnode_eqb_eq : forall a b, dnode_eqb a b = true <-> a = b.
Proof.
  intros [a1 a2] [b1 b2]; unfold dnode_eqb; simpl. rewrite andb_true_iff, name_eqb_eq, Nat.eqb_eq.
  split; [intros [-> ->]; auto | intros H; inversion H; auto].
Qed.
Lemma dedge_eqb_eq : forall a b, dedge_eqb a b = true <-> a = b.
Proof.
  intros [[a1 a2] a3] [[b1 b2] b3]; unfold dedge_eqb; simpl.
  rewrite !andb_true_iff, name_eqb_eq, elabel_eqb_eq, (list_eqb_eq name_eqb name_eqb_eq).
  split; [intros [[-> ->] ->]; auto | intros H; inversion H; auto].
Qed.

Lemma node_eqb_refl : forall a, node_eqb a a = true.
Proof. intros; apply node_eqb_eq; auto. Qed.
Lemma edge_eqb_refl : forall a, edge_eqb a a = true.
Proof. intros; apply edge_eqb_eq; auto. Qed.

(** * Association lists *)
Section AssocFacts.
  Context {K V : Type} (eqb : K -> K -> bool) (eqb_eq : forall a b, eqb a b = true <-> a = b).
  Notation get := (aget eqb). Notation set := (aset eqb).

  Lemma aget_app : forall (m1 m2 : list (K * V)) k,
    get (m1 ++ m2) k = match get m1 k with Some v => Some v | None => get m2 k end.
  Proof. induction m1 as [|[a b] m1]; simpl; intros; auto. destruct (eqb a k); auto. Qed.

  Lemma aget_None : forall (m : list (K * V)) k, get m k = None <-> ~ In k (map fst m).
  Proof.
    induction m as [|[a b] m]; simpl; intros.
    - tauto.
    - destruct (eqb a k) eqn:E.
      + apply eqb_eq in E. split; [congruence | intros H; exfalso; apply H; auto].
      + apply (eqb_false_gen eqb eqb_eq) in E. rewrite IHm. tauto.
  Qed.

  Lemma aget_Some_In : forall (m : list (K * V)) k v, get m k = Some v -> In (k, v) m.
  Proof.
    induction m as [|[a b] m]; simpl; intros; try congruence.
    destruct (eqb a k) eqn:E.
    - apply eqb_eq in E. inversion H; subst; auto.
    - right; auto.
  Qed.

  Lemma aget_In_key : forall (m : list (K * V)) k, In k (map fst m) -> exists v, get m k = Some v.
  Proof.
    intros. destruct (get m k) eqn:E; eauto. apply aget_None in E. tauto.
  Qed.

  Lemma In_aget_nodup : forall (m : list (K * V)) k v,
    NoDup (map fst m) -> In (k, v) m -> get m k = Some v.
  Proof.
    induction m as [|[a b] m]; simpl; intros; try tauto.
    inversion H; subst. destruct H0.
    - inversion H0; subst. rewrite (eqb_refl_gen eqb eqb_eq). auto.
    - destruct (eqb a k) eqn:E.
      + apply eqb_eq in E; subst. exfalso. apply H3. apply in_map_iff. exists (k, v); auto.
      + auto.
  Qed.

  Lemma aset_none : forall (m : list (K * V)) k v, get m k = None -> set m k v = m ++ [(k, v)].
  Proof.
    induction m as [|[a b] m]; simpl; intros; auto.
    destruct (eqb a k); try congruence. rewrite IHm; auto.
  Qed.

  Lemma aget_aset_same : forall (m : list (K * V)) k v, get (set m k v) k = Some v.
  Proof.
    induction m as [|[a b] m]; simpl; intros.
    - rewrite (eqb_refl_gen eqb eqb_eq); auto.
    - destruct (eqb a k) eqn:E; simpl; rewrite E; auto.
  Qed.

  Lemma aget_aset_other : forall (m : list (K * V)) k k' v, k <> k' -> get (set m k v) k' = get m k'.
  Proof.
    induction m as [|[a b] m]; simpl; intros.
    - destruct (eqb k k') eqn:E; auto. apply eqb_eq in E. congruence.
    - destruct (eqb a k) eqn:E; simpl.
      + apply eqb_eq in E; subst. destruct (eqb k k') eqn:E2; auto. apply eqb_eq in E2; congruence.
      + destruct (eqb a k'); auto.
  Qed.

  Lemma aset_keys : forall (m : list (K * V)) k v,
    map fst (set m k v) = if amem eqb m k then map fst m else map fst m ++ [k].
  Proof.
    unfold amem. induction m as [|[a b] m]; simpl; intros; auto.
    destruct (eqb a k) eqn:E; simpl; auto.
    rewrite IHm. destruct (get m k); auto.
  Qed.

  Lemma amem_In : forall (m : list (K * V)) k, amem eqb m k = true <-> In k (map fst m).
  Proof.
    unfold amem; intros. destruct (get m k) eqn:E.
    - split; auto. intros _. apply aget_Some_In in E. apply in_map_iff. exists (k, v); auto.
    - apply aget_None in E. split; [congruence | tauto].
  Qed.

  Lemma aget_map_val : forall {W} (f : V -> W) (m : list (K * V)) k,
    aget eqb (map (fun kv => (fst kv, f (snd kv))) m) k = option_map f (get m k).
  Proof.
    induction m as [|[a b] m]; simpl; intros; auto. destruct (eqb a k); auto.
  Qed.

  Lemma aset_map_val : forall {W} (f : V -> W) (m : list (K * V)) k v,
    aset eqb (map (fun kv => (fst kv, f (snd kv))) m) k (f v) = map (fun kv => (fst kv, f (snd kv))) (set m k v).
  Proof.
    induction m as [|[a b] m]; simpl; intros; auto.
    destruct (eqb a k); simpl; auto. rewrite IHm; auto.
  Qed.
End AssocFacts.

(** * Misc list facts *)
Lemma omap_Some_map : forall {A B} (f : A -> option B) (g : A -> B) l,
  (forall x, In x l -> f x = Some (g x)) -> omap f l = Some (map g l).
Proof.
  induction l; simpl; intros; auto.
  rewrite H by auto. rewrite IHl by auto. reflexivity.
Qed.

Lemma omap_Some_inv : forall {A B} (f : A -> option B) l ys,
  omap f l = Some ys -> length ys = length l /\ forall x, In x l -> exists y, f x = Some y /\ In y ys.
Proof.
  induction l; simpl; intros.
  - inversion H; subst; split; auto. intros x [].
  - destruct (f a) eqn:E; try congruence. destruct (omap f l) eqn:E2; try congruence.
    inversion H; subst. destruct (IHl l0 eq_refl) as [HL HI]. split; simpl; auto.
    intros x [->|Hx]; eauto. destruct (HI x Hx) as [y [? ?]]; eauto.
Qed.

Lemma map_nodes_omap : forall nm ns, map_nodes nm ns = omap (aget node_eqb nm) ns.
Proof. induction ns; simpl; auto. destruct (aget node_eqb nm a); auto. rewrite IHns; auto. Qed.

Lemma filter_app_comm_map : forall {A B} (f : A -> B) (p : B -> bool) l,
  filter p (map f l) = map f (filter (fun x => p (f x)) l).
Proof. induction l; simpl; auto. destruct (p (f a)); simpl; rewrite IHl; auto. Qed.

Lemma forallb_forall' : forall {A} (p : A -> bool) l, forallb p l = true <-> Forall (fun x => p x = true) l.
Proof. intros; rewrite forallb_forall, Forall_forall; tauto. Qed.

Lemma NoDup_map_inj_in : forall {A B} (f : A -> B) l,
  NoDup (map f l) -> forall x y, In x l -> In y l -> f x = f y -> x = y.
Proof.
  induction l; simpl; intros; try tauto. inversion H; subst.
  destruct H0, H1; subst; auto.
  - exfalso; apply H5. rewrite H2. apply in_map; auto.
  - exfalso; apply H5. rewrite <- H2. apply in_map; auto.
Qed.

Lemma NoDup_map_NoDup : forall {A B} (f : A -> B) l, NoDup (map f l) -> NoDup l.
Proof.
  induction l; simpl; intros; constructor; inversion H; subst; auto.
  intro; apply H2; apply in_map; auto.
Qed.

(** * Counting permutations *)
Section PermEqb.
  Context {A : Type} (eqb : A -> A -> bool) (eqb_eq : forall a b, eqb a b = true <-> a = b).

  Lemma count_by_cons : forall x y l, count_by eqb x (y :: l) = (if eqb x y then 1 else 0) + count_by eqb x l.
  Proof. unfold count_by; simpl; intros. destruct (eqb x y); auto. Qed.

  Lemma count_by_zero : forall x l, count_by eqb x l = 0 <-> ~ In x l.
  Proof.
    induction l; intros.
    - unfold count_by; simpl; tauto.
    - rewrite count_by_cons. simpl. destruct (eqb x a) eqn:E.
      + apply eqb_eq in E; subst. split; [discriminate | intros H; exfalso; apply H; auto].
      + apply (eqb_false_gen eqb eqb_eq) in E. simpl. rewrite IHl. split; intros H; [intros [?|?]; [congruence|tauto] | tauto].
  Qed.

  Fixpoint remove1 (x : A) (l : list A) : list A :=
    match l with [] => [] | y :: l => if eqb x y then l else y :: remove1 x l end.

  Lemma remove1_perm : forall x l, In x l -> Permutation l (x :: remove1 x l).
  Proof.
    induction l; simpl; intros; try tauto.
    destruct (eqb x a) eqn:E.
    - apply eqb_eq in E; subst; auto.
    - destruct H; [subst; rewrite (eqb_refl_gen eqb eqb_eq) in E; discriminate|].
      rewrite perm_swap. constructor. auto.
  Qed.

  Lemma count_remove1 : forall x y l, In x l ->
    count_by eqb y l = (if eqb y x then 1 else 0) + count_by eqb y (remove1 x l).
  Proof.
    induction l; simpl; intros; try tauto.
    destruct (eqb x a) eqn:E.
    - apply eqb_eq in E; subst. apply count_by_cons.
    - destruct H; [subst; rewrite (eqb_refl_gen eqb eqb_eq) in E; discriminate|].
      rewrite !count_by_cons, IHl by auto. lia.
  Qed.

  Lemma perm_eqb_sound : forall l1 l2, perm_eqb eqb l1 l2 = true -> Permutation l1 l2.
  Proof.
    unfold perm_eqb. induction l1; intros l2 H; apply andb_true_iff in H; destruct H as [HL HC].
    - destruct l2; simpl in HL; try discriminate. auto.
    - apply Nat.eqb_eq in HL. simpl in HC. apply andb_true_iff in HC. destruct HC as [Ha HC].
      apply Nat.eqb_eq in Ha. rewrite count_by_cons, (eqb_refl_gen eqb eqb_eq) in Ha.
      assert (Hin : In a l2).
      { destruct (in_dec (fun x y => match bool_dec (eqb x y) true with
                                     | left e => left (proj1 (eqb_eq x y) e)
                                     | right n => right (fun h => n (proj2 (eqb_eq x y) h)) end) a l2); auto.
        apply count_by_zero in n. lia. }
      rewrite (remove1_perm a l2 Hin). constructor. apply IHl1.
      apply andb_true_iff; split.
      + apply Nat.eqb_eq. pose proof (Permutation_length (remove1_perm a l2 Hin)). simpl in *. lia.
      + apply forallb_forall. intros x Hx. rewrite forallb_forall in HC. specialize (HC x Hx).
        apply Nat.eqb_eq in HC. apply Nat.eqb_eq. rewrite count_by_cons in HC.
        rewrite (count_remove1 a x l2 Hin) in HC. lia.
  Qed.
End PermEqb.
