(** C03: reverse accumulation over the components of a non-recursive grammar (what autograd
    does with the one-step backward passes) computes the same number as forward accumulation
    (the dual-number derivative):  for every direction T satisfying the tangent equations
    T_X = dF_X(e) . T  the pairing  sum_l <gbar_l, T_l>  over the labels not yet processed is
    invariant under [back_step]. *)
From Coq Require Import List Arith Bool PeanoNat Lia Permutation Ring Ring_theory.
Import ListNotations.
Require Import Fggs.Model.Semiring Fggs.Model.SCC Fggs.Model.SumProduct Fggs.Model.SumProductCheck Fggs.Model.Dual.
Require Import Fggs.Proofs.SCC_ntgraph Fggs.Proofs.BigSum Fggs.Proofs.SP_trees Fggs.Proofs.SP_nonrec
               Fggs.Proofs.SP_code Fggs.Proofs.SP_rename Fggs.Proofs.SP_spe Fggs.Proofs.SP_driver
               Fggs.Proofs.SP_main Fggs.Proofs.Dual_ring Fggs.Proofs.Dual_leibniz Fggs.Proofs.Dual_J
               Fggs.Proofs.Dual_vjp.

(** [p] lists nonterminals, each BEFORE all the nonterminals its rules use (reverse dependency order) *)
Fixpoint rdep (G : grammar) (p : list nat) : Prop :=
  match p with
  | [] => True
  | X :: rest =>
    (forall r ed, In r (rules_of G X) -> In ed (r_edges r) -> is_term G (fst ed) = false -> In (fst ed) rest)
    /\ rdep G rest
  end.

Section DualBack.
Context {R : Type} (o : sr_ops R).
Hypothesis Hr : sr_ring o.
Add Ring RingD8 : (sr_is_srt o Hr).
Variable G : grammar.
Hypothesis Hwf : wf_grammar G = true.

Local Notation L := (length (g_labels G)).

(** ** linearity of the Leibniz sum in the direction *)
Lemma leib_sumS {A B} (l : list A) (p : A -> R) (Js : list B) (c : B -> R) (d : B -> A -> R) :
  leib o l p (fun x => sumS o Js (fun j => mul o (c j) (d j x)))
  = sumS o Js (fun j => mul o (c j) (leib o l p (d j))).
Proof.
  induction Js as [|j Js IH].
  - transitivity (zero o); [apply (leib_zero o Hr); intros x _; reflexivity|reflexivity].
  - rewrite sumS_cons, <- IH, <- (leib_scale o Hr), <- (leib_add o Hr).
    apply (leib_ext o); intros x _; reflexivity.
Qed.

Lemma dstep_sumS {B} (e : env (R:=R)) (Js : list B) (c : B -> R) (d : B -> env (R:=R)) X xi :
  dstep o G e (fun l i => sumS o Js (fun j => mul o (c j) (d j l i))) X xi
  = sumS o Js (fun j => mul o (c j) (dstep o G e (d j) X xi)).
Proof.
  unfold dstep, drule.
  rewrite (sumS_ext o Js _ (fun j => sumS o (rules_of G X) (fun r => sumS o (rule_assts G r xi)
             (fun a => mul o (c j) (leib o (r_edges r) (fun ed => e (fst ed) (sel a (snd ed)))
                                         (fun ed => d j (fst ed) (sel a (snd ed)))))))).
  - rewrite (sumS_exchange o Hr). apply sumS_ext. intros r _.
    rewrite (sumS_exchange o Hr). apply sumS_ext. intros a _.
    exact (leib_sumS (r_edges r) (fun ed => e (fst ed) (sel a (snd ed))) Js c
                     (fun j ed => d j (fst ed) (sel a (snd ed)))).
  - intros j _. rewrite (sumS_mul_l o Hr). apply sumS_ext. intros r _. apply (sumS_mul_l o Hr).
Qed.

(** ** the pairing of cotangents with tangents over a list of labels *)
Definition pairing (g T : env (R:=R)) (S : list nat) : R :=
  sumS o S (fun l => sumS o (all_assts (lshape G l)) (fun yi => mul o (g l yi) (T l yi))).

Lemma pairing_app g T S1 S2 : pairing g T (S1 ++ S2) = add o (pairing g T S1) (pairing g T S2).
Proof. unfold pairing. apply (sumS_app o Hr). Qed.
Lemma pairing_cons g T X S : pairing g T (X :: S)
  = add o (sumS o (all_assts (lshape G X)) (fun yi => mul o (g X yi) (T X yi))) (pairing g T S).
Proof. reflexivity. Qed.
Lemma pairing_ext g g' T S :
  (forall l yi, In l S -> In yi (all_assts (lshape G l)) -> g l yi = g' l yi) -> pairing g T S = pairing g' T S.
Proof.
  intros H. unfold pairing. apply sumS_ext. intros l Hl. apply sumS_ext. intros yi Hyi. now rewrite (H l yi).
Qed.
Lemma pairing_add g h T S :
  pairing (fun l yi => add o (g l yi) (h l yi)) T S = add o (pairing g T S) (pairing h T S).
Proof.
  unfold pairing. rewrite <- (sumS_add o Hr). apply sumS_ext. intros l _.
  rewrite <- (sumS_add o Hr). apply sumS_ext. intros yi _. ring.
Qed.

(** ** one backward step on tables *)
Lemma env_of_back_step (all gbar : tmt (R:=R)) X l yi :
  l < L -> In yi (all_assts (lshape G l)) ->
  env_of o (back_step o G all gbar X) l yi
  = add o (env_of o gbar l yi) (J_vjp o G (onestep_J o G all X) (env_of o gbar) l yi).
Proof.
  intros Hl Hyi. unfold back_step. rewrite (env_of_tget o).
  rewrite (tget_map_In (fun l => tabulate (lshape G l)
             (fun yi => add o (env_of o gbar l yi) (J_vjp o G (onestep_J o G all X) (env_of o gbar) l yi)))).
  - now rewrite (tab_get_tabulate o).
  - apply in_seq. lia.
Qed.

(** the unit directions recompose any direction on the labels of a duplicate-free list *)
Lemma recompose (S : list nat) (T : env (R:=R)) l i :
  NoDup S -> In l S -> In i (all_assts (lshape G l)) ->
  sumS o S (fun l' => sumS o (all_assts (lshape G l')) (fun yi => mul o (T l' yi) (delta_env o l' yi l i))) = T l i.
Proof.
  intros Hnd Hl Hi.
  rewrite (sumS_ext o S _ (fun l' => if Nat.eqb l' l then T l' i else zero o)).
  - exact (sumS_pick o Hr Nat.eqb S l (fun l' => T l' i) Nat.eqb_eq Hnd Hl).
  - intros l' _. destruct (Nat.eqb l' l) eqn:E.
    + apply Nat.eqb_eq in E. subst l'.
      rewrite (sumS_ext o _ _ (fun yi => if nat_list_eqb yi i then T l yi else zero o)).
      * exact (sumS_pick o Hr nat_list_eqb _ i (fun yi => T l yi) nat_list_eqb_iff (NoDup_all_assts _) Hi).
      * intros yi _. unfold delta_env. rewrite Nat.eqb_refl. cbn [andb].
        destruct (nat_list_eqb yi i) eqn:E2.
        -- apply nat_list_eqb_iff in E2. subst yi. rewrite (proj2 (nat_list_eqb_iff i i) eq_refl). ring.
        -- destruct (nat_list_eqb i yi) eqn:E3; [|ring]. apply nat_list_eqb_iff in E3. subst yi.
           rewrite (proj2 (nat_list_eqb_iff i i) eq_refl) in E2. discriminate.
    + apply (sumS_all_zero o Hr). intros yi _. unfold delta_env.
      rewrite Nat.eqb_sym, E. cbn [andb]. ring.
Qed.

Variable all : tmt (R:=R).
Variable T : env (R:=R).

(** ** the key step: what processing X adds to the pairing over the remaining labels *)
Lemma vjp_pairing (gbar : tmt (R:=R)) X (S' : list nat) :
  NoDup S' -> ~ In X S' ->
  (forall r ed, In r (rules_of G X) -> In ed (r_edges r) -> In (fst ed) S') ->
  pairing (J_vjp o G (onestep_J o G all X) (env_of o gbar)) T S'
  = sumS o (all_assts (lshape G X))
         (fun xi => mul o (env_of o gbar X xi) (dstep o G (env_of o all) T X xi)).
Proof.
  intros Hnd HX Hedges.
  assert (Hone : forall r ed, In r (rules_of G X) -> In ed (r_edges r) -> fst ed <> X).
  { intros r ed Hrin Hed E. apply HX. rewrite <- E. now apply (Hedges r). }
  unfold pairing.
  rewrite (sumS_ext o S' _ (fun l => sumS o (all_assts (lshape G l)) (fun yi =>
             sumS o (all_assts (lshape G X)) (fun xi =>
               mul o (env_of o gbar X xi) (mul o (T l yi) (dstep o G (env_of o all) (delta_env o l yi) X xi)))))).
  - rewrite (sumS_ext o S' _ (fun l => sumS o (all_assts (lshape G X)) (fun xi =>
               sumS o (all_assts (lshape G l)) (fun yi =>
                 mul o (env_of o gbar X xi) (mul o (T l yi) (dstep o G (env_of o all) (delta_env o l yi) X xi))))))
      by (intros l _; apply (sumS_exchange o Hr)).
    rewrite (sumS_exchange o Hr). apply sumS_ext. intros xi Hxi.
    rewrite (sumS_ext o S' _ (fun l => mul o (env_of o gbar X xi)
               (sumS o (all_assts (lshape G l)) (fun yi => mul o (T l yi) (dstep o G (env_of o all) (delta_env o l yi) X xi)))))
      by (intros l _; symmetry; apply (sumS_mul_l o Hr)).
    rewrite <- (sumS_mul_l o Hr). f_equal.
    (* linearity: sum over the unit directions, weighted by T *)
    set (units := flat_map (fun l => map (fun yi => (l, yi)) (all_assts (lshape G l))) S').
    transitivity (sumS o units (fun u => mul o (T (fst u) (snd u)) (dstep o G (env_of o all) (delta_env o (fst u) (snd u)) X xi))).
    { unfold units. rewrite (sumS_flat_map o Hr). apply sumS_ext. intros l _. now rewrite sumS_map. }
    rewrite <- (dstep_sumS (env_of o all) units (fun u => T (fst u) (snd u)) (fun u => delta_env o (fst u) (snd u))).
    apply (dstep_ext o G). intros r ed a Hrin Hed Ha. split; trivial.
    unfold units. rewrite (sumS_flat_map o Hr).
    rewrite (sumS_ext o S' _ (fun l' => sumS o (all_assts (lshape G l'))
               (fun yi => mul o (T l' yi) (delta_env o l' yi (fst ed) (sel a (snd ed))))))
      by (intros l' _; now rewrite sumS_map).
    apply recompose; trivial; [now apply (Hedges r)|].
    exact (edge_arg_in_range G r ed a (rules_of_wf G Hwf X r Hrin) Hed Ha).
  - intros l Hl. apply sumS_ext. intros yi Hyi.
    assert (Hne : l <> X) by (intros ->; contradiction).
    fold (backward_onestep o G all X (env_of o gbar) l yi).
    rewrite (vjp_onestep o Hr G Hwf all X (env_of o gbar) l yi Hone Hne Hyi).
    rewrite (sumS_mul_r o Hr). apply sumS_ext. intros xi _. ring.
Qed.

(** ** reverse accumulation preserves the pairing *)
Hypothesis HT : forall X xi, is_term G X = false -> In xi (all_assts (lshape G X)) ->
  T X xi = dstep o G (env_of o all) T X xi.

Lemma back_fold (terms : list nat) : forall p gbar,
  NoDup (terms ++ p) -> (forall l, In l (terms ++ p) -> l < L) ->
  (forall l, In l terms -> is_term G l = true) -> (forall X, In X p -> is_term G X = false) ->
  (forall l, l < L -> is_term G l = true -> In l terms) ->
  rdep G p ->
  pairing (env_of o (fold_left (back_step o G all) p gbar)) T terms
  = pairing (env_of o gbar) T (terms ++ p).
Proof.
  induction p as [|X rest IH]; intros gbar Hnd HL Hterm Hnt Hall Hrd.
  - cbn [fold_left]. now rewrite app_nil_r.
  - cbn [fold_left]. cbn [rdep] in Hrd. destruct Hrd as [HdX Hrd].
    assert (Hnd' : NoDup (terms ++ rest)) by (apply NoDup_remove_1 in Hnd; exact Hnd).
    assert (HXn : ~ In X (terms ++ rest)) by (apply NoDup_remove_2 in Hnd; exact Hnd).
    rewrite IH; trivial.
    2:{ intros l Hl. apply HL. apply in_app_iff in Hl. apply in_app_iff. destruct Hl; [now left|right; now right]. }
    2:{ intros Y HY. apply Hnt. now right. }
    (* the new cotangents on the remaining labels *)
    rewrite (pairing_ext _ (fun l yi => add o (env_of o gbar l yi) (J_vjp o G (onestep_J o G all X) (env_of o gbar) l yi))).
    2:{ intros l yi Hl Hyi. apply env_of_back_step; trivial. apply HL.
        apply in_app_iff in Hl. apply in_app_iff. destruct Hl; [now left|right; now right]. }
    rewrite pairing_add, vjp_pairing; trivial.
    + rewrite !pairing_app, pairing_cons.
      rewrite (sumS_ext o (all_assts (lshape G X)) (fun yi => mul o (env_of o gbar X yi) (T X yi))
                        (fun xi => mul o (env_of o gbar X xi) (dstep o G (env_of o all) T X xi))).
      * ring.
      * intros xi Hxi. f_equal. apply HT; trivial. apply Hnt. now left.
    + intros r ed Hrin Hed. apply in_app_iff. destruct (is_term G (fst ed)) eqn:Ht.
      * left. apply Hall; trivial.
        destruct (Nat.lt_ge_cases (fst ed) L) as [Hlt|Hge]; trivial.
        pose proof (rules_of_wf G Hwf X r Hrin) as Hw. unfold wf_rule in Hw.
        rewrite !andb_true_iff in Hw. destruct Hw as (((((_ & _) & _) & Hw) & _) & _).
        rewrite forallb_forall in Hw. specialize (Hw ed Hed). rewrite !andb_true_iff in Hw.
        destruct Hw as ((Hw & _) & _). apply Nat.ltb_lt in Hw. exact Hw.
      * right. now apply (HdX r ed).
Qed.
End DualBack.
