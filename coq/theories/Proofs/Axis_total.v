(** [unify] on typed axes is total and silent: for [e, f] of the same (good) type in a context
    [G], under a well-typed acyclic substitution, [unify] with enough fuel returns [Ok] without
    setting the warning flag, and the substitution it returns is again well typed and acyclic in
    an extension of [G] that types the fresh variables.

    Proof plan (DESIGN.md Appendix C): induction on the weight [tws ps] of the common type.
    - the right-to-left sweep keeps "both remaining factor lists have the same type"; the two
      factors popped have types [pe], [pf] that are suffixes of that type, so one is a suffix of
      the other, [pf = g ++ pe]; all primes have size >= 2, hence equal sizes force [g = []] and
      different sizes force divisibility, [n / m = tsizes g], and the larger factor is a physical
      axis (it spans >= 2 primes), which is what gets split: the fresh axis has type [g];
    - Sum against Sum: same injection = recursive call at the summand's type; different
      injections = the clean failure (no overlap, no warning);
    - Product against Sum cannot be typed alike; the leftover loop only ever sees two empty lists.
    Fuel: [3 * tws ps + 2] suffices for [unify] ([unify] costs 1, each round of the sweep 1). *)
From Coq Require Import List Arith Lia PeanoNat Bool PArith.
Import ListNotations.
Require Import Fggs.Model.Axis Fggs.Proofs.Axis_sem Fggs.Proofs.Axis_unify Fggs.Proofs.Axis_complete_gen Fggs.Proofs.Axis_typed.

Record tstate (G : ctx) (st : ustate) : Prop := {
  ts_good : ctx_good G;
  ts_below : ctx_below G (us_next st);
  ts_wts : wts G (us_subst st) }.

Definition tres (G : ctx) (st : ustate) (r : res (bool * ustate)) : Prop :=
  exists b st' G', r = Ok (b, st') /\ us_warn st' = us_warn st /\ (us_next st <= us_next st')%positive /\
                   ctx_ext (us_next st) G G' /\ tstate G' st'.

Lemma tres_refl G st b : tstate G st -> tres G st (Ok (b, st)).
Proof. intros T. exists b, st, G. split; [reflexivity|]. split; [reflexivity|]. split; [lia|]. split; [apply ctx_ext_refl|exact T]. Qed.

(** a call from a later state (same warning flag, larger counter, extended context) *)
Lemma tres_from G st G1 st1 r :
  us_warn st1 = us_warn st -> (us_next st <= us_next st1)%positive -> ctx_ext (us_next st) G G1 ->
  tres G1 st1 r -> tres G st r.
Proof.
  intros W L X (b & st' & G' & -> & W' & L' & X' & T'). exists b, st', G'.
  split; [reflexivity|]. split; [congruence|]. split; [lia|]. split; [|exact T'].
  eapply ctx_ext_trans; eauto.
Qed.

(** sequencing: [r <- first ;; if fst r then second (snd r) else Ok (false, snd r)] *)
Lemma tres_seq G st first (second : ustate -> res (bool * ustate)) :
  tres G st first ->
  (forall G1 st1, us_warn st1 = us_warn st -> (us_next st <= us_next st1)%positive -> ctx_ext (us_next st) G G1 ->
                  tstate G1 st1 -> tres G1 st1 (second st1)) ->
  tres G st (r <- first ;; if fst r then second (snd r) else Ok (false, snd r)).
Proof.
  intros (b1 & st1 & G1 & -> & W1 & L1 & X1 & T1) H2. cbn [bind fst snd]. destruct b1.
  - eapply tres_from; eauto.
  - exists false, st1, G1. auto.
Qed.

Definition U_lt (fuel n : nat) : Prop :=
  forall G e f q st, tws q < n -> gprimes q -> tstate G st -> ty G e q -> ty G f q -> tres G st (unify fuel e f st).
Definition L_lt (fuel n : nat) : Prop :=
  forall G esr fsr ps st, tws ps < n -> gprimes ps -> tstate G st -> tyl G (rev esr) ps -> tyl G (rev fsr) ps ->
    tres G st (unify_loop fuel esr fsr st).
(** the sweep when neither side has exactly one factor *)
Definition L2_lt (fuel n : nat) : Prop :=
  forall G esr fsr ps st, tws ps < n -> gprimes ps -> tstate G st -> tyl G (rev esr) ps -> tyl G (rev fsr) ps ->
    length esr <> 1 -> length fsr <> 1 -> tres G st (unify_loop fuel esr fsr st).

Lemma ty_phys' G k n ps : G k = ps -> ps <> [] -> n = tsizes ps -> ty G (Phys k n) ps.
Proof. intros <- N ->. constructor; auto. Qed.

Lemma productAxis_pair k n e : is_prod e = false -> productAxis [Phys k n; e] = Prod [Phys k n; e].
Proof. intros N. destruct e; [reflexivity|discriminate|reflexivity]. Qed.

Lemma tyl_nonempty G l ps : tyl G l ps -> l <> [] -> ps <> [].
Proof. intros H N E. subst. apply tyl_nil_type in H. contradiction. Qed.

Lemma tstate_fresh G st g :
  tstate G st -> gprimes g ->
  tstate (upd_ctx G (us_next st) g) {| us_subst := us_subst st; us_next := Pos.succ (us_next st); us_warn := us_warn st |}.
Proof.
  intros [CG CB W] Hg. split; simpl.
  - apply upd_ctx_good; assumption.
  - apply upd_ctx_below. exact CB.
  - eapply wts_ext; [exact CB|apply upd_ctx_ext|exact W].
Qed.

(** one splitting round: [big : g ++ psm] is split against [small : psm] *)
Lemma split_total fuel n wU : U_lt fuel wU -> L_lt fuel n ->
  forall G (big small : axis) (resb ress : list axis) p0 g psm st (swap : bool),
    tws (p0 ++ g ++ psm) <= n -> tws (g ++ psm) < wU -> gprimes (p0 ++ g ++ psm) -> g <> [] -> tstate G st ->
    ty G big (g ++ psm) -> ty G small psm -> is_prod small = false ->
    tyl G (rev resb) p0 -> tyl G (rev ress) (p0 ++ g) ->
    let k := Phys (us_next st) (numel big / numel small) in
    let st0 := {| us_subst := us_subst st; us_next := Pos.succ (us_next st); us_warn := us_warn st |} in
    numel small <> 0 /\ numel big mod numel small = 0 /\ numel small < numel big /\
    tres G st (r <- unify fuel big (productAxis [k; small]) st0 ;;
               if fst r then (if swap then unify_loop fuel (k :: resb) ress (snd r) else unify_loop fuel ress (k :: resb) (snd r))
               else Ok (false, snd r)).
Proof.
  intros HU HL G big small resb ress p0 g psm st swap Wn Wu Gp Ng T Tb Ts Nps Trb Trs k st0.
  apply gprimes_app in Gp. destruct Gp as [Gp0 Gp1]. pose proof Gp1 as Gp1'. apply gprimes_app in Gp1. destruct Gp1 as [Gg Gm].
  assert (Nb : numel big = tsizes g * numel small).
  { rewrite (ty_numel _ _ _ Tb), (ty_numel _ _ _ Ts), tsizes_app. reflexivity. }
  assert (Pm : 1 <= numel small) by (rewrite (ty_numel _ _ _ Ts); apply gprimes_pos; exact Gm).
  assert (Pg : 2 <= tsizes g) by (apply gprimes_big; assumption).
  split; [lia|]. split; [rewrite Nb; apply Nat.mod_mul; lia|]. split; [nia|].
  assert (Ek : numel big / numel small = tsizes g) by (rewrite Nb; apply Nat.div_mul; lia).
  set (G0 := upd_ctx G (us_next st) g).
  assert (T0 : tstate G0 st0) by (apply tstate_fresh; assumption).
  assert (X0 : ctx_ext (us_next st) G G0) by apply upd_ctx_ext.
  assert (Tk : ty G0 k g).
  { apply ty_phys'; [apply upd_ctx_same|exact Ng|exact Ek]. }
  assert (CB : ctx_below G (us_next st)) by apply (ts_below _ _ T).
  apply tres_from with (G1 := G0) (st1 := st0); [reflexivity|simpl; lia|exact X0|].
  apply (tres_seq G0 st0 (unify fuel big (productAxis [k; small]) st0)
           (fun s => if swap then unify_loop fuel (k :: resb) ress s else unify_loop fuel ress (k :: resb) s)).
  - apply (HU G0 big (productAxis [k; small]) (g ++ psm) st0); trivial.
    + eapply ty_ext; eauto.
    + unfold k. rewrite productAxis_pair by exact Nps. constructor; [simpl; lia|].
      constructor; [reflexivity|exact Tk|]. apply tyl_single; [exact Nps|]. eapply ty_ext; eauto.
  - intros G1 st1 W1 L1 X1 T1. cbv beta.
    assert (X01 : ctx_ext (us_next st) G G1).
    { eapply ctx_ext_trans; [|exact X0|exact X1]. simpl. lia. }
    assert (Tk1 : tyl G1 (rev (k :: resb)) (p0 ++ g)).
    { cbn [rev]. apply tyl_app; [eapply tyl_ext; [exact CB|exact X01|exact Trb]|].
      apply tyl_single; [reflexivity|]. eapply ty_ext; [apply (ts_below _ _ T0)|exact X1|exact Tk]. }
    assert (Ts1 : tyl G1 (rev ress) (p0 ++ g)) by (eapply tyl_ext; [exact CB|exact X01|exact Trs]).
    assert (Wr : tws (p0 ++ g) < S n).
    { rewrite !tws_app in Wn. rewrite tws_app. lia. }
    assert (Wr' : tws (p0 ++ g) < n).
    { rewrite !tws_app in Wn. rewrite tws_app.
      assert (1 <= tws psm); [|lia]. apply tws_pos. eapply ty_factor_nonempty; eauto. }
    assert (Gr : gprimes (p0 ++ g)) by (apply gprimes_app; split; assumption).
    destruct swap.
    + apply (HL G1 (k :: resb) ress (p0 ++ g) st1); assumption.
    + apply (HL G1 ress (k :: resb) (p0 ++ g) st1); assumption.
Qed.

(** * one round of the sweep *)
Lemma loop_body fuel n wU : U_lt fuel wU -> L_lt fuel n ->
  forall G esr fsr ps st, tws ps <= n -> gprimes ps -> tstate G st ->
    tyl G (rev esr) ps -> tyl G (rev fsr) ps ->
    (n < wU \/ (n <= wU /\ length esr <> 1 /\ length fsr <> 1)) ->
    tres G st (unify_loop (S fuel) esr fsr st).
Proof.
  intros HU HL G esr fsr ps st Wn Gp T Te Tf SC. cbn [unify_loop].
  destruct esr as [|e9 esr'].
  { (* both empty *)
    simpl in Te. apply tyl_nil_inv in Te. subst ps. apply tyl_nil_type in Tf.
    assert (fsr = []) as -> by (destruct fsr; [reflexivity|simpl in Tf; destruct (rev fsr); discriminate]).
    simpl. apply tres_refl. exact T. }
  destruct fsr as [|f9 fsr'].
  { simpl in Tf. apply tyl_nil_inv in Tf. subst ps. apply tyl_nil_type in Te. simpl in Te. destruct (rev esr'); discriminate. }
  cbn [rev] in Te, Tf.
  apply tyl_snoc_inv in Te. destruct Te as (p0e & pe & Ee & Te0 & Te9 & Ne9).
  apply tyl_snoc_inv in Tf. destruct Tf as (p0f & pf & Ef & Tf0 & Tf9 & Nf9).
  assert (Npe : pe <> []) by (eapply ty_factor_nonempty; eauto).
  assert (Npf : pf <> []) by (eapply ty_factor_nonempty; eauto).
  assert (Me : numel e9 = tsizes pe) by (apply (ty_numel _ _ _ Te9)).
  assert (Mf : numel f9 = tsizes pf) by (apply (ty_numel _ _ _ Tf9)).
  assert (Gpe : gprimes (p0e ++ pe)) by (rewrite <- Ee; exact Gp).
  assert (Gpf : gprimes (p0f ++ pf)) by (rewrite <- Ef; exact Gp).
  (* weights of the two factor types *)
  assert (We : tws pe < wU /\ tws pf < wU).
  { assert (tws pe <= tws ps /\ tws pf <= tws ps) as [A1 A2].
    { split; [rewrite Ee|rewrite Ef]; rewrite tws_app; lia. }
    destruct SC as [SC|(SC & L1 & L2)]; [lia|].
    assert (p0e <> []).
    { eapply tyl_nonempty; [exact Te0|]. destruct esr'; [simpl in L1; congruence|]. simpl. destruct (rev esr'); discriminate. }
    assert (p0f <> []).
    { eapply tyl_nonempty; [exact Tf0|]. destruct fsr'; [simpl in L2; congruence|]. simpl. destruct (rev fsr'); discriminate. }
    pose proof (tws_pos p0e H). pose proof (tws_pos p0f H0).
    split; [rewrite Ee in Wn|rewrite Ef in Wn]; rewrite tws_app in Wn; lia. }
  destruct We as [We Wf].
  assert (CB : ctx_below G (us_next st)) by apply (ts_below _ _ T).
  pose proof (tws_pos pe Npe) as Wpe.
  assert (Ecmp : p0e ++ pe = p0f ++ pf) by congruence.
  apply gprimes_app in Gpe. destruct Gpe as [Gp0e Gpe]. apply gprimes_app in Gpf. destruct Gpf as [Gp0f Gpf].
  pose proof (gprimes_pos _ Gpe) as Ppe. pose proof (gprimes_pos _ Gpf) as Ppf.
  destruct (Nat.eqb_spec (numel e9) (numel f9)) as [Emn|Emn].
  - (* equal sizes: equal types *)
    assert (pf = pe /\ p0f = p0e) as [-> ->].
    { destruct (suffix_compare _ _ _ _ Ecmp) as [(g & -> & ->)|(g & -> & ->)].
      - assert (g = []) as ->; [|rewrite app_nil_r; split; reflexivity].
        apply gprimes_one; [apply gprimes_app in Gpf; tauto|]. rewrite Mf, tsizes_app in Emn. nia.
      - assert (g = []) as ->; [|rewrite app_nil_r; split; reflexivity].
        apply gprimes_one; [apply gprimes_app in Gpe; tauto|]. rewrite Me, tsizes_app in Emn. nia. }
    apply (tres_seq G st (unify fuel e9 f9 st) (fun s => unify_loop fuel esr' fsr' s)).
    + apply (HU G e9 f9 pe st); assumption.
    + intros G1 st1 W1 L1 X1 T1. apply (HL G1 esr' fsr' p0e st1); trivial.
      * rewrite Ee, tws_app in Wn. lia.
      * eapply tyl_ext; eauto.
      * eapply tyl_ext; eauto.
  - destruct (numel e9 <? numel f9) eqn:Elt.
    + (* m < n: pf = g ++ pe *)
      apply Nat.ltb_lt in Elt.
      assert (exists g, g <> [] /\ pf = g ++ pe /\ p0e = p0f ++ g) as (g & Ng & -> & ->).
      { destruct (suffix_compare _ _ _ _ Ecmp) as [(g & -> & ->)|(g & -> & ->)].
        - exists g. split; [|split; reflexivity]. intros ->. simpl in Mf. lia.
        - exfalso. rewrite Me, tsizes_app in Elt. apply gprimes_app in Gpe. destruct Gpe as [Gg _].
          pose proof (gprimes_pos _ Gg). rewrite Mf in Elt. nia. }
      destruct (split_total fuel n wU HU HL G f9 e9 fsr' esr' p0f g pe st false) as (Hm & Hmod & _ & R); trivial.
      { rewrite Ef in Wn. exact Wn. }
      { rewrite <- Ef. exact Gp. }
      destruct (Nat.eqb_spec (numel e9) 0) as [|_]; [contradiction|].
      rewrite Hmod. cbn [Nat.eqb negb]. unfold u_fresh. exact R.
    + (* m > n: pe = g ++ pf *)
      apply Nat.ltb_ge in Elt.
      assert (exists g, g <> [] /\ pe = g ++ pf /\ p0f = p0e ++ g) as (g & Ng & -> & ->).
      { destruct (suffix_compare _ _ _ _ Ecmp) as [(g & -> & ->)|(g & -> & ->)].
        - exfalso. rewrite Mf, tsizes_app in Elt, Emn. apply gprimes_app in Gpf. destruct Gpf as [Gg _].
          pose proof (gprimes_pos _ Gg). rewrite Me in Elt, Emn. nia.
        - exists g. split; [|split; reflexivity]. intros ->. simpl in Me. lia. }
      destruct (split_total fuel n wU HU HL G e9 f9 esr' fsr' p0e g pf st true) as (Hm & Hmod & _ & R); trivial.
      { rewrite Ee in Wn. exact Wn. }
      { rewrite <- Ee. exact Gp. }
      destruct (Nat.eqb_spec (numel f9) 0) as [|_]; [contradiction|].
      rewrite Hmod. cbn [Nat.eqb negb]. unfold u_fresh. exact R.
Qed.

(** * the body of [unify] *)
Lemma tres_bind G st k n T :
  tstate G st -> assoc k (us_subst st) = None -> ty G (Phys k n) (G k) -> ty G T (G k) ->
  unbound (us_subst st) T -> same_object (Phys k n) T = false ->
  tres G st (Ok (true, u_bind k T st)).
Proof.
  intros [CG CB W] A Tk TT U So. exists true, (u_bind k T st), G.
  split; [reflexivity|]. split; [reflexivity|]. split; [simpl; lia|]. split; [apply ctx_ext_refl|].
  split; [exact CG|exact CB|]. simpl. apply wts_bind; trivial.
  - apply ty_phys_inv in Tk. tauto.
  - intros j m ->. split; [|apply (U j m eq_refl)]. simpl in So. apply Pos.eqb_neq in So. congruence.
Qed.

Lemma tw_summand pre tj post : tws (tprimes tj) < tw (TSum (pre ++ tj :: post)).
Proof.
  pose proof (tws_tprimes tj). simpl. fold (tws (pre ++ tj :: post)). rewrite tws_app, tws_cons. lia.
Qed.

Lemma unify_body fuel n : L2_lt fuel (S n) -> U_lt fuel n -> U_lt (S fuel) (S n).
Proof.
  intros HL HU G e0 f0 ps st Wn Gp T Te0 Tf0. cbn [unify].
  destruct (lookup_typed G _ e0 ps (ts_wts _ _ T) Te0) as (e & -> & Te & Ue).
  destruct (lookup_typed G _ f0 ps (ts_wts _ _ T) Tf0) as (f & -> & Tf & Uf).
  cbn [bind]. clear Te0 Tf0 e0 f0.
  destruct (same_object e f) eqn:So; [apply tres_refl; exact T|].
  rewrite (ty_numel _ _ _ Te), (ty_numel _ _ _ Tf), Nat.eqb_refl.
  pose proof (ts_good _ _ T) as CG.
  destruct e as [k1 n1|l1|b1 t1 a1].
  - (* Phys, _ *)
    assert (E : match f with
                | Phys _ _ | Prod _ | Sum _ _ _ => Ok (true, u_bind k1 f st)
                end = Ok (true, u_bind k1 f st)) by (destruct f; reflexivity).
    assert (R : tres G st (Ok (true, u_bind k1 f st))).
    { pose proof Te as Te'. apply ty_phys_inv in Te'. destruct Te' as (-> & _).
      apply tres_bind with (n := n1); trivial. apply (Ue k1 n1 eq_refl). }
    destruct f; exact R.
  - destruct f as [k2 n2|l2|b2 t2 a2].
    + (* Prod, Phys *)
      assert (R : tres G st (Ok (true, u_bind k2 (Prod l1) st))).
      { pose proof Tf as Tf'. apply ty_phys_inv in Tf'. destruct Tf' as (-> & _).
        apply tres_bind with (n := n2); trivial. apply (Uf k2 n2 eq_refl). }
      destruct l1; exact R.
    + (* Prod, Prod *)
      rewrite (zero_pos _ (ty_pos _ _ _ CG Te Gp)).
      apply ty_prod_inv in Te. destruct Te as [L1 Te]. apply ty_prod_inv in Tf. destruct Tf as [L2 Tf].
      apply (HL G (rev l1) (rev l2) ps st); trivial; rewrite ?rev_involutive, ?rev_length; assumption.
    + (* Prod, Sum: impossible *)
      exfalso. apply ty_sum_inv in Tf. destruct Tf as (pre & tj & post & -> & _).
      apply ty_prod_inv in Te. destruct Te as [L1 Te]. pose proof (tyl_length _ _ _ Te) as LL. simpl in LL.
      destruct l1 as [|x [|y l1]]; simpl in *; try lia. apply tyl_nil_inv in Te. discriminate.
  - destruct f as [k2 n2|l2|b2 t2 a2].
    + (* Sum, Phys *)
      pose proof Tf as Tf'. apply ty_phys_inv in Tf'. destruct Tf' as (-> & _).
      apply tres_bind with (n := n2); trivial. apply (Uf k2 n2 eq_refl).
    + (* Sum, Prod: impossible *)
      exfalso. apply ty_sum_inv in Te. destruct Te as (pre & tj & post & -> & _).
      apply ty_prod_inv in Tf. destruct Tf as [L1 Tf]. pose proof (tyl_length _ _ _ Tf) as LL. simpl in LL.
      destruct l2 as [|x [|y l2]]; simpl in *; try lia. apply tyl_nil_inv in Tf. discriminate.
    + (* Sum, Sum *)
      apply ty_sum_inv in Te. destruct Te as (pre & tj & post & -> & -> & -> & Tt1).
      apply ty_sum_inv in Tf. destruct Tf as (pre' & tj' & post' & Eps & -> & -> & Tt2).
      inversion Eps as [Eps']. inversion Gp as [|? ? Gsum _]; subst.
      pose proof (gprime_summands_pos _ Gsum) as Pos1.
      rewrite (ty_numel _ _ _ Tt1), (ty_numel _ _ _ Tt2), !tsizes_tprimes.
      destruct (split_compare _ _ _ _ _ _ Eps') as [(<- & <- & <-)|[[mid ->]|[mid ->]]].
      * rewrite !Nat.eqb_refl. cbn [andb]. apply (HU G t1 t2 (tprimes tj) st); trivial.
        -- pose proof (tw_summand pre tj post). rewrite tws_cons in Wn. simpl tws in Wn. lia.
        -- apply tgood_primes. eapply gprime_summand; eauto.
      * assert (P : 1 <= tsize tj).
        { rewrite Forall_forall in Pos1. apply Pos1. apply in_or_app. right. left. reflexivity. }
        rewrite tsum_app, tsum_cons.
        destruct (Nat.eqb_spec (tsum pre) (tsum pre + (tsize tj + tsum mid))) as [|_]; [lia|]. cbn [andb].
        destruct (Nat.ltb_spec (tsum pre + (tsize tj + tsum mid)) (tsum pre + tsize tj)) as [|_]; [lia|]. cbn [andb].
        apply tres_refl. exact T.
      * assert (P : 1 <= tsize tj').
        { rewrite Forall_forall in Pos1. apply Pos1. rewrite Eps'. apply in_or_app. right. left. reflexivity. }
        rewrite tsum_app, tsum_cons.
        destruct (Nat.eqb_spec (tsum pre' + (tsize tj' + tsum mid)) (tsum pre')) as [|_]; [lia|]. cbn [andb].
        destruct (Nat.ltb_spec (tsum pre' + (tsize tj' + tsum mid)) (tsum pre' + tsize tj')) as [|_]; [lia|].
        rewrite andb_false_r. apply tres_refl. exact T.
Qed.

(** * the induction on the weight of the type *)
Lemma U_lt_mono fuel n m : m <= n -> U_lt fuel n -> U_lt fuel m.
Proof. intros L H G e f q st W. apply H. lia. Qed.
Lemma L_lt_mono fuel n m : m <= n -> L_lt fuel n -> L_lt fuel m.
Proof. intros L H G e f q st W. apply H. lia. Qed.

Theorem total_both : forall n,
  (forall fuel, 3 * n + 2 <= fuel -> U_lt fuel (S n)) /\ (forall fuel, 3 * n + 3 <= fuel -> L_lt fuel (S n)).
Proof.
  induction n as [n IH] using lt_wf_ind.
  assert (IHU : forall fuel, 3 * n <= fuel + 1 -> U_lt fuel n).
  { intros fuel Hf G e f q st W. destruct n as [|n']; [lia|].
    destruct (IH (tws q)) as [H _]; [lia|]. apply H; lia. }
  assert (IHL : forall fuel, 3 * n <= fuel -> L_lt fuel n).
  { intros fuel Hf G e f q st W. destruct n as [|n']; [lia|].
    destruct (IH (tws q)) as [_ H]; [lia|]. apply H; lia. }
  assert (L2 : forall fuel, 3 * n + 1 <= fuel -> L2_lt fuel (S n)).
  { intros fuel Hf G esr fsr ps st W Gp T Te Tf L1 L2'. destruct fuel as [|fuel]; [lia|].
    apply (loop_body fuel n n (IHU fuel ltac:(lia)) (IHL fuel ltac:(lia)) G esr fsr ps st); auto; try lia. }
  assert (U : forall fuel, 3 * n + 2 <= fuel -> U_lt fuel (S n)).
  { intros fuel Hf. destruct fuel as [|fuel]; [lia|]. apply unify_body; [apply L2; lia|apply IHU; lia]. }
  split; [exact U|].
  intros fuel Hf G esr fsr ps st W Gp T Te Tf. destruct fuel as [|fuel]; [lia|].
  apply (loop_body fuel n (S n) (U fuel ltac:(lia)) (IHL fuel ltac:(lia)) G esr fsr ps st); auto; try lia.
Qed.

(** fuel that suffices for [unify] at type [ps] *)
Definition tyfuel (ps : list ity) : nat := 3 * tws ps + 2.

Theorem unify_total_typed G e f ps st fuel :
  tyfuel ps <= fuel -> gprimes ps -> tstate G st -> ty G e ps -> ty G f ps -> tres G st (unify fuel e f st).
Proof.
  intros Hf Gp T Te Tf. destruct (total_both (tws ps)) as [H _]. apply (H fuel Hf G e f ps st); auto.
Qed.

(** * patterns *)
Inductive tys (G : ctx) : list axis -> list (list ity) -> Prop :=
| tys_nil : tys G [] []
| tys_cons e es ps pss : ty G e ps -> tys G es pss -> tys G (e :: es) (ps :: pss).

Lemma tys_ext G G' nx es pss : ctx_below G nx -> ctx_ext nx G G' -> tys G es pss -> tys G' es pss.
Proof. intros CB X. induction 1; constructor; [eapply ty_ext; eauto|assumption]. Qed.

Lemma tys_length G es pss : tys G es pss -> length es = length pss.
Proof. induction 1; simpl; congruence. Qed.

Lemma tys_below G nx es pss : ctx_below G nx -> tys G es pss -> forall x, In x es -> below nx x.
Proof.
  intros CB. induction 1 as [|e es ps pss He Hes IH]; intros x Hx; [destruct Hx|].
  destruct Hx as [<-|Hx]; [eapply ty_below; eauto|auto].
Qed.

Lemma unify_list_total_typed G es fs pss st fuel :
  Forall (fun ps => tyfuel ps <= fuel) pss -> Forall gprimes pss -> tstate G st -> tys G es pss -> tys G fs pss ->
  tres G st (unify_list fuel es fs st).
Proof.
  intros Hf Gp. revert G st es fs. induction pss as [|ps pss IH]; intros G st es fs T Te Tf.
  - inversion Te; subst. simpl. apply tres_refl. exact T.
  - inversion Te as [|e es' ? ? Te1 Tes]; subst. inversion Tf as [|f fs' ? ? Tf1 Tfs]; subst.
    inversion Hf; subst. inversion Gp; subst. cbn [unify_list].
    apply (tres_seq G st (unify fuel e f st) (fun s => unify_list fuel es' fs' s)).
    + apply unify_total_typed with (ps := ps); assumption.
    + intros G1 st1 W1 L1 X1 T1. apply IH; trivial; eapply tys_ext; eauto; apply (ts_below _ _ T).
Qed.

(** from the empty substitution, as the library calls it *)
Theorem unify_total_typed_list G es fs pss next fuel :
  ctx_good G -> ctx_below G next -> tys G es pss -> tys G fs pss -> Forall gprimes pss ->
  Forall (fun ps => tyfuel ps <= fuel) pss ->
  exists b st' G', unify_list fuel es fs (ustate0 next) = Ok (b, st') /\ us_warn st' = false /\
                   (next <= us_next st')%positive /\ ctx_ext next G G' /\ tstate G' st'.
Proof.
  intros CG CB Te Tf Gp Hf.
  destruct (unify_list_total_typed G es fs pss (ustate0 next) fuel Hf Gp) as (b & st' & G' & E & W & L & X & T'); trivial.
  - split; [exact CG|exact CB|apply wts_nil].
  - exists b, st', G'. auto.
Qed.

(** * the guard [tgood] cannot be dropped: a sum type of size 1 is a prime of size 1, and on
    product types that contain one, [unify] warns and fails although the two patterns overlap.
    Python: [ProductAxis((SumAxis(0,k1,3), SumAxis(0,unitAxis,0), k2)).unify(ProductAxis((SumAxis(0,k3,3), k4)), {})]
    with all [k_i = PhysicalAxis(2)] gives a UserWarning and False. *)
Theorem unify_size1_sum_refuted :
  let t := TProd [TSum [TAtom 2; TAtom 3]; TSum [TAtom 1]; TAtom 2] in
  let e := Prod [Sum 0 (Phys 1 2) 3; Sum 0 unitAxis 0; Phys 2 2] in
  let f := Prod [Sum 0 (Phys 3 2) 3; Phys 4 2] in
  has_type e t = true /\ has_type f t = true /\ tgood t = false /\
  (exists st', unify_list 100 [e] [f] (ustate0 10) = Ok (false, st') /\ us_warn st' = true) /\
  (exists rho, inrange rho e /\ inrange rho f /\ eval rho e = eval rho f).
Proof.
  cbv zeta. split; [vm_compute; reflexivity|]. split; [vm_compute; reflexivity|]. split; [reflexivity|].
  split; [eexists; split; vm_compute; reflexivity|].
  exists (fun _ => 0). simpl. repeat split; lia.
Qed.
