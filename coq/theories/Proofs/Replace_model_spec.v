(** C15_replace_spec, part 2: the model satisfies the replacement specification. *)
From Coq Require Import List Arith Bool PeanoNat Lia Permutation.
Import ListNotations.
Require Import Fggs.Model.Replace Fggs.Proofs.Replace_base Fggs.Proofs.Replace_wf Fggs.Proofs.Replace_explicit
  Fggs.Proofs.Replace_spec.

Lemma filter_combine_none : forall {A B} (p : A -> bool) (l1 : list A) (l2 : list B),
  (forall x, In x l1 -> p x = false) -> filter (fun ab => p (fst ab)) (combine l1 l2) = [].
Proof.
  induction l1; destruct l2; simpl; intros; auto. rewrite H by auto. apply IHl1; auto.
Qed.
Lemma filter_combine_all : forall {A B} (p : A -> bool) (l1 : list A) (l2 : list B),
  (forall x, In x l1 -> p x = true) -> filter (fun ab => p (fst ab)) (combine l1 l2) = combine l1 l2.
Proof.
  induction l1; destruct l2; simpl; intros; auto. rewrite H by auto. rewrite IHl1; auto.
Qed.

Lemma aget_combine_nodup : forall (l1 l2 : list node) (m : nmap), NoDup l1 -> length l1 = length l2 ->
  map (aget node_eqb (combine l1 l2 ++ m)) l1 = map Some l2.
Proof.
  induction l1; destruct l2; simpl; intros; try discriminate; auto.
  inversion H; subst. rewrite node_eqb_refl. f_equal.
  rewrite <- (IHl1 l2 m) by auto. apply map_ext_in. intros x Hx.
  assert (node_eqb a x = false). { apply (eqb_false_gen node_eqb node_eqb_eq). intro; subst; auto. }
  rewrite H1; auto.
Qed.

Lemma combine_ecopies_In : forall nm res nx re ge, In (re, ge) (combine res (ecopies nm nx res)) ->
  In re res /\ exists k, ge = mkEdge (Fresh k) (e_label re) (map (gn nm) (e_att re)).
Proof.
  induction res; simpl; intros; try tauto. destruct H as [H|H].
  - inversion H; subst; eauto.
  - destruct (IHres _ _ _ H) as [? ?]; auto.
Qed.

Lemma nonext_nodup : forall r, wf_graph r -> NoDup (nonext r).
Proof. intros. unfold nonext. apply NoDup_filter. apply wf_graph_nodup_nodes; auto. Qed.

Lemma ext_nonext_nodup : forall r, wf_graph r -> NoDup (g_ext r) -> NoDup (g_ext r ++ nonext r).
Proof.
  intros. apply NoDup_app_intro; auto. apply nonext_nodup; auto.
  intros x Hx Hn. apply nonext_In in Hn. tauto.
Qed.

Lemma r_nm_keys : forall L g nx e r, repl_guard L g nx e r -> map fst (r_nm nx e r) = g_ext r ++ nonext r.
Proof.
  intros. unfold r_nm. rewrite map_app, !combine_keys; auto.
  - rewrite copies_length; auto.
  - eapply guard_lengths; eauto.
Qed.

Theorem replace_model_spec : forall L g nx e r, repl_guard L g nx e r ->
  replace_spec g e r (r_graph g nx e r) (r_nm nx e r) (r_em nx e r).
Proof.
  intros L g nx e r G. pose proof (guard_lengths _ _ _ _ _ G) as HL.
  pose proof (rg_wfr _ _ _ _ _ G) as WR. pose proof (r_graph_wf _ _ _ _ _ G) as WG.
  constructor.
  - apply (rg_in _ _ _ _ _ G).
  - unfold r_graph, r_em; cbn [g_edges]. rewrite combine_vals; auto. unfold r_es. rewrite ecopies_length; auto.
  - unfold r_graph; cbn [g_nodes]. f_equal. unfold r_nm. rewrite filter_app.
    rewrite (filter_combine_none (fun v => negb (is_ext r v))).
    2:{ intros x Hx. apply negb_false_iff. apply is_ext_In; auto. }
    rewrite (filter_combine_all (fun v => negb (is_ext r v))).
    2:{ intros x Hx. apply nonext_In in Hx. apply negb_true_iff. unfold is_ext. apply (memb_false node_eqb node_eqb_eq). tauto. }
    simpl. rewrite combine_vals; auto. rewrite copies_length; auto.
  - reflexivity.
  - rewrite (r_nm_keys _ _ _ _ _ G). apply NoDup_Permutation.
    + apply ext_nonext_nodup; auto. apply (rg_ext _ _ _ _ _ G).
    + apply wf_graph_nodup_nodes; auto.
    + intros x. rewrite in_app_iff, nonext_In. split.
      * intros [H|[H _]]; auto. apply (wf_ext r WR); auto.
      * intros H. destruct (is_ext r x) eqn:E.
        -- left. apply is_ext_In; auto.
        -- right. split; auto. intro Hc. apply is_ext_In in Hc. congruence.
  - rewrite (r_nm_keys _ _ _ _ _ G). apply ext_nonext_nodup; auto. apply (rg_ext _ _ _ _ _ G).
  - unfold r_nm. apply aget_combine_nodup; auto. apply (rg_ext _ _ _ _ _ G).
  - intros v x Hin. unfold r_nm in Hin. apply in_app_iff in Hin. destruct Hin as [Hin|Hin].
    + eapply (combine_In_map_eq n_label n_label); [|exact Hin].
      pose proof (wf_typed g (rg_wf _ _ _ _ _ G) e (rg_in _ _ _ _ _ G)) as T.
      pose proof (rg_type _ _ _ _ _ G) as T2. unfold gtype in T2. congruence.
    + apply combine_copies_In in Hin. symmetry; tauto.
  - apply (wf_nodes _ WG).
  - unfold r_em. apply combine_keys. unfold r_es. rewrite ecopies_length; auto.
  - intros re ge Hin. unfold r_em, r_es in Hin. apply combine_ecopies_In in Hin.
    destruct Hin as [Hre [k ->]]. cbn [e_label e_att]. split; auto.
    rewrite map_map. apply map_ext_in. intros v Hv.
    destruct (r_nm_total _ _ _ _ _ G v) as [x [Hx _]].
    { apply (wf_att r WR re Hre); auto. }
    unfold gn. rewrite Hx. auto.
  - apply (wf_edges _ WG).
  - unfold r_graph; cbn [g_elabs]. apply tbl_adds_prefix.
  - intros re ge Hin. apply (wf_labs _ WG). unfold r_graph; cbn [g_edges]. apply in_app_iff; right.
    unfold r_em in Hin. eapply in_combine_r; eauto.
  - unfold r_graph; cbn [g_nlabs]. f_equal. unfold r_nm. rewrite filter_app.
    rewrite (filter_combine_none (fun v => negb (is_ext r v))).
    2:{ intros x Hx. apply negb_false_iff. apply is_ext_In; auto. }
    rewrite (filter_combine_all (fun v => negb (is_ext r v))).
    2:{ intros x Hx. apply nonext_In in Hx. apply negb_true_iff. unfold is_ext. apply (memb_false node_eqb node_eqb_eq). tauto. }
    simpl. rewrite <- (map_map snd n_label). rewrite combine_vals; auto. rewrite copies_length; auto.
Qed.

Lemma r_next_le : forall nx r, nx <= r_next nx r.
Proof. unfold r_next; intros; lia. Qed.

(** wrong type / absent edge: ValueError and nothing changes *)
Theorem replace_wrong_type : forall g nx e r, l_type (e_label e) <> gtype r ->
  replace_edge_model g nx e r = (g, nx, Err ValueErr).
Proof.
  intros. unfold replace_edge_model.
  destruct (list_eqb Nat.eqb (l_type (e_label e)) (gtype r)) eqn:E; auto.
  apply (list_eqb_eq Nat.eqb Nat.eqb_eq) in E. congruence.
Qed.
Theorem replace_absent_edge : forall g nx e r, has_edge_id g (e_id e) = false ->
  replace_edge_model g nx e r = (g, nx, Err ValueErr).
Proof.
  intros. unfold replace_edge_model. rewrite H.
  destruct (list_eqb Nat.eqb (l_type (e_label e)) (gtype r)); auto.
Qed.

Lemma repl_guard_of_bool : forall L g nx e r,
  wf_graphb g = true -> belowb nx g = true -> memb edge_eqb (g_edges g) e = true ->
  wf_graphb r = true -> nodupb node_eqb (g_ext r) = true ->
  functionalb L = true -> labels_in L g = true -> labels_in L r = true ->
  l_type (e_label e) = gtype r -> repl_guard L g nx e r.
Proof.
  intros. constructor; auto.
  - apply wf_graphb_iff; auto.
  - apply belowb_iff; auto.
  - apply (memb_In edge_eqb edge_eqb_eq); auto.
  - apply wf_graphb_iff; auto.
  - apply (nodupb_NoDup node_eqb node_eqb_eq); auto.
  - apply functionalb_iff; auto.
  - apply labels_in_iff; auto.
  - apply labels_in_iff; auto.
Qed.

Theorem replace_spec_main : forall L g nx e r,
  wf_graphb g = true -> belowb nx g = true -> memb edge_eqb (g_edges g) e = true ->
  wf_graphb r = true -> nodupb node_eqb (g_ext r) = true ->
  functionalb L = true -> labels_in L g = true -> labels_in L r = true ->
  (l_type (e_label e) = gtype r ->
     exists g' nx' nm em,
       replace_edge_model g nx e r = (g', nx', Ok (nm, em)) /\
       replace_spec g e r g' nm em /\
       wf_graphb g' = true /\ belowb nx' g' = true /\ labels_in L g' = true /\ nx <= nx')
  /\ (l_type (e_label e) <> gtype r -> replace_edge_model g nx e r = (g, nx, Err ValueErr)).
Proof.
  intros. split.
  - intros HT. pose proof (repl_guard_of_bool _ _ _ _ _ H H0 H1 H2 H3 H4 H5 H6 HT) as G.
    exists (r_graph g nx e r), (r_next nx r), (r_nm nx e r), (r_em nx e r).
    split; [apply (replace_explicit L); auto|].
    split; [apply (replace_model_spec L); auto|].
    split; [apply wf_graphb_iff; apply (r_graph_wf L); auto|].
    split; [apply belowb_iff; apply (r_graph_below L); auto|].
    split; [apply labels_in_iff; apply (r_graph_labels L); auto|apply r_next_le].
  - apply replace_wrong_type.
Qed.

(** the hypotheses are satisfiable by a non-trivial value: host  a -t- b, X(b)  with ext [a];
    replacement  u -t- v, X(v)  with ext [u] *)
Definition ex_t : elabel := mkLab 1 [0; 0] true.
Definition ex_X : elabel := mkLab 0 [0] false.
Definition ex_host : graph :=
  let a := mkNode (Explicit 0) 0 in let b := mkNode (Fresh 0) 0 in
  mkGraph [a; b] [mkEdge (Explicit 0) ex_t [a; b]; mkEdge (Fresh 1) ex_X [b]] [a] [ex_t; ex_X] [0].
Definition ex_repl : graph :=
  let u := mkNode (Explicit 0) 0 in let v := mkNode (Explicit 1) 0 in
  mkGraph [u; v] [mkEdge (Explicit 0) ex_t [u; v]; mkEdge (Explicit 1) ex_X [v]] [u] [ex_t; ex_X] [0].
Definition ex_edge : edge := mkEdge (Fresh 1) ex_X [mkNode (Fresh 0) 0].
Example replace_spec_main_hyps :
  wf_graphb ex_host = true /\ belowb 2 ex_host = true /\ memb edge_eqb (g_edges ex_host) ex_edge = true /\
  wf_graphb ex_repl = true /\ nodupb node_eqb (g_ext ex_repl) = true /\ functionalb [ex_t; ex_X] = true /\
  labels_in [ex_t; ex_X] ex_host = true /\ labels_in [ex_t; ex_X] ex_repl = true /\
  l_type (e_label ex_edge) = gtype ex_repl /\
  (exists g' nm em, replace_edge_model ex_host 2 ex_edge ex_repl = (g', 5, Ok (nm, em)) /\
                    length (g_nodes g') = 3 /\ length (g_edges g') = 3 /\
                    replace_ok ex_host ex_edge ex_repl g' nm em = true).
Proof. repeat split; try reflexivity. eexists _, _, _. vm_compute. repeat split. Qed.

(** without the NoDup guard the code is not hyperedge replacement: a replacement whose two
    external positions are the same node u, put in place of an edge attached to two different
    nodes a, b, maps u to b (the LAST zipped attachment) and leaves a unidentified *)
Definition ex_X2 : elabel := mkLab 0 [0; 0] false.
Definition ex_t1 : elabel := mkLab 1 [0] true.
Definition dup_host : graph :=
  let a := mkNode (Explicit 0) 0 in let b := mkNode (Explicit 1) 0 in
  mkGraph [a; b] [mkEdge (Explicit 0) ex_X2 [a; b]] [] [ex_X2] [0].
Definition dup_repl : graph :=
  let u := mkNode (Explicit 0) 0 in
  mkGraph [u] [mkEdge (Explicit 0) ex_t1 [u]] [u; u] [ex_t1] [0].
Theorem replace_glue_refuted :
  exists g nx e r g' nx' nm em,
    wf_graphb g = true /\ belowb nx g = true /\ memb edge_eqb (g_edges g) e = true /\ wf_graphb r = true /\
    l_type (e_label e) = gtype r /\
    replace_edge_model g nx e r = (g', nx', Ok (nm, em)) /\
    map (aget node_eqb nm) (g_ext r) <> map Some (e_att e).
Proof.
  exists dup_host, 0, (mkEdge (Explicit 0) ex_X2 [mkNode (Explicit 0) 0; mkNode (Explicit 1) 0]), dup_repl.
  eexists _, _, _, _. repeat split; try reflexivity. vm_compute. discriminate.
Qed.
