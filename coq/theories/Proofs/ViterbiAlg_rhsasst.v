(** C04, code-shaped model: [reconstruct]'s loop that fills [rhs_asst] from the pointer row
    ([rhs_asst_code], statement by statement) computes [rebuild]: externals from the parent's
    assignment, the other attached nodes in order of first appearance over the edges from the
    pointer row, 0 for nodes without edges -- provided the row has as many entries as there are
    summed-out nodes (otherwise the code raises) and the parent's assignment is consistent on
    repeated external nodes (it is, for every cell with a finite value). *)
From Coq Require Import List Arith Bool PeanoNat Lia.
Import ListNotations.
Require Import Fggs.Model.Semiring Fggs.Model.SCC Fggs.Model.SumProduct Fggs.Model.Trop Fggs.Model.ViterbiAlg.
Require Import Fggs.Proofs.SP_rename Fggs.Proofs.ViterbiAlg_base.
Local Open Scope nat_scope.

(** nodes of [vs] in order of first appearance that are not among the keys [ks] *)
Fixpoint news (vs ks : list nat) : list nat :=
  match vs with
  | [] => []
  | v :: vs => if mem ks v then news vs ks else v :: news vs (ks ++ [v])
  end.

Lemma mem_app l1 l2 v : mem (l1 ++ l2) v = mem l1 v || mem l2 v.
Proof. unfold mem. apply existsb_app. Qed.

Lemma news_ext vs : forall ks ks', (forall v, mem ks v = mem ks' v) -> news vs ks = news vs ks'.
Proof.
  induction vs as [|v vs IH]; intros ks ks' H; [reflexivity|]. cbn [news]. rewrite <- (H v).
  destruct (mem ks v); [apply IH; exact H|]. f_equal. apply IH. intros u. rewrite !mem_app, H. reflexivity.
Qed.

Lemma fold_add_new_news vs : forall acc, fold_left add_new vs acc = acc ++ news vs acc.
Proof.
  induction vs as [|v vs IH]; intros acc; cbn [fold_left news]; [rewrite app_nil_r; reflexivity|].
  unfold add_new at 2. destruct (mem acc v); [apply IH|]. rewrite IH, <- app_assoc. reflexivity.
Qed.
Lemma dedup_news vs : dedup vs = news vs [].
Proof. unfold dedup. rewrite fold_add_new_news. reflexivity. Qed.

Lemma news_filter E vs : forall ks, news vs (E ++ ks) = filter (fun v => negb (mem E v)) (news vs ks).
Proof.
  induction vs as [|v vs IH]; intros ks; [reflexivity|]. cbn [news]. rewrite mem_app.
  destruct (mem E v) eqn:HE; cbn [orb].
  - destruct (mem ks v) eqn:Hk; [apply IH|]. cbn [filter]. rewrite HE. cbn [negb].
    rewrite <- IH. apply news_ext. intros u. rewrite !mem_app.
    destruct (Nat.eqb_spec u v) as [->|Hne].
    + rewrite HE. reflexivity.
    + assert (Hm : mem [v] u = false) by (cbn; rewrite (proj2 (Nat.eqb_neq u v) Hne); reflexivity).
      rewrite Hm, orb_false_r. reflexivity.
  - destruct (mem ks v) eqn:Hk; [apply IH|]. cbn [filter]. rewrite HE. cbn [negb]. f_equal.
    rewrite <- app_assoc. apply IH.
Qed.

Lemma summed_news r : summed r = news (flat_map snd (r_edges r)) (r_ext r).
Proof.
  unfold summed, attached. rewrite dedup_news.
  rewrite <- (news_filter (r_ext r) (flat_map snd (r_edges r)) []). rewrite app_nil_r. reflexivity.
Qed.

(** ** the dict *)
Lemma dget_app d1 d2 v : dget (d1 ++ d2) v = match dget d2 v with Some y => Some y | None => dget d1 v end.
Proof.
  induction d1 as [|[k x] d1 IH]; cbn [app dget]; [destruct (dget d2 v); reflexivity|].
  rewrite IH. destruct (dget d2 v); reflexivity.
Qed.
Lemma dget_none_iff d v : dget d v = None <-> mem (map fst d) v = false.
Proof.
  induction d as [|[k x] d IH]; cbn [dget map fst]; [split; reflexivity|].
  change (mem (k :: map fst d) v) with (Nat.eqb v k || mem (map fst d) v).
  rewrite (Nat.eqb_sym v k). destruct (dget d v) eqn:E.
  - split; [discriminate|]. intros H. apply orb_false_iff in H. destruct H as [_ H].
    apply IH in H. discriminate.
  - rewrite (proj1 IH eq_refl), orb_false_r. destruct (Nat.eqb k v); split; congruence.
Qed.

(** the dict of the externals binds every external node to the parent's value -- also when a
    node is repeated, as long as the parent's assignment is consistent *)
Lemma dget_combine_map (f : nat -> nat) l v :
  dget (combine l (map f l)) v = if mem l v then Some (f v) else None.
Proof.
  induction l as [|k l IH]; [reflexivity|]. cbn [map combine dget]. rewrite IH.
  change (mem (k :: l) v) with (Nat.eqb v k || mem l v). rewrite (Nat.eqb_sym v k).
  destruct (mem l v); [rewrite orb_true_r; reflexivity|]. rewrite orb_false_r.
  destruct (Nat.eqb_spec k v) as [->|]; reflexivity.
Qed.

Lemma index_of_notin v l : ~ In v l -> index_of v l = None.
Proof.
  intros H. destruct (index_of v l) as [j|] eqn:E; [|reflexivity].
  destruct (index_of_some _ _ _ E) as [Hj Hn]. exfalso. apply H. rewrite <- Hn. apply nth_In. exact Hj.
Qed.

Lemma dget_combine_nodup ks : forall vals v, NoDup ks -> length vals = length ks ->
  dget (combine ks vals) v = match index_of v ks with Some j => Some (nth j vals 0) | None => None end.
Proof.
  induction ks as [|k ks IH]; intros vals v Hnd Hlen; [reflexivity|].
  destruct vals as [|x vals]; [discriminate|]. cbn [combine dget index_of].
  inversion Hnd as [|? ? Hk Hnd']; subst. rewrite (IH vals v Hnd' ltac:(cbn in Hlen; lia)).
  destruct (Nat.eqb_spec k v) as [->|Hne].
  - rewrite (index_of_notin v ks Hk). reflexivity.
  - destruct (index_of v ks); reflexivity.
Qed.

(** ** the loop *)
Lemma fill_nodes_spec ptr vs : forall d ii,
  fill_nodes vs d ptr ii
  = (d ++ combine (news vs (map fst d)) (map (fun j => nth j ptr 0) (seq ii (length (news vs (map fst d))))),
     ii + length (news vs (map fst d))).
Proof.
  induction vs as [|v vs IH]; intros d ii; cbn [fill_nodes news].
  - cbn. rewrite app_nil_r, Nat.add_0_r. reflexivity.
  - destruct (dget d v) as [y|] eqn:E.
    + assert (Hm : mem (map fst d) v = true).
      { destruct (mem (map fst d) v) eqn:Hm; [reflexivity|]. apply dget_none_iff in Hm. congruence. }
      rewrite Hm. apply IH.
    + apply dget_none_iff in E. rewrite E, IH, map_app. cbn [map fst length seq combine].
      rewrite <- app_assoc. cbn [app]. f_equal. lia.
Qed.

Lemma summed_NoDup r : NoDup (summed r).
Proof. unfold summed, attached. apply NoDup_filter. apply dedup_NoDup. Qed.

Theorem rhs_asst_code_spec r xi ptr a0 :
  sel a0 (r_ext r) = xi ->
  rhs_asst_code r xi ptr
  = if Nat.eqb (length (summed r)) (length ptr) then Some (rebuild r xi ptr) else None.
Proof.
  intros Hxi. unfold rhs_asst_code. rewrite fill_nodes_spec.
  assert (Hkeys : map fst (combine (r_ext r) xi) = r_ext r).
  { rewrite <- Hxi. unfold sel. generalize (r_ext r). induction l as [|k l IHl]; [reflexivity|].
    cbn [map combine fst]. rewrite IHl. reflexivity. }
  rewrite Hkeys, <- summed_news. cbn [Nat.add].
  destruct (Nat.eqb (length (summed r)) (length ptr)); [|reflexivity].
  f_equal. unfold rebuild. apply map_ext_in. intros v _. unfold node_val.
  rewrite dget_app.
  rewrite (dget_combine_nodup (summed r) _ v (summed_NoDup r)) by (rewrite map_length, seq_length; reflexivity).
  destruct (index_of v (summed r)) as [j|] eqn:E2.
  - destruct (index_of_some _ _ _ E2) as [Hj Hn].
    assert (Hne : ~ In v (r_ext r)).
    { apply (proj1 (summed_In r v)). rewrite <- Hn. apply nth_In. exact Hj. }
    rewrite (index_of_notin v (r_ext r) Hne).
    rewrite (nth_map_lt _ _ _ 0) by (rewrite seq_length; exact Hj). rewrite seq_nth by exact Hj. reflexivity.
  - rewrite <- Hxi at 1. unfold sel at 1. rewrite (dget_combine_map (fun i => nth i a0 0)).
    destruct (index_of v (r_ext r)) as [j|] eqn:E1.
    + destruct (index_of_some _ _ _ E1) as [Hj Hn].
      assert (Hm : mem (r_ext r) v = true) by (apply mem_iff; rewrite <- Hn; apply nth_In; exact Hj).
      rewrite Hm. rewrite <- Hxi. unfold sel. rewrite (nth_map_lt _ _ _ 0) by exact Hj. rewrite Hn. reflexivity.
    + apply index_of_none in E1. apply mem_false_iff in E1. rewrite E1. reflexivity.
Qed.
