(** C09 -- [multi_mv_model] equals the dense matrix-vector product of the assembled blocks:
    block x of the result, position p, is
      sum_{y in keys} sum_{q < dim y} A[x,y][p][q] * b[y][q]
    where an absent block of [a] or [b] reads as zero ([getm]/[getv]); also with transpose. *)
From Coq Require Import List Arith Lia Bool PeanoNat Ring.
Import ListNotations.
Require Import Fggs.Model.Semiring Fggs.Model.Solve Fggs.Model.MultiSolve.
Require Import Fggs.Proofs.SolveElim Fggs.Proofs.SolveRefine.

Section MV.
Context {E : Type} (o : sr_ops E).
Hypothesis Hring : sr_ring o.
Let SRth : semi_ring_theory (zero o) (one o) (add o) (mul o) (@eq E) := Hring.
Add Ring Ering : SRth.
Notation "a ⊕ b" := (add o a b) (at level 50, left associativity).
Notation "a ⊗ b" := (mul o a b) (at level 40, left associativity).

Definition rd (d : dims_t) (c : @mt1 E) (x p : nat) : E := get1 o (getv o d c x) p.

Lemma lookup1_set1 (c : @mt1 E) k v k' :
  lookup1 (set1 c k v) k' = if Nat.eqb k k' then Some v else lookup1 c k'.
Proof.
  induction c as [|[a u] c IH]; cbn [set1 lookup1].
  - reflexivity.
  - destruct (Nat.eqb_spec a k) as [->|Hak]; cbn [lookup1].
    + destruct (Nat.eqb_spec k k'); reflexivity.
    + rewrite IH. destruct (Nat.eqb_spec a k') as [->|]; [|reflexivity].
      destruct (Nat.eqb_spec k k'); [congruence|reflexivity].
Qed.

Lemma get1_zeros1 n p : p < n -> get1 o (zeros1 o n) p = zero o.
Proof. intros H. unfold zeros1. rewrite get1_tab1 by exact H. reflexivity. Qed.
Lemma get2_zeros2 n m p q : p < n -> q < m -> get2 o (zeros2 o n m) p q = zero o.
Proof. intros H1 H2. unfold zeros2. rewrite get2_tab2 by assumption. reflexivity. Qed.

Lemma rd_add_single d (c : @mt1 E) x v x' p : p < dim d x' ->
  rd d (add_single1 o d c x v) x' p
  = if Nat.eqb x x' then rd d c x' p ⊕ get1 o v p else rd d c x' p.
Proof.
  intros Hp. unfold add_single1, rd, getv.
  destruct (lookup1 c x) as [u|] eqn:L; rewrite lookup1_set1;
    destruct (Nat.eqb_spec x x') as [->|Hne]; try reflexivity.
  - rewrite L. unfold vadd_model. rewrite get1_tab1 by exact Hp. reflexivity.
  - rewrite L. rewrite get1_zeros1 by exact Hp. ring.
Qed.

(** the summand contributed by one block of [a] to block x', position p *)
Definition term (dj : dims_t) (b : @mt1 E) (p : nat) (t : mat E) (y : nat) : E :=
  sum_n o (dim dj y) (fun q => get2 o t p q ⊗ get1 o (getv o dj b y) q).

Lemma sum_n_zero n (f : nat -> E) : (forall q, q < n -> f q = zero o) -> sum_n o n f = zero o.
Proof.
  intros H. rewrite sum_n_sumS. rewrite (sumS_ext o nat (seq 0 n) f (fun _ => zero o)).
  - apply (sumS_zero o Hring).
  - intros q Hq. apply in_seq in Hq. apply H. lia.
Qed.

Lemma term_absent_b dj (b : @mt1 E) p t y : lookup1 b y = None -> term dj b p t y = zero o.
Proof.
  intros L. unfold term, getv. rewrite L. apply sum_n_zero. intros q Hq.
  rewrite get1_zeros1 by exact Hq. ring.
Qed.
Lemma term_zero_block di dj (b : @mt1 E) p x y : p < dim di x ->
  term dj b p (zeros2 o (dim di x) (dim dj y)) y = zero o.
Proof.
  intros Hp. unfold term. apply sum_n_zero. intros q Hq. rewrite get2_zeros2 by assumption. ring.
Qed.

Definition step_f (di dj : dims_t) (b : @mt1 E) (c : @mt1 E) (e : (key * key) * mat E) : @mt1 E :=
  let '((x, y), t) := e in
  match lookup1 b y with
  | Some by_ => add_single1 o di c x (mv_model o (dim di x) (dim dj y) t by_)
  | None => c
  end.

Lemma multi_mv_false di dj a b : multi_mv_model o di dj false a b = fold_left (step_f di dj b) a [].
Proof.
  unfold multi_mv_model. f_equal.
Qed.

Definition contrib (dj : dims_t) (b : @mt1 E) (x' p : nat) (e : (key * key) * mat E) : E :=
  if Nat.eqb (fst (fst e)) x' then term dj b p (snd e) (snd (fst e)) else zero o.

Lemma rd_step di dj b c e x' p : p < dim di x' ->
  rd di (step_f di dj b c e) x' p = rd di c x' p ⊕ contrib dj b x' p e.
Proof.
  intros Hp. destruct e as [[x y] t]. unfold step_f, contrib. cbn [fst snd].
  destruct (lookup1 b y) as [by_|] eqn:L.
  - rewrite rd_add_single by exact Hp. destruct (Nat.eqb_spec x x') as [->|]; [|ring].
    f_equal. unfold mv_model. rewrite get1_tab1 by exact Hp. unfold term, getv. rewrite L. reflexivity.
  - destruct (Nat.eqb x x'); [rewrite term_absent_b by exact L|]; ring.
Qed.

Lemma rd_fold di dj b a : forall c x' p, p < dim di x' ->
  rd di (fold_left (step_f di dj b) a c) x' p
  = rd di c x' p ⊕ sum_list o (map (contrib dj b x' p) a).
Proof.
  induction a as [|e a IH]; intros c x' p Hp; cbn [fold_left map sum_list]; [ring|].
  rewrite IH by exact Hp. rewrite rd_step by exact Hp. ring.
Qed.

(** from a sum over the entries of the dict to a sum over the column keys *)
Lemma lookup2_notin (a : @mt2 E) x y : ~ In (x, y) (map fst a) -> lookup2 a x y = None.
Proof.
  induction a as [|[[u v] t] a IH]; intros H; [reflexivity|]. cbn [lookup2].
  destruct (Nat.eqb_spec u x) as [->|]; destruct (Nat.eqb_spec v y) as [->|]; cbn [andb];
    try (apply IH; intros H'; apply H; now right).
  exfalso. apply H. now left.
Qed.

Lemma sumS_point (Ys : list nat) y (u f : nat -> E) :
  NoDup Ys -> In y Ys -> f y = zero o ->
  sumS o nat Ys (fun y' => if Nat.eqb y y' then u y' else f y') = u y ⊕ sumS o nat Ys f.
Proof.
  induction Ys as [|z Ys IH]; intros ND Hin Hf; [destruct Hin|].
  inversion ND as [|? ? Hz ND']; subst. rewrite !sumS_cons.
  destruct Hin as [->|Hin].
  - rewrite Nat.eqb_refl. rewrite Hf.
    rewrite (sumS_ext o nat Ys (fun y' => if Nat.eqb y y' then u y' else f y') f).
    + ring.
    + intros y' Hy'. destruct (Nat.eqb_spec y y') as [->|]; [contradiction|reflexivity].
  - destruct (Nat.eqb_spec y z) as [->|]; [contradiction|]. rewrite IH by assumption. ring.
Qed.

Lemma entries_to_keys dj b x' p (Ys : list nat) (a : @mt2 E) :
  NoDup (map fst a) -> NoDup Ys -> (forall e, In e a -> In (snd (fst e)) Ys) ->
  sum_list o (map (contrib dj b x' p) a)
  = sumS o nat Ys (fun y => match lookup2 a x' y with Some t => term dj b p t y | None => zero o end).
Proof.
  induction a as [|[[x y] t] a IH]; intros NDa NDy Hin.
  - cbn. symmetry. apply (sumS_zero o Hring).
  - cbn [map] in NDa. inversion NDa as [|? ? Hxy NDa']; subst.
    cbn [map sum_list]. rewrite IH; [|assumption|assumption|intros; apply Hin; now right].
    set (Fa := fun y0 => match lookup2 a x' y0 with Some t0 => term dj b p t0 y0 | None => zero o end).
    destruct (Nat.eqb_spec x x') as [->|Hne].
    + transitivity (term dj b p t y ⊕ sumS o nat Ys Fa).
      { unfold contrib. cbn [fst snd]. rewrite Nat.eqb_refl. reflexivity. }
      rewrite <- (sumS_point Ys y (fun y0 => term dj b p t y0) Fa NDy).
      * apply sumS_ext. intros y0 _. cbn [lookup2]. rewrite Nat.eqb_refl. cbn [andb].
        destruct (Nat.eqb y y0); reflexivity.
      * apply (Hin ((x', y), t)). now left.
      * unfold Fa. rewrite lookup2_notin by exact Hxy. reflexivity.
    + transitivity (zero o ⊕ sumS o nat Ys Fa).
      { unfold contrib. cbn [fst snd]. destruct (Nat.eqb_spec x x'); [contradiction|reflexivity]. }
      transitivity (sumS o nat Ys Fa); [ring|].
      apply sumS_ext. intros y0 _. cbn [lookup2].
      destruct (Nat.eqb_spec x x'); [contradiction|]. reflexivity.
Qed.

(** C09_multi_mv, not transposed *)
Theorem multi_mv_dense di dj (a : @mt2 E) (b : @mt1 E) :
  NoDup (map fst a) -> NoDup (map fst dj) -> (forall e, In e a -> In (snd (fst e)) (map fst dj)) ->
  forall x p, p < dim di x ->
    rd di (multi_mv_model o di dj false a b) x p
    = sumS o nat (map fst dj) (fun y => term dj b p (getm o di dj a x y) y).
Proof.
  intros NDa NDy Hin x p Hp. rewrite multi_mv_false. rewrite rd_fold by exact Hp.
  unfold rd at 1, getv. cbn [lookup1]. rewrite get1_zeros1 by exact Hp.
  rewrite (entries_to_keys dj b x p (map fst dj) a NDa NDy Hin).
  transitivity (sumS o nat (map fst dj)
                  (fun y => match lookup2 a x y with Some t => term dj b p t y | None => zero o end)); [ring|].
  apply sumS_ext. intros y _. unfold getm. destruct (lookup2 a x y); [reflexivity|].
  symmetry. apply term_zero_block. exact Hp.
Qed.

(** transposition: [multi_mv(a, b, transpose=True)] is [multi_mv] of the transposed blocks *)
Definition swapT (di dj : dims_t) (e : (key * key) * mat E) : (key * key) * mat E :=
  let '((x, y), t) := e in ((y, x), transpose_model o (dim di x) (dim dj y) t).

Lemma multi_mv_true di dj a b :
  multi_mv_model o di dj true a b = multi_mv_model o dj di false (map (swapT di dj) a) b.
Proof.
  unfold multi_mv_model. generalize (@nil (key * vec E)) as c.
  induction a as [|[[x y] t] a IH]; intros c; [reflexivity|].
  cbn [map fold_left swapT]. rewrite IH. reflexivity.
Qed.

Lemma lookup2_swapT di dj (a : @mt2 E) x y :
  lookup2 (map (swapT di dj) a) y x
  = match lookup2 a x y with Some t => Some (transpose_model o (dim di x) (dim dj y) t) | None => None end.
Proof.
  induction a as [|[[u v] t] a IH]; [reflexivity|]. cbn [map swapT lookup2].
  rewrite (andb_comm (Nat.eqb v y)).
  destruct (Nat.eqb_spec u x) as [->|]; destruct (Nat.eqb_spec v y) as [->|]; cbn [andb]; auto.
Qed.

Lemma map_fst_swapT di dj (a : @mt2 E) :
  map fst (map (swapT di dj) a) = map (fun e => (snd (fst e), fst (fst e))) a.
Proof. rewrite map_map. apply map_ext. intros [[x y] t]. reflexivity. Qed.

Lemma NoDup_swap (l : list (key * key)) : NoDup l -> NoDup (map (fun k => (snd k, fst k)) l).
Proof.
  intros H. apply FinFun.Injective_map_NoDup; [|exact H].
  intros [a b] [c d] E'. cbn in E'. congruence.
Qed.

(** C09_multi_mv, transposed: block y of the result is sum_x sum_p A[x,y][p][q] * b[x][p] *)
Theorem multi_mv_dense_T di dj (a : @mt2 E) (b : @mt1 E) :
  NoDup (map fst a) -> NoDup (map fst di) -> (forall e, In e a -> In (fst (fst e)) (map fst di)) ->
  forall y q, q < dim dj y ->
    rd dj (multi_mv_model o di dj true a b) y q
    = sumS o nat (map fst di)
        (fun x => sum_n o (dim di x) (fun p => get2 o (getm o di dj a x y) p q ⊗ get1 o (getv o di b x) p)).
Proof.
  intros NDa NDx Hin y q Hq. rewrite multi_mv_true.
  rewrite (multi_mv_dense dj di (map (swapT di dj) a) b); [| | |intros e He|exact Hq].
  - apply sumS_ext. intros x _. unfold term. rewrite sum_n_sumS, (sum_n_sumS o (dim di x)).
    apply sumS_ext. intros p Hp. apply in_seq in Hp. f_equal.
    unfold getm. rewrite lookup2_swapT. destruct (lookup2 a x y).
    + unfold transpose_model. rewrite get2_tab2 by lia. reflexivity.
    + rewrite !get2_zeros2 by lia. reflexivity.
  - rewrite map_fst_swapT.
    replace (map (fun e : key * key * mat E => (snd (fst e), fst (fst e))) a)
      with (map (fun k : key * key => (snd k, fst k)) (map fst a)) by (rewrite map_map; reflexivity).
    apply NoDup_swap. exact NDa.
  - exact NDx.
  - apply in_map_iff in He. destruct He as [[[x0 y0] t0] [<- He]]. cbn [swapT fst snd].
    apply (Hin _ He).
Qed.

End MV.
