(** C16 -- the hypotheses of the property theorems are satisfiable by non-trivial values. *)
From Coq Require Import List Arith Bool.
Import ListNotations.
Require Import Fggs.Model.GraphAPI Fggs.Proofs.GraphAPI_wf Fggs.Proofs.GraphAPI_inv Fggs.Proofs.GraphAPI_atomic
        Fggs.Proofs.GraphAPI_oracle Fggs.Proofs.GraphAPI_refuted.

(** a factor graph with two nodes, a binary terminal edge and one external node; an FGG that uses
    it as a right-hand side, with domains and a factor; a copy of the grammar; raising calls *)
Definition demo : list op :=
  [ NewFactorGraph; NewNode 0 0 (IdStr 0);
    NewEdge 0 0 [NVal (Node 0 (Explicit 0)); NFresh 1] true false IdNone;
    SetExt 0 [NVal (Node 0 (Explicit 0))];
    NewFGG (SName 2); NewRule 1 1 0;
    NewFiniteDomain 1 0 [0; 1]; NewFiniteDomain 1 1 [0; 1; 2]; NewFiniteFactor 1 0 [2; 3] 1;
    Copy 1; EqOp 1 2; SetStart 2 (SName 1); EqOp 1 2;
    AddNode 0 (NVal (Node 2 (Explicit 0)));        (* raises: duplicate id *)
    RemoveNode 0 (Node 0 (Explicit 0));            (* raises: attached and external *)
    AddEdge 0 (EL 3 [1] true) [NVal (Node 1 (Explicit 0))] (IdStr 1) ].   (* raises: id used by another node *)

(** every call of [demo] satisfies the guard of the invariant theorem ... *)
Example demo_guarded : all_guarded init demo = true.
Proof. vm_compute. reflexivity. Qed.

(** ... so the invariant holds at the end (C16_inv_reachable applies), and the state is not trivial *)
Example demo_inv : inv (run init demo) /\ length (objs (run init demo)) = 4.
Proof. split; [apply run_inv; [apply inv_init | exact demo_guarded] | vm_compute; reflexivity]. Qed.

Example demo_results :
  map snd (fst (fold_left (fun (acc : list (op * result) * state) o =>
                             let (s', r) := step (snd acc) o in (fst acc ++ [(o, r)], s')) demo ([], init)))
  = [ROk; ROk; ROk; ROk; ROk; ROk; ROk; ROk; ROk; ROk; RBool true; ROk; RBool false;
     RErr ValueErr; RErr ValueErr; RErr ValueErr].
Proof. vm_compute. reflexivity. Qed.

(** hypotheses of the step theorem at a non-initial state, for a call that mutates *)
Example step_hyps : let s := run init (firstn 5 demo) in
                    inv s /\ guard_wf s (NewRule 1 1 0) = true /\ snd (step s (NewRule 1 1 0)) = ROk.
Proof.
  split; [apply run_inv; [apply inv_init | vm_compute; reflexivity]|]. split; vm_compute; reflexivity.
Qed.

(** the guard is not vacuous on rhs graphs: a call on a graph used as a rhs that keeps its type passes *)
Example guard_on_rhs : let s := run init (firstn 6 demo) in
                       guard_wf s (SetExt 0 [NVal (Node 0 (Explicit 0))]) = true /\
                       guard_wf s (SetExt 0 []) = false.
Proof. split; vm_compute; reflexivity. Qed.

(** a raising call (the atomicity theorem has no other hypothesis) *)
Example atomic_hyps : let s := run init (firstn 13 demo) in
                      is_err (snd (step s (AddNode 0 (NVal (Node 2 (Explicit 0)))))) = true.
Proof. vm_compute. reflexivity. Qed.

(** a raising add_edge with a label clash and a missing node: nothing is left behind *)
Example atomic_clash :
  let s := run init [NewGraph; AddEdgeLabel 0 fB] in
  let o := AddEdge 0 fA [NVal ax] (IdStr 0) in
  snd (step s o) = RErr ValueErr /\ objs (fst (step s o)) = objs s.
Proof. split; vm_compute; reflexivity. Qed.

(** hypotheses of the copy theorems: a successful copy of a grammar with a rule in a state
    that satisfies the invariant *)
Example copy_hyps : let s := run init (firstn 9 demo) in
                    inv s /\ plain_ok s /\ snd (step s (Copy 1)) = ROk.
Proof.
  split; [apply run_inv; [apply inv_init | vm_compute; reflexivity]|].
  split; [apply reachable_plain_ok | vm_compute; reflexivity].
Qed.

(** the oracle accepts a non-trivial family *)
Example oracle_accepts : wf_b (observe (run init demo)) = true.
Proof. apply inv_wf_b. apply demo_inv. Qed.
