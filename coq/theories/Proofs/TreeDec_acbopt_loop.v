(** The main loop of [acb_connected] over the cells in size order, [build_chart], and
    [acb_connected] itself: for every simple undirected graph whose [connected_components] is a
    single set, and every k,
      - [acb_connected g k] never fails (no AssertionError / KeyError);
      - if it returns False then tw(g) > k (completeness: if tw(g) <= k a tree is returned). *)
From Coq Require Import List Arith Bool PeanoNat Lia Permutation.
Import ListNotations.
Require Import Fggs.Model.TreeDec Fggs.Proofs.TreeDec_graph Fggs.Proofs.TreeDec_tdok
               Fggs.Proofs.TreeDec_elim Fggs.Proofs.TreeDec_qbb Fggs.Proofs.TreeDec_tw
               Fggs.Proofs.TreeDec_complete Fggs.Proofs.TreeDec_lower
               Fggs.Proofs.TreeDec_rtree Fggs.Proofs.TreeDec_cc Fggs.Proofs.TreeDec_acb
               Fggs.Proofs.TreeDec_acbopt_cc Fggs.Proofs.TreeDec_acbopt_elim
               Fggs.Proofs.TreeDec_acbopt_nf Fggs.Proofs.TreeDec_acbopt_main
               Fggs.Proofs.TreeDec_acbopt_tryv.

Lemma chart_set_rows (ch : chart_t) (i j : bag) c (p' : bag * list (bag * cell)) :
  In p' (chart_set ch i j c) ->
  exists p : bag * list (bag * cell), In p ch /\ fst p' = fst p /\ map fst (snd p') = map fst (snd p).
Proof.
  unfold chart_set. intro Hp. apply in_map_iff in Hp. destruct Hp as [p [<- Hp]]. exists p.
  split; auto. match goal with |- context [if ?b then _ else _] => destruct b end; cbn [fst snd]; auto.
  split; auto. apply row_set_fst.
Qed.

Lemma chart_set_cells' (ch : chart_t) (i j : bag) c (p' : bag * list (bag * cell)) (q' : bag * cell) :
  In p' (chart_set ch i j c) -> In q' (snd p') ->
  exists (p : bag * list (bag * cell)) (q : bag * cell),
    In p ch /\ In q (snd p) /\ fst p' = fst p /\ fst q' = fst q /\
    ((set_eqb (fst p) i = true /\ set_eqb (fst q) j = true /\ snd q' = c) \/
     ((fst p = i -> fst q = j -> False) /\ snd q' = snd q)).
Proof.
  intros Hp Hq. destruct (chart_set_cells ch i j c p' q' Hp Hq) as [p [q [H1 [H2 [H3 [H4 H5]]]]]].
  exists p, q. split; auto. split; auto. split; auto. split; auto.
  destruct (set_eqb (fst p) i) eqn:E1; destruct (set_eqb (fst q) j) eqn:E2; cbn [andb] in H5; auto;
    right; (split; [|exact H5]); intros Ea Eb; subst; rewrite set_eqb_refl in *; discriminate.
Qed.

Lemma chart_get_key (ch : chart_t) (p : bag * list (bag * cell)) : In p ch -> chart_get ch (fst p) <> None.
Proof.
  intro Hp. destruct (chart_get_exists ch p (fst p) Hp (set_eqb_refl _)) as [row H]. congruence.
Qed.

Section Loop.
  Variable g : graph.
  Hypothesis W : wf_graph g.
  Variable k : nat.
  Variable sh : shape.
  Hypothesis SS : sshape_ok g k sh.

  Definition pend (es : list entry) (i j : bag) : Prop := In (length j, i, j) es.
  Definition nokelim (i : bag) (js : list bag) : Prop :=
    exists j, In j js /\ ~ kelim g k (set_diff j i).

  Record inv (ch : chart_t) (dead : list bag) (es : list entry) : Prop := {
    iv_sh : cshape ch = sh;
    iv_es : forall h (i j : bag), In (h, i, j) es -> h = length j /\ exists js, In (i, js) sh /\ In j js;
    iv_sorted : esorted es;
    iv_P : forall (p : bag * list (bag * cell)) (q : bag * cell), In p ch -> In q (snd p) ->
             kelim g k (set_diff (fst q) (fst p)) -> cell_yes (snd q) <> None \/ pend es (fst p) (fst q);
    iv_H : forall (p : bag * list (bag * cell)) (q : bag * cell), In p ch -> In q (snd p) ->
             pend es (fst p) (fst q) \/ cell_yes (snd q) <> None \/ In (fst p) dead;
    iv_G : forall (p : bag * list (bag * cell)), In p ch ->
             In (fst p) dead \/ exists q : bag * cell, In q (snd p) /\ pend es (fst p) (fst q);
    iv_Dn : NoDup dead;
    iv_D : forall d, In d dead -> exists js, In (d, js) sh /\ nokelim d js;
    iv_L : length dead <> length ch }.

  Lemma keys_NoDup : NoDup (map fst sh).
  Proof. apply sdiff_NoDup, (ss_dist g k sh SS). Qed.
  Lemma key_unique (a b : bag) : In a (map fst sh) -> In b (map fst sh) -> set_eqb a b = true -> a = b.
  Proof. apply sdiff_unique, (ss_dist g k sh SS). Qed.
  Lemma key_of (i : bag) (js : list bag) : In (i, js) sh -> In i (map fst sh).
  Proof. intro H. change i with (fst (i, js)). now apply in_map. Qed.
  Lemma key_in (ch : chart_t) (p : bag * list (bag * cell)) : cshape ch = sh -> In p ch -> In (fst p) (map fst sh).
  Proof. intros E Hp. rewrite <- E, cshape_keys. now apply in_map. Qed.

  Lemma step_ans (ch : chart_t) h (i j : bag) js : cshape ch = sh -> In (i, js) sh -> In j js ->
    h = length j ->
    (forall (p : bag * list (bag * cell)) (q : bag * cell), In p ch -> In q (snd p) ->
       length (fst q) < h -> kelim g k (set_diff (fst q) (fst p)) -> cell_yes (snd q) <> None) ->
    exists ans, acb_step_r ch k h i j = Some ans /\ (kelim g k (set_diff j i) -> ans <> None).
  Proof.
    intros Esh Hi Hj Eh Hsmall. unfold acb_step_r. destruct (h <=? k + 1) eqn:Ehk.
    - eexists. split; [reflexivity|]. intros _. discriminate.
    - apply Nat.leb_gt in Ehk.
      destruct (try_vs_total g k ch sh Esh SS i j (set_diff j i)) as [r [Hr Hc]].
      exists r. split; auto. intro Hk. apply Hc.
      destruct (ss_key g k sh SS i js Hi) as [Ni [Vi Li]].
      destruct (ss_comp g k sh SS i js j Hi Hj) as [CC [Iij Nj]].
      assert (L2 : 2 <= length (set_diff j i)).
      { pose proof (length_diff j i Nj Ni Iij). lia. }
      destruct (nf_step g k i (set_diff j i) W Ni Li CC L2 Hk) as [v [Hv Hgood]].
      exists v. split; auto.
      apply (good_covered g W k ch sh Esh SS i js j Hi Hj); auto.
      subst h. exact Hsmall.
  Qed.

  Theorem acb_main_spec : forall es ch dead, inv ch dead es ->
    match acb_main ch dead es k with
    | AError => False
    | AFalse => forall (i : bag) js, In (i, js) sh -> nokelim i js
    | ATree _ => True
    end.
  Proof.
    induction es as [|[[h i] j] es IHes]; intros ch dead I.
    - cbn [acb_main]. destruct I as [Ish _ _ _ _ IG IDn ID IL].
      assert (Ek : map fst ch = map fst sh) by (rewrite <- Ish; symmetry; apply cshape_keys).
      assert (I1 : incl (map fst ch) dead).
      { intros x Hx. apply in_map_iff in Hx. destruct Hx as [p [<- Hp]].
        destruct (IG p Hp) as [H|[q [_ []]]]. exact H. }
      assert (I2 : incl dead (map fst ch)).
      { intros d Hd. destruct (ID d Hd) as [js [H _]]. rewrite Ek. eapply key_of; eauto. }
      apply NoDup_incl_length in I1; [|rewrite Ek; apply keys_NoDup].
      apply NoDup_incl_length in I2; auto. rewrite map_length in *. lia.
    - rewrite acb_main_eq.
      destruct I as [Ish Ies Isort IP IHc IG IDn ID IL].
      destruct (Ies h i j (or_introl eq_refl)) as [Eh [js [Hi Hj]]].
      inversion Isort as [|? ? Hmin Isort']; subst.
      assert (Hpend : forall (i0 j0 : bag), pend ((length j, i, j) :: es) i0 j0 ->
                        (i0 = i /\ j0 = j) \/ (pend es i0 j0 /\ length j <= length j0)).
      { intros i0 j0 [E|H]; [left; inversion E; auto|right]. split; auto.
        rewrite Forall_forall in Hmin. apply (Hmin _ H). }
      assert (Hsmall : forall (p : bag * list (bag * cell)) (q : bag * cell), In p ch -> In q (snd p) ->
                length (fst q) < length j -> kelim g k (set_diff (fst q) (fst p)) -> cell_yes (snd q) <> None).
      { intros p q Hp Hq Hl Hk. destruct (IP p q Hp Hq Hk) as [H|H]; auto.
        apply Hpend in H. destruct H as [[_ E]|[_ H]]; [rewrite E in Hl|]; lia. }
      destruct (step_ans ch (length j) i j js Ish Hi Hj eq_refl Hsmall) as [ans [Ea Hans]].
      rewrite Ea. cbv zeta.
      set (ch1 := chart_set ch i j (cell_of ans)).
      set (dead1 := match ans with Some _ => dead | None => dead_add i dead end).
      assert (Esh1 : cshape ch1 = sh) by (unfold ch1; rewrite cshape_set; exact Ish).
      assert (Ek1 : map fst ch1 = map fst sh) by (rewrite <- Esh1; symmetry; apply cshape_keys).
      assert (Hsub : incl dead dead1).
      { unfold dead1. destruct ans; [apply incl_refl|apply dead_add_incl]. }
      assert (HD1 : forall d, In d dead1 -> exists js0, In (d, js0) sh /\ nokelim d js0).
      { intros d Hd. unfold dead1 in Hd. destruct ans as [t|]; [now apply ID|].
        apply dead_add_In in Hd. destruct Hd as [->|Hd]; [|now apply ID].
        exists js. split; auto. exists j. split; auto. intro Hk. now apply Hans. }
      assert (Hi1 : ans = None -> In i dead1).
      { intros ->. unfold dead1, dead_add. destruct (existsb (set_eqb i) dead) eqn:Ex.
        - apply existsb_exists in Ex. destruct Ex as [d [Hd Ed]].
          destruct (ID d Hd) as [js0 [Hd0 _]].
          rewrite (key_unique i d (key_of i js Hi) (key_of d js0 Hd0) Ed). exact Hd.
        - apply in_or_app. right. cbn; auto. }
      assert (Nd1 : NoDup dead1).
      { unfold dead1. destruct ans; auto. unfold dead_add.
        destruct (existsb (set_eqb i) dead) eqn:Ex; auto.
        apply NoDup_app_iff. split; auto. split; [constructor; [intros []|constructor]|].
        intros x Hx [E|[]]. subst x. assert (existsb (set_eqb i) dead = true); [|congruence].
        apply existsb_exists. exists i. split; auto. apply set_eqb_refl. }
      destruct (length dead1 =? length ch1) eqn:EL.
      + apply Nat.eqb_eq in EL. intros i' js' Hi'.
        assert (I1 : incl (map fst sh) dead1).
        { apply NoDup_length_incl; auto.
          - rewrite <- Ek1, map_length. lia.
          - intros d Hd. destruct (HD1 d Hd) as [js0 [H _]]. eapply key_of; eauto. }
        destruct (HD1 i' (I1 i' (key_of i' js' Hi'))) as [js0 [H0 Hn]].
        assert (E : (i', js0) = (i', js')) by (apply (NoDup_fst_unique sh); auto; apply keys_NoDup).
        inversion E; subst. exact Hn.
      + apply Nat.eqb_neq in EL.
        destruct (chart_get ch1 i) as [row|] eqn:Eg.
        2:{ rewrite <- Esh1 in Hi. destruct (cshape_in ch1 i js Hi) as [p1 [Hp1 [E1 _]]].
            apply (chart_get_key ch1 p1 Hp1). rewrite E1. exact Eg. }
        destruct (row_trees row) as [ts|] eqn:Et; [exact I|].
        (* the invariant for the rest of the loop *)
        assert (HP1 : forall (p' : bag * list (bag * cell)) (q' : bag * cell), In p' ch1 -> In q' (snd p') ->
                  kelim g k (set_diff (fst q') (fst p')) ->
                  cell_yes (snd q') <> None \/ pend es (fst p') (fst q')).
        { intros p' q' Hp' Hq' Hk.
          destruct (chart_set_cells' ch i j (cell_of ans) p' q' Hp' Hq')
            as [p [q [H1 [H2 [H3 [H4 [[E1 [E2 E3]]|[Hne E3]]]]]]]]; rewrite H3, H4 in *; rewrite E3.
          - left. assert (Ha : ans <> None).
            { apply Hans. eapply kelim_ext; [|exact Hk]. intro x. rewrite !set_diff_In.
              rewrite (set_eqb_In _ _ x E1), (set_eqb_In _ _ x E2). reflexivity. }
            destruct ans; [cbn; discriminate|congruence].
          - destruct (IP p q H1 H2 Hk) as [H|H]; auto.
            apply Hpend in H. destruct H as [[Ea1 Ea2]|[H _]]; [exfalso; auto|auto]. }
        assert (HH1 : forall (p' : bag * list (bag * cell)) (q' : bag * cell), In p' ch1 -> In q' (snd p') ->
                  pend es (fst p') (fst q') \/ cell_yes (snd q') <> None \/ In (fst p') dead1).
        { intros p' q' Hp' Hq'.
          destruct (chart_set_cells' ch i j (cell_of ans) p' q' Hp' Hq')
            as [p [q [H1 [H2 [H3 [H4 [[E1 [E2 E3]]|[Hne E3]]]]]]]]; rewrite H3, H4 in *; rewrite E3.
          - right. destruct ans as [t|]; [left; cbn; discriminate|right].
            rewrite (key_unique (fst p) i (key_in ch p Ish H1) (key_of i js Hi) E1). now apply Hi1.
          - destruct (IHc p q H1 H2) as [H|[H|H]]; auto.
            apply Hpend in H. destruct H as [[Ea1 Ea2]|[H _]]; [exfalso; auto|auto]. }
        apply IHes. constructor; auto.
        * intros h0 i0 j0 H0. apply Ies. cbn; auto.
        * (* G *)
          intros p' Hp'.
          destruct (list_eq_dec Nat.eq_dec (fst p') i) as [E|NE].
          -- destruct (chart_get_spec ch1 i row Eg) as [p1 [Hp1 [Es1 Ee1]]].
             assert (E1 : fst p1 = i).
             { apply key_unique; auto; [apply (key_in ch1 p1 Esh1 Hp1)|eapply key_of; eauto]. }
             assert (Epp : p' = p1).
             { apply (NoDup_fst_unique ch1); auto; [rewrite Ek1; apply keys_NoDup|congruence]. }
             subst p1. destruct (row_trees_none row Et) as [q' [Hq' Hn]]. rewrite <- Es1 in Hq'.
             destruct (HH1 p' q' Hp' Hq') as [H|[H|H]]; [right; exists q'; auto|congruence|left; auto].
          -- destruct (chart_set_rows ch i j (cell_of ans) p' Hp') as [p [H1 [H3 H4]]].
             rewrite H3 in *. destruct (IG p H1) as [H|[q [Hq H]]]; [left; auto|right].
             apply Hpend in H. destruct H as [[Ea1 _]|[H _]]; [congruence|].
             assert (Hq' : In (fst q) (map fst (snd p'))) by (rewrite H4; now apply in_map).
             apply in_map_iff in Hq'. destruct Hq' as [q' [Eq' Hq']]. exists q'. split; auto.
             rewrite Eq'. exact H.
  Qed.

  Lemma inv_init (ch : chart_t) : cshape ch = sh -> ch <> [] -> inv ch [] (bysize ch).
  Proof.
    intros Esh Hne.
    assert (Hp : forall (p : bag * list (bag * cell)) (q : bag * cell), In p ch -> In q (snd p) ->
              pend (bysize ch) (fst p) (fst q)).
    { intros p q Hp Hq. unfold pend. apply bysize_In'. apply entries_In. exists p, q. auto. }
    constructor; auto.
    - intros h i j H. apply bysize_In, entries_In in H. destruct H as [p [q [Hp0 [Hq [-> [-> ->]]]]]].
      split; auto. exists (map fst (snd p)). split; [rewrite <- Esh; now apply in_cshape|now apply in_map].
    - apply bysize_sorted.
    - intros p Hp0. right.
      assert (Hs : In (fst p, map fst (snd p)) sh) by (rewrite <- Esh; now apply in_cshape).
      pose proof (ss_ne g k sh SS _ _ Hs) as Hn. destruct (snd p) as [|q r] eqn:Es; [cbn in Hn; congruence|].
      exists q. split; [cbn; auto|]. apply Hp; auto. rewrite Es. cbn; auto.
    - constructor.
    - intros d [].
    - cbn. destruct ch; [congruence|cbn; lia].
  Qed.
End Loop.

(** * [build_chart] *)
Section Build.
  Variable g : graph.
  Hypothesis W : wf_graph g.

  Definition new_row (i : bag) (comps : list (list nat)) : list (bag * cell) :=
    map (fun c => (set_union c i, @None (option rtree))) comps.

  Lemma bc_fold_spec : forall (l : list bag) (ch0 : chart_t), exists ch' : chart_t,
    fold_left (bc_step g) l (Some ch0) = Some (ch0 ++ ch') /\
    (forall p : bag * list (bag * cell), In p ch' -> In (fst p) l /\
       exists comps, connected_components g (fst p) = Some comps /\ 1 < length comps /\
                     snd p = new_row (fst p) comps) /\
    (forall R : bag -> bag -> Prop, ForallOrdPairs R l -> ForallOrdPairs R (map fst ch')) /\
    (forall (i : bag) comps, In i l -> connected_components g i = Some comps -> 1 < length comps ->
       In i (map fst ch')).
  Proof.
    induction l as [|i l IH]; intro ch0.
    - exists []. cbn [fold_left]. rewrite app_nil_r. split; auto. split; [intros p []|].
      split; [intros; constructor|intros i comps []].
    - cbn [fold_left]. unfold bc_step at 2. destruct (cc_total g i W) as [comps Hc]. rewrite Hc.
      destruct (1 <? length comps) eqn:E1.
      + apply Nat.ltb_lt in E1.
        destruct (IH (ch0 ++ [(i, new_row i comps)])) as [ch' [F [A [B C]]]].
        exists ((i, new_row i comps) :: ch'). split; [|split; [|split]].
        * transitivity (Some ((ch0 ++ [(i, new_row i comps)]) ++ ch')); [exact F|].
          rewrite <- app_assoc. reflexivity.
        * intros p [<-|Hp].
          -- cbn [fst snd]. split; [cbn; auto|]. exists comps. auto.
          -- destruct (A p Hp) as [H1 H2]. split; [cbn; auto|exact H2].
        * intros R F0. inversion F0 as [|? ? Hi Hl]; subst. cbn [map fst]. constructor; [|now apply B].
          apply Forall_forall. intros x Hx. apply in_map_iff in Hx. destruct Hx as [p [<- Hp]].
          rewrite Forall_forall in Hi. apply Hi. apply (A p Hp).
        * intros i0 comps0 [<-|Hi0] H0 L0; [cbn; auto|]. right. eapply C; eauto.
      + apply Nat.ltb_ge in E1.
        destruct (IH ch0) as [ch' [F [A [B C]]]]. exists ch'. split; [exact F|]. split; [|split].
        * intros p Hp. destruct (A p Hp) as [H1 H2]. split; [cbn; auto|exact H2].
        * intros R F0. inversion F0; subst. now apply B.
        * intros i0 comps0 [<-|Hi0] H0 L0; [|eapply C; eauto].
          rewrite Hc in H0. inversion H0; subst. lia.
  Qed.

  Theorem build_chart_shape k : exists ch, build_chart g k = Some ch /\ sshape_ok g k (cshape ch).
  Proof.
    destruct (bc_fold_spec (combinations (gverts g) k) []) as [ch [F [A [B C]]]].
    exists ch. split; [exact F|].
    assert (Hrow : forall (i : bag) js, In (i, js) (cshape ch) ->
              In i (combinations (gverts g) k) /\
              exists comps, connected_components g i = Some comps /\ 1 < length comps /\
                            js = map (fun c => set_union c i) comps).
    { intros i js H. destruct (cshape_in ch i js H) as [p [Hp [E1 E2]]].
      destruct (A p Hp) as [H1 [comps [H2 [H3 H4]]]]. rewrite E1 in *. split; auto.
      exists comps. split; auto. split; auto. rewrite <- E2, H4. unfold new_row. rewrite map_map. reflexivity. }
    assert (Hcomp : forall (i : bag) comps c, connected_components g i = Some comps -> In c comps ->
              compP g i c /\ forall x, In x (set_diff (set_union c i) i) <-> In x c).
    { intros i comps c Hc Hin. pose proof (cc_conn g i W comps Hc) as Fc. rewrite Forall_forall in Fc.
      specialize (Fc c Hin). split; auto. intro x. rewrite set_diff_In, set_union_In. split; [tauto|].
      intro Hx. split; auto. apply (co_out g i c (proj1 Fc) x Hx). }
    constructor.
    - intros i js H. destruct (Hrow i js H) as [H1 _].
      destruct (combinations_spec _ _ _ H1) as [L [I N]]. split; [apply N, W|]. split; auto.
    - intros i js j H Hj. destruct (Hrow i js H) as [_ [comps [Hc [_ ->]]]].
      apply in_map_iff in Hj. destruct Hj as [c [<- Hin]].
      destruct (Hcomp i comps c Hc Hin) as [Cc Ec].
      assert (Nu : NoDup (set_union c i)) by (apply set_union_NoDup; exact (co_nodup g i c (proj1 Cc))).
      split; [|split; auto].
      + apply (compP_grow g i i c); auto.
        * now apply set_diff_NoDup.
        * apply incl_refl.
        * intros x Hx. apply set_diff_In in Hx. tauto.
      + intros x Hx. apply set_union_In. auto.
    - intros i js D H CD. destruct (Hrow i js H) as [_ [comps [Hc [_ ->]]]].
      destruct D as [|x D0] eqn:ED; [exfalso; exact (co_ne g i _ (proj1 CD) eq_refl)|]. rewrite <- ED in *.
      assert (HxD : In x D) by (rewrite ED; cbn; auto).
      destruct (cc_spec g i W comps Hc) as [_ [_ C3]].
      destruct (C3 x (co_out g i D (proj1 CD) x HxD)) as [c [Hin Hxc]].
      destruct (Hcomp i comps c Hc Hin) as [Cc Ec].
      exists (set_union c i). split; [apply in_map_iff; eauto|].
      intro y. rewrite Ec. split; intro Hy.
      + apply (compP_eq g i c D x); auto.
      + apply (compP_eq g i D c x); auto.
    - intros i js H. destruct (Hrow i js H) as [_ [comps [_ [L ->]]]].
      destruct comps; [cbn in L; lia|discriminate].
    - rewrite cshape_keys. apply B. apply combinations_distinct, W.
    - intros i x u Hi Hx Hu Hxi Hui Hsep. rewrite cshape_keys.
      destruct (cc_total g i W) as [comps Hc]. apply (C i comps Hi Hc).
      destruct (cc_spec g i W comps Hc) as [_ [_ C3]].
      destruct (C3 x (conj Hx Hxi)) as [c1 [H1 Hx1]]. destruct (C3 u (conj Hu Hui)) as [c2 [H2 Hu2]].
      destruct comps as [|a [|b r]]; [destruct H1| |cbn; lia].
      exfalso. destruct H1 as [<-|[]]. destruct H2 as [<-|[]].
      apply (Hsep a); auto. apply (Hcomp i [a] a Hc). cbn; auto.
  Qed.

  (** * [acb_connected] *)
  Theorem acb_connected_spec k c : connected_components g [] = Some [c] ->
    match acb_connected g k with
    | AError => False
    | AFalse => k < tw_perm g
    | ATree _ => True
    end.
  Proof.
    intro Hc. unfold acb_connected. rewrite Hc.
    destruct (length g <=? k + 1) eqn:El; [exact I|]. apply Nat.leb_gt in El.
    destruct (build_chart_shape k) as [ch [Eb SS]]. rewrite Eb.
    assert (Top : tw_perm g <= k -> exists (i0 : bag) js, In (i0, js) (cshape ch) /\
              forall D, compP g i0 D -> kelim g k D).
    { intro Htw. destruct (top_separator g k W Htw) as [i0 [x [u [H1 [H2 [H3 [H4 [H5 [H6 H7]]]]]]]]]; [lia|].
      pose proof (ss_sep g k _ SS i0 x u H1 H2 H3 H4 H5 H6) as Hk.
      apply in_map_iff in Hk. destruct Hk as [[i1 js] [E Hs]]. cbn in E. subst i1. eauto. }
    destruct (length ch =? 0) eqn:E0.
    - apply Nat.eqb_eq in E0. apply Nat.nle_gt. intro Htw.
      destruct (Top Htw) as [i0 [js [Hs _]]]. destruct ch; [destruct Hs|discriminate].
    - apply Nat.eqb_neq in E0.
      assert (Hne : ch <> []) by (intro; subst; apply E0; reflexivity).
      pose proof (acb_main_spec g W k (cshape ch) SS (bysize ch) ch []
                    (inv_init g k (cshape ch) SS ch eq_refl Hne)) as Hm.
      destruct (acb_main ch [] (bysize ch) k); auto.
      apply Nat.nle_gt. intro Htw. destruct (Top Htw) as [i0 [js [Hs Hk]]].
      destruct (Hm i0 js Hs) as [j [Hj Hn]]. apply Hn. apply Hk.
      apply (ss_comp g k _ SS i0 js j Hs Hj).
  Qed.
End Build.
