(** C04: the facts about the Viterbi carrier [trop] = [-inf, +inf] with (max, +) that the
    optimality proof uses, proved directly so that the C04 theorems have no premises:
    the law records [sr_ring trop_ops] and [sr_ordered trop_ops] (Proofs/SemiringLaws.v, C08,
    proves the same records as [trop_ring] / [trop_ordered]; either pair can be used),
    [tmax] is an upper bound of its arguments and always returns one of them, [tmax] is
    idempotent, and the boolean tests [tleb] / [teqb] reflect [tle] / Leibniz equality
    ([Qc] is the canonical-form rationals, so [Qeq_bool] on the representatives decides [=]). *)
From Coq Require Import QArith Qcanon Lqa Bool List Ring_theory.
Import ListNotations.
Require Import Fggs.Model.Semiring Fggs.Model.Trop.
Open Scope Qc_scope.

(** * Qc -> Q bridge *)
Lemma vt_this_plus (a b : Qc) : (this (a + b) == this a + this b)%Q.
Proof. unfold Qcplus, Q2Qc; cbn [this]; apply Qred_correct. Qed.

Lemma vt_Qle_bool_false x y : Qle_bool x y = false <-> (y < x)%Q.
Proof.
  split; intros H.
  - apply Qnot_le_lt. intros C. apply Qle_bool_iff in C. congruence.
  - destruct (Qle_bool x y) eqn:E; [|reflexivity]. apply Qle_bool_iff in E. lra.
Qed.

Ltac vt_cases :=
  repeat match goal with
  | |- context [Qle_bool ?a ?b] =>
      let E := fresh "E" in
      destruct (Qle_bool a b) eqn:E; [apply Qle_bool_iff in E | apply vt_Qle_bool_false in E]
  end.

Ltac vt_fin :=
  try reflexivity;
  try (f_equal; apply Qc_is_canon; repeat rewrite ?vt_this_plus in *; change (this 0) with 0%Q in *; lra);
  try (exfalso; repeat rewrite ?vt_this_plus in *; change (this 0) with 0%Q in *; lra).

(** * commutative semiring *)
Lemma vt_tmax_0_l x : tmax NInf x = x.
Proof. destruct x; reflexivity. Qed.
Lemma vt_tmax_comm x y : tmax x y = tmax y x.
Proof. destruct x, y; cbn [tmax]; try reflexivity. vt_cases; vt_fin. Qed.
Lemma vt_tmax_assoc x y z : tmax x (tmax y z) = tmax (tmax x y) z.
Proof.
  destruct x as [|a|], y as [|b|], z as [|c|]; cbn [tmax]; try reflexivity;
    vt_cases; cbn [tmax]; try reflexivity; vt_cases; vt_fin.
Qed.
Lemma vt_tmax_idem x : tmax x x = x.
Proof. destruct x; cbn [tmax]; try reflexivity. vt_cases; vt_fin. Qed.
Lemma vt_tplus_1_l x : tplus (TFin 0) x = x.
Proof. destruct x; cbn [tplus]; try reflexivity. f_equal. ring. Qed.
Lemma vt_tplus_0_l x : tplus NInf x = NInf.
Proof. destruct x; reflexivity. Qed.
Lemma vt_tplus_comm x y : tplus x y = tplus y x.
Proof. destruct x, y; cbn [tplus]; try reflexivity. f_equal. ring. Qed.
Lemma vt_tplus_assoc x y z : tplus x (tplus y z) = tplus (tplus x y) z.
Proof. destruct x, y, z; cbn [tplus]; try reflexivity. f_equal. ring. Qed.
Lemma vt_tdistr_l x y z : tplus (tmax x y) z = tmax (tplus x z) (tplus y z).
Proof.
  destruct x as [|a|], y as [|b|], z as [|c|]; cbn [tmax tplus]; try reflexivity;
    vt_cases; cbn [tplus]; vt_fin.
Qed.

Theorem vt_trop_ring : sr_ring trop_ops.
Proof.
  constructor; cbn [zero one add mul trop_ops].
  - exact vt_tmax_0_l.
  - exact vt_tmax_comm.
  - exact vt_tmax_assoc.
  - exact vt_tplus_1_l.
  - exact vt_tplus_0_l.
  - exact vt_tplus_comm.
  - exact vt_tplus_assoc.
  - exact vt_tdistr_l.
Qed.

(** * order *)
Lemma vt_tle_refl x : tle x x.
Proof. destruct x; cbn; try exact I. apply Qcle_refl. Qed.
Lemma vt_tle_trans x y z : tle x y -> tle y z -> tle x z.
Proof. destruct x, y, z; cbn; try tauto. apply Qcle_trans. Qed.
Lemma vt_tle_antisym x y : tle x y -> tle y x -> x = y.
Proof. destruct x, y; cbn; try tauto. intros H1 H2. f_equal. apply Qcle_antisym; assumption. Qed.
Lemma vt_tmax_mono a b c d : tle a b -> tle c d -> tle (tmax a c) (tmax b d).
Proof.
  destruct a as [|a|], b as [|b|], c as [|c|], d as [|d|]; cbn [tle tmax]; try tauto;
    unfold Qcle; intros H1 H2; vt_cases; cbn [tle]; try exact I; unfold Qcle; try lra.
Qed.
Lemma vt_tplus_mono a b c : tle b c -> tle (tplus a b) (tplus a c).
Proof.
  destruct a as [|a|], b as [|b|], c as [|c|]; cbn [tle tplus]; try tauto.
  unfold Qcle. rewrite !vt_this_plus. intros H. lra.
Qed.

Theorem vt_trop_ordered : sr_ordered trop_ops.
Proof.
  constructor; cbn [zero one add mul le trop_ops].
  - exact vt_tle_refl.
  - exact vt_tle_trans.
  - exact vt_tle_antisym.
  - intros x. exact I.
  - exact vt_tmax_mono.
  - exact vt_tplus_mono.
Qed.

(** * max: an upper bound, and one of its arguments *)
Lemma vt_tle_max_r x y : tle y (tmax x y).
Proof.
  destruct x as [|a|], y as [|b|]; cbn [tle tmax]; try exact I; try apply Qcle_refl.
  vt_cases; cbn [tle]; unfold Qcle; lra.
Qed.
Lemma vt_tle_max_l x y : tle x (tmax x y).
Proof. rewrite vt_tmax_comm. apply vt_tle_max_r. Qed.
Lemma vt_tmax_lub x y z : tle x z -> tle y z -> tle (tmax x y) z.
Proof.
  destruct x as [|a|], y as [|b|], z as [|c|]; cbn [tle tmax]; try tauto.
  all: intros H1 H2; vt_cases; cbn [tle]; assumption.
Qed.
Lemma vt_tmax_cases x y : tmax x y = x \/ tmax x y = y.
Proof.
  destruct x as [|a|], y as [|b|]; cbn [tmax]; auto.
  destruct (Qle_bool (this a) (this b)); auto.
Qed.

(** * the boolean tests *)
Lemma vt_tleb_iff x y : tleb x y = true <-> tle x y.
Proof.
  destruct x, y; cbn [tleb tle]; try (split; [intros _; exact I | reflexivity]);
    try (split; [discriminate | intros []]).
  unfold Qcle. apply Qle_bool_iff.
Qed.
Lemma vt_teqb_iff x y : teqb x y = true <-> x = y.
Proof.
  destruct x as [|a|], y as [|b|]; cbn [teqb]; try (split; [reflexivity | reflexivity]);
    try (split; discriminate).
  rewrite Qeq_bool_iff. split.
  - intros H. f_equal. apply Qc_is_canon. exact H.
  - intros H. injection H as ->. reflexivity.
Qed.

(** a finite value is neither infinity *)
Lemma vt_fin_iff x : (match x with TFin _ => true | _ => false end) = true <-> exists q, x = TFin q.
Proof.
  destruct x as [|a|]; split; try discriminate; try (intros [q H]; discriminate).
  - intros _. exists a. reflexivity.
  - reflexivity.
Qed.
