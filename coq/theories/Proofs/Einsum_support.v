(** C07: the dense einsum of patterned operands with default zero is a sum over the physical
    environments on which all co-indexed axes coincide ("the zero default annihilates"):
    [denote_sum] writes an element as a sum over the physical elements with at most one
    contributing term (C06_at_most_one_backing), [prod_as_env_sum] multiplies these sums out over
    operands with disjoint axes, and [dense_support_form] exchanges the sums. *)
From Coq Require Import List Arith Bool PeanoNat Lia Permutation Ring Ring_theory PArith.
Import ListNotations.
Require Import Fggs.Model.Semiring Fggs.Model.SumProduct.
Require Import Fggs.Proofs.BigSum Fggs.Proofs.SP_trees.
Require Import Fggs.Model.Axis Fggs.Model.PTensor Fggs.Model.AxisCheck Fggs.Model.Einsum Fggs.Model.EinsumCheck Fggs.Model.EinsumCert.
Require Import Fggs.Proofs.Axis_sem Fggs.Proofs.PTensor_sem Fggs.Proofs.PTensor_dense Fggs.Proofs.PTensor_gen.
Require Import Fggs.Proofs.Einsum_dense Fggs.Proofs.Einsum_envs.

Section Support.
Context {R : Type} (o : sr_ops R).
Hypothesis Hr : sr_ring o.
Add Ring RingES : (sr_is_srt o Hr).
Notation r0 := (Semiring.zero o).
Notation ptensor := (ptensor R).

(** an enumerated environment of a well-formed tensor is in range *)
Lemma wf_keys_fv (t : ptensor) k : wf R t -> In k (flat_map fv (vaxes t)) -> In k (map fst (paxes t)).
Proof.
  intros W H. apply in_flat_map in H. destruct H as (e & He & H). rewrite fv_fvn in H.
  apply in_map_iff in H. destruct H as ([k' n] & <- & H). apply in_map_iff. exists (k', n). split; [reflexivity|].
  apply (wf_fv R t W). apply in_flat_map. eauto.
Qed.

(** ** an element as a sum over the physical elements *)
Theorem denote_sum (t : ptensor) idx : wf R t -> default t = r0 -> length idx = length (vaxes t) ->
  denote R t idx
  = sumS o (all_envs (paxes t))
         (fun pi => if leqb (evals (env_of pi) (vaxes t)) idx then pget R t (env_of pi) else r0).
Proof.
  intros W D L.
  destruct (denote_cases R t idx (wf_covers R t W) L) as [(rho & Rr & E & Dn)|[N Dn]].
  - rewrite Dn. set (p0 := restrict rho (paxes t)).
    assert (Hin : In p0 (all_envs (paxes t))).
    { apply all_envs_complete. intros k n Hk. apply (wf_fv R t W) in Hk. apply in_flat_map in Hk.
      destruct Hk as (e & He & Hk). rewrite Forall_forall in Rr. exact (proj2 (inrange_fvn rho e) (Rr e He) k n Hk). }
    assert (Hag : forall k, In k (map fst (paxes t)) -> env_of p0 k = rho k) by (intros k Hk; apply restrict_env; exact Hk).
    assert (Hev : evals (env_of p0) (vaxes t) = idx).
    { rewrite <- E. apply evals_ext. intros k Hk. apply Hag. apply wf_keys_fv; assumption. }
    rewrite (sumS_unique o Hr _ _ _ p0 (NoDup_all_envs _) Hin).
    + unfold pget. f_equal. apply pcoords_ext. intros k Hk. symmetry. apply Hag. exact Hk.
    + apply leqb_eq. exact Hev.
    + intros p Hp Ep. apply leqb_eq in Ep.
      apply (envs_eq (paxes t)); trivial; [exact (wf_nodup R t W)|]. intros k Hk.
      apply (pattern_injective (vaxes t)).
      * exact (wf_inrange R t p W Hp).
      * exact (wf_inrange R t p0 W Hin).
      * unfold evals in *. congruence.
      * exact (wf_covers R t W k Hk).
  - rewrite Dn, D. symmetry. apply (sumS_none o Hr). intros p Hp.
    destruct (leqb (evals (env_of p) (vaxes t)) idx) eqn:E; [|reflexivity].
    apply leqb_eq in E. exfalso. exact (N (env_of p) (wf_inrange R t p W Hp) E).
Qed.

(** ** the product over operands with disjoint axes *)
Definition term (ts : list ptensor) (rho : env) : R := prodS o ts (fun t => pget R t rho).

(** [rho] backs the index tuples that the label valuation [a] gives to the operands *)
Definition backs_b (ts : list ptensor) (inputs : list (list nat)) (a : nat -> nat) (rho : env) : bool :=
  forallb (fun ti => leqb (evals rho (vaxes (fst ti))) (map a (snd ti))) (combine ts inputs).

Definition dn (t : ptensor) : operand (R:=R) := (shape R t, denote R t).

Lemma in_all_vars (ts : list ptensor) k :
  In k (map fst (all_vars ts)) <-> exists t, In t ts /\ In k (map fst (paxes t)).
Proof.
  unfold all_vars. rewrite in_map_iff. split.
  - intros (kn & <- & H). apply in_flat_map in H. destruct H as (t & Ht & H). exists t. split; [exact Ht|apply in_map; exact H].
  - intros (t & Ht & H). apply in_map_iff in H. destruct H as (kn & <- & H). exists kn. split; [reflexivity|].
    apply in_flat_map. exists t. split; assumption.
Qed.

Lemma term_ext ts rho1 rho2 : (forall k, In k (map fst (all_vars ts)) -> rho1 k = rho2 k) -> term ts rho1 = term ts rho2.
Proof.
  intros H. unfold term. apply (prodS_ext o). intros t Ht. unfold pget. f_equal. apply pcoords_ext.
  intros k Hk. apply H. apply in_all_vars. exists t. split; assumption.
Qed.

Lemma backs_ext ts inputs a rho1 rho2 : Forall (wf R) ts ->
  (forall k, In k (map fst (all_vars ts)) -> rho1 k = rho2 k) -> backs_b ts inputs a rho1 = backs_b ts inputs a rho2.
Proof.
  intros W H. unfold backs_b. apply forallb_ext_in'. intros [t inp] Hin. simpl.
  assert (Ht : In t ts) by (apply in_combine_l in Hin; exact Hin).
  f_equal. apply evals_ext. intros k Hk. apply H. apply in_all_vars. exists t.
  split; [exact Ht|]. rewrite Forall_forall in W. apply wf_keys_fv; auto.
Qed.

Theorem prod_as_env_sum (a : nat -> nat) : forall ts inputs,
  length ts = length inputs ->
  Forall (wf R) ts -> Forall (fun t => default t = r0) ts ->
  Forall2 (fun t inp => length (vaxes t) = length inp) ts inputs ->
  NoDup (map fst (all_vars ts)) ->
  prodS o (combine (map dn ts) inputs) (fun oi => snd (fst oi) (map a (snd oi)))
  = sumS o (all_envs (all_vars ts))
         (fun pi => if backs_b ts inputs a (env_of pi) then term ts (env_of pi) else r0).
Proof.
  induction ts as [|t ts IH]; intros inputs L W D F ND.
  - simpl. unfold sumS, prodS, term, prodS. simpl. ring.
  - destruct inputs as [|inp inputs]; [discriminate|].
    inversion W as [|? ? Wt W']; subst. inversion D as [|? ? Dt D']; subst. inversion F as [|? ? ? ? Ft F']; subst.
    change (all_vars (t :: ts)) with (paxes t ++ all_vars ts) in *.
    rewrite map_app in ND. destruct (NoDup_app_parts _ _ ND) as (_ & ND2 & Disj).
    cbn [map combine]. rewrite (prodS_cons o). cbn [fst snd dn].
    rewrite (denote_sum t (map a inp) Wt Dt) by (rewrite map_length; symmetry; exact Ft).
    rewrite (IH inputs) by (trivial; simpl in L; lia).
    rewrite (sumS_if_mul o Hr). rewrite all_envs_app, (sumS_flat_map o Hr).
    apply (sumS_ext o). intros p1 Hp1. rewrite (sumS_map o). apply (sumS_ext o). intros p2 Hp2.
    assert (K1 : map fst p1 = map fst (paxes t)) by (apply all_envs_keys; exact Hp1).
    assert (E1 : forall k, In k (map fst (paxes t)) -> env_of (p1 ++ p2) k = env_of p1 k).
    { intros k Hk. apply env_of_app_l. rewrite K1. exact Hk. }
    assert (E2 : forall k, In k (map fst (all_vars ts)) -> env_of (p1 ++ p2) k = env_of p2 k).
    { intros k Hk. apply env_of_app_r. rewrite K1. intros Hk'. exact (Disj k Hk' Hk). }
    assert (Ev : evals (env_of (p1 ++ p2)) (vaxes t) = evals (env_of p1) (vaxes t)).
    { apply evals_ext. intros k Hk. apply E1. apply wf_keys_fv; assumption. }
    assert (Eb : backs_b (t :: ts) (inp :: inputs) a (env_of (p1 ++ p2))
                 = leqb (evals (env_of p1) (vaxes t)) (map a inp) && backs_b ts inputs a (env_of p2)).
    { unfold backs_b. cbn [combine forallb fst snd]. rewrite Ev. f_equal. exact (backs_ext ts inputs a _ _ W' E2). }
    assert (Et : term (t :: ts) (env_of (p1 ++ p2)) = mul o (pget R t (env_of p1)) (term ts (env_of p2))).
    { unfold term. rewrite (prodS_cons o). f_equal.
      - unfold pget. f_equal. apply pcoords_ext. exact E1.
      - exact (term_ext ts _ _ E2). }
    rewrite Eb, Et. reflexivity.
Qed.
End Support.
