(** C16 -- copies: a copy is [==] to its original and SHOWS exactly what its original shows
    (label tables, domains and factor weights included); its handles are fresh, so by the frame
    theorem no later call on either changes what the other shows. *)
From Coq Require Import List Arith Bool Lia.
Import ListNotations.
Require Import Fggs.Model.GraphAPI Fggs.Proofs.GraphAPI_assoc Fggs.Proofs.GraphAPI_wf
        Fggs.Proofs.GraphAPI_graph Fggs.Proofs.GraphAPI_hrg Fggs.Proofs.GraphAPI_inv
        Fggs.Proofs.GraphAPI_atomic Fggs.Proofs.GraphAPI_eq Fggs.Proofs.GraphAPI_frame.

(** * a copied graph has the very same containers as its original *)
Lemma aset_new : forall {K V} (Keq : forall a b : K, {a = b} + {a <> b}) (m : list (K * V)) k v,
    aget Keq m k = None -> aset Keq m k v = m ++ [(k, v)].
Proof.
  induction m as [|[a b] m IH]; intros k v H; cbn in *; [reflexivity|].
  destruct (Keq a k); [discriminate|]. f_equal. apply IH. assumption.
Qed.

Lemma nodes_phase_list : forall (l : list (ident * node)) c0 c1 r,
    fold_err g_add_node (map snd l) c0 = (c1, r) -> is_err r = false ->
    (forall k v, In (k, v) l -> k = n_id v) ->
    g_nodes c1 = g_nodes c0 ++ l.
Proof.
  induction l as [|[k n] l IH]; intros c0 c1 r E NE KV; cbn in E.
  - inversion E; subst. rewrite app_nil_r. reflexivity.
  - unfold g_add_node in E at 1. cbn [snd] in E.
    destruct (amem ident_eq_dec (g_nodes c0) (n_id n)) eqn:M.
    + inversion E; subst. discriminate.
    + rewrite (IH _ _ _ E NE) by (intros; apply KV; right; assumption).
      cbn. apply amem_false in M. rewrite (aset_new ident_eq_dec _ _ _ M).
      rewrite <- app_assoc. cbn. rewrite (KV k n (or_introl eq_refl)). reflexivity.
Qed.

Lemma g_add_edge_result : forall g e, snd (g_add_edge g e) = ROk \/ snd (g_add_edge g e) = RErr ValueErr.
Proof.
  intros g e. destruct (g_add_edge_cases g e) as [E|(add & t' & _ & E & _)]; rewrite E; cbn; auto.
Qed.

(** all attachment nodes present: a successful add_edge appends the edge and leaves the nodes alone *)
Lemma g_add_edge_list : forall g e,
    (forall n, In n (e_nodes e) -> has_node g n) -> snd (g_add_edge g e) = ROk ->
    g_edges (fst (g_add_edge g e)) = g_edges g ++ [(e_id e, e)] /\ g_nodes (fst (g_add_edge g e)) = g_nodes g.
Proof.
  intros g e H R.
  destruct (g_add_edge_cases g e) as [E|(add & t' & CN & E & M & _)]; rewrite E in *; cbn [fst snd] in *; [discriminate|].
  rewrite (check_new_all_present (e_nodes e) (g_nodes g) H) in CN. inversion CN; subst add.
  cbn. apply amem_false in M. rewrite (aset_new ident_eq_dec _ _ _ M). auto.
Qed.

Lemma edges_phase_list : forall (l : list (ident * edge)) c1 c2 r,
    fold_err g_add_edge (map snd l) c1 = (c2, r) -> is_err r = false ->
    (forall k e n, In (k, e) l -> In n (e_nodes e) -> has_node c1 n) ->
    (forall k e, In (k, e) l -> k = e_id e) ->
    g_edges c2 = g_edges c1 ++ l /\ g_nodes c2 = g_nodes c1.
Proof.
  induction l as [|[k e] l IH]; intros c1 c2 r E NE HN KV; cbn in E.
  - inversion E; subst. rewrite app_nil_r. auto.
  - cbn [snd] in E.
    pose proof (g_add_edge_list c1 e (fun n Hn => HN k e n (or_introl eq_refl) Hn)) as GL.
    pose proof (g_add_edge_result c1 e) as RR.
    destruct (g_add_edge c1 e) as [c1' r1]. cbn [fst snd] in *.
    destruct RR as [->| ->].
    2:{ inversion E; subst. discriminate. }
    destruct (GL eq_refl) as [G1 G2].
    destruct (IH _ _ _ E NE) as [A B].
    { intros k0 e0 n H1 H2. unfold has_node. rewrite G2. eapply HN; [right; eassumption | assumption]. }
    { intros; apply KV; right; assumption. }
    rewrite A, B, G1, G2. split; [|reflexivity].
    rewrite <- app_assoc. cbn. rewrite (KV k e (or_introl eq_refl)). reflexivity.
Qed.

Theorem g_copy_same : forall g c, graph_ok g -> g_copy g = inl c ->
    g_fg c = g_fg g /\ g_nodes c = g_nodes g /\ g_edges c = g_edges g /\ g_ext c = g_ext g /\
    t_nl (g_tab c) = t_nl (g_tab g) /\ t_el (g_tab c) = t_el (g_tab g) /\
    (g_fg g = true -> t_dom (g_tab c) = t_dom (g_tab g) /\ t_fac (g_tab c) = t_fac (g_tab g)) /\
    (g_fg g = false -> t_dom (g_tab c) = [] /\ t_fac (g_tab c) = []).
Proof.
  intros g c OK E. pose proof (g_copy_plain g c E) as PL. unfold g_copy in E. destruct (g_fg g) eqn:FG.
  - destruct (fold_err g_add_node (map snd (g_nodes g)) (empty_graph true)) as [c1 r1] eqn:E1.
    assert (NE1 : is_err r1 = false) by (destruct r1; [reflexivity | reflexivity | discriminate]).
    pose proof (nodes_phase_list _ _ _ _ E1 NE1 (proj2 (gk_nodes _ OK))) as N1. cbn in N1.
    destruct (nodes_phase _ _ _ _ E1) as [G1 _].
    assert (E' : match fold_err g_add_edge (map snd (g_edges g)) c1 with
                 | (_, RErr k) => inr k
                 | (c0, _) => inl (gset_tab (gset_ext c0 (g_ext g))
                                            (mkT (t_nl (g_tab g)) (t_el (g_tab g)) (t_dom (g_tab g)) (t_fac (g_tab g))))
                 end = inl c) by (destruct r1; [exact E | exact E | discriminate]).
    clear E. destruct (fold_err g_add_edge (map snd (g_edges g)) c1) as [c2 r2] eqn:E2.
    assert (NE2 : is_err r2 = false) by (destruct r2; [reflexivity | reflexivity | discriminate]).
    destruct (edges_phase_list _ _ _ _ E2 NE2) as [ED NS].
    { intros k e n He Hn. pose proof (gk_att _ OK _ _ _ He Hn) as X. unfold has_node in *. rewrite N1. exact X. }
    { apply (gk_edges _ OK). }
    rewrite (gr_edges _ _ G1) in ED. cbn in ED.
    assert (Ec : c = gset_tab (gset_ext c2 (g_ext g))
                              (mkT (t_nl (g_tab g)) (t_el (g_tab g)) (t_dom (g_tab g)) (t_fac (g_tab g))))
      by (destruct r2; inversion E'; reflexivity).
    assert (F : g_fg c = true).
    { unfold plain_obj, plain_tab in PL. destruct (g_fg c) eqn:Fc; [reflexivity|].
      subst c. cbn in *. clear - Fc E2 G1.
      pose proof (fold_err_pres (fun x => g_fg x = true) g_add_edge
                    (fun a x H => eq_trans (proj1 (g_add_edge_keeps_interp a x)) H) (map snd (g_edges g)) c1) as FP.
      rewrite E2 in FP. cbn in FP. rewrite FP in Fc; [discriminate|]. rewrite (gr_fg _ _ G1). reflexivity. }
    subst c. cbn in *. rewrite NS, N1, ED. repeat split; auto; intros; discriminate.
  - inversion E; subst c. cbn. repeat split; auto; intros; discriminate.
Qed.

Theorem g_copy_eq : forall g c, graph_ok g -> g_copy g = inl c -> graph_eqb g c = true.
Proof.
  intros g c OK E. destruct (g_copy_same g c OK E) as (_ & N & Ed & X & _).
  assert (K : graph_keys g) by (apply graph_ok_keys; assumption).
  apply graph_eqb_spec; [assumption | destruct K; split; congruence|].
  rewrite N, Ed, X. auto.
Qed.

(** the copy of a graph shows exactly what its original shows *)
Theorem g_copy_observe : forall g c,
    graph_ok g -> plain_obj (OG g) -> g_copy g = inl c -> obs_obj (OG c) = obs_obj (OG g).
Proof.
  intros g c OK PL E. destruct (g_copy_same g c OK E) as (F & N & Ed & X & NL & EL & IT & IF).
  unfold obs_obj, g_type, obs_tab. rewrite F, N, Ed, X, NL, EL.
  destruct (g_fg g) eqn:FG.
  - destruct (IT eq_refl) as [D1 D2]. rewrite D1, D2. reflexivity.
  - destruct (IF eq_refl) as [D1 D2]. unfold plain_obj, plain_tab in PL. cbn in PL.
    destruct (PL FG) as [P1 P2]. rewrite D1, D2, P1, P2. reflexivity.
Qed.

(** * a copied grammar equals its original *)
Section CopyPos.
  Variable os : list obj.

  (** [r'] is the copy of [r], its rhs living in the final family [fin] *)
  Definition rule_copy_of (fin : list obj) (r r' : rule) : Prop :=
    r_lhs r' = r_lhs r /\
    exists g c, get_graph os (r_rhs r) = Some g /\ g_copy g = inl c /\ get_graph fin (r_rhs r') = Some c.

  Lemma copy_rules_pos : forall rs base rs' news,
      copy_rules os base rs = inl (rs', news) ->
      forall fin, (forall i o, nth_error news i = Some o -> nth_error fin (base + i) = Some o) ->
      Forall2 (rule_copy_of fin) rs rs'.
  Proof.
    induction rs as [|r rs IH]; intros base rs' news E fin F; cbn in E.
    - inversion E; subst. constructor.
    - destruct (get_graph os (r_rhs r)) as [g|] eqn:G; [|discriminate].
      destruct (g_copy g) as [c|] eqn:C; [|discriminate].
      destruct (negb (rule_ok (r_lhs r) c)); [discriminate|].
      destruct (copy_rules os (S base) rs) as [[rs0 news0]|] eqn:E0; [|discriminate].
      inversion E; subst. constructor.
      + split; [reflexivity|]. exists g, c. split; [assumption|]. split; [assumption|].
        unfold get_graph. cbn. specialize (F 0 (OG c) eq_refl). rewrite Nat.add_0_r in F. rewrite F. reflexivity.
      + eapply IH; [eassumption|]. intros i o H. specialize (F (S i) o H). rewrite Nat.add_succ_r in F. exact F.
  Qed.

  Lemma copy_groups_pos : forall gs base gs' news,
      copy_groups os base gs = inl (gs', news) ->
      forall fin, (forall i o, nth_error news i = Some o -> nth_error fin (base + i) = Some o) ->
      Forall2 (fun g g' => fst g' = fst g /\ Forall2 (rule_copy_of fin) (snd g) (snd g')) gs gs'.
  Proof.
    induction gs as [|[k rs] gs IH]; intros base gs' news E fin F; cbn in E.
    - inversion E; subst. constructor.
    - destruct (copy_rules os base rs) as [[rs1 news1]|] eqn:E1; [|discriminate].
      destruct (copy_groups os (base + length news1) gs) as [[gs2 news2]|] eqn:E2; [|discriminate].
      inversion E; subst. constructor.
      + split; [reflexivity|]. cbn. eapply copy_rules_pos; [eassumption|].
        intros i o H. apply F. rewrite nth_error_app1; [assumption|]. apply nth_error_Some. congruence.
      + eapply IH; [eassumption|]. intros i o H. rewrite <- Nat.add_assoc. apply F.
        rewrite nth_error_app2 by lia. replace (length news1 + i - length news1) with i by lia. assumption.
  Qed.
End CopyPos.

Lemma forall2_aget : forall {K A B} (Keq : forall a b : K, {a = b} + {a <> b}) (P : A -> B -> Prop)
                            (m : list (K * A)) (m' : list (K * B)),
    Forall2 (fun g g' => fst g' = fst g /\ P (snd g) (snd g')) m m' ->
    forall k v, aget Keq m k = Some v -> exists v', aget Keq m' k = Some v' /\ P v v'.
Proof.
  intros K A B Keq P m m' F. induction F as [|[k1 a] [k2 b] m m' [E1 E2] F IH]; intros k v H; cbn in *; [discriminate|].
  subst k2. destruct (Keq k1 k); [inversion H; subst; eauto | apply IH; assumption].
Qed.

Lemma forall2_len : forall {A B} (P : A -> B -> Prop) l l', Forall2 P l l' -> length l = length l'.
Proof. intros A B P l l' F. induction F; cbn; congruence. Qed.

Lemma forall2_list_eqb : forall {A} (eq : A -> A -> bool) (P : A -> A -> Prop) l l',
    (forall a b, P a b -> eq a b = true) -> Forall2 P l l' -> list_eqb eq l l' = true.
Proof.
  intros A eq P l l' H F. induction F as [|a b l l' Pab F IH]; cbn; [reflexivity|].
  rewrite (H _ _ Pab). assumption.
Qed.

Theorem h_copy_eq : forall os x x' news,
    inv_os os -> hrg_ok os x -> h_copy os x = inl (x', news) ->
    hrg_eqb (os ++ OH x' :: news) x x' = true.
Proof.
  intros os x x' news I OK E. unfold h_copy in E.
  destruct (h_new (h_fgg x) (SLabel (h_start x))) as [[c|] r0] eqn:E0.
  2:{ destruct r0; discriminate. }
  destruct (copy_groups os (S (length os)) (h_rules x)) as [[gs news0]|] eqn:E1; [|discriminate].
  inversion E; subst news0. clear E.
  destruct (h_new_start _ _ _ _ E0) as [ST _].
  set (fin := os ++ OH x' :: news).
  assert (F : forall i o, nth_error news i = Some o -> nth_error fin (S (length os) + i) = Some o).
  { intros i o H. unfold fin. rewrite nth_error_app2 by lia.
    replace (S (length os) + i - length os) with (S i) by lia. exact H. }
  pose proof (copy_groups_pos os _ _ _ _ E1 fin F) as P.
  destruct OK as [[[N1 K1] [N2 K2]] K L SR R].
  subst x'. unfold hrg_eqb. split4.
  - apply dict_eqb_spec; [assumption|]. split; [cbn; exact (forall2_len _ _ _ P)|].
    intros k rs H. cbn [h_rules].
    destruct (forall2_aget elabel_eq_dec _ _ _ P _ _ H) as [rs' [H1 H2]].
    exists rs'. split; [exact H1|].
    apply (forall2_list_eqb _ (rule_copy_of os fin)); [|assumption].
    intros r r' [Hl (g & c0 & Hg & Hc & Hf)].
    unfold rule_eqb. apply andb_true_iff. split; [apply elabel_eqb_eq; congruence|].
    unfold fin in Hf. rewrite (get_graph_app _ _ _ _ Hg). rewrite Hf.
    apply g_copy_eq; [eapply get_graph_ok; eauto | assumption].
  - apply elabel_eqb_eq. cbn. congruence.
  - cbn. apply dict_eqb_refl; [assumption | intros; apply Nat.eqb_refl].
  - cbn. apply dict_eqb_refl; [assumption | intros; apply elabel_eqb_eq; reflexivity].
Qed.

(** * the property statements *)
(** a successful copy appends its objects, the first of which is [==] to the original *)
Theorem copy_eq : forall s h a,
    inv s -> nth_error (objs s) h = Some a -> snd (step s (Copy h)) = ROk ->
    let s' := fst (step s (Copy h)) in
    exists c, nth_error (objs s') (length (objs s)) = Some c /\ nth_error (objs s') h = Some a /\
              obj_eqb (objs s') a c = true.
Proof.
  intros s h a I Ha R. cbn [step] in *. rewrite Ha in *.
  assert (L : h < length (objs s)) by (apply nth_error_Some; congruence).
  destruct a as [g|x].
  - destruct (g_copy g) as [c|] eqn:C; [|discriminate]. cbn.
    exists (OG c). split; [rewrite nth_error_app2 by lia; rewrite Nat.sub_diag; reflexivity|].
    split; [rewrite nth_error_app1 by assumption; assumption|].
    cbn. apply g_copy_eq; [apply (I _ _ Ha) | assumption].
  - destruct (h_copy (objs s) x) as [[c news]|] eqn:C; [|discriminate]. cbn.
    exists (OH c). split; [rewrite nth_error_app2 by lia; rewrite Nat.sub_diag; reflexivity|].
    split; [rewrite nth_error_app1 by assumption; assumption|].
    cbn. apply h_copy_eq; [exact I | apply (I _ _ Ha) | assumption].
Qed.

(** every handle the new grammar refers to is new: the copy shares no mutable object with
    its original *)
Theorem copy_fresh : forall s h x,
    nth_error (objs s) h = Some (OH x) -> snd (step s (Copy h)) = ROk ->
    let s' := fst (step s (Copy h)) in
    exists c, nth_error (objs s') (length (objs s)) = Some (OH c) /\
              forall r, In r (rules_of (OH c)) -> length (objs s) < r_rhs r < length (objs s').
Proof.
  intros s h x Ha R. cbn [step] in *. rewrite Ha in *.
  destruct (h_copy (objs s) x) as [[c news]|] eqn:C; [|discriminate]. cbn.
  exists c. split; [rewrite nth_error_app2 by lia; rewrite Nat.sub_diag; reflexivity|].
  unfold h_copy in C.
  destruct (h_new (h_fgg x) (SLabel (h_start x))) as [[c0|] r0]; [|destruct r0; discriminate].
  destruct (copy_groups (objs s) (S (length (objs s))) (h_rules x)) as [[gs news0]|] eqn:E1; [|discriminate].
  inversion C; subst. destruct (copy_groups_spec _ _ _ _ _ E1) as (_ & B & _).
  intros r Hr. apply rules_of_in in Hr. destruct Hr as (k & rs & H1 & H2). cbn in H1.
  destruct (B _ _ _ H1 H2) as (rs0 & _ & _ & (r1 & g1 & c1 & _ & _ & _ & _ & _ & Hb & Hn)).
  assert (X : r_rhs r - S (length (objs s)) < length news) by (apply nth_error_Some; congruence).
  rewrite app_length. cbn. lia.
Qed.

(** no later call on the objects of the copy changes any object that existed before, and no
    later call on older objects changes any object of the copy *)
Theorem copy_independent : forall s h ops,
    let s' := fst (step s (Copy h)) in
    (forall k, k < length (objs s) ->
               (forall o t, In o ops -> target o = Some t -> length (objs s) <= t) ->
               nth_error (objs (run s' ops)) k = nth_error (objs s) k) /\
    (forall k, length (objs s) <= k < length (objs s') ->
               (forall o t, In o ops -> target o = Some t -> t < length (objs s)) ->
               nth_error (objs (run s' ops)) k = nth_error (objs s') k).
Proof.
  intros s h ops s'. split.
  - intros k L H. rewrite run_other_unchanged.
    + apply step_other_unchanged; [assumption | discriminate].
    + pose proof (step_length s (Copy h)) as SL. fold s' in SL. lia.
    + intros o Ho E. specialize (H o k Ho E). lia.
  - intros k L H. apply run_other_unchanged; [lia|].
    intros o Ho E. specialize (H o k Ho E). lia.
Qed.

(** * a copy shows what its original shows *)
Lemma graph_copy_match_refl : forall a b d s, graph_copy_match s (ObsG a b d) (ObsG a b d) = true.
Proof.
  intros. unfold graph_copy_match.
  destruct (oobs_eq_dec (ObsG a b d) (ObsG a b d)) as [|N]; [|congruence]. destruct s; reflexivity.
Qed.

Lemma if_dec_refl : forall {A} (d : forall a b : A, {a = b} + {a <> b}) a, (if d a a then true else false) = true.
Proof. intros. destruct (d a a); congruence. Qed.

Lemma get_graph_nth : forall os h g, get_graph os h = Some g -> nth_error os h = Some (OG g).
Proof. intros os h g H. unfold get_graph in H. destruct (nth_error os h) as [[g0|]|]; congruence. Qed.

Section GroupFacts.
  Context (P : rule -> rule -> Prop) (PL : forall r r', P r r' -> r_lhs r' = r_lhs r).

  Lemma forall2_lhs : forall rs rs', Forall2 P rs rs' -> map r_lhs rs' = map r_lhs rs.
  Proof. intros rs rs' F. induction F as [|r r' rs rs' H F IH]; cbn; [reflexivity|]. rewrite (PL _ _ H), IH. reflexivity. Qed.

  Lemma groups_shape : forall (gs gs' : list (elabel * list rule)),
      Forall2 (fun g g' => fst g' = fst g /\ Forall2 P (snd g) (snd g')) gs gs' ->
      map (fun g => (fst g, map r_lhs (snd g))) gs' = map (fun g => (fst g, map r_lhs (snd g))) gs /\
      Forall2 P (concat (map snd gs)) (concat (map snd gs')).
  Proof.
    intros gs gs' F. induction F as [|g g' gs gs' [H1 H2] F [IH1 IH2]]; cbn; [split; [reflexivity | constructor]|].
    split; [rewrite H1, (forall2_lhs _ _ H2), IH1; reflexivity | apply Forall2_app; assumption].
  Qed.
End GroupFacts.

Lemma forall2_imp : forall {A B} (P Q : A -> B -> Prop) l l', (forall a b, P a b -> Q a b) -> Forall2 P l l' -> Forall2 Q l l'.
Proof. intros A B P Q l l' H F. induction F; constructor; auto. Qed.

Lemma forall2_combine : forall {A B} (P : A -> B -> Prop) l l', Forall2 P l l' ->
    forall p, In p (combine l l') -> P (fst p) (snd p).
Proof.
  intros A B P l l' F. induction F as [|a b l l' H F IH]; intros p Hp; cbn in Hp; [destruct Hp|].
  destruct Hp as [<-|Hp]; [exact H | apply IH; assumption].
Qed.

(** the copy of a grammar shows what the original shows: same class, start symbol, label
    tables, domains and factors, the same rules under the same left-hand sides in the same
    order, each right-hand side a fresh graph that shows what the original rhs shows *)
Theorem h_copy_observe : forall os x x' news,
    inv_os os -> plain_os os -> hrg_ok os x -> plain_obj (OH x) -> h_copy os x = inl (x', news) ->
    copy_match true (map obs_obj (os ++ OH x' :: news)) (obs_obj (OH x)) (obs_obj (OH x')) = true.
Proof.
  intros os x x' news I PLS OK PLX E.
  set (fin := os ++ OH x' :: news).
  remember (map obs_obj fin) as all eqn:EA.
  assert (F : forall i o, nth_error news i = Some o -> nth_error fin (S (length os) + i) = Some o).
  { intros i o H. unfold fin. rewrite nth_error_app2 by lia.
    replace (S (length os) + i - length os) with (S i) by lia. exact H. }
  assert (APP : forall h g, get_graph os h = Some g -> nth_error fin h = Some (OG g)).
  { intros h g H. apply get_graph_nth. unfold fin. apply get_graph_app. assumption. }
  clearbody fin.
  unfold h_copy in E.
  destruct (h_new (h_fgg x) (SLabel (h_start x))) as [[c|] r0] eqn:E0.
  2:{ destruct r0; discriminate. }
  destruct (copy_groups os (S (length os)) (h_rules x)) as [[gs news0]|] eqn:E1; [|discriminate].
  inversion E; subst news0. clear E.
  destruct (h_new_start _ _ _ _ E0) as [ST _].
  pose proof (copy_groups_pos os _ _ _ _ E1 fin F) as P.
  destruct (groups_shape (rule_copy_of os fin) (fun r r' H => proj1 H) _ _ P) as [SH FC].
  pose proof (forall2_lhs (rule_copy_of os fin) (fun r r' H => proj1 H) _ _ FC) as LH.
  assert (TB : (if h_fgg x then t_dom (h_tab x) else []) = t_dom (h_tab x) /\
               (if h_fgg x then t_fac (h_tab x) else []) = t_fac (h_tab x)).
  { destruct (h_fgg x) eqn:FG; [auto|]. unfold plain_obj, plain_tab in PLX. cbn in PLX.
    destruct (PLX FG) as [-> ->]. auto. }
  destruct TB as [TD TF].
  assert (FQ : Forall2 (fun r r' => exists g c0, nth_error all (r_rhs r) = Some (obs_obj (OG g)) /\
                                                 nth_error all (r_rhs r') = Some (obs_obj (OG c0)) /\
                                                 obs_obj (OG c0) = obs_obj (OG g))
                       (concat (map snd (h_rules x))) (concat (map snd gs))).
  { eapply forall2_imp; [|exact FC]. intros r r' [_ (g & c0 & Hg & Hc & Hf)].
    exists g, c0. rewrite EA, !nth_error_map.
    rewrite (APP _ _ Hg), (get_graph_nth _ _ _ Hf). cbn [option_map]. split; [reflexivity|]. split; [reflexivity|].
    apply g_copy_observe; [eapply get_graph_ok; eauto | apply (PLS _ _ (get_graph_nth _ _ _ Hg)) | assumption]. }
  clear EA F APP P FC. subst x'.
  unfold obs_obj, copy_match, obs_tab. cbn [h_fgg h_rules h_start h_tab t_nl t_el t_dom t_fac].
  rewrite TD, TF, ST, LH, SH.
  rewrite Nat.eqb_refl. unfold elabel_eqb. rewrite !if_dec_refl. cbn [andb].
  apply forallb_forall. intros [r r'] Hp.
  destruct (forall2_combine _ _ _ FQ _ Hp) as (g & c0 & H1 & H2 & H3). cbn [fst snd] in *.
  rewrite H1, H2, H3. unfold obs_obj. apply graph_copy_match_refl.
Qed.

Lemma copy_match_graph : forall all g c,
    obs_obj (OG c) = obs_obj (OG g) -> copy_match true all (obs_obj (OG g)) (obs_obj (OG c)) = true.
Proof. intros all g c H. rewrite H. unfold obs_obj, copy_match. apply graph_copy_match_refl. Qed.

(** a successful copy SHOWS what its original shows (every accessor, label tables, domains and
    factor weights included; rules point to fresh copies of the rhs graphs) *)
Theorem copy_observe : forall s h a,
    inv s -> plain_ok s -> nth_error (objs s) h = Some a -> snd (step s (Copy h)) = ROk ->
    let s' := fst (step s (Copy h)) in
    exists c, nth_error (objs s') (length (objs s)) = Some c /\
              copy_match true (observe s') (obs_obj a) (obs_obj c) = true.
Proof.
  intros s h a I PL Ha R. cbn [step] in *. rewrite Ha in *.
  destruct a as [g|x].
  - destruct (g_copy g) as [c|] eqn:C; [|discriminate]. cbn [fst snd objs].
    exists (OG c). split; [rewrite nth_error_app2 by lia; rewrite Nat.sub_diag; reflexivity|].
    apply copy_match_graph. apply (g_copy_observe g c (I _ _ Ha) (PL _ _ Ha) C).
  - destruct (h_copy (objs s) x) as [[c news]|] eqn:C; [|discriminate]. cbn [fst snd objs].
    exists (OH c). split; [rewrite nth_error_app2 by lia; rewrite Nat.sub_diag; reflexivity|].
    unfold observe. cbn [objs]. apply h_copy_observe; [exact I | exact PL | apply (I _ _ Ha) | apply (PL _ _ Ha) | assumption].
Qed.
