(** C16 -- copies: a copy is [==] to its original; its handles are fresh, so by the frame
    theorem no later call on either changes what the other shows. *)
From Coq Require Import List Arith Bool Lia.
Import ListNotations.
Require Import Fggs.Model.GraphAPI Fggs.Proofs.GraphAPI_assoc Fggs.Proofs.GraphAPI_wf
        Fggs.Proofs.GraphAPI_graph Fggs.Proofs.GraphAPI_hrg Fggs.Proofs.GraphAPI_inv
        Fggs.Proofs.GraphAPI_atomic Fggs.Proofs.GraphAPI_eq Fggs.Proofs.GraphAPI_frame.

(** * a copied graph equals its original *)
Lemma nodes_phase_sub : forall l c0 c1 r,
    fold_err g_add_node l c0 = (c1, r) ->
    forall k v, aget ident_eq_dec (g_nodes c1) k = Some v ->
                aget ident_eq_dec (g_nodes c0) k = Some v \/ (In v l /\ k = n_id v).
Proof.
  induction l as [|n l IH]; intros c0 c1 r E k v H; cbn in E.
  - inversion E; subst. left. assumption.
  - unfold g_add_node in E at 1.
    destruct (amem ident_eq_dec (g_nodes c0) (n_id n)) eqn:M.
    + inversion E; subst. left. assumption.
    + destruct (IH _ _ _ E _ _ H) as [X|[X Y]]; [|right; split; [right; assumption | assumption]].
      cbn in X. rewrite aget_aset in X. destruct (ident_eq_dec (n_id n) k) as [<-|N].
      * inversion X; subst. right. split; [left; reflexivity | reflexivity].
      * left. assumption.
Qed.

Lemma g_add_edge_nodes_same : forall g e,
    tab_ok (g_tab g) -> (forall n, In n (e_nodes e) -> has_node g n) ->
    g_nodes (fst (g_add_edge g e)) = g_nodes g.
Proof.
  intros g e T H.
  assert (ID : g_add_missing g (e_nodes e) = g).
  { apply add_missing_id. intros n Hn. apply amem_true. exists n. apply H. assumption. }
  destruct (g_add_edge_cases g e T) as [[E _]|[[E _]|(t' & E & _)]]; rewrite E; cbn [fst]; rewrite ?ID; reflexivity.
Qed.

Lemma g_add_edge_stores : forall g e,
    tab_ok (g_tab g) -> snd (g_add_edge g e) = ROk ->
    In (e_id e, e) (g_edges (fst (g_add_edge g e))) /\
    forall k0 e0, In (k0, e0) (g_edges g) -> In (k0, e0) (g_edges (fst (g_add_edge g e))).
Proof.
  intros g e T R.
  destruct (g_add_edge_cases g e T) as [[E _]|[[E _]|(t' & E & M & _)]]; rewrite E in *; cbn [fst snd] in *; try discriminate.
  cbn. split; [apply aget_In with (Keq := ident_eq_dec); apply aget_aset_same|].
  intros k0 e0 H. apply In_aset_old; [|assumption].
  intro Ek. subst k0. apply amem_false in M. apply aget_None in M. apply M.
  change (e_id e) with (fst (e_id e, e0)). apply in_map. assumption.
Qed.

Lemma g_add_edge_result : forall g e, tab_ok (g_tab g) ->
    snd (g_add_edge g e) = ROk \/ snd (g_add_edge g e) = RErr ValueErr.
Proof.
  intros g e T. destruct (g_add_edge_cases g e T) as [[E _]|[[E _]|(t' & E & _)]]; rewrite E; cbn; auto.
Qed.

Lemma edges_phase_all : forall l c1 c2 r,
    fold_err g_add_edge l c1 = (c2, r) -> is_err r = false -> tab_ok (g_tab c1) ->
    (forall e n, In e l -> In n (e_nodes e) -> has_node c1 n) ->
    g_nodes c2 = g_nodes c1 /\
    (forall e, In e l -> In (e_id e, e) (g_edges c2)) /\
    (forall k0 e0, In (k0, e0) (g_edges c1) -> In (k0, e0) (g_edges c2)).
Proof.
  induction l as [|e l IH]; intros c1 c2 r E NE T HN; cbn in E.
  - inversion E; subst. split; [reflexivity|]. split; [intros ? []|auto].
  - pose proof (g_add_edge_nodes_same c1 e T (fun n Hn => HN e n (or_introl eq_refl) Hn)) as NS.
    pose proof (g_add_edge_stores c1 e T) as ST. pose proof (g_add_edge_tab c1 e T) as T'.
    pose proof (g_add_edge_result c1 e T) as RR.
    destruct (g_add_edge c1 e) as [c1' r1]. cbn [fst snd] in *.
    destruct RR as [->| ->].
    2:{ inversion E; subst. discriminate. }
    destruct (IH _ _ _ E NE T') as (A & B & C).
    { intros e0 n H1 H2. unfold has_node. rewrite NS. eapply HN; [right; eassumption | assumption]. }
    destruct (ST eq_refl) as [S1 S2]. split; [congruence|]. split.
    + intros e0 [<-|H]; [apply C; assumption | apply B; assumption].
    + intros k0 e0 H. apply C, S2. assumption.
Qed.

(** two dicts with distinct keys and the same entries agree on every key *)
Lemma same_entries_aget : forall {K V} (Keq : forall a b : K, {a = b} + {a <> b}) (m1 m2 : list (K * V)),
    NoDup (map fst m1) -> NoDup (map fst m2) ->
    (forall k v, In (k, v) m1 -> In (k, v) m2) -> (forall k v, In (k, v) m2 -> In (k, v) m1) ->
    forall k, aget Keq m1 k = aget Keq m2 k.
Proof.
  intros K V Keq m1 m2 N1 N2 I12 I21 k.
  destruct (aget Keq m1 k) as [v|] eqn:E1.
  - symmetry. apply In_aget; [assumption|]. apply I12. eapply aget_In; eauto.
  - destruct (aget Keq m2 k) as [v|] eqn:E2; [|reflexivity].
    apply aget_In in E2. apply I21 in E2. apply (In_aget Keq _ _ _ N1) in E2. congruence.
Qed.

Theorem g_copy_eq : forall g c, graph_ok g -> g_copy g = inl c -> graph_eqb g c = true.
Proof.
  intros g c OK E.
  destruct (g_fg g) eqn:FG.
  2:{ unfold g_copy in E. rewrite FG in E. inversion E; subst.
      apply graph_eqb_spec; [apply graph_ok_keys; assumption | split; cbn; [apply (gk_nodes _ OK) | apply (gk_edges _ OK)] |].
      cbn. auto. }
  assert (PG : plain_copy_ok g = true) by (unfold plain_copy_ok; rewrite FG; reflexivity).
  destruct (g_copy_ok g c OK E PG) as (OKc & Xc & Dc).
  unfold g_copy in E. rewrite FG in E.
  destruct (fold_err g_add_node (map snd (g_nodes g)) (empty_graph true)) as [c1 r1] eqn:E1.
  destruct (nodes_phase _ _ _ _ E1) as [G1 H1].
  pose proof (nodes_phase_sub _ _ _ _ E1) as S1.
  assert (NE1 : is_err r1 = false) by (destruct r1; [reflexivity | reflexivity | discriminate]).
  assert (E' : match fold_err g_add_edge (map snd (g_edges g)) c1 with
               | (_, RErr k) => inr k
               | (c0, _) => inl (gset_tab (gset_ext c0 (g_ext g))
                                          (set_fac (set_dom (g_tab c0) (t_dom (g_tab g))) (t_fac (g_tab g))))
               end = inl c) by (destruct r1; [exact E | exact E | discriminate]).
  clear E. destruct (fold_err g_add_edge (map snd (g_edges g)) c1) as [c2 r2] eqn:E2.
  assert (NE2 : is_err r2 = false) by (destruct r2; [reflexivity | reflexivity | discriminate]).
  assert (HAS : forall n, has_node g n -> has_node c1 n).
  { intros n Hn. apply H1; [assumption|]. apply aget_In in Hn. change n with (snd (n_id n, n)). apply in_map. assumption. }
  pose proof (gr_tab _ _ G1 tab_ok_empty) as T1.
  destruct (edges_phase_all _ _ _ _ E2 NE2 T1) as (A & B & C).
  { intros e n He Hn. apply in_map_iff in He. destruct He as [[k e'] [<- He]]. apply HAS. eapply (gk_att _ OK); eauto. }
  assert (Ec : g_nodes c = g_nodes c1 /\ g_edges c = g_edges c2 /\ g_ext c = g_ext g).
  { destruct r2; inversion E'; subst; cbn; auto. }
  destruct Ec as (Ec1 & Ec2 & Ec3).
  apply graph_eqb_spec; [apply graph_ok_keys; assumption | apply graph_ok_keys; assumption|].
  split; [|split; [|congruence]].
  - intros k. rewrite Ec1. destruct (aget ident_eq_dec (g_nodes g) k) as [v|] eqn:Eg.
    + symmetry. pose proof (keyed_aget ident_eq_dec n_id _ _ _ (gk_nodes _ OK) Eg) as Ek. subst k. apply HAS. exact Eg.
    + destruct (aget ident_eq_dec (g_nodes c1) k) as [v|] eqn:Ec; [|reflexivity].
      destruct (S1 _ _ Ec) as [X|[X Y]]; [discriminate|].
      apply in_map_iff in X. destruct X as [[k' v'] [<- X]]. cbn in Y.
      pose proof (keyed_In_aget ident_eq_dec n_id _ _ _ (gk_nodes _ OK) X) as Z. cbn in Z. congruence.
  - apply same_entries_aget; [apply (gk_edges _ OK) | apply (gk_edges _ OKc) | |].
    + intros k e H. rewrite Ec2. pose proof (proj2 (gk_edges _ OK) _ _ H) as Ek. subst k.
      apply B. change e with (snd (e_id e, e)). apply in_map. assumption.
    + intros k e H. apply Dc. assumption.
Qed.

(** * a copied grammar equals its original *)
Section CopyPos.
  Variable os : list obj.

  (** [r'] is the copy of [r], its rhs living in the final family [fin] *)
  Definition rule_copy_of (fin : list obj) (r r' : rule) : Prop :=
    r_lhs r' = r_lhs r /\
    exists g c, get_graph os (r_rhs r) = Some g /\ g_copy g = inl c /\ get_graph fin (r_rhs r') = Some c.

  Lemma copy_rules_pos : forall rs base rs' news,
      copy_rules os base rs = inl (rs', news) ->
      forall fin, (forall i o, nth_error news i = Some o -> nth_error fin (base + i) = Some o) ->
      Forall2 (rule_copy_of fin) rs rs'.
  Proof.
    induction rs as [|r rs IH]; intros base rs' news E fin F; cbn in E.
    - inversion E; subst. constructor.
    - destruct (get_graph os (r_rhs r)) as [g|] eqn:G; [|discriminate].
      destruct (g_copy g) as [c|] eqn:C; [|discriminate].
      destruct (negb (rule_ok (r_lhs r) c)); [discriminate|].
      destruct (copy_rules os (S base) rs) as [[rs0 news0]|] eqn:E0; [|discriminate].
      inversion E; subst. constructor.
      + split; [reflexivity|]. exists g, c. split; [assumption|]. split; [assumption|].
        unfold get_graph. cbn. specialize (F 0 (OG c) eq_refl). rewrite Nat.add_0_r in F. rewrite F. reflexivity.
      + eapply IH; [eassumption|]. intros i o H. specialize (F (S i) o H). rewrite Nat.add_succ_r in F. exact F.
  Qed.

  Lemma copy_groups_pos : forall gs base gs' news,
      copy_groups os base gs = inl (gs', news) ->
      forall fin, (forall i o, nth_error news i = Some o -> nth_error fin (base + i) = Some o) ->
      Forall2 (fun g g' => fst g' = fst g /\ Forall2 (rule_copy_of fin) (snd g) (snd g')) gs gs'.
  Proof.
    induction gs as [|[k rs] gs IH]; intros base gs' news E fin F; cbn in E.
    - inversion E; subst. constructor.
    - destruct (copy_rules os base rs) as [[rs1 news1]|] eqn:E1; [|discriminate].
      destruct (copy_groups os (base + length news1) gs) as [[gs2 news2]|] eqn:E2; [|discriminate].
      inversion E; subst. constructor.
      + split; [reflexivity|]. cbn. eapply copy_rules_pos; [eassumption|].
        intros i o H. apply F. rewrite nth_error_app1; [assumption|]. apply nth_error_Some. congruence.
      + eapply IH; [eassumption|]. intros i o H. rewrite <- Nat.add_assoc. apply F.
        rewrite nth_error_app2 by lia. replace (length news1 + i - length news1) with i by lia. assumption.
  Qed.
End CopyPos.

Lemma forall2_aget : forall {K A B} (Keq : forall a b : K, {a = b} + {a <> b}) (P : A -> B -> Prop)
                            (m : list (K * A)) (m' : list (K * B)),
    Forall2 (fun g g' => fst g' = fst g /\ P (snd g) (snd g')) m m' ->
    forall k v, aget Keq m k = Some v -> exists v', aget Keq m' k = Some v' /\ P v v'.
Proof.
  intros K A B Keq P m m' F. induction F as [|[k1 a] [k2 b] m m' [E1 E2] F IH]; intros k v H; cbn in *; [discriminate|].
  subst k2. destruct (Keq k1 k); [inversion H; subst; eauto | apply IH; assumption].
Qed.

Lemma forall2_len : forall {A B} (P : A -> B -> Prop) l l', Forall2 P l l' -> length l = length l'.
Proof. intros A B P l l' F. induction F; cbn; congruence. Qed.

Lemma forall2_list_eqb : forall {A} (eq : A -> A -> bool) (P : A -> A -> Prop) l l',
    (forall a b, P a b -> eq a b = true) -> Forall2 P l l' -> list_eqb eq l l' = true.
Proof.
  intros A eq P l l' H F. induction F as [|a b l l' Pab F IH]; cbn; [reflexivity|].
  rewrite (H _ _ Pab). assumption.
Qed.

Theorem h_copy_eq : forall os x x' news,
    inv_os os -> hrg_ok os x -> h_copy os x = inl (x', news) ->
    hrg_eqb (os ++ OH x' :: news) x x' = true.
Proof.
  intros os x x' news I OK E. unfold h_copy in E.
  destruct (h_new (h_fgg x) (SLabel (h_start x))) as [[c|] r0] eqn:E0.
  2:{ destruct r0; discriminate. }
  destruct (copy_groups os (S (length os)) (h_rules x)) as [[gs news0]|] eqn:E1; [|discriminate].
  inversion E; subst news0. clear E.
  destruct (h_new_start _ _ _ _ E0) as [ST _].
  set (fin := os ++ OH x' :: news).
  assert (F : forall i o, nth_error news i = Some o -> nth_error fin (S (length os) + i) = Some o).
  { intros i o H. unfold fin. rewrite nth_error_app2 by lia.
    replace (S (length os) + i - length os) with (S i) by lia. exact H. }
  pose proof (copy_groups_pos os _ _ _ _ E1 fin F) as P.
  destruct OK as [[[N1 K1] [N2 K2]] K L SR R].
  subst x'. unfold hrg_eqb. split4.
  - apply dict_eqb_spec; [assumption|]. split; [cbn; exact (forall2_len _ _ _ P)|].
    intros k rs H. cbn [h_rules].
    destruct (forall2_aget elabel_eq_dec _ _ _ P _ _ H) as [rs' [H1 H2]].
    exists rs'. split; [exact H1|].
    apply (forall2_list_eqb _ (rule_copy_of os fin)); [|assumption].
    intros r r' [Hl (g & c0 & Hg & Hc & Hf)].
    unfold rule_eqb. apply andb_true_iff. split; [apply elabel_eqb_eq; congruence|].
    unfold fin in Hf. rewrite (get_graph_app _ _ _ _ Hg). rewrite Hf.
    apply g_copy_eq; [eapply get_graph_ok; eauto | assumption].
  - apply elabel_eqb_eq. cbn. congruence.
  - cbn. apply dict_eqb_refl; [assumption | intros; apply Nat.eqb_refl].
  - cbn. apply dict_eqb_refl; [assumption | intros; apply elabel_eqb_eq; reflexivity].
Qed.

(** * the property statements *)
(** a successful copy appends its objects, the first of which is [==] to the original *)
Theorem copy_eq : forall s h a,
    inv s -> nth_error (objs s) h = Some a -> snd (step s (Copy h)) = ROk ->
    let s' := fst (step s (Copy h)) in
    exists c, nth_error (objs s') (length (objs s)) = Some c /\ nth_error (objs s') h = Some a /\
              obj_eqb (objs s') a c = true.
Proof.
  intros s h a I Ha R. cbn [step] in *. rewrite Ha in *.
  assert (L : h < length (objs s)) by (apply nth_error_Some; congruence).
  destruct a as [g|x].
  - destruct (g_copy g) as [c|] eqn:C; [|discriminate]. cbn.
    exists (OG c). split; [rewrite nth_error_app2 by lia; rewrite Nat.sub_diag; reflexivity|].
    split; [rewrite nth_error_app1 by assumption; assumption|].
    cbn. apply g_copy_eq; [apply (I _ _ Ha) | assumption].
  - destruct (h_copy (objs s) x) as [[c news]|] eqn:C; [|discriminate]. cbn.
    exists (OH c). split; [rewrite nth_error_app2 by lia; rewrite Nat.sub_diag; reflexivity|].
    split; [rewrite nth_error_app1 by assumption; assumption|].
    cbn. apply h_copy_eq; [exact I | apply (I _ _ Ha) | assumption].
Qed.

(** every handle the new grammar refers to is new: the copy shares no mutable object with
    its original *)
Theorem copy_fresh : forall s h x,
    nth_error (objs s) h = Some (OH x) -> snd (step s (Copy h)) = ROk ->
    let s' := fst (step s (Copy h)) in
    exists c, nth_error (objs s') (length (objs s)) = Some (OH c) /\
              forall r, In r (rules_of (OH c)) -> length (objs s) < r_rhs r < length (objs s').
Proof.
  intros s h x Ha R. cbn [step] in *. rewrite Ha in *.
  destruct (h_copy (objs s) x) as [[c news]|] eqn:C; [|discriminate]. cbn.
  exists c. split; [rewrite nth_error_app2 by lia; rewrite Nat.sub_diag; reflexivity|].
  unfold h_copy in C.
  destruct (h_new (h_fgg x) (SLabel (h_start x))) as [[c0|] r0]; [|destruct r0; discriminate].
  destruct (copy_groups (objs s) (S (length (objs s))) (h_rules x)) as [[gs news0]|] eqn:E1; [|discriminate].
  inversion C; subst. destruct (copy_groups_spec _ _ _ _ _ E1) as (_ & B & _).
  intros r Hr. apply rules_of_in in Hr. destruct Hr as (k & rs & H1 & H2). cbn in H1.
  destruct (B _ _ _ H1 H2) as (rs0 & _ & _ & (r1 & g1 & c1 & _ & _ & _ & _ & _ & Hb & Hn)).
  assert (X : r_rhs r - S (length (objs s)) < length news) by (apply nth_error_Some; congruence).
  rewrite app_length. cbn. lia.
Qed.

(** no later call on the objects of the copy changes any object that existed before, and no
    later call on older objects changes any object of the copy *)
Theorem copy_independent : forall s h ops,
    let s' := fst (step s (Copy h)) in
    (forall k, k < length (objs s) ->
               (forall o t, In o ops -> target o = Some t -> length (objs s) <= t) ->
               nth_error (objs (run s' ops)) k = nth_error (objs s) k) /\
    (forall k, length (objs s) <= k < length (objs s') ->
               (forall o t, In o ops -> target o = Some t -> t < length (objs s)) ->
               nth_error (objs (run s' ops)) k = nth_error (objs s') k).
Proof.
  intros s h ops s'. split.
  - intros k L H. rewrite run_other_unchanged.
    + apply step_other_unchanged; [assumption | discriminate].
    + pose proof (step_length s (Copy h)) as SL. fold s' in SL. lia.
    + intros o Ho E. specialize (H o k Ho E). lia.
  - intros k L H. apply run_other_unchanged; [lia|].
    intros o Ho E. specialize (H o k Ho E). lia.
Qed.
