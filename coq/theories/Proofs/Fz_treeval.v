(** C05 / sum-product, part B: the value of the root rule of the factorisation, in an
    environment that solves the equations of the fresh nonterminals, is the value of the
    original rule -- in every commutative semiring, for every valid rooted decomposition. *)
From Coq Require Import List Arith Bool PeanoNat Lia Permutation Ring Ring_theory.
Import ListNotations.
Require Import Fggs.Model.Conj.
Require Import Fggs.Model.TreeDec Fggs.Proofs.TreeDec_graph Fggs.Model.Factorize
               Fggs.Proofs.Fz_rooted Fggs.Proofs.Fz_struct Fggs.Proofs.Fz_main Fggs.Proofs.Fz_inline.
Require Import Fggs.Proofs.TreeDec_tdok Fggs.Proofs.Fz_bridge Fggs.Proofs.Fz_final Fggs.Proofs.Fz_wv.
Require Import Fggs.Model.Semiring Fggs.Model.SCC Fggs.Model.SumProduct.
Require Import Fggs.Proofs.SCC_ntgraph Fggs.Proofs.BigSum Fggs.Proofs.SP_trees Fggs.Proofs.SP_nonrec
               Fggs.Proofs.SP_code Fggs.Proofs.SP_rename Fggs.Proofs.SP_main Fggs.Proofs.SP_unfold.
Require Import Fggs.Proofs.Fz_embed Fggs.Proofs.Fz_ao.

Lemma pos_of_index_of ids v : pos_of ids v = index_of v ids.
Proof.
  unfold pos_of. induction ids as [|x ids IH]; [reflexivity|]. cbn [index_by index_of].
  rewrite (Nat.eqb_sym v x). destruct (Nat.eqb x v); [reflexivity|]. now rewrite IH.
Qed.
Lemma lminus_minus b x : lminus b x = minus b x.
Proof. unfold lminus, minus. apply filter_ext. intro v. reflexivity. Qed.

Lemma nlabel_seq ns : forall s, map fst ns = seq s (length ns) ->
  forall v, s <= v < s + length ns -> nlabel ns v = nth (v - s) (map snd ns) 0.
Proof.
  induction ns as [|[u l] ns IH]; intros s E v Hv; [cbn in Hv; lia|].
  cbn [map fst length seq] in E. injection E as -> E. cbn [nlabel fst snd map].
  destruct (Nat.eqb_spec s v) as [->|Hne]; [now rewrite Nat.sub_diag|].
  rewrite (IH (S s) E v) by (cbn [length] in Hv; lia).
  replace (v - s) with (S (v - S s)) by lia. reflexivity.
Qed.

Section TreeVal.
Context {R : Type} (o : sr_ops R).
Hypothesis Hr : sr_ring o.
Add Ring RingRTV : (sr_is_srt o Hr).
Variables (r : frule) (t : ftd) (ords : list (list nat)) (nm : nat -> elabel).
Variable G : grammar.
Variable lab : elabel -> nat.
Variable e' : env (R:=R).
Let n := length (fr_nodes r).
Let labels := map snd (fr_nodes r).
Let sizes := map (dom G) labels.
Hypothesis Hids : fr_ids r = seq 0 n.

(** [to_sp_rule] with an abstract numbering of the labels *)
Definition tr (c : frule) : rule :=
  {| r_lhs := lab (fr_lhs c); r_nodes := map snd (fr_nodes c);
     r_edges := map (fun e => (lab (fe_lab e), map (pos_of (fr_ids c)) (fe_att e))) (fr_edges c);
     r_ext := map (pos_of (fr_ids c)) (fr_ext c) |}.

Definition EP (es : list fedge) (a : list nat) : R :=
  prodS o es (fun e => e' (lab (fe_lab e)) (sel a (fe_att e))).

Lemma nlabel_nth v : v < n -> nlabel (fr_nodes r) v = nth v labels 0.
Proof.
  intro H. unfold labels. rewrite (nlabel_seq (fr_nodes r) 0) by (trivial; unfold n in H; lia).
  now rewrite Nat.sub_0_r.
Qed.

Lemma tr_mk lhs bag es ext : (forall v, In v bag -> v < n) ->
  tr (mk_rule r lhs bag es ext)
  = sub_rule labels (lab lhs) bag (map (fun e => (lab (fe_lab e), fe_att e)) es) ext.
Proof.
  intro B. unfold tr, sub_rule, mk_rule, fr_ids. cbn [fr_lhs fr_nodes fr_edges fr_ext].
  rewrite !map_map. cbn [fst snd]. rewrite map_id. f_equal.
  - apply map_ext_in. intros v Hv. now apply nlabel_nth, B.
  - apply map_ext. intro e. f_equal. apply map_ext. intro v. apply pos_of_index_of.
  - apply map_ext. intro v. apply pos_of_index_of.
Qed.

Lemma rule_val_mk lhs bag es ext a :
  NoDup bag -> (forall v, In v bag -> v < n) -> incl ext bag ->
  (forall e, In e es -> incl (fe_att e) bag) -> In a (all_assts sizes) ->
  rule_val o G e' (tr (mk_rule r lhs bag es ext)) (sel a ext)
  = sumS o (assts_over sizes (minus bag ext) a) (EP es).
Proof.
  intros ND B HX HE Ha. rewrite tr_mk by exact B.
  assert (B' : forall v, In v bag -> v < length labels) by (intros v Hv; unfold labels; rewrite map_length; now apply B).
  rewrite (embed o Hr G labels bag ND B' e' (lab lhs) _ ext a HX); trivial.
  - apply sumS_ext. intros a' _. unfold EP. now rewrite prodS_map.
  - intros ed Hed. apply in_map_iff in Hed. destruct Hed as (e & <- & He). cbn [snd]. now apply HE.
Qed.

Lemma EP_dep es : dep_only (flat_map fe_att es) (EP es).
Proof.
  intros a a' H. unfold EP. apply prodS_ext. intros e He. f_equal. apply sel_eq_In. intros u Hu. apply H.
  apply in_flat_map. eauto.
Qed.
Lemma EP_app es1 es2 a : EP (es1 ++ es2) a = mul o (EP es1 a) (EP es2 a).
Proof. unfold EP. apply (prodS_app o Hr). Qed.
Lemma EP_flat_map {A} (f : A -> list fedge) cs a : EP (flat_map f cs) a = prodS o cs (fun c => EP (f c) a).
Proof. induction cs as [|c cs IHc]; [reflexivity|]. cbn [flat_map]. rewrite EP_app, prodS_cons. now rewrite IHc. Qed.
Lemma EP_perm es es' a : Permutation es es' -> EP es a = EP es' a.
Proof. intro P. unfold EP. now apply (prodS_perm o Hr). Qed.

(** the environment solves the equation of every fresh nonterminal of the subtree *)
Inductive eqs_ok : rt -> Prop :=
| eqs_node i cs :
    (forall c, In c cs -> eqs_ok c) ->
    (forall c zeta, In c cs ->
       e' (lab (nm (rt_root c))) zeta = rule_val o G e' (tr (root_rule r t ords nm c (Some i))) zeta) ->
    eqs_ok (RT i cs).

Lemma placements_atts : forall T parent e, In e (placements r t T parent) -> incl (fe_att e) (Vn t T).
Proof.
  induction T as [i cs IH] using rt_ind'. intros parent e. rewrite Forall_forall in IH.
  rewrite placements_eq, in_app_iff. unfold Vn. rewrite rt_indices_eq. cbn [flat_map]. intros [H|H] x Hx; apply in_or_app.
  - left. unfold place_edges in H. apply filter_In in H. destruct H as [_ H]. apply andb_true_iff in H.
    destruct H as [H _]. apply subset_incl in H. now apply H.
  - right. apply in_flat_map in H. destruct H as (c & Hc & He). apply (IH c Hc (Some i) e He) in Hx.
    unfold Vn in Hx. apply in_flat_map in Hx. destruct Hx as (j & Hj & Hx). apply in_flat_map. exists j. split; trivial.
    apply in_flat_map. eauto.
Qed.
Lemma EP_placements_dep T parent : dep_only (Vn t T) (EP (placements r t T parent)).
Proof.
  eapply dep_only_mono; [|apply EP_dep]. intros x Hx. apply in_flat_map in Hx. destruct Hx as (e & He & Hx).
  exact (placements_atts T parent e He x Hx).
Qed.

Lemma kid_edges_EP cs a :
  EP (kid_edges ords nm cs) a = prodS o cs (fun c => e' (lab (nm (rt_root c))) (sel a (nth (rt_root c) ords []))).
Proof. unfold EP, kid_edges. now rewrite prodS_map. Qed.

(** ** the value of the rule of a subtree = one sum over all the variables of the subtree *)
Theorem tree_val : forall T parent,
  rip t T -> NoDup (rt_indices T) -> ords_ok t ords T parent ->
  (forall j, In j (rt_indices T) -> NoDup (bag_of t j) /\ forall v, In v (bag_of t j) -> v < n) ->
  (parent = None -> incl (fr_ext r) (bag_of t (rt_root T))) ->
  eqs_ok T ->
  forall a, In a (all_assts sizes) ->
    rule_val o G e' (tr (root_rule r t ords nm T parent)) (sel a (ext_at r ords parent (rt_root T)))
    = sumS o (assts_over sizes (Wv r t ords T parent) a) (EP (placements r t T parent)).
Proof.
  induction T as [i cs IH] using rt_ind'. intros parent Rp ND OO Bg Hroot Eq a Ha. rewrite Forall_forall in IH.
  cbn [rt_root] in *. unfold root_rule. cbn [rt_root rt_kids].
  destruct (Bg i) as [NDi Bi]; [rewrite rt_indices_eq; now left|].
  pose proof (all_assts_length _ _ Ha) as La.
  assert (Ln : length sizes = n) by (unfold sizes, labels; now rewrite !map_length).
  assert (OOc : forall c, In c cs -> ords_ok t ords c (Some i)) by (intros c Hc; eapply ords_child; eauto).
  assert (Bgc : forall c, In c cs -> forall j, In j (rt_indices c) -> NoDup (bag_of t j) /\ forall v, In v (bag_of t j) -> v < n).
  { intros c Hc j Hj. apply Bg. rewrite rt_indices_eq. right. apply in_flat_map. eauto. }
  assert (NDbc : forall j, In j (rt_indices (RT i cs)) -> NoDup (bag_of t j)) by (intros j Hj; now apply Bg).
  (* externals of the children *)
  assert (ExtC : forall c, In c cs -> forall x, In x (nth (rt_root c) ords []) <-> In x (bag_of t (rt_root c)) /\ In x (bag_of t i)).
  { intros c Hc x. specialize (OOc c Hc). destruct c as [j cs']. apply ords_ok_eq in OOc. destruct OOc as [P _].
    cbn [rt_root]. apply (ext_child_In r t ords j i x); trivial. apply (Bgc (RT j cs') Hc). rewrite rt_indices_eq. now left. }
  (* externals of this bag *)
  assert (ExtI : incl (ext_at r ords parent i) (bag_of t i)).
  { destruct parent as [p|]; [|now apply Hroot]. apply ords_ok_eq in OO. destruct OO as [P _].
    intros x Hx. apply (ext_child_In r t ords i p x NDi P) in Hx. tauto. }
  rewrite rule_val_mk; trivial.
  2:{ intros e He. apply in_app_or in He. destruct He as [He|He].
      - unfold place_edges in He. apply filter_In in He. destruct He as [_ He]. apply andb_true_iff in He.
        destruct He as [He _]. now apply subset_incl.
      - unfold kid_edges in He. apply in_map_iff in He. destruct He as (c & <- & Hc). cbn [fe_att new_edge].
        intros x Hx. apply (ExtC c Hc) in Hx. tauto. }
  change (Wv r t ords (RT i cs) parent) with (minus (bag_of t i) (ext_at r ords parent i) ++ flat_map (fun c => Wv r t ords c (Some i)) cs). rewrite (AO_sum_app o Hr).
  apply sumS_ext. intros a1 Ha1.
  assert (R1 : forall v, In v (minus (bag_of t i) (ext_at r ords parent i)) -> v < length a).
  { intros v Hv. apply minus_In in Hv. rewrite La, Ln. apply Bi. tauto. }
  destruct (AO_keeps sizes _ a a1 R1 Ha1) as [L1 K1].
  assert (Ha1' : In a1 (all_assts sizes)).
  { apply in_AO_fwd in Ha1; [|exact R1]. destruct Ha1 as (_ & Ho & Hs).
    apply all_assts_intro; [congruence|]. intros v Hv.
    destruct (in_dec Nat.eq_dec v (minus (bag_of t i) (ext_at r ords parent i))) as [H|H]; [now apply Hs|].
    rewrite Ho by exact H. now apply all_assts_nth. }
  rewrite EP_app, kid_edges_EP, placements_eq.
  (* the children's values, by the equations and the induction hypothesis *)
  assert (Kid : forall c, In c cs ->
            e' (lab (nm (rt_root c))) (sel a1 (nth (rt_root c) ords []))
            = sumS o (assts_over sizes (Wv r t ords c (Some i)) a1) (EP (placements r t c (Some i)))).
  { intros c Hc. inversion Eq as [i0 cs0 E1 E2]; subst.
    rewrite (E2 c _ Hc).
    destruct (NoDup_child i cs c ND Hc) as [NDc _].
    apply (IH c Hc (Some i)); trivial.
    - now apply (rip_inv t i cs Rp).
    - now apply OOc.
    - now apply Bgc.
    - discriminate.
    - now apply E1. }
  rewrite (prodS_ext o _ _ (fun c => sumS o (assts_over sizes (Wv r t ords c (Some i)) a1) (EP (placements r t c (Some i))))) by exact Kid.
  (* product of sums over disjoint variable sets *)
  assert (Priv : forall c x, In c cs -> In x (Wv r t ords c (Some i)) -> occurs t x c /\ ~ In x (bag_of t i)).
  { intros c x Hc Hx. destruct (NoDup_child i cs c ND Hc) as [NDc Hic].
    apply (Wv_private r t ords c i); trivial.
    - now apply (rip_inv t i cs Rp).
    - now apply OOc.
    - intros j Hj. now apply (Bgc c Hc).
    - now apply (up_child t i cs c). }
  assert (RgW : forall c v, In c cs -> In v (Wv r t ords c (Some i)) -> v < length a1).
  { intros c v Hc Hv. destruct (Priv c v Hc Hv) as [(j & Hj & Hvj) _]. rewrite L1, La, Ln. now apply (Bgc c Hc j Hj). }
  rewrite (prod_of_AO_sums o Hr sizes (fun c => Vn t c) (fun c => Wv r t ords c (Some i))
                           (fun c => EP (placements r t c (Some i))) cs a1); trivial.
  2:{ intros c _. apply EP_placements_dep. }
  2:{ (* separation of the children *)
      rewrite rt_indices_eq in ND. inversion ND as [|? ? _ NDk]; subst.
      assert (G0 : forall l, (forall c, In c l -> In c cs) -> NoDup (flat_map rt_indices l) ->
                   separated (fun c => Vn t c) (fun c => Wv r t ords c (Some i)) l).
      { induction l as [|c l IHl]; intros Hsub NDl; [exact I|]. cbn [flat_map] in NDl. split.
        - intros c' Hc'. assert (Hc : In c cs) by (apply Hsub; now left). assert (Hc'cs : In c' cs) by (apply Hsub; now right).
          assert (D1 : forall j, In j (rt_indices c') -> ~ In j (rt_indices c)).
          { intros j Hj Hj2. apply (NoDup_app_disj _ _ j NDl Hj2). apply in_flat_map. eauto. }
          assert (D2 : forall j, In j (rt_indices c) -> ~ In j (rt_indices c')).
          { intros j Hj Hj2. exact (D1 j Hj2 Hj). }
          assert (ND' : NoDup (rt_indices (RT i cs))) by (rewrite rt_indices_eq; exact ND).
          split; intros v Hv.
          + exact (Wv_sibling r t ords i cs c' c v Rp ND' (or_intror I) NDbc OOc Hc'cs Hc D2 Hv).
          + exact (Wv_sibling r t ords i cs c c' v Rp ND' (or_intror I) NDbc OOc Hc Hc'cs D1 Hv).
        - apply IHl; [intros d Hd; apply Hsub; now right|eapply NoDup_app_r; exact NDl]. }
      apply G0; auto. }
  (* this bag's own edges do not read the children's variables *)
  rewrite (sumS_mul_l o Hr). apply sumS_ext. intros a2 Ha2. rewrite EP_app. f_equal.
  - symmetry. apply (dep_const (bag_of t i) (EP (place_edges r (bag_of t i) (pbag t parent))) sizes
                              (flat_map (fun c => Wv r t ords c (Some i)) cs) a1 a2); trivial.
    + eapply dep_only_mono; [|apply EP_dep]. intros x Hx. apply in_flat_map in Hx. destruct Hx as (e & He & Hx).
      unfold place_edges in He. apply filter_In in He. destruct He as [_ He]. apply andb_true_iff in He.
      destruct He as [He _]. apply subset_incl in He. now apply He.
    + intros v Hv. apply in_flat_map in Hv. destruct Hv as (c & Hc & Hv). exact (proj2 (Priv c v Hc Hv)).
    + intros v Hv. apply in_flat_map in Hv. destruct Hv as (c & Hc & Hv). now apply (RgW c).
  - (* EP of the concatenated placements = product of the EPs *)
    symmetry. apply EP_flat_map.
Qed.


(** ** at the root: the original rule *)
Lemma nodes_eta : NoDup (fr_ids r) -> fr_nodes r = map (fun v => (v, nlabel (fr_nodes r) v)) (fr_ids r).
Proof.
  intro ND. unfold fr_ids. rewrite map_map.
  rewrite <- (map_id (fr_nodes r)) at 1. apply map_ext_in. intros [v l] Hp. cbn [fst]. f_equal.
  symmetry. now apply nlabel_In.
Qed.
Lemma rule_eta : NoDup (fr_ids r) -> r = mk_rule r (fr_lhs r) (fr_ids r) (fr_edges r) (fr_ext r).
Proof. intro ND. unfold mk_rule. rewrite <- (nodes_eta ND). destruct r; reflexivity. Qed.

Theorem root_val T :
  atts_in_ids r -> incl (fr_ext r) (fr_ids r) ->
  rtd_valid r t T -> ords_ok t ords T None -> incl (fr_ext r) (bag_of t (rt_root T)) ->
  eqs_ok T ->
  forall a, In a (all_assts sizes) ->
    rule_val o G e' (tr (root_rule r t ords nm T None)) (sel a (fr_ext r))
    = rule_val o G e' (tr r) (sel a (fr_ext r)).
Proof.
  intros A Ext V OO Hroot Eq a Ha.
  assert (NDids : NoDup (fr_ids r)) by (rewrite Hids; apply seq_NoDup).
  assert (Bg : forall j, In j (rt_indices T) -> NoDup (bag_of t j) /\ forall v, In v (bag_of t j) -> v < n).
  { intros j Hj. split; [now apply (rv_bags_nodup r t T V)|]. intros v Hv.
    pose proof (rv_bags_sub r t T V j v Hj Hv) as H. rewrite Hids in H. apply in_seq in H. lia. }
  pose proof (tree_val T None (rv_rip r t T V) (rv_nodup r t T V) OO Bg (fun _ => Hroot) Eq a Ha) as TV.
  cbn [ext_at] in TV. rewrite TV. clear TV.
  pose proof (all_assts_length _ _ Ha) as La.
  assert (Ln : length sizes = n) by (unfold sizes, labels; now rewrite !map_length).
  (* the original rule, as a rule over the bag of all nodes *)
  assert (Etr : tr r = tr (mk_rule r (fr_lhs r) (seq 0 n) (fr_edges r) (fr_ext r))).
  { rewrite <- Hids, <- (rule_eta NDids). reflexivity. }
  rewrite Etr.
  rewrite rule_val_mk; trivial.
  2:{ apply seq_NoDup. } 2:{ intros v Hv. apply in_seq in Hv. lia. }
  2:{ rewrite <- Hids. exact Ext. } 2:{ intros e He. rewrite <- Hids. now apply A. }
  (* same variables, same edges *)
  rewrite (sumS_ext o _ _ (EP (fr_edges r))).
  2:{ intros a' _. apply EP_perm. apply placements_perm; trivial. }
  apply (AO_sum_perm o Hr).
  - apply Wv_NoDup; [apply V|apply V|exact OO|]. intros j Hj. now apply Bg.
  - apply NoDup_filter, seq_NoDup.
  - intro x. rewrite minus_In, in_seq. split.
    + intro Hx. split.
      * apply Wv_sub in Hx. apply Vn_occurs in Hx. destruct Hx as (j & Hj & Hxj).
        destruct (Bg j Hj) as [_ B]. specialize (B x Hxj). lia.
      * destruct T as [i cs]. rewrite Wv_eq, in_app_iff in Hx. cbn [rt_root] in Hroot. destruct Hx as [Hx|Hx].
        -- apply lminus_In in Hx. cbn [ext_at] in Hx. tauto.
        -- apply in_flat_map in Hx. destruct Hx as (c & Hc & Hx). intro He.
           assert (Hres : occurs t x c /\ ~ In x (bag_of t i)).
           { destruct (NoDup_child i cs c (rv_nodup r t _ V) Hc) as [NDc Hic].
             apply (Wv_private r t ords c i); trivial.
             - now apply (rip_inv t i cs (rv_rip r t _ V)).
             - eapply ords_child; eauto.
             - intros j Hj. apply Bg. rewrite rt_indices_eq. right. apply in_flat_map. eauto.
             - apply (up_child t i cs c); trivial; apply V. }
           apply (proj2 Hres). now apply Hroot.
    + intros [Hx Hn]. apply Wv_complete; trivial.
      * intros j Hj. now apply Bg.
      * apply (rv_vertex r t T V). rewrite Hids. apply in_seq. lia.
  - intros v Hv. apply Wv_sub in Hv. apply Vn_occurs in Hv. destruct Hv as (j & Hj & Hvj).
    destruct (Bg j Hj) as [_ B]. rewrite La, Ln. now apply B.
Qed.

End TreeVal.

(** [tr] with the numbering of a label table is the translation used by the check *)
Lemma to_sp_rule_tr tbl c : to_sp_rule tbl c = tr (lab_idx tbl) c.
Proof. reflexivity. Qed.

(** * C05_sum_product, rule level *)
Section Final.
Context {R : Type} (o : sr_ops R).
Hypothesis Hr : sr_ring o.

Lemma eqs_from r t ords nm G lab (e' : env (R:=R)) : forall T,
  (forall c, In c (flat_map (fun d => rules_of_rt r t ords nm d (Some (rt_root T))) (rt_kids T)) ->
     forall zeta, e' (lab (fr_lhs c)) zeta = rule_val o G e' (tr lab c) zeta) ->
  eqs_ok o r t ords nm G lab e' T.
Proof.
  induction T as [i cs IH] using rt_ind'. intro H. cbn [rt_root rt_kids] in H. rewrite Forall_forall in IH.
  constructor.
  - intros c Hc. apply IH; trivial. intros d Hd zeta. apply H. apply in_flat_map. exists c. split; trivial.
    destruct c as [j cs']. cbn [rt_root rt_kids] in Hd. now apply (kids_rules_incl r t ords nm j cs' (Some i)).
  - intros c zeta Hc.
    assert (Hin : In (root_rule r t ords nm c (Some i)) (flat_map (fun d => rules_of_rt r t ords nm d (Some i)) cs)).
    { apply in_flat_map. exists c. split; trivial. apply root_rule_in. }
    exact (H _ Hin zeta).
Qed.

(** For every rule whose nodes are numbered by their positions, every valid decomposition, every
    order: in an environment that gives every fresh nonterminal the value of its one rule, the
    last new rule (the one for the original left-hand side) has the value of the original rule,
    at every external assignment that extends to an in-range assignment of the nodes. *)
Theorem sum_product_rule r t ords labels rs ls G lab (e' : env (R:=R)) :
  Fz_final.wf_rule r -> fr_ids r = seq 0 (length (fr_nodes r)) ->
  ftd_wfb t = true -> valid_td (primal r) (td_of_ftd t) ->
  factorize_rule_model r labels t ords = Ok (rs, ls) ->
  exists front last, rs = front ++ [last] /\
    ((forall c, In c front -> forall zeta, e' (lab (fr_lhs c)) zeta = rule_val o G e' (tr lab c) zeta) ->
     forall a, In a (all_assts (map (dom G) (map snd (fr_nodes r)))) ->
       rule_val o G e' (tr lab last) (sel a (fr_ext r)) = rule_val o G e' (tr lab r) (sel a (fr_ext r))).
Proof.
  intros (NDi & A & Ext) Hids WF V H.
  destruct (find_root (fr_ext r) t 0) as [root|] eqn:FR; [|unfold factorize_rule_model, factorize_rule_from in H; rewrite FR in H; discriminate].
  destruct (valid_rooted r t WF V root NDi A Ext FR) as (T & RV).
  destruct (model_output r t ords labels root T rs ls FR RV H) as (nm & Ers & Eroot & _ & _ & OO).
  destruct T as [i cs]. pose proof (rooted_of_root _ _ _ _ (rr_rooted r t root _ RV)) as Rt. cbn [rt_root] in Rt. subst i.
  rewrite rules_of_rt_eq in Ers.
  eexists. eexists. split; [exact Ers|]. intros Heq a Ha.
  assert (Hroot : incl (fr_ext r) (bag_of t root)).
  { apply find_root_spec in FR. destruct FR as [_ S]. rewrite Nat.sub_0_r in S. now apply subset_incl. }
  exact (root_val o Hr r t ords nm G lab e' Hids (RT root cs) A Ext (rr_valid r t root _ RV) OO Hroot
                  (eqs_from r t ords nm G lab e' (RT root cs) Heq) a Ha).
Qed.

End Final.
