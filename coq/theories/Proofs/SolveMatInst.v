(** C09 -- the non-commutative instance of the block theorem: coefficients are N x N
    matrices over a commutative ordered star-semiring acting on N-vectors, and [solve1] is the
    dense solver (the Gauss-Jordan loop [gjf] of Semiring.solve_thunks).  Blocks of smaller
    shapes are embedded by zero padding.  Vectors carry their length (a boolean proof, so that
    equality stays Leibniz without axioms). *)
From Coq Require Import List Arith Lia Bool PeanoNat Ring Eqdep_dec.
Import ListNotations.
Require Import Fggs.Model.Semiring Fggs.Model.Solve.
Require Import Fggs.Proofs.SolveElim Fggs.Proofs.SolveRefine Fggs.Proofs.SolveBlock.

Section MatInst.
Context {S : Type} (o : sr_ops S).
Hypothesis Hring : sr_ring o.
Hypothesis Hord : sr_ordered o.
Hypothesis Hstar : sr_star o.
Let SRth : semi_ring_theory (zero o) (one o) (add o) (mul o) (@eq S) := Hring.
Add Ring Sring3 : SRth.
Notation "a ⊕ b" := (add o a b) (at level 50, left associativity).
Notation "a ⊗ b" := (mul o a b) (at level 40, left associativity).

Variable N : nat.
Let idx := seq 0 N.

(** vectors of length N *)
Record nvec : Type := { vv : vec S; vwf : Nat.eqb (length vv) N = true }.
Definition gv (u : nvec) (i : nat) : S := get1 o (vv u) i.
Definition mkV (f : nat -> S) : nvec.
Proof. refine {| vv := tab1 N f |}. rewrite length_tab1. apply Nat.eqb_refl. Defined.

Lemma gv_mkV f i : i < N -> gv (mkV f) i = f i.
Proof. intros H. unfold gv, mkV. cbn [vv]. apply get1_tab1. exact H. Qed.

Lemma nvec_ext u v : (forall i, i < N -> gv u i = gv v i) -> u = v.
Proof.
  destruct u as [u Hu], v as [v Hv]. unfold gv. cbn [vv]. intros H.
  assert (E : u = v).
  { apply Nat.eqb_eq in Hu. apply Nat.eqb_eq in Hv.
    apply (nth_ext u v (zero o) (zero o)); [congruence|]. intros n Hn. apply H. lia. }
  subst v. f_equal. apply UIP_dec. apply bool_dec.
Qed.

(** coefficients: N x N matrices as functions (only their entries below N matter) *)
Definition coef := nat -> nat -> S.
Definition cadd (a b : coef) : coef := fun i j => a i j ⊕ b i j.
Definition cmul (a b : coef) : coef := fun i j => sumS o nat idx (fun k => a i k ⊗ b k j).
Definition act (a : coef) (v : nvec) : nvec := mkV (fun i => sumS o nat idx (fun j => a i j ⊗ gv v j)).
Definition vadd (u v : nvec) : nvec := mkV (fun i => gv u i ⊕ gv v i).
Definition vzero : nvec := mkV (fun _ => zero o).
Definition vle (u v : nvec) : Prop := forall i, i < N -> le o (gv u i) (gv v i).
(** the dense solver *)
Definition solve1 (a : coef) (r : nvec) : nvec := mkV (gjf o nat idx a (gv r)).
(** the matrix star, column j = solve with the j-th unit vector, and a.s* *)
Definition unit_vec (j : nat) : nat -> S := fun i => if Nat.eqb i j then one o else zero o.
Definition star_mat (s : coef) : coef := fun i j => gjf o nat idx s (unit_vec j) i.
Definition rstar (a s : coef) : coef := cmul a (star_mat s).

Lemma in_idx i : In i idx <-> i < N.
Proof. unfold idx. rewrite in_seq. lia. Qed.

Lemma sum_gv_mkV (a : nat -> S) f :
  sumS o nat idx (fun j => a j ⊗ gv (mkV f) j) = sumS o nat idx (fun j => a j ⊗ f j).
Proof. apply sumS_ext. intros j Hj. apply in_idx in Hj. rewrite gv_mkV by exact Hj. reflexivity. Qed.

(** the Gauss-Jordan loop is linear in the right-hand side *)
Lemma gjf_linear (l : list nat) (c : nat -> S) vs : forall (A : nat -> nat -> S) (B : nat -> nat -> S) i,
  gjf o nat vs A (fun i => sumS o nat l (fun j => B i j ⊗ c j)) i
  = sumS o nat l (fun j => gjf o nat vs A (fun i => B i j) i ⊗ c j).
Proof.
  induction vs as [|k vs IH]; intros A B i; [reflexivity|].
  cbn [gjf].
  transitivity (gjf o nat vs (elimA o nat A k)
                  (fun i => sumS o nat l (fun j => elimb o nat A (fun i => B i j) k i ⊗ c j)) i).
  - apply (gjf_ext o nat (fun _ => True)); auto.
    intros i' _. unfold elimb.
    rewrite <- (sumS_mul_l o Hring), <- (sumS_add o Hring).
    apply sumS_ext. intros j _. ring.
  - rewrite (IH (elimA o nat A k) (fun i j => elimb o nat A (fun i => B i j) k i) i). reflexivity.
Qed.

Lemma sum_unit (v : nat -> S) i : i < N ->
  sumS o nat idx (fun j => unit_vec j i ⊗ v j) = v i.
Proof.
  intros Hi. unfold unit_vec.
  assert (G : forall l, NoDup l -> sumS o nat l (fun j => (if Nat.eqb i j then one o else zero o) ⊗ v j)
                                   = if existsb (Nat.eqb i) l then v i else zero o).
  { induction l as [|k l IHl]; intros ND; [reflexivity|]. inversion ND as [|? ? Hk ND']; subst.
    rewrite sumS_cons, IHl by exact ND'. cbn [existsb].
    destruct (Nat.eqb_spec i k) as [->|].
    - cbn [orb]. assert (E : existsb (Nat.eqb k) l = false).
      { destruct (existsb (Nat.eqb k) l) eqn:E'; [|reflexivity]. apply existsb_exists in E'.
        destruct E' as [x [Hx Hx']]. apply Nat.eqb_eq in Hx'. subst. contradiction. }
      rewrite E. ring.
    - cbn [orb]. ring. }
  rewrite G by (apply seq_NoDup).
  assert (E : existsb (Nat.eqb i) idx = true).
  { apply existsb_exists. exists i. split; [apply in_idx; exact Hi|apply Nat.eqb_refl]. }
  rewrite E. reflexivity.
Qed.

(** star_mat s applied to v is the dense solve of s with right-hand side v *)
Lemma act_star_mat s v i : i < N ->
  sumS o nat idx (fun j => star_mat s i j ⊗ gv v j) = gjf o nat idx s (gv v) i.
Proof.
  intros Hi. unfold star_mat.
  transitivity (gjf o nat idx s (fun i' => sumS o nat idx (fun j => unit_vec j i' ⊗ gv v j)) i).
  - symmetry. exact (gjf_linear idx (gv v) idx s (fun i j => unit_vec j i) i).
  - apply (gjf_ext o nat (fun i => i < N)); [intros k Hk; apply in_idx; exact Hk|reflexivity| |exact Hi].
    intros i' Hi'. apply sum_unit. exact Hi'.
Qed.

Lemma gjf_idx_sol a r i : i < N ->
  gjf o nat idx a r i = sumS o nat idx (fun j => a i j ⊗ gjf o nat idx a r j) ⊕ r i.
Proof.
  intros Hi. apply (gjf_sol o Hring nat Nat.eq_dec (star_unfold o Hstar) idx (seq_NoDup N 0) a r i).
  apply in_idx. exact Hi.
Qed.

Theorem mat_semimodule : semimodule_laws coef nvec cadd cmul act vadd vzero vle solve1 rstar.
Proof.
  constructor.
  - intros u v. apply nvec_ext. intros i Hi. unfold vadd. rewrite !gv_mkV by exact Hi. ring.
  - intros u v w. apply nvec_ext. intros i Hi. unfold vadd. rewrite !gv_mkV by exact Hi. ring.
  - intros v. apply nvec_ext. intros i Hi. unfold vadd, vzero. rewrite !gv_mkV by exact Hi. ring.
  - intros a b v. apply nvec_ext. intros i Hi. unfold act, vadd, cadd. rewrite !gv_mkV by exact Hi.
    rewrite <- (sumS_add o Hring). apply sumS_ext. intros; ring.
  - intros a b v. apply nvec_ext. intros i Hi. unfold act, cmul. rewrite !gv_mkV by exact Hi.
    rewrite sum_gv_mkV.
    rewrite (sumS_ext o nat idx (fun j => sumS o nat idx (fun k => a i k ⊗ b k j) ⊗ gv v j)
               (fun j => sumS o nat idx (fun k => a i k ⊗ (b k j ⊗ gv v j)))).
    2:{ intros j _. rewrite <- (sumS_mul_r o Hring). apply sumS_ext. intros; ring. }
    rewrite (sumS_swap o Hring).
    apply sumS_ext. intros k _. rewrite (sumS_mul_l o Hring). reflexivity.
  - intros a u v. apply nvec_ext. intros i Hi. unfold act, vadd. rewrite !gv_mkV by exact Hi.
    rewrite sum_gv_mkV. rewrite <- (sumS_add o Hring). apply sumS_ext. intros; ring.
  - intros a. apply nvec_ext. intros i Hi. unfold act, vzero. rewrite !gv_mkV by exact Hi.
    rewrite sum_gv_mkV. rewrite (sumS_ext o nat idx _ (fun _ => zero o)) by (intros; ring).
    apply (sumS_zero o Hring).
  - (* act (rstar a s) v = act a (solve1 s v) *)
    intros a s v. apply nvec_ext. intros i Hi. unfold act, rstar, cmul, solve1.
    rewrite !gv_mkV by exact Hi. rewrite sum_gv_mkV.
    rewrite (sumS_ext o nat idx (fun j => sumS o nat idx (fun k => a i k ⊗ star_mat s k j) ⊗ gv v j)
               (fun j => sumS o nat idx (fun k => a i k ⊗ (star_mat s k j ⊗ gv v j)))).
    2:{ intros j _. rewrite <- (sumS_mul_r o Hring). apply sumS_ext. intros; ring. }
    rewrite (sumS_swap o Hring).
    apply sumS_ext. intros k Hk. apply in_idx in Hk. rewrite (sumS_mul_l o Hring).
    rewrite act_star_mat by exact Hk. reflexivity.
  - (* solve1 is a solution *)
    intros a r. apply nvec_ext. intros i Hi. unfold solve1, vadd, act. rewrite !gv_mkV by exact Hi.
    rewrite sum_gv_mkV. apply gjf_idx_sol. exact Hi.
  - (* solve1 is the least pre-solution *)
    intros a r y H i Hi. unfold solve1. rewrite gv_mkV by exact Hi.
    rewrite (gjf_elim o Hring nat Nat.eq_dec (star_unfold o Hstar) idx (seq_NoDup N 0) a (gv r) i)
      by (apply in_idx; exact Hi).
    apply (elim_least o Hring nat Nat.eq_dec Hord (star_ind o Hstar) idx (seq_NoDup N 0) a (gv r) (gv y));
      [|apply in_idx; exact Hi].
    intros k Hk. apply in_idx in Hk. specialize (H k Hk). unfold vadd, act in H.
    rewrite !gv_mkV in H by exact Hk. exact H.
  - intros v i Hi. apply (le_refl o Hord).
  - intros u v w H1 H2 i Hi. eapply (le_trans o Hord); [apply H1|apply H2]; exact Hi.
  - intros u u' v v' H1 H2 i Hi. unfold vadd. rewrite !gv_mkV by exact Hi.
    apply (add_mono o Hord); [apply H1|apply H2]; exact Hi.
  - intros a u v H i Hi. unfold act. rewrite !gv_mkV by exact Hi.
    apply (sumS_mono o nat Hord). intros j Hj. apply in_idx in Hj. apply (mul_mono o Hord). apply H. exact Hj.
Qed.

(** C09_elimination_least, block version with matrices: eliminating the block unknowns in any
    order, with the dense solver on the diagonal blocks, gives the least solution *)
Theorem mat_block_elimination (K : Type) (K_eq_dec : forall a b : K, {a = b} + {a <> b})
        (vs : list K) (A : K -> K -> coef) (b : K -> nvec) :
  NoDup vs ->
  let x := belim coef nvec cadd cmul act vadd vzero solve1 rstar K K_eq_dec vs A b in
  bis_sol coef nvec act vadd vzero K vs A b x /\
  forall y, bis_presol coef nvec act vadd vzero vle K vs A b y -> forall i, In i vs -> vle (x i) (y i).
Proof.
  intros ND x. split.
  - apply (belim_sol _ _ _ _ _ _ _ _ _ _ mat_semimodule). exact ND.
  - intros y Hy i Hi. apply (belim_least _ _ _ _ _ _ _ _ _ _ mat_semimodule _ _ _ ND _ _ _ Hy _ Hi).
Qed.

End MatInst.
