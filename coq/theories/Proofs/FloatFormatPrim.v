(** C08: the binary64 model over Coq's primitive floats (Model/FloatOps.v, the model the
    correspondence check evaluates for float64) IS the binary64 instance of the generic
    Flocq model (Model/FloatFormat.v) -- through Flocq's [Prim2B] -- and therefore inherits the
    laws that need the rounding specification: [x * 1 = x], monotonicity of add/mul on
    [0, +inf], exact distributivity of the Viterbi product over maximum.  (These were the open
    "tier B" items of the primitive-float layer.) *)
From Coq Require Import ZArith Bool Floats.
From Flocq Require Import Core.
Require Flocq.IEEE754.PrimFloat.
Require Import Fggs.Model.FloatOps Fggs.Model.FloatFormat Fggs.Proofs.FloatFormatLaws.

Module FPrim := Flocq.IEEE754.PrimFloat.

Local Open Scope float_scope.

Notation P := FPrim.Prim2B.
Notation Hp := FPrim.Hprec.
Notation He := FPrim.Hmax.
Notation p64 := Coq.Floats.FloatOps.prec.
Notation e64 := Coq.Floats.FloatOps.emax.

Lemma P_zero : P 0 = ff_zero p64 e64.
Proof. change 0 with Coq.Floats.PrimFloat.zero. rewrite FPrim.zero_equiv. apply FPrim.Prim2B_B2Prim. Qed.
Lemma P_inf : P infinity = ff_inf p64 e64.
Proof. rewrite FPrim.infinity_equiv. apply FPrim.Prim2B_B2Prim. Qed.
Lemma P_ninf : P neg_infinity = ff_ninf p64 e64.
Proof. rewrite FPrim.neg_infinity_equiv. apply FPrim.Prim2B_B2Prim. Qed.
Lemma P_one : P 1 = ff_one p64 e64 Hp He.
Proof. change 1 with Coq.Floats.PrimFloat.one. rewrite FPrim.one_equiv. apply FPrim.Prim2B_B2Prim. Qed.
Lemma P_lowest : P f_lowest = ff_lowest p64 e64 Hp He.
Proof. apply SN.B2SF_inj. rewrite FPrim.B2SF_Prim2B. vm_compute. reflexivity. Qed.

Lemma P_add x y : P (x + y) = ff_add p64 e64 Hp He (P x) (P y).
Proof. apply FPrim.add_equiv. Qed.
Lemma P_mul x y : P (x * y) = ff_mul p64 e64 Hp He (P x) (P y).
Proof. apply FPrim.mul_equiv. Qed.
Lemma P_ltb x y : (x <? y) = ff_ltb p64 e64 (P x) (P y).
Proof. apply FPrim.ltb_equiv. Qed.
Lemma P_leb x y : (x <=? y) = ff_leb p64 e64 (P x) (P y).
Proof. apply FPrim.leb_equiv. Qed.
Lemma P_is_nan x : is_nan x = SN.is_nan (P x).
Proof. apply FPrim.is_nan_equiv. Qed.

Lemma P_nan_to_num x a b c :
  P (f_nan_to_num x a b c) = ff_nan_to_num p64 e64 (P x) (P a) (P b) (P c).
Proof.
  unfold f_nan_to_num. rewrite P_is_nan, !FPrim.eqb_equiv, P_inf, P_ninf.
  destruct (P x) as [s|[|]| |[|] m e H] eqn:E; try reflexivity; exact E.
Qed.
Lemma P_max x y : P (f_max x y) = ff_max p64 e64 (P x) (P y).
Proof.
  unfold f_max, ff_max. rewrite !P_is_nan, P_ltb.
  destruct (SN.is_nan (P x)); trivial. destruct (SN.is_nan (P y)); trivial. now destruct ff_ltb.
Qed.
Lemma P_real_mul x y : P (freal_mul x y) = ff_real_mul p64 e64 Hp He (P x) (P y).
Proof. unfold freal_mul, ff_real_mul. now rewrite P_nan_to_num, P_mul, P_zero, P_inf, P_lowest. Qed.
Lemma P_vit_mul x y : P (fvit_mul x y) = ff_vit_mul p64 e64 Hp He (P x) (P y).
Proof. unfold fvit_mul, ff_vit_mul. now rewrite P_nan_to_num, P_add, P_inf, P_ninf. Qed.
Lemma P_vit_star x : P (fvit_star x) = ff_vit_star p64 e64 (P x).
Proof. unfold fvit_star, ff_vit_star. rewrite P_ltb, P_zero. destruct ff_ltb; [apply P_inf|apply P_zero]. Qed.

(** ** the laws that needed the rounding specification, on primitive floats *)

Theorem prim_mul_one x : x * 1 = x /\ 1 * x = x.
Proof.
  destruct (ff_mul_one p64 e64 Hp He (P x)) as [A B].
  split; apply FPrim.Prim2B_inj; now rewrite P_mul, P_one.
Qed.

Theorem prim_real_mul_one x :
  is_nan x = false -> x <> neg_infinity -> freal_mul x 1 = x /\ freal_mul 1 x = x.
Proof.
  intros N H. rewrite P_is_nan in N.
  assert (H' : P x <> ff_ninf p64 e64).
  { intros E. apply H. apply FPrim.Prim2B_inj. now rewrite P_ninf. }
  destruct (ff_real_mul_one p64 e64 Hp He (P x) N H') as [A B].
  split; apply FPrim.Prim2B_inj; now rewrite P_real_mul, P_one.
Qed.

Theorem prim_real_mono a b c :
  (0 <=? a) = true -> (0 <=? c) = true -> (a <=? b) = true ->
  (freal_add a c <=? freal_add b c) = true /\ (freal_mul a c <=? freal_mul b c) = true.
Proof.
  unfold freal_add. rewrite !P_leb, !P_add, !P_real_mul, P_zero. intros H1 H2 H3.
  split; [now apply ff_add_mono | now apply ff_real_mul_mono].
Qed.

Theorem prim_vit_mul_mono a b c : (a <=? b) = true -> (fvit_mul a c <=? fvit_mul b c) = true.
Proof. rewrite !P_leb, !P_vit_mul. apply ff_vit_mul_mono. Qed.

Theorem prim_vit_mul_max_distr a b c :
  is_nan a = false -> is_nan b = false ->
  fvit_mul (fvit_add a b) c = fvit_add (fvit_mul a c) (fvit_mul b c).
Proof.
  rewrite !P_is_nan. intros Na Nb. apply FPrim.Prim2B_inj. unfold fvit_add.
  rewrite P_vit_mul, !P_max, !P_vit_mul. now apply ff_vit_mul_max_distr.
Qed.

Theorem prim_vit_star_unfold x : fvit_star x = fvit_add 0 (fvit_mul x (fvit_star x)).
Proof.
  apply FPrim.Prim2B_inj. unfold fvit_add. rewrite P_max, P_vit_mul, !P_vit_star, P_zero.
  apply ff_vit_star_unfold.
Qed.

(** non-trivial values satisfying the hypotheses *)
Example prim_hyps_ex :
  (0 <=? 0x1p-1074) = true /\ (0x1p-1074 <=? 0x1.fffffffffffffp+1023) = true /\
  is_nan 0x1.8p+1 = false /\ 0x1.8p+1 <> neg_infinity.
Proof. repeat split; try reflexivity. intros E. apply (f_equal Prim2SF) in E. vm_compute in E. discriminate E. Qed.
