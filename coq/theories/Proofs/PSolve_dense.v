(** C09 tier B -- solving the system restricted to a closed support and scattering the result
    back gives the least solution of the whole system.
    [rows] (duplicate-free, below [n]) is the support: every nonzero of [A] in a column of [rows]
    lies in a row of [rows], and [B] vanishes outside the rows of [rows] (and outside the columns
    [cols]).  Then, in every ordered star-semiring,
      scatter (solve (gather A) (gather B)) = solve A B          ([scatter_solve_gather])
    entry by entry: the least solution vanishes outside the support, and on the support it is
    the least solution of the projected system.  [rhs_only_least]: if no nonzero of [A] lies in a
    column where [b] is nonzero, the least solution is [b] (the [b.clone()] exit). *)
From Coq Require Import List Arith Lia PeanoNat Bool Permutation Ring.
Import ListNotations.
Require Import Fggs.Model.Semiring Fggs.Model.Solve Fggs.Model.PSolve.
Require Import Fggs.Proofs.SolveElim Fggs.Proofs.SolveRefine.

(** * lists of indices *)
Lemma find_index_Some v l p : find_index v l = Some p -> p < length l /\ nth p l 0 = v.
Proof.
  revert p. induction l as [|x l IH]; intros p H; [discriminate|]. simpl in H.
  destruct (Nat.eqb_spec x v) as [->|Hne].
  - inversion H; subst. simpl. split; [lia|reflexivity].
  - destruct (find_index v l) as [p'|]; [|discriminate]. inversion H; subst.
    destruct (IH p' eq_refl) as [L N]. simpl. split; [lia|exact N].
Qed.
Lemma find_index_None v l : find_index v l = None -> ~ In v l.
Proof.
  induction l as [|x l IH]; intros H; [intros []|]. simpl in H.
  destruct (Nat.eqb_spec x v) as [->|Hne]; [discriminate|].
  destruct (find_index v l); [discriminate|]. intros [E|Hin]; [congruence|exact (IH eq_refl Hin)].
Qed.
Lemma find_index_nth l : NoDup l -> forall p, p < length l -> find_index (nth p l 0) l = Some p.
Proof.
  induction 1 as [|x l Hx ND IH]; intros p Hp; [simpl in Hp; lia|].
  destruct p as [|p]; simpl; [rewrite Nat.eqb_refl; reflexivity|].
  simpl in Hp. assert (Hp' : p < length l) by lia.
  destruct (Nat.eqb_spec x (nth p l 0)) as [E|_]; [exfalso; apply Hx; rewrite E; apply nth_In; exact Hp'|].
  rewrite (IH p Hp'). reflexivity.
Qed.
Lemma find_index_In v l : In v l -> exists p, find_index v l = Some p.
Proof.
  intros H. destruct (find_index v l) as [p|] eqn:E; [eauto|]. exfalso. exact (find_index_None _ _ E H).
Qed.

Lemma NoDup_app_disj {A} (l1 l2 : list A) :
  NoDup l1 -> NoDup l2 -> (forall x, In x l1 -> In x l2 -> False) -> NoDup (l1 ++ l2).
Proof.
  induction 1 as [|x l1 Hx ND IH]; intros N2 D; [exact N2|]. simpl. constructor.
  - intros Hin. apply in_app_or in Hin. destruct Hin as [Hin|Hin]; [contradiction|exact (D x (or_introl eq_refl) Hin)].
  - apply IH; [exact N2|]. intros y Hy. apply D. right. exact Hy.
Qed.

Lemma map_nth_seq (l : list nat) : map (fun p => nth p l 0) (seq 0 (length l)) = l.
Proof.
  induction l as [|x l IH]; [reflexivity|]. simpl. f_equal. rewrite <- seq_shift, map_map. exact IH.
Qed.

Section Restrict.
Context {S : Type} (o : sr_ops S).
Hypothesis Hring : sr_ring o.
Hypothesis Hord : sr_ordered o.
Hypothesis Hstar : sr_star o.
Let SRth : semi_ring_theory (zero o) (one o) (add o) (mul o) (@eq S) := Hring.
Add Ring SringPS : SRth.
Infix "+" := (add o). Infix "*" := (mul o). Infix "<=" := (le o).
Notation "0" := (zero o).

(** * reading gathered and scattered matrices *)
Lemma get2_gather2 (rows cols : list nat) (M : mat S) p q : p < length rows -> q < length cols ->
  get2 o (gather2 0 rows cols M) p q = get2 o M (nth p rows 0%nat) (nth q cols 0%nat).
Proof.
  intros Hp Hq. unfold get2, gather2.
  set (F := fun r : nat => map (fun c : nat => mget 0 M r c) cols).
  rewrite (nth_indep (map F rows) [] (F 0%nat)) by (rewrite map_length; exact Hp).
  rewrite (map_nth F rows 0%nat p). unfold F.
  set (G := fun c : nat => mget 0 M (nth p rows 0%nat) c).
  rewrite (nth_indep (map G cols) 0 (G 0%nat)) by (rewrite map_length; exact Hq).
  rewrite (map_nth G cols 0%nat q). reflexivity.
Qed.

Lemma get2_scatter2 n m (rows cols : list nat) (X : mat S) v w : v < n -> w < m ->
  get2 o (scatter2 0 n m rows cols X) v w
  = match find_index v rows, find_index w cols with
    | Some p, Some q => get2 o X p q
    | _, _ => 0
    end.
Proof.
  intros Hv Hw. unfold scatter2. change (get2 o (tab2 n m (fun v w => match find_index v rows, find_index w cols with
    | Some p, Some q => mget 0 X p q | _, _ => 0 end)) v w = match find_index v rows, find_index w cols with
    | Some p, Some q => get2 o X p q | _, _ => 0 end).
  rewrite get2_tab2 by assumption. reflexivity.
Qed.

(** * sums over a support *)
Lemma sumS_zero_on l (f : nat -> S) : (forall j, In j l -> f j = 0) -> sumS o nat l f = 0.
Proof. intros H. rewrite (sumS_ext o nat l f (fun _ => 0) H). apply sumS_zero. exact Hring. Qed.

Lemma le_add_r a b : a <= a + b.
Proof.
  replace a with (a + 0) at 1 by ring. apply (add_mono o Hord); [apply (le_refl o Hord)|apply (zero_le o Hord)].
Qed.

Section Support.
Variables (n : nat) (rows : list nat).
Hypothesis NDr : NoDup rows.
Hypothesis Rn : forall r, In r rows -> r < n.

Definition rest : list nat := filter (fun j => negb (nat_mem j rows)) (seq 0 n).

Lemma nat_mem_In v l : nat_mem v l = true <-> In v l.
Proof.
  unfold nat_mem. rewrite existsb_exists. split.
  - intros (x & Hx & E). apply Nat.eqb_eq in E. subst. exact Hx.
  - intros H. exists v. split; [exact H|apply Nat.eqb_refl].
Qed.

Lemma rest_spec j : In j rest <-> j < n /\ ~ In j rows.
Proof.
  unfold rest. rewrite filter_In, in_seq, negb_true_iff. split.
  - intros [L M]. split; [lia|]. intros Hin. apply nat_mem_In in Hin. congruence.
  - intros [L M]. split; [lia|]. destruct (nat_mem j rows) eqn:E; [apply nat_mem_In in E; contradiction|reflexivity].
Qed.

Lemma split_perm : Permutation (seq 0 n) (rows ++ rest).
Proof.
  apply NoDup_Permutation.
  - apply seq_NoDup.
  - apply NoDup_app_disj; [exact NDr|apply NoDup_filter; apply seq_NoDup|].
    intros x Hx Hr. apply rest_spec in Hr. tauto.
  - intros j. rewrite in_seq, in_app_iff, rest_spec. split.
    + intros L. destruct (in_dec Nat.eq_dec j rows); [left; assumption|right; split; [lia|assumption]].
    + intros [H|[H _]]; [specialize (Rn j H)|]; lia.
Qed.

Lemma sum_split (f : nat -> S) : sum_n o n f = sumS o nat rows f + sumS o nat rest f.
Proof. rewrite sum_n_sumS, (sumS_perm o Hring nat _ _ f split_perm), sumS_app by exact Hring. reflexivity. Qed.

Lemma sum_support (f : nat -> S) : (forall j, j < n -> ~ In j rows -> f j = 0) ->
  sum_n o n f = sumS o nat rows f.
Proof.
  intros H. rewrite sum_split, (sumS_zero_on rest f); [ring|].
  intros j Hj. apply rest_spec in Hj. apply H; tauto.
Qed.

Lemma sum_support_le (f : nat -> S) : sumS o nat rows f <= sum_n o n f.
Proof. rewrite sum_split. apply le_add_r. Qed.

Lemma sumS_rows_nth (f : nat -> S) : sumS o nat rows f = sum_n o (length rows) (fun p => f (nth p rows 0%nat)).
Proof. unfold sumS, sum_n. rewrite <- (map_map (fun p => nth p rows 0%nat) f), map_nth_seq. reflexivity. Qed.
End Support.

(** * the vector statement *)
Section Vector.
Variables (n : nat) (rows : list nat) (A : mat S) (b : vec S).
Hypothesis NDr : NoDup rows.
Hypothesis Rn : forall r, In r rows -> r < n.
(** closure: a nonzero of [A] in a supported column lies in a supported row *)
Hypothesis HA : forall i j, i < n -> In j rows -> ~ In i rows -> get2 o A i j = 0.
Hypothesis Hb : forall i, i < n -> ~ In i rows -> get1 o b i = 0.

Let P := length rows.
Let A' : mat S := gather2 0 rows rows A.
Let b' : vec S := tab1 P (fun p => get1 o b (nth p rows 0%nat)).

(** the solution of the projected system, scattered *)
Definition scat (x' : nat -> S) (v : nat) : S :=
  match find_index v rows with Some p => x' p | None => 0 end.

Lemma scat_out x' v : ~ In v rows -> scat x' v = 0.
Proof.
  intros H. unfold scat. destruct (find_index v rows) as [p|] eqn:E; [|reflexivity].
  exfalso. apply H. destruct (find_index_Some _ _ _ E) as [L <-]. apply nth_In. exact L.
Qed.
Lemma scat_nth x' p : p < P -> scat x' (nth p rows 0%nat) = x' p.
Proof. intros Hp. unfold scat. rewrite (find_index_nth rows NDr p Hp). reflexivity. Qed.

Lemma row_sum (i : nat) (y : nat -> S) (yv : nat -> S) :
  (forall p, p < P -> yv (nth p rows 0%nat) = y p) ->
  sumS o nat rows (fun j => get2 o A i j * yv j)
  = sum_n o P (fun q => get2 o A i (nth q rows 0%nat) * y q).
Proof.
  intros Hy. rewrite sumS_rows_nth. unfold sum_n. f_equal. apply map_ext_in. intros q Hq. apply in_seq in Hq.
  rewrite Hy by (unfold P; lia). reflexivity.
Qed.

Theorem restrict_least (x' : nat -> S) :
  least_spec o P A' b' x' -> least_spec o n A b (scat x').
Proof.
  intros [Hs Hl]. split.
  - intros v Hv. destruct (in_dec Nat.eq_dec v rows) as [Hin|Hout].
    + destruct (In_nth _ _ 0%nat Hin) as (p & Hp & <-). fold P in Hp.
      rewrite (scat_nth x' p Hp), (Hs p Hp).
      rewrite (sum_support n rows NDr Rn (fun j => get2 o A (nth p rows 0%nat) j * scat x' j)).
      2:{ intros j _ Hj. rewrite (scat_out x' j Hj). ring. }
      rewrite (row_sum (nth p rows 0%nat) x' (scat x')) by (intros q Hq; apply scat_nth; exact Hq).
      f_equal.
      * unfold sum_n. f_equal. apply map_ext_in. intros q Hq. apply in_seq in Hq.
        unfold A'. rewrite get2_gather2 by (fold P; lia). reflexivity.
      * unfold b'. rewrite get1_tab1 by exact Hp. reflexivity.
    + rewrite (scat_out x' v Hout), (Hb v Hv Hout).
      rewrite (sum_support n rows NDr Rn (fun j => get2 o A v j * scat x' j)).
      2:{ intros j _ Hj. rewrite (scat_out x' j Hj). ring. }
      rewrite (sumS_zero_on rows); [ring|]. intros j Hj. rewrite (HA v j Hv Hj Hout). ring.
  - intros y Hy v Hv. destruct (in_dec Nat.eq_dec v rows) as [Hin|Hout]; [|rewrite (scat_out x' v Hout); apply (zero_le o Hord)].
    destruct (In_nth _ _ 0%nat Hin) as (p & Hp & <-). fold P in Hp. rewrite (scat_nth x' p Hp).
    apply (Hl (fun q => y (nth q rows 0%nat))); [|exact Hp].
    intros q Hq. assert (Hq' : nth q rows 0%nat < n) by (apply Rn; apply nth_In; exact Hq).
    eapply (le_trans o Hord); [|exact (Hy _ Hq')].
    apply (add_mono o Hord).
    + eapply (le_trans o Hord); [|apply (sum_support_le n rows NDr Rn)].
      rewrite (row_sum (nth q rows 0%nat) (fun q0 => y (nth q0 rows 0%nat)) y) by reflexivity.
      unfold sum_n. replace (map (fun j => get2 o A' q j * y (nth j rows 0%nat)) (seq 0 P))
        with (map (fun q0 => get2 o A (nth q rows 0%nat) (nth q0 rows 0%nat) * y (nth q0 rows 0%nat)) (seq 0 P)); [apply (le_refl o Hord)|].
      apply map_ext_in. intros q0 Hq0. apply in_seq in Hq0. unfold A'. rewrite get2_gather2 by (fold P; lia). reflexivity.
    + unfold b'. rewrite get1_tab1 by exact Hq. apply (le_refl o Hord).
Qed.

(** hence: the dense least solution is zero outside the support and, on the support, the least
    solution of the projected system *)
Corollary solve_restrict v : v < n ->
  get1 o (solve_model o n A b) v = scat (get1 o (solve_model o P A' b')) v.
Proof.
  intros Hv. apply (least_spec_unique o Hord n A b); [apply solve_model_least_spec; assumption| |exact Hv].
  apply restrict_least. apply solve_model_least_spec; assumption.
Qed.
End Vector.

(** the zero right-hand side *)
Lemma zero_rhs_least n (A : mat S) (b : vec S) : (forall i, i < n -> get1 o b i = 0) ->
  least_spec o n A b (fun _ => 0).
Proof.
  intros Hb. split.
  - intros i Hi. rewrite (Hb i Hi). rewrite sum_n_sumS, sumS_zero_on; [ring|]. intros j _. ring.
  - intros y _ i _. apply (zero_le o Hord).
Qed.

(** * the matrix statement: what [PatternedTensor.solve] returns, entry by entry *)
Theorem scatter_solve_gather n m (rows cols : list nat) (A B : mat S) :
  NoDup rows -> (forall r, In r rows -> r < n) -> NoDup cols -> (forall c, In c cols -> c < m) ->
  (forall i j, i < n -> In j rows -> ~ In i rows -> get2 o A i j = 0) ->
  (forall i c, i < n -> c < m -> ~ In i rows -> get2 o B i c = 0) ->
  (forall i c, i < n -> c < m -> ~ In c cols -> get2 o B i c = 0) ->
  forall v w, v < n -> w < m ->
    get2 o (scatter2 0 n m rows cols
              (solve_model_mat o (length rows) (length cols) (gather2 0 rows rows A) (gather2 0 rows cols B))) v w
    = get2 o (solve_model_mat o n m A B) v w.
Proof.
  intros NDr Rn NDc Cm HA HB HBc v w Hv Hw.
  rewrite get2_scatter2 by assumption.
  rewrite (solve_model_mat_col o n m A B v w Hv Hw).
  destruct (find_index w cols) as [q|] eqn:Ew.
  - destruct (find_index_Some _ _ _ Ew) as [Hq Nq].
    rewrite (solve_restrict n rows A (col o n B w) NDr Rn HA) by
      (try exact Hv; intros i Hi Hout; unfold col; rewrite get1_tab1 by exact Hi; exact (HB i w Hi Hw Hout)).
    unfold scat. destruct (find_index v rows) as [p|] eqn:Ev; [|reflexivity].
    destruct (find_index_Some _ _ _ Ev) as [Hp Np].
    rewrite (solve_model_mat_col o _ _ _ _ p q Hp Hq).
    (* the two projected right-hand sides agree entry by entry *)
    rewrite !(solve_model_gjf o _ _ _ p Hp).
    apply (gjf_ext o nat (fun i => i < length rows)); [|reflexivity| |exact Hp].
    + intros j Hj. apply in_seq in Hj. lia.
    + intros i Hi. unfold col. rewrite !get1_tab1 by exact Hi. rewrite get2_gather2 by assumption.
      rewrite get1_tab1 by (apply Rn; apply nth_In; exact Hi). rewrite Nq. reflexivity.
  - (* a column outside the column support: the right-hand side is zero, so is the solution *)
    assert (Z : forall i, i < n -> get1 o (col o n B w) i = 0).
    { intros i Hi. unfold col. rewrite get1_tab1 by exact Hi. apply (HBc i w Hi Hw). exact (find_index_None _ _ Ew). }
    rewrite (least_spec_unique o Hord n A (col o n B w) _ (fun _ => 0) (solve_model_least_spec o Hring Hord Hstar n A _) (zero_rhs_least n A _ Z) v Hv).
    destruct (find_index v rows); reflexivity.
Qed.

(** * the [b.clone()] exit: no nonzero of [A] in a column where [b] is nonzero *)
Theorem rhs_only_least n (A : mat S) (b : vec S) :
  (forall i j, i < n -> j < n -> get2 o A i j = 0 \/ get1 o b j = 0) ->
  least_spec o n A b (get1 o b).
Proof.
  intros H. split.
  - intros i Hi. rewrite sum_n_sumS, sumS_zero_on; [ring|].
    intros j Hj. apply in_seq in Hj. destruct (H i j Hi ltac:(lia)) as [E|E]; rewrite E; ring.
  - intros y Hy i Hi. eapply (le_trans o Hord); [|exact (Hy i Hi)].
    replace (get1 o b i) with (0 + get1 o b i) at 1 by ring.
    apply (add_mono o Hord); [apply (zero_le o Hord)|apply (le_refl o Hord)].
Qed.

Corollary rhs_only_solve n (A : mat S) (b : vec S) :
  (forall i j, i < n -> j < n -> get2 o A i j = 0 \/ get1 o b j = 0) ->
  forall i, i < n -> get1 o (solve_model o n A b) i = get1 o b i.
Proof.
  intros H i Hi. apply (least_spec_unique o Hord n A b); [apply solve_model_least_spec; assumption|apply rhs_only_least; exact H|exact Hi].
Qed.

End Restrict.
