(** C20, part 1: FiniteDomain / RangeDomain -- numberize and denumberize are mutually inverse,
    contains agrees, equality is by content; soundness of the oracles bij_oracle, range_oracle,
    eq_oracle; the refutation witnesses for F15 and for RangeDomain.contains. *)
From Coq Require Import List Arith Bool PeanoNat ZArith QArith Lia.
Import ListNotations.
Require Import Fggs.Model.Domain.
Local Open Scope nat_scope.

(** * Decidable equalities reflect Leibniz equality *)
Lemma q_eqb_eq a b : q_eqb a b = true <-> a = b.
Proof.
  destruct a as [an ad], b as [bn bd]; unfold q_eqb; cbn [Qnum Qden].
  rewrite andb_true_iff, Z.eqb_eq, Pos.eqb_eq. split.
  - intros [-> ->]; reflexivity.
  - intros H; injection H; auto.
Qed.

Lemma value_eqb_eq a b : value_eqb a b = true <-> a = b.
Proof.
  destruct a as [p|c], b as [q|d]; cbn [value_eqb].
  - rewrite q_eqb_eq. split; [intros ->; reflexivity | intros H; injection H; auto].
  - split; discriminate.
  - split; discriminate.
  - rewrite Nat.eqb_eq. split; [intros ->; reflexivity | intros H; injection H; auto].
Qed.

Lemma value_eqb_refl a : value_eqb a a = true.
Proof. apply value_eqb_eq; reflexivity. Qed.

Lemma value_eqb_neq a b : value_eqb a b = false <-> a <> b.
Proof.
  split.
  - intros H E. apply value_eqb_eq in E. congruence.
  - intros H. destruct (value_eqb a b) eqn:E; auto. apply value_eqb_eq in E. contradiction.
Qed.

Lemma value_eqb_sym a b : value_eqb a b = value_eqb b a.
Proof.
  destruct (value_eqb a b) eqn:E.
  - apply value_eqb_eq in E; subst. symmetry; apply value_eqb_refl.
  - symmetry. apply value_eqb_neq. apply value_eqb_neq in E. congruence.
Qed.

Lemma exn_eqb_eq a b : exn_eqb a b = true <-> a = b.
Proof. destruct a, b; cbn; split; congruence. Qed.

Lemma result_eqb_eq {A} (e : A -> A -> bool) :
  (forall x y, e x y = true <-> x = y) ->
  forall a b, result_eqb e a b = true <-> a = b.
Proof.
  intros He [x|x] [y|y]; cbn.
  - rewrite He. split; [intros ->; auto | intros H; injection H; auto].
  - split; discriminate.
  - split; discriminate.
  - rewrite exn_eqb_eq. split; [intros ->; auto | intros H; injection H; auto].
Qed.

Lemma rvalue_eqb_eq a b : rvalue_eqb a b = true <-> a = b.
Proof. apply result_eqb_eq, value_eqb_eq. Qed.
Lemma bool_eqb_eq a b : Bool.eqb a b = true <-> a = b.
Proof. apply eqb_true_iff. Qed.
Lemma rbool_eqb_eq a b : rbool_eqb a b = true <-> a = b.
Proof. apply result_eqb_eq, bool_eqb_eq. Qed.

Lemma list_eqb_eq {A} (e : A -> A -> bool) :
  (forall x y, e x y = true <-> x = y) ->
  forall a b, list_eqb e a b = true <-> a = b.
Proof.
  intros He a. induction a as [|x a IH]; intros [|y b]; cbn.
  - tauto.
  - split; discriminate.
  - split; discriminate.
  - rewrite andb_true_iff, He, IH. split; [intros [-> ->]; auto | intros H; injection H; auto].
Qed.

Lemma option_eqb_eq {A} (e : A -> A -> bool) :
  (forall x y, e x y = true <-> x = y) ->
  forall a b, option_eqb e a b = true <-> a = b.
Proof.
  intros He [x|] [y|]; cbn.
  - rewrite He. split; [intros ->; auto | intros H; injection H; auto].
  - split; discriminate.
  - split; discriminate.
  - tauto.
Qed.

Lemma memv_In l v : memv l v = true <-> In v l.
Proof.
  unfold memv. rewrite existsb_exists. split.
  - intros [x [Hx E]]. apply value_eqb_eq in E. subst; auto.
  - intros H. exists v. split; auto. apply value_eqb_refl.
Qed.

Lemma nodupv_NoDup l : nodupv l = true <-> NoDup l.
Proof.
  induction l as [|x l IH]; cbn.
  - split; auto. constructor.
  - rewrite andb_true_iff, negb_true_iff, IH. split.
    + intros [H1 H2]. constructor; auto. intros Hin. apply memv_In in Hin. congruence.
    + intros H. inversion H; subst. split; auto.
      destruct (memv l x) eqn:E; auto. apply memv_In in E. contradiction.
Qed.

(** * dict get / set *)
Section DictLemmas.
  Context {K B : Type} (keqb : K -> K -> bool).
  Hypothesis keqb_eq : forall a b, keqb a b = true <-> a = b.

  Lemma dget_dset (m : list (K * B)) k b k' :
    dget keqb (dset keqb m k b) k' = if keqb k k' then Some b else dget keqb m k'.
  Proof.
    induction m as [|[a x] m IH]; cbn.
    - destruct (keqb k k'); reflexivity.
    - destruct (keqb a k) eqn:E; cbn.
      + apply keqb_eq in E; subst a. destruct (keqb k k'); reflexivity.
      + destruct (keqb a k') eqn:E'.
        * destruct (keqb k k') eqn:E''; auto.
          apply keqb_eq in E', E''. subst.
          assert (keqb k' k' = true) by (apply keqb_eq; reflexivity). congruence.
        * apply IH.
  Qed.

  Lemma dmem_dset (m : list (K * B)) k b k' :
    dmem keqb (dset keqb m k b) k' = keqb k k' || dmem keqb m k'.
  Proof. unfold dmem. rewrite dget_dset. destruct (keqb k k'); reflexivity. Qed.
End DictLemmas.

(** * The index built by the constructor: the last position wins *)
Fixpoint last_pos_from (i : nat) (l : list value) (v : value) : option nat :=
  match l with
  | [] => None
  | x :: l => match last_pos_from (S i) l v with
              | Some j => Some j
              | None => if value_eqb x v then Some i else None
              end
  end.

Lemma build_index_from_get l : forall i m v,
  dget value_eqb (build_index_from i l m) v =
  match last_pos_from i l v with Some j => Some j | None => dget value_eqb m v end.
Proof.
  induction l as [|x l IH]; intros i m v; cbn [build_index_from last_pos_from].
  - reflexivity.
  - rewrite IH. destruct (last_pos_from (S i) l v); auto.
    rewrite (dget_dset value_eqb value_eqb_eq). destruct (value_eqb x v); reflexivity.
Qed.

(** what [numberize] answers for *any* value list (duplicates included) *)
Theorem numberize_last_position vs v :
  fin_numberize (build_index vs) v =
  match last_pos_from 0 vs v with Some j => Ok j | None => Err KeyErr end.
Proof.
  unfold fin_numberize, build_index. rewrite build_index_from_get.
  destruct (last_pos_from 0 vs v); reflexivity.
Qed.

(** * position *)
Lemma position_Some l v i : position l v = Some i -> nth_error l i = Some v /\ i < length l.
Proof.
  revert i. induction l as [|x l IH]; intros i; cbn.
  - discriminate.
  - destruct (value_eqb x v) eqn:E.
    + intros H; injection H as <-. apply value_eqb_eq in E; subst. cbn. split; auto. lia.
    + destruct (position l v) as [j|]; [|discriminate].
      intros H; injection H as <-. destruct (IH j eq_refl). cbn. split; auto. lia.
Qed.

Lemma position_None l v : position l v = None <-> ~ In v l.
Proof.
  induction l as [|x l IH]; cbn.
  - tauto.
  - destruct (value_eqb x v) eqn:E.
    + apply value_eqb_eq in E. split; [discriminate | intros H; exfalso; apply H; auto].
    + apply value_eqb_neq in E. destruct (position l v) as [j|].
      * split; [discriminate|]. intros H. exfalso. apply H. right.
        assert (Some j <> None) by discriminate. tauto.
      * split; auto. intros _ [H|H]; [congruence | tauto].
Qed.

Lemma position_In l v : In v l -> exists i, position l v = Some i.
Proof.
  intros H. destruct (position l v) as [i|] eqn:E; eauto.
  apply position_None in E. contradiction.
Qed.

Lemma position_nth l : NoDup l -> forall i v, nth_error l i = Some v -> position l v = Some i.
Proof.
  induction 1 as [|x l Hx Hnd IH]; intros i v.
  - destruct i; discriminate.
  - destruct i as [|i]; cbn.
    + intros H; injection H as ->. rewrite value_eqb_refl. reflexivity.
    + intros H. assert (Hin : In v l) by (eapply nth_error_In; eauto).
      assert (Hne : x <> v) by (intros ->; contradiction).
      apply value_eqb_neq in Hne. rewrite Hne, (IH i v H). reflexivity.
Qed.

Lemma last_pos_nodup l : NoDup l -> forall i v,
  last_pos_from i l v = option_map (Nat.add i) (position l v).
Proof.
  induction 1 as [|x l Hx Hnd IH]; intros i v; cbn.
  - reflexivity.
  - rewrite IH. destruct (position l v) as [j|] eqn:P; cbn.
    + assert (In v l) by (apply position_Some in P; destruct P; eapply nth_error_In; eauto).
      assert (E : value_eqb x v = false) by (apply value_eqb_neq; congruence).
      rewrite E. cbn. f_equal. lia.
    + destruct (value_eqb x v); cbn; auto; f_equal; lia.
Qed.

Lemma numberize_position vs v : NoDup vs ->
  fin_numberize (build_index vs) v = match position vs v with Some j => Ok j | None => Err KeyErr end.
Proof.
  intros H. rewrite numberize_last_position, (last_pos_nodup vs H).
  destruct (position vs v); reflexivity.
Qed.

(** * Python list indexing *)
Lemma py_index_nat {A} (l : list A) i a : nth_error l i = Some a -> py_index l (Z.of_nat i) = Ok a.
Proof.
  intros H. assert (i < length l) by (apply nth_error_Some; congruence).
  assert (E1 : (Z.of_nat i <? 0)%Z = false) by (apply Z.ltb_ge; lia).
  assert (E2 : (Z.of_nat (length l) <=? Z.of_nat i)%Z = false) by (apply Z.leb_gt; lia).
  unfold py_index. cbv zeta. rewrite E1. cbv iota. rewrite E1, E2. cbn [orb].
  rewrite Nat2Z.id, H. reflexivity.
Qed.

Lemma py_index_wrap {A} (l : list A) z :
  (- Z.of_nat (length l) <= z < 0)%Z -> py_index l z = py_index l (z + Z.of_nat (length l)).
Proof.
  intros H.
  assert (E1 : (z <? 0)%Z = true) by (apply Z.ltb_lt; lia).
  assert (E2 : (z + Z.of_nat (length l) <? 0)%Z = false) by (apply Z.ltb_ge; lia).
  unfold py_index. cbv zeta. rewrite E1, E2. cbv iota. rewrite E2. reflexivity.
Qed.

Lemma py_index_out {A} (l : list A) z :
  (z < - Z.of_nat (length l) \/ Z.of_nat (length l) <= z)%Z -> py_index l z = Err IndexErr.
Proof.
  intros H. unfold py_index. cbv zeta.
  destruct (z <? 0)%Z eqn:E; cbv iota.
  - apply Z.ltb_lt in E. destruct H; [|lia].
    assert ((z + Z.of_nat (length l) <? 0)%Z = true) as -> by (apply Z.ltb_lt; lia). reflexivity.
  - rewrite E. apply Z.ltb_ge in E. destruct H; [lia|].
    assert ((Z.of_nat (length l) <=? z)%Z = true) as -> by (apply Z.leb_le; lia).
    reflexivity.
Qed.

Lemma py_index_Ok_In {A} (l : list A) z a : py_index l z = Ok a -> In a l.
Proof.
  unfold py_index.
  destruct ((_ <? 0)%Z || _)%bool; [discriminate|].
  destruct (nth_error l _) eqn:E; [|discriminate].
  intros H; injection H as <-. eapply nth_error_In; eauto.
Qed.

Lemma as_int_vint z : as_int (vint z) = Some z.
Proof. reflexivity. Qed.
Lemma as_int_vnat i : as_int (vnat i) = Some (Z.of_nat i).
Proof. reflexivity. Qed.

Lemma as_int_Some v z : as_int v = Some z -> v = vint z.
Proof.
  destruct v as [[n d]|c]; cbn [as_int Qden Qnum]; [|discriminate].
  destruct (Pos.eqb d 1) eqn:E; [|discriminate].
  apply Pos.eqb_eq in E; subst. intros H; injection H as <-. reflexivity.
Qed.

Lemma vnat_inj i j : vnat i = vnat j -> i = j.
Proof. unfold vnat, vint, inject_Z. intros H. injection H. lia. Qed.

(** * C20_bijection, FiniteDomain *)
Theorem finite_bijection k vs : NoDup vs ->
  let d := mk_finite k vs in
  dom_size d = Some (length vs) /\
  (forall v, In v vs ->
     exists i, i < length vs /\ dom_numberize d v = Ok (vnat i) /\ dom_denumberize d (vnat i) = Ok v) /\
  (forall i, i < length vs ->
     exists v, In v vs /\ dom_denumberize d (vnat i) = Ok v /\ dom_numberize d v = Ok (vnat i)) /\
  (forall v b, dom_contains d v b = Ok true <->
               exists i, i < length vs /\ dom_denumberize d (vnat i) = Ok v) /\
  (forall v b, (dom_contains d v b = Ok true <-> In v vs) /\ (dom_contains d v b = Ok false <-> ~ In v vs)) /\
  (forall v, ~ In v vs -> dom_numberize d v = Err KeyErr).
Proof.
  intros Hnd d. subst d. unfold mk_finite.
  cbn [dom_size dom_numberize dom_denumberize dom_contains].
  split; [reflexivity|].
  split; [|split; [|split; [|split]]].
  - intros v Hin. destruct (position_In vs v Hin) as [i Hp].
    destruct (position_Some _ _ _ Hp) as [Hn Hl].
    exists i. split; auto. rewrite (numberize_position vs v Hnd), Hp, as_int_vnat.
    split; auto. unfold fin_denumberize. apply py_index_nat; auto.
  - intros i Hl. destruct (nth_error vs i) as [v|] eqn:Hn.
    2:{ apply nth_error_None in Hn. lia. }
    exists v. split; [eapply nth_error_In; eauto|].
    rewrite as_int_vnat. unfold fin_denumberize. split; [apply py_index_nat; auto|].
    rewrite (numberize_position vs v Hnd), (position_nth vs Hnd i v Hn). reflexivity.
  - intros v _. split.
    + intros H. injection H as H. apply memv_In in H.
      destruct (position_In vs v H) as [i Hp]. destruct (position_Some _ _ _ Hp) as [Hn Hl].
      exists i. split; auto. rewrite as_int_vnat. apply py_index_nat; auto.
    + intros [i [Hl H]]. rewrite as_int_vnat in H. apply py_index_Ok_In in H.
      f_equal. apply memv_In; auto.
  - intros v _. fold (memv vs v). destruct (memv vs v) eqn:E.
    + apply memv_In in E. split; split; auto; try discriminate. intros H; contradiction.
    + assert (~ In v vs) by (intros H; apply memv_In in H; congruence).
      split; split; auto; try discriminate. intros H'; contradiction.
  - intros v H. rewrite (numberize_position vs v Hnd).
    apply position_None in H. rewrite H. reflexivity.
Qed.

(** the hypotheses are satisfiable by a non-trivial mixed-type domain: [1, 'a', None, 1/2] *)
Example finite_bijection_example :
  NoDup [VNum 1; VOther 0; VOther 1; VNum (1#2)] /\
  dom_numberize (mk_finite Reiterable [VNum 1; VOther 0; VOther 1; VNum (1#2)]) (VOther 1) = Ok (vnat 2).
Proof. split; [apply nodupv_NoDup; reflexivity | reflexivity]. Qed.

(** denumberize outside 0..size-1: negative indices wrap once, everything else is IndexError
    (the property only speaks about 0 <= n < size) *)
Theorem finite_denumberize_range k vs z :
  let d := mk_finite k vs in
  ((- Z.of_nat (length vs) <= z < 0)%Z ->
     dom_denumberize d (vint z) = dom_denumberize d (vint (z + Z.of_nat (length vs)))) /\
  ((z < - Z.of_nat (length vs) \/ Z.of_nat (length vs) <= z)%Z ->
     dom_denumberize d (vint z) = Err IndexErr).
Proof.
  cbn. unfold fin_denumberize. split; intros H.
  - apply py_index_wrap; auto.
  - apply py_index_out; auto.
Qed.

(** the kind of iterable the values are given as (list, tuple, dict, range -- or a one-shot
    iterator / generator) makes no difference: the same object is built *)
Theorem finite_iterkind_irrelevant k k' vs : mk_finite k vs = mk_finite k' vs.
Proof. reflexivity. Qed.

(** in particular the bijection statement holds for a one-shot iterator *)
Corollary finite_bijection_oneshot vs v : NoDup vs -> In v vs ->
  exists i, i < length vs /\ dom_numberize (mk_finite OneShot vs) v = Ok (vnat i)
            /\ dom_denumberize (mk_finite OneShot vs) (vnat i) = Ok v.
Proof. intros Hnd Hin. apply (finite_bijection OneShot vs Hnd); auto. Qed.

(** Record of F15 (repaired in /repo 7d2f845): the constructor used to build the index from its
    argument a second time, i.e. from nothing for a one-shot iterator. *)
Definition mk_finite_old (k : iterkind) (items : list value) : domain :=
  DFinite items (build_index (match k with Reiterable => items | OneShot => [] end)).

Theorem finite_oneshot_numberize_old vs v : dom_numberize (mk_finite_old OneShot vs) v = Err KeyErr.
Proof. reflexivity. Qed.

Theorem bijection_refuted_oneshot_old :
  ~ (forall k vs, NoDup vs -> forall v, In v vs ->
       exists i, dom_numberize (mk_finite_old k vs) v = Ok (vnat i)).
Proof.
  intros H.
  assert (Hnd : NoDup [VOther 0]) by (apply nodupv_NoDup; reflexivity).
  destruct (H OneShot [VOther 0] Hnd (VOther 0) (or_introl eq_refl)) as [i Hi].
  discriminate.
Qed.

(** * Equality is by content *)
Definition dom_content (d : domain) : list value + option nat :=
  match d with DFinite vs _ => inl vs | DRange s => inr s end.

Theorem dom_eqb_content a b : dom_eqb a b = true <-> dom_content a = dom_content b.
Proof.
  destruct a as [v1 i1|s1], b as [v2 i2|s2]; cbn.
  - rewrite (list_eqb_eq value_eqb value_eqb_eq). split; [intros ->; auto | intros H; injection H; auto].
  - split; discriminate.
  - split; discriminate.
  - rewrite (option_eqb_eq Nat.eqb Nat.eqb_eq). split; [intros ->; auto | intros H; injection H; auto].
Qed.

Lemma dom_eqb_refl a : dom_eqb a a = true.
Proof. apply dom_eqb_content; reflexivity. Qed.
Lemma dom_eqb_sym a b : dom_eqb a b = dom_eqb b a.
Proof.
  destruct (dom_eqb a b) eqn:E, (dom_eqb b a) eqn:E'; auto.
  - apply dom_eqb_content in E. symmetry in E. apply dom_eqb_content in E. congruence.
  - apply dom_eqb_content in E'. symmetry in E'. apply dom_eqb_content in E'. congruence.
Qed.
Lemma dom_eqb_trans a b c : dom_eqb a b = true -> dom_eqb b c = true -> dom_eqb a c = true.
Proof. rewrite !dom_eqb_content. congruence. Qed.

Theorem finite_eq_by_content k1 k2 v1 v2 :
  dom_eqb (mk_finite k1 v1) (mk_finite k2 v2) = true <-> v1 = v2.
Proof. cbn. apply (list_eqb_eq value_eqb value_eqb_eq). Qed.

Lemma dom_eqb_size a b : dom_eqb a b = true -> dom_size a = dom_size b.
Proof.
  rewrite dom_eqb_content. destruct a, b; cbn; intros H; try discriminate; injection H; intros; subst; auto.
Qed.

(** * RangeDomain *)
Lemma Qle_bool_int a b : Qle_bool (inject_Z a) (inject_Z b) = (a <=? b)%Z.
Proof. unfold Qle_bool, inject_Z; cbn. rewrite !Z.mul_1_r. reflexivity. Qed.

Lemma range_contains_int n z b :
  dom_contains (DRange (Some n)) (vint z) b = Ok (b && in_range_int n (vint z)).
Proof.
  cbn [dom_contains]. unfold range_contains, q_lt_size, in_range_int. rewrite as_int_vint. unfold vint.
  change 0%Q with (inject_Z 0). rewrite !Qle_bool_int. f_equal. f_equal. f_equal.
  rewrite Z.ltb_antisym. reflexivity.
Qed.

Lemma in_range_int_iff n v : in_range_int n v = true <-> exists i, i < n /\ v = vnat i.
Proof.
  unfold in_range_int. split.
  - destruct (as_int v) as [z|] eqn:E; [|discriminate].
    rewrite andb_true_iff, Z.leb_le, Z.ltb_lt. intros [H0 H1].
    exists (Z.to_nat z). split; [lia|]. apply as_int_Some in E. subst. unfold vnat. rewrite Z2Nat.id; auto.
  - intros [i [Hi ->]]. rewrite as_int_vnat. apply andb_true_iff. rewrite Z.leb_le, Z.ltb_lt. lia.
Qed.

Lemma int_flag_vint v : int_flag_ok (v, true) = true -> exists z, v = vint z.
Proof.
  unfold int_flag_ok; cbn [fst snd negb orb]. destruct v as [[a d]|c]; [|discriminate].
  cbn [Qden]. intros H. apply Pos.eqb_eq in H. subst. exists a. reflexivity.
Qed.

(** a RangeDomain of size n is the identity bijection on the ints 0..n-1; values that are not
    ints (floats -- even 1.0 --, strings, None, tuples) are not contained *)
Theorem range_bijection n :
  let d := DRange (Some n) in
  dom_size d = Some n /\
  (forall v, dom_numberize d v = Ok v /\ dom_denumberize d v = Ok v) /\
  (forall z, dom_contains d (vint z) true = Ok true <-> (0 <= z < Z.of_nat n)%Z) /\
  (forall i, i < n -> dom_contains d (vnat i) true = Ok true) /\
  (forall v, dom_contains d v false = Ok false) /\
  (forall c b, dom_contains d (VOther c) b = Ok false).
Proof.
  cbn zeta. split; [reflexivity|]. split; [intros; split; reflexivity|].
  assert (H : forall z, dom_contains (DRange (Some n)) (vint z) true = Ok true <-> (0 <= z < Z.of_nat n)%Z).
  { intros z. rewrite range_contains_int. cbn [andb]. unfold in_range_int. rewrite as_int_vint.
    split.
    - intros E. injection E as E. apply andb_true_iff in E. rewrite Z.leb_le, Z.ltb_lt in E. auto.
    - intros E. f_equal. apply andb_true_iff. rewrite Z.leb_le, Z.ltb_lt. auto. }
  split; [exact H|]. split; [|split].
  - intros i Hi. apply H. lia.
  - reflexivity.
  - intros c b. destruct b; reflexivity.
Qed.

Example range_bijection_example :
  dom_contains (DRange (Some 3)) (vnat 2) true = Ok true /\ dom_contains (DRange (Some 3)) (vnat 1) false = Ok false.
Proof. split; reflexivity. Qed.

(** the full statement on the modelled universe of Python values (equality class [v] + flag
    [b] = isinstance(_, int), an int being an integral number): contains holds iff the value is
    an int that some denumberize n, n < size, yields *)
Theorem range_contains_iff n v b : int_flag_ok (v, b) = true ->
  (dom_contains (DRange (Some n)) v b = Ok true <->
   b = true /\ exists i, i < n /\ dom_denumberize (DRange (Some n)) (vnat i) = Ok v).
Proof.
  intros Hw. destruct b.
  - destruct (int_flag_vint v Hw) as [z ->]. rewrite range_contains_int. cbn [andb dom_denumberize]. split.
    + intros H. injection H as H. apply in_range_int_iff in H. destruct H as [i [Hi E]].
      split; auto. exists i. split; auto. rewrite E. reflexivity.
    + intros [_ [i [Hi E]]]. injection E as E. f_equal. apply in_range_int_iff. exists i.
      split; auto. unfold vnat. rewrite E. reflexivity.
  - cbn. split; [discriminate|]. intros [H _]. discriminate.
Qed.

(** Record of the repaired finding (/repo 973b650): without the isinstance test, contains was
    true for every number in [0, size), e.g. RangeDomain(1).contains(0.5), and raised TypeError
    for non-numbers. *)
Definition range_contains_old (sz : option nat) (v : value) : result bool :=
  match v with
  | VNum q => Ok (Qle_bool 0 q && q_lt_size q sz)
  | VOther _ => Err TypeErr
  end.
Theorem range_contains_refuted_old :
  ~ (forall n v, range_contains_old (Some n) v = Ok true <-> exists i, i < n /\ v = vnat i).
Proof.
  intros H. destruct (proj1 (H 1 (VNum (1#2))) eq_refl) as [i [Hi E]].
  unfold vnat, vint, inject_Z in E. inversion E.
Qed.

(** * Soundness of the oracles *)

Lemma lookup_In {B} (l : list (value * B)) v b : lookup l v = Some b -> In (v, b) l.
Proof.
  induction l as [|[a x] l IH]; cbn; [discriminate|].
  destruct (value_eqb a v) eqn:E.
  - apply value_eqb_eq in E; subst. intros H; injection H as ->. auto.
  - auto.
Qed.

(** If [bij_oracle] accepts a table of answers about the distinct values [items], then on the
    probed values the answers are mutually inverse bijections between [items] and 0..size-1:
    size is the number of values; [den] lists exactly the values; every value is probed;
    for a probed member v at position i: contains = True, numberize = i, denumberize i = v;
    for a probed non-member: contains = False and numberize raises KeyError. *)
Theorem bij_oracle_sound items size tab den :
  bij_oracle items size tab den = true -> NoDup items ->
  size = length items /\ den = map Ok items /\
  (forall v, In v items -> exists c n, In (v, (c, n)) tab) /\
  (forall v c n, In (v, (c, n)) tab ->
     (In v items -> exists i, i < size /\ nth_error den i = Some (Ok v) /\ c = Ok true /\ n = Ok (vnat i)) /\
     (~ In v items -> c = Ok false /\ n = Err KeyErr)) /\
  (forall i v, nth_error den i = Some (Ok v) ->
     forall c n, In (v, (c, n)) tab -> c = Ok true /\ n = Ok (vnat i)).
Proof.
  unfold bij_oracle. rewrite !andb_true_iff. intros [[[Hs Hd] Hp] Ht] Hnd.
  apply Nat.eqb_eq in Hs. apply (list_eqb_eq rvalue_eqb rvalue_eqb_eq) in Hd.
  rewrite forallb_forall in Hp, Ht.
  assert (Hentry : forall v c n, In (v, (c, n)) tab ->
            match position items v with
            | Some i => c = Ok true /\ n = Ok (vnat i)
            | None => c = Ok false /\ n = Err KeyErr
            end).
  { intros v c n Hin. specialize (Ht _ Hin). cbn in Ht.
    destruct (position items v); apply andb_true_iff in Ht; destruct Ht as [H1 H2];
      apply rbool_eqb_eq in H1; apply rvalue_eqb_eq in H2; auto. }
  split; [auto|]. split; [auto|]. split; [|split].
  - intros v Hin. specialize (Hp v Hin). destruct (lookup tab v) as [[c n]|] eqn:E; [|discriminate].
    exists c, n. apply lookup_In; auto.
  - intros v c n Hin. specialize (Hentry v c n Hin). split.
    + intros Hv. destruct (position_In items v Hv) as [i Hi]. rewrite Hi in Hentry.
      destruct (position_Some _ _ _ Hi) as [Hn Hl]. exists i. subst den size.
      split; auto. split; [|tauto]. rewrite nth_error_map, Hn. reflexivity.
    + intros Hv. apply position_None in Hv. rewrite Hv in Hentry. auto.
  - intros i v Hn c n Hin. subst den. rewrite nth_error_map in Hn.
    destruct (nth_error items i) as [w|] eqn:E; [|discriminate]. cbn in Hn. injection Hn as ->.
    specialize (Hentry v c n Hin). rewrite (position_nth items Hnd i v E) in Hentry. auto.
Qed.

(** If [range_oracle] accepts, then on the probed values: size = n; contains says exactly
    whether the value is an int among 0..n-1, and on those numberize and denumberize are the
    identity. *)
Theorem range_oracle_sound n size tab :
  range_oracle n size tab = true ->
  size = Some n /\
  forall v b c nu de, In (v, b, (c, nu, de)) tab ->
    (c = Ok true <-> b = true /\ exists i, i < n /\ v = vnat i) /\
    (b = true -> (exists i, i < n /\ v = vnat i) -> nu = Ok v /\ de = Ok v) /\
    (c = Ok true \/ c = Ok false).
Proof.
  unfold range_oracle. rewrite andb_true_iff. intros [Hs Ht].
  apply (option_eqb_eq Nat.eqb Nat.eqb_eq) in Hs. split; auto.
  rewrite forallb_forall in Ht. intros v b c nu de Hin. specialize (Ht _ Hin). cbv beta iota zeta in Ht.
  apply andb_true_iff in Ht. destruct Ht as [Hc Hr]. apply rbool_eqb_eq in Hc.
  rewrite <- in_range_int_iff. split; [|split].
  - rewrite Hc. split.
    + intros H. injection H as H. apply andb_true_iff in H. auto.
    + intros [-> ->]. reflexivity.
  - intros -> Hi. rewrite Hi in Hr. cbn [andb negb orb] in Hr. apply andb_true_iff in Hr.
    destruct Hr as [H1 H2]. apply rvalue_eqb_eq in H1, H2. auto.
  - rewrite Hc. destruct (b && in_range_int n v); auto.
Qed.

Theorem eq_oracle_sound d eqs :
  eq_oracle d eqs = true ->
  forall o ieq ine, In (o, (ieq, ine)) eqs ->
    (ieq = true <-> dom_content d = dom_content o) /\ ine = negb ieq.
Proof.
  unfold eq_oracle. rewrite forallb_forall. intros H o ieq ine Hin.
  specialize (H _ Hin). cbv beta iota in H. apply andb_true_iff in H. destruct H as [H1 H2].
  apply eqb_prop in H1; apply eqb_prop in H2. subst ieq ine. split; [apply dom_eqb_content | reflexivity].
Qed.

(** the model's own answers pass the oracle (so the oracle is not vacuous): a 4-element mixed domain *)
Example bij_oracle_accepts_model :
  let items := [VNum 1; VOther 0; VOther 1; VNum (1#2)] in
  let d := mk_finite Reiterable items in
  let probes := items ++ [VNum 2; VOther 7] in
  bij_oracle items 4 (combine probes (combine (map (fun v => dom_contains d v false) probes) (map (dom_numberize d) probes)))
             (map (fun i => dom_denumberize d (vnat i)) (seq 0 4)) = true.
Proof. reflexivity. Qed.
