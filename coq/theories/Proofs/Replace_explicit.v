(** Closed form of [replace_edge_model] on well-formed inputs. *)
From Coq Require Import List Arith Bool PeanoNat Lia Permutation.
Import ListNotations.
Require Import Fggs.Model.Replace Fggs.Proofs.Replace_base Fggs.Proofs.Replace_wf.

Fixpoint copies (nx : nat) (vs : list node) : list node :=
  match vs with [] => [] | v :: vs => mkNode (Fresh nx) (n_label v) :: copies (S nx) vs end.
Definition add_nodes (g : graph) (ns : list node) : graph :=
  mkGraph (g_nodes g ++ ns) (g_edges g) (g_ext g) (g_elabs g) (add_nlabs (g_nlabs g) (map n_label ns)).
Definition gn (nm : nmap) (v : node) : node := match aget node_eqb nm v with Some g => g | None => v end.
Fixpoint ecopies (nm : nmap) (nx : nat) (res : list edge) : list edge :=
  match res with
  | [] => []
  | re :: res => mkEdge (Fresh nx) (e_label re) (map (gn nm) (e_att re)) :: ecopies nm (S nx) res
  end.
Definition tbl_add (tbl : list elabel) (l : elabel) : list elabel :=
  match find_label tbl (l_name l) with Some _ => tbl | None => tbl ++ [l] end.
Definition add_edges (g : graph) (es : list edge) (tbl : list elabel) : graph :=
  mkGraph (g_nodes g) (g_edges g ++ es) (g_ext g) tbl (g_nlabs g).

Lemma copies_length : forall vs nx, length (copies nx vs) = length vs.
Proof. induction vs; simpl; intros; auto. Qed.
Lemma ecopies_length : forall nm res nx, length (ecopies nm nx res) = length res.
Proof. induction res; simpl; intros; auto. Qed.

Lemma copies_In : forall vs nx c, In c (copies nx vs) ->
  exists k v, c = mkNode (Fresh k) (n_label v) /\ nx <= k < nx + length vs /\ In v vs.
Proof.
  induction vs; simpl; intros; try tauto. destruct H.
  - exists nx, a; subst; repeat split; auto; lia.
  - destruct (IHvs _ _ H) as [k [v [? [? ?]]]]. exists k, v; repeat split; auto; lia.
Qed.
Lemma ecopies_In : forall nm res nx c, In c (ecopies nm nx res) ->
  exists k re, c = mkEdge (Fresh k) (e_label re) (map (gn nm) (e_att re)) /\ nx <= k < nx + length res /\ In re res.
Proof.
  induction res; simpl; intros; try tauto. destruct H.
  - exists nx, a; subst; repeat split; auto; lia.
  - destruct (IHres _ _ H) as [k [v [? [? ?]]]]. exists k, v; repeat split; auto; lia.
Qed.

Lemma copies_ids_nodup : forall vs nx, NoDup (map n_id (copies nx vs)).
Proof.
  induction vs; simpl; intros; constructor; auto.
  intro H. apply in_map_iff in H. destruct H as [c [Hc Hin]].
  apply copies_In in Hin. destruct Hin as [k [v [-> [? ?]]]]. simpl in Hc. inversion Hc. lia.
Qed.
Lemma ecopies_ids_nodup : forall nm res nx, NoDup (map e_id (ecopies nm nx res)).
Proof.
  induction res; simpl; intros; constructor; auto.
  intro H. apply in_map_iff in H. destruct H as [c [Hc Hin]].
  apply ecopies_In in Hin. destruct Hin as [k [v [-> [? ?]]]]. simpl in Hc. inversion Hc. lia.
Qed.

(** ** externals -> attachment nodes *)
Lemma ext_map_nodup : forall {V} ext (vals : list V),
  NoDup ext -> length vals = length ext -> ext_map ext vals = combine ext vals.
Proof.
  intros V ext vals ND HL. unfold ext_map.
  assert (G : forall ext (vals : list V) acc, NoDup ext -> length vals = length ext ->
              (forall k, In k ext -> ~ In k (map fst acc)) ->
              fold_left (fun m p => aset node_eqb m (snd p) (fst p)) (combine vals ext) acc = acc ++ combine ext vals).
  { clear. induction ext as [|v ext IH]; intros vals acc ND HL HK.
    - destruct vals; simpl in *; try discriminate. rewrite app_nil_r; auto.
    - destruct vals as [|x vals]; simpl in *; try discriminate. inversion ND; subst.
      rewrite (aset_none node_eqb).
      2:{ apply (aget_None node_eqb node_eqb_eq). apply HK; auto. }
      rewrite IH; auto.
      + rewrite <- app_assoc; auto.
      + intros k Hk. rewrite map_app, in_app_iff. simpl. intros [H|[H|[]]].
        * apply (HK k); auto.
        * subst; auto. }
  rewrite G; auto.
Qed.

Lemma combine_keys : forall {A B} (l1 : list A) (l2 : list B), length l1 = length l2 -> map fst (combine l1 l2) = l1.
Proof. induction l1; destruct l2; simpl; intros; try discriminate; auto. rewrite IHl1; auto. Qed.
Lemma combine_vals : forall {A B} (l1 : list A) (l2 : list B), length l1 = length l2 -> map snd (combine l1 l2) = l2.
Proof. induction l1; destruct l2; simpl; intros; try discriminate; auto. rewrite IHl1; auto. Qed.

(** ** fresh copies of the other nodes *)
Lemma amem_app_single : forall (nm : nmap) v x u,
  amem node_eqb (nm ++ [(v, x)]) u = amem node_eqb nm u || node_eqb v u.
Proof.
  intros. unfold amem. rewrite aget_app. destruct (aget node_eqb nm u); simpl; auto.
  destruct (node_eqb v u); auto.
Qed.

Lemma add_nodes_nil : forall g, add_nodes g [] = g.
Proof. destruct g; unfold add_nodes; simpl. rewrite app_nil_r; auto. Qed.

Lemma copy_nodes_spec : forall rnodes g nx nm, NoDup rnodes ->
  copy_nodes rnodes (g, nx, nm) =
  (add_nodes g (copies nx (filter (fun v => negb (amem node_eqb nm v)) rnodes)),
   nx + length (filter (fun v => negb (amem node_eqb nm v)) rnodes),
   nm ++ combine (filter (fun v => negb (amem node_eqb nm v)) rnodes)
                 (copies nx (filter (fun v => negb (amem node_eqb nm v)) rnodes))).
Proof.
  unfold copy_nodes. induction rnodes as [|v rn IH]; intros g nx nm ND.
  - simpl. rewrite add_nodes_nil, app_nil_r, Nat.add_0_r; auto.
  - inversion ND; subst. simpl. destruct (amem node_eqb nm v) eqn:E; simpl.
    + apply IH; auto.
    + assert (Hn : aget node_eqb nm v = None).
      { unfold amem in E. destruct (aget node_eqb nm v); congruence. }
      rewrite (aset_none node_eqb) by auto.
      rewrite IH by auto.
      assert (F : filter (fun u => negb (amem node_eqb (nm ++ [(v, mkNode (Fresh nx) (n_label v))]) u)) rn
                  = filter (fun u => negb (amem node_eqb nm u)) rn).
      { apply filter_ext_in. intros u Hu. rewrite amem_app_single.
        assert (node_eqb v u = false). { apply (eqb_false_gen node_eqb node_eqb_eq). intro; subst; auto. }
        rewrite H. rewrite orb_false_r; auto. }
      rewrite F. f_equal; [f_equal|].
      * unfold add_nodes, push_node; cbn [g_nodes g_edges g_ext g_elabs g_nlabs copies map n_label].
        rewrite <- app_assoc. unfold add_nlabs. reflexivity.
      * lia.
      * rewrite <- app_assoc; auto.
Qed.

(** ** copies of the edges *)
Lemma find_node_id_In : forall ns n, NoDup (map n_id ns) -> In n ns -> find_node_id ns (n_id n) = Some n.
Proof.
  induction ns as [|m ns IH]; simpl; intros n ND Hin; try tauto. inversion ND; subst.
  destruct Hin as [->|Hin].
  - rewrite id_eqb_refl; auto.
  - destruct (id_eqb (n_id m) (n_id n)) eqn:E; auto.
    apply id_eqb_eq in E. exfalso. apply H1. rewrite E. apply in_map; auto.
Qed.

(** attachment nodes that are already nodes of the graph: nothing to add, no clash *)
Lemma check_new_nodes_old : forall g ns new, NoDup (map n_id (g_nodes g)) ->
  (forall n, In n ns -> In n (g_nodes g)) -> check_new_nodes g ns new = Some new.
Proof.
  induction ns as [|n ns IH]; simpl; intros new ND H; auto.
  rewrite (find_node_id_In (g_nodes g) n ND) by auto.
  rewrite node_eqb_refl. apply IH; auto.
Qed.

Lemma has_edge_id_false : forall g nx k, below nx g -> nx <= k -> has_edge_id g (Fresh k) = false.
Proof.
  intros. unfold has_edge_id. destruct (existsb _ _) eqn:E; auto.
  apply existsb_exists in E. destruct E as [e [He Hi]]. apply id_eqb_eq in Hi.
  destruct H as [_ H]. specialize (H e He). rewrite Hi in H. simpl in H. lia.
Qed.

Lemma find_label_Some : forall tbl n l, find_label tbl n = Some l -> In l tbl /\ l_name l = n.
Proof.
  induction tbl; simpl; intros; try discriminate.
  destruct (Nat.eqb (l_name a) n) eqn:E.
  - inversion H; subst. apply Nat.eqb_eq in E. auto.
  - destruct (IHtbl _ _ H); auto.
Qed.
Lemma find_label_None : forall tbl n, find_label tbl n = None -> ~ In n (map l_name tbl).
Proof.
  induction tbl; simpl; intros; auto.
  destruct (Nat.eqb (l_name a) n) eqn:E; try discriminate.
  apply Nat.eqb_neq in E. intros [?|?]; [congruence | eapply IHtbl; eauto].
Qed.

Lemma add_edge_label_ok : forall L tbl l, functional L -> incl tbl L -> In l L ->
  add_edge_label tbl l = Ok (tbl_add tbl l).
Proof.
  intros. unfold add_edge_label, tbl_add. destruct (find_label tbl (l_name l)) eqn:E; auto.
  apply find_label_Some in E. destruct E as [Hin Hn].
  assert (e = l) by (apply H; auto). subst.
  assert (elabel_eqb l l = true) by (apply elabel_eqb_eq; auto). rewrite H2; auto.
Qed.

Lemma label_clash_ok : forall L tbl l, functional L -> incl tbl L -> In l L -> label_clash tbl l = false.
Proof.
  intros. unfold label_clash. destruct (find_label tbl (l_name l)) eqn:E; auto.
  apply find_label_Some in E. destruct E as [Hin Hn].
  assert (e = l) by (apply H; auto). subst.
  assert (elabel_eqb l l = true) by (apply elabel_eqb_eq; auto). rewrite H2; auto.
Qed.

Lemma tbl_add_incl : forall L tbl l, incl tbl L -> In l L -> incl (tbl_add tbl l) L.
Proof.
  intros. unfold tbl_add. destruct (find_label tbl (l_name l)); auto.
  intros x Hx. apply in_app_iff in Hx. destruct Hx as [?|[?|[]]]; subst; auto.
Qed.
Lemma tbl_add_In : forall L tbl l, functional L -> incl tbl L -> In l L -> In l (tbl_add tbl l).
Proof.
  intros. unfold tbl_add. destruct (find_label tbl (l_name l)) eqn:E.
  - apply find_label_Some in E. destruct E. assert (e = l) by (apply H; auto). subst; auto.
  - apply in_app_iff; simpl; auto.
Qed.
Lemma tbl_add_prefix : forall tbl l, exists t, tbl_add tbl l = tbl ++ t.
Proof.
  intros. unfold tbl_add. destruct (find_label tbl (l_name l)).
  - exists []; rewrite app_nil_r; auto.
  - eauto.
Qed.
Lemma NoDup_snoc : forall {A} (l : list A) x, NoDup l -> ~ In x l -> NoDup (l ++ [x]).
Proof.
  induction l; simpl; intros.
  - constructor; auto.
  - inversion H; subst. constructor.
    + rewrite in_app_iff; simpl. intros [?|[?|[]]]; subst; auto.
    + apply IHl; auto.
Qed.
Lemma tbl_add_nodup : forall tbl l, NoDup (map l_name tbl) -> NoDup (map l_name (tbl_add tbl l)).
Proof.
  intros. unfold tbl_add. destruct (find_label tbl (l_name l)) eqn:E; auto.
  apply find_label_None in E. rewrite map_app. simpl. apply NoDup_snoc; auto.
Qed.

Definition tbl_adds (tbl : list elabel) (ls : list elabel) : list elabel := fold_left tbl_add ls tbl.
Lemma tbl_adds_incl : forall L ls tbl, incl tbl L -> incl ls L -> incl (tbl_adds tbl ls) L.
Proof.
  unfold tbl_adds. induction ls; simpl; intros; auto.
  apply IHls. apply tbl_add_incl; auto. apply H0; simpl; auto. intros x Hx; apply H0; simpl; auto.
Qed.
Lemma tbl_adds_prefix : forall ls tbl, exists t, tbl_adds tbl ls = tbl ++ t.
Proof.
  unfold tbl_adds. induction ls; simpl; intros.
  - exists []; rewrite app_nil_r; auto.
  - destruct (tbl_add_prefix tbl a) as [t1 E1]. destruct (IHls (tbl_add tbl a)) as [t2 E2].
    rewrite E2, E1. exists (t1 ++ t2). rewrite app_assoc; auto.
Qed.
Lemma tbl_adds_nodup : forall ls tbl, NoDup (map l_name tbl) -> NoDup (map l_name (tbl_adds tbl ls)).
Proof. unfold tbl_adds. induction ls; simpl; intros; auto. apply IHls. apply tbl_add_nodup; auto. Qed.
Lemma tbl_adds_In : forall L ls tbl l, functional L -> incl tbl L -> incl ls L ->
  In l tbl \/ In l ls -> In l (tbl_adds tbl ls).
Proof.
  unfold tbl_adds. induction ls; simpl; intros.
  - tauto.
  - apply IHls; auto.
    + apply tbl_add_incl; auto. apply H1; simpl; auto.
    + intros x Hx; apply H1; simpl; auto.
    + destruct H2 as [?|[?|?]]; auto.
      * left. destruct (tbl_add_prefix tbl a) as [t E]. rewrite E. apply in_app_iff; auto.
      * subst. left. eapply tbl_add_In; eauto. apply H1; simpl; auto.
Qed.

Lemma copy_edges_spec : forall L nm res g nx em,
  functional L -> incl (g_elabs g) L -> (forall re, In re res -> In (e_label re) L) ->
  (forall re v, In re res -> In v (e_att re) ->
     exists x, aget node_eqb nm v = Some x /\ In x (g_nodes g) /\ n_label x = n_label v) ->
  (forall re, In re res -> l_type (e_label re) = map n_label (e_att re)) ->
  below nx g -> NoDup res -> (forall re, In re res -> aget edge_eqb em re = None) ->
  NoDup (map n_id (g_nodes g)) ->
  copy_edges nm res g nx em =
  (add_edges g (ecopies nm nx res) (tbl_adds (g_elabs g) (map e_label res)), nx + length res,
   Ok (em ++ combine res (ecopies nm nx res))).
Proof.
  intros L nm. induction res as [|re res IH]; intros g nx em HF HT HL HM HTy HB ND HE HN.
  - simpl. unfold add_edges, tbl_adds; simpl. rewrite !app_nil_r, Nat.add_0_r. destruct g; auto.
  - inversion ND; subst. cbn [copy_edges].
    assert (M : map_nodes nm (e_att re) = Some (map (gn nm) (e_att re))).
    { rewrite map_nodes_omap. apply omap_Some_map. intros v Hv.
      destruct (HM re v (or_introl eq_refl) Hv) as [x [Hx _]]. unfold gn. rewrite Hx; auto. }
    rewrite M.
    assert (Ty : list_eqb Nat.eqb (l_type (e_label re)) (map n_label (map (gn nm) (e_att re))) = true).
    { apply (list_eqb_eq Nat.eqb Nat.eqb_eq). rewrite (HTy re (or_introl eq_refl)), map_map.
      apply map_ext_in. intros v Hv. destruct (HM re v (or_introl eq_refl) Hv) as [x [Hx [_ Hl]]].
      unfold gn. rewrite Hx; auto. }
    rewrite Ty. cbn [negb].
    unfold add_edge. cbn [e_id e_att e_label].
    rewrite (has_edge_id_false g nx nx HB) by lia.
    rewrite (label_clash_ok L) by (auto; apply HL; simpl; auto).
    rewrite (check_new_nodes_old g _ [] HN).
    2:{ intros n Hn. apply in_map_iff in Hn. destruct Hn as [v [<- Hv]].
        destruct (HM re v (or_introl eq_refl) Hv) as [x [Hx [Hin _]]]. unfold gn; rewrite Hx; auto. }
    cbn [g_nodes g_edges g_ext g_elabs]. rewrite app_nil_r.
    rewrite (add_edge_label_ok L) by (auto; apply HL; simpl; auto).
    rewrite (aset_none edge_eqb) by (apply HE; simpl; auto).
    rewrite IH; auto.
    + cbn [g_nodes g_edges g_ext g_elabs]. unfold add_edges. cbn [g_nodes g_edges g_ext g_elabs ecopies map combine length].
      f_equal; [f_equal|].
      * rewrite <- app_assoc. reflexivity.
      * lia.
      * rewrite <- app_assoc. reflexivity.
    + cbn [g_elabs]. apply tbl_add_incl; auto. apply HL; simpl; auto.
    + intros; apply HL; simpl; auto.
    + intros re' v Hre Hv. cbn [g_nodes]. apply (HM re' v); simpl; auto.
    + intros; apply HTy; simpl; auto.
    + destruct HB as [HB1 HB2]. split; cbn [g_nodes g_edges].
      * intros n Hn. eapply id_lt_mono; [|apply HB1; auto]. lia.
      * intros e He. apply in_app_iff in He. destruct He as [He|[<-|[]]].
        -- eapply id_lt_mono; [|apply HB2; auto]. lia.
        -- simpl. lia.
    + intros re' Hre. rewrite aget_app. rewrite HE by (simpl; auto). simpl.
      destruct (edge_eqb re re') eqn:E; auto. apply edge_eqb_eq in E. subst. tauto.
Qed.

