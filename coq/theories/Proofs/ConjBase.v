(** Reflection lemmas and generic facts for the conjunction model (Model/Conj.v). *)
From Coq Require Import List Arith Bool PeanoNat Lia Permutation.
Import ListNotations.
Require Import Fggs.Model.Conj.

(** * boolean equalities *)
Lemma leqb_eq {A} (eqb : A -> A -> bool) :
  (forall x y, eqb x y = true <-> x = y) -> forall a b, leqb eqb a b = true <-> a = b.
Proof.
  intros H a. induction a as [|x a IH]; intros [|y b]; simpl; split; intros E;
    try discriminate; try reflexivity.
  - apply andb_true_iff in E. destruct E as [E1 E2]. apply H in E1. apply IH in E2.
    subst. reflexivity.
  - injection E as E1 E2. subst. apply andb_true_iff. split; [apply H | apply IH]; reflexivity.
Qed.

Lemma str_eqb_eq : forall a b, str_eqb a b = true <-> a = b.
Proof. apply leqb_eq. intros. apply Nat.eqb_eq. Qed.
Lemma nats_eqb_eq : forall a b, nats_eqb a b = true <-> a = b.
Proof. apply leqb_eq. intros. apply Nat.eqb_eq. Qed.
Lemma str_eqb_refl : forall a, str_eqb a a = true.
Proof. intros. apply str_eqb_eq. reflexivity. Qed.

Lemma elabel_eqb_eq : forall a b, elabel_eqb a b = true <-> a = b.
Proof.
  intros [n1 t1 b1] [n2 t2 b2]. unfold elabel_eqb. simpl.
  rewrite !andb_true_iff, str_eqb_eq, nats_eqb_eq, eqb_true_iff. split.
  - intros [[E1 E2] E3]. subst. reflexivity.
  - intros E. injection E as E1 E2 E3. auto.
Qed.
Lemma elabel_eqb_refl : forall a, elabel_eqb a a = true.
Proof. intros. apply elabel_eqb_eq. reflexivity. Qed.
Lemma elabel_eqb_neq : forall a b, elabel_eqb a b = false <-> a <> b.
Proof.
  intros a b. split.
  - intros E H. apply elabel_eqb_eq in H. congruence.
  - intros H. destruct (elabel_eqb a b) eqn:E; [apply elabel_eqb_eq in E; contradiction | reflexivity].
Qed.

Lemma node_eqb_eq : forall a b, node_eqb a b = true <-> a = b.
Proof.
  intros [i1 l1] [i2 l2]. unfold node_eqb. simpl. rewrite andb_true_iff, !Nat.eqb_eq. split.
  - intros [E1 E2]. subst. reflexivity.
  - intros E. injection E as E1 E2. auto.
Qed.

Lemma nodes_eqb_eq : forall a b, leqb node_eqb a b = true <-> a = b.
Proof. apply leqb_eq. apply node_eqb_eq. Qed.

Lemma edge_eqb_eq : forall a b, edge_eqb a b = true <-> a = b.
Proof.
  intros [i1 l1 a1] [i2 l2 a2]. unfold edge_eqb. simpl.
  rewrite !andb_true_iff, Nat.eqb_eq, elabel_eqb_eq, nodes_eqb_eq. split.
  - intros [[E1 E2] E3]. subst. reflexivity.
  - intros E. injection E as E1 E2 E3. auto.
Qed.

Lemma key_eqb_eq : forall a b, key_eqb a b = true <-> a = b.
Proof.
  intros [a1 a2] [b1 b2]. unfold key_eqb. simpl. rewrite andb_true_iff, !elabel_eqb_eq. split.
  - intros [E1 E2]. subst. reflexivity.
  - intros E. injection E as E1 E2. auto.
Qed.
Lemma key_eqb_refl : forall a, key_eqb a a = true.
Proof. intros. apply key_eqb_eq. reflexivity. Qed.

Lemma sig_eqb_eq : forall a b, sig_eqb a b = true <-> a = b.
Proof.
  intros [a1 a2] [b1 b2]. unfold sig_eqb. simpl. rewrite andb_true_iff, Nat.eqb_eq, nats_eqb_eq. split.
  - intros [E1 E2]. subst. reflexivity.
  - intros E. injection E as E1 E2. auto.
Qed.

(** * membership *)
Lemma existsb_eqb_In {A} (eqb : A -> A -> bool) :
  (forall x y, eqb x y = true <-> x = y) -> forall x l, existsb (eqb x) l = true <-> In x l.
Proof.
  intros H x l. rewrite existsb_exists. split.
  - intros [y [Hy E]]. apply H in E. subst. exact Hy.
  - intros Hx. exists x. split; [exact Hx | apply H; reflexivity].
Qed.

Lemma smem_In : forall x l, smem x l = true <-> In x l.
Proof. apply existsb_eqb_In. apply str_eqb_eq. Qed.
Lemma smem_false : forall x l, smem x l = false <-> ~ In x l.
Proof.
  intros. rewrite <- smem_In. destruct (smem x l); split; intros; congruence.
Qed.
Lemma mem_label_In : forall x l, mem_label x l = true <-> In x l.
Proof. apply existsb_eqb_In. apply elabel_eqb_eq. Qed.
Lemma mem_node_In : forall x l, mem_node x l = true <-> In x l.
Proof. apply existsb_eqb_In. apply node_eqb_eq. Qed.
Lemma mem_nat_In : forall x l, existsb (Nat.eqb x) l = true <-> In x l.
Proof. apply existsb_eqb_In. intros. apply Nat.eqb_eq. Qed.

Lemma set_eqb_spec {A} (eqb : A -> A -> bool) :
  (forall x y, eqb x y = true <-> x = y) ->
  forall l1 l2, set_eqb eqb l1 l2 = true <-> (forall x, In x l1 <-> In x l2).
Proof.
  intros H l1 l2. unfold set_eqb. rewrite andb_true_iff, !forallb_forall. split.
  - intros [H1 H2] x. split; intros Hx.
    + apply (existsb_eqb_In eqb H). apply H1. exact Hx.
    + apply (existsb_eqb_In eqb H). apply H2. exact Hx.
  - intros E. split; intros x Hx; apply (existsb_eqb_In eqb H); apply E; exact Hx.
Qed.

Lemma nodup_nat_NoDup : forall l, nodup_nat l = true <-> NoDup l.
Proof.
  induction l as [|x l IH]; simpl.
  - split; [constructor | reflexivity].
  - rewrite andb_true_iff, negb_true_iff, IH. split.
    + intros [H1 H2]. constructor; [|exact H2]. intros Hx. apply mem_nat_In in Hx. congruence.
    + intros H. inversion H; subst. split; [|assumption].
      destruct (existsb (Nat.eqb x) l) eqn:E; [apply mem_nat_In in E; contradiction | reflexivity].
Qed.
Lemma nodup_str_NoDup : forall l, nodup_str l = true <-> NoDup l.
Proof.
  induction l as [|x l IH]; simpl.
  - split; [constructor | reflexivity].
  - rewrite andb_true_iff, negb_true_iff, IH, smem_false. split.
    + intros [H1 H2]. constructor; assumption.
    + intros H. inversion H; subst. split; assumption.
Qed.
Lemma nodup_label_NoDup : forall l, nodup_label l = true <-> NoDup l.
Proof.
  induction l as [|x l IH]; simpl.
  - split; [constructor | reflexivity].
  - rewrite andb_true_iff, negb_true_iff, IH. split.
    + intros [H1 H2]. constructor; [|exact H2]. intros Hx. apply mem_label_In in Hx. congruence.
    + intros H. inversion H; subst. split; [|assumption].
      destruct (mem_label x l) eqn:E; [apply mem_label_In in E; contradiction | reflexivity].
Qed.

(** * the error monad *)
Lemma bind_ok {A B} (x : result A) (f : A -> result B) b :
  bind x f = Ok b -> exists a, x = Ok a /\ f a = Ok b.
Proof. destruct x; simpl; intros H; [eauto | discriminate]. Qed.

Lemma mfold_inv {A S} (f : S -> A -> result S) (P : S -> Prop) :
  forall l s s',
    (forall s x s', In x l -> P s -> f s x = Ok s' -> P s') ->
    P s -> mfold f l s = Ok s' -> P s'.
Proof.
  induction l as [|x l IH]; simpl; intros s s' Hstep Hs E.
  - injection E as <-. exact Hs.
  - destruct (f s x) as [s1|] eqn:E1; [|discriminate].
    apply (IH s1 s'); [| |exact E].
    + intros s0 x0 s0' Hin. apply Hstep. right. exact Hin.
    + apply (Hstep s x s1); auto.
Qed.

Lemma mfold_app {A S} (f : S -> A -> result S) : forall l1 l2 s,
  mfold f (l1 ++ l2) s = bind (mfold f l1 s) (mfold f l2).
Proof.
  induction l1 as [|x l1 IH]; simpl; intros; [reflexivity|].
  destruct (f s x); simpl; [apply IH | reflexivity].
Qed.

(** a loop whose body never fails and never changes the state *)
Lemma mfold_id {A S} (f : S -> A -> result S) : forall l s,
  (forall x, In x l -> f s x = Ok s) -> mfold f l s = Ok s.
Proof.
  induction l as [|x l IH]; simpl; intros s H; [reflexivity|].
  rewrite (H x (or_introl eq_refl)). apply IH. intros. apply H. right. assumption.
Qed.

(** * misc lists *)
Lemma indexed_nth {A} (l : list A) : forall k x, In (k, x) (indexed l) <-> nth_error l k = Some x.
Proof.
  unfold indexed. intros k x.
  assert (G : forall (l : list A) s k x, In (k, x) (combine (seq s (length l)) l) <-> (s <= k /\ nth_error l (k - s) = Some x)).
  { clear. induction l as [|y l IH]; simpl; intros s k x.
    - split; [tauto|]. intros [_ H]. destruct (k - s); discriminate.
    - split.
      + intros [E|H].
        * injection E as E1 E2. subst. split; [lia|]. rewrite Nat.sub_diag. reflexivity.
        * apply IH in H. destruct H as [H1 H2]. split; [lia|].
          replace (k - s) with (S (k - S s)) by lia. exact H2.
      + intros [H1 H2]. destruct (k - s) as [|n] eqn:E.
        * left. injection H2 as H2. subst. f_equal. lia.
        * right. apply IH. split; [lia|]. replace (k - S s) with n by lia. exact H2. }
  rewrite G. rewrite Nat.sub_0_r. split; [tauto|]. intros; split; [lia|assumption].
Qed.

Lemma indexed_length {A} (l : list A) : length (indexed l) = length l.
Proof. unfold indexed. rewrite combine_length, seq_length. lia. Qed.

Lemma indexed_nth_error {A} (l : list A) : forall k,
  nth_error (indexed l) k = match nth_error l k with Some x => Some (k, x) | None => None end.
Proof.
  unfold indexed.
  assert (G : forall (l : list A) s k, nth_error (combine (seq s (length l)) l) k =
             match nth_error l k with Some x => Some (s + k, x) | None => None end).
  { clear. induction l as [|y l IH]; simpl; intros s k.
    - destruct k; reflexivity.
    - destruct k; simpl.
      + rewrite Nat.add_0_r. reflexivity.
      + rewrite IH. destruct (nth_error l k); [|reflexivity]. f_equal. f_equal. lia. }
  intros k. rewrite (G l 0 k). simpl. reflexivity.
Qed.
