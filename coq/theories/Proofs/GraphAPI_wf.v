(** C16 -- the state-level invariant [inv] (well-formedness plus the dict-key discipline), its
    relation to the observation-level oracle [wf_b], and the structural lemmas (tables, object
    replacement) used by the preservation proof in GraphAPI_inv.v. *)
From Coq Require Import List Arith Bool Lia.
Import ListNotations.
Require Import Fggs.Model.GraphAPI Fggs.Proofs.GraphAPI_assoc.

Definition registered (t : tables) (l : elabel) : Prop :=
  aget Nat.eq_dec (t_el t) (el_name l) = Some l.

Record tab_ok (t : tables) : Prop := {
  tk_nl : keyed (fun l : nat => l) (t_nl t);
  tk_el : keyed el_name (t_el t) }.

Definition has_node (g : graph) (n : node) : Prop :=
  aget ident_eq_dec (g_nodes g) (n_id n) = Some n.

(** a graph: every value stored under its own id (so ids are unique), attachment and external
    nodes are nodes of the graph, every edge's label is THE label registered under its name,
    every edge's nodes carry the labels its label demands *)
Record graph_ok (g : graph) : Prop := {
  gk_nodes : keyed n_id (g_nodes g);
  gk_edges : keyed e_id (g_edges g);
  gk_tab : tab_ok (g_tab g);
  gk_att : forall k e n, In (k, e) (g_edges g) -> In n (e_nodes e) -> has_node g n;
  gk_ext : forall n, In n (g_ext g) -> has_node g n;
  gk_reg : forall k e, In (k, e) (g_edges g) -> registered (g_tab g) (e_label e);
  gk_typed : forall k e, In (k, e) (g_edges g) -> el_ty (e_label e) = map n_label (e_nodes e) }.

(** a rule of a grammar with tables [t]: lhs registered, rhs a live graph of the lhs's type
    all of whose edge labels are registered *)
Definition rule_wf (os : list obj) (t : tables) (r : rule) : Prop :=
  registered t (r_lhs r) /\
  exists g, get_graph os (r_rhs r) = Some g /\ el_ty (r_lhs r) = g_type g /\
            forall k e, In (k, e) (g_edges g) -> registered t (e_label e).

Record hrg_ok (os : list obj) (h : hrg) : Prop := {
  hk_tab : tab_ok (h_tab h);
  hk_keys : NoDup (map fst (h_rules h));
  hk_lhs : forall k rs r, In (k, rs) (h_rules h) -> In r rs -> r_lhs r = k;
  hk_start : registered (h_tab h) (h_start h);
  hk_rules : forall k rs r, In (k, rs) (h_rules h) -> In r rs -> rule_wf os (h_tab h) r }.

Definition obj_ok (os : list obj) (o : obj) : Prop :=
  match o with OG g => graph_ok g | OH h => hrg_ok os h end.

Definition inv_os (os : list obj) : Prop := forall k o, nth_error os k = Some o -> obj_ok os o.
Definition inv (s : state) : Prop := inv_os (objs s).

(** * tables *)
Definition tab_le (t t' : tables) : Prop := forall l, registered t l -> registered t' l.

Lemma tab_le_refl : forall t, tab_le t t.
Proof. intros t l H. exact H. Qed.
Lemma tab_le_trans : forall a b c, tab_le a b -> tab_le b c -> tab_le a c.
Proof. intros a b c H1 H2 l H. auto. Qed.

Lemma tab_ok_empty : tab_ok empty_tab.
Proof. split; apply keyed_nil. Qed.

Lemma add_node_label_ok : forall t l, tab_ok t -> tab_ok (t_add_node_label t l) /\ tab_le t (t_add_node_label t l).
Proof.
  intros t l [H1 H2]. split; [split; cbn|].
  - apply (keyed_aset Nat.eq_dec (fun l : nat => l)). assumption.
  - assumption.
  - intros l0 H. exact H.
Qed.

Lemma add_edge_label_spec : forall t l t' r,
    t_add_edge_label t l = (t', r) -> tab_ok t ->
    tab_ok t' /\ tab_le t t' /\ (r = ROk -> registered t' l) /\ (r <> ROk -> t' = t) /\
    (r = ROk \/ r = RErr ValueErr) /\
    t_nl t' = t_nl t /\ t_dom t' = t_dom t /\ t_fac t' = t_fac t.
Proof.
  intros t l t' r E [H1 H2]. unfold t_add_edge_label in E.
  assert (OK : forall t', t' = set_el t (aset Nat.eq_dec (t_el t) (el_name l) l) ->
               (forall l', aget Nat.eq_dec (t_el t) (el_name l) = Some l' -> l' = l) ->
               tab_ok t' /\ tab_le t t' /\ registered t' l).
  { intros t0 -> U. split; [split; cbn; [assumption | apply keyed_aset; assumption]|]. split.
    - intros l0 R. unfold registered in *. cbn. rewrite aget_aset.
      destruct (Nat.eq_dec (el_name l) (el_name l0)) as [En|En]; [|assumption].
      rewrite <- En in R. f_equal. symmetry. apply U. assumption.
    - unfold registered. cbn. apply aget_aset_same. }
  destruct (aget Nat.eq_dec (t_el t) (el_name l)) as [l'|] eqn:G.
  - destruct (elabel_eq_dec l' l) as [->|N].
    + inversion E; subst. destruct (OK _ eq_refl) as (A & B & C); [intros ? X; congruence|].
      refine (conj A (conj B (conj _ (conj _ (conj _ (conj _ (conj _ _))))))); auto; intros; congruence.
    + inversion E; subst.
      refine (conj (Build_tab_ok _ H1 H2) (conj (tab_le_refl _) (conj _ (conj _ (conj _ (conj _ (conj _ _)))))));
        auto; intros; congruence.
  - inversion E; subst. destruct (OK _ eq_refl) as (A & B & C); [intros ? X; congruence|].
    refine (conj A (conj B (conj _ (conj _ (conj _ (conj _ (conj _ _))))))); auto; intros; congruence.
Qed.

Lemma add_domain_ok : forall t l d, tab_ok t -> tab_ok (fst (t_add_domain t l d)) /\ tab_le t (fst (t_add_domain t l d)).
Proof.
  intros t l d H. unfold t_add_domain.
  destruct (amem Nat.eq_dec (t_dom t) l); cbn; [split; [assumption | apply tab_le_refl]|].
  destruct (add_node_label_ok t l H) as [A B].
  split; [destruct A; split; assumption | exact B].
Qed.

Lemma add_factor_ok : forall t l f, tab_ok t -> tab_ok (fst (t_add_factor t l f)) /\ tab_le t (fst (t_add_factor t l f)).
Proof.
  intros t l f H. unfold t_add_factor.
  assert (ID : tab_ok t /\ tab_le t t) by (split; [assumption | apply tab_le_refl]).
  destruct (negb (el_term l)); [exact ID|].
  destruct (label_conflict t l); [exact ID|].
  destruct (amem Nat.eq_dec (t_fac t) (el_name l)); [exact ID|].
  destruct (negb (Nat.eqb (length (f_doms f)) (length (el_ty l)))); [exact ID|].
  destruct (negb (fac_doms_ok t (el_ty l) (f_doms f))); [exact ID|].
  destruct (t_add_edge_label t l) as [t' r] eqn:E.
  destruct (add_edge_label_spec _ _ _ _ E H) as (A & B & _).
  destruct r as [| |k]; cbn; split; try assumption; destruct A; split; assumption.
Qed.

Lemma new_finite_factor_ok : forall t n sh tag, tab_ok t ->
    tab_ok (fst (t_new_finite_factor t n sh tag)) /\ tab_le t (fst (t_new_finite_factor t n sh tag)).
Proof.
  intros t n sh tag H. unfold t_new_finite_factor.
  destruct (aget Nat.eq_dec (t_el t) n); [|cbn; split; [assumption | apply tab_le_refl]].
  destruct (lookup_doms t (el_ty e)); [|cbn; split; [assumption | apply tab_le_refl]].
  destruct (lnat_eq_dec sh (map (@length nat) l)); [apply add_factor_ok; assumption|].
  cbn; split; [assumption | apply tab_le_refl].
Qed.

Lemma upd_weights_ok : forall t n u, tab_ok t ->
    tab_ok (fst (t_upd_weights t n u)) /\ tab_le t (fst (t_upd_weights t n u)).
Proof.
  intros t n u H. unfold t_upd_weights.
  destruct (aget Nat.eq_dec (t_fac t) n); cbn; (split; [|intros l R; exact R]); [|assumption].
  destruct H; split; assumption.
Qed.

(** * handles *)
Lemma get_graph_set_nth_other : forall os k o h, h <> k -> get_graph (set_nth os k o) h = get_graph os h.
Proof. intros. unfold get_graph. rewrite nth_error_set_nth_other; [reflexivity | assumption]. Qed.

Lemma get_graph_set_nth_hrg : forall os k x x' h,
    nth_error os k = Some (OH x) -> get_graph (set_nth os k (OH x')) h = get_graph os h.
Proof.
  intros os k x x' h H. destruct (Nat.eq_dec h k) as [->|N].
  - unfold get_graph. rewrite H. rewrite nth_error_set_nth_same; [reflexivity|].
    apply nth_error_Some. congruence.
  - apply get_graph_set_nth_other. assumption.
Qed.

Lemma get_graph_app : forall os news h g, get_graph os h = Some g -> get_graph (os ++ news) h = Some g.
Proof.
  intros os news h g H. unfold get_graph in *.
  destruct (nth_error os h) eqn:E; [|discriminate].
  rewrite nth_error_app1; [rewrite E; assumption|]. apply nth_error_Some. congruence.
Qed.

Lemma rule_wf_mono : forall os os' t t' r,
    (forall h g, get_graph os h = Some g -> get_graph os' h = Some g) -> tab_le t t' ->
    rule_wf os t r -> rule_wf os' t' r.
Proof.
  intros os os' t t' r G L [R (g & Hg & Ty & Ed)]. split; [apply L; assumption|].
  exists g. repeat split; auto. intros k e H. apply L. eapply Ed; eauto.
Qed.

Lemma hrg_ok_mono : forall os os' h,
    (forall k g, get_graph os k = Some g -> get_graph os' k = Some g) ->
    hrg_ok os h -> hrg_ok os' h.
Proof.
  intros os os' h G [A B C D E]. split; auto.
  intros k rs r H1 H2. eapply rule_wf_mono; [exact G | apply tab_le_refl | eauto].
Qed.

(** replacing a grammar object *)
Lemma inv_replace_hrg : forall os k x x',
    inv_os os -> nth_error os k = Some (OH x) -> hrg_ok os x' -> inv_os (set_nth os k (OH x')).
Proof.
  intros os k x x' I Hk OK j o Hj.
  assert (G : forall h g, get_graph os h = Some g -> get_graph (set_nth os k (OH x')) h = Some g).
  { intros h g Hg. erewrite get_graph_set_nth_hrg; eauto. }
  destruct (Nat.eq_dec j k) as [->|N].
  - rewrite nth_error_set_nth_same in Hj by (apply nth_error_Some; congruence).
    inversion Hj; subst. cbn. eapply hrg_ok_mono; eauto.
  - rewrite nth_error_set_nth_other in Hj by assumption.
    specialize (I _ _ Hj). destruct o as [g|y]; cbn in *; [assumption|].
    eapply hrg_ok_mono; eauto.
Qed.

(** replacing a graph object: every grammar that uses it as a rhs must still agree with its
    type and know the labels of its edges *)
Lemma inv_replace_graph : forall os k g g',
    inv_os os -> nth_error os k = Some (OG g) -> graph_ok g' ->
    (forall j x rs r ke, nth_error os j = Some (OH x) -> In (ke, rs) (h_rules x) -> In r rs -> r_rhs r = k ->
                         el_ty (r_lhs r) = g_type g' /\
                         forall k e, In (k, e) (g_edges g') -> registered (h_tab x) (e_label e)) ->
    inv_os (set_nth os k (OG g')).
Proof.
  intros os k g g' I Hk OK AL j o Hj.
  destruct (Nat.eq_dec j k) as [->|N].
  - rewrite nth_error_set_nth_same in Hj by (apply nth_error_Some; congruence).
    inversion Hj; subst. exact OK.
  - rewrite nth_error_set_nth_other in Hj by assumption.
    pose proof (I _ _ Hj) as Ho. destruct o as [g0|y]; cbn in *; [assumption|].
    destruct Ho as [A B C D E]. split; auto.
    intros ke rs r H1 H2. destruct (E _ _ _ H1 H2) as [R (g1 & Hg & Ty & Ed)].
    split; [assumption|].
    destruct (Nat.eq_dec (r_rhs r) k) as [Ek|Nk].
    + exists g'. destruct (AL _ _ _ _ _ Hj H1 H2 Ek) as [T1 T2]. repeat split; auto.
      unfold get_graph. rewrite Ek. rewrite nth_error_set_nth_same; [reflexivity|].
      apply nth_error_Some. congruence.
    + exists g1. repeat split; auto. rewrite get_graph_set_nth_other; assumption.
Qed.

(** the common case: same type, no new edge labels *)
Lemma inv_replace_graph_same : forall os k g g',
    inv_os os -> nth_error os k = Some (OG g) -> graph_ok g' ->
    g_type g' = g_type g ->
    (forall k e, In (k, e) (g_edges g') -> exists k0 e0, In (k0, e0) (g_edges g) /\ e_label e0 = e_label e) ->
    inv_os (set_nth os k (OG g')).
Proof.
  intros os k g g' I Hk OK Ty Ed. eapply inv_replace_graph; eauto.
  intros j x rs r ke Hj H1 H2 Ek.
  pose proof (I _ _ Hj) as Ho. cbn in Ho. destruct (hk_rules _ _ Ho _ _ _ H1 H2) as [R (g1 & Hg & T & E)].
  unfold get_graph in Hg. rewrite Ek, Hk in Hg. inversion Hg; subst g1.
  split; [congruence|]. intros k0 e He. destruct (Ed _ _ He) as (k1 & e1 & H3 & H4).
  rewrite <- H4. eapply E; eauto.
Qed.

Lemma inv_app : forall os news,
    inv_os os -> (forall o, In o news -> obj_ok (os ++ news) o) -> inv_os (os ++ news).
Proof.
  intros os news I N j o Hj.
  destruct (Nat.lt_ge_cases j (length os)) as [L|L].
  - rewrite nth_error_app1 in Hj by assumption. specialize (I _ _ Hj).
    destruct o as [g|y]; cbn in *; [assumption|]. eapply hrg_ok_mono; [|eassumption].
    intros; apply get_graph_app; assumption.
  - rewrite nth_error_app2 in Hj by assumption. apply N. eapply nth_error_In; eauto.
Qed.
