(** C04, code-shaped model: [reconstruct] terminates and returns a well-formed derivation whose
    weight is the value of the cell it starts from.

    [recok T B]: in the tables T, for every cell with a finite value, [reconstruct_model] with
    any fuel >= B returns a tree that is well formed for that cell and weighs the cell's value.

    - one component ([comp_recok]): if the loop's final state is STABLE (its values are a fixed
      point of the component's equations: the last two iterates were equal, or the component is
      trivial), then -- by [stable_child] -- the values a finite cell's pointer was recorded
      with (pass j-1) are the children's CURRENT values, so a child inside the component
      reached its current value in a pass < j: the "recorded-at" pass strictly decreases along
      the pointers, children in finished components are handled by [recok] of those tables,
      and [reconstruct_model] needs at most B + j levels;
    - all components ([tables_recok]): fuel [length order * S kmax] suffices for every cell.

    Without stability (loop cut off by kmax, or stopped by a tolerance > 0 before two equal
    iterates) the statement is FALSE in general: a child may have improved in the last pass
    while its parent's pointer still refers to the child's previous value. *)
From Coq Require Import QArith Qcanon List Arith Bool PeanoNat Lia Wf_nat.
Import ListNotations.
Require Import Fggs.Model.Semiring Fggs.Model.SCC Fggs.Model.SumProduct Fggs.Model.SumProductCheck
               Fggs.Model.Kleene Fggs.Model.EReal Fggs.Model.Trop Fggs.Model.Viterbi Fggs.Model.ViterbiAlg.
Require Import Fggs.Proofs.BigSum Fggs.Proofs.SP_mono Fggs.Proofs.SP_trees Fggs.Proofs.SP_rename
               Fggs.Proofs.Viterbi_trop Fggs.Proofs.Viterbi_proofs Fggs.Proofs.ViterbiAlg_base
               Fggs.Proofs.ViterbiAlg_loop Fggs.Proofs.ViterbiAlg_rhsasst.
Local Open Scope nat_scope.

Local Notation sumT := (sumS trop_ops).
Local Notation prodT := (prodS trop_ops).

Lemma NoDup_app_inv {A} (l1 l2 : list A) :
  NoDup (l1 ++ l2) -> NoDup l2 /\ forall x, In x l1 -> In x l2 -> False.
Proof.
  induction l1 as [|a l1 IH]; cbn [app]; intros H; [split; [exact H | intros x []]|].
  inversion H as [|? ? Hna Hnd]; subst. destruct (IH Hnd) as [H1 H2]. split; [exact H1|].
  intros x [<-|Hx] Hx2; [apply Hna; apply in_or_app; right; exact Hx2 | apply (H2 x Hx Hx2)].
Qed.

(* ------------------------------------------------------------------------- *)
(** * unfolding [reconstruct_model] *)
Definition recon_child (G : grammar) (T : cst) (f : nat) (a : list nat) (ed : nat * list nat) : option (option dtree) :=
  if is_term G (fst ed) then Some None
  else match reconstruct_model G T f (fst ed) (sel a (snd ed)) with
       | Some t => Some (Some t)
       | None => None
       end.

Lemma reconstruct_S G T f X xi :
  reconstruct_model G T (S f) X xi =
  match aget T X with
  | None => None
  | Some nr =>
    let '(_, lp, rps) := nt_cell nr xi in
    match nth_error (rule_idx G X) lp with
    | None => None
    | Some gi =>
      match nth lp rps None with
      | None => None
      | Some ptr =>
        match rhs_asst_code (get_rule G gi) xi ptr with
        | None => None
        | Some a =>
          match opt_all (map (recon_child G T f a) (r_edges (get_rule G gi))) with
          | Some ch => Some (DT gi a ch)
          | None => None
          end
        end
      end
    end
  end.
Proof. reflexivity. Qed.

Lemma opt_all_map_ext {A B} (f g : A -> option B) l :
  (forall x y, In x l -> f x = Some y -> g x = Some y) ->
  forall r, opt_all (map f l) = Some r -> opt_all (map g l) = Some r.
Proof.
  induction l as [|x l IH]; intros H r Hr; [exact Hr|]. cbn [map opt_all] in *.
  destruct (f x) as [y|] eqn:Ef; [|discriminate]. rewrite (H x y (or_introl eq_refl) Ef).
  destruct (opt_all (map f l)) as [r'|] eqn:El; [|discriminate].
  rewrite (IH (fun x y Hx => H x y (or_intror Hx)) r' eq_refl). exact Hr.
Qed.

Lemma opt_all_map_build {A B} (g : A -> option B) (P : A -> B -> Prop) l :
  (forall x, In x l -> exists y, g x = Some y /\ P x y) ->
  exists ys, opt_all (map g l) = Some ys /\ Forall2 P l ys.
Proof.
  induction l as [|x l IH]; intros H; [exists []; split; [reflexivity | constructor]|].
  destruct (H x (or_introl eq_refl)) as (y & Hy & HP).
  destruct (IH (fun x Hx => H x (or_intror Hx))) as (ys & Hys & HF).
  exists (y :: ys). cbn [map opt_all]. rewrite Hy, Hys. split; [reflexivity | constructor; assumption].
Qed.

(** tables only grow by appending, and what was reconstructed stays reconstructed *)
Lemma reconstruct_ext G T E : forall fuel X xi t,
  reconstruct_model G T fuel X xi = Some t -> reconstruct_model G (T ++ E) fuel X xi = Some t.
Proof.
  induction fuel as [|f IH]; intros X xi t H; [discriminate|].
  rewrite reconstruct_S in *. rewrite aget_app.
  destruct (aget T X) as [nr|]; [|discriminate].
  destruct (nt_cell nr xi) as [[v lp] rps].
  destruct (nth_error (rule_idx G X) lp) as [gi|]; [|discriminate].
  destruct (nth lp rps None) as [ptr|]; [|discriminate].
  destruct (rhs_asst_code (get_rule G gi) xi ptr) as [a|]; [|discriminate].
  destruct (opt_all (map (recon_child G T f a) (r_edges (get_rule G gi)))) as [ch|] eqn:Hch;
    [|discriminate].
  assert (Hx : forall x y, In x (r_edges (get_rule G gi)) ->
                recon_child G T f a x = Some y ->
                recon_child G (T ++ E) f a x = Some y).
  { intros x y _. unfold recon_child. destruct (is_term G (fst x)); [intros E0; exact E0|].
    destruct (reconstruct_model G T f (fst x) (sel a (snd x))) as [t'|] eqn:Et; [|discriminate].
    rewrite (IH _ _ _ Et). intros E0. exact E0. }
  rewrite (opt_all_map_ext _ _ _ Hx ch Hch). exact H.
Qed.

(** children: well-formedness and weight, edge by edge *)
Lemma children_build (G : grammar) (w : env (R:=trop)) (a : list nat) (val : nat * list nat -> trop) :
  forall edges ch,
  Forall2 (fun ed c => (match c with
                        | None => is_term G (fst ed) = true
                        | Some t' => is_term G (fst ed) = false /\ wf_dtree G (fst ed) (sel a (snd ed)) t'
                        end) /\ child_weight trop_ops G w a ed c = val ed) edges ch ->
  all2 (fun c ed => match c with
                    | None => is_term G (fst ed) = true
                    | Some t' => is_term G (fst ed) = false /\ wf_dtree G (fst ed) (sel a (snd ed)) t'
                    end) ch edges
  /\ prodT (combine edges ch) (fun p => child_weight trop_ops G w a (fst p) (snd p)) = prodT edges val.
Proof.
  induction 1 as [|ed c edges ch [Hwf Hw] _ [IH1 IH2]]; [split; [exact I | reflexivity]|].
  cbn [all2 combine]. split; [split; assumption|].
  rewrite !prodT_cons. cbn [fst snd]. rewrite Hw, IH2. reflexivity.
Qed.

(* ------------------------------------------------------------------------- *)
Section Recon.
Variables (G : grammar) (w : env (R:=trop)).
Hypothesis Hwf : wf_grammar G = true.

Definition recok (T : cst) (B : nat) : Prop :=
  forall X xi, In xi (all_assts (lshape G X)) -> tfin (tables_val T X xi) ->
  forall fuel, B <= fuel ->
    exists t, reconstruct_model G T fuel X xi = Some t /\ wf_dtree G X xi t
              /\ weight trop_ops G w t = tables_val T X xi.

Lemma recok_weaken T B B' : recok T B -> B <= B' -> recok T B'.
Proof. intros H HB X xi Hxi Hf fuel Hfu. apply (H X xi Hxi Hf fuel). lia. Qed.

Lemma recok_nil : recok [] 0.
Proof. intros X xi _ [q Hq]. discriminate. Qed.

(** ** one component *)
Section OneComp.
Variables (done : cst) (comp : list nat) (B M : nat) (S : cst).
Hypothesis Hdisj : forall n, In n comp -> aget done n = None.
Hypothesis Hdone : recok done B.
Hypothesis HM : 1 <= M.
Hypothesis HS : viter G w done comp M = Some S.
Hypothesis Hst : stable G w done comp M.

Local Notation rho := (rho G w done comp).
Local Notation E := (E G w done comp).

Lemma tv_done X xi nr : aget done X = Some nr -> tables_val (done ++ S) X xi = tables_val done X xi.
Proof. intros H. unfold tables_val, x_val, st_lk. rewrite aget_app, H. reflexivity. Qed.
Lemma tv_comp X xi : aget done X = None -> tables_val (done ++ S) X xi = rho M X xi.
Proof.
  intros H. unfold tables_val, ViterbiAlg_loop.rho. rewrite HS. unfold x_val, st_lk. rewrite aget_app, H. reflexivity.
Qed.

Lemma comp_recon : forall j n xi fuel,
  In n comp -> In xi (all_assts (lshape G n)) -> tfin (rho M n xi) -> rho j n xi = rho M n xi -> j <= M ->
  B + j <= fuel ->
  exists t, reconstruct_model G (done ++ S) fuel n xi = Some t /\ wf_dtree G n xi t
            /\ weight trop_ops G w t = rho M n xi.
Proof.
  induction j as [j IH] using lt_wf_ind. intros n xi fuel Hn Hxi [q Hq] Hj HjM Hfuel.
  destruct (linv_all G w done comp Hwf M HM n xi Hn Hxi) as (S' & nr & HS' & Hget & Hci).
  rewrite HS in HS'. injection HS' as <-.
  destruct (nt_cell nr xi) as [[v lp] rps] eqn:Hc. cbn [cell_inv] in Hci. destruct Hci as (Hv & Hlen & Hp).
  assert (Hvq : v = TFin q) by (rewrite Hv; exact Hq).
  assert (Hne : v <> NInf) by (rewrite Hvq; discriminate).
  destruct (Hp Hne) as (jc & r & ptr & Hjc & Hrj & Hrj1 & Hnth & Hptr & Hgood).
  (* the cell reached its value in pass jc <= j *)
  assert (Hjcj : jc <= j).
  { destruct (le_lt_dec jc j) as [H|H]; [exact H|]. exfalso. apply Hrj1.
    apply vt_tle_antisym.
    - rewrite Hv. apply (rho_mono_le G w done comp Hwf); [lia | exact Hn | exact Hxi].
    - rewrite Hv, <- Hj. apply (rho_mono_le G w done comp Hwf); [lia | exact Hn | exact Hxi]. }
  destruct fuel as [|f]; [lia|].
  assert (Hr : In r (rules_of G n)) by (apply (nth_error_In _ _ Hnth)).
  rewrite rules_of_rule_idx, nth_error_map in Hnth.
  destruct (nth_error (rule_idx G n) lp) as [gi|] eqn:Hgi; [|discriminate]. cbn [option_map] in Hnth.
  injection Hnth as Hgr.
  destruct (proj1 (rule_idx_spec G n gi) (nth_error_In _ _ Hgi)) as [Hgi1 Hgi2].
  rewrite reconstruct_S, aget_app, (Hdisj n Hn), Hget, Hc, Hgi, Hptr, Hgr.
  destruct Hgood as (Hplen & Ha & Hext & Hprod).
  rewrite (rhs_asst_code_spec r xi ptr _ Hext), <- Hplen, Nat.eqb_refl.
  set (a := rebuild r xi ptr) in *.
  rewrite Hvq in Hprod.
  (* the children *)
  destruct (opt_all_map_build (recon_child G (done ++ S) f a)
              (fun ed c => (match c with
                            | None => is_term G (fst ed) = true
                            | Some t' => is_term G (fst ed) = false /\ wf_dtree G (fst ed) (sel a (snd ed)) t'
                            end) /\ child_weight trop_ops G w a ed c = E (jc - 1) (fst ed) (sel a (snd ed)))
              (r_edges r)) as (ch & Hch & HF).
  { intros ed Hed. unfold recon_child.
    pose proof (prodT_fin_factors _ _ _ Hprod ed Hed) as [qe Hqe].
    pose proof (query_range G Hwf n r ed a Hr Hed Ha) as Hrange.
    assert (Hsame : E M (fst ed) (sel a (snd ed)) = E (jc - 1) (fst ed) (sel a (snd ed))).
    { apply (stable_child G w done comp Hwf M n xi q (jc - 1) r ptr Hst Hn Hxi Hq ltac:(lia) Hr); [|exact Hed].
      repeat split; assumption. }
    unfold ViterbiAlg_loop.E, sem_env in Hqe, Hsame.
    destruct (is_term G (fst ed)) eqn:Ht.
    - exists None. split; [reflexivity|]. split; [reflexivity|]. cbn [child_weight].
      unfold ViterbiAlg_loop.E, sem_env. rewrite Ht. reflexivity.
    - destruct (st_lk done (fst ed)) as [f0|] eqn:Hlk.
      + (* a finished component *)
        unfold st_lk in Hlk. destruct (aget done (fst ed)) as [nr'|] eqn:Hg'; [|discriminate].
        assert (Htv : tables_val done (fst ed) (sel a (snd ed)) = f0 (sel a (snd ed))).
        { unfold tables_val, x_val, st_lk. rewrite Hg'. destruct (nr_present nr'); [|discriminate].
          injection Hlk as <-. reflexivity. }
        destruct (Hdone (fst ed) (sel a (snd ed)) Hrange ltac:(rewrite Htv; exists qe; exact Hqe) f ltac:(lia))
          as (t' & Ht' & Hwt & Hwe).
        rewrite (reconstruct_ext G done S _ _ _ _ Ht'). exists (Some t').
        split; [reflexivity|]. split; [split; [reflexivity | exact Hwt]|]. cbn [child_weight].
        unfold ViterbiAlg_loop.E, sem_env. rewrite Ht. unfold st_lk. rewrite Hg'.
        destruct (nr_present nr'); [|discriminate]. injection Hlk as <-. rewrite Hwe, Htv. reflexivity.
      + (* the component itself: an earlier pass *)
        assert (Hc' : In (fst ed) comp).
        { destruct (in_dec Nat.eq_dec (fst ed) comp) as [H|H]; [exact H|].
          rewrite (rho_out G w done comp _ _ _ H) in Hqe. discriminate. }
        destruct (IH (jc - 1) ltac:(lia) (fst ed) (sel a (snd ed)) f Hc' Hrange
                     ltac:(rewrite Hsame; exists qe; exact Hqe) ltac:(symmetry; exact Hsame) ltac:(lia) ltac:(lia))
          as (t' & Ht' & Hwt & Hwe).
        rewrite Ht'. exists (Some t'). split; [reflexivity|]. split; [split; [reflexivity | exact Hwt]|].
        cbn [child_weight]. unfold ViterbiAlg_loop.E, sem_env. rewrite Ht, Hlk, Hwe. exact Hsame. }
  rewrite Hch. destruct (children_build G w a _ _ _ HF) as (Hall & Hw).
  exists (DT gi a ch). split; [reflexivity|]. split.
  - cbn [wf_dtree]. rewrite Hgr. rewrite Hgr in Hgi2. repeat split; assumption.
  - rewrite weight_DT, Hgr, Hw. unfold edges_prod in Hprod. rewrite Hq. exact Hprod.
Qed.

Theorem comp_recok : recok (done ++ S) (B + M).
Proof.
  intros X xi Hxi Hfin fuel Hfuel. destruct (aget done X) as [nr|] eqn:Hg.
  - rewrite (tv_done X xi nr Hg) in *.
    destruct (Hdone X xi Hxi Hfin fuel ltac:(lia)) as (t & Ht & Hwt & Hwe).
    exists t. split; [apply reconstruct_ext; exact Ht | split; assumption].
  - rewrite (tv_comp X xi Hg) in *.
    assert (Hc : In X comp).
    { destruct (in_dec Nat.eq_dec X comp) as [H|H]; [exact H|].
      rewrite (rho_out G w done comp _ _ _ H) in Hfin. destruct Hfin as [q Hq]. discriminate. }
    apply (comp_recon M X xi fuel Hc Hxi Hfin eq_refl (le_n M) Hfuel).
Qed.
End OneComp.

(** ** what [comp_model] returns when its flag is true *)
Lemma comp_model_spec tol kmax done comp st :
  comp_model false G w tol kmax done comp = Some (st, true) ->
  exists M, 1 <= M <= S kmax /\ viter G w done comp M = Some st /\ stable G w done comp M.
Proof.
  unfold comp_model. destruct (trivial_comp G comp) eqn:Ht.
  - intros H. injection H as <-. exists 1. split; [lia|]. split; [reflexivity|].
    apply (trivial_stable G w done comp Ht).
  - intros H. destruct (vloop_spec G w done comp tol kmax 0 None st true H) as [C|(K & HK & Hst & Hc)]; [discriminate|].
    exists (S K). split; [lia|]. split; [exact Hst|]. apply (equal_stable G w done comp Hwf).
    intros n xi Hn Hxi. unfold rho at 2. rewrite Hst.
    apply (all_equal_spec G comp _ _ (eq_sym Hc) n xi Hn Hxi).
Qed.

(** ** all components *)
Definition tstep (tol : Q) (kmax : nat) (acc : option (cst * bool)) (comp : list nat) : option (cst * bool) :=
  match acc with
  | None => None
  | Some (done, ok) =>
    match comp_model false G w tol kmax done comp with
    | None => None
    | Some (st, c) => Some (done ++ st, ok && c)
    end
  end.

Lemma viterbi_tables_fold order tol kmax :
  viterbi_tables G w order tol kmax = fold_left (tstep tol kmax) order (Some ([], true)).
Proof. reflexivity. Qed.

Lemma fold_none tol kmax order : fold_left (tstep tol kmax) order None = None.
Proof. induction order as [|c order IH]; [reflexivity | exact IH]. Qed.
Lemma fold_false tol kmax : forall order d T b,
  fold_left (tstep tol kmax) order (Some (d, false)) = Some (T, b) -> b = false.
Proof.
  induction order as [|c order IH]; intros d T b H; cbn [fold_left] in H; [injection H as _ <-; reflexivity|].
  unfold tstep at 2 in H. destruct (comp_model false G w tol kmax d c) as [[st c0]|].
  - cbn [andb] in H. apply (IH _ _ _ H).
  - rewrite fold_none in H. discriminate.
Qed.

Lemma comp_model_keys tol kmax done comp st c :
  comp_model false G w tol kmax done comp = Some (st, c) -> map fst st = comp.
Proof.
  unfold comp_model. destruct (trivial_comp G comp).
  - intros H. injection H as <- _. apply (viter_keys G w done comp 1). reflexivity.
  - intros H. destruct (vloop_spec G w done comp tol kmax 0 None st c H) as [C|(K & _ & Hst & _)]; [discriminate|].
    apply (viter_keys G w done comp (S K) st Hst).
Qed.

Theorem fold_recok tol kmax : forall order done B T,
  recok done B -> (forall n, In n (concat order) -> aget done n = None) -> NoDup (concat order) ->
  fold_left (tstep tol kmax) order (Some (done, true)) = Some (T, true) ->
  recok T (B + length order * S kmax).
Proof.
  induction order as [|comp order IH]; intros done B T Hrec Hdisj Hnd H; cbn [fold_left] in H.
  - injection H as <-. cbn [length]. rewrite Nat.mul_0_l, Nat.add_0_r. exact Hrec.
  - unfold tstep at 2 in H. destruct (comp_model false G w tol kmax done comp) as [[st c]|] eqn:Hcm;
      [|rewrite fold_none in H; discriminate].
    cbn [andb] in H. destruct c; [|apply fold_false in H; discriminate].
    destruct (comp_model_spec _ _ _ _ _ Hcm) as (M & HM & Hvit & Hstab).
    cbn [concat] in Hdisj, Hnd.
    assert (Hrec' : recok (done ++ st) (B + S kmax)).
    { apply recok_weaken with (B + M); [|lia].
      apply (comp_recok done comp B M st); try assumption; [|lia].
      intros n Hn. apply Hdisj. apply in_or_app. left. exact Hn. }
    cbn [length]. replace (B + S (length order) * S kmax) with (B + S kmax + length order * S kmax) by lia.
    apply (IH (done ++ st) (B + S kmax) T Hrec'); [| apply (proj1 (NoDup_app_inv _ _ Hnd)) | exact H].
    intros n Hn. rewrite aget_app, (Hdisj n (in_or_app _ _ _ (or_intror Hn))).
    apply aget_not_key. rewrite (comp_model_keys _ _ _ _ _ _ Hcm). intros Hc.
    apply (proj2 (NoDup_app_inv _ _ Hnd) n Hc Hn).
Qed.

(** C04_reconstruct_terminates *)
Theorem tables_recok order tol kmax T :
  NoDup (concat order) ->
  viterbi_tables G w order tol kmax = Some (T, true) ->
  recok T (length order * S kmax).
Proof.
  intros Hnd H. rewrite viterbi_tables_fold in H.
  apply (fold_recok tol kmax order [] 0 T recok_nil (fun n _ => eq_refl) Hnd H).
Qed.
End Recon.
