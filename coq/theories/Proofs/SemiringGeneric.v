(** C08, generic level: consequences of the law records [sr_ring] / [sr_ordered] / [sr_star]
    of Model/Semiring.v that hold in every instance: [from_nat] is a homomorphism from the
    naturals and the only one, [sum_list] is the fold of [add] and is invariant under
    permutation (torch's sum/max/any/logsumexp do not promise an order), [star a] is the
    least solution of y = 1 + a*y, [star a * b] solves x = a*x + b, and in an idempotent
    semiring star one = one. *)
From Coq Require Import List Ring_theory Permutation.
Import ListNotations.
Require Import Fggs.Model.Semiring.

Section Generic.
  Context {S : Type} (o : sr_ops S).
  Hypothesis R : sr_ring o.

  Lemma sr_add_0_l x : add o (zero o) x = x.        Proof. exact (SRadd_0_l R x). Qed.
  Lemma sr_add_comm x y : add o x y = add o y x.     Proof. exact (SRadd_comm R x y). Qed.
  Lemma sr_add_assoc x y z : add o x (add o y z) = add o (add o x y) z.
  Proof. exact (SRadd_assoc R x y z). Qed.
  Lemma sr_mul_1_l x : mul o (one o) x = x.          Proof. exact (SRmul_1_l R x). Qed.
  Lemma sr_mul_0_l x : mul o (zero o) x = zero o.    Proof. exact (SRmul_0_l R x). Qed.
  Lemma sr_mul_comm x y : mul o x y = mul o y x.     Proof. exact (SRmul_comm R x y). Qed.
  Lemma sr_mul_assoc x y z : mul o x (mul o y z) = mul o (mul o x y) z.
  Proof. exact (SRmul_assoc R x y z). Qed.
  Lemma sr_distr_l x y z : mul o (add o x y) z = add o (mul o x z) (mul o y z).
  Proof. exact (SRdistr_l R x y z). Qed.

  Lemma sr_add_0_r x : add o x (zero o) = x.
  Proof. rewrite sr_add_comm. apply sr_add_0_l. Qed.
  Lemma sr_mul_1_r x : mul o x (one o) = x.
  Proof. rewrite sr_mul_comm. apply sr_mul_1_l. Qed.
  Lemma sr_mul_0_r x : mul o x (zero o) = zero o.
  Proof. rewrite sr_mul_comm. apply sr_mul_0_l. Qed.
  Lemma sr_distr_r x y z : mul o x (add o y z) = add o (mul o x y) (mul o x z).
  Proof. rewrite sr_mul_comm, sr_distr_l, (sr_mul_comm y), (sr_mul_comm z). reflexivity. Qed.

  (** from_int: n |-> 1 + ... + 1 *)
  Lemma from_nat_0 : from_nat o 0 = zero o.  Proof. reflexivity. Qed.
  Lemma from_nat_1 : from_nat o 1 = one o.   Proof. cbn. apply sr_add_0_r. Qed.
  Lemma from_nat_add n m : from_nat o (n + m) = add o (from_nat o n) (from_nat o m).
  Proof.
    induction n as [|n IH]; cbn [from_nat plus].
    - symmetry. apply sr_add_0_l.
    - rewrite IH. apply sr_add_assoc.
  Qed.
  Lemma from_nat_mul n m : from_nat o (n * m) = mul o (from_nat o n) (from_nat o m).
  Proof.
    induction n as [|n IH]; cbn [from_nat Nat.mul].
    - symmetry. apply sr_mul_0_l.
    - rewrite from_nat_add, IH, sr_distr_l, sr_mul_1_l. reflexivity.
  Qed.
  (** ... and it is the only additive map with h 0 = 0, h 1 = 1 *)
  Lemma from_nat_unique (h : nat -> S) :
    h 0 = zero o -> h 1 = one o -> (forall n m, h (n + m) = add o (h n) (h m)) ->
    forall n, h n = from_nat o n.
  Proof.
    intros H0 H1 Hadd n. induction n as [|n IH]; [exact H0|].
    change (Datatypes.S n) with (1 + n). rewrite Hadd, H1, IH. reflexivity.
  Qed.

  (** sum = fold of add, in any order *)
  Lemma sum_list_fold l : sum_list o l = fold_right (add o) (zero o) l.
  Proof. induction l as [|x l IH]; cbn; [reflexivity | now rewrite IH]. Qed.
  Lemma sum_list_app l1 l2 : sum_list o (l1 ++ l2) = add o (sum_list o l1) (sum_list o l2).
  Proof.
    induction l1 as [|x l1 IH]; cbn [sum_list app].
    - symmetry. apply sr_add_0_l.
    - rewrite IH. apply sr_add_assoc.
  Qed.
  Lemma sum_list_perm l1 l2 : Permutation l1 l2 -> sum_list o l1 = sum_list o l2.
  Proof.
    induction 1 as [| x l l' _ IH | x y l | l l' l'' _ IH1 _ IH2]; cbn [sum_list].
    - reflexivity.
    - now rewrite IH.
    - rewrite !sr_add_assoc, (sr_add_comm y x). reflexivity.
    - now rewrite IH1.
  Qed.
  (** the in-place accumulation [add_] of the code, folded from the left, gives the same sum *)
  Lemma sum_list_fold_left l acc :
    fold_left (add o) l acc = add o acc (sum_list o l).
  Proof.
    revert acc. induction l as [|x l IH]; intros acc; cbn [fold_left sum_list].
    - symmetry. apply sr_add_0_r.
    - rewrite IH. symmetry. apply sr_add_assoc.
  Qed.

  Section Ordered.
    Hypothesis O : sr_ordered o.
    Hypothesis St : sr_star o.

    Lemma sr_le_add_r a b : le o a (add o a b).
    Proof.
      rewrite <- (sr_add_0_r a) at 1. apply (add_mono o O); [apply (le_refl o O) | apply (zero_le o O)].
    Qed.
    Lemma sr_le_add_l a b : le o b (add o a b).
    Proof. rewrite sr_add_comm. apply sr_le_add_r. Qed.

    (** star a is a solution of y = 1 + a*y ... *)
    Lemma star_solution a : star o a = add o (one o) (mul o a (star o a)).
    Proof. exact (star_unfold o St a). Qed.
    (** ... and below every pre-fixed point, in particular below every other solution *)
    Lemma star_least_prefix a y : le o (add o (one o) (mul o a y)) y -> le o (star o a) y.
    Proof.
      intros H. rewrite <- (sr_mul_1_r (star o a)). apply (star_ind o St).
      rewrite sr_add_comm. exact H.
    Qed.
    Lemma star_least a y : y = add o (one o) (mul o a y) -> le o (star o a) y.
    Proof. intros H. apply star_least_prefix. rewrite <- H. apply (le_refl o O). Qed.
    (** star a * b solves x = a*x + b and is the least such x *)
    Lemma star_mul_solution a b :
      mul o (star o a) b = add o (mul o a (mul o (star o a) b)) b.
    Proof.
      rewrite (star_solution a) at 1. rewrite sr_distr_l, sr_mul_1_l, sr_mul_assoc.
      apply sr_add_comm.
    Qed.
    Lemma star_mul_least a b x : x = add o (mul o a x) b -> le o (mul o (star o a) b) x.
    Proof. intros H. apply (star_ind o St). rewrite <- H. apply (le_refl o O). Qed.

    Lemma one_le_star a : le o (one o) (star o a).
    Proof. rewrite (star_solution a). apply sr_le_add_r. Qed.
    (** idempotent semirings (Bool, Viterbi): star one = one *)
    Lemma star_one_idem : add o (one o) (one o) = one o -> star o (one o) = one o.
    Proof.
      intros H. apply (le_antisym o O); [|apply one_le_star].
      apply star_least. rewrite sr_mul_1_l. symmetry. exact H.
    Qed.
    (** star zero = one everywhere *)
    Lemma star_zero : star o (zero o) = one o.
    Proof. rewrite star_solution, sr_mul_0_l. apply sr_add_0_r. Qed.
  End Ordered.
End Generic.
