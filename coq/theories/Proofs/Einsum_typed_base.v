(** C07 on typed operands, part 1: facts about substitutions that are well typed and acyclic
    ([wts], Proofs/Axis_typed.v) in the vocabulary of the certificate of Model/EinsumCert.v.

    - the executable tests of the certificate are complete ([NoDup -> nodup_pos], ...), in
      particular a well-formed tensor without size-1 physical axes passes [repr_inv_b];
    - [resolve] reaches a closed axis within [cert_fuel]: along a chain of nested calls the rank of
      Proofs/Axis_rank.v strictly decreases, so every binding is entered at most once;
    - what [fv_occ] (as coded: [lookup], then recursion into the binding) returns is the list of
      leaves of the resolved axis; [clone] returns a closed axis with the same leaves;
    - all sizes written in a typed universe are the sizes of the types. *)
From Coq Require Import List Arith Lia PeanoNat Bool PArith.
Import ListNotations.
Require Import Fggs.Model.Axis Fggs.Model.AxisCheck Fggs.Model.PTensor Fggs.Model.Einsum Fggs.Model.EinsumCert.
Require Import Fggs.Proofs.Axis_sem Fggs.Proofs.Axis_unify Fggs.Proofs.Axis_complete_gen Fggs.Proofs.Axis_repr.
Require Import Fggs.Proofs.Axis_typed Fggs.Proofs.Axis_rank Fggs.Proofs.Axis_stride_typed Fggs.Proofs.Axis_stride_total.
Require Import Fggs.Proofs.PTensor_dense Fggs.Proofs.Einsum_envs Fggs.Proofs.Einsum_subst.

(** * the boolean tests are complete *)
Lemma existsb_pos_false k l : ~ In k l -> existsb (Pos.eqb k) l = false.
Proof.
  intros H. destruct (existsb (Pos.eqb k) l) eqn:E; [|reflexivity]. exfalso. apply H.
  apply existsb_exists in E. destruct E as (x & Hx & E). apply Pos.eqb_eq in E. subst. exact Hx.
Qed.

Lemma existsb_pos_true k l : In k l -> existsb (Pos.eqb k) l = true.
Proof. intros H. apply existsb_exists. exists k. split; [exact H|apply Pos.eqb_refl]. Qed.

Lemma NoDup_nodup_pos l : NoDup l -> nodup_pos l = true.
Proof.
  induction 1 as [|k l Hk _ IH]; [reflexivity|]. simpl. rewrite (existsb_pos_false k l Hk), IH. reflexivity.
Qed.

Lemma sizes_consistent_complete (l : list pn) :
  (forall k n n', In (k, n) l -> In (k, n') l -> n = n') -> sizes_consistent l = true.
Proof.
  induction l as [|[k n] l IH]; intros H; [reflexivity|]. simpl. apply andb_true_iff. split.
  - apply forallb_forall. intros [k' n'] Hin. simpl. destruct (Pos.eqb_spec k' k) as [->|_]; [|reflexivity]. simpl.
    apply Nat.eqb_eq. apply (H k); [right; exact Hin|left; reflexivity].
  - apply IH. intros k0 n0 n0' H1 H2. apply (H k0); right; assumption.
Qed.

Lemma seteq_pn_complete (l l' : list pn) : (forall x, In x l <-> In x l') -> seteq pn_eqb l l' = true.
Proof.
  intros H. unfold seteq, subset. apply andb_true_iff. split; apply forallb_forall; intros x Hx; unfold memb;
    apply existsb_exists; exists x; (split; [apply H; exact Hx|apply pn_eqb_eq; reflexivity]).
Qed.

Lemma nat_list_eqb_refl l : list_eqb Nat.eqb l l = true.
Proof. induction l as [|x l IH]; [reflexivity|]. simpl. rewrite Nat.eqb_refl, IH. reflexivity. Qed.

Lemma axis_eqb_refl e : axis_eqb e e = true.
Proof.
  induction e as [k n|l IH|b t a IH] using axis_ind'.
  - simpl. rewrite Pos.eqb_refl, Nat.eqb_refl. reflexivity.
  - simpl. induction l as [|x l IHl]; [reflexivity|]. inversion IH; subst. rewrite H1. simpl. apply IHl. assumption.
  - simpl. rewrite !Nat.eqb_refl, IH. reflexivity.
Qed.

Lemma pn_keys_unique (K : list pn) k n n' : NoDup (map fst K) -> In (k, n) K -> In (k, n') K -> n = n'.
Proof.
  induction K as [|[k0 n0] K IH]; intros NDk H H'; [contradiction|]. simpl in NDk. inversion NDk as [|? ? Hk NDk']; subst.
  destruct H as [H|H], H' as [H'|H'].
  - congruence.
  - inversion H; subst. exfalso. apply Hk. apply in_map_iff. exists (k, n'). auto.
  - inversion H'; subst. exfalso. apply Hk. apply in_map_iff. exists (k, n). auto.
  - eauto.
Qed.

Section ReprInv.
Variable V : Type.
Lemma wf_repr_inv_b (t : ptensor V) : wf V t -> (forall k n, In (k, n) (paxes t) -> n <> 1) ->
  repr_inv_b (map snd (paxes t)) (paxes t) (vaxes t) = true.
Proof.
  intros W H1. unfold repr_inv_b. pose proof (wf_nodup V t W) as ND.
  assert (U : forall k n n', In (k, n) (paxes t) -> In (k, n') (paxes t) -> n = n').
  { intros k n n' A B. eapply pn_keys_unique; eauto. }
  rewrite nat_list_eqb_refl, (NoDup_nodup_pos _ ND). cbn [andb].
  apply andb_true_iff. split; [apply andb_true_iff; split|].
  - apply seteq_pn_complete. intros [k n]. unfold fvn_list. split.
    + intros Hk. pose proof (proj2 (wf_fv V t W k n) Hk) as Hf.
      destruct (dedup_keys [] _ k n Hf eq_refl) as (n' & Hn').
      pose proof (dedup_In_sub _ _ _ Hn') as Hf'. apply (wf_fv V t W) in Hf'. rewrite (U k n n' Hk Hf'). exact Hn'.
    + intros Hk. apply dedup_In_sub in Hk. apply (wf_fv V t W). exact Hk.
  - apply sizes_consistent_complete. intros k n n' A B. apply (U k).
    + apply in_app_or in A. destruct A as [A|A]; [exact A|apply (wf_fv V t W); exact A].
    + apply in_app_or in B. destruct B as [B|B]; [exact B|apply (wf_fv V t W); exact B].
  - apply forallb_forall. intros [k n] Hk. simpl. apply negb_true_iff. apply Nat.eqb_neq. exact (H1 k n Hk).
Qed.
End ReprInv.

(** * [resolve] reaches a closed axis within [cert_fuel] *)
Definition rbudget (G : ctx) (s : subst) (r : nat) : nat :=
  asize_list (map snd (filter (fun kT : positive * axis => rank G s (fst kT) <=? r) s)).

Lemma rbudget_gen_step (f : positive -> nat) (s : subst) k T r r' : In (k, T) s -> f k <= r -> r' < f k ->
  asize_list (map snd (filter (fun kT : positive * axis => f (fst kT) <=? r') s)) + asize T
  <= asize_list (map snd (filter (fun kT : positive * axis => f (fst kT) <=? r) s)).
Proof.
  induction s as [|[k0 T0] s IH]; intros H L1 L2; [contradiction|]. simpl.
  assert (M : forall s0 : subst, asize_list (map snd (filter (fun kT : positive * axis => f (fst kT) <=? r') s0))
                         <= asize_list (map snd (filter (fun kT : positive * axis => f (fst kT) <=? r) s0))).
  { induction s0 as [|[k1 T1] s0 IH0]; simpl; [lia|].
    destruct (Nat.leb_spec (f k1) r'), (Nat.leb_spec (f k1) r); simpl; lia. }
  destruct H as [H|H].
  - inversion H; subst. destruct (Nat.leb_spec (f k) r) as [_|]; [|lia].
    destruct (Nat.leb_spec (f k) r') as [|_]; [lia|]. simpl. specialize (M s). lia.
  - specialize (IH H L1 L2). destruct (Nat.leb_spec (f k0) r'), (Nat.leb_spec (f k0) r); simpl; lia.
Qed.

Lemma rbudget_le_all G s r : rbudget G s r <= asize_list (map snd s).
Proof.
  unfold rbudget. generalize (rank G s). intros f. induction s as [|[k T] s IH]; simpl; [lia|].
  destruct (f k <=? r); simpl; lia.
Qed.

Lemma closed_Phys_unbound s k n : assoc k s = None -> closed s (Phys k n) = true.
Proof. intros A. unfold closed. simpl. unfold EinsumCert.unbound. rewrite A. reflexivity. Qed.

Lemma closed_Sum s b t a : closed s (Sum b t a) = closed s t.
Proof. reflexivity. Qed.

Section ResolveFuel.
Variable G : ctx.
Variable s : subst.
Hypothesis W : wts G s.

Lemma rank_pos k T : In (k, T) s -> 1 <= rank G s k.
Proof.
  intros H. destruct (wts_ty G s W k T H) as [Gk _]. pose proof (tws_pos _ Gk). unfold rank. nia.
Qed.

Lemma resolve_closed_rank : forall r f e, (forall j, In j (fv e) -> rank G s j <= r) ->
  asize e + rbudget G s r + 1 <= f -> closed s (resolve f s e) = true.
Proof.
  induction r as [r IHr] using lt_wf_ind. induction f as [|f IHf]; intros e Hr Hf; [lia|].
  destruct e as [k n|l|b t a].
  - simpl. destruct (assoc k s) as [T|] eqn:A; [|apply closed_Phys_unbound; exact A].
    apply assoc_In in A. pose proof (rank_pos k T A) as P.
    assert (Lk : rank G s k <= r) by (apply Hr; left; reflexivity).
    apply (IHr (rank G s k - 1)); [lia| |].
    + intros j Hj. pose proof (rank_decreases G s W k T j A Hj). lia.
    + pose proof (rbudget_gen_step (rank G s) s k T r (rank G s k - 1) A Lk ltac:(lia)) as B.
      unfold rbudget. simpl in Hf. unfold rbudget in Hf. lia.
  - change (resolve (S f) s (Prod l)) with (Prod (map (resolve f s) l)). rewrite closed_Prod.
    apply forallb_forall. intros y Hy. apply in_map_iff in Hy. destruct Hy as (x & <- & Hx). apply IHf.
    + intros j Hj. apply Hr. simpl. apply in_flat_map. eauto.
    + pose proof (asize_In x l Hx). simpl in Hf. fold (asize_list l) in Hf. lia.
  - change (resolve (S f) s (Sum b t a)) with (Sum b (resolve f s t) a). rewrite closed_Sum. apply IHf.
    + exact Hr.
    + simpl in Hf. lia.
Qed.

Theorem resolve_closed_cert_fuel k n : closed s (resolve (cert_fuel s) s (Phys k n)) = true.
Proof.
  apply (resolve_closed_rank (rank G s k)).
  - intros j [<-|[]]. lia.
  - unfold cert_fuel. pose proof (rbudget_le_all G s (rank G s k)). simpl. lia.
Qed.

(** the same for an arbitrary axis, with enough fuel *)
Lemma resolve_closed_some e : exists f, closed s (resolve f s e) = true.
Proof.
  set (r := fold_right Nat.max 0 (map (rank G s) (fv e))).
  exists (asize e + rbudget G s r + 1). apply (resolve_closed_rank r); [|lia].
  intros j Hj. unfold r. clear -Hj. induction (fv e) as [|x l IH]; [contradiction|]. simpl.
  destruct Hj as [->|Hj]; [lia|]. specialize (IH Hj). lia.
Qed.
End ResolveFuel.

(** * leaves of a resolved axis *)
Lemma resolve_unbound f s k n : assoc k s = None -> resolve f s (Phys k n) = Phys k n.
Proof. destruct f; simpl; [reflexivity|]. intros ->. reflexivity. Qed.

Lemma closed_Phys_inv s k n : closed s (Phys k n) = true -> assoc k s = None.
Proof. unfold closed. simpl. rewrite andb_true_r. apply unbound_assoc. Qed.

Lemma closed_fvn s e : closed s e = true <-> forall k n, In (k, n) (fvn e) -> assoc k s = None.
Proof.
  unfold closed. rewrite forallb_forall, fv_fvn. split.
  - intros H k n Hk. apply unbound_assoc. apply H. apply in_map_iff. exists (k, n). auto.
  - intros H k Hk. apply in_map_iff in Hk. destruct Hk as ([k' n] & <- & Hk). apply unbound_assoc. eapply H; eauto.
Qed.

Lemma resolve_Prod f s l : resolve (S f) s (Prod l) = Prod (map (resolve f s) l).
Proof. reflexivity. Qed.
Lemma resolve_Sum f s b t a : resolve (S f) s (Sum b t a) = Sum b (resolve f s t) a.
Proof. reflexivity. Qed.
Lemma fvn_Prod l : fvn (Prod l) = flat_map fvn l.
Proof. reflexivity. Qed.

Lemma resolve_models rho s : models rho s -> Sized s ->
  forall f e, sized s e = true -> eval rho (resolve f s e) = eval rho e.
Proof.
  intros M SZ. induction f as [|f IH]; intros e Hz; [reflexivity|]. destruct e as [k n|l|b t a].
  - simpl. destruct (assoc k s) as [e'|] eqn:A; [|reflexivity].
    rewrite (IH e' (SZ k e' (assoc_In _ _ _ A))). symmetry. eapply assoc_models; eauto.
  - rewrite resolve_Prod, !eval_Prod. rewrite sized_Prod, forallb_forall in Hz.
    apply (evalL_Forall2 rho rho l (map (resolve f s) l)).
    clear -IH Hz SZ. induction l as [|x l IHl]; simpl; constructor.
    + split; [apply (resolve_numel s SZ); apply Hz; left; reflexivity|apply IH; apply Hz; left; reflexivity].
    + apply IHl. intros y Hy. apply Hz. right. exact Hy.
  - rewrite resolve_Sum. simpl. f_equal. apply IH. exact Hz.
Qed.

Lemma lookup_resolve s : forall m e look, lookup m s e = Ok look ->
  forall f, closed s (resolve f s e) = true ->
  exists f', resolve f s e = resolve f' s look /\ closed s (resolve f' s look) = true.
Proof.
  induction m as [|m IH]; intros e look H f C.
  - destruct e as [k n|l|b t a]; simpl in H.
    + destruct (assoc k s); [discriminate|]. inversion H; subst. eauto.
    + inversion H; subst. eauto.
    + inversion H; subst. eauto.
  - destruct e as [k n|l|b t a]; simpl in H.
    + destruct (assoc k s) as [e'|] eqn:A; [|inversion H; subst; eauto].
      destruct f as [|f1].
      * simpl in C. apply closed_Phys_inv in C. congruence.
      * simpl in C |- *. rewrite A in C |- *. exact (IH e' look H f1 C).
    + inversion H; subst. eauto.
    + inversion H; subst. eauto.
Qed.

Lemma fv_fold_leaves fuel s f
  (IH : forall e r, fv_occ fuel s e = Ok r -> closed s (resolve f s e) = true -> fvn (resolve f s e) = r) :
  forall l a0 r, fold_left (fv_step fuel s) l (Ok a0) = Ok r ->
    (forall x, In x l -> closed s (resolve f s x) = true) ->
    r = a0 ++ flat_map fvn (map (resolve f s) l).
Proof.
  induction l as [|x l IHl]; intros a0 r H C; cbn [fold_left] in H.
  - inversion H. simpl. rewrite app_nil_r. reflexivity.
  - unfold fv_step at 2 in H. cbn [bind] in H. destruct (fv_occ fuel s x) as [rx|e'] eqn:Ex.
    + cbn [bind] in H. rewrite (IHl _ _ H) by (intros y Hy; apply C; right; exact Hy).
      cbn [map flat_map]. rewrite (IH x rx Ex (C x (or_introl eq_refl))), app_assoc. reflexivity.
    + cbn [bind] in H. rewrite fold_fail in H; [discriminate|]. intros e0 x0. reflexivity.
Qed.

(** what [fv_occ] returns is the list of leaves of the resolved axis *)
Theorem fv_occ_leaves s : forall fuel e r, fv_occ fuel s e = Ok r ->
  forall f, closed s (resolve f s e) = true -> fvn (resolve f s e) = r.
Proof.
  induction fuel as [|fuel IH]; intros e r H f C; [discriminate|]. destruct e as [k n|l|b t a].
  - cbn [fv_occ] in H. destruct (lookup (lookup_fuel s) s (Phys k n)) as [look|] eqn:L; [|discriminate].
    cbn [bind] in H. destruct (same_object look (Phys k n)) eqn:So.
    + inversion H; subst. destruct look as [k' n'| |]; try discriminate. simpl in So. apply Pos.eqb_eq in So. subst k'.
      rewrite (resolve_unbound f s k n (lookup_unbound _ _ _ _ _ L)). reflexivity.
    + destruct (lookup_resolve s _ _ _ L f C) as (f' & E & C'). rewrite E. exact (IH _ _ H f' C').
  - change (fold_left (fv_step fuel s) l (Ok []) = Ok r) in H.
    rewrite <- (resolve_mono s f _ C). rewrite <- (resolve_mono s f _ C) in C.
    rewrite resolve_Prod in C |- *. rewrite closed_Prod, forallb_forall in C. rewrite fvn_Prod.
    rewrite (fv_fold_leaves fuel s f (fun e0 r0 H0 C0 => IH e0 r0 H0 f C0) l [] r H); [reflexivity|].
    intros x Hx. apply C. apply in_map. exact Hx.
  - cbn [fv_occ] in H. rewrite <- (resolve_mono s f _ C). rewrite <- (resolve_mono s f _ C) in C.
    rewrite resolve_Sum in C |- *. rewrite closed_Sum in C. exact (IH _ _ H f C).
Qed.

Lemma fvn_productAxis l : fvn (productAxis l) = flat_map fvn l.
Proof.
  assert (E : flat_map fvn (flat_map factors_of l) = flat_map fvn l).
  { induction l as [|x l IH]; [reflexivity|]. simpl. rewrite flat_map_app, IH. f_equal.
    destruct x; simpl; rewrite ?app_nil_r; reflexivity. }
  unfold productAxis. rewrite <- E. destruct (flat_map factors_of l) as [|x [|y r]]; simpl; rewrite ?app_nil_r; reflexivity.
Qed.

(** [clone] returns a closed axis with the leaves of the resolved axis *)
Theorem clone_leaves s : forall fuel e c, clone fuel s e = Ok c ->
  closed s c = true /\ forall f, closed s (resolve f s e) = true -> fvn c = fvn (resolve f s e).
Proof.
  induction fuel as [|fuel IH]; intros e c H; [discriminate|]. destruct e as [k n|l|b t a]; cbn [clone] in H.
  - destruct (assoc k s) as [e'|] eqn:A.
    + destruct (IH _ _ H) as [C L]. split; [exact C|]. intros f Cf. destruct f as [|f1].
      * simpl in Cf. apply closed_Phys_inv in Cf. congruence.
      * simpl in Cf |- *. rewrite A in Cf |- *. exact (L f1 Cf).
    + inversion H; subst. split; [apply closed_Phys_unbound; exact A|]. intros f _. rewrite (resolve_unbound f s k n A). reflexivity.
  - destruct (mapM (clone fuel s) l) as [l'|] eqn:E; [|discriminate]. cbn [bind] in H. inversion H; subst. clear H.
    apply mapM_Forall2 in E.
    assert (F2 : Forall2 (fun x y => closed s y = true /\ forall f, closed s (resolve f s x) = true -> fvn y = fvn (resolve f s x)) l l').
    { clear -E IH. induction E as [|x y l l' Hxy _ IHE]; constructor; [exact (IH _ _ Hxy)|exact IHE]. }
    split.
    + apply closed_fvn. intros k n Hk. rewrite fvn_productAxis in Hk. apply in_flat_map in Hk. destruct Hk as (y & Hy & Hk).
      clear -F2 Hy Hk. induction F2 as [|x y0 l l' [Cy _] _ IHF]; [contradiction|].
      destruct Hy as [<-|Hy]; [exact (proj1 (closed_fvn s y0) Cy k n Hk)|exact (IHF Hy)].
    + intros f C. rewrite <- (resolve_mono s f _ C). rewrite <- (resolve_mono s f _ C) in C.
      rewrite resolve_Prod in C |- *. rewrite closed_Prod, forallb_forall in C. rewrite fvn_productAxis, fvn_Prod.
      clear -F2 C. induction F2 as [|x y l l' [_ Ly] _ IHF]; [reflexivity|]. cbn [map flat_map].
      rewrite (Ly f) by (apply C; left; reflexivity). f_equal. apply IHF. intros z Hz. apply C. right. exact Hz.
  - destruct (clone fuel s t) as [t'|] eqn:E; [|discriminate]. cbn [bind] in H. inversion H; subst. clear H.
    destruct (IH _ _ E) as [Ct Lt]. split; [exact Ct|]. intros f C.
    rewrite <- (resolve_mono s f _ C). rewrite <- (resolve_mono s f _ C) in C.
    rewrite resolve_Sum in C |- *. rewrite closed_Sum in C. exact (Lt f C).
Qed.

(** the leaves of an axis are the leaves of its variables *)
Lemma resolve_leaves s F : (forall k n, closed s (resolve F s (Phys k n)) = true) ->
  forall e f, closed s (resolve f s e) = true ->
  fvn (resolve f s e) = flat_map (fun kn : pn => fvn (resolve F s (Phys (fst kn) (snd kn)))) (fvn e).
Proof.
  intros HC. induction e as [k n|l IH|b t a IH] using axis_ind'; intros f C.
  - cbn [fvn flat_map fst snd]. rewrite app_nil_r. f_equal. apply resolve_closed_eq; [exact C|apply HC].
  - rewrite <- (resolve_mono s f _ C). rewrite <- (resolve_mono s f _ C) in C.
    rewrite resolve_Prod in C |- *. rewrite closed_Prod, forallb_forall in C. rewrite !fvn_Prod.
    induction l as [|x l IHl]; [reflexivity|]. inversion IH as [|? ? Hx Hl]; subst. cbn [map flat_map].
    rewrite flat_map_app. f_equal.
    + apply Hx. apply C. left. reflexivity.
    + apply IHl; [exact Hl|]. intros y Hy. apply C. right. exact Hy.
  - rewrite <- (resolve_mono s f _ C). rewrite <- (resolve_mono s f _ C) in C.
    rewrite resolve_Sum in C |- *. rewrite closed_Sum in C. exact (IH f C).
Qed.

Lemma resolve_fvn_origin s : forall f e kn, In kn (fvn (resolve f s e)) ->
  In kn (fvn e) \/ exists k T, In (k, T) s /\ In kn (fvn T).
Proof.
  induction f as [|f IH]; intros e kn H; [left; exact H|]. destruct e as [k n|l|b t a].
  - simpl in H. destruct (assoc k s) as [e'|] eqn:A; [|left; exact H].
    right. destruct (IH _ _ H) as [H'|H']; [exists k, e'; split; [apply assoc_In; exact A|exact H']|exact H'].
  - rewrite resolve_Prod, fvn_Prod in H. apply in_flat_map in H. destruct H as (y & Hy & H).
    apply in_map_iff in Hy. destruct Hy as (x & <- & Hx). destruct (IH _ _ H) as [H'|H']; [|right; exact H'].
    left. rewrite fvn_Prod. apply in_flat_map. eauto.
  - rewrite resolve_Sum in H. exact (IH t kn H).
Qed.

(** * sizes in a typed universe *)
Definition szok (G : ctx) (kn : pn) : Prop := snd kn = tsizes (G (fst kn)) /\ G (fst kn) <> [].

Lemma ty_szok G e ps : ty G e ps -> forall kn, In kn (fvn e) -> szok G kn.
Proof.
  intros H [j n] Hj. split; cbn [fst snd].
  - exact (proj1 (ty_sized_both G) _ _ H j n Hj).
  - apply (proj1 (ty_fv_both G) _ _ H). eapply fvn_fv; eauto.
Qed.

Lemma wts_szok G s : wts G s -> forall k T, In (k, T) s -> forall kn, In kn (fvn T) -> szok G kn.
Proof. intros W k T H. destruct (wts_ty G s W k T H) as [_ HT]. exact (ty_szok G T _ HT). Qed.

Lemma szok_unique G k n n' : szok G (k, n) -> szok G (k, n') -> n = n'.
Proof. intros [A _] [B _]. simpl in *. congruence. Qed.

Lemma szok_big G k n : ctx_good G -> szok G (k, n) -> 2 <= n.
Proof. intros CG [A B]. simpl in *. subst n. apply gprimes_big; [apply CG|exact B]. Qed.

Lemma typed_sized G s : wts G s -> forall e, (forall kn, In kn (fvn e) -> szok G kn) -> sized s e = true.
Proof.
  intros W e H. unfold sized. apply forallb_forall. intros [j n] Hj. cbn [fst snd].
  destruct (assoc j s) as [e'|] eqn:A; [|reflexivity]. apply Nat.eqb_eq.
  destruct (wts_ty G s W j e' (assoc_In _ _ _ A)) as [_ HT]. rewrite (ty_numel _ _ _ HT).
  symmetry. exact (proj1 (H (j, n) Hj)).
Qed.

Lemma wts_Sized G s : wts G s -> Sized s.
Proof. intros W k e H. apply (typed_sized G s W). exact (wts_szok G s W k e H). Qed.

Lemma resolve_szok G s : wts G s -> forall f e, (forall kn, In kn (fvn e) -> szok G kn) ->
  forall kn, In kn (fvn (resolve f s e)) -> szok G kn.
Proof.
  intros W f e H kn Hk. destruct (resolve_fvn_origin s f e kn Hk) as [H'|(k & T & HT & H')]; [exact (H kn H')|].
  exact (wts_szok G s W k T HT kn H').
Qed.
