(** C07 (d): the argmax variant.  [first_argmax] returns an element attaining the semiring sum
    when addition is selective (max); the physical argmax of the equation over the views attains
    the physical value; in a zero-sum-free semiring a cell whose value is zero has only zero
    terms; and (F23) torch's plain addition of log-weights is not the tropical product. *)
From Coq Require Import List Arith Bool PeanoNat Lia Permutation Ring Ring_theory PArith QArith Qcanon.
Import ListNotations.
Require Import Fggs.Model.Semiring Fggs.Model.SumProduct Fggs.Model.Trop Fggs.Model.XVal.
Require Import Fggs.Proofs.BigSum Fggs.Proofs.SP_trees.
Require Import Fggs.Model.Axis Fggs.Model.PTensor Fggs.Model.AxisCheck Fggs.Model.Einsum.
Require Import Fggs.Proofs.Axis_sem Fggs.Proofs.PTensor_dense.
Require Import Fggs.Proofs.Einsum_dense Fggs.Proofs.Einsum_envs Fggs.Proofs.Einsum_views.
Local Open Scope nat_scope.

Section Argmax.
Context {R : Type} (o : sr_ops R).
Hypothesis Hr : sr_ring o.
Add Ring RingEA : (sr_is_srt o Hr).
Variable leb : R -> R -> bool.
(** addition is selective: it returns one of its arguments, chosen by [leb] *)
Hypothesis Hsel : forall a b, add o a b = if leb a b then b else a.
Notation view := (view (R:=R)).

Definition amstep (f : list nat -> R) (best : option (list nat)) (c : list nat) : option (list nat) :=
  match best with None => Some c | Some b => if leb (f c) (f b) then Some b else Some c end.

Lemma first_argmax_from (f : list nat -> R) : forall l b, exists x,
  fold_left (amstep f) l (Some b) = Some x /\ (x = b \/ In x l) /\ f x = add o (sumS o l f) (f b).
Proof.
  induction l as [|c l IH]; intros b.
  - exists b. split; [reflexivity|]. split; [left; reflexivity|]. rewrite (sumS_nil o). ring.
  - assert (E : amstep f (Some b) c = Some (if leb (f c) (f b) then b else c)) by (unfold amstep; destruct (leb (f c) (f b)); reflexivity).
    cbn [fold_left]. rewrite E.
    destruct (IH (if leb (f c) (f b) then b else c)) as (x & Ex & Hx & Fx).
    exists x. split; [exact Ex|]. split.
    + destruct Hx as [->|Hx]; [|right; right; exact Hx]. destruct (leb (f c) (f b)); [left; reflexivity|right; left; reflexivity].
    + rewrite Fx, (sumS_cons o).
      replace (f (if leb (f c) (f b) then b else c)) with (add o (f c) (f b)); [ring|].
      rewrite Hsel. destruct (leb (f c) (f b)); reflexivity.
Qed.

Theorem first_argmax_attains (l : list (list nat)) (f : list nat -> R) x :
  first_argmax leb l f = Some x -> In x l /\ f x = sumS o l f.
Proof.
  unfold first_argmax. destruct l as [|c l]; [discriminate|]. cbn [fold_left].
  change (fold_left _ l (Some c)) with (fold_left (amstep f) l (Some c)).
  destruct (first_argmax_from f l c) as (y & Ey & Hy & Fy). rewrite Ey. intros E. inversion E; subst.
  split; [destruct Hy as [->|Hy]; [left; reflexivity|right; exact Hy]|]. rewrite Fy, (sumS_cons o). ring.
Qed.

(** the physical argmax attains the physical value of the cell *)
Theorem phys_argmax_attains (views : list view) (outp : list pn) (oc pp : list nat) :
  NoDup (map fst outp) -> length oc = length outp ->
  map plabel (summed_vars views outp) = summed_labels (vlabels views) (map plabel outp) ->
  map snd (summed_vars views outp)
  = map (lval (label_sizes (map (fun v => map snd (vw_vars v)) views) (vlabels views))) (map plabel (summed_vars views outp)) ->
  phys_argmax o leb views outp oc = Some pp ->
  In pp (all_assts (map snd (summed_vars views outp))) /\
  prodS o views (fun v => vw_fn v (map (env_of (combine (map fst outp) oc ++ combine (map fst (summed_vars views outp)) pp)) (map fst (vw_vars v))))
  = einsum_views o views outp oc.
Proof.
  intros NDo L V3 V4 H. unfold phys_argmax in H. apply first_argmax_attains in H. destruct H as [Hin Hf].
  split; [exact Hin|].
  rewrite (einsum_views_sum o views outp oc NDo L V3 V4), all_envs_assts, (sumS_map o).
  assert (G : forall pp0, einsum_term o (map (view_operand (R:=R)) views) (map (fun v => map plabel (vw_vars v)) views)
                                      (combine (map plabel outp) oc ++ combine (map plabel (summed_vars views outp)) pp0)
                          = prodS o views (fun v => vw_fn v (map (env_of (combine (map fst outp) oc ++ combine (map fst (summed_vars views outp)) pp0)) (map fst (vw_vars v))))).
  { intros pp0. change (map (fun v : view => map plabel (vw_vars v)) views) with (vlabels views).
    rewrite einsum_term_views. apply (prodS_ext o). intros v _. f_equal.
    rewrite !map_plabel, !combine_lab, <- lab_env_app, <- map_plabel. apply map_lval_lab. }
  rewrite <- G, Hf. apply (sumS_ext o). intros pp0 _. apply G.
Qed.

(** zero-sum-free: a zero sum has only zero terms (in the tropical semiring: the maximum is -inf) *)
Hypothesis Hzsf : forall a b, add o a b = Semiring.zero o -> a = Semiring.zero o /\ b = Semiring.zero o.

Lemma sumS_zero_terms {A} (l : list A) (f : A -> R) : sumS o l f = Semiring.zero o -> forall x, In x l -> f x = Semiring.zero o.
Proof.
  induction l as [|y l IH]; intros H x Hx; [contradiction|]. rewrite (sumS_cons o) in H. apply Hzsf in H. destruct H as [H1 H2].
  destruct Hx as [->|Hx]; [exact H1|exact (IH H2 x Hx)].
Qed.

Theorem einsum_dense_zero_terms ops inputs output oidx sv :
  out_consistent output oidx = true -> einsum_dense o ops inputs output oidx = Semiring.zero o ->
  In sv (all_assts (map (lval (label_sizes (map fst ops) inputs)) (summed_labels inputs output))) ->
  einsum_term o ops inputs (combine output oidx ++ combine (summed_labels inputs output) sv) = Semiring.zero o.
Proof.
  intros OC H Hin. unfold einsum_dense in H. rewrite OC in H. cbv zeta in H.
  exact (sumS_zero_terms _ _ H sv Hin).
Qed.
End Argmax.

(** * the tropical semiring is selective and zero-sum-free *)
Lemma trop_selective a b : tmax a b = if tleb a b then b else a.
Proof. destruct a as [|p|], b as [|q|]; simpl; reflexivity. Qed.

Lemma trop_zero_sum_free a b : tmax a b = NInf -> a = NInf /\ b = NInf.
Proof.
  intros H. destruct a as [|p|], b as [|q|]; simpl in H; try discriminate H; [split; reflexivity|].
  destruct (Qle_bool (this p) (this q)); discriminate H.
Qed.

(** * F23: [log_viterbi_einsum_forward] multiplies with torch's plain addition *)
Theorem viterbi_forward_add_refuted : xadd XPInf XNInf = XNaN /\ tplus TPInf NInf = NInf.
Proof. split; reflexivity. Qed.
