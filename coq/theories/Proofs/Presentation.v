(** C12: the sum-product does not depend on the order in which rules are listed. *)
From Coq Require Import List Arith Bool PeanoNat Permutation.
Import ListNotations.
Require Import Fggs.Model.Semiring Fggs.Model.SCC Fggs.Model.SumProduct Fggs.Proofs.BigSum.

Section Pres.
Context {R : Type} (o : sr_ops R) (Hring : sr_ring o).

Lemma rule_val_doms G G' e e' r xi :
  g_doms G = g_doms G' ->
  (forall l idx, e l idx = e' l idx) ->
  rule_val o G e r xi = rule_val o G' e' r xi.
Proof.
  intros Hd He. unfold rule_val, node_sizes, dom. rewrite Hd.
  apply sumS_ext. intros a _. apply prodS_ext. intros ed _. apply He.
Qed.

Lemma filter_perm {A} (p : A -> bool) l l' : Permutation l l' -> Permutation (filter p l) (filter p l').
Proof.
  induction 1; simpl.
  - constructor.
  - destruct (p x); [constructor|]; assumption.
  - destruct (p x), (p y); first [apply perm_swap | apply Permutation_refl].
  - eapply Permutation_trans; eassumption.
Qed.

Theorem Zk_rules_perm G G' w k X xi :
  g_doms G = g_doms G' -> g_labels G = g_labels G' -> Permutation (g_rules G) (g_rules G') ->
  Zk o G w k X xi = Zk o G' w k X xi.
Proof.
  intros Hd Hl Hp. revert X xi. induction k as [|k IH]; intros X xi; [reflexivity|].
  cbn [Zk]. unfold step. unfold is_term at 1 3. rewrite Hl. fold (is_term G' X).
  destruct (is_term G' X); [reflexivity|].
  rewrite (sumS_perm o Hring (rules_of G X) (rules_of G' X)).
  2:{ unfold rules_of. apply filter_perm. exact Hp. }
  apply sumS_ext. intros r _. apply rule_val_doms; [exact Hd|].
  intros l idx. unfold is_term. rewrite Hl. destruct (fst (nth l (g_labels G') (true, []))); [reflexivity|apply IH].
Qed.
End Pres.

(** * A generic simulation lemma
    Two grammars whose rule lists correspond position by position, with labels renamed by an
    injection [pi] and index tuples transported by [tau], have corresponding Kleene iterates as
    soon as corresponding rules have corresponding values ([rule_sim]).  [VL] / [VI] restrict
    the labels / index tuples at which the correspondence is required (and obtained). *)
Section Sim.
Context {R : Type} (o : sr_ops R) (Hring : sr_ring o).
Variables (G G' : grammar) (pi : nat -> nat) (tau : nat -> list nat -> list nat).
Variables (VL : nat -> Prop) (VI : nat -> list nat -> Prop).

Definition env_sim (e e' : env (R:=R)) : Prop :=
  forall l idx, VL l -> VI l idx -> e' (pi l) (tau l idx) = e l idx.

Definition rule_sim (r r' : rule) : Prop :=
  VL (r_lhs r) /\ r_lhs r' = pi (r_lhs r)
  /\ forall e e' xi, env_sim e e' -> VI (r_lhs r) xi ->
       rule_val o G' e' r' (tau (r_lhs r) xi) = rule_val o G e r xi.

Lemma sumS_rules_sim (e e' : env (R:=R)) X xi rs rs' :
  (forall X Y, VL X -> VL Y -> pi X = pi Y -> X = Y) ->
  Forall2 rule_sim rs rs' -> env_sim e e' -> VL X -> VI X xi ->
  sumS o (filter (fun r => Nat.eqb (r_lhs r) (pi X)) rs') (fun r => rule_val o G' e' r (tau X xi))
  = sumS o (filter (fun r => Nat.eqb (r_lhs r) X) rs) (fun r => rule_val o G e r xi).
Proof.
  intros Hinj HF He HX Hxi. induction HF as [|r r' rs rs' (Hv & Hl & Hval) _ IH]; [reflexivity|].
  cbn [filter].
  assert (E : Nat.eqb (r_lhs r') (pi X) = Nat.eqb (r_lhs r) X).
  { rewrite Hl. destruct (Nat.eqb (r_lhs r) X) eqn:E.
    - apply Nat.eqb_eq in E. rewrite E. apply Nat.eqb_refl.
    - apply Nat.eqb_neq in E. apply Nat.eqb_neq. intros E'. apply E. now apply Hinj. }
  rewrite E. destruct (Nat.eqb (r_lhs r) X) eqn:E2; [|exact IH].
  apply Nat.eqb_eq in E2. rewrite !sumS_cons, IH. f_equal.
  rewrite <- E2. apply Hval; trivial. now rewrite E2.
Qed.

Theorem Zk_sim w w' :
  (forall X, VL X -> is_term G' (pi X) = is_term G X) ->
  (forall X Y, VL X -> VL Y -> pi X = pi Y -> X = Y) ->
  (forall X xi, VL X -> VI X xi -> is_term G X = true -> w' (pi X) (tau X xi) = w X xi) ->
  Forall2 rule_sim (g_rules G) (g_rules G') ->
  forall k X xi, VL X -> VI X xi -> Zk o G' w' k (pi X) (tau X xi) = Zk o G w k X xi.
Proof.
  intros Hterm Hinj Hw HF. induction k as [|k IH]; intros X xi HX Hxi; [reflexivity|].
  cbn [Zk]. unfold step. rewrite (Hterm X HX).
  destruct (is_term G X) eqn:Ht; [now apply Hw|].
  unfold rules_of. apply sumS_rules_sim; trivial.
  intros l idx Hl Hidx. rewrite (Hterm l Hl). destruct (is_term G l) eqn:Htl; [now apply Hw|now apply IH].
Qed.
End Sim.

Lemma Forall2_mono {A B} (P Q : A -> B -> Prop) l l' :
  (forall a b, P a b -> Q a b) -> Forall2 P l l' -> Forall2 Q l l'.
Proof. intros H H2. induction H2; constructor; auto. Qed.
Lemma Forall2_mono_In {A B} (P Q : A -> B -> Prop) l l' :
  (forall a b, In a l -> In b l' -> P a b -> Q a b) -> Forall2 P l l' -> Forall2 Q l l'.
Proof.
  intros H H2. induction H2 as [|a b l l' Hab _ IH]; constructor.
  - apply H; trivial; now left.
  - apply IH. intros x y Hx Hy. apply H; now right.
Qed.

(** * Permuting the edge list of every rule *)
Definition rule_edges_perm (r r' : rule) : Prop :=
  r_lhs r = r_lhs r' /\ r_nodes r = r_nodes r' /\ r_ext r = r_ext r'
  /\ Permutation (r_edges r) (r_edges r').

Section Edges.
Context {R : Type} (o : sr_ops R) (Hring : sr_ring o).

Lemma rule_val_edges_perm G G' (e e' : env (R:=R)) r r' xi :
  g_doms G = g_doms G' -> (forall l idx, e l idx = e' l idx) -> rule_edges_perm r r' ->
  rule_val o G e r xi = rule_val o G' e' r' xi.
Proof.
  intros Hd He (_ & Hn & Hx & Hp). unfold rule_val, node_sizes, dom. rewrite Hd, Hn, Hx.
  apply sumS_ext. intros a _. rewrite (prodS_perm o Hring _ _ _ Hp).
  apply prodS_ext. intros ed _. apply He.
Qed.

Theorem Zk_edges_perm G G' w k X xi :
  g_doms G = g_doms G' -> g_labels G = g_labels G' ->
  Forall2 rule_edges_perm (g_rules G) (g_rules G') ->
  Zk o G w k X xi = Zk o G' w k X xi.
Proof.
  intros Hd Hl HF. symmetry.
  apply (Zk_sim o G G' (fun l => l) (fun _ idx => idx) (fun _ => True) (fun _ _ => True)); trivial.
  - intros l _. unfold is_term. now rewrite Hl.
  - eapply Forall2_mono; [|exact HF]. intros r r' Hrr. split; [exact I|]. split; [symmetry; apply Hrr|].
    intros e e' xi' He _. symmetry. apply rule_val_edges_perm; trivial.
    intros l idx. symmetry. now apply He.
Qed.
End Edges.

Definition ex_rule : rule :=
  {| r_lhs := 1; r_nodes := [0; 1; 0]; r_edges := [(0, [0; 1]); (2, [1; 2]); (0, [2; 1])]; r_ext := [2; 0] |}.
Definition ex_rule_edges : rule :=
  {| r_lhs := 1; r_nodes := [0; 1; 0]; r_edges := [(2, [1; 2]); (0, [2; 1]); (0, [0; 1])]; r_ext := [2; 0] |}.
Example ex_rule_edges_perm : rule_edges_perm ex_rule ex_rule_edges.
Proof.
  repeat split. cbn [ex_rule ex_rule_edges r_edges].
  apply (Permutation_cons_app [(2, [1; 2]); (0, [2; 1])] []). apply Permutation_refl.
Qed.
