(** C12: the sum-product does not depend on the order in which rules are listed. *)
From Coq Require Import List Arith Bool PeanoNat Permutation.
Import ListNotations.
Require Import Fggs.Model.Semiring Fggs.Model.SCC Fggs.Model.SumProduct Fggs.Proofs.BigSum.

Section Pres.
Context {R : Type} (o : sr_ops R) (Hring : sr_ring o).

Lemma rule_val_doms G G' e e' r xi :
  g_doms G = g_doms G' ->
  (forall l idx, e l idx = e' l idx) ->
  rule_val o G e r xi = rule_val o G' e' r xi.
Proof.
  intros Hd He. unfold rule_val, node_sizes, dom. rewrite Hd.
  apply sumS_ext. intros a _. apply prodS_ext. intros ed _. apply He.
Qed.

Lemma filter_perm {A} (p : A -> bool) l l' : Permutation l l' -> Permutation (filter p l) (filter p l').
Proof.
  induction 1; simpl.
  - constructor.
  - destruct (p x); [constructor|]; assumption.
  - destruct (p x), (p y); first [apply perm_swap | apply Permutation_refl].
  - eapply Permutation_trans; eassumption.
Qed.

Theorem Zk_rules_perm G G' w k X xi :
  g_doms G = g_doms G' -> g_labels G = g_labels G' -> Permutation (g_rules G) (g_rules G') ->
  Zk o G w k X xi = Zk o G' w k X xi.
Proof.
  intros Hd Hl Hp. revert X xi. induction k as [|k IH]; intros X xi; [reflexivity|].
  cbn [Zk]. unfold step. unfold is_term at 1 3. rewrite Hl. fold (is_term G' X).
  destruct (is_term G' X); [reflexivity|].
  rewrite (sumS_perm o Hring (rules_of G X) (rules_of G' X)).
  2:{ unfold rules_of. apply filter_perm. exact Hp. }
  apply sumS_ext. intros r _. apply rule_val_doms; [exact Hd|].
  intros l idx. unfold is_term. rewrite Hl. destruct (fst (nth l (g_labels G') (true, []))); [reflexivity|apply IH].
Qed.
End Pres.
