(** [where], continued: the generalisation of [c]'s pattern with [u]'s, and the [masked_fill_] stage. *)
From Coq Require Import List Arith Lia PeanoNat Bool PArith.
Import ListNotations.
Require Import Fggs.Model.Axis Fggs.Model.AxisCheck Fggs.Model.PTensor Fggs.Model.PTensorOps Fggs.Model.PTensorCheck.
Require Import Fggs.Proofs.Axis_sem Fggs.Proofs.Axis_unify Fggs.Proofs.Axis_antiunify Fggs.Proofs.Axis_antiunify_inv.
Require Import Fggs.Proofs.PTensor_sem Fggs.Proofs.PTensor_dense Fggs.Proofs.Axis_repr Fggs.Proofs.PTensor_gen Fggs.Proofs.PTensor_binary Fggs.Proofs.PTensor_bcast.
Require Import Fggs.Proofs.PTensor_d2d Fggs.Proofs.Axis_views Fggs.Proofs.PTensor_where.
Local Open Scope nat_scope.

(** * the generalisation of [c]'s pattern and [u]'s *)
Section Gen.
Variable V : Type.
Variables c u : ptensor V.
Variable B : positive.
Hypothesis Bc : vars_below V B c.
Hypothesis Bu : vars_below V B u.
Hypothesis Nsz : map numel (vaxes c) = map numel (vaxes u).

Lemma where_gen fuel lggs ast :
  antiunify_list fuel (vaxes c) (vaxes u) (astate0 B) = Ok (lggs, ast) ->
  gen_ok part1 B (as_list ast) lggs (vaxes c) /\ gen_ok part2 B (as_list ast) lggs (vaxes u).
Proof.
  intros AL.
  assert (Len : length (vaxes c) = length (vaxes u)) by (apply (f_equal (@length nat)) in Nsz; rewrite !map_length in Nsz; exact Nsz).
  pose proof (antiunify_list_inv _ B _ _ _ _ _ Bc Bu (ainv_init B) Len AL) as AR.
  destruct (antiunify_list_sound _ (vaxes c) (vaxes u) (astate0 B) lggs ast (Forall_nil _) AL) as (_ & Nn & S1 & S2).
  rewrite <- Len, firstn_all in Nn, S1. rewrite Len, firstn_all in S2.
  assert (Lg : length lggs = length (vaxes c)).
  { apply (f_equal (@length nat)) in Nn. rewrite !map_length in Nn. exact Nn. }
  assert (Hsz : forall en, In en (as_list ast) -> numel (part1 en) = numel (part2 en)).
  { exact (antiunify_list_szeq fuel (vaxes c) (vaxes u) (astate0 B) lggs ast Nsz (fun en (H : In en []) => match H with end) AL). }
  split.
  - rewrite <- (rev_involutive lggs), <- (rev_involutive (vaxes c)). apply gen_ok_rev.
    eapply (gen_ok_of part1); [left; split; reflexivity|exact Bc|exact Bu|exact Len|exact AR|lia| |exact Lg|exact Hsz].
    intros rho M. rewrite sigma_of_part1 in M. unfold evals. exact (S1 rho M).
  - rewrite <- (rev_involutive lggs), <- (rev_involutive (vaxes u)). apply gen_ok_rev.
    eapply (gen_ok_of part2); [right; split; reflexivity|exact Bc|exact Bu|exact Len|exact AR|lia| |rewrite Lg; exact Len|exact Hsz].
    intros rho M. rewrite sigma_of_part2 in M. unfold evals. exact (S2 rho M).
Qed.

End Gen.

Lemma gen_shape (part : aentry -> axis) B L lggs tes : gen_ok part B L lggs tes -> map numel (map part L) = map snd (gs_of L).
Proof.
  intros G. unfold gs_of. rewrite !map_map. apply map_ext_in. intros en Hen. symmetry. exact (proj1 (g_entries _ _ _ _ _ G en Hen)).
Qed.

(** the operand re-indexed by the generalised variables: a well-formed tensor *)
Lemma gen_parts_wf V (part : aentry -> axis) B L lggs (w : ptensor V) : gen_ok part B L lggs (vaxes w) -> wf V w ->
  wf V (with_vaxes V w (map part L)).
Proof.
  intros G W. constructor; cbn [with_vaxes paxes vaxes]; [exact (wf_nodup V w W)|]. intros k n. split; intros H.
  - apply in_flat_map in H. destruct H as (e & He & H). apply in_map_iff in He. destruct He as (en & <- & Hen).
    apply (wf_fv V w W). exact (proj2 (proj2 (g_entries _ _ _ _ _ G en Hen)) _ H).
  - apply (wf_fv V w W) in H. destruct (g_cover _ _ _ _ _ G _ H) as (en & Hen & Hp). apply in_flat_map. exists (part en).
    split; [apply in_map; exact Hen|exact Hp].
Qed.

(** * the [masked_fill_] stage *)
Section Masked.
Variable V : Type.
Variable c : ptensor V.
Variable ecs : list axis.
Hypothesis Wc1 : wf V (with_vaxes V c ecs).
Variable cnd : V -> bool.
Hypothesis Hcnd : cnd (default c) = false.
Variable dt : V.
Variable fa : nat.
Hypothesis Hfa : forall e, In e ecs -> asize e <= fa.

Lemma masked_stage shp ud0 ud1 : map numel ecs = shp ->
  write_all (paxes c)
    (fun rho => offs <- at_axes fa [] rho ecs ;; Ok (flat_offset shp offs))
    (fun rho => Ok (if cnd (physical c (pcoords (paxes c) rho)) then Some dt else None)) ud0 = Ok ud1 ->
  forall cg, in_bounds shp cg ->
    ud1 (flat_offset shp cg) = if cnd (denote V (with_vaxes V c ecs) cg) then dt else ud0 (flat_offset shp cg).
Proof.
  intros Esh Ew cg Bd. set (C1 := with_vaxes V c ecs) in *.
  set (offv := fun pi : list pn => flat_offset shp (evals (env_of pi) ecs)).
  set (valv := fun pi : list pn => if cnd (physical c (pcoords (paxes c) (env_of pi))) then Some dt else None).
  destruct (write_all_spec_opt (paxes c)
              (fun rho => offs <- at_axes fa [] rho ecs ;; Ok (flat_offset shp offs))
              (fun rho => Ok (if cnd (physical c (pcoords (paxes c) rho)) then Some dt else None)) offv valv ud0) as (st & Est & S).
  { intros pi _. rewrite (at_axes_nil fa (env_of pi) ecs Hfa). split; reflexivity. }
  rewrite Ew in Est. inversion Est; subst st. clear Est.
  assert (Writers : forall pi, In pi (all_envs (paxes c)) -> offv pi = flat_offset shp cg ->
            valv pi = if cnd (denote V C1 cg) then Some dt else None).
  { intros pi Hpi Eo. pose proof (wf_inrange V C1 pi Wc1 Hpi) as R. cbn [vaxes C1 with_vaxes] in R.
    assert (Ecg : evals (env_of pi) ecs = cg).
    { apply (flat_offset_inj shp); [rewrite <- Esh; apply evals_in_bounds; exact R|exact Bd|exact Eo]. }
    unfold valv. rewrite <- Ecg.
    replace (denote V C1 (evals (env_of pi) ecs)) with (pget V C1 (env_of pi)) by (symmetry; exact (denote_backed V C1 (env_of pi) (wf_covers V C1 Wc1) R)).
    reflexivity. }
  destruct (S (flat_offset shp cg)) as [S1 S2].
  destruct (cnd (denote V C1 cg)) eqn:Ecnd.
  - assert (Lc : length cg = length (vaxes C1)).
    { cbn [vaxes C1 with_vaxes]. apply Forall2_len in Bd. rewrite <- Esh, map_length in Bd. exact Bd. }
    destruct (denote_cases V C1 cg (wf_covers V C1 Wc1) Lc) as [(rho & R & Er & _)|[_ D]]; [|rewrite D in Ecnd; cbn [default C1 with_vaxes] in Ecnd; congruence].
    cbn [vaxes C1 with_vaxes] in R, Er.
    assert (Rp : forall k n, In (k, n) (paxes c) -> rho k < n).
    { intros k n Hk. apply (proj1 (inrange_list_fvn rho ecs) R). apply (wf_fv V C1 Wc1). exact Hk. }
    pose proof (restrict_in rho (paxes c) Rp) as Hpi.
    assert (Eo : offv (restrict rho (paxes c)) = flat_offset shp cg).
    { unfold offv. f_equal. rewrite <- Er. apply evals_ext. intros k Hk. apply restrict_env.
      apply In_fv_fvn in Hk. destruct Hk as (n & Hk). apply (wf_fv V C1 Wc1) in Hk. apply in_map_iff. exists (k, n). auto. }
    apply S2.
    + exists (restrict rho (paxes c)). split; [exact Hpi|]. split; [exact Eo|]. rewrite (Writers _ Hpi Eo). reflexivity.
    + intros pi w Hpi2 Eo' Ev. rewrite (Writers _ Hpi2 Eo') in Ev. inversion Ev. reflexivity.
  - apply S1. intros pi Hpi Eo. exact (Writers pi Hpi Eo).
Qed.

End Masked.
