(** replace_edge(g, e, g): the host graph used as its own replacement (one heap object).
    The code as it is now (/repo 0be4bef) snapshots the replacement before the first mutation:
    [replace_edge_self_model] = the functional model with [r := g], which meets the specification
    ([replace_self_spec]).  The OLD code, [replace_edge_alias_model_old] (kept as the record of finding
    c15_replacement_is_host), NEVER met the replacement specification:
    it returns only when nothing had to be copied, and then the copy of [e] itself is missing
    (the edge was removed from the replacement before it was read); in every other case it raises
    RuntimeError after the edge has been removed and one node / one edge has been inserted.
    Reading the replacement BEFORE mutating the host (a snapshot, = the functional model with
    [r := g]) does meet the specification. *)
From Coq Require Import List Arith Bool PeanoNat Lia Permutation.
Import ListNotations.
Require Import Fggs.Model.Replace Fggs.Proofs.Replace_base Fggs.Proofs.Replace_wf Fggs.Proofs.Replace_explicit
  Fggs.Proofs.Replace_spec Fggs.Proofs.Replace_model_spec Fggs.Proofs.Replace_complete.

Lemma alias_copy_nodes_old_None : forall rnodes g nx nm g' nx' nm',
  alias_copy_nodes_old g nx nm rnodes = (g', nx', nm', None) ->
  g' = g /\ nx' = nx /\ nm' = nm /\ forall v, In v rnodes -> amem node_eqb nm v = true.
Proof.
  induction rnodes as [|v vs IH]; simpl; intros g nx nm g' nx' nm' H.
  - inversion H; subst. repeat split; auto; intros v [].
  - destruct (amem node_eqb nm v) eqn:E; try discriminate.
    destruct (IH _ _ _ _ _ _ H) as [A [B [C D]]]. repeat split; auto.
    intros u [<-|Hu]; auto.
Qed.

Lemma alias_copy_nodes_old_Some : forall rnodes g nx nm g' nx' nm' k,
  alias_copy_nodes_old g nx nm rnodes = (g', nx', nm', Some k) ->
  k = RuntimeErr /\ nx' = S nx /\ exists v, In v rnodes /\ amem node_eqb nm v = false /\
     g' = push_node g (mkNode (Fresh nx) (n_label v)).
Proof.
  induction rnodes as [|v vs IH]; simpl; intros g nx nm g' nx' nm' k H; try discriminate.
  destruct (amem node_eqb nm v) eqn:E.
  - destruct (IH _ _ _ _ _ _ _ H) as [A [B [u [Hu [Eu G]]]]]. repeat split; auto. exists u; auto.
  - inversion H; subst. repeat split; auto. exists v; auto.
Qed.

Lemma alias_copy_edges_old_Ok : forall nm g nx g' nx' em,
  alias_copy_edges_old nm g nx = (g', nx', Ok em) -> g_edges g = [] /\ g' = g /\ nx' = nx /\ em = [].
Proof.
  intros nm g nx g' nx' em H. unfold alias_copy_edges_old in H.
  destruct (g_edges g) as [|re res] eqn:E.
  - inversion H; subst; auto.
  - destruct (map_nodes nm (e_att re)); try discriminate.
    destruct (negb _); try discriminate.
    destruct (add_edge g _) as [g2 [k|]]; discriminate.
Qed.

(** it returns only if no node and no edge had to be copied; the result is the host minus [e] and
    the edge map is EMPTY *)
Theorem alias_old_returns : forall g nx e g' nx' nm em,
  replace_edge_alias_model_old g nx e = (g', nx', Ok (nm, em)) ->
  g' = remove_edge_id g (e_id e) /\ nx' = nx /\ em = [] /\ nm = ext_map (g_ext g) (e_att e) /\
  g_edges g' = [] /\ (forall v, In v (g_nodes g) -> amem node_eqb nm v = true).
Proof.
  intros g nx e g' nx' nm em H. unfold replace_edge_alias_model_old in H.
  destruct (negb (list_eqb Nat.eqb (l_type (e_label e)) (gtype g))); try discriminate.
  destruct (negb (has_edge_id g (e_id e))); try discriminate.
  destruct (alias_copy_nodes_old _ _ _ _) as [[[g2 nx2] nm2] [k|]] eqn:CN; try discriminate.
  apply alias_copy_nodes_old_None in CN. destruct CN as [-> [-> [-> ALL]]].
  destruct (alias_copy_edges_old _ _ _) as [[g3 nx3] [em3|k]] eqn:CE; try discriminate.
  apply alias_copy_edges_old_Ok in CE. destruct CE as [E0 [-> [-> ->]]].
  inversion H; subst. repeat split; auto.
Qed.

(** hence the aliased call never yields a replacement of [e] by (the caller's) [g] *)
Theorem replace_alias_old_never_spec : forall g nx e g' nx' nm em,
  replace_edge_alias_model_old g nx e = (g', nx', Ok (nm, em)) -> ~ replace_spec g e g g' nm em.
Proof.
  intros g nx e g' nx' nm em H S. destruct (alias_old_returns _ _ _ _ _ _ _ H) as [_ [_ [-> _]]].
  pose proof (rs_em_dom _ _ _ _ _ _ S) as D. pose proof (rs_edge_in _ _ _ _ _ _ S) as I.
  simpl in D. rewrite <- D in I. destruct I.
Qed.

Corollary replace_alias_old_rejected : forall g nx e g' nx' nm em,
  replace_edge_alias_model_old g nx e = (g', nx', Ok (nm, em)) -> replace_ok g e g g' nm em = false.
Proof. intros. apply replace_ok_false. eapply replace_alias_old_never_spec; eauto. Qed.

(** * closed form under the guard of C15_replace_spec (with [r := g]) *)
Lemma alias_copy_nodes_old_explicit : forall rnodes g nx nm,
  alias_copy_nodes_old g nx nm rnodes =
  match filter (fun v => negb (amem node_eqb nm v)) rnodes with
  | [] => (g, nx, nm, None)
  | v :: _ => (push_node g (mkNode (Fresh nx) (n_label v)), S nx,
               aset node_eqb nm v (mkNode (Fresh nx) (n_label v)), Some RuntimeErr)
  end.
Proof.
  induction rnodes as [|v vs IH]; simpl; intros; auto.
  destruct (amem node_eqb nm v); simpl; auto.
Qed.

Lemma alias_copy_edges_old_via : forall nm g nx re res, g_edges g = re :: res ->
  alias_copy_edges_old nm g nx = match copy_edges nm [re] g nx [] with
                             | (g', nx', Ok _) => (g', nx', Err RuntimeErr)
                             | (g', nx', Err k) => (g', nx', Err k)
                             end.
Proof.
  intros. unfold alias_copy_edges_old. rewrite H. cbn [copy_edges].
  destruct (map_nodes nm (e_att re)); auto. destruct (negb _); auto.
  destruct (add_edge g _) as [g2 [k|]]; auto.
Qed.

Lemma nonext_filter : forall g e, length (g_ext g) = length (e_att e) ->
  filter (fun v => negb (amem node_eqb (combine (g_ext g) (e_att e)) v)) (g_nodes g) = nonext g.
Proof.
  intros g e HL. unfold nonext. apply filter_ext. intros v. f_equal.
  destruct (is_ext g v) eqn:E.
  - apply (amem_In node_eqb node_eqb_eq). rewrite combine_keys by auto. apply is_ext_In; auto.
  - destruct (amem node_eqb (combine (g_ext g) (e_att e)) v) eqn:E2; auto.
    apply (amem_In node_eqb node_eqb_eq) in E2. rewrite combine_keys in E2 by auto.
    apply is_ext_In in E2. congruence.
Qed.

Theorem replace_alias_old_explicit : forall L g nx e, repl_guard L g nx e g ->
  let g1 := remove_edge_id g (e_id e) in
  let nm0 := combine (g_ext g) (e_att e) in
  replace_edge_alias_model_old g nx e =
  match nonext g with
  | v :: _ => (push_node g1 (mkNode (Fresh nx) (n_label v)), S nx, Err RuntimeErr)
  | [] => match kept g e with
          | re :: _ => (add_edges g1 [mkEdge (Fresh nx) (e_label re) (map (gn nm0) (e_att re))]
                                  (tbl_add (g_elabs g) (e_label re)), S nx, Err RuntimeErr)
          | [] => (g1, nx, Ok (nm0, []))
          end
  end.
Proof.
  intros L g nx e G g1 nm0. pose proof (guard_lengths _ _ _ _ _ G) as HL.
  unfold replace_edge_alias_model_old.
  assert (T : list_eqb Nat.eqb (l_type (e_label e)) (gtype g) = true).
  { apply (list_eqb_eq Nat.eqb Nat.eqb_eq). apply (rg_type _ _ _ _ _ G). }
  rewrite T. cbn [negb].
  assert (P : has_edge_id g (e_id e) = true).
  { unfold has_edge_id. apply existsb_exists. exists e; split; [apply (rg_in _ _ _ _ _ G) | apply id_eqb_refl]. }
  rewrite P. cbn [negb]. cbn [remove_edge_id g_ext g_nodes].
  rewrite ext_map_nodup by (auto; apply (rg_ext _ _ _ _ _ G)).
  rewrite alias_copy_nodes_old_explicit. rewrite (nonext_filter g e HL).
  destruct (nonext g) as [|v vs] eqn:NE; [|reflexivity].
  fold g1. fold nm0.
  assert (NM : r_nm nx e g = nm0). { unfold r_nm. rewrite NE. simpl. apply app_nil_r. }
  destruct (kept g e) as [|re res] eqn:K.
  - unfold alias_copy_edges_old. unfold g1 at 1. cbn [remove_edge_id g_edges]. fold (kept g e). rewrite K. reflexivity.
  - assert (E1 : g_edges g1 = re :: res) by (unfold g1; cbn [remove_edge_id g_edges]; exact K).
    rewrite (alias_copy_edges_old_via nm0 g1 nx re res E1).
    assert (Hre : In re (g_edges g)). { apply (kept_incl g e). rewrite K. simpl; auto. }
    rewrite (copy_edges_spec L); auto.
    + cbn [ecopies map tbl_adds fold_left length]. unfold g1 at 2. cbn [remove_edge_id g_elabs]. rewrite Nat.add_1_r. reflexivity.
    + apply (rg_fun _ _ _ _ _ G).
    + unfold g1; cbn [remove_edge_id g_elabs]. apply (rg_lg _ _ _ _ _ G).
    + intros re' [<-|[]]. apply (rg_lg _ _ _ _ _ G); auto.
    + intros re' v [<-|[]] Hv.
      destruct (r_nm_total _ _ _ _ _ G v) as [x [Hx [Hin [Hl _]]]].
      { apply (wf_att g (rg_wf _ _ _ _ _ G) re Hre); auto. }
      rewrite NM in Hx. rewrite NE in Hin. simpl in Hin. rewrite app_nil_r in Hin.
      exists x. repeat split; auto.
    + intros re' [<-|[]]. apply (wf_typed g (rg_wf _ _ _ _ _ G)); auto.
    + destruct (rg_below _ _ _ _ _ G) as [B1 B2]. split; unfold g1; cbn [remove_edge_id g_nodes g_edges]; auto.
      intros x Hx. apply filter_In in Hx. apply B2; tauto.
    + constructor; [intros []|constructor].
    + unfold g1; cbn [remove_edge_id g_nodes]. apply (wf_nodes g (rg_wf _ _ _ _ _ G)).
Qed.

(** on a well-formed, well-typed aliased call the outcome is never a success that meets the
    specification: it is RuntimeError with the host already changed, unless every node is external
    and [e] is the only edge -- and then the returned graph lacks the copy of [e] *)
Corollary replace_alias_old_guarded : forall L g nx e, repl_guard L g nx e g ->
  (exists g' nx', replace_edge_alias_model_old g nx e = (g', nx', Err RuntimeErr) /\
                  has_edge_id g' (e_id e) = false /\ g' <> g)
  \/ (exists nm, replace_edge_alias_model_old g nx e = (remove_edge_id g (e_id e), nx, Ok (nm, [])) /\
                 ~ replace_spec g e g (remove_edge_id g (e_id e)) nm []).
Proof.
  intros L g nx e G. pose proof (replace_alias_old_explicit L g nx e G) as E. cbv zeta in E.
  assert (GONE : has_edge_id (remove_edge_id g (e_id e)) (e_id e) = false).
  { unfold has_edge_id, remove_edge_id; cbn [g_edges]. destruct (existsb _ _) eqn:X; auto.
    apply existsb_exists in X. destruct X as [x [Hx Hi]]. apply filter_In in Hx. destruct Hx as [_ Hx].
    rewrite Hi in Hx. discriminate. }
  assert (HAS : has_edge_id g (e_id e) = true).
  { unfold has_edge_id. apply existsb_exists. exists e; split; [apply (rg_in _ _ _ _ _ G) | apply id_eqb_refl]. }
  destruct (nonext g) as [|v vs].
  - destruct (kept g e) as [|re res] eqn:K.
    + right. eexists. split; [exact E|]. eapply replace_alias_old_never_spec; eauto.
    + left. eexists _, _. split; [exact E|]. split.
      * unfold has_edge_id, add_edges; cbn [g_edges]. rewrite existsb_app. fold (has_edge_id (remove_edge_id g (e_id e)) (e_id e)).
        rewrite GONE. cbn [existsb e_id orb]. rewrite orb_false_r.
        destruct (id_eqb (Fresh nx) (e_id e)) eqn:Q; auto. apply id_eqb_eq in Q.
        destruct (rg_below _ _ _ _ _ G) as [_ B2]. specialize (B2 e (rg_in _ _ _ _ _ G)). rewrite <- Q in B2. simpl in B2. lia.
      * intro H. rewrite <- H in HAS.
        unfold has_edge_id, add_edges in HAS; cbn [g_edges] in HAS. rewrite existsb_app in HAS.
        fold (has_edge_id (remove_edge_id g (e_id e)) (e_id e)) in HAS. rewrite GONE in HAS. cbn [existsb e_id orb] in HAS.
        rewrite orb_false_r in HAS. apply id_eqb_eq in HAS.
        destruct (rg_below _ _ _ _ _ G) as [_ B2]. specialize (B2 e (rg_in _ _ _ _ _ G)). rewrite <- HAS in B2. simpl in B2. lia.
  - left. eexists _, _. split; [exact E|]. split.
    + unfold push_node, has_edge_id; cbn [g_edges]. exact GONE.
    + intro H. apply (f_equal (fun x => length (g_nodes x))) in H.
      unfold push_node in H; cbn [g_nodes remove_edge_id] in H. rewrite app_length in H. simpl in H. lia.
Qed.

(** the code as it is now: the replacement is read before the host is mutated, so the aliased call is
    the functional model with [r := g]; on a well-formed host whose type is the edge's it returns a
    result satisfying the replacement specification (a copy of [e] itself included), and
    well-formedness, the counter bound and the label discipline are preserved *)
Theorem replace_self_spec : forall L g nx e,
  wf_graphb g = true -> belowb nx g = true -> memb edge_eqb (g_edges g) e = true ->
  nodupb node_eqb (g_ext g) = true -> functionalb L = true -> labels_in L g = true ->
  (l_type (e_label e) = gtype g ->
     exists g' nx' nm em, replace_edge_self_model g nx e = (g', nx', Ok (nm, em)) /\ replace_spec g e g g' nm em /\
                          wf_graphb g' = true /\ belowb nx' g' = true /\ labels_in L g' = true /\ nx <= nx')
  /\ (l_type (e_label e) <> gtype g -> replace_edge_self_model g nx e = (g, nx, Err ValueErr)).
Proof.
  intros L g nx e H1 H2 H3 H4 H5 H6. unfold replace_edge_self_model.
  exact (replace_spec_main L g nx e g H1 H2 H3 H1 H4 H5 H6 H6).
Qed.

(** in particular the edge map is defined on [e] itself: the result contains a copy of [e] *)
Corollary replace_self_copies_e : forall L g nx e,
  wf_graphb g = true -> belowb nx g = true -> memb edge_eqb (g_edges g) e = true ->
  nodupb node_eqb (g_ext g) = true -> functionalb L = true -> labels_in L g = true ->
  l_type (e_label e) = gtype g ->
  exists g' nx' nm em ge, replace_edge_self_model g nx e = (g', nx', Ok (nm, em)) /\
                          In (e, ge) em /\ In ge (g_edges g') /\ e_label ge = e_label e.
Proof.
  intros L g nx e H1 H2 H3 H4 H5 H6 HT.
  destruct (proj1 (replace_self_spec L g nx e H1 H2 H3 H4 H5 H6) HT) as [g' [nx' [nm [em [A [S _]]]]]].
  pose proof (rs_edge_in _ _ _ _ _ _ S) as I. rewrite <- (rs_em_dom _ _ _ _ _ _ S) in I.
  apply in_map_iff in I. destruct I as [[re ge] [E I]]. cbn [fst] in E. subst re.
  exists g', nx', nm, em, ge. split; auto. split; auto. split.
  - rewrite (rs_edges _ _ _ _ _ _ S). apply in_app_iff; right. apply in_map_iff. exists (e, ge); auto.
  - apply (rs_em_copy _ _ _ _ _ _ S e ge I).
Qed.

(** witnesses (the faithful model of the OLD code violates the property on well-formed inputs):
    1. host  a(ext) -t- b, X(b): b is internal, so one node is copied and RuntimeError is raised
       with the edge already removed;
    2. host  a(ext), X(a)  only: the call RETURNS an empty edge map and a graph without any
       X edge, where a replacement by the caller's graph must contain a copy of X(a) *)
Definition al_t : elabel := mkLab 1 [0; 0] true.
Definition al_X : elabel := mkLab 0 [0] false.
Definition al_a : node := mkNode (Explicit 0) 0.
Definition al_b : node := mkNode (Explicit 1) 0.
Definition al_e : edge := mkEdge (Explicit 1) al_X [al_b].
Definition al_host1 : graph := mkGraph [al_a; al_b] [mkEdge (Explicit 0) al_t [al_a; al_b]; al_e] [al_a] [al_t; al_X] [0].
Definition al_e2 : edge := mkEdge (Explicit 0) al_X [al_a].
Definition al_host2 : graph := mkGraph [al_a] [al_e2] [al_a] [al_X] [0].

Theorem replace_alias_old_refuted :
  (* raises half-way *)
  (wf_graphb al_host1 = true /\ belowb 0 al_host1 = true /\ memb edge_eqb (g_edges al_host1) al_e = true /\
   nodupb node_eqb (g_ext al_host1) = true /\ functionalb [al_t; al_X] = true /\ labels_in [al_t; al_X] al_host1 = true /\
   l_type (e_label al_e) = gtype al_host1 /\
   exists g', replace_edge_alias_model_old al_host1 0 al_e = (g', 1, Err RuntimeErr) /\
              length (g_nodes g') = 3 /\ length (g_edges g') = 1) /\
  (* returns a non-replacement *)
  (wf_graphb al_host2 = true /\ belowb 0 al_host2 = true /\ memb edge_eqb (g_edges al_host2) al_e2 = true /\
   nodupb node_eqb (g_ext al_host2) = true /\ functionalb [al_X] = true /\ labels_in [al_X] al_host2 = true /\
   l_type (e_label al_e2) = gtype al_host2 /\
   exists g' nm, replace_edge_alias_model_old al_host2 0 al_e2 = (g', 0, Ok (nm, [])) /\ g_edges g' = [] /\
                 ~ replace_spec al_host2 al_e2 al_host2 g' nm [] /\
                 (* whereas the code as it is now (snapshot first) keeps the copy of X(a) *)
                 exists g'' nm' em', replace_edge_self_model al_host2 0 al_e2 = (g'', 1, Ok (nm', em')) /\
                                     length (g_edges g'') = 1 /\ replace_spec al_host2 al_e2 al_host2 g'' nm' em').
Proof.
  split.
  - repeat split; try reflexivity. eexists. vm_compute. repeat split.
  - repeat split; try reflexivity. eexists _, _. split; [vm_compute; reflexivity|]. split; [reflexivity|]. split.
    + apply replace_ok_false. vm_compute. reflexivity.
    + eexists _, _, _. split; [vm_compute; reflexivity|]. split; [reflexivity|].
      apply replace_ok_iff. vm_compute. reflexivity.
Qed.

(** the same with the boolean guards of C15_replace_spec *)
Theorem replace_alias_old_guarded_b : forall L g nx e,
  wf_graphb g = true -> belowb nx g = true -> memb edge_eqb (g_edges g) e = true ->
  nodupb node_eqb (g_ext g) = true -> functionalb L = true -> labels_in L g = true ->
  l_type (e_label e) = gtype g ->
  (exists g' nx', replace_edge_alias_model_old g nx e = (g', nx', Err RuntimeErr) /\
                  has_edge_id g' (e_id e) = false /\ g' <> g)
  \/ (exists nm, replace_edge_alias_model_old g nx e = (remove_edge_id g (e_id e), nx, Ok (nm, [])) /\
                 ~ replace_spec g e g (remove_edge_id g (e_id e)) nm []).
Proof.
  intros L g nx e H1 H2 H3 H4 H5 H6 HT. apply (replace_alias_old_guarded L).
  apply repl_guard_of_bool; auto.
Qed.
