(** C07 on typed operands: the patterned einsum equals the dense semiring einsum, without any
    certificate premise.

    [typed_operands G next lty ts inputs]: one index type [lty l] (a list of good primes) per einsum
    index, every operand well formed and its axis at index [l] typed by [lty l] in the common
    context [G] (whose variables are below the counter [next] of fresh axes).

    [einsum_run_typed]: for such operands every premise of [einsum_raw_correct] /
    [einsum_zero_correct] holds; [einsum_typed_correct]: the result (before [__post_init__], which
    is the identity) denotes [einsum_dense] of the denotations of the GIVEN operands at every
    in-range output index, in every commutative semiring, on all exits (the zero-size exit cannot
    be taken: good index types have no empty factor); [einsum_model_typed]: the same for
    [einsum_model]; [mv_typed] / [mm_typed]. *)
From Coq Require Import List Arith Lia PeanoNat Bool PArith.
Import ListNotations.
Require Import Fggs.Model.Semiring Fggs.Model.SumProduct.
Require Import Fggs.Model.Axis Fggs.Model.AxisCheck Fggs.Model.PTensor Fggs.Model.Einsum Fggs.Model.EinsumCheck Fggs.Model.EinsumCert.
Require Import Fggs.Proofs.Axis_sem Fggs.Proofs.Axis_unify Fggs.Proofs.Axis_complete_gen Fggs.Proofs.Axis_repr.
Require Import Fggs.Proofs.Axis_typed Fggs.Proofs.Axis_total Fggs.Proofs.Axis_rank.
Require Import Fggs.Proofs.PTensor_sem Fggs.Proofs.PTensor_dense Fggs.Proofs.PTEqual_dense Fggs.Proofs.PTEqual_typed.
Require Import Fggs.Proofs.Einsum_dense Fggs.Proofs.Einsum_envs Fggs.Proofs.Einsum_support Fggs.Proofs.Einsum_form.
Require Import Fggs.Proofs.Einsum_views Fggs.Proofs.Einsum_reduce Fggs.Proofs.Einsum_subst Fggs.Proofs.Einsum_loop.
Require Import Fggs.Proofs.Einsum_project Fggs.Proofs.Einsum_reindex Fggs.Proofs.Einsum_main Fggs.Proofs.Einsum_final Fggs.Proofs.Einsum_top Fggs.Proofs.Einsum_orig.
Require Import Fggs.Proofs.Einsum_typed_base Fggs.Proofs.Einsum_typed_prep Fggs.Proofs.Einsum_typed_loop Fggs.Proofs.Einsum_typed_views Fggs.Proofs.Einsum_typed_cert.

Lemma Forall2_trans' {A B C} (P : A -> B -> Prop) (Q : B -> C -> Prop) (S : A -> C -> Prop) l1 l2 l3 :
  (forall a b c, P a b -> Q b c -> S a c) -> Forall2 P l1 l2 -> Forall2 Q l2 l3 -> Forall2 S l1 l3.
Proof.
  intros H F1. revert l3. induction F1 as [|a b l1 l2 Hab _ IH]; intros l3 F2; inversion F2; subst; constructor; eauto.
Qed.

Lemma dense_axes_no_unit shp : forall next k n, In (k, n) (flat_map fvn (fst (dense_axes shp next))) -> n <> 1.
Proof.
  induction shp as [|m shp IH]; intros next k n H; [contradiction|]. simpl in H. destruct (Nat.eqb_spec m 1) as [->|Hm].
  - destruct (dense_axes shp next) as [r0 nx] eqn:Ed. simpl in H. apply (IH next k n). rewrite Ed. exact H.
  - destruct (dense_axes shp (Pos.succ next)) as [r0 nx] eqn:Ed. simpl in H. destruct H as [H|H].
    + inversion H; subst. exact Hm.
    + apply (IH (Pos.succ next) k n). rewrite Ed. exact H.
Qed.

Section TypedMain.
Context {R : Type} (o : sr_ops R).
Hypothesis Hr : sr_ring o.
Variable veqb : R -> R -> bool.
Hypothesis Hveqb : forall a b, veqb a b = true -> a = b.
Notation r0 := (Semiring.zero o).
Hypothesis Hrefl : veqb r0 r0 = true.
Notation stensor := (stensor (R:=R)).
Variable lty : nat -> list ity.
Hypothesis Hlty : forall l, gprimes (lty l).

Record typed_operands (G : ctx) (next : positive) (ts : list stensor) (inputs : list (list nat)) : Prop := {
  to_good : ctx_good G;
  to_below : ctx_below G next;
  to_ops : Forall2 (op_typed lty G) ts inputs }.

(** * what a run consists of, continued *)
Lemma einsum_run_inv2 genabled next ts inputs output r :
  einsum_run o veqb genabled next ts inputs output = Ok r ->
  (er_failed r || er_zero_axis r = true -> exists nx, er_raw r = fst (pt_full R (map numel (er_outv r)) r0 nx)) /\
  (er_failed r = false ->
     er_zero_axis r = existsb (fun d : positive * nat * nat => Nat.eqb (snd (fst d)) 0) (flat_map (vw_dims (R:=R)) (er_views r)) /\
     (er_zero_axis r = false -> fv_list (sfuel (er_sigma r) (er_outv r)) (er_sigma r) (er_outv r) = Ok (er_outp r))).
Proof.
  unfold einsum_run. intros H.
  destruct (default_all veqb genabled r0 next ts) as [ts1 nx1].
  destruct (eloop _ _ _ _ _) as [[s fts]|]; [|discriminate]. cbn [bind] in H.
  destruct (mapM _ output) as [outv|]; [|discriminate]. cbn [bind] in H.
  destruct (ls_zero s).
  - inversion H; subst; clear H. cbn [er_failed er_zero_axis er_raw er_outv]. split; [intros _; eexists; reflexivity|intros D; discriminate D].
  - destruct (mapM (project_view (us_subst (ls_u s))) fts) as [views|]; [|discriminate]. cbn [bind] in H.
    destruct (existsb _ (flat_map vw_dims views)) eqn:E4.
    + inversion H; subst; clear H. cbn [er_failed er_zero_axis er_raw er_outv er_views].
      split; [intros _; eexists; reflexivity|]. intros _. split; [symmetry; exact E4|intros D; discriminate D].
    + destruct (fv_list _ _ outv) as [outp|] eqn:E5; [|discriminate]. cbn [bind] in H. inversion H; subst; clear H.
      cbn [er_failed er_zero_axis er_raw er_outv er_views er_sigma er_outp].
      split; [intros D; discriminate D|]. intros _. split; [symmetry; exact E4|intros _; exact E5].
Qed.

(** * the loop invariant holds at the end of every run on typed operands *)
Theorem einsum_run_typed G genabled next ts inputs output r :
  typed_operands G next ts inputs ->
  einsum_run o veqb genabled next ts inputs output = Ok r ->
  exists G' s nx1,
    einv lty nx1 r0 G' s (er_ts r) inputs /\
    er_sigma r = us_subst (ls_u s) /\ er_i2v r = ls_i2v s /\ er_failed r = ls_zero s /\
    mapM (fun l => match lassoc l (er_i2v r) with
                   | Some e => clone (sfuel (er_sigma r) [e]) (er_sigma r) e
                   | None => Fail OtherError end) output = Ok (er_outv r) /\
    (er_failed r = false -> mapM (project_view (er_sigma r)) (er_ts r) = Ok (er_views r)) /\
    Forall2 (fun t t' : stensor => same_dense (st_pt t) (st_pt t')) ts (er_ts r).
Proof.
  intros [CG CB Fo] Hrun.
  destruct (einsum_run_inv o veqb genabled next ts inputs output r Hrun) as (s & ts1 & nx1 & E0 & E1 & Es & Ei & Ef & E2 & Rest).
  destruct (default_all_typed lty Hlty veqb Hveqb genabled r0 ts inputs G next ts1 nx1 CG CB Fo E0)
    as (G1 & CG1 & CB1 & L1 & X1 & T1 & D1 & S1).
  set (s0 := mkLS [] [] {| us_subst := []; us_next := nx1; us_warn := false |} false) in *.
  assert (E00 : einv lty nx1 r0 G1 s0 [] []).
  { split.
    - split; cbn [ls_u ls_fv ls_i2v ls_zero s0 us_next us_subst us_warn].
      + split; cbn [us_next us_subst]; [exact CG1|exact CB1|apply wts_nil].
      + reflexivity.
      + lia.
      + intros k [].
      + intros l e0 H. discriminate H.
      + intros l e [].
      + reflexivity.
      + intros rho _. split; [reflexivity|]. exists rho. split; [reflexivity|]. split; constructor.
    - reflexivity.
    - reflexivity.
    - constructor.
    - constructor.
    - constructor. }
  destruct (eloop_typed lty Hlty nx1 r0 (efuel ts1) ts1 inputs s0 [] s (er_ts r) G1 [] E00 T1 D1) as (G' & new & Ef' & E' & Sn).
  { intros t Ht k Hk. destruct (Forall2_In_l _ _ _ _ T1 Ht) as (inp & _ & Tt). exact (op_typed_keys_below lty G1 nx1 t inp CB1 Tt k Hk). }
  { exact E1. }
  simpl in Ef', E'. subst new.
  exists G', s, nx1. split; [exact E'|]. split; [exact Es|]. split; [exact Ei|]. split; [exact Ef|].
  split; [rewrite Es, Ei; exact E2|]. split.
  - intros Hf. rewrite Es. exact (proj1 (Rest Hf)).
  - eapply Forall2_trans'; [|exact S1|exact Sn]. intros a b c. apply same_dense_trans.
Qed.

(** * all premises of the certificate *)
Theorem einsum_cert_typed G genabled next ts inputs output r :
  typed_operands G next ts inputs ->
  einsum_run o veqb genabled next ts inputs output = Ok r ->
  Forall (st_ok (R:=R)) (er_ts r) /\
  cert_operands o veqb r inputs output = true /\
  er_zero_axis r = false /\
  (er_failed r = false -> cert_subst r = true /\ cert_views r = true) /\
  cert_complete r inputs = true.
Proof.
  intros TO Hrun.
  destruct (einsum_run_typed G genabled next ts inputs output r TO Hrun) as (G' & s & nx1 & E & Es & Ei & Ef & E2 & E3 & _).
  destruct (einsum_run_inv2 genabled next ts inputs output r Hrun) as [_ I2].
  split.
  { pose proof (ei_ops _ _ _ _ _ _ _ E) as Fo. apply Forall_forall. intros t Ht.
    destruct (Forall2_In_l _ _ _ _ Fo Ht) as (inp & _ & _ & _ & Ok'). exact Ok'. }
  split; [exact (typed_cert_operands o veqb Hrefl lty nx1 r inputs output G' s E Ei E2)|].
  destruct (er_failed r) eqn:Hf.
  - assert (Z : er_zero_axis r = false).
    { clear -Hrun Hf. unfold einsum_run in Hrun.
      destruct (default_all veqb genabled r0 next ts) as [ts1 nx1].
      destruct (eloop _ _ _ _ _) as [[s fts]|]; [|discriminate]. cbn [bind] in Hrun.
      destruct (mapM _ output) as [outv|]; [|discriminate]. cbn [bind] in Hrun.
      destruct (ls_zero s).
      - inversion Hrun; subst. reflexivity.
      - destruct (mapM (project_view (us_subst (ls_u s))) fts) as [views|]; [|discriminate]. cbn [bind] in Hrun.
        destruct (existsb _ (flat_map vw_dims views)).
        + inversion Hrun; subst. discriminate Hf.
        + destruct (fv_list _ _ outv) as [outp|]; [|discriminate]. cbn [bind] in Hrun. inversion Hrun; subst. discriminate Hf. }
    split; [exact Z|]. split; [intros D; discriminate D|].
    unfold cert_complete. rewrite Hf. cbn [orb]. apply Nat.eqb_eq.
    apply (typed_count_zero o lty nx1 r inputs G' s E Es Ei). rewrite <- Ef. reflexivity.
  - specialize (E3 eq_refl). destruct (I2 eq_refl) as [Ez E5].
    assert (Z : er_zero_axis r = false).
    { rewrite Ez. exact (c_no_zero_axis o lty nx1 r inputs G' s E Es E3). }
    specialize (E5 Z). split; [exact Z|]. split.
    + intros _. split.
      * exact (typed_cert_subst o lty Hlty nx1 r inputs output G' s E Es Ei E2 E3 E5).
      * exact (typed_cert_views o lty nx1 r inputs output G' s E Es Ei E2 E3 E5).
    + unfold cert_complete. rewrite Hf, Z. cbn [orb]. apply Nat.leb_le.
      exact (typed_count_le o lty nx1 r inputs output G' s E Es Ei E2 E3 E5).
Qed.

(** * the specification on the operands the algorithm works on = on the given operands *)
Lemma einsum_dense_same (r : erun (R:=R)) (ts0 : list (ptensor R)) inputs output oidx :
  cert_operands o veqb r inputs output = true ->
  Forall2 same_dense ts0 (map st_pt (er_ts r)) ->
  Forall2 lt oidx (einsum_shape (map (dn (R:=R)) (map st_pt (er_ts r))) inputs output) ->
  einsum_dense o (map (dn (R:=R)) (map st_pt (er_ts r))) inputs output oidx
  = einsum_dense o (map (dn (R:=R)) ts0) inputs output oidx.
Proof.
  intros CO SD Hb. set (ts := map st_pt (er_ts r)) in *.
  destruct (co_facts o veqb Hveqb r inputs output CO) as (HL & HW & HD & HF & HN & Hout & Hi2v & Hsz). fold ts in HL, HW, HD, HF, HN, Hi2v, Hsz.
  assert (P1 : length ts0 = length ts) by exact (Forall2_len _ _ _ SD).
  assert (Es : map fst (map (dn (R:=R)) ts) = map fst (map (dn (R:=R)) ts0)).
  { rewrite !map_map. cbn [dn fst]. clear -SD. induction SD as [|t0 t l l' [E _] _ IH]; [reflexivity|]. simpl. rewrite E, IH. reflexivity. }
  apply einsum_dense_ext_bounds; [exact Es| |exact Hb|].
  - rewrite map_map. cbn [dn fst]. change (map (fun x : ptensor R => shape R x) ts) with (map (shape R) ts).
    assert (Gn : forall (tl : list (ptensor R)) il, Forall2 (fun t inp => length (vaxes t) = length inp) tl il ->
              (forall l e, In (l, e) (occurrences tl il) -> In (l, e) (occurrences ts inputs)) ->
              Forall2 (fun op inp => fst op = map (lval (label_sizes (map (shape R) ts) inputs)) inp) (map (dn (R:=R)) tl) il).
    { induction 1 as [|t inp tl il Ft F2 IH]; intros Hocc; constructor.
      - cbn [dn fst]. unfold shape.
        apply (map_eq_combine numel (lval (label_sizes (map (shape R) ts) inputs)) (vaxes t) inp Ft). intros e l Hin.
        assert (Hoc : In (l, e) (occurrences ts inputs)) by (apply Hocc; rewrite occurrences_cons; apply in_or_app; left; exact Hin).
        destruct (Hsz l e Hoc) as (e0 & E0 & En). rewrite <- En. symmetry.
        pose proof (sz_spec ts inputs (er_i2v r) HF Hsz l e0) as S. rewrite map_map in S. cbn [dn fst] in S.
        apply S; [|exact E0]. apply (in_concat_occ ts inputs l HF). exists e. exact Hoc.
      - apply IH. intros l e Hin. apply Hocc. rewrite occurrences_cons. apply in_or_app. right. exact Hin. }
    apply (Gn ts inputs HF). auto.
  - intros j idx Hj Hbj. rewrite map_length in Hj.
    set (d0 := mkPT (fun _ : list nat => Semiring.zero o) [] [] (Semiring.zero o)).
    rewrite (nth_indep (map (dn (R:=R)) ts) _ (dn d0)) in Hbj |- * by (rewrite map_length; exact Hj).
    rewrite (nth_indep (map (dn (R:=R)) ts0) _ (dn d0)) by (rewrite map_length; lia).
    rewrite !map_nth in *. cbn [dn fst snd] in *.
    set (t := nth j ts d0) in *. set (t0 := nth j ts0 d0).
    assert (Hpair : In (t0, t) (combine ts0 ts)).
    { unfold t0, t. rewrite <- (combine_nth ts0 ts j d0 d0 P1). apply nth_In. rewrite combine_length. lia. }
    destruct (Forall2_In_combine _ _ _ _ _ SD Hpair) as [Sh Dn]. apply Dn. rewrite <- Sh. exact Hbj.
Qed.

(** * the main theorem on [einsum_run] *)
Theorem einsum_typed_correct G genabled next ts inputs output r :
  typed_operands G next ts inputs ->
  einsum_run o veqb genabled next ts inputs output = Ok r ->
  forall oidx, Forall2 lt oidx (einsum_shape (map (dn (R:=R)) (map st_pt ts)) inputs output) ->
  denote R (er_raw r) oidx = einsum_dense o (map (dn (R:=R)) (map st_pt ts)) inputs output oidx.
Proof.
  intros TO Hrun oidx Hb.
  destruct (einsum_cert_typed G genabled next ts inputs output r TO Hrun) as (OK & CO & Z & CSV & CC).
  destruct (einsum_run_typed G genabled next ts inputs output r TO Hrun) as (_ & _ & _ & _ & _ & _ & _ & _ & _ & SD).
  assert (SD' : Forall2 same_dense (map st_pt ts) (map st_pt (er_ts r))).
  { clear -SD. induction SD; simpl; constructor; assumption. }
  assert (Esh : einsum_shape (map (dn (R:=R)) (map st_pt (er_ts r))) inputs output = einsum_shape (map (dn (R:=R)) (map st_pt ts)) inputs output).
  { unfold einsum_shape.
    assert (Em : map fst (map (dn (R:=R)) (map st_pt (er_ts r))) = map fst (map (dn (R:=R)) (map st_pt ts))).
    { clear -SD'. induction SD' as [|a b l l' [E _] _ IH]; [reflexivity|]. simpl. rewrite E, IH. reflexivity. }
    rewrite Em. reflexivity. }
  rewrite <- Esh in Hb.
  rewrite <- (einsum_dense_same r (map st_pt ts) inputs output oidx CO SD' Hb).
  destruct (er_failed r) eqn:Hf.
  - apply (einsum_zero_correct o Hr veqb Hveqb genabled next ts inputs output r Hrun); [rewrite Hf; reflexivity|exact CO|exact CC].
  - destruct (CSV eq_refl) as [CS CV].
    assert (Lo : length oidx = length output).
    { apply Forall2_len in Hb. unfold einsum_shape in Hb. rewrite map_length in Hb. exact Hb. }
    exact (proj2 (einsum_raw_correct o Hr veqb Hveqb genabled next ts inputs output r Hrun Hf Z OK CO CS CV oidx Lo) CC).
Qed.

(** * [einsum_model]: with the empty operand list and [__post_init__] *)
Lemma post_init_pt_full shp d next : post_init R (fst (pt_full R shp d next)) = Ok (fst (pt_full R shp d next)).
Proof.
  apply post_init_id. unfold pt_full. rewrite (pt_of_dense_eq R shp (fun _ => d) d next). cbn [paxes].
  apply forallb_forall. intros [k n] Hk. cbn [snd]. apply negb_true_iff. apply Nat.eqb_neq. exact (dense_axes_no_unit shp next k n Hk).
Qed.

Theorem einsum_model_typed G genabled next ts inputs output p :
  typed_operands G next ts inputs ->
  einsum_model o veqb genabled next ts inputs output = Ok p ->
  forall oidx, Forall2 lt oidx (einsum_shape (map (dn (R:=R)) (map st_pt ts)) inputs output) ->
  denote R p oidx = einsum_dense o (map (dn (R:=R)) (map st_pt ts)) inputs output oidx.
Proof.
  intros TO H oidx Hb. unfold einsum_model in H. destruct ts as [|t ts'].
  - inversion H; subst p. clear H. pose proof (to_ops _ _ _ _ TO) as Fo. inversion Fo; subst. simpl in Hb.
    assert (Eo : output = [] /\ oidx = []).
    { unfold einsum_shape in Hb. simpl in Hb. destruct output as [|l out]; [inversion Hb; auto|]. simpl in Hb. inversion Hb; subst. unfold lval in *. simpl in *. lia. }
    destruct Eo as [-> ->]. cbn [map]. rewrite (einsum_dense_empty o Hr).
    apply (pt_of_dense_denote R [] (fun _ => one o) r0 next []). constructor.
  - destruct (einsum_run o veqb genabled next (t :: ts') inputs output) as [r|] eqn:Hrun; [|discriminate]. cbn [bind] in H.
    assert (Ep : p = er_raw r).
    { destruct (einsum_cert_typed G genabled next (t :: ts') inputs output r TO Hrun) as (_ & _ & Z & CSV & _).
      destruct (er_failed r) eqn:Hf.
      - destruct (proj1 (einsum_run_inv2 genabled next (t :: ts') inputs output r Hrun)) as (nx & Er); [rewrite Hf; reflexivity|].
        rewrite Er, post_init_pt_full in H. inversion H; subst. symmetry. exact Er.
      - destruct (CSV eq_refl) as [_ CV].
        rewrite (einsum_post_init_id o veqb genabled next (t :: ts') inputs output r Hrun Hf Z CV) in H. inversion H. reflexivity. }
    subst p. exact (einsum_typed_correct G genabled next (t :: ts') inputs output r TO Hrun oidx Hb).
Qed.

(** * mv / mm *)
Lemma dn_shape2 G (a : stensor) l1 l2 : op_typed lty G a [l1; l2] -> shape R (st_pt a) = [tsizes (lty l1); tsizes (lty l2)].
Proof. intros (_ & T & _). unfold shape. rewrite (tys_shape _ _ _ T). reflexivity. Qed.
Lemma dn_shape1 G (a : stensor) l1 : op_typed lty G a [l1] -> shape R (st_pt a) = [tsizes (lty l1)].
Proof. intros (_ & T & _). unfold shape. rewrite (tys_shape _ _ _ T). reflexivity. Qed.

Theorem mv_typed G genabled next (a v : stensor) p :
  typed_operands G next [a; v] [[0; 1]; [1]] ->
  mv_model o veqb genabled next a v = Ok p ->
  forall i, i < tsizes (lty 0) ->
  denote R p [i] = sumS o (seq 0 (tsizes (lty 1))) (fun j => mul o (denote R (st_pt a) [i; j]) (denote R (st_pt v) [j])).
Proof.
  intros TO H i Hi. pose proof (to_ops _ _ _ _ TO) as Fo. inversion Fo as [|? ? ? ? Ta Fo']; subst. inversion Fo' as [|? ? ? ? Tv _]; subst.
  unfold mv_model in H.
  rewrite (einsum_model_typed G genabled next [a; v] [[0; 1]; [1]] [0] p TO H [i]).
  - cbn [map]. unfold dn. rewrite (dn_shape2 G a 0 1 Ta), (dn_shape1 G v 1 Tv). apply (einsum_dense_mv o Hr).
  - unfold einsum_shape. cbn [map]. unfold dn. cbn [fst map]. rewrite (dn_shape2 G a 0 1 Ta), (dn_shape1 G v 1 Tv). constructor; [exact Hi|constructor].
Qed.

Theorem mm_typed G genabled next (a m : stensor) p :
  typed_operands G next [a; m] [[0; 1]; [1; 2]] ->
  mm_model o veqb genabled next a m = Ok p ->
  forall i k, i < tsizes (lty 0) -> k < tsizes (lty 2) ->
  denote R p [i; k] = sumS o (seq 0 (tsizes (lty 1))) (fun j => mul o (denote R (st_pt a) [i; j]) (denote R (st_pt m) [j; k])).
Proof.
  intros TO H i k Hi Hk. pose proof (to_ops _ _ _ _ TO) as Fo. inversion Fo as [|? ? ? ? Ta Fo']; subst. inversion Fo' as [|? ? ? ? Tm _]; subst.
  unfold mm_model in H.
  rewrite (einsum_model_typed G genabled next [a; m] [[0; 1]; [1; 2]] [0; 2] p TO H [i; k]).
  - cbn [map]. unfold dn. rewrite (dn_shape2 G a 0 1 Ta), (dn_shape2 G m 1 2 Tm). apply (einsum_dense_mm o Hr).
  - unfold einsum_shape. cbn [map]. unfold dn. cbn [fst map]. rewrite (dn_shape2 G a 0 1 Ta), (dn_shape2 G m 1 2 Tm).
    constructor; [exact Hi|]. constructor; [exact Hk|constructor].
Qed.

(** the main theorem with the hypothesis spelled out *)
Theorem einsum_model_typed_explicit G genabled next ts inputs output p :
  ctx_good G -> ctx_below G next ->
  Forall2 (fun (t : stensor) inp => wf R (st_pt t) /\ tys G (vaxes (st_pt t)) (map lty inp) /\ st_ok t) ts inputs ->
  einsum_model o veqb genabled next ts inputs output = Ok p ->
  forall oidx, Forall2 lt oidx (einsum_shape (map (dn (R:=R)) (map st_pt ts)) inputs output) ->
  denote R p oidx = einsum_dense o (map (dn (R:=R)) (map st_pt ts)) inputs output oidx.
Proof.
  intros CG CB Fo. apply (einsum_model_typed G). split; [exact CG|exact CB|exact Fo].
Qed.
End TypedMain.
