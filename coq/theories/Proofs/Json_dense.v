(** C14, weights, layer A: the strided [to_dense] of the model computes "the physical element
    whose image under the axes is the given virtual index, the default where there is none".
    - [Axis.stride] is the affine form of the value [ax_eval] of an axis;
    - [project] turns it into a storage offset = row-major position of the tuple of axis values;
    - the strided copy writes each physical element there. *)
From Coq Require Import List Arith Bool PeanoNat ZArith Lia Permutation.
Import ListNotations.
Require Import Fggs.Model.Json Fggs.Proofs.Json_base.
Local Open Scope nat_scope.

(** * induction principles for the nested types *)
Fixpoint axis_ind' (P : axis -> Prop)
  (HP : forall k n, P (APhys k n)) (HPr : forall fs, Forall P fs -> P (AProd fs))
  (HS : forall b t a, P t -> P (ASum b t a)) (e : axis) : P e :=
  match e with
  | APhys k n => HP k n
  | AProd fs => HPr fs ((fix go (l : list axis) : Forall P l :=
                           match l with
                           | [] => Forall_nil P
                           | x :: l' => Forall_cons x (axis_ind' P HP HPr HS x) (go l')
                           end) fs)
  | ASum b t a => HS b t a (axis_ind' P HP HPr HS t)
  end.

(** * the value of an axis at a physical index [f : axis number -> coordinate] *)
Fixpoint ax_eval (f : nat -> nat) (e : axis) : nat :=
  match e with
  | APhys k _ => f k
  | AProd fs => fold_left (fun acc g => acc * ax_numel g + ax_eval f g) fs 0
  | ASum b t _ => b + ax_eval f t
  end.

(** every physical axis occurring in [e] has its coordinate in range *)
Fixpoint ax_ok (f : nat -> nat) (e : axis) : Prop :=
  match e with
  | APhys k n => f k < n
  | AProd fs => (fix go (l : list axis) : Prop := match l with [] => True | x :: l' => ax_ok f x /\ go l' end) fs
  | ASum _ t _ => ax_ok f t
  end.

Lemma ax_ok_prod : forall f fs, ax_ok f (AProd fs) <-> Forall (ax_ok f) fs.
Proof.
  intros f. induction fs as [|x fs IH]; cbn.
  - split; [constructor|trivial].
  - split.
    + intros [H1 H2]. constructor; [assumption|]. now apply IH.
    + intro H. inversion H; subst. split; [assumption|]. now apply IH.
Qed.

Lemma prod_eval_bound : forall f fs acc N,
  Forall (fun g => ax_eval f g < ax_numel g) fs -> acc < N ->
  fold_left (fun acc g => acc * ax_numel g + ax_eval f g) fs acc < N * fold_right (fun g a => ax_numel g * a) 1 fs.
Proof.
  intros f. induction fs as [|g fs IH]; intros acc N Hall Hacc; cbn.
  - lia.
  - inversion Hall as [|? ? Hg Hall']; subst.
    specialize (IH (acc * ax_numel g + ax_eval f g) (N * ax_numel g) Hall').
    rewrite Nat.mul_assoc. apply IH. nia.
Qed.

Lemma ax_eval_lt : forall f e, ax_ok f e -> ax_eval f e < ax_numel e.
Proof.
  intros f. induction e as [k n|fs IH|b t a IH] using axis_ind'; intro Hok.
  - exact Hok.
  - apply ax_ok_prod in Hok. cbn [ax_eval ax_numel].
    assert (Forall (fun g => ax_eval f g < ax_numel g) fs) as Hall.
    { clear - IH Hok. induction fs as [|g fs IHf]; [constructor|].
      inversion IH; subst. inversion Hok; subst. constructor; [auto|auto]. }
    pose proof (prod_eval_bound f fs 0 1 Hall (Nat.lt_0_1)) as Hb. lia.
  - cbn in *. specialize (IH Hok). lia.
Qed.

(** * stride dictionaries *)
Definition sd_dot (st : sdict) (f : nat -> nat) : nat :=
  fold_right (fun kc acc => snd kc * f (fst kc) + acc) 0 st.

Definition nthp (p : list nat) (k : nat) : nat := nth k p 0.

Lemma dot_index_sd_dot : forall st p, dot_index st p = sd_dot st (nthp p).
Proof. reflexivity. Qed.

Lemma sd_dot_add : forall d k c f, sd_dot (sd_add d k c) f = sd_dot d f + c * f k.
Proof.
  unfold sd_dot. induction d as [|[k' c'] d IH]; intros k c f; cbn.
  - lia.
  - destruct (Nat.eqb k' k) eqn:E; cbn.
    + apply Nat.eqb_eq in E. subst. lia.
    + rewrite IH. lia.
Qed.

Lemma sd_dot_scale : forall n d f, sd_dot (sd_scale n d) f = n * sd_dot d f.
Proof. unfold sd_dot. intros n. induction d as [|[k c] d IH]; intro f; cbn; [lia|]. rewrite IH. lia. Qed.

Lemma sd_dot_merge : forall s d n f, sd_dot (sd_merge d s n) f = sd_dot d f + n * sd_dot s f.
Proof.
  unfold sd_merge. induction s as [|[k c] s IH]; intros d n f.
  - cbn [fold_left]. change (sd_dot [] f) with 0. lia.
  - cbn [fold_left fst snd]. rewrite IH, sd_dot_add. change (sd_dot ((k, c) :: s) f) with (c * f k + sd_dot s f). lia.
Qed.

Lemma sd_merge_keys : forall s d n k, In k (map fst (sd_merge d s n)) <-> In k (map fst d) \/ In k (map fst s).
Proof.
  assert (forall d k0 c k, In k (map fst (sd_add d k0 c)) <-> In k (map fst d) \/ k = k0) as Hadd.
  { induction d as [|[k' c'] d IH]; intros k0 c k; cbn.
    - split; [intros [H|[]]; auto|intros [[]|H]; auto].
    - destruct (Nat.eqb k' k0) eqn:E; cbn.
      + apply Nat.eqb_eq in E. subst. split; [intros [H|H]; auto|intros [[H|H]|H]; auto].
      + rewrite IH. split; [intros [H|[H|H]]; auto|intros [[H|H]|H]; auto]. }
  unfold sd_merge. induction s as [|[k0 c0] s IH]; intros d n k; cbn.
  - split; [auto|intros [H|[]]; auto].
  - rewrite IH, Hadd. cbn. split; [intros [[H|H]|H]; auto|intros [H|[H|H]]; auto].
Qed.

Lemma sd_scale_keys : forall n d, map fst (sd_scale n d) = map fst d.
Proof. intros n d. unfold sd_scale. rewrite map_map. apply map_ext. reflexivity. Qed.

(** [Axis.stride] is the affine form of [ax_eval] *)
Lemma ax_stride_eval : forall f e, fst (ax_stride e) + sd_dot (snd (ax_stride e)) f = ax_eval f e.
Proof.
  intros f. induction e as [k n|fs IH|b t a IH] using axis_ind'.
  - cbn [ax_stride ax_eval fst snd]. change (sd_dot [(k, 1)] f) with (1 * f k + 0). lia.
  - cbn [ax_stride ax_eval].
    assert (forall (acc : nat * sdict) ev, fst acc + sd_dot (snd acc) f = ev ->
              let r := fold_left (fun (acc : nat * sdict) g =>
                                    (fst acc * ax_numel g + fst (ax_stride g),
                                     sd_merge (sd_scale (ax_numel g) (snd acc)) (snd (ax_stride g)) 1)) fs acc in
              fst r + sd_dot (snd r) f = fold_left (fun a g => a * ax_numel g + ax_eval f g) fs ev) as Hgen.
    { induction fs as [|g fs IHf]; intros acc ev Hacc; cbn; [exact Hacc|].
      inversion IH as [|? ? Hg IH']; subst. apply (IHf IH'). cbn [fst snd].
      rewrite sd_dot_merge, sd_dot_scale. rewrite <- Hg. lia. }
    apply (Hgen (0, []) 0). reflexivity.
  - cbn [ax_stride ax_eval fst snd]. rewrite <- IH. lia.
Qed.

(** the physical axes occurring in an axis *)
Fixpoint ax_axes (e : axis) : list nat :=
  match e with
  | APhys k _ => [k]
  | AProd fs => flat_map ax_axes fs
  | ASum _ t _ => ax_axes t
  end.

Lemma ax_stride_keys : forall e k, In k (map fst (snd (ax_stride e))) <-> In k (ax_axes e).
Proof.
  induction e as [k0 n|fs IH|b t a IH] using axis_ind'; intro k.
  - cbn. tauto.
  - cbn [ax_stride ax_axes].
    assert (forall (acc : nat * sdict),
              In k (map fst (snd (fold_left (fun (acc : nat * sdict) g =>
                                    (fst acc * ax_numel g + fst (ax_stride g),
                                     sd_merge (sd_scale (ax_numel g) (snd acc)) (snd (ax_stride g)) 1)) fs acc)))
              <-> In k (map fst (snd acc)) \/ In k (flat_map ax_axes fs)) as Hgen.
    { induction fs as [|g fs IHf]; intros acc; cbn; [tauto|].
      inversion IH as [|? ? Hg IH']; subst. rewrite (IHf IH'). cbn [snd].
      rewrite sd_merge_keys, sd_scale_keys, Hg, in_app_iff. tauto. }
    rewrite Hgen. cbn. tauto.
  - cbn. apply IH.
Qed.

(** * [project]: the offset of the view *)
Definition lin (f : nat -> nat) (vaxes : list axis) (vs : list nat) : nat :=
  fold_right (fun en acc => ax_eval f (fst en) * snd en + acc) 0 (combine vaxes vs).

Lemma project_strides_eval : forall f vaxes vs,
  fst (project_strides vaxes vs) + sd_dot (snd (project_strides vaxes vs)) f = lin f vaxes vs.
Proof.
  intros f vaxes vs. unfold project_strides, lin.
  assert (forall l (acc : nat * sdict),
            let r := fold_left (fun (acc : nat * sdict) (en : axis * nat) =>
                                  (fst acc + fst (ax_stride (fst en)) * snd en,
                                   sd_merge (snd acc) (snd (ax_stride (fst en))) (snd en))) l acc in
            fst r + sd_dot (snd r) f =
            fst acc + sd_dot (snd acc) f + fold_right (fun en a => ax_eval f (fst en) * snd en + a) 0 l) as Hgen.
  { induction l as [|[e n] l IH]; intros acc; cbn; [lia|].
    rewrite IH. cbn [fst snd]. rewrite sd_dot_merge. rewrite <- (ax_stride_eval f e). lia. }
  rewrite Hgen. cbn. lia.
Qed.

Lemma project_strides_keys : forall vaxes vs k, length vs = length vaxes ->
  (In k (map fst (snd (project_strides vaxes vs))) <-> In k (flat_map ax_axes vaxes)).
Proof.
  intros vaxes vs k Hlen. unfold project_strides.
  assert (forall l (acc : nat * sdict),
            In k (map fst (snd (fold_left (fun (acc : nat * sdict) (en : axis * nat) =>
                                  (fst acc + fst (ax_stride (fst en)) * snd en,
                                   sd_merge (snd acc) (snd (ax_stride (fst en))) (snd en))) l acc)))
            <-> In k (map fst (snd acc)) \/ In k (flat_map ax_axes (map fst l))) as Hgen.
  { induction l as [|[e n] l IH]; intros acc; cbn; [tauto|].
    rewrite IH. cbn [snd fst]. rewrite sd_merge_keys, ax_stride_keys, in_app_iff. tauto. }
  rewrite Hgen. cbn.
  assert (map fst (combine vaxes vs) = vaxes) as ->.
  { revert vs Hlen. induction vaxes as [|e vaxes IHv]; intros [|n vs] Hl; cbn in *; try discriminate; [reflexivity|].
    f_equal. apply IHv. lia. }
  tauto.
Qed.

(** * row-major layout *)
Definition flat_index (shape idx : list nat) : nat :=
  fold_right (fun ic acc => fst ic * snd ic + acc) 0 (combine idx (cstrides shape)).

Lemma flat_index_cons : forall n sh i idx, flat_index (n :: sh) (i :: idx) = i * prod_list sh + flat_index sh idx.
Proof. reflexivity. Qed.

Lemma lin_flat_index : forall f vaxes,
  lin f vaxes (cstrides (map ax_numel vaxes)) = flat_index (map ax_numel vaxes) (map (ax_eval f) vaxes).
Proof.
  intros f. unfold lin, flat_index. induction vaxes as [|e vaxes IH]; cbn; [reflexivity|]. now rewrite IH.
Qed.

Inductive in_bounds : list nat -> list nat -> Prop :=
| ib_nil : in_bounds [] []
| ib_cons : forall i idx n sh, i < n -> in_bounds idx sh -> in_bounds (i :: idx) (n :: sh).

Lemma flat_index_lt : forall sh idx, in_bounds idx sh -> flat_index sh idx < prod_list sh.
Proof.
  intros sh idx H. induction H as [|i idx n sh Hi _ IH].
  - cbn. lia.
  - rewrite flat_index_cons. cbn [prod_list fold_right]. fold (prod_list sh). nia.
Qed.

Lemma flat_index_inj : forall sh idx idx', in_bounds idx sh -> in_bounds idx' sh ->
  flat_index sh idx = flat_index sh idx' -> idx = idx'.
Proof.
  intros sh idx idx' H. revert idx'. induction H as [|i idx n sh Hi Hb IH]; intros idx' H' E.
  - now inversion H'.
  - inversion H' as [|i' idx0 ? ? Hi' Hb']; subst. rewrite !flat_index_cons in E.
    pose proof (flat_index_lt sh idx Hb) as L1. pose proof (flat_index_lt sh idx0 Hb') as L2.
    assert (i = i') as -> by nia. f_equal. apply IH; [assumption|lia].
Qed.

Lemma nth_error_firstn_lt : forall {A : Type} (l : list A) m j, j < m -> nth_error (firstn m l) j = nth_error l j.
Proof.
  intros A. induction l as [|x l IH]; intros [|m] [|j] H; cbn; try reflexivity; try lia.
  apply IH. lia.
Qed.

Lemma nth_error_skipn_add : forall {A : Type} (l : list A) k j, nth_error (skipn k l) j = nth_error l (k + j).
Proof.
  intros A. induction l as [|x l IH]; intros [|k] j; cbn; try reflexivity.
  - now destruct j.
  - apply IH.
Qed.

Lemma skipn_skipn' : forall {A : Type} (l : list A) a b, skipn a (skipn b l) = skipn (b + a) l.
Proof.
  intros A l a b. revert l. induction b as [|b IH]; intro l; [reflexivity|].
  destruct l as [|x l]; cbn; [now destruct a|apply IH].
Qed.

Lemma nth_error_chunks : forall {A : Type} m n (l : list A) i, i < n ->
  nth_error (chunks m n l) i = Some (firstn m (skipn (i * m) l)).
Proof.
  intros A m. induction n as [|n IH]; intros l i Hi; [lia|]. cbn [chunks].
  destruct i as [|i]; cbn [nth_error].
  - reflexivity.
  - rewrite IH by lia. rewrite skipn_skipn'. replace (S i * m) with (m + i * m) by (cbn; lia). reflexivity.
Qed.

(** reading the nested tensor = reading the storage at the row-major position *)
Lemma tens_get_of_flat : forall sh flat idx,
  length flat = prod_list sh -> in_bounds idx sh ->
  tens_get (tens_of_flat sh flat) idx = nth_error flat (flat_index sh idx).
Proof.
  induction sh as [|n sh IH]; intros flat idx Hlen Hb.
  - inversion Hb; subst. cbn in *. destruct flat as [|x [|y flat]]; cbn in *; try discriminate. reflexivity.
  - inversion Hb as [|i idx' ? ? Hi Hb']; subst. cbn [tens_of_flat tens_get].
    rewrite (map_nth_error _ i (chunks (prod_list sh) n flat) (nth_error_chunks _ _ _ _ Hi)).
    assert (prod_list (n :: sh) = n * prod_list sh) as Hp by reflexivity. rewrite Hp in Hlen.
    pose proof (flat_index_lt sh idx' Hb') as Hlt.
    rewrite IH; [| |assumption].
    + rewrite nth_error_firstn_lt by assumption. rewrite nth_error_skipn_add. now rewrite flat_index_cons.
    + rewrite firstn_length, skipn_length. nia.
Qed.

(** * the index space of a shape *)
Lemma all_indices_in : forall sh p, In p (all_indices sh) <-> in_bounds p sh.
Proof.
  induction sh as [|n sh IH]; intro p; cbn.
  - split; [intros [<-|[]]; constructor|intro H; inversion H; now left].
  - rewrite in_flat_map. split.
    + intros [i [Hi Hp]]. apply in_seq in Hi. apply in_map_iff in Hp as [q [<- Hq]].
      constructor; [lia|now apply IH].
    + intro H. inversion H as [|i q ? ? Hi Hq]; subst. exists i. split; [apply in_seq; lia|].
      apply in_map. now apply IH.
Qed.

(** * the strided copy *)
Lemma list_set_length : forall {A : Type} (l : list A) i x, length (list_set l i x) = length l.
Proof. intros A. induction l as [|y l IH]; intros [|i] x; cbn; auto. Qed.

Lemma nth_error_list_set_eq : forall {A : Type} (l : list A) i x, i < length l -> nth_error (list_set l i x) i = Some x.
Proof. intros A. induction l as [|y l IH]; intros [|i] x H; cbn in *; try lia; [reflexivity|]. apply IH. lia. Qed.

Lemma nth_error_list_set_neq : forall {A : Type} (l : list A) i j x, i <> j -> nth_error (list_set l i x) j = nth_error l j.
Proof.
  intros A. induction l as [|y l IH]; intros [|i] [|j] x H; cbn; try reflexivity; try lia. apply IH. lia.
Qed.

Section Scatter.
  Variables (pos : list nat -> nat) (val : list nat -> option num).
  Definition scatter_step (fl : list num) (p : list nat) : list num :=
    match val p with Some v => list_set fl (pos p) v | None => fl end.

  Lemma scatter_length : forall ps init, length (fold_left scatter_step ps init) = length init.
  Proof.
    induction ps as [|p ps IH]; intro init; cbn; [reflexivity|]. rewrite IH. unfold scatter_step.
    destruct (val p); [apply list_set_length|reflexivity].
  Qed.

  Lemma scatter_untouched : forall ps init i, (forall p, In p ps -> pos p <> i) ->
    nth_error (fold_left scatter_step ps init) i = nth_error init i.
  Proof.
    induction ps as [|p ps IH]; intros init i H; cbn; [reflexivity|].
    rewrite IH by (intros q Hq; apply H; now right). unfold scatter_step.
    destruct (val p); [|reflexivity]. apply nth_error_list_set_neq. apply H. now left.
  Qed.

  Lemma scatter_written : forall ps init i p v,
    i < length init ->
    (forall q q', In q ps -> In q' ps -> pos q = pos q' -> val q = val q') ->
    In p ps -> pos p = i -> val p = Some v ->
    nth_error (fold_left scatter_step ps init) i = Some v.
  Proof.
    induction ps as [|pl ps IH] using rev_ind; intros init i p v Hi Hc Hin Hp Hv; [inversion Hin|].
    rewrite fold_left_app. cbn [fold_left]. unfold scatter_step at 1.
    destruct (Nat.eq_dec (pos pl) i) as [E|E].
    - assert (val pl = Some v) as ->.
      { rewrite <- Hv. apply Hc; [apply in_or_app; right; now left|assumption|congruence]. }
      rewrite E. apply nth_error_list_set_eq. now rewrite scatter_length.
    - assert (In p ps) as Hin'.
      { apply in_app_or in Hin as [Hin|[<-|[]]]; [assumption|congruence]. }
      assert (nth_error (fold_left scatter_step ps init) i = Some v) as Hr.
      { apply (IH init i p v Hi); try assumption.
        intros q q' Hq Hq'. apply Hc; apply in_or_app; now left. }
      destruct (val pl); [|exact Hr]. rewrite nth_error_list_set_neq by assumption. exact Hr.
  Qed.
End Scatter.

(** * layer A *)
Definition evals (pt : ptensor) (p : list nat) : list nat := map (ax_eval (nthp p)) (pt_vaxes pt).

(** the axes are in scope: an occurrence [APhys k n] names the [k]-th physical axis, of size [n] *)
Definition axes_scoped (pt : ptensor) : Prop :=
  forall e, In e (pt_vaxes pt) -> forall p, in_bounds p (pt_pshape pt) -> ax_ok (nthp p) e.

Lemma evals_in_bounds : forall pt p, axes_scoped pt -> in_bounds p (pt_pshape pt) ->
  in_bounds (evals pt p) (pt_shape pt).
Proof.
  intros pt p Hs Hp. unfold evals, pt_shape. unfold axes_scoped in Hs.
  induction (pt_vaxes pt) as [|e l IH]; cbn; [constructor|].
  constructor.
  - apply ax_eval_lt. apply Hs; [now left|assumption].
  - apply IH. intros e' He'. apply Hs. now right.
Qed.

Lemma pos_is_flat_index : forall pt p,
  fst (project_strides (pt_vaxes pt) (cstrides (pt_shape pt))) +
  dot_index (snd (project_strides (pt_vaxes pt) (cstrides (pt_shape pt)))) p
  = flat_index (pt_shape pt) (evals pt p).
Proof.
  intros pt p. rewrite dot_index_sd_dot, project_strides_eval. unfold pt_shape, evals. apply lin_flat_index.
Qed.

Theorem dense_spec : forall pt t,
  pt_to_dense pt = Ok t ->
  axes_scoped pt ->
  (forall p p', in_bounds p (pt_pshape pt) -> in_bounds p' (pt_pshape pt) ->
                evals pt p = evals pt p' -> phys_at pt p = phys_at pt p') ->
  forall idx, in_bounds idx (pt_shape pt) ->
    (forall p v, in_bounds p (pt_pshape pt) -> evals pt p = idx -> phys_at pt p = Some v -> tens_get t idx = Some v) /\
    ((forall p, in_bounds p (pt_pshape pt) -> evals pt p <> idx) -> tens_get t idx = Some (pt_default pt)).
Proof.
  intros pt t H Hscoped Hinj idx Hidx. unfold pt_to_dense in H.
  destruct (negb _); [discriminate|]. inversion H; subst t. clear H.
  set (os := project_strides (pt_vaxes pt) (cstrides (pt_shape pt))) in *.
  set (pos := fun p => fst os + dot_index (snd os) p).
  set (init := repeat (pt_default pt) (prod_list (pt_shape pt))).
  change (fold_left _ (all_indices (pt_pshape pt)) init)
    with (fold_left (scatter_step pos (phys_at pt)) (all_indices (pt_pshape pt)) init).
  assert (length init = prod_list (pt_shape pt)) as Hlen by apply repeat_length.
  assert (forall p, pos p = flat_index (pt_shape pt) (evals pt p)) as Hpos by (intro p; apply pos_is_flat_index).
  rewrite tens_get_of_flat; [|now rewrite scatter_length|assumption].
  pose proof (flat_index_lt _ _ Hidx) as Hlt.
  split.
  - intros p v Hp He Hv. apply (scatter_written pos (phys_at pt) _ init _ p v).
    + now rewrite Hlen.
    + intros q q' Hq Hq' E. apply all_indices_in in Hq, Hq'. apply Hinj; try assumption.
      rewrite !Hpos in E. eapply flat_index_inj; [| |exact E]; now apply evals_in_bounds.
    + now apply all_indices_in.
    + now rewrite Hpos, He.
    + exact Hv.
  - intro Hno. rewrite scatter_untouched.
    + unfold init. apply nth_error_repeat. exact Hlt.
    + intros p Hp E. apply all_indices_in in Hp. rewrite Hpos in E.
      apply (Hno p Hp). eapply flat_index_inj; [| |exact E]; [now apply evals_in_bounds|assumption].
Qed.
